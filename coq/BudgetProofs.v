(* BudgetProofs.v — the library's outstanding-request list always contains the property's live
   outstanding requests (in order), hence the property's budget sum never exceeds the library's
   counter, hence 48 (C03_budget_spec). *)
From Coq Require Import List NArith Bool Arith Lia.
From LB Require Import Tables Framing NodeFlow NodeFlowProofs DispatchProofs BudgetSpec.
Import ListNotations.
Local Open Scope N_scope.

(* ---- sublist facts ---- *)
Lemma sublist_trans {X} (a b c : list X) : sublist a b -> sublist b c -> sublist a c.
Proof.
  intros Hab Hbc. revert a Hab. induction Hbc as [|x l1 l2 H IH|x l1 l2 H IH]; intros a Hab.
  - exact Hab.
  - apply sub_skip. apply IH. exact Hab.
  - inversion Hab as [|y a1 a2 H1|y a1 a2 H1]; subst.
    + apply sub_skip. apply IH. exact H1.
    + apply sub_take. apply IH. exact H1.
Qed.

Lemma sublist_filter {X} (f : X -> bool) l : sublist (filter f l) l.
Proof. induction l as [|x l IH]; cbn; [constructor|]. destruct (f x); [apply sub_take|apply sub_skip]; exact IH. Qed.

Lemma sublist_cons_not {X} (P : X -> Prop) (l r : list X) x :
  sublist l (x :: r) -> Forall P l -> ~ P x -> sublist l r.
Proof.
  intros Hs Hl Hx. inversion Hs as [|y l1 l2 H|y l1 l2 H]; subst; [exact H|].
  inversion Hl; subst. contradiction.
Qed.

Lemma sublist_cons_inv {X} (l r : list X) x :
  sublist l (x :: r) -> sublist l r \/ exists l1, l = x :: l1 /\ sublist l1 r.
Proof. intros Hs. inversion Hs as [|y l1 l2 H|y l1 l2 H]; subst; [left; exact H|right; exists l1; auto]. Qed.

Lemma sublist_nil_r {X} (l : list X) : sublist l [] -> l = [].
Proof. inversion 1. reflexivity. Qed.

Lemma sumsz_sublist a b : sublist a b -> sumsz a <= sumsz b.
Proof. induction 1; cbn [sumsz]; lia. Qed.

(* ---- live / answer_first ---- *)
Lemma live_all_live now l : Forall (fun e => is_live now e = true) (live now l).
Proof. unfold live. apply Forall_forall. intros e He. apply filter_In in He. tauto. Qed.

Lemma live_af_cases now rty l :
  live now (answer_first now rty l) = live now l \/
  exists e L1, live now l = e :: L1 /\ answers_b (fst e) rty = true /\ live now (answer_first now rty l) = L1.
Proof.
  induction l as [|e r IH]; [left; reflexivity|]. cbn [answer_first]. destruct (is_live now e) eqn:El.
  - destruct (answers_b (fst e) rty) eqn:Ea.
    + right. exists e, (live now r). unfold live. cbn [filter]. rewrite El. auto.
    + left. reflexivity.
  - unfold live in *. cbn [filter]. rewrite El. exact IH.
Qed.

Lemma live_af_sub now rty l : sublist (live now (answer_first now rty l)) (live now l).
Proof.
  destruct (live_af_cases now rty l) as [->|(e & L1 & -> & _ & ->)]; [apply sublist_refl|apply sub_skip, sublist_refl].
Qed.

Lemma live_af_head now rty l e L1 : live now l = e :: L1 -> answers_b (fst e) rty = true ->
  live now (answer_first now rty l) = L1.
Proof.
  revert e L1. induction l as [|x r IH]; intros e L1 Hl Ha; [discriminate|]. unfold live in Hl. cbn [filter answer_first] in *.
  destruct (is_live now x) eqn:El.
  - injection Hl as <- <-. rewrite Ha. reflexivity.
  - unfold live. cbn [filter]. rewrite El. apply (IH e L1 Hl Ha).
Qed.

Lemma answers_from_info ty i rty : 2 <= i -> i <= info_cnt ty -> info_at ty i = rty -> answers_b ty rty = true.
Proof.
  intros H2 Hc He. unfold answers_b. apply existsb_exists. exists (N.to_nat i). split.
  - apply in_seq. lia.
  - rewrite N2Nat.id. apply N.eqb_eq. exact He.
Qed.

Lemma live_mono now n l : now <= n -> sublist (live n l) (live now l).
Proof.
  intros Hn. induction l as [|e r IH]; [constructor|]. unfold live in *. cbn [filter].
  destruct (is_live n e) eqn:E1.
  - assert (E2 : is_live now e = true) by (unfold is_live in *; apply N.ltb_lt in E1; apply N.ltb_lt; lia).
    rewrite E2. apply sub_take. exact IH.
  - destruct (is_live now e); [apply sub_skip|]; exact IH.
Qed.

(* ---- bidib_node_state_update versus the specification's answer rule ---- *)
Lemma upd_loop_refines fuel : forall i v rty now l, 2 <= i ->
  sublist (live now l) (n_resp v) ->
  sublist (live now (answer_first now rty l)) (n_resp (fst (upd_loop fuel i v rty now))).
Proof.
  induction fuel as [|f IH]; intros i v rty now l Hi Hs; cbn [upd_loop].
  - eapply sublist_trans; [apply live_af_sub|exact Hs].
  - destruct (n_resp v) as [|[ty c] rest] eqn:E.
    + cbn [fst]. rewrite E. eapply sublist_trans; [apply live_af_sub|exact Hs].
    + assert (Hkeep : sublist (live now (answer_first now rty l)) (n_resp v)).
      { rewrite E. eapply sublist_trans; [apply live_af_sub|exact Hs]. }
      assert (Hpop : n_resp (pop_resp v) = rest) by (unfold pop_resp; rewrite E; reflexivity).
      destruct (i <=? info_cnt ty) eqn:Ec; [|exact Hkeep]. apply N.leb_le in Ec.
      destruct (info_at ty i =? rty) eqn:Em.
      * (* matched: the head is popped *)
        apply N.eqb_eq in Em. cbn [fst]. rewrite Hpop.
        destruct (sublist_cons_inv _ _ _ Hs) as [H|(l1 & Hl & H)].
        -- eapply sublist_trans; [apply live_af_sub|exact H].
        -- rewrite (live_af_head now rty l (ty, c) l1 Hl (answers_from_info ty i rty Hi Ec Em)). exact H.
      * destruct (expiry_secs <=? now - c) eqn:Ex.
        -- (* expired head dropped *)
           assert (Hrest : sublist (live now l) rest).
           { apply (sublist_cons_not (fun e => is_live now e = true) _ _ (ty, c) Hs (live_all_live now l)).
             unfold is_live. cbn [snd]. apply N.leb_le in Ex. intro Hc. apply N.ltb_lt in Hc. lia. }
           destruct rest as [|r0 rest'] eqn:Er.
           ++ cbn [fst]. rewrite Hpop. apply sublist_nil_r in Hrest. 
              destruct (live_af_cases now rty l) as [->|(e & L1 & Hl & _ & _)]; [rewrite Hrest; constructor|rewrite Hrest in Hl; discriminate].
           ++ apply IH; [lia|]. rewrite Hpop. exact Hrest.
        -- apply IH; [lia|]. rewrite E. exact Hs.
Qed.

(* ---- effect of the table operations on the outstanding lists ---- *)
Definition rel_of (b : list N) (g : group) : list (N * list N) := if addr_eqb b (fst g) then snd g else [].

Lemma transmitted_app now a b : transmitted now (a ++ b) = transmitted now a ++ transmitted now b.
Proof. unfold transmitted. rewrite filter_app, map_app. reflexivity. Qed.

Lemma add_response_resp v ty now : n_resp (add_response v ty now) = n_resp v ++ transmitted now [(ty, [])].
Proof. unfold add_response, transmitted. cbn [filter fst]. destruct (0 <? resp_size ty); cbn; [reflexivity|rewrite app_nil_r; reflexivity]. Qed.

Lemma transmitted_ty now ty m m' : transmitted now [(ty, m)] = transmitted now [(ty, m')].
Proof. unfold transmitted. cbn [filter fst]. destruct (0 <? resp_size ty); reflexivity. Qed.

Lemma try_send_resp t a ty m now :
  let '(t', ok) := try_send t a ty m now in
  forall b, n_resp (get t' b) = n_resp (get t b) ++ (if ok && addr_eqb b a then transmitted now [(ty, m)] else []).
Proof.
  unfold try_send. pose proof (stall_ready_spec (ensure t a) a) as Hs.
  destruct (stall_ready (ensure t a) a) as [t2 ready]. destruct Hs as (Hsame & _).
  assert (H2 : forall b, n_resp (get t2 b) = n_resp (get t b)).
  { intros b. destruct (Hsame b) as [(_ & B & _) _]. rewrite get_ensure in B. exact B. }
  destruct (ready && _ && _); intros b; cbn [andb].
  - destruct (addr_eqb_spec b a) as [->|Hn].
    + rewrite get_store_same, add_response_resp, H2. rewrite (transmitted_ty now ty [] m). reflexivity.
    + rewrite get_store_other by congruence. rewrite H2, app_nil_r. reflexivity.
  - rewrite app_nil_r. destruct (addr_eqb_spec a b) as [<-|Hn].
    + rewrite get_store_same. cbn [with_flow n_resp]. apply H2.
    + rewrite get_store_other by exact Hn. apply H2.
Qed.

Lemma try_queued_loop_resp fuel : forall t a now acc,
  let '(t', ms) := try_queued_loop fuel t a now acc in
  exists rel, ms = acc ++ rel /\
    forall b, n_resp (get t' b) = n_resp (get t b) ++ (if addr_eqb b a then transmitted now rel else []).
Proof.
  induction fuel as [|f IH]; intros t a now acc; cbn [try_queued_loop].
  - exists []. rewrite app_nil_r. split; [reflexivity|]. intros b. destruct (addr_eqb b a); rewrite app_nil_r; reflexivity.
  - pose proof (stall_ready_spec t a) as Hs. destruct (stall_ready t a) as [t1 ready]. destruct Hs as (Hsame & _).
    assert (H1 : forall b, n_resp (get t1 b) = n_resp (get t b)) by (intros b; destruct (Hsame b) as [(_ & B & _) _]; exact B).
    assert (Hstop : exists rel, acc = acc ++ rel /\ forall b, n_resp (get t1 b) = n_resp (get t b) ++ (if addr_eqb b a then transmitted now rel else [])).
    { exists []. rewrite app_nil_r. split; [reflexivity|]. intros b. rewrite H1. destruct (addr_eqb b a); rewrite app_nil_r; reflexivity. }
    destruct ready; [|exact Hstop].
    destruct (n_held (get t1 a)) as [|[ty m] rest] eqn:Eh; [exact Hstop|].
    destruct (n_used (get t1 a) + resp_size ty <=? response_limit); [|exact Hstop].
    set (v1 := add_response (with_flow (get t1 a) (n_used (get t1 a)) (n_resp (get t1 a)) rest) ty now).
    specialize (IH (store t1 a v1) a now (acc ++ [(ty, m)])).
    destruct (try_queued_loop f (store t1 a v1) a now (acc ++ [(ty, m)])) as [t' ms].
    destruct IH as (rel & Hms & Hr). exists ((ty, m) :: rel). split; [rewrite Hms, <- app_assoc; reflexivity|].
    intros b. rewrite Hr. destruct (addr_eqb_spec b a) as [->|Hn].
    + rewrite get_store_same. unfold v1. rewrite add_response_resp. cbn [with_flow n_resp]. rewrite H1, <- app_assoc.
      f_equal. change ((ty, m) :: rel) with ([(ty, m)] ++ rel). rewrite transmitted_app, (transmitted_ty now ty [] m). reflexivity.
    + rewrite get_store_other by congruence. rewrite H1. reflexivity.
Qed.

Lemma try_queued_resp t a now :
  let '(t', gs) := try_queued t a now in
  (exists rel, gs = [(a, rel)]) /\
  forall b, n_resp (get t' b) = n_resp (get t b) ++ transmitted now (flat_map (rel_of b) gs).
Proof.
  unfold try_queued. pose proof (try_queued_loop_resp (S (length (n_held (get t a)))) t a now []) as H.
  destruct (try_queued_loop _ t a now []) as [t1 ms]. destruct H as (rel & Hms & Hr). cbn [app] in Hms. subst ms.
  split; [exists rel; reflexivity|].
  intros b. rewrite Hr. cbn [flat_map rel_of fst snd]. rewrite app_nil_r. unfold rel_of. cbn [fst snd].
  destruct (addr_eqb b a); reflexivity.
Qed.

Lemma rel_of_other b a rel : b <> a -> flat_map (rel_of b) [(a, rel)] = [].
Proof. intros Hn. cbn. unfold rel_of. cbn [fst snd]. destruct (addr_eqb_spec b a); [congruence|reflexivity]. Qed.

Lemma release_waiters_resp ws : forall t now acc,
  let '(t', gs) := release_waiters ws t now acc in
  exists more, gs = acc ++ more /\
    forall b, n_resp (get t' b) = n_resp (get t b) ++ transmitted now (flat_map (rel_of b) more).
Proof.
  induction ws as [|w r IH]; intros t now acc; cbn [release_waiters].
  - exists []. rewrite app_nil_r. split; [reflexivity|]. intros b. cbn. rewrite app_nil_r. reflexivity.
  - destruct (lookup t w); [|apply IH].
    pose proof (try_queued_resp t w now) as Hq. destruct (try_queued t w now) as [t1 o].
    specialize (IH t1 now (acc ++ o)). destruct (release_waiters r t1 now (acc ++ o)) as [t' gs].
    destruct Hq as [_ Hq]. destruct IH as (more & Hgs & Hr). exists (o ++ more). split; [rewrite Hgs, app_assoc; reflexivity|].
    intros b. rewrite Hr, Hq, flat_map_app, transmitted_app, app_assoc. reflexivity.
Qed.

(* ---- on_update / on_stall / uplink ---- *)
Definition R (now : N) (spec : list N -> list (N * N)) (t : table) : Prop :=
  forall b, sublist (live now (spec b)) (n_resp (get t b)).

Lemma live_app now a b : live now (a ++ b) = live now a ++ live now b.
Proof. unfold live. apply filter_app. Qed.

Lemma live_transmitted now es : live now (transmitted now es) = transmitted now es.
Proof.
  unfold live, transmitted. induction (filter (fun e => 0 <? resp_size (fst e)) es) as [|e r IH]; [reflexivity|].
  cbn [map filter]. unfold is_live at 1. cbn [snd]. rewrite N.sub_diag. change (0 <? expiry_secs) with true. cbn iota. f_equal. exact IH.
Qed.

Lemma sublist_app2 {X} (a b c : list X) : sublist a b -> sublist (a ++ c) (b ++ c).
Proof. intros H. apply sublist_app; [exact H|apply sublist_refl]. Qed.

Lemma on_update_resp t a rty now l : sublist (live now l) (n_resp (get t a)) ->
  let '(t', gs) := on_update t a rty now in
  sublist (live now (answer_first now rty l ++ transmitted now (flat_map (rel_of a) gs))) (n_resp (get t' a)) /\
  (forall b, b <> a -> n_resp (get t' b) = n_resp (get t b) /\ flat_map (rel_of b) gs = []).
Proof.
  intros Hs. unfold on_update. destruct (lookup t a) as [v|] eqn:El.
  2:{ cbn [flat_map]. unfold transmitted at 1. cbn. rewrite app_nil_r. split; [|auto].
      eapply sublist_trans; [apply live_af_sub|exact Hs]. }
  assert (Hgv : get t a = v) by (apply lookup_get; exact El). rewrite Hgv in Hs.
  destruct (n_resp v) as [|e0 l0] eqn:Er.
  { cbn [flat_map]. unfold transmitted at 1. cbn. rewrite app_nil_r, Hgv, Er. split; [|auto].
    eapply sublist_trans; [apply live_af_sub|exact Hs]. }
  rewrite <- Er in Hs.
  pose proof (upd_loop_refines 8 2 v rty now l ltac:(lia) Hs) as Hu.
  destruct (upd_loop 8 2 v rty now) as [v1 matched]. cbn [fst] in Hu.
  destruct matched.
  - pose proof (try_queued_resp (store t a v1) a now) as Hq. destruct (try_queued (store t a v1) a now) as [t' gs].
    destruct Hq as [(rel & ->) Hq]. split.
    + rewrite Hq, get_store_same, live_app, live_transmitted. apply sublist_app2. exact Hu.
    + intros b Hb. rewrite Hq. rewrite get_store_other by congruence.
      rewrite (rel_of_other b a rel Hb). cbn. rewrite app_nil_r. auto.
  - cbn [flat_map]. unfold transmitted at 1. cbn. rewrite app_nil_r, get_store_same. split; [exact Hu|].
    intros b Hb. rewrite get_store_other by congruence. auto.
Qed.

Lemma on_stall_resp t a st now :
  let '(t', gs) := on_stall t a st now in
  forall b, n_resp (get t' b) = n_resp (get t b) ++ transmitted now (flat_map (rel_of b) gs).
Proof.
  unfold on_stall. destruct (st =? 0).
  - set (t2 := store (ensure t a) a (with_waiters (with_stall (get (ensure t a) a) false) [])).
    assert (H2 : forall b, n_resp (get t2 b) = n_resp (get t b)).
    { intros b. unfold t2. destruct (addr_eqb_spec a b) as [<-|Hn].
      - rewrite get_store_same, get_ensure. reflexivity.
      - rewrite get_store_other by exact Hn. rewrite get_ensure. reflexivity. }
    pose proof (release_waiters_resp (n_waiters (get (ensure t a) a)) t2 now []) as Hr.
    destruct (release_waiters (n_waiters (get (ensure t a) a)) t2 now []) as [t' gs].
    destruct Hr as (more & Hgs & Hr). cbn [app] in Hgs. subst gs. intros b. rewrite Hr, H2. reflexivity.
  - intros b. cbn. rewrite app_nil_r. destruct (addr_eqb_spec a b) as [<-|Hn].
    + rewrite get_store_same, get_ensure. reflexivity.
    + rewrite get_store_other by exact Hn. rewrite get_ensure. reflexivity.
Qed.

Lemma released_rel x gs : flat_map (released_to x) (map GReleased gs) = flat_map (rel_of x) gs.
Proof.
  induction gs as [|[b es] r IH]; [reflexivity|]. cbn [map flat_map]. rewrite IH. f_equal.
Qed.

Definition clock_mono_step (now : N) (e : fev) : bool := match e with FTime n => now <=? n | _ => true end.

Lemma tab_step_budget t so now e spec : R now spec t -> clock_mono_step now e = true ->
  let '(t', _, now', gouts, _) := tab_step t so now e in
  R now' (fun b => spec_step b now e gouts (spec b)) t'.
Proof.
  intros HR Hm. destruct e as [a3 ty data|a rty last|n| |c|bb|]; cbn [tab_step].
  - (* FSend *)
    unfold submit_tab.
    assert (H1 : exists t1 sq, (if so then alloc_sseq t (canon a3) else (t, 0)) = (t1, sq) /\ forall b, n_resp (get t1 b) = n_resp (get t b)).
    { destruct so.
      - unfold alloc_sseq. eexists _, _. split; [reflexivity|]. intros b. destruct (addr_eqb_spec (canon a3) b) as [<-|Hn].
        + rewrite get_store_same, get_ensure. reflexivity.
        + rewrite get_store_other by exact Hn. rewrite get_ensure. reflexivity.
      - exists t, 0. auto. }
    destruct H1 as (t1 & sq & -> & H1).
    destruct (encode_msg a3 sq ty data) as [m|]; [|intros b; cbn [spec_step]; apply HR].
    pose proof (try_send_resp t1 (canon a3) ty m now) as Hs. destruct (try_send t1 (canon a3) ty m now) as [t2 ok].
    intros b. cbn [spec_step]. rewrite Hs, H1. destruct ok; cbn [andb].
    + destruct (addr_eqb b (canon a3)).
      * rewrite live_app, live_transmitted. apply sublist_app2. apply HR.
      * rewrite app_nil_r. apply HR.
    + rewrite app_nil_r. apply HR.
  - (* FUp *)
    unfold uplink_tab.
    pose proof (on_update_resp t a rty now (spec a) (HR a)) as Hu. destruct (on_update t a rty now) as [t1 g1].
    destruct Hu as [Hua Huo].
    assert (Hst : exists t2 g2, (if rty =? MSG_STALL then on_stall t1 a last now else (t1, [])) = (t2, g2) /\
              forall b, n_resp (get t2 b) = n_resp (get t1 b) ++ transmitted now (flat_map (rel_of b) g2)).
    { destruct (rty =? MSG_STALL).
      - pose proof (on_stall_resp t1 a last now) as H. destruct (on_stall t1 a last now) as [t2 g2]. exists t2, g2. auto.
      - exists t1, []. split; [reflexivity|]. intros b. cbn. rewrite app_nil_r. reflexivity. }
    destruct Hst as (t2 & g2 & -> & H2). intros b. cbn [spec_step].
    rewrite released_rel, flat_map_app, transmitted_app, H2.
    destruct (addr_eqb_spec b a) as [->|Hn].
    + rewrite app_assoc, live_app, live_transmitted. apply sublist_app2. exact Hua.
    + destruct (Huo b Hn) as [E1 E2]. rewrite E1, E2. unfold transmitted at 1. cbn [filter map app].
      rewrite live_app, live_transmitted. apply sublist_app2. apply HR.
  - (* FTime *)
    cbn in Hm. apply N.leb_le in Hm. intros b. cbn [spec_step]. eapply sublist_trans; [apply live_mono; exact Hm|apply HR].
  - intros b. apply HR.
  - intros b. apply HR.
  - intros b. apply HR.
  - intros b. cbn [spec_step]. unfold get; cbn. constructor.
Qed.

(* the specification's accounting along a whole history *)
Fixpoint spec_run (t : table) (so : bool) (now : N) (es : list fev) (spec : list N -> list (N * N))
  : table * N * (list N -> list (N * N)) :=
  match es with
  | [] => (t, now, spec)
  | e :: r =>
      let '(t1, s1, n1, g, _) := tab_step t so now e in
      spec_run t1 s1 n1 r (fun b => spec_step b now e g (spec b))
  end.

Fixpoint clock_mono (now : N) (es : list fev) : bool :=
  match es with
  | [] => true
  | e :: r => clock_mono_step now e && clock_mono (match e with FTime n => n | _ => now end) r
  end.

Lemma tab_step_now t so now e : let '(_, _, now', _, _) := tab_step t so now e in now' = match e with FTime n => n | _ => now end.
Proof.
  destruct e as [a3 ty data|a rty last|n| |c|bb|]; cbn [tab_step]; try reflexivity.
  - destruct (submit_tab t so a3 ty data now) as [[[[t1 sq] m] ok]|]; reflexivity.
  - destruct (uplink_tab t a rty last now). reflexivity.
Qed.

Lemma spec_run_inv es : forall t so now spec, R now spec t -> clock_mono now es = true ->
  let '(t', now', spec') := spec_run t so now es spec in R now' spec' t'.
Proof.
  induction es as [|e r IH]; intros t so now spec HR Hc; cbn [spec_run]; [exact HR|].
  cbn [clock_mono] in Hc. apply andb_true_iff in Hc as [Hc1 Hc2].
  pose proof (tab_step_budget t so now e spec HR Hc1) as Hs. pose proof (tab_step_now t so now e) as Hn.
  destruct (tab_step t so now e) as [[[[t1 s1] n1] g1] o1]. subst n1. apply IH; assumption.
Qed.

Lemma spec_run_table es : forall t so now spec,
  let '(t', _, _) := spec_run t so now es spec in
  let '(t'', _, _, _, _) := tab_run t so now es in t' = t''.
Proof.
  induction es as [|e r IH]; intros t so now spec; cbn [spec_run tab_run]; [reflexivity|].
  destruct (tab_step t so now e) as [[[[t1 s1] n1] g1] o1].
  specialize (IH t1 s1 n1 (fun b => spec_step b now e g1 (spec b))).
  destruct (spec_run t1 s1 n1 r _) as [[t' now'] spec']. destruct (tab_run t1 s1 n1 r) as [[[[t2 s2] n2] g2] o2]. exact IH.
Qed.

Lemma outstanding_sum_sumsz now l : outstanding_sum now l = sumsz (live now l).
Proof. unfold outstanding_sum. induction (live now l) as [|e r IH]; cbn [fold_right sumsz]; [reflexivity|]. rewrite IH. reflexivity. Qed.

(* C03 in the property's own terms: along every history with a monotone clock, for every node, the
   worst-case response sizes of the requests transmitted to it and not yet answered or expired sum to
   at most the library's counter, hence to at most 48 *)
Theorem budget_spec es so now0 : clock_mono now0 es = true ->
  let '(t, now, spec) := spec_run [] so now0 es (fun _ => []) in
  forall a, outstanding_sum now (spec a) <= n_used (get t a) /\ n_used (get t a) <= response_limit.
Proof.
  intros Hc.
  assert (HR0 : R now0 (fun _ => []) []) by (intros b; cbn; constructor).
  pose proof (spec_run_inv es [] so now0 (fun _ => []) HR0 Hc) as HR.
  pose proof (spec_run_table es [] so now0 (fun _ => [])) as Ht.
  pose proof (tab_run_ok es [] so now0 tab_ok_nil) as Hok.
  destruct (spec_run [] so now0 es (fun _ => [])) as [[t now] spec].
  destruct (tab_run [] so now0 es) as [[[[t2 s2] n2] g2] o2]. subst t2.
  intros a. destruct (Hok a) as [Hu Hl]. split; [|exact Hl].
  rewrite outstanding_sum_sumsz, Hu. apply sumsz_sublist. apply HR.
Qed.
