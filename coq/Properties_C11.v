(* Properties_C11.v — C11: no call blocks forever: locks balanced on every path, one global order.
   LockCfg.v is regenerated from the source on every run by translator/gen_lockcfg.py. *)
From Coq Require Import List Arith Bool.
From LB Require Import LockLang LockCfg LockProofs LockSem.
Import ListNotations.

(* the programs a thread may run: paths of the translated public functions and internal thread mains *)
Definition entry_path (p : list act) : Prop :=
  exists f, In f (public_entries ++ thread_mains) /\ run_call body call_depth [] f p.

(* Every path (error returns included) of every public function and every internal thread acquires
   locks only in increasing rank - never one it already holds -, releases only locks it holds and
   returns with no lock held. *)
Theorem C11_balanced_ordered : forall p, entry_path p -> acts_ok rank no_guard [] p = Some [].
Proof. exact entry_paths_ok. Qed.
Print Assumptions C11_balanced_ordered.

(* No combination of concurrently running calls and internal threads can deadlock: in every
   configuration reachable by any interleaving of threads that each run any sequence of such paths,
   if some thread is unfinished then some thread can take a step (mutexes and write locks exclusive,
   read locks shared). *)
Theorem C11_no_deadlock : forall (tps : list (list (list act))) c,
  Forall (Forall entry_path) tps ->
  reach rank no_guard (map fresh_thread tps) c -> unfinished c -> exists c', step rank no_guard c c'.
Proof. exact no_deadlock_entries. Qed.
Print Assumptions C11_no_deadlock.

(* and every step consumes one action, so every execution of finitely many calls ends *)
Theorem C11_terminates : forall c c', step rank no_guard c c' -> remaining c' < remaining c.
Proof. exact (step_decreases rank no_guard). Qed.
Print Assumptions C11_terminates.

(* the generated ranks are a strict order on the locks that are ever nested: distinct locks, distinct ranks *)
Theorem C11_ranks_distinct : NoDup rank_tab /\ length rank_tab = lock_count.
Proof. exact ranks_nodup. Qed.

(* non-vacuity: the checker rejects a function that returns with a lock held on one path, a double
   acquisition, and an inverted nesting *)
Example C11_checker_rejects :
  let body1 (f : nat) := match f with
                         | 0 => Some (Seq (Acq 1 false) (Seq (If Return Skip) (Rel 1)))
                         | 1 => Some (Seq (Acq 1 true) (Acq 1 true))
                         | 2 => Some (Seq (Acq 12 true) (Seq (Acq 11 true) (Seq (Rel 11) (Rel 12))))
                         | 3 => Some (Seq (Acq 11 true) (Seq (Acq 12 true) (Seq (Rel 12) (Rel 11))))
                         | _ => None end in
  map (check_entry rank no_guard body1 3) [0; 1; 2; 3] = [false; false; false; true].
Proof. vm_compute. reflexivity. Qed.
