From Coq Require Import Extraction ExtrOcamlBasic List NArith.
From LB Require Import Tables Framing NodeFlow Rx Link Dispatch Secack.
Extraction "model_c19.ml" rx_init rx_run handle_items flow_init flow_run wire_chunks sb_uid.
