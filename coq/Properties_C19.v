(* Properties_C19.v — C19: each occupancy report of a SecAck board is mirrored exactly once. *)
From Coq Require Import List NArith Bool.
From LB Require Import Tables Framing FramingProofs NodeFlow Rx Link Dispatch Secack SecackProofs.
Import ListNotations.
Local Open Scope N_scope.

(* for a board with the feature: the handling of a report is the node-table update followed by exactly
   one submission - the mirror - and a flush (no waiting for a manual or timed flush) *)
Theorem C19_mirror_once : forall w m ty d,
  m_type m <> MSG_NODE_NEW -> m_type m <> MSG_NODE_LOST -> secack_at (w_boards w) (m_addr m) = true ->
  mirror_of (m_type m) (msg_data (m_raw m)) = Some (ty, d) ->
  let f1 := fst (flow_step (w_flow w) (FUp (m_addr m) (m_type m) (last_byte (m_raw m)))) in
  fst (handle_msg w m) = {| w_boards := w_boards w;
                            w_flow := fst (flow_run f1 [FSend (addr3_of (m_addr m)) ty d; FFlush]) |}.
Proof. exact mirror_once. Qed.
Print Assumptions C19_mirror_once.

(* the mirror carries the same detector number and payload: occupied, free, and well-formed multiple *)
Theorem C19_mirror_payload :
  (forall data, mirror_of MSG_BM_OCC data = Some (MSG_BM_MIRROR_OCC, [nth 0 data 0])) /\
  (forall data, mirror_of MSG_BM_FREE data = Some (MSG_BM_MIRROR_FREE, [nth 0 data 0])) /\
  (forall data, multiple_ok data -> mirror_of MSG_BM_MULTIPLE data = Some (MSG_BM_MIRROR_MULTIPLE, data)).
Proof.
  exact (conj (fun d => eq_refl) (conj (fun d => eq_refl)
        (fun d H => eq_trans (proj1 (mirror_multiple d H)) (proj2 (mirror_multiple d H))))).
Qed.
Print Assumptions C19_mirror_payload.

(* position reports: the mirror carries the report's five payload bytes (decoder address, type, location) *)
Theorem C19_mirror_position : forall data, (5 <= length data)%nat ->
  mirror_of MSG_BM_POSITION data = mirror_spec MSG_BM_POSITION data /\
  mirror_spec MSG_BM_POSITION data = Some (MSG_BM_MIRROR_POSITION, firstn 5 data).
Proof. exact mirror_position. Qed.
Print Assumptions C19_mirror_position.

(* boards without the feature (absent, value 0, unknown or disconnected sender) are never sent a mirror;
   other message types are never mirrored *)
Theorem C19_no_mirror : forall w m,
  m_type m <> MSG_NODE_NEW -> m_type m <> MSG_NODE_LOST -> secack_at (w_boards w) (m_addr m) = false ->
  handle_msg w m = ({| w_boards := w_boards w;
                       w_flow := fst (flow_step (w_flow w) (FUp (m_addr m) (m_type m) (last_byte (m_raw m)))) |},
                    snd (flow_step (w_flow w) (FUp (m_addr m) (m_type m) (last_byte (m_raw m))))).
Proof. exact no_mirror_without_feature. Qed.
Print Assumptions C19_no_mirror.

(* the SecAck decision follows the board CURRENTLY connected at the sender's address: after a loss notice the lost board
   (first with that unique id) is disconnected, so reports from its former address are judged by whoever logs in there *)
Theorem C19_lost_board_disconnected : forall bs announcer local uid,
  match find (fun b => list_eqb (sb_uid b) uid) (node_lost bs announcer local uid) with
  | Some b => sb_conn b = false
  | None => True
  end.
Proof. exact node_lost_first_disconnected. Qed.
Print Assumptions C19_lost_board_disconnected.

Example C19_address_reuse :
  let a := {| sb_uid := [1;2;3;4;5;6;7]; sb_secack := false; sb_conn := false; sb_addr := [] |} in
  let b := {| sb_uid := [9;2;3;4;5;6;7]; sb_secack := true; sb_conn := false; sb_addr := [] |} in
  let bs1 := node_new [a; b] [] 3 [1;2;3;4;5;6;7] in
  let bs2 := node_new (node_lost bs1 [] 3 [1;2;3;4;5;6;7]) [] 3 [9;2;3;4;5;6;7] in
  secack_at bs1 [3] = false /\ secack_at bs2 [3] = true.
Proof. vm_compute. split; reflexivity. Qed.

Theorem C19_only_reports_mirrored : forall ty data, mirror_of ty data <> None ->
  ty = MSG_BM_OCC \/ ty = MSG_BM_FREE \/ ty = MSG_BM_MULTIPLE \/ ty = MSG_BM_POSITION.
Proof. exact mirror_only_four. Qed.

(* under pressure: mirror types expect no response, so only a non-empty held queue or a stall can defer
   them; they are then released in order and flushed by the C03/C04 machinery *)
Theorem C19_mirror_types_need_no_budget :
  resp_size MSG_BM_MIRROR_OCC = 0 /\ resp_size MSG_BM_MIRROR_FREE = 0 /\
  resp_size MSG_BM_MIRROR_MULTIPLE = 0 /\ resp_size MSG_BM_MIRROR_POSITION = 0.
Proof. exact mirror_types_free. Qed.

Example C19_nonvacuous :
  let b := {| sb_uid := [1;2;3;4;5;6;7]; sb_secack := true; sb_conn := false; sb_addr := [] |} in
  let bs := node_new [b] [] 3 [1;2;3;4;5;6;7] in
  secack_at bs [3] = true /\ secack_at bs [4] = false /\
  multiple_ok [8; 16; 170; 85].
Proof. split; [reflexivity|]. split; [reflexivity|]. exists 8, 16, [170; 85]. repeat split; vm_compute; congruence. Qed.
