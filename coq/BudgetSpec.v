(* BudgetSpec.v — the property's own accounting of C03, independent of the library's counter:
   per node, the requests transmitted to it (with their transmission time), from which an uplink
   message removes the oldest live one if it is one of that request's answers; a request is live for
   expiry_secs seconds. No proofs here. *)
From Coq Require Import List NArith Bool Arith.
From LB Require Import Tables Framing NodeFlow.
Import ListNotations.
Local Open Scope N_scope.

Definition answers_b (ty rty : N) : bool :=
  existsb (fun i => info_at ty (N.of_nat i) =? rty) (seq 2 (N.to_nat (info_cnt ty) - 1)).

Definition is_live (now : N) (e : N * N) : bool := now - snd e <? expiry_secs.
Definition live (now : N) (l : list (N * N)) : list (N * N) := filter (is_live now) l.

Fixpoint answer_first (now rty : N) (l : list (N * N)) : list (N * N) :=
  match l with
  | [] => []
  | e :: r => if is_live now e then (if answers_b (fst e) rty then r else e :: r)
              else e :: answer_first now rty r
  end.

Definition transmitted (now : N) (entries : list (N * list N)) : list (N * N) :=
  map (fun e => (fst e, now)) (filter (fun e => 0 <? resp_size (fst e)) entries).

(* what one step of the history means for node a's accounting, given what the library handed to the
   transmit buffer in that step (ghost outputs) *)
Definition released_to (a : list N) (g : gout) : list (N * list N) :=
  match g with
  | GReleased (b, es) => if addr_eqb a b then es else []
  | GSubmitted _ _ _ _ => []
  end.

Definition spec_step (a : list N) (now : N) (e : fev) (gouts : list gout) (l : list (N * N)) : list (N * N) :=
  match e with
  | FSend a3 ty data =>
      match gouts with
      | [GSubmitted b _ m true] => if addr_eqb a b then l ++ transmitted now [(ty, m)] else l
      | _ => l
      end
  | FUp b rty _ =>
      (if addr_eqb a b then answer_first now rty l else l) ++ transmitted now (flat_map (released_to a) gouts)
  | FReset => []
  | _ => l
  end.

Definition outstanding_sum (now : N) (l : list (N * N)) : N :=
  fold_right (fun e acc => resp_size (fst e) + acc) 0 (live now l).
