(* Link.v — receive path composed with the node-flow world: what the receiver thread does with
   each decoded message in low-level debug mode (node table update, stall handling). *)
From Coq Require Import List NArith Bool Arith.
From LB Require Import Tables Framing NodeFlow Rx.
Import ListNotations.
Local Open Scope N_scope.

Definition last_byte (m : list N) : N :=
  match m with [] => 0 | l :: _ => nth (N.to_nat l) m 0 end.

Definition up_events (items : list rx_item) : list fev :=
  flat_map (fun it => match it with
                      | Delivered m => [FUp (m_addr m) (m_type m) (last_byte (m_raw m))]
                      | _ => []
                      end) items.

Definition link_rx (wn : flow * N) (rs : rxs) (bytes : list N)
  : (flow * N) * rxs * list (N * packet) * list rx_item :=
  let '(rs1, items) := rx_run rs bytes in
  let '(wn1, ps) := flow_run wn (up_events items) in
  (wn1, rs1, ps, items).
