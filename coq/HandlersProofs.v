(* HandlersProofs.v — C12: the variable-length handlers (Handlers.v) never read outside the bytes they were handed,
   for every content of those bytes (unbounded: induction and linear arithmetic), and the dispatcher hands them
   lengths/counts that fit the message copy. *)
From Coq Require Import List NArith ZArith Bool Arith Lia.
From LB Require Import Tables Framing FramingProofs NodeFlow Rx RxProofs RxSafety AccessTab AccessModel AccessProofs Handlers.
Import ListNotations.
Local Open Scope nat_scope.
Local Ltac Zify.zify_post_hook ::= Z.to_euclidean_division_equations.

Lemma div8_lt i size : i < size -> i / 8 < (size + 7) / 8.
Proof.
  intros. pose proof (Nat.div_mod i 8). pose proof (Nat.div_mod (size + 7) 8).
  pose proof (Nat.mod_upper_bound i 8). pose proof (Nat.mod_upper_bound (size + 7) 8). lia.
Qed.
Lemma div8_le size : size / 8 <= (size + 7) / 8.
Proof.
  pose proof (Nat.div_mod size 8). pose proof (Nat.div_mod (size + 7) 8).
  pose proof (Nat.mod_upper_bound size 8). pose proof (Nat.mod_upper_bound (size + 7) 8). lia.
Qed.

Lemma rd_ok t j : j < length t -> exists v, rd t j = Done v.
Proof.
  intros H. unfold rd. destruct (nth_error t j) as [v|] eqn:E; [eexists; reflexivity|].
  apply nth_error_None in E. lia.
Qed.

Lemma rd_all_ok t idxs : Forall (fun j => j < length t) idxs -> exists r, rd_all t idxs = Done r.
Proof.
  induction idxs as [|j r IH]; intros H; [eexists; reflexivity|]. inversion H as [|? ? Hj Hr]; subst.
  cbn [rd_all]. destruct (rd_ok t j Hj) as (v & ->). destruct (IH Hr) as (x & ->). eexists. reflexivity.
Qed.

Lemma strn_ok t : forall n start, start + n <= length t -> exists r, strn t start n = Done r.
Proof.
  induction n as [|n IH]; intros start H; [eexists; reflexivity|]. cbn [strn].
  destruct (rd_ok t start) as (v & ->); [lia|]. destruct (v =? 0); [eexists; reflexivity|].
  destruct (IH (S start)) as (r & ->); [lia|]. eexists. reflexivity.
Qed.

(* bidib_state_vendor: whatever the two embedded lengths say *)
Lemma vendor_safe len t : len <= length t -> exists r, vendor_h len t = Done r.
Proof.
  intros H. unfold vendor_h. destruct (len <? 2) eqn:E2; [eexists; reflexivity|]. apply Nat.ltb_ge in E2.
  destruct (rd_ok t 0) as (n & Hn); [lia|]. rewrite Hn.
  destruct (len <? n + 2) eqn:En; [eexists; reflexivity|]. apply Nat.ltb_ge in En.
  destruct (rd_ok t (n + 1)) as (v & Hv); [lia|]. rewrite Hv.
  destruct (len <? n + 2 + v) eqn:Ev; [eexists; reflexivity|]. apply Nat.ltb_ge in Ev.
  destruct (strn_ok t n 1) as (r1 & ->); [lia|].
  destruct (strn_ok t v (len - v)) as (r2 & ->); [lia|]. eexists. reflexivity.
Qed.

(* the MSG_BM_MULTIPLE case: whatever number and size say *)
Lemma multiple_safe secack number size avail t : avail <= length t -> exists r, multiple_h secack number size avail t = Done r.
Proof.
  intros H. unfold multiple_h, multiple_setter_h, multiple_mirror_h.
  destruct (avail <? (size + 7) / 8) eqn:E; [eexists; reflexivity|]. apply Nat.ltb_ge in E.
  destruct (rd_all_ok t (multiple_idxs number size)) as (r1 & ->).
  { unfold multiple_idxs. apply Forall_forall. intros j Hj. apply in_map_iff in Hj as (i & <- & Hi).
    apply filter_In in Hi as [Hi _]. apply in_seq in Hi.
    pose proof (div8_lt i size). lia. }
  destruct secack; [|eexists; reflexivity]. destruct (mirror_copies number size); [|eexists; reflexivity].
  destruct (rd_all_ok t (seq 0 (size / 8))) as (r2 & ->); [|eexists; reflexivity].
  apply Forall_forall. intros j Hj. apply in_seq in Hj. pose proof (div8_le size). lia.
Qed.

Lemma free_form_ok count t : 2 * count <= length t -> exists r, free_form count t = Done r.
Proof.
  intros H. unfold free_form. destruct (count =? 1) eqn:E; [|eexists; reflexivity]. apply Nat.eqb_eq in E.
  destruct (rd_ok t 0) as (a0 & ->); [lia|]. destruct (a0 =? 0); [|eexists; reflexivity].
  destruct (rd_ok t 1) as (a1 & ->); [lia|]. eexists. reflexivity.
Qed.

Lemma addr_loop_ok t : forall cnt i, 2 * (i + cnt) <= length t -> exists r, addr_loop t i cnt = Done r.
Proof.
  induction cnt as [|c IH]; intros i H; [eexists; reflexivity|]. cbn [addr_loop].
  destruct (rd_ok t (2 * i + 1)) as (h & Hh); [lia|]. rewrite Hh.
  destruct (IH (S i)) as (r & Hr); [lia|].
  destruct (Nat.testbit h 6).
  - rewrite Hr. eexists. reflexivity.
  - destruct (rd_ok t (2 * i)) as (l & ->); [lia|]. rewrite Hr. eexists. reflexivity.
Qed.

Lemma pair_idxs_lt (t : list N) : forall cnt i, 2 * (i + cnt) <= length t -> Forall (fun j => j < length t) (pair_idxs i cnt).
Proof.
  induction cnt as [|c IH]; intros i H; [constructor|]. cbn [pair_idxs].
  constructor; [lia|]. constructor; [lia|]. apply IH. lia.
Qed.

(* bidib_state_bm_address + bidib_state_bm_address_log_changes: whatever the address bytes are *)
Lemma address_safe known had count t : 2 * count <= length t -> exists r, address_h known had count t = Done r.
Proof.
  intros H. unfold address_h. destruct (free_form_ok count t H) as (ff & ->).
  destruct (negb known); [eexists; reflexivity|].
  destruct (addr_loop_ok t count 0) as (r1 & Hr1); [lia|].
  destruct (rd_all_ok t (pair_idxs 0 count)) as (r3 & Hr3); [apply pair_idxs_lt; lia|].
  destruct (snd ff); destruct had; rewrite ?Hr1, ?Hr3; eexists; reflexivity.
Qed.

Lemma diag_loop_ok t len : len <= length t -> forall fuel i, exists r, diag_loop fuel t i len = Done r.
Proof.
  intros H. induction fuel as [|f IH]; intros i; [eexists; reflexivity|]. cbn [diag_loop].
  destruct (i + 1 <? len) eqn:E; [|eexists; reflexivity]. apply Nat.ltb_lt in E.
  destruct (rd_ok t i) as (k & ->); [lia|]. destruct (IH (i + 2)) as (r & Hr).
  destruct (k <=? 2).
  - destruct (rd_ok t (i + 1)) as (v & ->); [lia|]. rewrite Hr. eexists. reflexivity.
  - rewrite Hr. eexists. reflexivity.
Qed.

(* bidib_state_boost_diagnostic: whatever the list holds *)
Lemma diag_safe booster len t : len <= length t -> exists r, diag_h booster len t = Done r.
Proof.
  intros H. unfold diag_h. destruct booster; [|eexists; reflexivity]. apply diag_loop_ok. exact H.
Qed.

(* ---- the dispatcher's calls ---- *)
Lemma min_vendor : 1 <= min_data MSG_VENDOR. Proof. vm_compute. lia. Qed.
Lemma min_diag : 1 <= min_data MSG_BOOST_DIAGNOSTIC. Proof. vm_compute. lia. Qed.
Lemma min_address : 1 <= min_data MSG_BM_ADDRESS. Proof. vm_compute. lia. Qed.
Lemma min_multiple : 2 <= min_data MSG_BM_MULTIPLE. Proof. vm_compute. lia. Qed.

Lemma tail_len m i : (0 <= i)%Z -> length (tail_at m i) = length m - Z.to_nat i.
Proof. intros H. unfold tail_at. apply skipn_length. Qed.

(* behind the guard, for every message copy and every environment, none of the variable-length handlers reads
   outside the message *)
Lemma run_var_safe e m ty : msg_ok m = true -> (hd 0%N m < 256)%N -> guard_ok m ty = true ->
  exists r, run_var e m ty = Done r.
Proof.
  intros Hok Hb G. destruct (msg_ok_len m Hok) as [HL H4].
  unfold guard_ok in G. apply negb_true_iff in G. apply Z.ltb_ge in G.
  assert (Hdi : forall n, 1 <= n -> (Z.of_nat n <= data_length m)%Z ->
                exists d, data_index m = Z.of_nat d /\ data_length m = (Z.of_nat (length m) - Z.of_nat d)%Z /\ 4 <= d /\ d + n <= length m).
  { intros n Hn Hle. unfold data_length, data_index in *. destruct (first_data_index m) as [d|] eqn:F.
    - exists d. apply fdi_range in F. assert (Z.of_nat d <? 0 = false)%Z as E0 by (apply Z.ltb_ge; lia). rewrite E0 in *.
      split; [reflexivity|]. split; lia.
    - cbn in Hle. lia. }
  unfold run_var.
  destruct (ty =? MSG_VENDOR)%N eqn:Ev.
  { apply N.eqb_eq in Ev. subst ty. pose proof min_vendor as Hm.
    destruct (Hdi 1) as (d & Hi & Hl & Hd4 & Hd); [lia|lia|]. rewrite Hi.
    destruct (vendor_safe (u8 (Z.of_N (hd 0%N m) - Z.of_nat d + 1)) (tail_at m (Z.of_nat d))) as (r & ->); [|eexists; reflexivity].
    rewrite tail_len by lia. unfold u8. rewrite Z.mod_small by lia. lia. }
  destruct (ty =? MSG_BOOST_DIAGNOSTIC)%N eqn:Ed.
  { apply N.eqb_eq in Ed. subst ty. pose proof min_diag as Hm.
    destruct (Hdi 1) as (d & Hi & Hl & Hd4 & Hd); [lia|lia|]. rewrite Hi.
    apply diag_safe. rewrite tail_len by lia. unfold u8. rewrite Z.mod_small by lia. lia. }
  destruct (ty =? MSG_BM_ADDRESS)%N eqn:Ea.
  { apply N.eqb_eq in Ea. subst ty. pose proof min_address as Hm.
    destruct (Hdi 1) as (d & Hi & Hl & Hd4 & Hd); [lia|lia|]. rewrite Hi.
    apply address_safe. rewrite tail_len by lia. unfold u8.
    assert (0 <= (Z.of_N (hd 0%N m) - Z.of_nat d) / 2 < 256)%Z by lia. rewrite Z.mod_small by lia. lia. }
  destruct (ty =? MSG_BM_MULTIPLE)%N eqn:Em; [|eexists; reflexivity].
  apply N.eqb_eq in Em. subst ty. pose proof min_multiple as Hm.
  destruct (Hdi 2) as (d & Hi & Hl & Hd4 & Hd); [lia|lia|]. rewrite Hi.
  unfold byte_at. assert (Z.of_nat d <? 0 = false)%Z as -> by (apply Z.ltb_ge; lia).
  assert (Z.of_nat d + 1 <? 0 = false)%Z as -> by (apply Z.ltb_ge; lia).
  destruct (rd_ok m (Z.to_nat (Z.of_nat d))) as (number & ->); [lia|].
  destruct (rd_ok m (Z.to_nat (Z.of_nat d + 1))) as (size & ->); [lia|].
  destruct (multiple_safe (e_secack e) number size (Z.to_nat (data_length m - 2)) (tail_at m (Z.of_nat d + 2))) as (r & ->); [|eexists; reflexivity].
  rewrite tail_len by lia. lia.
Qed.

Lemma handle_var_safe e m ty : msg_ok m = true -> (hd 0%N m < 256)%N -> exists r, handle_var e m ty = Done r.
Proof.
  intros Hok Hb. unfold handle_var. destruct (guard_ok m ty) eqn:G; [|eexists; reflexivity].
  apply run_var_safe; assumption.
Qed.

(* a message the guard drops reaches none of the handlers *)
Lemma handle_var_dropped e m ty : dispatch m ty = ODropped -> handle_var e m ty = Done [].
Proof. unfold dispatch, handle_var. destruct (guard_ok m ty); [discriminate|reflexivity]. Qed.
