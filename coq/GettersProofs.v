(* GettersProofs.v — lemmas about the getter shape model (C17). *)
From Coq Require Import List NArith Bool String Lia Arith.
From LB Require Import Getters.
Import ListNotations.
Local Open Scope string_scope.
Local Open Scope list_scope.
Local Open Scope N_scope.

(* ------------------------------------------------------------------ generic list facts *)
Lemma existsb_map_false {A B} (f : B -> bool) (g : A -> B) (l : list A) :
  (forall x, In x l -> f (g x) = false) -> existsb f (map g l) = false.
Proof.
  induction l as [|a l IH]; intros H; simpl; [reflexivity|].
  rewrite H by (left; reflexivity). simpl. apply IH. intros x Hx. apply H. right. exact Hx.
Qed.

Lemma existsb_pfx (f : shape -> bool) p l :
  existsb (fun kv => f (snd kv)) (pfx p l) = existsb (fun kv => f (snd kv)) l.
Proof. unfold pfx. induction l as [|a l IH]; simpl; [reflexivity|]. rewrite IH. reflexivity. Qed.

Lemma existsb_app_false {A} (f : A -> bool) l1 l2 :
  existsb f l1 = false -> existsb f l2 = false -> existsb f (l1 ++ l2) = false.
Proof. intros H1 H2. rewrite existsb_app, H1, H2. reflexivity. Qed.

(* ------------------------------------------------------------------ no alias anywhere *)
Lemma alias_cp x : has_alias (cp x) = false.
Proof. unfold cp. destruct (x <? undef_mark); reflexivity. Qed.
Lemma alias_sid o : has_alias (sid_copy o) = false.
Proof. reflexivity. Qed.
Lemma alias_strs l : existsb has_alias (map fresh_str l) = false.
Proof. apply existsb_map_false. reflexivity. Qed.
Lemma alias_idlist a b l : has_alias (idlist a b l) = false.
Proof. destruct l; simpl; [reflexivity|]. rewrite alias_strs. reflexivity. Qed.
Lemma alias_idlist_always l : has_alias (idlist_always l) = false.
Proof. simpl. rewrite alias_strs. reflexivity. Qed.

Ltac alias_simp :=
  repeat (simpl; rewrite ?alias_cp, ?alias_sid, ?alias_strs, ?alias_idlist, ?alias_idlist_always, ?existsb_pfx, ?orb_false_r).

Lemma alias_bacc a : existsb (fun kv => has_alias (snd kv)) (bacc_data a) = false.
Proof. alias_simp. reflexivity. Qed.
Lemma alias_dacc a : existsb (fun kv => has_alias (snd kv)) (dacc_data a) = false.
Proof. alias_simp. reflexivity. Qed.
Lemma alias_per a : existsb (fun kv => has_alias (snd kv)) (per_data a) = false.
Proof. alias_simp. reflexivity. Qed.
Lemma alias_rev a : existsb (fun kv => has_alias (snd kv)) (rev_data a) = false.
Proof. alias_simp. reflexivity. Qed.
Lemma alias_dccaddrs l : existsb has_alias (map dcc_addr_shape l) = false.
Proof. apply existsb_map_false. intros. alias_simp. reflexivity. Qed.
Lemma alias_seg a : existsb (fun kv => has_alias (snd kv)) (seg_data a) = false.
Proof. alias_simp. rewrite alias_dccaddrs. reflexivity. Qed.
Lemma alias_dec d : existsb (fun kv => has_alias (snd kv)) (dec_data d) = false.
Proof. unfold dec_data. apply existsb_map_false. intros. simpl. apply alias_cp. Qed.
Lemma alias_tpers l : existsb has_alias (map tper_shape l) = false.
Proof. apply existsb_map_false. intros. alias_simp. reflexivity. Qed.
Lemma alias_trs a : existsb (fun kv => has_alias (snd kv)) (trs_data a) = false.
Proof. unfold trs_data. apply existsb_app_false; [|apply alias_dec]. alias_simp. rewrite alias_tpers. reflexivity. Qed.
Lemma alias_boo a : existsb (fun kv => has_alias (snd kv)) (boo_data a) = false.
Proof. alias_simp. reflexivity. Qed.
Lemma alias_zero_of l : existsb (fun kv => has_alias (snd kv)) (zero_of l) = false.
Proof. unfold zero_of. apply existsb_map_false. intros x _. simpl. destruct (snd x); reflexivity. Qed.
Lemma alias_el id d : existsb (fun kv => has_alias (snd kv)) d = false -> has_alias (el id d) = false.
Proof. intros H. unfold el. simpl. rewrite existsb_pfx. exact H. Qed.
Lemma alias_map_el {A} (fid : A -> str) (fd : A -> list (string * shape)) l :
  (forall x, existsb (fun kv => has_alias (snd kv)) (fd x) = false) ->
  existsb has_alias (map (fun a => el (fid a) (fd a)) l) = false.
Proof. intros H. apply existsb_map_false. intros x _. apply alias_el. apply H. Qed.
Lemma alias_snapshot st : has_alias (snapshot st) = false.
Proof.
  unfold snapshot. simpl.
  rewrite !alias_map_el by (first [apply alias_bacc | apply alias_dacc | apply alias_per | apply alias_seg | apply alias_rev | apply alias_trs | apply alias_boo]).
  simpl. apply orb_false_iff. split; [|reflexivity].
  apply existsb_map_false. intros. alias_simp. reflexivity.
Qed.
Lemma alias_uid_fields u : existsb (fun kv => has_alias (snd kv)) (uid_fields u) = false.
Proof. unfold uid_fields. apply existsb_map_false. intros x _. simpl. destruct u; [apply alias_cp|reflexivity]. Qed.
Lemma alias_addr_fields u : existsb (fun kv => has_alias (snd kv)) (addr_fields u) = false.
Proof. unfold addr_fields. apply existsb_map_false. intros x _. simpl. destruct u; [apply alias_cp|reflexivity]. Qed.
Lemma alias_dccq_fields u : existsb (fun kv => has_alias (snd kv)) (dccq_fields u) = false.
Proof. unfold dccq_fields. apply existsb_map_false. intros x _. simpl. destruct u; [apply alias_cp|reflexivity]. Qed.

Ltac alias_data :=
  rewrite ?existsb_pfx;
  first [apply alias_bacc | apply alias_dacc | apply alias_per | apply alias_seg | apply alias_rev | apply alias_trs | apply alias_boo
        | apply alias_uid_fields | apply alias_addr_fields | apply alias_dccq_fields | apply alias_zero_of ].

Ltac break_match :=
  match goal with
  | |- context [match ?x with _ => _ end] => destruct x eqn:?
  end.

Lemma alias_flagged f found tmpl :
  (forall d, found = Some d -> existsb (fun kv => has_alias (snd kv)) d = false) -> has_alias (flagged f found tmpl) = false.
Proof.
  intros H. unfold flagged. destruct found as [d|]; simpl; [apply H; reflexivity|apply alias_zero_of].
Qed.

Lemma alias_rec1 k1 v1 l : has_alias v1 = false -> existsb (fun kv => has_alias (snd kv)) l = false -> has_alias (Rec ((k1, v1) :: l)) = false.
Proof. intros H1 H. cbn [has_alias existsb snd]. rewrite H1. exact H. Qed.
Lemma alias_rec2 k1 v1 k2 v2 l : has_alias v1 = false -> has_alias v2 = false -> existsb (fun kv => has_alias (snd kv)) l = false ->
  has_alias (Rec ((k1, v1) :: (k2, v2) :: l)) = false.
Proof. intros H1 H2 H. cbn [has_alias existsb snd]. rewrite H1, H2. exact H. Qed.
Lemma alias_accessory bl dl a : has_alias (get_accessory_state bl dl a) = false.
Proof.
  unfold get_accessory_state. destruct a; try reflexivity.
  destruct (find _ bl); [unfold uacc_board; apply alias_rec2; try reflexivity; rewrite existsb_pfx; apply alias_bacc|].
  destruct (find _ dl); [|reflexivity]. unfold uacc_dcc. apply alias_rec2; try reflexivity. rewrite existsb_pfx. apply alias_dacc.
Qed.
Lemma alias_board_list st a f : has_alias (board_list st a f) = false.
Proof. unfold board_list. repeat break_match; try reflexivity; apply alias_idlist. Qed.
Lemma alias_aspects m1 m2 a : has_alias (get_aspects m1 m2 a) = false.
Proof. unfold get_aspects. repeat break_match; try reflexivity; apply alias_idlist_always. Qed.
Lemma alias_idq o : has_alias (idq o) = false.
Proof. destruct o; reflexivity. Qed.

Lemma alias_flagged_find {A} f (o : option A) (fd : A -> list (string * shape)) tmpl :
  (forall x, existsb (fun kv => has_alias (snd kv)) (fd x) = false) -> has_alias (flagged f (option_map fd o) tmpl) = false.
Proof. intros H. destruct o; simpl; [apply H|apply alias_zero_of]. Qed.
Lemma alias_get_peripheral_state st a : has_alias (get_peripheral_state st a) = false.
Proof. unfold get_peripheral_state. destruct (arg_str a); [apply alias_flagged_find; intros; alias_data|reflexivity]. Qed.
Lemma alias_get_reverser_state st a : has_alias (get_reverser_state st a) = false.
Proof. unfold get_reverser_state. destruct (arg_str a); [apply alias_flagged_find; intros; alias_data|reflexivity]. Qed.
Lemma alias_get_booster_state st a : has_alias (get_booster_state st a) = false.
Proof. unfold get_booster_state. destruct (arg_str a); [apply alias_flagged_find; intros; alias_data|reflexivity]. Qed.
Lemma alias_get_track_output_state st a : has_alias (get_track_output_state st a) = false.
Proof. unfold get_track_output_state. destruct (arg_str a); [apply alias_flagged_find; intros; simpl; rewrite alias_cp; reflexivity|reflexivity]. Qed.

Ltac alias_fin :=
  rewrite ?alias_cp; simpl; rewrite ?alias_cp, ?orb_false_r; simpl; try reflexivity;
  try (apply existsb_map_false; intros; simpl; rewrite ?alias_cp; reflexivity).

Theorem no_alias : forall g a1 a2 st s, call g a1 a2 st = Res s -> has_alias s = false.
Proof.
  intros g a1 a2 st s H.
  destruct g; simpl in H;
    try (progress unfold get_index in H; destruct a1);
    injection H as <-;
    try reflexivity;
    try apply alias_idlist;
    try apply alias_snapshot;
    try apply alias_accessory;
    try apply alias_board_list; try apply alias_aspects; try apply alias_idq;
    try apply alias_get_peripheral_state; try apply alias_get_reverser_state; try apply alias_get_booster_state;
    try apply alias_get_track_output_state.
  all: try (unfold get_segment_state, get_train_state, get_uniqueid, get_nodeaddr, get_uniqueid_by_nodeaddr, get_nodeaddr_by_uniqueid,
            get_train_dcc_addr, get_board_features, get_train_position, get_train_peripheral_state, bool_res, connected_list;
            repeat break_match; simpl; try reflexivity; try alias_data; try apply alias_idlist; try apply alias_idlist_always).
  all: alias_fin.
Qed.

(* ------------------------------------------------------------------ nested induction over shapes *)
Section ShapeInd.
  Variable P : shape -> Prop.
  Hypothesis HSc : forall v, P (Sc v).
  Hypothesis HNull : P PNull.
  Hypothesis HUndef : P PUndef.
  Hypothesis HFresh : forall t, P t -> P (PFresh t).
  Hypothesis HAlias : forall t, P t -> P (PAlias t).
  Hypothesis HStr : forall s, P (Str s).
  Hypothesis HArr : forall l, Forall P l -> P (Arr l).
  Hypothesis HRec : forall l, Forall (fun kv => P (snd kv)) l -> P (Rec l).
  Fixpoint shape_ind_nested (s : shape) : P s :=
    match s with
    | Sc v => HSc v | PNull => HNull | PUndef => HUndef
    | PFresh t => HFresh t (shape_ind_nested t) | PAlias t => HAlias t (shape_ind_nested t)
    | Str x => HStr x
    | Arr l => HArr l ((fix go (l : list shape) : Forall P l :=
                          match l with [] => Forall_nil _ | x :: r => Forall_cons _ (shape_ind_nested x) (go r) end) l)
    | Rec l => HRec l ((fix go (l : list (string * shape)) : Forall (fun kv => P (snd kv)) l :=
                          match l with [] => Forall_nil _ | x :: r => Forall_cons _ (shape_ind_nested (snd x)) (go r) end) l)
    end.
End ShapeInd.

(* a result without aliases shows the same contents whatever happens to the library state later *)
Theorem deep_copy : forall s, has_alias s = false -> forall l1 l2, observe l1 s = observe l2 s.
Proof.
  induction s using shape_ind_nested; intros Ha l1 l2; simpl in *; try reflexivity; try discriminate.
  - apply IHs. exact Ha.
  - f_equal. induction H as [|x l Hx Hl IH]; [reflexivity|]. simpl in Ha. apply orb_false_iff in Ha. destruct Ha as [Ha1 Ha2].
    simpl. rewrite (Hx Ha1 l1 l2), (IH Ha2). reflexivity.
  - f_equal. induction H as [|x l Hx Hl IH]; [reflexivity|]. simpl in Ha. apply orb_false_iff in Ha. destruct Ha as [Ha1 Ha2].
    simpl. rewrite (Hx Ha1 l1 l2), (IH Ha2). reflexivity.
Qed.

(* ------------------------------------------------------------------ no undefined member *)
Lemma undef_cp x : sdef x = true -> has_undef (cp x) = false.
Proof. unfold cp, sdef. intros ->. reflexivity. Qed.
Lemma undef_strs l : existsb has_undef (map fresh_str l) = false.
Proof. apply existsb_map_false. reflexivity. Qed.
Lemma undef_idlist a b l : has_undef (idlist a b l) = false.
Proof. destruct l; simpl; [reflexivity|]. rewrite undef_strs. reflexivity. Qed.
Lemma undef_idlist_always l : has_undef (idlist_always l) = false.
Proof. simpl. rewrite undef_strs. reflexivity. Qed.
Lemma all_def_nth l i : all_def l = true -> sdef (nth0 l i) = true.
Proof.
  unfold all_def, nth0. intros H. destruct (nth_in_or_default i l 0) as [Hin| ->]; [|reflexivity].
  rewrite forallb_forall in H. apply H. exact Hin.
Qed.
Lemma forallb_find {A} (p f : A -> bool) l x : forallb p l = true -> find f l = Some x -> p x = true.
Proof. intros Hp Hf. apply find_some in Hf. rewrite forallb_forall in Hp. apply Hp. apply Hf. Qed.

Ltac split_def H := repeat (apply andb_prop in H; let H2 := fresh "Hd" in destruct H as [H H2]).
Ltac undef_simp := simpl; rewrite ?undef_cp by (first [assumption | apply all_def_nth; assumption]); simpl; rewrite ?undef_strs, ?orb_false_r; simpl.

Lemma undef_sid o : has_undef (sid_copy o) = false.
Proof. reflexivity. Qed.
Lemma undef_bacc a : bacc_def a = true -> existsb (fun kv => has_undef (snd kv)) (bacc_data a) = false.
Proof. intros H. unfold bacc_def in H. split_def H. undef_simp. reflexivity. Qed.
Lemma undef_dacc a : dacc_def a = true -> existsb (fun kv => has_undef (snd kv)) (dacc_data a) = false.
Proof. intros H. unfold dacc_def in H. split_def H. undef_simp. reflexivity. Qed.
Lemma undef_per a : per_def a = true -> existsb (fun kv => has_undef (snd kv)) (per_data a) = false.
Proof. intros H. unfold per_def in H. split_def H. undef_simp. reflexivity. Qed.
Lemma undef_rev a : rev_def a = true -> existsb (fun kv => has_undef (snd kv)) (rev_data a) = false.
Proof. intros H. unfold rev_def in H. undef_simp. reflexivity. Qed.
Lemma undef_dccaddrs l : forallb all_def l = true -> existsb has_undef (map dcc_addr_shape l) = false.
Proof. intros H. apply existsb_map_false. intros x Hx. rewrite forallb_forall in H. specialize (H x Hx). undef_simp. reflexivity. Qed.
Lemma undef_seg a : seg_def a = true -> existsb (fun kv => has_undef (snd kv)) (seg_data a) = false.
Proof. intros H. unfold seg_def in H. split_def H. undef_simp. rewrite undef_dccaddrs by assumption. reflexivity. Qed.
Lemma undef_dec d : all_def d = true -> existsb (fun kv => has_undef (snd kv)) (dec_data d) = false.
Proof. intros H. unfold dec_data. apply existsb_map_false. intros. simpl. apply undef_cp. apply all_def_nth. exact H. Qed.
Lemma undef_tpers l : forallb (fun p => sdef (snd p)) l = true -> existsb has_undef (map tper_shape l) = false.
Proof. intros H. apply existsb_map_false. intros x Hx. rewrite forallb_forall in H. specialize (H x Hx). simpl in H. undef_simp. reflexivity. Qed.
Lemma undef_trs a : trst_def a = true -> existsb (fun kv => has_undef (snd kv)) (trs_data a) = false.
Proof.
  intros H. unfold trst_def in H. split_def H. unfold trs_data. apply existsb_app_false; [|apply undef_dec; assumption].
  undef_simp. rewrite undef_tpers by assumption. reflexivity.
Qed.
Lemma undef_boo a : boost_def a = true -> existsb (fun kv => has_undef (snd kv)) (boo_data a) = false.
Proof. intros H. unfold boost_def in H. split_def H. undef_simp. reflexivity. Qed.
Lemma undef_el id d : existsb (fun kv => has_undef (snd kv)) d = false -> has_undef (el id d) = false.
Proof. intros H. unfold el. cbn [has_undef existsb snd fresh_str]. rewrite existsb_pfx. exact H. Qed.
Lemma undef_map_el {A} (ok : A -> bool) (fid : A -> str) (fd : A -> list (string * shape)) l :
  (forall x, ok x = true -> existsb (fun kv => has_undef (snd kv)) (fd x) = false) -> forallb ok l = true ->
  existsb has_undef (map (fun a => el (fid a) (fd a)) l) = false.
Proof. intros H Hl. apply existsb_map_false. intros x Hx. apply undef_el. apply H. rewrite forallb_forall in Hl. apply Hl. exact Hx. Qed.

Lemma sd_parts st : state_defined st = true ->
  forallb board_def (boards st) = true /\ forallb train_def (trains st) = true /\ forallb bacc_def (points_board st) = true /\
  forallb dacc_def (points_dcc st) = true /\ forallb bacc_def (signals_board st) = true /\ forallb dacc_def (signals_dcc st) = true /\
  forallb per_def (peripherals st) = true /\ forallb seg_def (segments st) = true /\ forallb rev_def (reversers st) = true /\
  forallb trst_def (tstates st) = true /\ forallb boost_def (boosters st) = true /\ forallb tout_def (touts st) = true.
Proof. unfold state_defined. intros H. split_def H. repeat split; assumption. Qed.

Lemma undef_snapshot st : state_defined st = true -> has_undef (snapshot st) = false.
Proof.
  intros Hd. apply sd_parts in Hd. destruct Hd as (Hbo & Htr & Hpb & Hpd & Hsb & Hsd & Hpe & Hsg & Hrv & Hts & Hbs & Hto).
  unfold snapshot. cbn [has_undef existsb snd sc map].
  rewrite (undef_map_el bacc_def ba_id bacc_data (points_board st) undef_bacc Hpb).
  rewrite (undef_map_el dacc_def da_id dacc_data (points_dcc st) undef_dacc Hpd).
  rewrite (undef_map_el bacc_def ba_id bacc_data (signals_board st) undef_bacc Hsb).
  rewrite (undef_map_el dacc_def da_id dacc_data (signals_dcc st) undef_dacc Hsd).
  rewrite (undef_map_el per_def pe_id per_data (peripherals st) undef_per Hpe).
  rewrite (undef_map_el seg_def sg_id seg_data (segments st) undef_seg Hsg).
  rewrite (undef_map_el rev_def rv_id rev_data (reversers st) undef_rev Hrv).
  rewrite (undef_map_el trst_def tt_id trs_data (tstates st) undef_trs Hts).
  rewrite (undef_map_el boost_def bo_id boo_data (boosters st) undef_boo Hbs).
  simpl. rewrite orb_false_r. apply existsb_map_false. intros x Hx. rewrite forallb_forall in Hto. specialize (Hto x Hx).
  unfold tout_def in Hto. undef_simp. reflexivity.
Qed.

Lemma undef_rec2 k1 v1 k2 v2 l : has_undef v1 = false -> has_undef v2 = false -> existsb (fun kv => has_undef (snd kv)) l = false ->
  has_undef (Rec ((k1, v1) :: (k2, v2) :: l)) = false.
Proof. intros H1 H2 H. cbn [has_undef existsb snd]. rewrite H1, H2. exact H. Qed.
Lemma undef_rec1 k1 v1 l : has_undef v1 = false -> existsb (fun kv => has_undef (snd kv)) l = false -> has_undef (Rec ((k1, v1) :: l)) = false.
Proof. intros H1 H. cbn [has_undef existsb snd]. rewrite H1. exact H. Qed.

Lemma undef_accessory bl dl a :
  forallb bacc_def bl = true -> forallb dacc_def dl = true -> has_undef (get_accessory_state bl dl a) = false.
Proof.
  intros Hb Hd. unfold get_accessory_state. destruct a; try reflexivity.
  destruct (find _ bl) eqn:E1.
  - unfold uacc_board. apply undef_rec2; try reflexivity. rewrite existsb_pfx. apply undef_bacc. eapply forallb_find; eassumption.
  - destruct (find _ dl) eqn:E2; [|reflexivity]. unfold uacc_dcc. apply undef_rec2; try reflexivity. rewrite existsb_pfx.
    apply undef_dacc. eapply forallb_find; eassumption.
Qed.
Lemma undef_board_list st a f : has_undef (board_list st a f) = false.
Proof. unfold board_list. repeat break_match; try reflexivity; apply undef_idlist. Qed.
Lemma undef_aspects m1 m2 a : has_undef (get_aspects m1 m2 a) = false.
Proof. unfold get_aspects. repeat break_match; try reflexivity; apply undef_idlist_always. Qed.
Lemma undef_idq o : has_undef (idq o) = false.
Proof. destruct o; reflexivity. Qed.
Lemma undef_fields3 names u : all_def u = true ->
  existsb (fun kv => has_undef (snd kv)) (map (fun ni : string * nat => (fst ni, cp (nth0 u (snd ni)))) names) = false.
Proof. intros H. apply existsb_map_false. intros x _. simpl. apply undef_cp. apply all_def_nth. exact H. Qed.

Lemma undef_zero_of l : existsb (fun kv => has_undef (snd kv)) (zero_of l) = false.
Proof. unfold zero_of. apply existsb_map_false. intros x _. simpl. destruct (snd x); reflexivity. Qed.
(* the flagged getters: the payload is a full copy when found, zero otherwise *)
Lemma undef_flagged {A} flag (ok : A -> bool) (fd : A -> list (string * shape)) (f : A -> bool) l tmpl :
  (forall x, ok x = true -> existsb (fun kv => has_undef (snd kv)) (fd x) = false) -> forallb ok l = true ->
  has_undef (flagged flag (option_map fd (find f l)) tmpl) = false.
Proof.
  intros H Hl. destruct (find f l) eqn:E; simpl.
  - apply H. eapply forallb_find; eassumption.
  - apply undef_zero_of.
Qed.
Ltac use_find :=
  repeat match goal with
  | Hl : forallb ?ok ?l = true, Hf : find ?f ?l = Some ?x |- _ =>
      lazymatch goal with | _ : ok x = true |- _ => fail | _ => pose proof (forallb_find ok f l x Hl Hf) end
  end.

Lemma undef_get_peripheral st a : forallb per_def (peripherals st) = true -> has_undef (get_peripheral_state st a) = false.
Proof.
  intros Hl. unfold get_peripheral_state. destruct (arg_str a); [|reflexivity].
  apply undef_flagged with (ok := per_def); [|exact Hl]. intros x Hx. rewrite existsb_pfx. apply undef_per. exact Hx.
Qed.
Lemma undef_get_reverser st a : forallb rev_def (reversers st) = true -> has_undef (get_reverser_state st a) = false.
Proof.
  intros Hl. unfold get_reverser_state. destruct (arg_str a); [|reflexivity].
  apply undef_flagged with (ok := rev_def); [|exact Hl]. intros x Hx. rewrite existsb_pfx. apply undef_rev. exact Hx.
Qed.
Lemma undef_get_booster st a : forallb boost_def (boosters st) = true -> has_undef (get_booster_state st a) = false.
Proof.
  intros Hl. unfold get_booster_state. destruct (arg_str a); [|reflexivity].
  apply undef_flagged with (ok := boost_def); [|exact Hl]. intros x Hx. rewrite existsb_pfx. apply undef_boo. exact Hx.
Qed.
Lemma undef_get_track_output st a : forallb tout_def (touts st) = true -> has_undef (get_track_output_state st a) = false.
Proof.
  intros Hl. unfold get_track_output_state. destruct (arg_str a); [|reflexivity].
  apply undef_flagged with (ok := tout_def); [|exact Hl]. intros x Hx. unfold tout_def in Hx. undef_simp. reflexivity.
Qed.
Lemma undef_get_segment st a : forallb seg_def (segments st) = true -> has_undef (get_segment_state st a) = false.
Proof.
  intros Hl. unfold get_segment_state. destruct (arg_str a); repeat break_match; try reflexivity; use_find.
  apply undef_rec1; [reflexivity|]. rewrite existsb_pfx. apply undef_seg. assumption.
Qed.
Lemma undef_get_train_state st a : forallb trst_def (tstates st) = true -> has_undef (get_train_state st a) = false.
Proof.
  intros Hl. unfold get_train_state, find_tstate. destruct (arg_str a); repeat break_match; try reflexivity; use_find.
  apply undef_rec1; [reflexivity|]. rewrite existsb_pfx. apply undef_trs. assumption.
Qed.
Ltac board_fields :=
  repeat break_match; try reflexivity; use_find;
  match goal with H : board_def _ = true |- _ => unfold board_def in H; split_def H end;
  (apply undef_rec1; [reflexivity | apply undef_fields3; assumption]).
Lemma undef_get_uniqueid st a : forallb board_def (boards st) = true -> has_undef (get_uniqueid st a) = false.
Proof. intros Hl. unfold get_uniqueid, find_board. destruct (arg_str a); board_fields. Qed.
Lemma undef_get_uniqueid_by_nodeaddr st a : forallb board_def (boards st) = true -> has_undef (get_uniqueid_by_nodeaddr st a) = false.
Proof. intros Hl. unfold get_uniqueid_by_nodeaddr, find_board_addr. board_fields. Qed.
Lemma undef_get_nodeaddr st a : forallb board_def (boards st) = true -> has_undef (get_nodeaddr st a) = false.
Proof. intros Hl. unfold get_nodeaddr, find_board. destruct (arg_str a); board_fields. Qed.
Lemma undef_get_nodeaddr_by_uniqueid st a : forallb board_def (boards st) = true -> has_undef (get_nodeaddr_by_uniqueid st a) = false.
Proof. intros Hl. unfold get_nodeaddr_by_uniqueid, find_board_uid. board_fields. Qed.
Lemma undef_get_train_dcc_addr st a : forallb train_def (trains st) = true -> has_undef (get_train_dcc_addr st a) = false.
Proof.
  intros Hl. unfold get_train_dcc_addr, find_train. destruct (arg_str a); repeat break_match; try reflexivity; use_find.
  apply undef_rec1; [reflexivity|]. apply undef_fields3. assumption.
Qed.
Lemma undef_get_board_features st a : forallb board_def (boards st) = true -> has_undef (get_board_features st a) = false.
Proof.
  intros Hl. unfold get_board_features, find_board in *. destruct (arg_str a); repeat break_match; try reflexivity; use_find.
  match goal with H : board_def _ = true |- _ => unfold board_def in H; split_def H end.
  match goal with H : b_features _ = _ |- _ => rewrite H in * end.
  cbn [has_undef existsb snd sc]. rewrite orb_false_r. apply existsb_map_false. intros x Hx.
  match goal with H : forallb _ (_ :: _) = true |- _ => rewrite forallb_forall in H; specialize (H x Hx); apply andb_prop in H; destruct H end.
  undef_simp. reflexivity.
Qed.
Lemma undef_get_train_position st a : has_undef (get_train_position st a) = false.
Proof.
  unfold get_train_position. destruct (arg_str a); repeat break_match; try reflexivity.
  cbn [has_undef existsb snd sc]. rewrite !orb_false_r.
  change (existsb has_undef (map (fun m : str * N => fresh_str (fst m)) (p :: l)) = false).
  apply existsb_map_false. reflexivity.
Qed.
Lemma undef_get_train_peripheral_state st a1 a2 : forallb trst_def (tstates st) = true -> has_undef (get_train_peripheral_state st a1 a2) = false.
Proof.
  intros Hl. unfold get_train_peripheral_state, find_tstate. destruct (arg_str a1); destruct (arg_str a2); repeat break_match; try reflexivity; use_find.
  match goal with H : trst_def _ = true |- _ => unfold trst_def in H; split_def H end.
  match goal with H : forallb _ (tt_pers _) = true, F : find _ (tt_pers _) = Some _ |- _ => pose proof (forallb_find _ _ _ _ H F) as Hp; simpl in Hp end.
  undef_simp. reflexivity.
Qed.
Lemma undef_on_track st a t : forallb trst_def (tstates st) = true -> on_track_state st a = Some t -> trst_def t = true.
Proof.
  intros Hl H. unfold on_track_state, find_tstate in H. destruct (arg_str a); [|discriminate].
  destruct (find _ _) eqn:E; [|discriminate]. destruct (tt_on t0 =? 0); [discriminate|]. injection H as <-.
  eapply forallb_find; eassumption.
Qed.

Theorem initialised : forall g a1 a2 st s,
  state_defined st = true -> call g a1 a2 st = Res s -> has_undef s = false.
Proof.
  intros g a1 a2 st s Hd H.
  pose proof (sd_parts st Hd) as (Hbo & Htr & Hpb & Hpd & Hsb & Hsd & Hpe & Hsg & Hrv & Hts & Hbs & Hto).
  destruct g; simpl in H;
    try (progress unfold get_index in H; destruct a1);
    injection H as <-;
    try reflexivity;
    try apply undef_idlist;
    try (apply undef_snapshot; assumption);
    try (apply undef_accessory; assumption);
    try apply undef_board_list; try apply undef_aspects; try apply undef_idq.
  all: try (first [apply undef_get_peripheral | apply undef_get_reverser | apply undef_get_booster | apply undef_get_track_output
                   | apply undef_get_segment | apply undef_get_train_state | apply undef_get_uniqueid | apply undef_get_uniqueid_by_nodeaddr
                   | apply undef_get_nodeaddr | apply undef_get_nodeaddr_by_uniqueid | apply undef_get_train_dcc_addr
                   | apply undef_get_board_features | apply undef_get_train_position | apply undef_get_train_peripheral_state]; assumption).
  all: try (unfold connected_list; apply undef_idlist).
  all: try (repeat break_match; try reflexivity; try apply undef_idlist_always).
  all: try (match goal with E : on_track_state _ _ = Some _ |- _ => pose proof (undef_on_track _ _ _ Hts E) as Ht; unfold trst_def in Ht; split_def Ht end;
            undef_simp; reflexivity).
Qed.

(* ------------------------------------------------------------------ free never faults *)
Lemma glen_map {A B} (f : A -> B) l : glen (map f l) = glen l.
Proof. unfold glen. rewrite map_length. reflexivity. Qed.
Lemma fall_ok l : (forall x, In x l -> x = FOk) -> fall l = FOk.
Proof. induction l as [|a l IH]; intros H; simpl; [reflexivity|]. rewrite (H a) by (left; reflexivity). simpl. apply IH. intros x Hx. apply H. right. exact Hx. Qed.
Lemma free_arr_full l elem : (forall x, In x l -> elem x = FOk) -> free_arr (sc (glen l)) (PFresh (Arr l)) elem = FOk.
Proof.
  intros H. unfold free_arr, sc. rewrite N.leb_refl. unfold glen. rewrite Nnat.Nat2N.id, firstn_all.
  apply fall_ok. intros x Hx. apply in_map_iff in Hx. destruct Hx as (y & <- & Hy). apply H. exact Hy.
Qed.
Lemma free_arr_nonnull_full l elem : (forall x, In x l -> elem x = FOk) -> free_arr_nonnull (sc (glen l)) (PFresh (Arr l)) elem = FOk.
Proof. intros H. unfold free_arr_nonnull. apply free_arr_full. exact H. Qed.
Lemma free_strs_full (ids : list str) : free_arr (sc (glen ids)) (PFresh (Arr (map fresh_str ids))) free_ptr = FOk.
Proof. rewrite <- (glen_map fresh_str). apply free_arr_full. intros x Hx. apply in_map_iff in Hx. destruct Hx as (y & <- & _). reflexivity. Qed.

Lemma free_idlist ids : free_query RIdList (idlist "length" "ids" ids) = FOk.
Proof. destruct ids as [|i r]; [reflexivity|]. unfold idlist. cbn [free_query fld lookup String.eqb Ascii.eqb Bool.eqb]. simpl lookup. apply free_strs_full. Qed.
Lemma free_idlist_always ids : free_query RIdList (idlist_always ids) = FOk.
Proof. unfold idlist_always. simpl free_query. apply free_strs_full. Qed.
Lemma free_board_list st a f : free_query RIdList (board_list st a f) = FOk.
Proof. unfold board_list. repeat break_match; try reflexivity; apply free_idlist. Qed.
Lemma free_aspects m1 m2 a : free_query RIdList (get_aspects m1 m2 a) = FOk.
Proof. unfold get_aspects. repeat break_match; try reflexivity; apply free_idlist_always. Qed.

Lemma free_arr_map {A} (g : A -> shape) l elem : (forall x, elem (g x) = FOk) ->
  free_arr_nonnull (sc (glen l)) (PFresh (Arr (map g l))) elem = FOk.
Proof. intros H. rewrite <- (glen_map g). apply free_arr_nonnull_full. intros x Hx. apply in_map_iff in Hx. destruct Hx as (y & <- & _). apply H. Qed.

Ltac fld_simp := cbn [fld lookup String.eqb Ascii.eqb Bool.eqb el pfx map fst snd String.append bacc_data dacc_data per_data rev_data seg_data trs_data boo_data app].

Lemma free_snapshot st : free_query RTrackState (snapshot st) = FOk.
Proof.
  unfold free_query, free_track_state, snapshot. cbn [fld lookup String.eqb Ascii.eqb Bool.eqb].
  apply fall_ok. intros x Hx. simpl in Hx.
  repeat (destruct Hx as [<-|Hx]; [apply free_arr_map; intros y; unfold free_el_sid, free_trs_data; fld_simp; try reflexivity|]); try contradiction.
  rewrite <- (glen_map tper_shape). unfold fand, free_ptr, fresh_str. apply free_arr_full.
  intros z Hz. apply in_map_iff in Hz. destruct Hz as (w & <- & _). reflexivity.
Qed.

Lemma free_accessory bl dl a : free_query RUnifiedAcc (get_accessory_state bl dl a) = FOk.
Proof.
  unfold get_accessory_state. destruct a; try reflexivity.
  destruct (find _ bl); [reflexivity|]. destruct (find _ dl); reflexivity.
Qed.

Lemma free_peripheral st a : free_query RPeripheral (get_peripheral_state st a) = FOk.
Proof. unfold get_peripheral_state. destruct (arg_str a); [|reflexivity]. destruct (find _ _); reflexivity. Qed.
Lemma free_reverser st a : free_query RReverser (get_reverser_state st a) = FOk.
Proof. unfold get_reverser_state. destruct (arg_str a); [|reflexivity]. destruct (find _ _); reflexivity. Qed.
Lemma free_segment st a : free_query RSegment (get_segment_state st a) = FOk.
Proof. unfold get_segment_state. destruct (arg_str a); repeat break_match; reflexivity. Qed.
Lemma free_train_state st a : free_query RTrainState (get_train_state st a) = FOk.
Proof.
  unfold get_train_state. destruct (arg_str a); repeat break_match; try reflexivity.
  unfold free_query, free_trs_data. fld_simp. rewrite <- (glen_map tper_shape). apply free_arr_full.
  intros z Hz. apply in_map_iff in Hz. destruct Hz as (w & <- & _). reflexivity.
Qed.
Lemma free_position st a : free_query RPosition (get_train_position st a) = FOk.
Proof.
  unfold get_train_position. destruct (arg_str a); repeat break_match; try reflexivity.
  unfold free_query. cbn [fld lookup String.eqb Ascii.eqb Bool.eqb].
  rewrite <- (glen_map (fun m : str * N => fresh_str (fst m))). apply free_arr_full.
  intros z Hz. apply in_map_iff in Hz. destruct Hz as (w & <- & _). reflexivity.
Qed.

Theorem free_ok : forall g a1 a2 st s, call g a1 a2 st = Res s -> free_query (rtype_of g) s = FOk.
Proof.
  intros g a1 a2 st s H.
  destruct g; simpl in H;
    try (progress unfold get_index in H; destruct a1);
    injection H as <-; cbn [rtype_of];
    try reflexivity;
    try apply free_idlist; try apply free_snapshot; try apply free_board_list; try apply free_aspects;
    try apply free_accessory.
  all: try first [apply free_peripheral | apply free_reverser].
  all: try first [apply free_segment | apply free_train_state | apply free_position].
  all: try (unfold get_board_id, get_train_id, get_board_features, idq; destruct (arg_str a1); repeat break_match; try reflexivity; try apply free_idlist_always).
Qed.

(* ------------------------------------------------------------------ every call returns *)
Theorem total : forall g a1 a2 st, exists s, call g a1 a2 st = Res s.
Proof. intros g a1 a2 st. destruct g; simpl; try (unfold get_index; destruct a1); eexists; reflexivity. Qed.

(* ------------------------------------------------------------------ snapshot = single getters *)
Lemma str_eqb_eq a b : str_eqb a b = true <-> a = b.
Proof.
  revert b. induction a as [|x a IH]; destruct b as [|y b]; simpl; split; intros H; try reflexivity; try discriminate.
  - apply andb_prop in H. destruct H as [H1 H2]. apply N.eqb_eq in H1. apply IH in H2. subst. reflexivity.
  - injection H as -> ->. rewrite N.eqb_refl. simpl. apply IH. reflexivity.
Qed.
Lemma str_eqb_refl a : str_eqb a a = true.
Proof. apply str_eqb_eq. reflexivity. Qed.
Lemma str_eqb_sym a b : str_eqb a b = str_eqb b a.
Proof.
  destruct (str_eqb a b) eqn:E1, (str_eqb b a) eqn:E2; try reflexivity.
  - apply str_eqb_eq in E1. subst. rewrite str_eqb_refl in E2. discriminate.
  - apply str_eqb_eq in E2. subst. rewrite str_eqb_refl in E1. discriminate.
Qed.
Lemma shape_eqb_refl s : shape_eqb s s = true.
Proof.
  induction s using shape_ind_nested; simpl; try reflexivity; try assumption.
  - destruct v; [apply N.eqb_refl|reflexivity].
  - apply str_eqb_refl.
  - induction H as [|x l Hx Hl IH]; [reflexivity|]. rewrite Hx. exact IH.
  - induction H as [|x l Hx Hl IH]; [reflexivity|]. destruct x as [k v]. simpl in Hx. rewrite String.eqb_refl, Hx. exact IH.
Qed.

Lemma find_unique {A} (fid : A -> str) l x : NoDup (map fid l) -> In x l -> find (fun y => str_eqb (fid y) (fid x)) l = Some x.
Proof.
  induction l as [|a r IH]; intros Hn Hin; [destruct Hin|]. simpl in *. inversion Hn as [|? ? Hna Hnr]; subst.
  destruct (str_eqb (fid a) (fid x)) eqn:E.
  - apply str_eqb_eq in E. destruct Hin as [->|Hin]; [reflexivity|]. exfalso. apply Hna. rewrite E. apply in_map. exact Hin.
  - destruct Hin as [->|Hin]; [rewrite str_eqb_refl in E; discriminate|]. apply IH; assumption.
Qed.
Lemma find_unique' {A} (fid : A -> str) l x : NoDup (map fid l) -> In x l -> find (fun y => str_eqb (fid x) (fid y)) l = Some x.
Proof.
  intros Hn Hin. rewrite <- (find_unique fid l x Hn Hin). clear. induction l as [|a r IH]; [reflexivity|]. simpl.
  rewrite (str_eqb_sym (fid x) (fid a)). destruct (str_eqb (fid a) (fid x)); [reflexivity|exact IH].
Qed.
Lemma find_absent {A} (fid : A -> str) l s : ~ In s (map fid l) -> find (fun y => str_eqb (fid y) s) l = None.
Proof.
  induction l as [|a r IH]; intros H; [reflexivity|]. simpl in *. destruct (str_eqb (fid a) s) eqn:E.
  - apply str_eqb_eq in E. exfalso. apply H. left. exact E.
  - apply IH. intros Hc. apply H. right. exact Hc.
Qed.
Lemma nodup_app_l {A} (l1 l2 : list A) : NoDup (l1 ++ l2) -> NoDup l1.
Proof. induction l1 as [|a l IH]; intros H; [constructor|]. inversion H; subst. constructor; [intros Hc; apply H2; apply in_or_app; left; exact Hc|apply IH; assumption]. Qed.
Lemma nodup_app_r {A} (l1 l2 : list A) : NoDup (l1 ++ l2) -> NoDup l2.
Proof. induction l1 as [|a l IH]; intros H; [exact H|]. inversion H; subst. apply IH. assumption. Qed.
Lemma nodup_app_disj {A} (l1 l2 : list A) x : NoDup (l1 ++ l2) -> In x l2 -> ~ In x l1.
Proof.
  induction l1 as [|a l IH]; intros H Hx Hc; [destruct Hc|]. inversion H; subst. destruct Hc as [->|Hc].
  - apply H2. apply in_or_app. right. exact Hx.
  - exact (IH H3 Hx Hc).
Qed.

(* ------------------------------------------------------------------ snapshot = single getters, except the recorded members *)
(* ---- strings: stripping a prefix that was prepended ---- *)
Lemma prefix_append p k : String.prefix p (String.append p k) = true.
Proof. induction p as [|a p IH]; simpl; [destruct k; reflexivity|]. destruct (Ascii.ascii_dec a a); [exact IH|contradiction]. Qed.
Lemma substring_all k : substring 0 (String.length k) k = k.
Proof. induction k as [|a k IH]; simpl; [reflexivity|]. rewrite IH. reflexivity. Qed.
Lemma substring_append p k :
  substring (String.length p) (String.length (String.append p k) - String.length p) (String.append p k) = k.
Proof. induction p as [|a p IH]; simpl; [rewrite Nat.sub_0_r; apply substring_all|exact IH]. Qed.
Lemma strip_pfx p l : strip p (pfx p l) = l.
Proof.
  unfold pfx. induction l as [|[k v] l IH]; simpl; [reflexivity|].
  rewrite prefix_append, substring_append, IH. reflexivity.
Qed.
Lemma strip_app p l1 l2 : strip p (l1 ++ l2) = strip p l1 ++ strip p l2.
Proof. induction l1 as [|[k v] l IH]; simpl; [reflexivity|]. destruct (String.prefix p k); simpl; rewrite IH; reflexivity. Qed.

Fixpoint distinct (l : list string) : bool :=
  match l with [] => true | x :: r => negb (existsb (String.eqb x) r) && distinct r end.
Lemma lookup_self d : distinct (map fst d) = true -> forall k v, In (k, v) d -> lookup k d = v.
Proof.
  induction d as [|[k0 v0] d IH]; intros Hd k v Hin; [destruct Hin|]. simpl in *. apply andb_prop in Hd. destruct Hd as [Hn Hd].
  destruct Hin as [E|Hin].
  - injection E as -> ->. rewrite String.eqb_refl. reflexivity.
  - destruct (String.eqb k0 k) eqn:E.
    + exfalso. apply String.eqb_eq in E. subst k0. apply negb_true_iff in Hn.
      assert (existsb (String.eqb k) (map fst d) = true) as Hc.
      { apply existsb_exists. exists k. split; [|apply String.eqb_refl]. change k with (fst (k, v)). apply in_map. exact Hin. }
      rewrite Hc in Hn. discriminate.
    + apply IH; assumption.
Qed.
Lemma mismatches_in c e s m : In m (entry_mismatches c e s) ->
  exists v, In (m, v) (strip (cat_prefix_snap c) (rec_fields e)) /\
            shape_eqb v (lookup m (strip (cat_prefix_single c) (rec_fields s))) = false.
Proof.
  unfold entry_mismatches. intros H. apply in_map_iff in H. destruct H as ([k v] & <- & H). apply filter_In in H. destruct H as [Hin Hf].
  simpl in *. exists v. split; [exact Hin|]. apply negb_true_iff in Hf. exact Hf.
Qed.
Lemma mismatches_same c he hs d :
  strip (cat_prefix_snap c) he = [] -> strip (cat_prefix_single c) hs = [] -> distinct (map fst d) = true ->
  forall m, ~ In m (entry_mismatches c (Rec (he ++ pfx (cat_prefix_snap c) d)) (Rec (hs ++ pfx (cat_prefix_single c) d))).
Proof.
  intros He Hs Hd m H. apply mismatches_in in H. destruct H as (v & Hin & Hf). simpl in Hin, Hf.
  rewrite strip_app, He, strip_pfx in Hin. rewrite strip_app, Hs, strip_pfx in Hf. simpl in Hin, Hf.
  rewrite (lookup_self d Hd m v Hin), shape_eqb_refl in Hf. discriminate.
Qed.


Lemma in_flat_map_map {A B C} (f : B -> list C) (g : A -> B) l y : In y (flat_map f (map g l)) -> exists x, In x l /\ In y (f (g x)).
Proof. intros H. apply in_flat_map in H. destruct H as (b & Hb & Hy). apply in_map_iff in Hb. destruct Hb as (x & <- & Hx). exists x. split; assumption. Qed.

Ltac same_cat H c he hs d :=
  apply in_map_iff in H; destruct H as (m' & _ & H);
  exact (mismatches_same c he hs d eq_refl eq_refl eq_refl m' H).
Theorem snapshot_eq : forall st, ids_unique st -> snapshot_mismatches st = [].
Proof.
  intros st (Hp & Hs & Hpe & Hsg & Hrv & Hts & Hbo & Hto).
  destruct (snapshot_mismatches st) as [|[[c id] m] rest] eqn:Heq; [reflexivity|exfalso].
  assert (H : In (c, id, m) (snapshot_mismatches st)) by (rewrite Heq; left; reflexivity). clear Heq rest.
  unfold snapshot_mismatches in H. apply in_flat_map in H. destruct H as (c' & Hc' & H).
  unfold all_cats in Hc'. simpl in Hc'.
  repeat (destruct Hc' as [<-|Hc']); try contradiction;
    cbn [cat_array] in H; unfold snapshot in H; cbn [fld lookup String.eqb Ascii.eqb Bool.eqb arr_elems] in H;
    apply in_flat_map_map in H; destruct H as (x & Hx & H);
    cbn [fld el lookup String.eqb Ascii.eqb Bool.eqb fresh_str cat_single call] in H.
  - unfold get_accessory_state in H. rewrite (find_unique ba_id _ x (nodup_app_l _ _ Hp) Hx) in H.
    same_cat H CPointBoard [("id", fresh_str (ba_id x))] [("known", sc 1); ("type", sc 0)] (bacc_data x).
  - unfold get_accessory_state in H.
    rewrite (find_absent ba_id (points_board st) (da_id x)) in H by (apply (nodup_app_disj _ _ _ Hp); apply in_map; exact Hx).
    rewrite (find_unique da_id _ x (nodup_app_r _ _ Hp) Hx) in H.
    same_cat H CPointDcc [("id", fresh_str (da_id x))] [("known", sc 1); ("type", sc 1)] (dacc_data x).
  - unfold get_accessory_state in H. rewrite (find_unique ba_id _ x (nodup_app_l _ _ Hs) Hx) in H.
    same_cat H CSignalBoard [("id", fresh_str (ba_id x))] [("known", sc 1); ("type", sc 0)] (bacc_data x).
  - unfold get_accessory_state in H.
    rewrite (find_absent ba_id (signals_board st) (da_id x)) in H by (apply (nodup_app_disj _ _ _ Hs); apply in_map; exact Hx).
    rewrite (find_unique da_id _ x (nodup_app_r _ _ Hs) Hx) in H.
    same_cat H CSignalDcc [("id", fresh_str (da_id x))] [("known", sc 1); ("type", sc 1)] (dacc_data x).
  - unfold get_peripheral_state, arg_str in H. rewrite (find_unique pe_id _ x Hpe Hx) in H.
    same_cat H CPeripheral [("id", fresh_str (pe_id x))] [("available", sc 1)] (per_data x).
  - unfold get_segment_state, arg_str in H. rewrite (find_unique sg_id _ x Hsg Hx) in H.
    same_cat H CSegment [("id", fresh_str (sg_id x))] [("known", sc 1)] (seg_data x).
  - unfold get_reverser_state, arg_str in H. rewrite (find_unique rv_id _ x Hrv Hx) in H.
    same_cat H CReverser [("id", fresh_str (rv_id x))] [("available", sc 1)] (rev_data x).
  - unfold get_train_state, arg_str, find_tstate in H. rewrite (find_unique' tt_id _ x Hts Hx) in H.
    same_cat H CTrain [("id", fresh_str (tt_id x))] [("known", sc 1)] (trs_data x).
  - unfold get_booster_state, arg_str in H. rewrite (find_unique' bo_id _ x Hbo Hx) in H.
    same_cat H CBooster [("id", fresh_str (bo_id x))] [("known", sc 1)] (boo_data x).
  - unfold get_track_output_state, arg_str in H. rewrite (find_unique to_id _ x Hto Hx) in H.
    same_cat H CTrackOutput [("id", fresh_str (to_id x))] [("known", sc 1)] [("state", cp (to_cs x))].
Qed.

Lemma ex_state_unique : ids_unique ex_state.
Proof. unfold ids_unique, ex_state; simpl. repeat split; repeat constructor; simpl; intuition discriminate. Qed.
