(* StartupProofs.v — lemmas about the node-table / start-up model (Startup.v). *)
From Coq Require Import List NArith Bool Arith Lia.
From LB Require Import Tables Startup.
Import ListNotations.
Local Open Scope N_scope.

(* ------------------------------------------------------------------ equality tests *)
Lemma uid_eqb_eq : forall a b, uid_eqb a b = true <-> a = b.
Proof.
  induction a as [|x a IH]; destruct b as [|y b]; simpl; split; intro H; try reflexivity; try discriminate.
  - apply andb_true_iff in H. destruct H as [H1 H2]. apply N.eqb_eq in H1. apply IH in H2. subst. reflexivity.
  - inversion H; subst. apply andb_true_iff. split. apply N.eqb_refl. apply IH. reflexivity.
Qed.
Lemma uid_eqb_refl : forall a, uid_eqb a a = true.
Proof. intro a. apply uid_eqb_eq. reflexivity. Qed.
Lemma uid_eqb_neq : forall a b, uid_eqb a b = false <-> a <> b.
Proof.
  intros a b. split; intro H.
  - intro E. apply uid_eqb_eq in E. congruence.
  - destruct (uid_eqb a b) eqn:E; [apply uid_eqb_eq in E; contradiction | reflexivity].
Qed.

Lemma addr3_eqb_eq : forall a b, addr3_eqb a b = true <-> a = b.
Proof.
  intros [[t s] ss] [[t' s'] ss']. unfold addr3_eqb. rewrite !andb_true_iff, !N.eqb_eq.
  split; [intros [[? ?] ?]; subst; reflexivity | intro H; inversion H; auto].
Qed.

(* ------------------------------------------------------------------ addresses *)
Lemma ext_addr_zero : forall a, snd a = 0 -> ext_addr a 0 = a.
Proof.
  intros [[t s] ss] H. simpl in H. subst. unfold ext_addr.
  destruct (t =? 0) eqn:E1; [apply N.eqb_eq in E1; subst; reflexivity|].
  destruct (s =? 0) eqn:E2; [apply N.eqb_eq in E2; subst; reflexivity|]. reflexivity.
Qed.

(* the address formed by a path of (non-zero) local addresses *)
Lemma ext_path1 : forall l1, ext_addr root_addr l1 = (l1, 0, 0).
Proof. reflexivity. Qed.
Lemma ext_path2 : forall l1 l2, l1 <> 0 -> ext_addr (ext_addr root_addr l1) l2 = (l1, l2, 0).
Proof. intros l1 l2 H. simpl. apply N.eqb_neq in H. rewrite H. reflexivity. Qed.
Lemma ext_path3 : forall l1 l2 l3, l1 <> 0 -> l2 <> 0 ->
  ext_addr (ext_addr (ext_addr root_addr l1) l2) l3 = (l1, l2, l3).
Proof. intros l1 l2 l3 H1 H2. simpl. apply N.eqb_neq in H1, H2. rewrite H1. simpl. rewrite H1, H2. reflexivity. Qed.

(* canonical addresses: a zero component ends the address *)
Definition wf_addr (a : addr3) : Prop :=
  let '(t, s, ss) := a in (t = 0 -> s = 0 /\ ss = 0) /\ (s = 0 -> ss = 0).

(* bidib_state_is_subnode decides "strictly beneath" on canonical addresses *)
Lemma is_subnode_prefix : forall n s, wf_addr n -> wf_addr s ->
  (is_subnode n s = true <-> exists k, k <> [] /\ canon3 s = canon3 n ++ k).
Proof.
  intros [[t u] v] [[t' u'] v'] [Hn1 Hn2] [Hs1 Hs2]. unfold is_subnode, canon3.
  destruct (N.eqb_spec t 0), (N.eqb_spec u 0), (N.eqb_spec v 0), (N.eqb_spec t' 0), (N.eqb_spec u' 0), (N.eqb_spec v' 0),
           (N.eqb_spec t t'), (N.eqb_spec u u'), (N.eqb_spec v v'); simpl;
    try solve [exfalso; intuition congruence]; subst;
    (split; [ intro H; try discriminate H; eexists; (split; [|reflexivity]); discriminate
            | intros [k [Hk E]]; try reflexivity; exfalso;
              destruct k as [|k1 [|k2 [|k3 k]]]; simpl in E; try discriminate E; try congruence;
              inversion E; congruence ]).
Qed.

(* ------------------------------------------------------------------ board table updates *)
Definition set_conn (s : bst) (c : bool) (a : addr3) : bst := {| s_uid := s_uid s; s_conn := c; s_addr := a |}.
Definition upd1 (u : uid) (a : addr3) (s : bst) : bst := if uid_eqb (s_uid s) u then set_conn s true a else s.

Lemma upd1_uid : forall u a s, s_uid (upd1 u a s) = s_uid s.
Proof. intros. unfold upd1. destruct (uid_eqb (s_uid s) u); reflexivity. Qed.

Lemma connect_uids : forall bs u a, map s_uid (connect bs u a) = map s_uid bs.
Proof.
  induction bs as [|s r IH]; intros; simpl; [reflexivity|].
  destruct (uid_eqb (s_uid s) u); simpl; [reflexivity|]. rewrite IH. reflexivity.
Qed.

Lemma map_upd1_absent : forall u a r, ~ In u (map s_uid r) -> map (upd1 u a) r = r.
Proof.
  induction r as [|s r IH]; intro H; simpl; [reflexivity|].
  simpl in H. unfold upd1 at 1. destruct (uid_eqb (s_uid s) u) eqn:E.
  - apply uid_eqb_eq in E. exfalso. apply H. left. exact E.
  - rewrite IH; [reflexivity|]. intro X. apply H. right. exact X.
Qed.

Lemma connect_map : forall bs u a, NoDup (map s_uid bs) -> connect bs u a = map (upd1 u a) bs.
Proof.
  induction bs as [|s r IH]; intros u a H; simpl; [reflexivity|].
  simpl in H. inversion H as [|x l Hn Hd]; subst.
  unfold upd1 at 1. destruct (uid_eqb (s_uid s) u) eqn:E.
  - apply uid_eqb_eq in E. subst u. rewrite map_upd1_absent by exact Hn. reflexivity.
  - rewrite IH by exact Hd. reflexivity.
Qed.

(* the rows (address, unique id) contained in an event list, and what a list of rows does to one board *)
Definition erows (evs : list ev) : list (addr3 * uid) :=
  flat_map (fun e => match e with ERow a u => [(a, u)] | EQuery _ _ => [] end) evs.

Lemma erows_app : forall x y, erows (x ++ y) = erows x ++ erows y.
Proof. intros. unfold erows. apply flat_map_app. Qed.

Definition connect_row (bs : list bst) (r : addr3 * uid) : list bst := connect bs (snd r) (fst r).

Lemma apply_evs_rows : forall evs bs, apply_evs bs evs = fold_left connect_row (erows evs) bs.
Proof.
  induction evs as [|e evs IH]; intro bs; [reflexivity|].
  unfold apply_evs in *. simpl. destruct e as [a n|a u]; simpl; apply IH.
Qed.

Fixpoint last_addr (rows : list (addr3 * uid)) (u : uid) : option addr3 :=
  match rows with
  | [] => None
  | (a, u') :: r => match last_addr r u with
                    | Some x => Some x
                    | None => if uid_eqb u u' then Some a else None
                    end
  end.
Definition upd_rows (rows : list (addr3 * uid)) (s : bst) : bst :=
  match last_addr rows (s_uid s) with Some a => set_conn s true a | None => s end.

Lemma last_addr_in : forall rows u a, last_addr rows u = Some a -> In (a, u) rows.
Proof.
  induction rows as [|[a' u'] r IH]; intros u a H; simpl in H; [discriminate|].
  destruct (last_addr r u) eqn:E.
  - inversion H; subst. right. apply IH. exact E.
  - destruct (uid_eqb u u') eqn:E2; [|discriminate]. apply uid_eqb_eq in E2. inversion H; subst. left. reflexivity.
Qed.
Lemma last_addr_none : forall rows u, last_addr rows u = None <-> ~ In u (map snd rows).
Proof.
  induction rows as [|[a' u'] r IH]; intro u; simpl; [tauto|].
  destruct (last_addr r u) eqn:E.
  - split; [discriminate|]. intro H. exfalso. apply H. right.
    assert (X : last_addr r u <> None) by congruence. rewrite IH in X.
    destruct (in_dec (list_eq_dec N.eq_dec) u (map snd r)); [assumption|contradiction].
  - destruct (uid_eqb u u') eqn:E2.
    + apply uid_eqb_eq in E2. subst. split; [discriminate|]. intro H. exfalso. apply H. left. reflexivity.
    + apply uid_eqb_neq in E2. split; [|reflexivity]. intros _ [H|H]; [congruence|]. apply IH in E. contradiction.
Qed.

Lemma upd_rows_uid : forall rows s, s_uid (upd_rows rows s) = s_uid s.
Proof. intros. unfold upd_rows. destruct (last_addr rows (s_uid s)); reflexivity. Qed.

Lemma apply_rows_map : forall rows bs, NoDup (map s_uid bs) ->
  fold_left connect_row rows bs = map (upd_rows rows) bs.
Proof.
  induction rows as [|[a u] r IH]; intros bs H; simpl.
  - unfold upd_rows. simpl. symmetry. apply map_id.
  - unfold connect_row at 2. simpl. rewrite connect_map by exact H.
    rewrite IH.
    + rewrite map_map. apply map_ext. intro s. unfold upd_rows. rewrite upd1_uid. simpl.
      destruct (last_addr r (s_uid s)) eqn:E.
      * unfold upd1. destruct (uid_eqb (s_uid s) u); reflexivity.
      * unfold upd1. destruct (uid_eqb (s_uid s) u); reflexivity.
    + rewrite map_map. erewrite map_ext; [exact H|]. intro s. apply upd1_uid.
Qed.

(* what the enumeration events do to a configured board: last row with its unique id wins; no row, no change *)
Lemma apply_evs_elem : forall evs bs, NoDup (map s_uid bs) ->
  apply_evs bs evs = map (upd_rows (erows evs)) bs.
Proof. intros. rewrite apply_evs_rows. apply apply_rows_map. assumption. Qed.

(* ------------------------------------------------------------------ one pass of the enumeration *)
(* the rows seen when the interface at address a (subtree t) and every interface beneath it are asked *)
Fixpoint sub_rows (a : addr3) (t : tree) : list (addr3 * uid) :=
  match t with
  | T u ch => (ext_addr a 0, u) ::
              flat_map (fun lc => (ext_addr a (fst lc), tuid (snd lc)) ::
                                  (if is_iface (tuid (snd lc)) then sub_rows (ext_addr a (fst lc)) (snd lc) else [])) ch
  end.

Definition row_of (a : addr3) (lc : N * tree) : addr3 * uid := (ext_addr a (fst lc), tuid (snd lc)).
Definition enq_of (a : addr3) (lc : N * tree) : list (addr3 * tree) :=
  if is_iface (tuid (snd lc)) then [(ext_addr a (fst lc), snd lc)] else [].

Lemma row_loop_pos : forall a rows r pend evs enq, 0 < r ->
  row_loop a rows r pend = (evs, enq, None) ->
  erows evs = map (row_of a) rows /\ enq = flat_map (enq_of a) rows.
Proof.
  induction rows as [|[l c] rest IH]; intros r pend evs enq Hr H; simpl in H.
  - inversion H; subst. split; reflexivity.
  - destruct (take_change a r pend) as [tp|]; [discriminate|].
    destruct (row_loop a rest (r + 1) pend) as [[evs1 enq1] rs1] eqn:E.
    inversion H; subst. clear H.
    assert (Hr1 : 0 < r + 1) by lia.
    destruct (IH (r + 1) pend evs1 enq1 Hr1 E) as [H1 H2].
    split.
    + simpl. rewrite H1. reflexivity.
    + simpl. unfold enq_of at 1. simpl.
      assert (X : (0 <? r) = true) by (apply N.ltb_lt; exact Hr). rewrite X. simpl. rewrite H2. reflexivity.
Qed.

Lemma row_loop_table : forall a u ch pend evs enq,
  row_loop a (table (T u ch)) 0 pend = (evs, enq, None) ->
  erows evs = (ext_addr a 0, u) :: map (row_of a) ch /\ enq = flat_map (enq_of a) ch.
Proof.
  intros a u ch pend evs enq H. unfold table in H. simpl in H.
  destruct (take_change a 0 pend) as [tp|]; [discriminate|].
  destruct (row_loop a ch 1 pend) as [[evs1 enq1] rs1] eqn:E.
  inversion H; subst. clear H.
  assert (Hr1 : 0 < 1) by lia.
  destruct (row_loop_pos a ch 1 pend evs1 enq Hr1 E) as [H1 H2].
  split; [simpl; rewrite H1; reflexivity | exact H2].
Qed.

Lemma sub_rows_unfold : forall a u ch x,
  In x (sub_rows a (T u ch)) <->
  In x ((ext_addr a 0, u) :: map (row_of a) ch) \/ exists q, In q (flat_map (enq_of a) ch) /\ In x (sub_rows (fst q) (snd q)).
Proof.
  intros a u ch x. simpl. rewrite in_flat_map. split.
  - intros [H|[lc [Hl Hx]]]; [left; left; exact H|].
    simpl in Hx. destruct Hx as [Hx|Hx].
    + left. right. apply in_map_iff. exists lc. split; [exact Hx|exact Hl].
    + right. destruct (is_iface (tuid (snd lc))) eqn:E; [|contradiction].
      exists (ext_addr a (fst lc), snd lc). split; [|exact Hx].
      apply in_flat_map. exists lc. split; [exact Hl|]. unfold enq_of. rewrite E. left. reflexivity.
  - intros [[H|H]|[q [Hq Hx]]].
    + left. exact H.
    + right. apply in_map_iff in H. destruct H as [lc [E Hl]]. exists lc. split; [exact Hl|]. left. exact E.
    + right. apply in_flat_map in Hq. destruct Hq as [lc [Hl Hq]]. exists lc. split; [exact Hl|].
      unfold enq_of in Hq. destruct (is_iface (tuid (snd lc))) eqn:E; [|contradiction].
      destruct Hq as [Hq|[]]. subst q. simpl in Hx. right. exact Hx.
Qed.

Lemma erows_query : forall a n l, erows (EQuery a n :: l) = erows l.
Proof. reflexivity. Qed.

Lemma bfs_S : forall f queue pend, bfs (S f) queue pend =
  match queue with
  | [] => Some ([], None)
  | (a, t) :: q =>
      let '(evs, enq, rs) := row_loop a (table t) 0 pend in
      let qe := EQuery a (N.of_nat (length (table t))) in
      match rs with
      | Some tp => Some (qe :: evs, Some tp)
      | None => match bfs f (q ++ enq) pend with
                | Some (evs2, r2) => Some (qe :: evs ++ evs2, r2)
                | None => None
                end
      end
  end.
Proof. reflexivity. Qed.

(* a pass in which no table change fires sees exactly the rows beneath the queued interfaces *)
Lemma bfs_rows : forall fuel queue pend evs, bfs fuel queue pend = Some (evs, None) ->
  forall x, In x (erows evs) <-> exists q, In q queue /\ In x (sub_rows (fst q) (snd q)).
Proof.
  induction fuel as [|f IH]; intros queue pend evs H x; [discriminate|]. rewrite bfs_S in H.
  destruct queue as [|[a t] q].
  - inversion H; subst. simpl. split; [contradiction|]. intros [q [[] _]].
  - destruct (row_loop a (table t) 0 pend) as [[evs1 enq] rs] eqn:E.
    destruct rs as [tp|]; [discriminate|].
    destruct (bfs f (q ++ enq) pend) as [[evs2 r2]|] eqn:E2; [|discriminate].
    inversion H; subst. clear H.
    destruct t as [u ch].
    destruct (row_loop_table a u ch pend evs1 enq E) as [H1 H2].
    rewrite erows_query.
    rewrite erows_app, in_app_iff. rewrite (IH _ _ _ E2 x). rewrite H1.
    split.
    + intros [Hx|[q' [Hq Hx]]].
      * exists (a, T u ch). split; [left; reflexivity|]. simpl fst. simpl snd. apply sub_rows_unfold. left. exact Hx.
      * apply in_app_iff in Hq. destruct Hq as [Hq|Hq].
        { exists q'. split; [right; exact Hq|exact Hx]. }
        { exists (a, T u ch). split; [left; reflexivity|]. simpl fst. simpl snd. apply sub_rows_unfold. right.
          exists q'. split; [rewrite <- H2; exact Hq|exact Hx]. }
    + intros [q' [[Hq|Hq] Hx]].
      * subst q'. simpl fst in Hx. simpl snd in Hx. apply sub_rows_unfold in Hx. destruct Hx as [Hx|[q'' [Hq Hx]]].
        { left. exact Hx. }
        { right. exists q''. split; [apply in_app_iff; right; rewrite H2; exact Hq|exact Hx]. }
      * right. exists q'. split; [apply in_app_iff; left; exact Hq|exact Hx].
Qed.

(* ------------------------------------------------------------------ trees *)
Section TreeInd.
  Variable P : tree -> Prop.
  Hypothesis H : forall u ch, Forall (fun lc => P (snd lc)) ch -> P (T u ch).
  Fixpoint tree_ind2 (t : tree) : P t :=
    match t with
    | T u ch => H u ch ((fix go (l : list (N * tree)) : Forall (fun lc => P (snd lc)) l :=
                           match l with
                           | [] => Forall_nil _
                           | x :: r => Forall_cons x (tree_ind2 (snd x)) (go r)
                           end) ch)
    end.
End TreeInd.

Lemma nodes_from_head : forall a t, In (a, tuid t) (nodes_from a t).
Proof. intros a [u ch]. simpl. left. reflexivity. Qed.

Lemma wf_from_iface : forall a t, wf_from a t = true -> is_iface (tuid t) = true -> snd a = 0.
Proof.
  intros a [u ch] H Hi. simpl in H, Hi. rewrite Hi in H.
  apply andb_true_iff in H. destruct H as [H _]. apply andb_true_iff in H. destruct H as [_ H].
  apply N.eqb_eq in H. exact H.
Qed.
Lemma wf_from_leaf : forall a t, wf_from a t = true -> is_iface (tuid t) = false -> children t = [].
Proof.
  intros a [u ch] H Hi. simpl in H, Hi. destruct ch as [|x r]; [reflexivity|]. rewrite Hi in H. discriminate.
Qed.
Lemma wf_from_child : forall a u ch lc, wf_from a (T u ch) = true -> In lc ch ->
  fst lc <> 0 /\ wf_from (ext_addr a (fst lc)) (snd lc) = true.
Proof.
  intros a u ch lc H Hl. simpl in H. apply andb_true_iff in H. destruct H as [_ H].
  rewrite forallb_forall in H. specialize (H lc Hl). apply andb_true_iff in H. destruct H as [H1 H2].
  split; [|exact H2]. apply negb_true_iff in H1. apply N.eqb_neq. exact H1.
Qed.

(* on a well-formed bus the rows seen by the enumeration are exactly the nodes with their path addresses *)
Lemma sub_rows_nodes : forall t a, snd a = 0 -> wf_from a t = true ->
  forall x, In x (sub_rows a t) <-> In x (nodes_from a t).
Proof.
  induction t as [u ch IH] using tree_ind2. intros a Ha Hwf x.
  simpl. rewrite (ext_addr_zero a Ha). rewrite !in_flat_map.
  assert (K : forall lc, In lc ch ->
            (In x ((ext_addr a (fst lc), tuid (snd lc)) ::
                   (if is_iface (tuid (snd lc)) then sub_rows (ext_addr a (fst lc)) (snd lc) else []))
             <-> In x (nodes_from (ext_addr a (fst lc)) (snd lc)))).
  { intros lc Hl. destruct (wf_from_child a u ch lc Hwf Hl) as [Hnz Hw].
    rewrite Forall_forall in IH. specialize (IH lc Hl).
    destruct (is_iface (tuid (snd lc))) eqn:E.
    - pose proof (wf_from_iface _ _ Hw E) as Hz.
      specialize (IH (ext_addr a (fst lc)) Hz Hw x). simpl. rewrite IH.
      split; [intros [X|X]; [subst x; apply nodes_from_head|exact X] | intro X; right; exact X].
    - pose proof (wf_from_leaf _ _ Hw E) as Hc. destruct (snd lc) as [u' ch'] eqn:El. simpl in Hc. subst ch'.
      simpl. tauto. }
  split.
  - intros [X|[lc [Hl X]]]; [left; exact X|]. right. exists lc. split; [exact Hl|]. apply K; assumption.
  - intros [X|[lc [Hl X]]]; [left; exact X|]. right. exists lc. split; [exact Hl|]. apply K; assumption.
Qed.

(* ------------------------------------------------------------------ passes without / with table changes *)
Lemma row_loop_nil : forall a rows r evs enq rs, row_loop a rows r [] = (evs, enq, rs) -> rs = None.
Proof.
  induction rows as [|[l c] rest IH]; intros r evs enq rs H; simpl in H.
  - inversion H. reflexivity.
  - destruct (row_loop a rest (r + 1) []) as [[evs1 enq1] rs1] eqn:E. inversion H; subst. eapply IH. exact E.
Qed.
Lemma bfs_nil : forall fuel queue evs r, bfs fuel queue [] = Some (evs, r) -> r = None.
Proof.
  induction fuel as [|f IH]; intros queue evs r H; [discriminate|]. rewrite bfs_S in H.
  destruct queue as [|[a t] q]; [inversion H; reflexivity|].
  destruct (row_loop a (table t) 0 []) as [[evs1 enq] rs] eqn:E.
  apply row_loop_nil in E. subst rs.
  destruct (bfs f (q ++ enq) []) as [[evs2 r2]|] eqn:E2; [|discriminate].
  inversion H; subst. eapply IH. exact E2.
Qed.

(* the event list of an enumeration ends with a complete pass over the final bus *)
Lemma enum_last_pass : forall p fuel t pend evs tf, enum p fuel t pend = Some (evs, tf) ->
  exists pre last pend', evs = pre ++ last /\ bfs fuel [(root_addr, tf)] pend' = Some (last, None).
Proof.
  induction p as [|p IH]; intros fuel t pend evs tf H; simpl in H; [discriminate|].
  destruct (bfs fuel [(root_addr, t)] pend) as [[evs1 r]|] eqn:E; [|discriminate].
  destruct r as [[t' pend']|].
  - destruct (enum p fuel t' pend') as [[e2 tf2]|] eqn:E2; [|discriminate].
    inversion H; subst. destruct (IH _ _ _ _ _ E2) as [pre [last [pd [Hev Hb]]]].
    exists (evs1 ++ pre), last, pd. split; [rewrite Hev, app_assoc; reflexivity|exact Hb].
  - inversion H; subst. exists [], evs, pend. split; [reflexivity|exact E].
Qed.

Lemma init_bs_uids : forall c, map s_uid (init_bs c) = map b_uid (c_boards c).
Proof. intro c. unfold init_bs. rewrite map_map. reflexivity. Qed.

Lemma apply_evs_uids : forall evs bs, map s_uid (apply_evs bs evs) = map s_uid bs.
Proof.
  induction evs as [|e evs IH]; intro bs; [reflexivity|].
  unfold apply_evs in *. simpl. rewrite IH. destruct e; simpl; [reflexivity|apply connect_uids].
Qed.

Lemma apply_evs_app : forall bs x y, apply_evs bs (x ++ y) = apply_evs (apply_evs bs x) y.
Proof. intros. unfold apply_evs. apply fold_left_app. Qed.

(* a complete pass over a well-formed bus: every board whose unique id is on the bus ends up connected at the address of
   a node with that unique id; every other board is left as it was *)
Lemma pass_correct : forall fuel tf pend last bs,
  wf_from root_addr tf = true -> NoDup (map s_uid bs) ->
  bfs fuel [(root_addr, tf)] pend = Some (last, None) ->
  Forall2 (fun s0 s => s_uid s = s_uid s0 /\
             (In (s_uid s0) (map snd (nodes_from root_addr tf)) ->
                s_conn s = true /\ In (s_addr s, s_uid s) (nodes_from root_addr tf)) /\
             (~ In (s_uid s0) (map snd (nodes_from root_addr tf)) -> s = s0))
          bs (apply_evs bs last).
Proof.
  intros fuel tf pend last bs Hwf Hnd Hb.
  rewrite apply_evs_elem by exact Hnd.
  assert (R : forall x, In x (erows last) <-> In x (nodes_from root_addr tf)).
  { intro x. rewrite (bfs_rows _ _ _ _ Hb x). split.
    - intros [q [[Hq|[]] Hx]]. subst q. simpl in Hx. apply sub_rows_nodes in Hx; [exact Hx|reflexivity|exact Hwf].
    - intro Hx. exists (root_addr, tf). split; [left; reflexivity|]. simpl. apply sub_rows_nodes; [reflexivity|exact Hwf|exact Hx]. }
  clear Hnd. induction bs as [|s0 r IH]; simpl; constructor; [|exact IH].
  split; [apply upd_rows_uid|]. unfold upd_rows. split.
  - intro Hin. destruct (last_addr (erows last) (s_uid s0)) eqn:E.
    + simpl. split; [reflexivity|]. apply R. apply last_addr_in. exact E.
    + exfalso. apply last_addr_none in E. apply E. apply in_map_iff in Hin. destruct Hin as [[a u] [Eu Hx]].
      apply in_map_iff. exists (a, u). split; [exact Eu|]. apply R. exact Hx.
  - intro Hnin. destruct (last_addr (erows last) (s_uid s0)) eqn:E; [|reflexivity].
    exfalso. apply Hnin. apply last_addr_in in E. apply R in E. apply in_map_iff. exists (a, s_uid s0). split; [reflexivity|exact E].
Qed.

Lemma Forall2_in_r : forall {A B} (R : A -> B -> Prop) l l', Forall2 R l l' -> forall y, In y l' -> exists x, In x l /\ R x y.
Proof.
  intros A B R l l' H. induction H as [|x y l l' Hxy H IH]; intros z Hz; [contradiction|].
  destruct Hz as [Hz|Hz]; [subst; exists x; split; [left; reflexivity|exact Hxy]|].
  destruct (IH z Hz) as [x' [Hx' Hr]]. exists x'. split; [right; exact Hx'|exact Hr].
Qed.

Lemma init_bs_disconnected : forall c s, In s (init_bs c) -> s_conn s = false.
Proof. intros c s H. unfold init_bs in H. apply in_map_iff in H. destruct H as [b [E _]]. subst s. reflexivity. Qed.

Lemma snd_unique : forall {A B} (l : list (A * B)) a a' u, NoDup (map snd l) -> In (a, u) l -> In (a', u) l -> a = a'.
Proof.
  induction l as [|[x y] r IH]; intros a a' u Hnd H1 H2; [contradiction|].
  simpl in Hnd. inversion Hnd as [|z zs Hn Hd]; subst.
  destruct H1 as [H1|H1]; destruct H2 as [H2|H2].
  - congruence.
  - inversion H1; subst. exfalso. apply Hn. apply in_map_iff. exists (a', u). split; [reflexivity|exact H2].
  - inversion H2; subst. exfalso. apply Hn. apply in_map_iff. exists (a, u). split; [reflexivity|exact H1].
  - eapply IH; eassumption.
Qed.

(* C15_enumerate: static bus *)
Theorem enum_static : forall fuel c t evs tf,
  wf_from root_addr t = true -> NoDup (map b_uid (c_boards c)) ->
  enum 1 fuel t [] = Some (evs, tf) ->
  tf = t /\
  forall s, In s (apply_evs (init_bs c) evs) ->
    (s_conn s = true <-> In (s_uid s) (map snd (nodes_from root_addr t))) /\
    (s_conn s = true -> In (s_addr s, s_uid s) (nodes_from root_addr t)).
Proof.
  intros fuel c t evs tf Hwf Hnd H. simpl in H.
  destruct (bfs fuel [(root_addr, t)] []) as [[evs1 r]|] eqn:E; [|discriminate].
  pose proof (bfs_nil _ _ _ _ E). subst r. inversion H; subst. split; [reflexivity|].
  intros s Hs.
  assert (Hnd' : NoDup (map s_uid (init_bs c))) by (rewrite init_bs_uids; exact Hnd).
  pose proof (pass_correct _ _ _ _ _ Hwf Hnd' E) as F.
  destruct (Forall2_in_r _ _ _ F s Hs) as [s0 [Hs0 [Hu [Hin Hnin]]]].
  pose proof (init_bs_disconnected _ _ Hs0) as Hd.
  destruct (in_dec (list_eq_dec N.eq_dec) (s_uid s0) (map snd (nodes_from root_addr tf))) as [Y|Nn].
  - destruct (Hin Y) as [Hc Ha]. split; [split; [intros _; rewrite Hu; exact Y|intros _; exact Hc]|intros _; exact Ha].
  - rewrite (Hnin Nn). split; [split; [rewrite Hd; discriminate|intro X; contradiction]|rewrite Hd; discriminate].
Qed.

(* C15_restart: whatever happened in aborted passes, the boards on the final bus are connected at their final address *)
Theorem enum_final : forall p fuel c t pend evs tf,
  wf_from root_addr tf = true -> NoDup (map b_uid (c_boards c)) ->
  enum p fuel t pend = Some (evs, tf) ->
  forall s, In s (apply_evs (init_bs c) evs) ->
    In (s_uid s) (map snd (nodes_from root_addr tf)) ->
    s_conn s = true /\ In (s_addr s, s_uid s) (nodes_from root_addr tf).
Proof.
  intros p fuel c t pend evs tf Hwf Hnd H s Hs Hin.
  destruct (enum_last_pass _ _ _ _ _ _ H) as [pre [last [pd [Hev Hb]]]]. subst evs.
  rewrite apply_evs_app in Hs.
  assert (Hnd' : NoDup (map s_uid (apply_evs (init_bs c) pre))) by (rewrite apply_evs_uids, init_bs_uids; exact Hnd).
  pose proof (pass_correct _ _ _ _ _ Hwf Hnd' Hb) as F.
  destruct (Forall2_in_r _ _ _ F s Hs) as [s0 [Hs0 [Hu [Hi _]]]].
  rewrite Hu in Hin. apply Hi in Hin. exact Hin.
Qed.

(* ------------------------------------------------------------------ node new / node lost *)
Theorem node_new_spec : forall bs a l u, NoDup (map s_uid bs) ->
  node_new bs a l u = map (fun s => if uid_eqb (s_uid s) u then set_conn s true (ext_addr a l) else s) bs.
Proof. intros. unfold node_new. apply connect_map. assumption. Qed.

Theorem node_new_unknown : forall bs a l u, ~ In u (map s_uid bs) -> node_new bs a l u = bs.
Proof.
  intros bs a l u H. unfold node_new. induction bs as [|s r IH]; [reflexivity|]. simpl in *.
  destruct (uid_eqb (s_uid s) u) eqn:E; [apply uid_eqb_eq in E; exfalso; apply H; left; exact E|].
  rewrite IH; [reflexivity|]. intro X. apply H. right. exact X.
Qed.

Definition lost1 (u : uid) (s : bst) : bst := if uid_eqb (s_uid s) u then set_conn s false (s_addr s) else s.
Lemma disconnect1_map : forall bs u, NoDup (map s_uid bs) -> disconnect1 bs u = map (lost1 u) bs.
Proof.
  induction bs as [|s r IH]; intros u H; simpl; [reflexivity|].
  simpl in H. inversion H as [|x l Hn Hd]; subst.
  unfold lost1 at 1. destruct (uid_eqb (s_uid s) u) eqn:E.
  - apply uid_eqb_eq in E. subst u. f_equal. symmetry.
    clear IH H Hd. induction r as [|s' r IH]; [reflexivity|]. simpl in Hn. simpl.
    unfold lost1 at 1. destruct (uid_eqb (s_uid s') (s_uid s)) eqn:E2.
    + apply uid_eqb_eq in E2. exfalso. apply Hn. left. exact E2.
    + rewrite IH; [reflexivity|]. intro X. apply Hn. right. exact X.
  - rewrite IH by exact Hd. reflexivity.
Qed.

Lemma find_bst_some : forall bs u b, find_bst bs u = Some b -> In b bs /\ s_uid b = u.
Proof.
  induction bs as [|s r IH]; intros u b H; simpl in H; [discriminate|].
  destruct (uid_eqb (s_uid s) u) eqn:E.
  - inversion H; subst. apply uid_eqb_eq in E. split; [left; reflexivity|exact E].
  - destruct (IH _ _ H) as [H1 H2]. split; [right; exact H1|exact H2].
Qed.
Lemma find_bst_none : forall bs u, find_bst bs u = None <-> ~ In u (map s_uid bs).
Proof.
  induction bs as [|s r IH]; intro u; simpl; [tauto|].
  destruct (uid_eqb (s_uid s) u) eqn:E.
  - apply uid_eqb_eq in E. split; [discriminate|]. intro H. exfalso. apply H. left. exact E.
  - apply uid_eqb_neq in E. rewrite IH. tauto.
Qed.

(* C15_lost: the board is disconnected; for an interface, every board whose address lies beneath its address *)
Theorem node_lost_spec : forall bs u b, NoDup (map s_uid bs) -> find_bst bs u = Some b ->
  node_lost bs u = map (fun s => if uid_eqb (s_uid s) u || (is_iface u && is_subnode (s_addr b) (s_addr s))
                                 then set_conn s false (s_addr s) else s) bs.
Proof.
  intros bs u b Hnd Hf. unfold node_lost. rewrite Hf. destruct (find_bst_some _ _ _ Hf) as [_ Hu]. rewrite Hu.
  rewrite disconnect1_map by exact Hnd.
  destruct (is_iface u); simpl.
  - rewrite map_map. apply map_ext. intro s. unfold lost1.
    destruct (uid_eqb (s_uid s) u); simpl.
    + destruct (is_subnode (s_addr b) (s_addr s)); reflexivity.
    + destruct (is_subnode (s_addr b) (s_addr s)); reflexivity.
  - apply map_ext. intro s. unfold lost1. rewrite orb_false_r. reflexivity.
Qed.

Theorem node_lost_unknown : forall bs u, ~ In u (map s_uid bs) -> node_lost bs u = bs.
Proof. intros bs u H. unfold node_lost. apply find_bst_none in H. rewrite H. reflexivity. Qed.

(* C15_ack *)
Theorem notice_ack : forall bs e,
  snd (notice_step bs e) =
  match e with NNew a v _ _ => [(a, MSG_NODE_CHANGED_ACK, [v])] | NLost a v _ _ => [(a, MSG_NODE_CHANGED_ACK, [v])] end.
Proof. intros bs [a v l u|a v l u]; reflexivity. Qed.

Lemma notice_run_acks : forall es bs,
  snd (notice_run bs es) =
  map (fun e => match e with NNew a v _ _ => (a, MSG_NODE_CHANGED_ACK, [v]) | NLost a v _ _ => (a, MSG_NODE_CHANGED_ACK, [v]) end) es.
Proof.
  induction es as [|e r IH]; intro bs; [reflexivity|]. simpl.
  destruct (notice_step bs e) as [bs1 m1] eqn:E1. destruct (notice_run bs1 r) as [bs2 m2] eqn:E2.
  simpl. specialize (IH bs1). rewrite E2 in IH. simpl in IH. rewrite IH.
  pose proof (notice_ack bs e) as A. rewrite E1 in A. simpl in A. rewrite A. destruct e; reflexivity.
Qed.
