(* HighLevelProofs.v — lemmas about HighLevel.v (C09). *)
From Coq Require Import List NArith ZArith Bool Arith Lia.
From LB Require Import Tables HighLevel.
Import ListNotations.
Local Open Scope N_scope.

(* ================================================================== speed encoding (complete enumeration) *)
Definition speed_range : list Z := map (fun k => (Z.of_nat k - 126)%Z) (seq 0 253).

Lemma speed_range_complete s : (-126 <= s <= 126)%Z -> In s speed_range.
Proof.
  intros H. unfold speed_range. apply in_map_iff. exists (Z.to_nat (s + 126)). split.
  - rewrite Z2Nat.id by lia. lia.
  - apply in_seq. lia.
Qed.

Definition speed_fwd (prev_fwd : bool) (s : Z) : bool := if (s =? 0)%Z then prev_fwd else (0 <? s)%Z.

Definition speed_ok (prev_fwd : bool) (s : Z) : bool :=
  let fwd := speed_fwd prev_fwd s in
  let b := lib_to_dcc (byte (Z.abs_N s)) fwd in
  (b =? (if fwd then 128 else 0) + Z.abs_N s + (if (s =? 0)%Z then 0 else 1)) &&
  (b <? 256) && (dcc_to_lib b =? s)%Z && Bool.eqb (128 <=? b) fwd.

Lemma speed_all : forallb (fun s => speed_ok true s && speed_ok false s) speed_range = true.
Proof. vm_compute. reflexivity. Qed.

Lemma speed_encoding s prev : (-126 <= s <= 126)%Z ->
  let fwd := speed_fwd prev s in
  let b := lib_to_dcc (byte (Z.abs_N s)) fwd in
  b = (if fwd then 128 else 0) + Z.abs_N s + (if (s =? 0)%Z then 0 else 1) /\
  b < 256 /\ dcc_to_lib b = s /\ (128 <=? b) = fwd.
Proof.
  intros H. pose proof (proj1 (forallb_forall _ _) speed_all s (speed_range_complete s H)) as A.
  cbv beta in A. apply andb_true_iff in A as [A1 A2].
  assert (speed_ok prev s = true) as A by (destruct prev; assumption). clear A1 A2.
  unfold speed_ok in A. cbv zeta in A.
  apply andb_true_iff in A as [A A4]. apply andb_true_iff in A as [A A3]. apply andb_true_iff in A as [A1 A2].
  cbv zeta. repeat split.
  - apply N.eqb_eq, A1.
  - apply N.ltb_lt, A2.
  - apply Z.eqb_eq, A3.
  - apply eqb_prop, A4.
Qed.

(* the other direction: every DCC speed byte except the two "stop" encodings is the image of its decoding *)
Definition dcc_range : list N := map N.of_nat (seq 0 256).
Lemma dcc_range_complete b : b < 256 -> In b dcc_range.
Proof.
  intros H. unfold dcc_range. apply in_map_iff. exists (N.to_nat b). split.
  - apply N2Nat.id.
  - apply in_seq. lia.
Qed.
Definition dcc_back_ok (b : N) : bool :=
  let s := dcc_to_lib b in
  ((-126 <=? s)%Z && (s <=? 126)%Z) &&
  (if N.land b 127 <=? 1 then (s =? 0)%Z else lib_to_dcc (byte (Z.abs_N s)) (128 <=? b) =? b).
Lemma dcc_back_all : forallb dcc_back_ok dcc_range = true.
Proof. vm_compute. reflexivity. Qed.
Lemma dcc_back b : b < 256 ->
  (-126 <= dcc_to_lib b <= 126)%Z /\
  (1 < N.land b 127 -> lib_to_dcc (byte (Z.abs_N (dcc_to_lib b))) (128 <=? b) = b) /\
  (N.land b 127 <= 1 -> dcc_to_lib b = 0%Z).
Proof.
  intros H. pose proof (proj1 (forallb_forall _ _) dcc_back_all b (dcc_range_complete b H)) as A.
  unfold dcc_back_ok in A. cbv zeta in A. apply andb_true_iff in A as [A1 A2]. apply andb_true_iff in A1 as [A0 A1].
  apply Z.leb_le in A0, A1. split; [lia|]. split; intros L.
  - apply N.leb_gt in L. rewrite L in A2. apply N.eqb_eq, A2.
  - apply N.leb_le in L. rewrite L in A2. apply Z.eqb_eq, A2.
Qed.

(* ================================================================== generic list lemmas *)
Lemma list_eqb_eq a : forall b, list_eqb a b = true -> a = b.
Proof.
  induction a as [|x a IH]; intros [|y b] H; try discriminate; [reflexivity|].
  cbn in H. apply andb_true_iff in H as [H1 H2]. apply N.eqb_eq in H1. subst. f_equal. auto.
Qed.
Lemma list_eqb_refl a : list_eqb a a = true.
Proof. induction a; cbn; [reflexivity|]. rewrite N.eqb_refl. assumption. Qed.

Section UpdFirst.
  Context {A : Type} (key : A -> N).
  Variable f : A -> A.
  Hypothesis f_key : forall x, key (f x) = key x.

  Lemma upd_first_keys k l : map key (upd_first (fun x => key x =? k) f l) = map key l.
  Proof.
    induction l as [|x l IH]; [reflexivity|]. cbn. destruct (key x =? k); cbn; [rewrite f_key|rewrite IH]; reflexivity.
  Qed.

  Lemma find_upd_first_same k l :
    find (fun x => key x =? k) (upd_first (fun x => key x =? k) f l) = option_map f (find (fun x => key x =? k) l).
  Proof.
    induction l as [|x l IH]; [reflexivity|]. cbn. destruct (key x =? k) eqn:E; cbn.
    - rewrite f_key, E. reflexivity.
    - rewrite E. exact IH.
  Qed.

  Lemma find_upd_first_other k k' l : k' <> k ->
    find (fun x => key x =? k') (upd_first (fun x => key x =? k) f l) = find (fun x => key x =? k') l.
  Proof.
    intros Hne. induction l as [|x l IH]; [reflexivity|]. cbn. destruct (key x =? k) eqn:E; cbn.
    - rewrite f_key. apply N.eqb_eq in E. destruct (key x =? k') eqn:E'; [|reflexivity].
      apply N.eqb_eq in E'. congruence.
    - destruct (key x =? k'); [reflexivity|exact IH].
  Qed.
End UpdFirst.

Lemma upd_first_id {A} (p : A -> bool) (f : A -> A) l :
  (forall x, In x l -> p x = true -> f x = x) -> upd_first p f l = l.
Proof.
  induction l as [|x l IH]; intros H; [reflexivity|]. cbn. destruct (p x) eqn:E.
  - rewrite (H x (or_introl eq_refl) E). reflexivity.
  - rewrite IH; [reflexivity|]. intros y Hy. apply H. right. exact Hy.
Qed.

Lemma existsb_key_in {A} (key : A -> N) k l : existsb (fun x => key x =? k) l = true <-> In k (map key l).
Proof.
  rewrite existsb_exists, in_map_iff. split; intros [x [H1 H2]].
  - exists x. apply N.eqb_eq in H2. auto.
  - exists x. split; [assumption|]. apply N.eqb_eq. assumption.
Qed.

Lemma find_key_in {A} (key : A -> N) k l x : find (fun y => key y =? k) l = Some x -> In x l /\ key x = k.
Proof. intros H. apply find_some in H as [H1 H2]. apply N.eqb_eq in H2. auto. Qed.

(* ================================================================== format / range facts *)
Lemma steps_fmt_ok s : ((steps_fmt s =? 1) || (3 <? steps_fmt s))%bool = false.
Proof. unfold steps_fmt. destruct (s =? 28); [reflexivity|]. destruct (s =? 126); reflexivity. Qed.

(* ================================================================== searches *)
Lemma acc_search_some point bs id b e : acc_search point bs id = Some (b, e) ->
  In b bs /\
  match e with
  | inl m => In m (if point then b_pts b else b_sigs b) /\ ba_id m = id
  | inr m => In m (if point then b_dpts b else b_dsigs b) /\ dc_id m = id
  end.
Proof.
  induction bs as [|c bs IH]; [discriminate|]. cbn.
  destruct (find (fun m => ba_id m =? id) (if point then b_pts c else b_sigs c)) eqn:E1.
  - intros H. inversion H; subst. split; [left; reflexivity|]. apply (find_key_in ba_id) in E1. exact E1.
  - destruct (find (fun m => dc_id m =? id) (if point then b_dpts c else b_dsigs c)) eqn:E2.
    + intros H. inversion H; subst. split; [left; reflexivity|]. apply (find_key_in dc_id) in E2. exact E2.
    + intros H. apply IH in H as [H1 H2]. split; [right; exact H1|exact H2].
Qed.

Lemma per_search_some bs id b m : per_search bs id = Some (b, m) -> In b bs /\ In m (b_pers b) /\ pe_id m = id.
Proof.
  induction bs as [|c bs IH]; [discriminate|]. cbn.
  destruct (find (fun m => pe_id m =? id) (b_pers c)) eqn:E1.
  - intros H. inversion H; subst. split; [left; reflexivity|]. apply (find_key_in pe_id) in E1. exact E1.
  - intros H. apply IH in H as [H1 H2]. split; [right; exact H1|exact H2].
Qed.

Lemma rev_search_some bs id m : rev_search bs id = Some m -> exists b, In b bs /\ In m (b_revs b) /\ rv_id m = id.
Proof.
  induction bs as [|c bs IH]; [discriminate|]. cbn.
  destruct (find (fun m => rv_id m =? id) (b_revs c)) eqn:E1.
  - intros H. inversion H; subst. exists c. split; [left; reflexivity|]. apply (find_key_in rv_id) in E1. exact E1.
  - intros H. apply IH in H as [b [H1 H2]]. exists b. split; [right; exact H1|exact H2].
Qed.

(* ================================================================== well-formedness, unpacked *)
Lemma nodupb_NoDup l : nodupb l = true -> NoDup l.
Proof.
  induction l as [|x l IH]; intros H; [constructor|]. cbn in H. apply andb_true_iff in H as [H1 H2].
  constructor; [|auto]. intros Hin. apply negb_true_iff in H1.
  assert (existsb (N.eqb x) l = true) as E; [|congruence].
  apply existsb_exists. exists x. split; [assumption|apply N.eqb_refl].
Qed.

Definition wf_parts (w : world) : Prop :=
  NoDup (map b_id (w_boards w)) /\
  forallb wf_board (w_boards w) = true /\
  NoDup (map tr_id (w_trains w)) /\
  forallb wf_train (w_trains w) = true /\
  forallb2 wf_tst (w_trains w) (w_tst w) = true /\
  NoDup (flat_map (fun b => map ba_id (b_pts b) ++ map dc_id (b_dpts b)) (w_boards w)) /\
  NoDup (flat_map (fun b => map ba_id (b_sigs b) ++ map dc_id (b_dsigs b)) (w_boards w)) /\
  NoDup (flat_map (fun b => map pe_id (b_pers b)) (w_boards w)) /\
  NoDup (flat_map (fun b => map rv_id (b_revs b)) (w_boards w)) /\
  map ds_id (w_dpts w) = flat_map (fun b => map dc_id (b_dpts b)) (w_boards w) /\
  map ds_id (w_dsigs w) = flat_map (fun b => map dc_id (b_dsigs b)) (w_boards w) /\
  map rs_id (w_revs w) = flat_map (fun b => map rv_id (b_revs b)) (w_boards w) /\
  nodupb2 (map (fun m => (dc_addrl m, dc_addrh m)) (all_dacc w) ++ map (fun t => (tr_addrl t, tr_addrh t)) (w_trains w)) = true.

Lemma wfb_parts w : wfb w = true -> wf_parts w.
Proof.
  unfold wfb, wf_parts. intros H.
  repeat (apply andb_true_iff in H; destruct H as [H ?]).
  repeat split; try (apply nodupb_NoDup; assumption); try (apply list_eqb_eq; assumption); assumption.
Qed.

Lemma dacc_state_exists (point : bool) w b m : wfb w = true -> In b (w_boards w) ->
  In m (if point then b_dpts b else b_dsigs b) -> In (dc_id m) (map ds_id (get_dacc_st point w)).
Proof.
  intros Hwf Hb Hm. apply wfb_parts in Hwf.
  destruct Hwf as (_ & _ & _ & _ & _ & _ & _ & _ & _ & Hp & Hs & _).
  destruct point; cbn [get_dacc_st]; [rewrite Hp|rewrite Hs]; apply in_flat_map; exists b; (split; [assumption|]);
    apply in_map; assumption.
Qed.

(* ================================================================== updates keep the shape of the world *)
Definition same_shape (w w1 : world) : Prop :=
  w_boards w1 = w_boards w /\ w_trains w1 = w_trains w /\
  map ds_id (w_dpts w1) = map ds_id (w_dpts w) /\ map ds_id (w_dsigs w1) = map ds_id (w_dsigs w).

Lemma same_shape_refl w : same_shape w w.
Proof. repeat split. Qed.
Lemma same_shape_trans a b c : same_shape a b -> same_shape b c -> same_shape a c.
Proof. unfold same_shape. intros (A1 & A2 & A3 & A4) (B1 & B2 & B3 & B4). repeat split; congruence. Qed.

Lemma set_dacc_st_shape point w l : map ds_id l = map ds_id (get_dacc_st point w) -> same_shape w (set_dacc_st point w l).
Proof. destruct point; cbn; intros H; repeat split; assumption. Qed.

Lemma state_cs_accessory_shape w a al ah d t : same_shape w (state_cs_accessory w a al ah d t).
Proof.
  unfold state_cs_accessory.
  destruct (find_board_by_addr w a) as [b|]; [|apply same_shape_refl].
  destruct (find (dacc_addr_eqb al ah) (b_dpts b)) as [m|].
  - apply set_dacc_st_shape. apply (upd_first_keys ds_id). reflexivity.
  - destruct (find (dacc_addr_eqb al ah) (b_dsigs b)) as [m|]; [|apply same_shape_refl].
    apply set_dacc_st_shape. apply (upd_first_keys ds_id). reflexivity.
Qed.

Lemma dcc_ports_fold_shape a m ports : forall acc, same_shape (snd acc) (snd (fold_left (dcc_ports_step a m) ports acc)).
Proof.
  induction ports as [|pv ports IH]; intros acc; [apply same_shape_refl|]. cbn [fold_left].
  eapply same_shape_trans; [|apply IH]. unfold dcc_ports_step, send_cs_accessory. cbn [snd].
  apply state_cs_accessory_shape.
Qed.

Lemma get_dacc_st_shape point w w1 : same_shape w w1 -> map ds_id (get_dacc_st point w1) = map ds_id (get_dacc_st point w).
Proof. intros (_ & _ & H3 & H4). destruct point; assumption. Qed.

(* ================================================================== return 1 => nothing sent, nothing changed *)
Ltac break_goal :=
  repeat match goal with
         | |- context [match ?x with _ => _ end] => destruct x eqn:?
         end.
Ltac silent := intros HH; inversion HH; subst; auto.

Lemma set_train_speed_ret1 w t s o m w' : set_train_speed w t s o = Done 1 m w' -> m = [] /\ w' = w.
Proof. unfold set_train_speed. break_goal; silent. Qed.

Lemma set_accessory_ret1 point w id asp m w' : wfb w = true ->
  set_accessory point w id asp = Done 1 m w' -> m = [] /\ w' = w.
Proof.
  intros Hwf. unfold set_accessory.
  destruct (acc_search point (w_boards w) id) as [[b [mb|md]]|] eqn:Es; [| |silent].
  - break_goal; silent.
  - destruct (negb (b_conn b)); [silent|].
    destruct (find_daspect (dc_aspects md) asp) as [a|]; [|silent].
    destruct (fold_left (dcc_ports_step (b_addr b) md) (da_ports a) ([], w)) as [ms w1] eqn:Ef.
    destruct (existsb (fun s => ds_id s =? id) (get_dacc_st point w1)) eqn:Ex; [silent|].
    exfalso. apply acc_search_some in Es as [Hb [Hm Hid]].
    pose proof (dacc_state_exists point w b md Hwf Hb Hm) as Hin.
    pose proof (dcc_ports_fold_shape (b_addr b) md (da_ports a) ([], w)) as Hsh. rewrite Ef in Hsh. cbn [snd] in Hsh.
    rewrite <- (get_dacc_st_shape point _ _ Hsh), Hid in Hin.
    apply (existsb_key_in ds_id) in Hin. congruence.
Qed.

Lemma cmd_ret1_silent w c m w' : wfb w = true -> cmd w c = Done 1 m w' -> m = [] /\ w' = w.
Proof.
  intros Hwf. destruct c; cbn [cmd].
  - apply set_accessory_ret1, Hwf.
  - apply set_accessory_ret1, Hwf.
  - unfold set_peripheral. break_goal; silent.
  - apply set_train_speed_ret1.
  - unfold set_calibrated_train_speed. break_goal; first [apply set_train_speed_ret1 | silent].
  - unfold emergency_stop_train. break_goal; silent.
  - unfold set_train_peripheral. break_goal; silent.
  - unfold set_booster_power_state. break_goal; silent.
  - unfold set_track_output_state. break_goal; silent.
  - unfold set_track_output_state_all. silent.
  - unfold request_reverser_state. break_goal; silent.
Qed.

(* ================================================================== unique keys: find returns the element *)
Lemma find_none_notin {A} (key : A -> N) k l : ~ In k (map key l) -> find (fun y => key y =? k) l = None.
Proof.
  induction l as [|x l IH]; intros H; [reflexivity|]. cbn. destruct (key x =? k) eqn:E.
  - exfalso. apply H. left. apply N.eqb_eq. exact E.
  - apply IH. intros Hin. apply H. right. exact Hin.
Qed.

Lemma find_unique {A} (key : A -> N) l x : NoDup (map key l) -> In x l -> find (fun y => key y =? key x) l = Some x.
Proof.
  induction l as [|y l IH]; intros Hnd Hin; [contradiction|]. cbn in *. inversion Hnd as [|? ? Hn Hnd']; subst.
  destruct Hin as [->|Hin].
  - rewrite N.eqb_refl. reflexivity.
  - destruct (key y =? key x) eqn:E.
    + exfalso. apply Hn. apply N.eqb_eq in E. rewrite E. apply in_map. exact Hin.
    + apply IH; assumption.
Qed.

Lemma NoDup_app_l {A} (l1 l2 : list A) : NoDup (l1 ++ l2) -> NoDup l1.
Proof. induction l1 as [|x l1 IH]; intros H; [constructor|]. inversion H as [|? ? Hn Hd]; subst. constructor; [|auto]. intros Hin. apply Hn. apply in_or_app. left. exact Hin. Qed.
Lemma NoDup_app_r {A} (l1 l2 : list A) : NoDup (l1 ++ l2) -> NoDup l2.
Proof. induction l1 as [|x l1 IH]; intros H; [exact H|]. inversion H as [|? ? Hn Hd]; subst. auto. Qed.
Lemma NoDup_app_disj {A} (l1 l2 : list A) x : NoDup (l1 ++ l2) -> In x l1 -> In x l2 -> False.
Proof.
  induction l1 as [|y l1 IH]; intros H H1 H2; [contradiction|]. inversion H as [|? ? Hn Hd]; subst. destruct H1 as [->|H1].
  - apply Hn. apply in_or_app. right. exact H2.
  - apply IH; assumption.
Qed.

(* the accessory search finds exactly the configured accessory and its board when ids are unique *)
Section AccSearch.
  Variable point : bool.
  Let bl (b : board) := if point then b_pts b else b_sigs b.
  Let dl (b : board) := if point then b_dpts b else b_dsigs b.
  Let ids (b : board) := map ba_id (bl b) ++ map dc_id (dl b).

  Lemma acc_search_board_unique bs b m : NoDup (flat_map ids bs) -> In b bs -> In m (bl b) ->
    acc_search point bs (ba_id m) = Some (b, inl m).
  Proof.
    induction bs as [|c bs IH]; intros Hnd Hb Hm; [contradiction|]. cbn [flat_map] in Hnd. cbn [acc_search].
    fold (bl c). fold (dl c). destruct Hb as [->|Hb].
    - rewrite (find_unique ba_id (bl b) m); [reflexivity| |exact Hm].
      apply NoDup_app_l in Hnd. unfold ids in Hnd. apply NoDup_app_l in Hnd. exact Hnd.
    - assert (In (ba_id m) (flat_map ids bs)) as Hlater.
      { apply in_flat_map. exists b. split; [exact Hb|]. unfold ids. apply in_or_app. left. apply in_map. exact Hm. }
      rewrite (find_none_notin ba_id).
      2:{ intros Hin. apply (NoDup_app_disj _ _ (ba_id m) Hnd); [|exact Hlater]. unfold ids. apply in_or_app. left. exact Hin. }
      rewrite (find_none_notin dc_id).
      2:{ intros Hin. apply (NoDup_app_disj _ _ (ba_id m) Hnd); [|exact Hlater]. unfold ids. apply in_or_app. right. exact Hin. }
      apply IH; [apply NoDup_app_r in Hnd; exact Hnd|exact Hb|exact Hm].
  Qed.

  Lemma acc_search_dcc_unique bs b m : NoDup (flat_map ids bs) -> In b bs -> In m (dl b) ->
    acc_search point bs (dc_id m) = Some (b, inr m).
  Proof.
    induction bs as [|c bs IH]; intros Hnd Hb Hm; [contradiction|]. cbn [flat_map] in Hnd. cbn [acc_search].
    fold (bl c). fold (dl c). destruct Hb as [->|Hb].
    - pose proof (NoDup_app_l _ _ Hnd) as Hb'. unfold ids in Hb'.
      rewrite (find_none_notin ba_id).
      2:{ intros Hin. apply (NoDup_app_disj _ _ (dc_id m) Hb'); [exact Hin|apply in_map; exact Hm]. }
      rewrite (find_unique dc_id (dl b) m); [reflexivity| |exact Hm]. apply NoDup_app_r in Hb'. exact Hb'.
    - assert (In (dc_id m) (flat_map ids bs)) as Hlater.
      { apply in_flat_map. exists b. split; [exact Hb|]. unfold ids. apply in_or_app. right. apply in_map. exact Hm. }
      rewrite (find_none_notin ba_id).
      2:{ intros Hin. apply (NoDup_app_disj _ _ (dc_id m) Hnd); [|exact Hlater]. unfold ids. apply in_or_app. left. exact Hin. }
      rewrite (find_none_notin dc_id).
      2:{ intros Hin. apply (NoDup_app_disj _ _ (dc_id m) Hnd); [|exact Hlater]. unfold ids. apply in_or_app. right. exact Hin. }
      apply IH; [apply NoDup_app_r in Hnd; exact Hnd|exact Hb|exact Hm].
  Qed.
End AccSearch.

Lemma per_search_unique bs b m : NoDup (flat_map (fun b => map pe_id (b_pers b)) bs) -> In b bs -> In m (b_pers b) ->
  per_search bs (pe_id m) = Some (b, m).
Proof.
  induction bs as [|c bs IH]; intros Hnd Hb Hm; [contradiction|]. cbn [flat_map] in Hnd. cbn [per_search].
  destruct Hb as [->|Hb].
  - rewrite (find_unique pe_id (b_pers b) m); [reflexivity|apply NoDup_app_l in Hnd; exact Hnd|exact Hm].
  - rewrite (find_none_notin pe_id).
    2:{ intros Hin. apply (NoDup_app_disj _ _ (pe_id m) Hnd); [exact Hin|]. apply in_flat_map. exists b. split; [exact Hb|apply in_map; exact Hm]. }
    apply IH; [apply NoDup_app_r in Hnd; exact Hnd|exact Hb|exact Hm].
Qed.

Lemma rev_search_unique bs b m : NoDup (flat_map (fun b => map rv_id (b_revs b)) bs) -> In b bs -> In m (b_revs b) ->
  rev_search bs (rv_id m) = Some m.
Proof.
  induction bs as [|c bs IH]; intros Hnd Hb Hm; [contradiction|]. cbn [flat_map] in Hnd. cbn [rev_search].
  destruct Hb as [->|Hb].
  - rewrite (find_unique rv_id (b_revs b) m); [reflexivity|apply NoDup_app_l in Hnd; exact Hnd|exact Hm].
  - rewrite (find_none_notin rv_id).
    2:{ intros Hin. apply (NoDup_app_disj _ _ (rv_id m) Hnd); [exact Hin|]. apply in_flat_map. exists b. split; [exact Hb|apply in_map; exact Hm]. }
    apply IH; [apply NoDup_app_r in Hnd; exact Hnd|exact Hb|exact Hm].
Qed.

Lemma find_board_unique w b : wfb w = true -> In b (w_boards w) -> find_board w (b_id b) = Some b.
Proof. intros Hwf Hb. apply wfb_parts in Hwf. destruct Hwf as (H & _). apply (find_unique b_id); assumption. Qed.
Lemma find_train_unique w t : wfb w = true -> In t (w_trains w) -> find_train w (tr_id t) = Some t.
Proof. intros Hwf Hb. apply wfb_parts in Hwf. destruct Hwf as (_ & _ & H & _). apply (find_unique tr_id); assumption. Qed.

Lemma wf_board_in w b : wfb w = true -> In b (w_boards w) -> wf_board b = true.
Proof. intros Hwf Hb. apply wfb_parts in Hwf. destruct Hwf as (_ & H & _). exact (proj1 (forallb_forall _ _) H b Hb). Qed.

Lemma bacc_aspect_unique (point : bool) w b m a : wfb w = true -> In b (w_boards w) ->
  In m (if point then b_pts b else b_sigs b) -> In a (ba_aspects m) -> find_aspect (ba_aspects m) (as_id a) = Some a.
Proof.
  intros Hwf Hb Hm Ha. pose proof (wf_board_in w b Hwf Hb) as W. unfold wf_board in W.
  apply andb_true_iff in W as [W _]. apply andb_true_iff in W as [W _].
  assert (In m (b_pts b ++ b_sigs b)) as Hin by (apply in_or_app; destruct point; auto).
  pose proof (proj1 (forallb_forall _ _) W m Hin) as N. apply nodupb_NoDup in N.
  apply (find_unique as_id); assumption.
Qed.
Lemma dacc_aspect_unique (point : bool) w b m a : wfb w = true -> In b (w_boards w) ->
  In m (if point then b_dpts b else b_dsigs b) -> In a (dc_aspects m) -> find_daspect (dc_aspects m) (da_id a) = Some a.
Proof.
  intros Hwf Hb Hm Ha. pose proof (wf_board_in w b Hwf Hb) as W. unfold wf_board in W.
  apply andb_true_iff in W as [W _]. apply andb_true_iff in W as [_ W].
  assert (In m (b_dpts b ++ b_dsigs b)) as Hin by (apply in_or_app; destruct point; auto).
  pose proof (proj1 (forallb_forall _ _) W m Hin) as N. apply nodupb_NoDup in N.
  apply (find_unique da_id); assumption.
Qed.
Lemma per_aspect_unique w b m a : wfb w = true -> In b (w_boards w) ->
  In m (b_pers b) -> In a (pe_aspects m) -> find_aspect (pe_aspects m) (as_id a) = Some a.
Proof.
  intros Hwf Hb Hm Ha. pose proof (wf_board_in w b Hwf Hb) as W. unfold wf_board in W.
  apply andb_true_iff in W as [_ W].
  pose proof (proj1 (forallb_forall _ _) W m Hm) as N. apply nodupb_NoDup in N.
  apply (find_unique as_id); assumption.
Qed.

(* ================================================================== good commands: exactly the configured message *)
Definition acc_ids (point : bool) (b : board) : list N :=
  map ba_id (if point then b_pts b else b_sigs b) ++ map dc_id (if point then b_dpts b else b_dsigs b).

Lemma wfb_acc_nodup (point : bool) w : wfb w = true -> NoDup (flat_map (acc_ids point) (w_boards w)).
Proof.
  intros Hwf. apply wfb_parts in Hwf. destruct Hwf as (_ & _ & _ & _ & _ & Hp & Hs & _).
  destruct point; assumption.
Qed.

(* board accessory (point or signal): MSG_ACCESSORY_SET with the configured number and aspect value, to the
   board's current address; the tracked state is not touched (it follows the board's answer) *)
Lemma board_accessory_ok (point : bool) w b m a : wfb w = true ->
  In b (w_boards w) -> In m (if point then b_pts b else b_sigs b) -> In a (ba_aspects m) -> b_conn b = true ->
  ba_num m <= 127 -> as_val a <= 127 ->
  set_accessory point w (ba_id m) (as_id a) = Done 0 [(b_addr b, MSG_ACCESSORY_SET, [ba_num m; as_val a])] w.
Proof.
  intros Hwf Hb Hm Ha Hc Hn Hv. unfold set_accessory.
  rewrite (acc_search_board_unique point (w_boards w) b m (wfb_acc_nodup point w Hwf) Hb Hm).
  rewrite Hc. cbn [negb]. rewrite (bacc_aspect_unique point w b m a Hwf Hb Hm Ha).
  unfold send_accessory_set. apply N.ltb_ge in Hn, Hv. rewrite Hn, Hv. reflexivity.
Qed.

Lemma peripheral_ok w b m a : wfb w = true ->
  In b (w_boards w) -> In m (b_pers b) -> In a (pe_aspects m) -> b_conn b = true ->
  set_peripheral w (pe_id m) (as_id a) = Done 0 [(b_addr b, MSG_LC_OUTPUT, [pe_port0 m; pe_port1 m; as_val a])] w.
Proof.
  intros Hwf Hb Hm Ha Hc. unfold set_peripheral.
  pose proof (wfb_parts w Hwf) as (_ & _ & _ & _ & _ & _ & _ & Hp & _).
  rewrite (per_search_unique (w_boards w) b m Hp Hb Hm). rewrite Hc. cbn [negb].
  rewrite (per_aspect_unique w b m a Hwf Hb Hm Ha). reflexivity.
Qed.

Lemma booster_ok w b on : wfb w = true -> In b (w_boards w) -> b_conn b = true -> is_booster b = true ->
  set_booster_power_state w (b_id b) on = Done 0 [(b_addr b, if on then MSG_BOOST_ON else MSG_BOOST_OFF, [1])] w.
Proof.
  intros Hwf Hb Hc Hk. unfold set_booster_power_state. rewrite (find_board_unique w b Hwf Hb), Hc, Hk. reflexivity.
Qed.

Lemma track_output_ok w b s : wfb w = true -> In b (w_boards w) -> b_conn b = true -> is_track_output b = true ->
  cs_state_ok s = true ->
  set_track_output_state w (b_id b) s = Done 0 [(b_addr b, MSG_CS_SET_STATE, [s])] w.
Proof.
  intros Hwf Hb Hc Hk Hs. unfold set_track_output_state. rewrite (find_board_unique w b Hwf Hb), Hc, Hk.
  cbn [negb]. unfold send_cs_set_state. rewrite Hs. reflexivity.
Qed.

Lemma track_output_all_ok w s : cs_state_ok s = true ->
  set_track_output_state_all w s =
  Done 0 (map (fun b => (b_addr b, MSG_CS_SET_STATE, [s])) (filter (fun b => is_track_output b && b_conn b) (w_boards w))) w.
Proof.
  intros Hs. unfold set_track_output_state_all. f_equal.
  induction (w_boards w) as [|b l IH]; [reflexivity|]. cbn [flat_map filter].
  destruct (is_track_output b && b_conn b); [|exact IH]. unfold send_cs_set_state at 1. rewrite Hs. cbn [app map]. f_equal. exact IH.
Qed.

(* ================================================================== return 0 => the command named configured, connected equipment *)
Definition names_output (w : world) (o : N) : Prop :=
  exists b, In b (w_boards w) /\ b_id b = o /\ b_conn b = true /\ is_track_output b = true.
Definition names_train (w : world) (t : N) : Prop := exists tr, In tr (w_trains w) /\ tr_id tr = t.
Definition names_accessory (point : bool) (w : world) (id asp : N) : Prop :=
  exists b, In b (w_boards w) /\ b_conn b = true /\
    ((exists m a, In m (if point then b_pts b else b_sigs b) /\ ba_id m = id /\ In a (ba_aspects m) /\ as_id a = asp) \/
     (exists m a, In m (if point then b_dpts b else b_dsigs b) /\ dc_id m = id /\ In a (dc_aspects m) /\ da_id a = asp)).

(* what the code checks before it answers 0 (weaker than the property text: no check of the function state
   value, of the track-output state value, of the 7-bit range of accessory numbers, of the reverser's board) *)
Definition accepted (w : world) (c : command) : Prop :=
  match c with
  | SwitchPoint p a => names_accessory true w p a
  | SetSignal s a => names_accessory false w s a
  | SetPeripheral p a => exists b m x, In b (w_boards w) /\ b_conn b = true /\ In m (b_pers b) /\ pe_id m = p /\
                                       In x (pe_aspects m) /\ as_id x = a
  | SetTrainSpeed t sp o => (-126 <= sp <= 126)%Z /\ names_train w t /\ names_output w o
  | SetCalibratedSpeed t sp o => (-9 <= sp <= 9)%Z /\ (exists tr, In tr (w_trains w) /\ tr_id tr = t /\ tr_calib tr <> None) /\
                                 names_output w o
  | EmergencyStop t o => names_train w t /\ names_output w o
  | SetTrainPeripheral t p _ o => (exists tr m, In tr (w_trains w) /\ tr_id tr = t /\ In m (tr_pers tr) /\ tp_id m = p) /\
                                  names_output w o
  | SetBooster b _ => exists bd, In bd (w_boards w) /\ b_id bd = b /\ b_conn bd = true /\ is_booster bd = true
  | SetTrackOutput b _ => names_output w b
  | SetTrackOutputAll _ => True
  | RequestReverser r b => (exists bd, In bd (w_boards w) /\ b_id bd = b /\ b_conn bd = true) /\
                           (exists bo m, In bo (w_boards w) /\ In m (b_revs bo) /\ rv_id m = r)
  end.

Lemma negb_false_true b : negb b = false -> b = true.
Proof. destruct b; [reflexivity|discriminate]. Qed.

Lemma set_train_speed_ret0 w t s o m w' : set_train_speed w t s o = Done 0 m w' ->
  (-126 <= s <= 126)%Z /\ names_train w t /\ names_output w o.
Proof.
  unfold set_train_speed.
  destruct ((s <? -126)%Z || (126 <? s)%Z)%bool eqn:Er; [discriminate|].
  destruct (find_train w t) as [tr|] eqn:Et; [|discriminate].
  destruct (find_board w o) as [b|] eqn:Eb; [|discriminate].
  destruct (negb (b_conn b)) eqn:Ec; [discriminate|].
  destruct (negb (is_track_output b)) eqn:Ek; [discriminate|]. intros _.
  apply orb_false_iff in Er as [E1 E2]. apply Z.ltb_ge in E1, E2.
  apply (find_key_in tr_id) in Et as [Ht1 Ht2]. apply (find_key_in b_id) in Eb as [Hb1 Hb2].
  split; [lia|]. split; [exists tr; auto|]. exists b. repeat split; auto using negb_false_true.
Qed.

Lemma cmd_ret0_accepted w c m w' : cmd w c = Done 0 m w' -> accepted w c.
Proof.
  destruct c; cbn [cmd accepted].
  - unfold set_accessory. destruct (acc_search true (w_boards w) p) as [[b [mb|md]]|] eqn:Es; [| |discriminate].
    + destruct (negb (b_conn b)) eqn:Ec; [discriminate|]. destruct (find_aspect (ba_aspects mb) a) as [x|] eqn:Ea; [|discriminate].
      intros _. apply acc_search_some in Es as [Hb [Hm Hid]]. apply (find_key_in as_id) in Ea as [Ha1 Ha2].
      exists b. split; [exact Hb|]. split; [apply negb_false_true, Ec|]. left. exists mb, x. auto.
    + destruct (negb (b_conn b)) eqn:Ec; [discriminate|]. destruct (find_daspect (dc_aspects md) a) as [x|] eqn:Ea; [|discriminate].
      intros _. apply acc_search_some in Es as [Hb [Hm Hid]]. apply (find_key_in da_id) in Ea as [Ha1 Ha2].
      exists b. split; [exact Hb|]. split; [apply negb_false_true, Ec|]. right. exists md, x. auto.
  - unfold set_accessory. destruct (acc_search false (w_boards w) s) as [[b [mb|md]]|] eqn:Es; [| |discriminate].
    + destruct (negb (b_conn b)) eqn:Ec; [discriminate|]. destruct (find_aspect (ba_aspects mb) a) as [x|] eqn:Ea; [|discriminate].
      intros _. apply acc_search_some in Es as [Hb [Hm Hid]]. apply (find_key_in as_id) in Ea as [Ha1 Ha2].
      exists b. split; [exact Hb|]. split; [apply negb_false_true, Ec|]. left. exists mb, x. auto.
    + destruct (negb (b_conn b)) eqn:Ec; [discriminate|]. destruct (find_daspect (dc_aspects md) a) as [x|] eqn:Ea; [|discriminate].
      intros _. apply acc_search_some in Es as [Hb [Hm Hid]]. apply (find_key_in da_id) in Ea as [Ha1 Ha2].
      exists b. split; [exact Hb|]. split; [apply negb_false_true, Ec|]. right. exists md, x. auto.
  - unfold set_peripheral. destruct (per_search (w_boards w) p) as [[b mp]|] eqn:Es; [|discriminate].
    destruct (negb (b_conn b)) eqn:Ec; [discriminate|]. destruct (find_aspect (pe_aspects mp) a) as [x|] eqn:Ea; [|discriminate].
    intros _. apply per_search_some in Es as (Hb & Hm & Hid). apply (find_key_in as_id) in Ea as [Ha1 Ha2].
    exists b, mp, x. repeat split; auto using negb_false_true.
  - apply set_train_speed_ret0.
  - unfold set_calibrated_train_speed.
    destruct ((speed <? -9)%Z || (9 <? speed)%Z)%bool eqn:Er; [discriminate|].
    destruct (find_train w t) as [tr|] eqn:Et; [|discriminate].
    destruct (tr_calib tr) as [cal|] eqn:Ecal; [|discriminate].
    apply orb_false_iff in Er as [E1 E2]. apply Z.ltb_ge in E1, E2.
    apply (find_key_in tr_id) in Et as [Ht1 Ht2].
    assert (forall v, set_train_speed w t v out = Done 0 m w' ->
                      (-9 <= speed <= 9)%Z /\ (exists tr, In tr (w_trains w) /\ tr_id tr = t /\ tr_calib tr <> None) /\ names_output w out) as K.
    { intros v H. apply set_train_speed_ret0 in H as (_ & _ & Ho). split; [lia|]. split; [|exact Ho].
      exists tr. repeat split; auto. rewrite Ecal. discriminate. }
    destruct (speed =? 0)%Z; [apply K|]. destruct (nth_error cal (Nat.pred (Z.abs_nat speed))); [|discriminate]. apply K.
  - unfold emergency_stop_train.
    destruct (find_train w t) as [tr|] eqn:Et; [|discriminate].
    destruct (find_board w out) as [b|] eqn:Eb; [|discriminate].
    destruct (negb (b_conn b)) eqn:Ec; [discriminate|].
    destruct (negb (is_track_output b)) eqn:Ek; [discriminate|]. intros _.
    apply (find_key_in tr_id) in Et as [Ht1 Ht2]. apply (find_key_in b_id) in Eb as [Hb1 Hb2].
    split; [exists tr; auto|]. exists b. repeat split; auto using negb_false_true.
  - unfold set_train_peripheral.
    destruct (find_train w t) as [tr|] eqn:Et; [|discriminate].
    destruct (find_board w out) as [b|] eqn:Eb; [|discriminate].
    destruct (negb (b_conn b)) eqn:Ec; [discriminate|].
    destruct (negb (is_track_output b)) eqn:Ek; [discriminate|].
    destruct (find (fun m0 => tp_id m0 =? p) (tr_pers tr)) as [mp|] eqn:Ep; [|discriminate]. intros _.
    apply (find_key_in tr_id) in Et as [Ht1 Ht2]. apply (find_key_in b_id) in Eb as [Hb1 Hb2].
    apply (find_key_in tp_id) in Ep as [Hp1 Hp2].
    split; [exists tr, mp; auto|]. exists b. repeat split; auto using negb_false_true.
  - unfold set_booster_power_state. destruct (find_board w b) as [bd|] eqn:Eb; [|discriminate].
    destruct (negb (b_conn bd)) eqn:Ec; [discriminate|]. destruct (negb (is_booster bd)) eqn:Ek; [discriminate|]. intros _.
    apply (find_key_in b_id) in Eb as [Hb1 Hb2]. exists bd. repeat split; auto using negb_false_true.
  - unfold set_track_output_state. destruct (find_board w b) as [bd|] eqn:Eb; [|discriminate].
    destruct (negb (b_conn bd)) eqn:Ec; [discriminate|]. destruct (negb (is_track_output bd)) eqn:Ek; [discriminate|]. intros _.
    apply (find_key_in b_id) in Eb as [Hb1 Hb2]. exists bd. repeat split; auto using negb_false_true.
  - intros _. exact I.
  - unfold request_reverser_state. destruct (find_board w b) as [bd|] eqn:Eb; [|discriminate].
    destruct (negb (b_conn bd)) eqn:Ec; [discriminate|]. destruct (rev_search (w_boards w) r) as [mr|] eqn:Er; [|discriminate].
    destruct (existsb (fun s => rs_id s =? r) (w_revs w)); [|discriminate]. intros _.
    apply (find_key_in b_id) in Eb as [Hb1 Hb2]. apply rev_search_some in Er as (bo & H1 & H2 & H3).
    split; [exists bd; repeat split; auto using negb_false_true|]. exists bo, mr. auto.
Qed.

(* ================================================================== witnesses of the recorded defects *)
Definition wit_uid1 : list N := [218; 0; 13; 104; 0; 1; 238].
Definition wit_uid6 : list N := [5; 0; 13; 107; 0; 131; 236].
Definition wit_b1 : board :=
  mk_board 1 wit_uid1 false (0, 0, 0)
    [mk_bacc 2 144 [mk_aspect 1 1; mk_aspect 2 0]; mk_bacc 3 2 [mk_aspect 1 128; mk_aspect 2 0]]
    [mk_dacc 4 34 17 0 [mk_daspect 1 [(0, 1); (1, 0)]; mk_daspect 2 [(0, 0); (1, 1)]]]
    [] [] [] [mk_reverser 5 [51; 48; 48; 53; 49]].
Definition wit_b6 : board := mk_board 6 wit_uid6 false (0, 0, 0) [] [] [] [] [] [].
Definition wit_tr7 : train :=
  mk_train 7 35 1 126 (Some [5; 15; 30; 45; 60; 75; 90; 105; 120])
           [mk_tperiph 8 0; mk_tperiph 9 1; mk_tperiph 10 6; mk_tperiph 11 9].
Definition wit_tr12 : train := mk_train 12 35 65 28 None [].
Definition wit_world : world :=
  node_new (node_new (init_world [wit_b1; wit_b6] [wit_tr7; wit_tr12]) (0, 0, 0) 0 wit_uid1) (0, 0, 0) 3 wit_uid6.

Lemma wit_world_wf : wfb wit_world = true /\ conn_addrs_distinct (w_boards wit_world) = true.
Proof. vm_compute. split; reflexivity. Qed.

Definition tracked (w : world) (t p : N) : option N :=
  match find_tst w t with
  | Some ts => option_map tq_state (find (fun q => tq_id q =? p) (ts_pers ts))
  | None => None
  end.
Definition tracked_speed (w : world) (t : N) : option (Z * bool) :=
  option_map (fun ts => (ts_speed ts, ts_fwd ts)) (find_tst w t).

(* (ii) configured accessory number 0x90 / aspect value 0x80: return 0, nothing transmitted *)
Lemma wit_accessory_number : cmd wit_world (SwitchPoint 2 1) = Done 0 [] wit_world.
Proof. vm_compute. reflexivity. Qed.
Lemma wit_accessory_aspect : cmd wit_world (SwitchPoint 3 1) = Done 0 [] wit_world.
Proof. vm_compute. reflexivity. Qed.

(* (i) state = 2 on function bit 0: return 0, function byte 2, bit 0 stays off, the neighbour (bit 1) is switched on *)
Lemma wit_function_state2 : exists w',
  cmd wit_world (SetTrainPeripheral 7 8 2 1) = Done 0 [((0, 0, 0), MSG_CS_DRIVE, [35; 1; 3; 2; 0; 2; 0; 0; 0])] w' /\
  tracked wit_world 7 9 = Some 0 /\ tracked w' 7 8 = Some 0 /\ tracked w' 7 9 = Some 1.
Proof. eexists. vm_compute. repeat split; reflexivity. Qed.
(* state = 255: return 0, nothing transmitted *)
Lemma wit_function_state255 : cmd wit_world (SetTrainPeripheral 7 8 255 1) = Done 0 [] wit_world.
Proof. vm_compute. reflexivity. Qed.

(* (iii) function bit 6 (accepted by the config parser): switching it on returns 0 and transmits nothing *)
Lemma wit_function_bit6 : cmd wit_world (SetTrainPeripheral 7 10 1 1) = Done 0 [] wit_world.
Proof. vm_compute. reflexivity. Qed.

(* a train whose configured DCC address has bits above 0x3F in the high byte: the command for train 12 is
   transmitted with train 12's address, but the optimistic update lands on train 7 *)
Lemma wit_dcc_addrh : exists w',
  cmd wit_world (SetTrainSpeed 12 7 1) = Done 0 [((0, 0, 0), MSG_CS_DRIVE, [35; 65; 2; 1; 136; 0; 0; 0; 0])] w' /\
  tracked_speed w' 12 = Some (0%Z, true) /\ tracked_speed wit_world 7 = Some (0%Z, true) /\ tracked_speed w' 7 = Some (7%Z, true).
Proof. eexists. vm_compute. repeat split; reflexivity. Qed.

(* a track-output state outside t_bidib_cs_state: return 0, nothing transmitted *)
Lemma wit_track_output_state : cmd wit_world (SetTrackOutput 1 5) = Done 0 [] wit_world.
Proof. vm_compute. reflexivity. Qed.

(* reverser 5 belongs to board 1; naming board 6 returns 0 and the request goes to board 6 *)
Lemma wit_reverser_board : exists w',
  cmd wit_world (RequestReverser 5 6) = Done 0 [((3, 0, 0), MSG_VENDOR_GET, [5; 51; 48; 48; 53; 49])] w'.
Proof. eexists. vm_compute. reflexivity. Qed.

Lemma board_accessory_cmd_ok : forall (point : bool) w b m a, wfb w = true ->
  In b (w_boards w) -> In m (if point then b_pts b else b_sigs b) -> In a (ba_aspects m) -> b_conn b = true ->
  ba_num m <= 127 -> as_val a <= 127 ->
  cmd w (if point then SwitchPoint (ba_id m) (as_id a) else SetSignal (ba_id m) (as_id a)) =
  Done 0 [(b_addr b, MSG_ACCESSORY_SET, [ba_num m; as_val a])] w.
Proof. intros point. destruct point; cbn [cmd]; [exact (board_accessory_ok true)|exact (board_accessory_ok false)]. Qed.

(* ================================================================== trains: state lookup, DCC lookup *)
Lemma tst_of_train_gen trs : forall tss tr, forallb2 wf_tst trs tss = true -> NoDup (map tr_id trs) -> In tr trs ->
  exists ts, find (fun s => ts_id s =? tr_id tr) tss = Some ts /\ wf_tst tr ts = true.
Proof.
  induction trs as [|x r IH]; intros [|y s] tr Hf Hnd Hin; try contradiction; try discriminate.
  cbn in Hf. apply andb_true_iff in Hf as [Hxy Hf]. cbn in Hnd. inversion Hnd as [|? ? Hn Hnd']; subst.
  pose proof Hxy as Hxy'. unfold wf_tst in Hxy'. apply andb_true_iff in Hxy' as [Hxy' _]. apply andb_true_iff in Hxy' as [Hid _].
  apply N.eqb_eq in Hid. destruct Hin as [->|Hin].
  - exists y. cbn. rewrite Hid, N.eqb_refl. auto.
  - cbn. destruct (ts_id y =? tr_id tr) eqn:E.
    + exfalso. apply Hn. apply N.eqb_eq in E. rewrite <- Hid, E. apply in_map. exact Hin.
    + apply IH; assumption.
Qed.

Lemma tst_of_train w tr : wfb w = true -> In tr (w_trains w) ->
  exists ts, find_tst w (tr_id tr) = Some ts /\ wf_tst tr ts = true.
Proof.
  intros Hwf Hin. apply wfb_parts in Hwf. destruct Hwf as (_ & _ & Hnd & _ & Hf & _).
  apply tst_of_train_gen with (trs := w_trains w); assumption.
Qed.

Lemma nodupb2_app_r a b : nodupb2 (a ++ b) = true -> nodupb2 b = true.
Proof. induction a as [|x a IH]; intros H; [exact H|]. cbn in H. apply andb_true_iff in H as [_ H]. auto. Qed.

Lemma find_by_dcc_unique l tr : nodupb2 (map (fun t => (tr_addrl t, tr_addrh t)) l) = true -> In tr l ->
  find (fun t => (tr_addrl t =? tr_addrl tr) && (tr_addrh t =? tr_addrh tr)) l = Some tr.
Proof.
  induction l as [|x l IH]; intros Hnd Hin; [contradiction|]. cbn in Hnd. apply andb_true_iff in Hnd as [Hx Hnd].
  cbn [find]. destruct Hin as [->|Hin].
  - rewrite !N.eqb_refl. reflexivity.
  - destruct ((tr_addrl x =? tr_addrl tr) && (tr_addrh x =? tr_addrh tr)) eqn:E; [|auto].
    exfalso. apply negb_true_iff in Hx. apply not_true_iff_false in Hx. apply Hx.
    apply existsb_exists. exists (tr_addrl tr, tr_addrh tr). split; [|exact E].
    apply in_map_iff. exists tr. auto.
Qed.

Lemma land63_small x : x < 64 -> N.land x 63 = x.
Proof. intros H. change 63 with (N.ones 6). rewrite N.land_ones. apply N.mod_small. exact H. Qed.

Lemma find_train_by_dcc_own w tr : wfb w = true -> In tr (w_trains w) -> tr_addrh tr < 64 ->
  find_train_by_dcc w (tr_addrl tr) (tr_addrh tr) = Some tr.
Proof.
  intros Hwf Hin Hh. unfold find_train_by_dcc. rewrite (land63_small _ Hh).
  apply wfb_parts in Hwf. destruct Hwf as (_ & _ & _ & _ & _ & _ & _ & _ & _ & _ & _ & _ & Hd).
  apply find_by_dcc_unique; [|exact Hin]. eapply nodupb2_app_r. exact Hd.
Qed.

Lemma drive_update_id w p ts : ts_id (drive_update w p ts) = ts_id ts.
Proof. unfold drive_update. destruct (dv_active p =? 0); reflexivity. Qed.

(* tracked state of the commanded train / of every other train after bidib_state_cs_drive *)
Lemma state_cs_drive_own w tr p : find_train_by_dcc w (dv_addrl p) (dv_addrh p) = Some tr ->
  find_tst (state_cs_drive w p) (tr_id tr) = option_map (drive_update w p) (find_tst w (tr_id tr)).
Proof.
  intros H. unfold state_cs_drive. rewrite H. unfold find_tst, set_tst. cbn [w_tst].
  apply (find_upd_first_same ts_id). apply drive_update_id.
Qed.
Lemma state_cs_drive_other w tr p t' : find_train_by_dcc w (dv_addrl p) (dv_addrh p) = Some tr -> t' <> tr_id tr ->
  find_tst (state_cs_drive w p) t' = find_tst w t'.
Proof.
  intros H Hne. unfold state_cs_drive. rewrite H. unfold find_tst, set_tst. cbn [w_tst].
  apply (find_upd_first_other ts_id); [apply drive_update_id|exact Hne].
Qed.
Lemma state_cs_drive_rest w p : let w' := state_cs_drive w p in
  w_boards w' = w_boards w /\ w_trains w' = w_trains w /\ w_dpts w' = w_dpts w /\ w_dsigs w' = w_dsigs w /\ w_revs w' = w_revs w.
Proof. unfold state_cs_drive. destruct (find_train_by_dcc w (dv_addrl p) (dv_addrh p)); repeat split. Qed.

Lemma drive_update_speed w al ah fmt sp ts :
  drive_update w (mk_drive al ah fmt 1 sp 0 0 0 0) ts = mk_tst (ts_id ts) (dcc_to_lib sp) (128 <=? sp) 4 (ts_pers ts).
Proof. reflexivity. Qed.

Lemma send_cs_drive_speed w a al ah st sp :
  send_cs_drive w a (mk_drive al ah (steps_fmt st) 1 sp 0 0 0 0) =
  ([(a, MSG_CS_DRIVE, [al; ah; steps_fmt st; 1; sp; 0; 0; 0; 0])], state_cs_drive w (mk_drive al ah (steps_fmt st) 1 sp 0 0 0 0)).
Proof. unfold send_cs_drive. cbn [dv_fmt dv_active dv_f1]. rewrite steps_fmt_ok. reflexivity. Qed.

(* bidib_set_train_speed on configured train / connected track output / speed in range *)
Lemma speed_cmd_ok w tr b s : wfb w = true ->
  In tr (w_trains w) -> In b (w_boards w) -> b_conn b = true -> is_track_output b = true ->
  tr_addrh tr < 64 -> (-126 <= s <= 126)%Z ->
  exists ts w', find_tst w (tr_id tr) = Some ts /\
    let fwd := if (s =? 0)%Z then ts_fwd ts else (0 <? s)%Z in
    let enc := (if fwd then 128 else 0) + Z.abs_N s + (if (s =? 0)%Z then 0 else 1) in
    cmd w (SetTrainSpeed (tr_id tr) s (b_id b)) =
      Done 0 [(b_addr b, MSG_CS_DRIVE, [tr_addrl tr; tr_addrh tr; steps_fmt (tr_steps tr); 1; enc; 0; 0; 0; 0])] w' /\
    find_tst w' (tr_id tr) = Some (mk_tst (tr_id tr) s fwd 4 (ts_pers ts)) /\
    (forall t', t' <> tr_id tr -> find_tst w' t' = find_tst w t') /\
    w_boards w' = w_boards w /\ w_trains w' = w_trains w /\ w_dpts w' = w_dpts w /\ w_dsigs w' = w_dsigs w /\ w_revs w' = w_revs w.
Proof.
  intros Hwf Htr Hb Hc Hk Hh Hs.
  destruct (tst_of_train w tr Hwf Htr) as [ts [Hts Hwts]].
  pose proof (speed_encoding s (ts_fwd ts) Hs) as Henc. cbv zeta in Henc. unfold speed_fwd in Henc.
  set (fwd := if (s =? 0)%Z then ts_fwd ts else (0 <? s)%Z) in *.
  destruct Henc as (E1 & E2 & E3 & E4).
  set (p := mk_drive (tr_addrl tr) (tr_addrh tr) (steps_fmt (tr_steps tr)) 1 (lib_to_dcc (byte (Z.abs_N s)) fwd) 0 0 0 0).
  exists ts, (state_cs_drive w p). split; [exact Hts|]. cbv zeta.
  assert (find_train_by_dcc w (dv_addrl p) (dv_addrh p) = Some tr) as Hd by (apply find_train_by_dcc_own; assumption).
  split; [|split; [|split; [|apply state_cs_drive_rest]]].
  - cbn [cmd]. unfold set_train_speed.
    assert (((s <? -126)%Z || (126 <? s)%Z)%bool = false) as Er.
    { apply orb_false_iff. split; apply Z.ltb_ge; lia. }
    rewrite Er, (find_train_unique w tr Hwf Htr), (find_board_unique w b Hwf Hb), Hc, Hk. cbn [negb].
    assert ((if (s =? 0)%Z then match find_tst w (tr_id tr) with Some ts0 => Some (ts_fwd ts0) | None => None end
             else Some (0 <? s)%Z) = Some fwd) as Ef.
    { unfold fwd. rewrite Hts. destruct (s =? 0)%Z; reflexivity. }
    rewrite Ef. unfold p. rewrite send_cs_drive_speed. rewrite E1. reflexivity.
  - rewrite (state_cs_drive_own w tr p Hd), Hts. cbn [option_map]. unfold p. rewrite drive_update_speed.
    rewrite E3, E4. unfold wf_tst in Hwts. apply andb_true_iff in Hwts as [Hwts _]. apply andb_true_iff in Hwts as [Hid _].
    apply N.eqb_eq in Hid. rewrite Hid. reflexivity.
  - intros t' Hne. apply (state_cs_drive_other w tr p t' Hd Hne).
Qed.

(* calibrated speed = plain speed with the configured calibration entry *)
Definition calib_value (cal : list N) (s : Z) : Z :=
  if (s =? 0)%Z then 0%Z
  else let v := Z.of_N (nth (Nat.pred (Z.abs_nat s)) cal 0) in if (s <? 0)%Z then (- v)%Z else v.

Lemma calibrated_cmd w tr cal s o : wfb w = true -> In tr (w_trains w) -> tr_calib tr = Some cal -> (-9 <= s <= 9)%Z ->
  cmd w (SetCalibratedSpeed (tr_id tr) s o) = cmd w (SetTrainSpeed (tr_id tr) (calib_value cal s) o) /\
  (-126 <= calib_value cal s <= 126)%Z.
Proof.
  intros Hwf Htr Hcal Hs. cbn [cmd]. unfold set_calibrated_train_speed, calib_value.
  assert (((s <? -9)%Z || (9 <? s)%Z)%bool = false) as Er.
  { apply orb_false_iff. split; apply Z.ltb_ge; lia. }
  rewrite Er, (find_train_unique w tr Hwf Htr), Hcal.
  pose proof (wfb_parts w Hwf) as (_ & _ & _ & Hwt & _).
  pose proof (proj1 (forallb_forall _ _) Hwt tr Htr) as W. unfold wf_train in W. rewrite Hcal in W.
  apply andb_true_iff in W as [_ W]. apply andb_true_iff in W as [Wl Wv]. apply Nat.eqb_eq in Wl.
  destruct (s =? 0)%Z eqn:E0; [split; [reflexivity|lia]|]. apply Z.eqb_neq in E0.
  assert ((Nat.pred (Z.abs_nat s) < length cal)%nat) as Hlt by lia.
  destruct (nth_error cal (Nat.pred (Z.abs_nat s))) as [v|] eqn:En; [|apply nth_error_None in En; lia].
  rewrite (nth_error_nth _ _ 0 En).
  pose proof (proj1 (forallb_forall _ _) Wv v (nth_error_In _ _ En)) as Hv. apply N.leb_le in Hv.
  split; [reflexivity|]. destruct (s <? 0)%Z; lia.
Qed.

(* emergency stop: speed byte 0x81; tracked speed 0, tracked direction forwards (not the remembered one) *)
Lemma estop_cmd_ok w tr b : wfb w = true ->
  In tr (w_trains w) -> In b (w_boards w) -> b_conn b = true -> is_track_output b = true -> tr_addrh tr < 64 ->
  exists ts w', find_tst w (tr_id tr) = Some ts /\
    cmd w (EmergencyStop (tr_id tr) (b_id b)) =
      Done 0 [(b_addr b, MSG_CS_DRIVE, [tr_addrl tr; tr_addrh tr; steps_fmt (tr_steps tr); 1; 129; 0; 0; 0; 0])] w' /\
    find_tst w' (tr_id tr) = Some (mk_tst (tr_id tr) 0%Z true 4 (ts_pers ts)) /\
    (forall t', t' <> tr_id tr -> find_tst w' t' = find_tst w t').
Proof.
  intros Hwf Htr Hb Hc Hk Hh.
  destruct (tst_of_train w tr Hwf Htr) as [ts [Hts Hwts]].
  set (p := mk_drive (tr_addrl tr) (tr_addrh tr) (steps_fmt (tr_steps tr)) 1 129 0 0 0 0).
  exists ts, (state_cs_drive w p). split; [exact Hts|].
  assert (find_train_by_dcc w (dv_addrl p) (dv_addrh p) = Some tr) as Hd by (apply find_train_by_dcc_own; assumption).
  split; [|split].
  - cbn [cmd]. unfold emergency_stop_train.
    rewrite (find_train_unique w tr Hwf Htr), (find_board_unique w b Hwf Hb), Hc, Hk. cbn [negb].
    fold p. unfold p at 1. rewrite send_cs_drive_speed. reflexivity.
  - rewrite (state_cs_drive_own w tr p Hd), Hts. cbn [option_map]. unfold p. rewrite drive_update_speed.
    unfold wf_tst in Hwts. apply andb_true_iff in Hwts as [Hwts _]. apply andb_true_iff in Hwts as [Hid _].
    apply N.eqb_eq in Hid. rewrite Hid. reflexivity.
  - intros t' Hne. apply (state_cs_drive_other w tr p t' Hd Hne).
Qed.
