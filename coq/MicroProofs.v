(* MicroProofs.v — C05 under every lock-granularity schedule. *)
From Coq Require Import List NArith Bool Arith Lia.
From LB Require Import Tables Framing FramingProofs NodeFlow NodeFlowProofs Rx RxProofs MicroStep.
Import ListNotations.
Local Open Scope N_scope.

Lemma consecutive_app_iff s l1 l2 :
  consecutive_from s (l1 ++ l2) <-> consecutive_from s l1 /\ consecutive_from (seq_iter (length l1) s) l2.
Proof.
  revert s. induction l1 as [|x r IH]; intros s; cbn [app consecutive_from length seq_iter]; [tauto|].
  rewrite IH. split; [intros (A & B & C)|intros ((A & B) & C)]; subst; auto.
Qed.

Lemma uplink_tab_held t a rty last now :
  let '(t', gs) := uplink_tab t a rty last now in
  (forall b, grps_of b gs ++ heldm t' b = heldm t b) /\ (forall b, n_sseq (get t' b) = n_sseq (get t b)).
Proof.
  pose proof (uplink_tab_sseq t a rty last now) as Hq. unfold uplink_tab in *.
  pose proof (on_update_spec t a rty now) as Hu. destruct (on_update t a rty now) as [t1 g1].
  destruct Hu as (_ & Hh1 & _).
  destruct (rty =? MSG_STALL).
  - pose proof (on_stall_spec t1 a last now) as Hs. destruct (on_stall t1 a last now) as [t2 g2].
    destruct Hs as (_ & Hh2 & _). cbn [fst] in Hq. split; [|exact Hq].
    intros b. unfold grps_of. rewrite flat_map_app, <- app_assoc. fold (grps_of b g2). rewrite Hh2. apply Hh1.
  - cbn [fst] in Hq. split; [|exact Hq]. intros b. rewrite app_nil_r. apply Hh1.
Qed.

Lemma to_node_grp_msgs a gs : to_node a (grp_msgs gs) = grps_of a gs.
Proof.
  unfold to_node, grp_msgs, grps_of. induction gs as [|[b ms] r IH]; [reflexivity|].
  cbn [flat_map]. rewrite flat_map_app, IH. f_equal. unfold grp_of. cbn [fst snd].
  destruct (addr_eqb a b) eqn:E.
  - induction ms as [|m ms IHm]; [reflexivity|]. cbn [map flat_map fst snd]. rewrite E. cbn [app]. f_equal. exact IHm.
  - induction ms as [|m ms IHm]; [reflexivity|]. cbn [map flat_map fst snd]. rewrite E. exact IHm.
Qed.

Lemma to_node_app a l1 l2 : to_node a (l1 ++ l2) = to_node a l1 ++ to_node a l2.
Proof. unfold to_node. apply flat_map_app. Qed.

Lemma addr_bytes_len a3 : length (addr_bytes a3) = S (length (canon a3)).
Proof. destruct (addr_bytes_shape a3) as (pre & -> & <- & _). rewrite app_length. cbn. lia. Qed.

(* pending parts of the per-node chain *)
Definition padm (a : list N) (p : pend) : list (list N) :=
  match p with PAdmit b m true => if addr_eqb a b then [m] else [] | _ => [] end.
Definition palloc (a : list N) (p : pend) : list (list N) :=
  match p with PAlloc b _ m => if addr_eqb a b then [m] else [] | _ => [] end.

Definition chain (s : mstate) (log : list (list N * list N)) (a : list N) : list (list N) :=
  to_node a log ++ padm a (ms_pend s) ++ heldm (ms_tab s) a ++ palloc a (ms_pend s).

Definition MI (s : mstate) (log : list (list N * list N)) : Prop :=
  forall a, consecutive_from 1 (map (msg_seq a) (chain s log a)) /\
            n_sseq (get (ms_tab s) a) = seq_iter (length (chain s log a)) 1 /\
            (forall m, ms_pend s = PAdmit a m true -> heldm (ms_tab s) a = []).

Lemma MI_init : MI ms_init [].
Proof. intros a. unfold chain, heldm, ms_init, get; cbn. repeat split; try discriminate. Qed.

Lemma micro_preserves s st s' out log : MI s log -> micro s st = Some (s', out) -> MI s' (log ++ out).
Proof.
  intros Hi Hm. destruct st as [a3 ty data| | |a rty last|n]; unfold micro in Hm.
  - (* MBegin *)
    destruct (ms_pend s) eqn:Ep; try discriminate.
    pose proof (alloc_sseq_spec (ms_tab s) (canon a3)) as Ha. destruct (alloc_sseq (ms_tab s) (canon a3)) as [t1 sq].
    destruct Ha as [-> Ha]. destruct (encode_msg a3 _ ty data) as [m|] eqn:Ee; [|discriminate].
    injection Hm as <- <-. rewrite app_nil_r. intros a. destruct (Hi a) as (H1 & H2 & _).
    destruct (Ha a) as (_ & Hh & Hq). unfold chain in *. cbn [ms_tab ms_pend padm palloc] in *. rewrite Ep in *. cbn [padm palloc] in *.
    rewrite Hh. destruct (addr_eqb_spec a (canon a3)) as [->|Hn].
    + rewrite addr_eqb_refl in Hq. cbn [app] in *. rewrite app_nil_r in H1, H2. rewrite app_assoc.
      set (L0 := to_node (canon a3) log ++ heldm (ms_tab s) (canon a3)) in *.
      assert (Hseq : msg_seq (canon a3) m = n_sseq (get (ms_tab s) (canon a3))).
      { unfold msg_seq. destruct (encode_msg_seq a3 _ ty data m Ee) as [Hs _].
        rewrite addr_bytes_len in Hs. replace (length (canon a3) + 2)%nat with (S (S (length (canon a3)))) by lia. exact Hs. }
      split; [|split; [|discriminate]].
      * rewrite map_app. apply consecutive_app_iff. split; [exact H1|]. cbn [map consecutive_from]. split; [|exact I].
        rewrite map_length, Hseq. exact H2.
      * rewrite Hq, H2, app_length. cbn [length]. rewrite Nat.add_1_r. clear.
        generalize (length L0) as k. intros k. generalize 1 as s0. induction k as [|k IH]; intros s0; cbn; [reflexivity|apply IH].
    + destruct (addr_eqb_spec (canon a3) a); [congruence|]. split; [exact H1|]. split; [rewrite Hq; exact H2|discriminate].
  - (* MAdmit *)
    destruct (ms_pend s) as [|b ty m|] eqn:Ep; try discriminate.
    pose proof (try_send_spec (ms_tab s) b ty m (ms_now s)) as Hs. destruct (try_send (ms_tab s) b ty m (ms_now s)) as [t2 ok].
    destruct Hs as (Hc & Hoth & Hok & Hno). injection Hm as <- <-. rewrite app_nil_r. intros a. destruct (Hi a) as (H1 & H2 & _).
    unfold chain in *. cbn [ms_tab ms_pend] in *. rewrite Ep in *. cbn [padm palloc] in *.
    destruct (Hc a) as (_ & Hq & _). rewrite Hq.
    destruct (addr_eqb_spec a b) as [Eab|Hn]; [subst b|].
    + destruct ok.
      * destruct (Hok eq_refl) as (_ & Hh & Hh'). rewrite Hh in *. rewrite Hh'. cbn [app] in *.
        split; [exact H1|]. split; [exact H2|]. intros m0 E. reflexivity.
      * rewrite (Hno eq_refl). cbn [app] in *. rewrite app_nil_r. split; [exact H1|]. split; [exact H2|discriminate].
    + rewrite Hoth by exact Hn. destruct ok; cbn [app] in *; (split; [exact H1|split; [exact H2|]]); intros m0 E; injection E as E1 _; congruence.
  - (* MBuffer *)
    destruct (ms_pend s) as [| |b m ok] eqn:Ep; try discriminate. injection Hm as <- <-. intros a. destruct (Hi a) as (H1 & H2 & H3).
    unfold chain in *. cbn [ms_tab ms_pend] in *. rewrite Ep in *. cbn [padm palloc] in *. rewrite to_node_app.
    destruct ok.
    + assert (Ht : to_node a [(b, m)] = if addr_eqb a b then [m] else []).
      { unfold to_node. cbn [flat_map fst snd]. rewrite app_nil_r. reflexivity. }
      rewrite Ht. destruct (addr_eqb a b); cbn [app] in *; rewrite <- app_assoc; cbn [app];
        (split; [exact H1|split; [exact H2|discriminate]]).
    + assert (Ht : to_node a (@nil (list N * list N)) = []) by reflexivity. rewrite Ht, app_nil_r.
      split; [exact H1|]. split; [exact H2|discriminate].
  - (* MUp *)
    pose proof (uplink_tab_held (ms_tab s) a rty last (ms_now s)) as Hu. destruct (uplink_tab (ms_tab s) a rty last (ms_now s)) as [t1 gs].
    destruct Hu as [Hh Hq]. injection Hm as <- <-. intros b. destruct (Hi b) as (H1 & H2 & H3).
    unfold chain in *. cbn [ms_tab ms_pend] in *. rewrite to_node_app, to_node_grp_msgs, Hq.
    assert (Hcase : padm b (ms_pend s) = [] \/ (heldm (ms_tab s) b = [])).
    { unfold padm. destruct (ms_pend s) as [| |c m ok] eqn:Ep; auto. destruct ok; auto. destruct (addr_eqb_spec b c) as [->|]; auto. right. eapply H3. reflexivity. }
    destruct Hcase as [E|E].
    + rewrite E in *. cbn [app] in *. rewrite <- app_assoc. rewrite (app_assoc (grps_of b gs)), Hh.
      split; [exact H1|]. split; [exact H2|]. intros m Em. unfold padm in E. rewrite Em, addr_eqb_refl in E. discriminate.
    + specialize (Hh b). rewrite E in Hh. apply app_eq_nil in Hh as [Hg Hh']. rewrite Hg, Hh'. rewrite E in H1, H2. rewrite app_nil_r.
      split; [exact H1|]. split; [exact H2|]. intros; reflexivity.
  - injection Hm as <- <-. rewrite app_nil_r. exact Hi.
Qed.

Lemma micro_run_inv ss : forall s log s' out, MI s log -> micro_run s ss = Some (s', out) -> MI s' (log ++ out).
Proof.
  induction ss as [|st r IH]; intros s log s' out Hi Hr; cbn [micro_run] in Hr.
  - injection Hr as <- <-. rewrite app_nil_r. exact Hi.
  - destruct (micro s st) as [[s1 o1]|] eqn:E; [|discriminate].
    destruct (micro_run s1 r) as [[s2 o2]|] eqn:E2; [|discriminate]. injection Hr as <- <-.
    rewrite app_assoc. eapply IH; [|exact E2]. eapply micro_preserves; eauto.
Qed.

(* C05 for every schedule: the sequence numbers of the messages handed to the packet buffer for one
   node are consecutive in buffer (= wire) order *)
Theorem seq_all_schedules ss s out : micro_run ms_init ss = Some (s, out) ->
  forall a, consecutive_from 1 (map (msg_seq a) (to_node a out)).
Proof.
  intros Hr a. pose proof (micro_run_inv ss ms_init [] s out MI_init Hr) as Hi. cbn [app] in Hi.
  destruct (Hi a) as (H1 & _). unfold chain in H1. rewrite map_app in H1. apply consecutive_app_iff in H1. tauto.
Qed.
