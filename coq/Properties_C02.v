(* Properties_C02.v — C02: uplink decoding. rx_run is the byte loop of the receiver thread
   (bidib_receive_first_pkt_magic / bidib_receive_packet / bidib_split_packet); read polls that
   deliver no byte do not exist in the model because they change nothing (the loop just retries). *)
From Coq Require Import List NArith Bool.
From LB Require Import Tables Framing FramingProofs NodeFlow Rx RxProofs.
Import ListNotations.
Local Open Scope N_scope.

(* a good packet: from the clean state, the frame of 1..255 payload bytes delivers exactly what
   splitting the payload yields, and leaves the clean state *)
Theorem C02_good_packet : forall p, p <> [] -> nlen p < rx_buf_size ->
  rx_run rx_fresh (frame p) = (rx_fresh, deliver_packet p).
Proof. exact rx_frame. Qed.
Print Assumptions C02_good_packet.

(* a stream of good packets of messages built by any BiDiB sender using the library's layout:
   every message is delivered once, in stream order, byte-identical, and its address / sequence
   number / type are the encoded fields *)
Theorem C02_good_stream : forall ps : list (list (list N)),
  Forall (fun p => p <> [] /\ Forall built p /\ nlen (concat p) < rx_buf_size) ps ->
  exists items, rx_run rx_fresh (flat_map (fun p => frame (concat p)) ps) = (rx_fresh, items) /\
                raws items = concat ps /\ all_delivered items.
Proof. exact rx_frames. Qed.
Print Assumptions C02_good_stream.

Theorem C02_fields : forall a3 sq ty data m, encode_msg a3 sq ty data = Some m ->
  parse_msg (nlen m) m = inr {| m_addr := canon a3; m_seq := sq; m_type := ty; m_raw := m |}.
Proof. exact parse_encode. Qed.
Print Assumptions C02_fields.

(* a packet whose CRC is wrong is dropped as a whole and leaves the clean state: no effect *)
Theorem C02_bad_crc_no_effect : forall u, u <> [] -> nlen u <= rx_buf_size -> crc8 u <> 0 ->
  rx_run rx_fresh (pkt_magic :: escape u ++ [pkt_magic]) = (rx_fresh, [Dropped]).
Proof. exact rx_bad_crc. Qed.
Print Assumptions C02_bad_crc_no_effect.

(* stray / duplicate delimiters are ignored; any delimiter brings a synchronised receiver back to
   the clean state (a pending escape included), so corruption never disturbs later packets;
   bytes without a delimiter never deliver anything *)
Theorem C02_resync :
  rx_byte rx_fresh pkt_magic = (rx_fresh, RxNone) /\
  (forall s, r_synced s = true -> fst (rx_byte s pkt_magic) = rx_fresh) /\
  (forall x, ~ In pkt_magic x -> forall s, snd (rx_run s x) = []).
Proof. exact (conj rx_magic_fresh (conj rx_magic_resync rx_no_magic_silent)). Qed.
Print Assumptions C02_resync.

(* delivery never consults the receive sequence numbers: the delivered items are a function of the
   bytes alone (rx_run has no sequence-number argument); the bookkeeping only re-synchronises *)
Theorem C02_seq_never_drops : forall expected got,
  rseq_after expected got = (if got =? 0 then expected
                             else if got =? expected then (if expected =? 255 then 1 else expected + 1)
                             else if got =? 255 then 1 else got + 1).
Proof. exact (fun e g => eq_refl). Qed.

(* whatever the library's own sender emits, its receiver decodes to the identical message sequence *)
Theorem C02_roundtrip : forall ops, ops_built ops ->
  exists s items, rx_run rx_init (wire (snd (tx_run tx_init (ops ++ [Flush])))) = (s, items) /\
                  raws items = added ops /\ all_delivered items.
Proof. exact c02_roundtrip. Qed.
Print Assumptions C02_roundtrip.

Example C02_nonvacuous :
  exists m1 m2, encode_msg (1,2,0) 7 135 [254; 253] = Some m1 /\ encode_msg (0,0,0) 8 142 [1] = Some m2 /\
  snd (rx_run rx_init (frame (m1 ++ m2) ++ [253; 254] ++ frame m2)) =
    deliver_packet (m1 ++ m2) ++ deliver_packet m2 /\ length (deliver_packet (m1 ++ m2)) = 2%nat.
Proof. eexists; eexists. split; [reflexivity|]. split; [reflexivity|]. vm_compute. split; reflexivity. Qed.
