(* Rx.v — executable model of the receive path in src/transmission/bidib_transmission_receive.c
   (bidib_receive_first_pkt_magic, bidib_receive_packet, bidib_split_packet) and of the field
   extraction helpers in bidib_transmission_util.c. Memory errors of the C are explicit faults. *)
From Coq Require Import List NArith Bool Arith.
From LB Require Import Tables Framing.
Import ListNotations.
Local Open Scope N_scope.

Inductive fault :=
| F_rx_buffer_overflow          (* bidib_receive_packet: buffer[256] written past its end *)
| F_msg_overread (site : N)     (* read past the malloc'ed copy of a message *)
| F_addr_stack_overflow         (* bidib_extract_address: 4 non-zero address bytes *)
| F_truncated_msg.              (* length byte announces more than the packet holds: uninitialised tail *)

(* ---- byte-level receiver state ---- *)
(* r_ovf: more than rx_buf_size unescaped bytes since the last delimiter (the packet will be dropped) *)
Record rxs := { r_synced : bool; r_buf : list N; r_esc : bool; r_crc : N; r_ovf : bool }.
Definition rx_init : rxs := {| r_synced := false; r_buf := []; r_esc := false; r_crc := 0; r_ovf := false |}.
Definition rx_fresh : rxs := {| r_synced := true; r_buf := []; r_esc := false; r_crc := 0; r_ovf := false |}.

Inductive rx_out :=
| RxNone
| RxPacket (payload : list N)     (* CRC good: buffer without the CRC byte goes to split_packet *)
| RxBadCrc
| RxOversize                      (* longer than the receive buffer: ignored *)
| RxFault (f : fault).

Definition rx_byte (s : rxs) (b : N) : rxs * rx_out :=
  if negb (r_synced s) then
    (if b =? pkt_magic then rx_fresh else s, RxNone)
  else if b =? pkt_magic then
    match r_buf s with
    | [] => (rx_fresh, RxNone)       (* also cancels a pending escape *)
    | _ => (rx_fresh, if r_ovf s then RxOversize
                      else if r_crc s =? 0 then RxPacket (removelast (r_buf s)) else RxBadCrc)
    end
  else if b =? pkt_escape then
    ({| r_synced := true; r_buf := r_buf s; r_esc := true; r_crc := r_crc s; r_ovf := r_ovf s |}, RxNone)
  else
    let d := if r_esc s then N.lxor b 32 else b in
    if rx_buf_size <=? nlen (r_buf s)
    then ({| r_synced := true; r_buf := r_buf s; r_esc := false; r_crc := r_crc s; r_ovf := true |}, RxNone)
    else ({| r_synced := true; r_buf := r_buf s ++ [d]; r_esc := false; r_crc := crc_step (r_crc s) d; r_ovf := r_ovf s |}, RxNone).

(* ---- bidib_split_packet: cut the payload into message copies ---- *)
(* each piece is (allocated length, initialised bytes) *)
Fixpoint split_packet (fuel : nat) (p : list N) : list (N * list N) :=
  match fuel with
  | O => []
  | S f =>
    match p with
    | [] => []
    | l :: _ => let n := S (N.to_nat l) in
                (l + 1, firstn n p) :: split_packet f (skipn n p)
    end
  end.

(* ---- field extraction on the malloc'ed copy (size L, contents m) ---- *)
Definition rd (m : list N) (i : nat) (site : N) : fault + N :=
  match nth_error m i with Some v => inr v | None => inl (F_msg_overread site) end.

(* index of the first zero at position >= 1, scanning as the do/while loops do *)
Fixpoint zero_from (fuel : nat) (m : list N) (i : nat) (site : N) : fault + nat :=
  match fuel with
  | O => inl (F_msg_overread site)
  | S f => match nth_error m i with
           | None => inl (F_msg_overread site)
           | Some v => if v =? 0 then inr i else zero_from f m (S i) site
           end
  end.

Record rmsg := { m_addr : list N; m_seq : N; m_type : N; m_raw : list N }.

(* the check bidib_split_packet applies to the copy (alloc bytes allocated, m the j bytes copied):
   complete, address stack ends within four bytes, sequence number and type inside the message *)
Fixpoint addr_end (fuel : nat) (m : list N) (i : nat) : nat :=
  match fuel with
  | O => i
  | S f => match nth_error m i with
           | Some v => if v =? 0 then i else addr_end f m (S i)
           | None => i
           end
  end.
Definition valid_msg (alloc : N) (m : list N) : bool :=
  let e := addr_end (length m) m 1 in
  (nlen m =? alloc) && (e <=? 4)%nat && (e + 2 <? length m)%nat.

Definition parse_msg (alloc : N) (m : list N) : fault + rmsg :=
  if negb (nlen m =? alloc) then inl F_truncated_msg else
  match zero_from (length m) m 1 1 with
  | inl f => inl f
  | inr z =>
      match rd m (z + 2) 1 with
      | inl f => inl f
      | inr ty =>
          if (4 <? z)%nat then inl F_addr_stack_overflow else
          match rd m (z + 1) 3 with
          | inl f => inl f
          | inr sq => inr {| m_addr := firstn (z - 1) (skipn 1 m); m_seq := sq; m_type := ty; m_raw := m |}
          end
      end
  end.

(* bidib_first_data_byte_index: None = -1 *)
Fixpoint fdbi_loop (m : list N) (i : nat) (cnt : nat) : option nat :=
  match cnt with
  | O => None
  | S c => match nth_error m i with
           | Some v => if v =? 0 then Some (i + 3)%nat else fdbi_loop m (S i) c
           | None => None
           end
  end.
Definition first_data_index (m : list N) : option nat :=
  match m with
  | [] => None
  | l :: _ => fdbi_loop m 1 (N.to_nat l - 3)
  end.

(* all messages of one good packet, or the first fault *)
Inductive stop := StopFault (f : fault) | StopMalformed.
Fixpoint parse_all (ps : list (N * list N)) : list rmsg * option stop :=
  match ps with
  | [] => ([], None)
  | (a, m) :: r =>
      if valid_msg a m then
        match parse_msg a m with
        | inl f => ([], Some (StopFault f))
        | inr x => let '(xs, f) := parse_all r in (x :: xs, f)
        end
      else ([], Some StopMalformed)     (* the rest of the packet is ignored *)
  end.

(* ---- stream level: delivered messages in order (for C02) ---- *)
Inductive rx_item := Delivered (m : rmsg) | Dropped | Malformed | Faulted (f : fault).

Definition deliver_packet (p : list N) : list rx_item :=
  let '(ms, f) := parse_all (split_packet (length p) p) in
  map Delivered ms ++ match f with Some (StopFault x) => [Faulted x] | Some StopMalformed => [Malformed] | None => [] end.

Fixpoint rx_run (s : rxs) (bytes : list N) : rxs * list rx_item :=
  match bytes with
  | [] => (s, [])
  | b :: r =>
      let '(s1, o) := rx_byte s b in
      let here := match o with
                  | RxNone => []
                  | RxPacket p => deliver_packet p
                  | RxBadCrc => [Dropped]
                  | RxOversize => [Dropped]
                  | RxFault f => [Faulted f]
                  end in
      let '(s2, rest) := rx_run s1 r in (s2, here ++ rest)
  end.

(* the receive-sequence-number bookkeeping of bidib_split_packet (never drops a message) *)
Definition rseq_after (expected got : N) : N :=
  if got =? 0 then expected
  else if got =? expected then (if expected =? 255 then 1 else expected + 1)
  else if got =? 255 then 1 else got + 1.
