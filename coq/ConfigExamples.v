(* ConfigExamples.v - concrete documents for the non-vacuity examples and refutation witnesses of C13/C14.
   ex_doc is the configuration of /repo/test/unit/config_tests_config written as a typed document
   (generated once from checks/cfggen.py example_doc; the check runs the same document through the real parser). *)
From Coq Require Import List NArith String Ascii.
From LB Require Import ConfigSpec.
Import ListNotations.
Local Open Scope string_scope.

Definition s (x : string) : str := map (fun c => N.of_nat (nat_of_ascii c)) (list_ascii_of_string x).

Definition ex_doc : doc3 :=
  {| d_boards := [{| b_id := (s "board1"); b_uid := (s "0x0223456789ABCD"); b_feats := [{| f_num := (s "0x01"); f_val := (s "0x00") |}; {| f_num := (s "0x04"); f_val := (s "0x01") |}] |}; {| b_id := (s "board2"); b_uid := (s "0x0123456789ABCE"); b_feats := [] |}; {| b_id := (s "board3"); b_uid := (s "0xF41274A8E56B93"); b_feats := [{| f_num := (s "0x01"); f_val := (s "0x00") |}] |}];
   d_track := [{| su_id := (s "board1");
     su_pb := [{| ba_id := (s "point1"); ba_num := (s "0x02"); ba_aspects := [{| a_id := (s "normal"); a_val := (s "0x01") |}; {| a_id := (s "reverse"); a_val := (s "0x00") |}]; ba_init := (Some (s "normal")) |}; {| ba_id := (s "point2"); ba_num := (s "0x14"); ba_aspects := [{| a_id := (s "normal"); a_val := (s "0x01") |}; {| a_id := (s "reverse"); a_val := (s "0x00") |}]; ba_init := None |}];
     su_pd := [{| dc_id := (s "point3"); dc_addr := (s "0x0113"); dc_ext := (s "0"); dc_aspects := [{| da_id := (s "normal"); da_ports := [{| dp_port := (s "0x00"); dp_val := (s "0x01") |}; {| dp_port := (s "0x01"); dp_val := (s "0x00") |}] |}; {| da_id := (s "reverse"); da_ports := [{| dp_port := (s "0x00"); dp_val := (s "0x00") |}; {| dp_port := (s "0x01"); dp_val := (s "0x01") |}] |}]; dc_init := None |}];
     su_sb := [{| ba_id := (s "signal1"); ba_num := (s "0x10"); ba_aspects := [{| a_id := (s "green"); a_val := (s "0x02") |}; {| a_id := (s "orange"); a_val := (s "0x01") |}; {| a_id := (s "red"); a_val := (s "0x00") |}]; ba_init := (Some (s "red")) |}];
     su_sd := [{| dc_id := (s "signal2"); dc_addr := (s "0x1122"); dc_ext := (s "0"); dc_aspects := [{| da_id := (s "green"); da_ports := [{| dp_port := (s "0x00"); dp_val := (s "0x01") |}; {| dp_port := (s "0x01"); dp_val := (s "0x00") |}] |}; {| da_id := (s "red"); da_ports := [{| dp_port := (s "0x00"); dp_val := (s "0x00") |}; {| dp_port := (s "0x01"); dp_val := (s "0x01") |}] |}]; dc_init := (Some (s "red")) |}];
     su_pe := [{| p_id := (s "led1"); p_num := (s "0x00"); p_port := (s "0x0123"); p_aspects := [{| a_id := (s "state1"); a_val := (s "0x00") |}; {| a_id := (s "state2"); a_val := (s "0x01") |}]; p_init := (Some (s "state1")) |}];
     su_sg := [{| sg_id := (s "seg1"); sg_addr := (s "0x00"); sg_len := (s "10.2cm") |}; {| sg_id := (s "seg2"); sg_addr := (s "0x01"); sg_len := (s "20.5cm") |}];
     su_rv := [] |}; {| su_id := (s "board2");
     su_pb := [];
     su_pd := [];
     su_sb := [];
     su_sd := [];
     su_pe := [{| p_id := (s "led2"); p_num := (s "0x00"); p_port := (s "0x0123"); p_aspects := [{| a_id := (s "state1"); a_val := (s "0x00") |}; {| a_id := (s "state2"); a_val := (s "0x01") |}]; p_init := (Some (s "state1")) |}; {| p_id := (s "led3"); p_num := (s "0x01"); p_port := (s "0x1011"); p_aspects := [{| a_id := (s "state1"); a_val := (s "0x00") |}; {| a_id := (s "state2"); a_val := (s "0x01") |}]; p_init := (Some (s "state1")) |}];
     su_sg := [];
     su_rv := [{| rv_id := (s "reverser"); rv_cv := (s "30051") |}] |}];
   d_trains := [{| t_id := (s "train1"); t_addr := (s "0x0123"); t_steps := (s "14"); t_cal := (Some [(s "5"); (s "15"); (s "30"); (s "45"); (s "60"); (s "75"); (s "90"); (s "105"); (s "120")]); t_per := (Some [{| tp_id := (s "light1"); tp_bit := (s "4"); tp_init := (Some (s "1")) |}; {| tp_id := (s "light2"); tp_bit := (s "3"); tp_init := (Some (s "0")) |}; {| tp_id := (s "horn"); tp_bit := (s "0"); tp_init := None |}]) |}; {| t_id := (s "train2"); t_addr := (s "0x4567"); t_steps := (s "126"); t_cal := None; t_per := (Some [{| tp_id := (s "light"); tp_bit := (s "4"); tp_init := (Some (s "1")) |}]) |}] |}.

(* signal1 gets the accessory number of point1 on the same board *)
Definition ex_point_signal_same_number : doc3 :=
  {| d_boards := [{| b_id := (s "board1"); b_uid := (s "0x0223456789ABCD"); b_feats := [{| f_num := (s "0x01"); f_val := (s "0x00") |}; {| f_num := (s "0x04"); f_val := (s "0x01") |}] |}; {| b_id := (s "board2"); b_uid := (s "0x0123456789ABCE"); b_feats := [] |}; {| b_id := (s "board3"); b_uid := (s "0xF41274A8E56B93"); b_feats := [{| f_num := (s "0x01"); f_val := (s "0x00") |}] |}];
   d_track := [{| su_id := (s "board1");
     su_pb := [{| ba_id := (s "point1"); ba_num := (s "0x02"); ba_aspects := [{| a_id := (s "normal"); a_val := (s "0x01") |}; {| a_id := (s "reverse"); a_val := (s "0x00") |}]; ba_init := (Some (s "normal")) |}; {| ba_id := (s "point2"); ba_num := (s "0x14"); ba_aspects := [{| a_id := (s "normal"); a_val := (s "0x01") |}; {| a_id := (s "reverse"); a_val := (s "0x00") |}]; ba_init := None |}];
     su_pd := [{| dc_id := (s "point3"); dc_addr := (s "0x0113"); dc_ext := (s "0"); dc_aspects := [{| da_id := (s "normal"); da_ports := [{| dp_port := (s "0x00"); dp_val := (s "0x01") |}; {| dp_port := (s "0x01"); dp_val := (s "0x00") |}] |}; {| da_id := (s "reverse"); da_ports := [{| dp_port := (s "0x00"); dp_val := (s "0x00") |}; {| dp_port := (s "0x01"); dp_val := (s "0x01") |}] |}]; dc_init := None |}];
     su_sb := [{| ba_id := (s "signal1"); ba_num := (s "0x02"); ba_aspects := [{| a_id := (s "green"); a_val := (s "0x02") |}; {| a_id := (s "orange"); a_val := (s "0x01") |}; {| a_id := (s "red"); a_val := (s "0x00") |}]; ba_init := (Some (s "red")) |}];
     su_sd := [{| dc_id := (s "signal2"); dc_addr := (s "0x1122"); dc_ext := (s "0"); dc_aspects := [{| da_id := (s "green"); da_ports := [{| dp_port := (s "0x00"); dp_val := (s "0x01") |}; {| dp_port := (s "0x01"); dp_val := (s "0x00") |}] |}; {| da_id := (s "red"); da_ports := [{| dp_port := (s "0x00"); dp_val := (s "0x00") |}; {| dp_port := (s "0x01"); dp_val := (s "0x01") |}] |}]; dc_init := (Some (s "red")) |}];
     su_pe := [{| p_id := (s "led1"); p_num := (s "0x00"); p_port := (s "0x0123"); p_aspects := [{| a_id := (s "state1"); a_val := (s "0x00") |}; {| a_id := (s "state2"); a_val := (s "0x01") |}]; p_init := (Some (s "state1")) |}];
     su_sg := [{| sg_id := (s "seg1"); sg_addr := (s "0x00"); sg_len := (s "10.2cm") |}; {| sg_id := (s "seg2"); sg_addr := (s "0x01"); sg_len := (s "20.5cm") |}];
     su_rv := [] |}; {| su_id := (s "board2");
     su_pb := [];
     su_pd := [];
     su_sb := [];
     su_sd := [];
     su_pe := [{| p_id := (s "led2"); p_num := (s "0x00"); p_port := (s "0x0123"); p_aspects := [{| a_id := (s "state1"); a_val := (s "0x00") |}; {| a_id := (s "state2"); a_val := (s "0x01") |}]; p_init := (Some (s "state1")) |}; {| p_id := (s "led3"); p_num := (s "0x01"); p_port := (s "0x1011"); p_aspects := [{| a_id := (s "state1"); a_val := (s "0x00") |}; {| a_id := (s "state2"); a_val := (s "0x01") |}]; p_init := (Some (s "state1")) |}];
     su_sg := [];
     su_rv := [{| rv_id := (s "reverser"); rv_cv := (s "30051") |}] |}];
   d_trains := [{| t_id := (s "train1"); t_addr := (s "0x0123"); t_steps := (s "14"); t_cal := (Some [(s "5"); (s "15"); (s "30"); (s "45"); (s "60"); (s "75"); (s "90"); (s "105"); (s "120")]); t_per := (Some [{| tp_id := (s "light1"); tp_bit := (s "4"); tp_init := (Some (s "1")) |}; {| tp_id := (s "light2"); tp_bit := (s "3"); tp_init := (Some (s "0")) |}; {| tp_id := (s "horn"); tp_bit := (s "0"); tp_init := None |}]) |}; {| t_id := (s "train2"); t_addr := (s "0x4567"); t_steps := (s "126"); t_cal := None; t_per := (Some [{| tp_id := (s "light"); tp_bit := (s "4"); tp_init := (Some (s "1")) |}]) |}] |}.

(* train1 keeps its calibration but has no peripherals key *)
Definition ex_calibration_only : doc3 :=
  {| d_boards := [{| b_id := (s "board1"); b_uid := (s "0x0223456789ABCD"); b_feats := [{| f_num := (s "0x01"); f_val := (s "0x00") |}; {| f_num := (s "0x04"); f_val := (s "0x01") |}] |}; {| b_id := (s "board2"); b_uid := (s "0x0123456789ABCE"); b_feats := [] |}; {| b_id := (s "board3"); b_uid := (s "0xF41274A8E56B93"); b_feats := [{| f_num := (s "0x01"); f_val := (s "0x00") |}] |}];
   d_track := [{| su_id := (s "board1");
     su_pb := [{| ba_id := (s "point1"); ba_num := (s "0x02"); ba_aspects := [{| a_id := (s "normal"); a_val := (s "0x01") |}; {| a_id := (s "reverse"); a_val := (s "0x00") |}]; ba_init := (Some (s "normal")) |}; {| ba_id := (s "point2"); ba_num := (s "0x14"); ba_aspects := [{| a_id := (s "normal"); a_val := (s "0x01") |}; {| a_id := (s "reverse"); a_val := (s "0x00") |}]; ba_init := None |}];
     su_pd := [{| dc_id := (s "point3"); dc_addr := (s "0x0113"); dc_ext := (s "0"); dc_aspects := [{| da_id := (s "normal"); da_ports := [{| dp_port := (s "0x00"); dp_val := (s "0x01") |}; {| dp_port := (s "0x01"); dp_val := (s "0x00") |}] |}; {| da_id := (s "reverse"); da_ports := [{| dp_port := (s "0x00"); dp_val := (s "0x00") |}; {| dp_port := (s "0x01"); dp_val := (s "0x01") |}] |}]; dc_init := None |}];
     su_sb := [{| ba_id := (s "signal1"); ba_num := (s "0x10"); ba_aspects := [{| a_id := (s "green"); a_val := (s "0x02") |}; {| a_id := (s "orange"); a_val := (s "0x01") |}; {| a_id := (s "red"); a_val := (s "0x00") |}]; ba_init := (Some (s "red")) |}];
     su_sd := [{| dc_id := (s "signal2"); dc_addr := (s "0x1122"); dc_ext := (s "0"); dc_aspects := [{| da_id := (s "green"); da_ports := [{| dp_port := (s "0x00"); dp_val := (s "0x01") |}; {| dp_port := (s "0x01"); dp_val := (s "0x00") |}] |}; {| da_id := (s "red"); da_ports := [{| dp_port := (s "0x00"); dp_val := (s "0x00") |}; {| dp_port := (s "0x01"); dp_val := (s "0x01") |}] |}]; dc_init := (Some (s "red")) |}];
     su_pe := [{| p_id := (s "led1"); p_num := (s "0x00"); p_port := (s "0x0123"); p_aspects := [{| a_id := (s "state1"); a_val := (s "0x00") |}; {| a_id := (s "state2"); a_val := (s "0x01") |}]; p_init := (Some (s "state1")) |}];
     su_sg := [{| sg_id := (s "seg1"); sg_addr := (s "0x00"); sg_len := (s "10.2cm") |}; {| sg_id := (s "seg2"); sg_addr := (s "0x01"); sg_len := (s "20.5cm") |}];
     su_rv := [] |}; {| su_id := (s "board2");
     su_pb := [];
     su_pd := [];
     su_sb := [];
     su_sd := [];
     su_pe := [{| p_id := (s "led2"); p_num := (s "0x00"); p_port := (s "0x0123"); p_aspects := [{| a_id := (s "state1"); a_val := (s "0x00") |}; {| a_id := (s "state2"); a_val := (s "0x01") |}]; p_init := (Some (s "state1")) |}; {| p_id := (s "led3"); p_num := (s "0x01"); p_port := (s "0x1011"); p_aspects := [{| a_id := (s "state1"); a_val := (s "0x00") |}; {| a_id := (s "state2"); a_val := (s "0x01") |}]; p_init := (Some (s "state1")) |}];
     su_sg := [];
     su_rv := [{| rv_id := (s "reverser"); rv_cv := (s "30051") |}] |}];
   d_trains := [{| t_id := (s "train1"); t_addr := (s "0x0123"); t_steps := (s "14"); t_cal := (Some [(s "5"); (s "15"); (s "30"); (s "45"); (s "60"); (s "75"); (s "90"); (s "105"); (s "120")]); t_per := None |}; {| t_id := (s "train2"); t_addr := (s "0x4567"); t_steps := (s "126"); t_cal := None; t_per := (Some [{| tp_id := (s "light"); tp_bit := (s "4"); tp_init := (Some (s "1")) |}]) |}] |}.

(* seg2 with a malformed address *)
Definition ex_bad_segment_address : doc3 :=
  {| d_boards := [{| b_id := (s "board1"); b_uid := (s "0x0223456789ABCD"); b_feats := [{| f_num := (s "0x01"); f_val := (s "0x00") |}; {| f_num := (s "0x04"); f_val := (s "0x01") |}] |}; {| b_id := (s "board2"); b_uid := (s "0x0123456789ABCE"); b_feats := [] |}; {| b_id := (s "board3"); b_uid := (s "0xF41274A8E56B93"); b_feats := [{| f_num := (s "0x01"); f_val := (s "0x00") |}] |}];
   d_track := [{| su_id := (s "board1");
     su_pb := [{| ba_id := (s "point1"); ba_num := (s "0x02"); ba_aspects := [{| a_id := (s "normal"); a_val := (s "0x01") |}; {| a_id := (s "reverse"); a_val := (s "0x00") |}]; ba_init := (Some (s "normal")) |}; {| ba_id := (s "point2"); ba_num := (s "0x14"); ba_aspects := [{| a_id := (s "normal"); a_val := (s "0x01") |}; {| a_id := (s "reverse"); a_val := (s "0x00") |}]; ba_init := None |}];
     su_pd := [{| dc_id := (s "point3"); dc_addr := (s "0x0113"); dc_ext := (s "0"); dc_aspects := [{| da_id := (s "normal"); da_ports := [{| dp_port := (s "0x00"); dp_val := (s "0x01") |}; {| dp_port := (s "0x01"); dp_val := (s "0x00") |}] |}; {| da_id := (s "reverse"); da_ports := [{| dp_port := (s "0x00"); dp_val := (s "0x00") |}; {| dp_port := (s "0x01"); dp_val := (s "0x01") |}] |}]; dc_init := None |}];
     su_sb := [{| ba_id := (s "signal1"); ba_num := (s "0x10"); ba_aspects := [{| a_id := (s "green"); a_val := (s "0x02") |}; {| a_id := (s "orange"); a_val := (s "0x01") |}; {| a_id := (s "red"); a_val := (s "0x00") |}]; ba_init := (Some (s "red")) |}];
     su_sd := [{| dc_id := (s "signal2"); dc_addr := (s "0x1122"); dc_ext := (s "0"); dc_aspects := [{| da_id := (s "green"); da_ports := [{| dp_port := (s "0x00"); dp_val := (s "0x01") |}; {| dp_port := (s "0x01"); dp_val := (s "0x00") |}] |}; {| da_id := (s "red"); da_ports := [{| dp_port := (s "0x00"); dp_val := (s "0x00") |}; {| dp_port := (s "0x01"); dp_val := (s "0x01") |}] |}]; dc_init := (Some (s "red")) |}];
     su_pe := [{| p_id := (s "led1"); p_num := (s "0x00"); p_port := (s "0x0123"); p_aspects := [{| a_id := (s "state1"); a_val := (s "0x00") |}; {| a_id := (s "state2"); a_val := (s "0x01") |}]; p_init := (Some (s "state1")) |}];
     su_sg := [{| sg_id := (s "seg1"); sg_addr := (s "0x00"); sg_len := (s "10.2cm") |}; {| sg_id := (s "seg2"); sg_addr := (s "0x1g"); sg_len := (s "20.5cm") |}];
     su_rv := [] |}; {| su_id := (s "board2");
     su_pb := [];
     su_pd := [];
     su_sb := [];
     su_sd := [];
     su_pe := [{| p_id := (s "led2"); p_num := (s "0x00"); p_port := (s "0x0123"); p_aspects := [{| a_id := (s "state1"); a_val := (s "0x00") |}; {| a_id := (s "state2"); a_val := (s "0x01") |}]; p_init := (Some (s "state1")) |}; {| p_id := (s "led3"); p_num := (s "0x01"); p_port := (s "0x1011"); p_aspects := [{| a_id := (s "state1"); a_val := (s "0x00") |}; {| a_id := (s "state2"); a_val := (s "0x01") |}]; p_init := (Some (s "state1")) |}];
     su_sg := [];
     su_rv := [{| rv_id := (s "reverser"); rv_cv := (s "30051") |}] |}];
   d_trains := [{| t_id := (s "train1"); t_addr := (s "0x0123"); t_steps := (s "14"); t_cal := (Some [(s "5"); (s "15"); (s "30"); (s "45"); (s "60"); (s "75"); (s "90"); (s "105"); (s "120")]); t_per := (Some [{| tp_id := (s "light1"); tp_bit := (s "4"); tp_init := (Some (s "1")) |}; {| tp_id := (s "light2"); tp_bit := (s "3"); tp_init := (Some (s "0")) |}; {| tp_id := (s "horn"); tp_bit := (s "0"); tp_init := None |}]) |}; {| t_id := (s "train2"); t_addr := (s "0x4567"); t_steps := (s "126"); t_cal := None; t_per := (Some [{| tp_id := (s "light"); tp_bit := (s "4"); tp_init := (Some (s "1")) |}]) |}] |}.
