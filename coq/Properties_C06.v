(* Properties_C06.v — C06: each uplink message has exactly one destination; queues FIFO, bounded, once-only.
   The per-type class table and the README lists are regenerated from the source on every run. *)
From Coq Require Import List NArith Bool.
From LB Require Import Tables Framing FramingProofs Rx DispatchTab AccessTab Dispatch DispatchProofs.
From LB Require LockLang LockCfg LockSem LockQueues.
Import ListNotations.
Local Open Scope N_scope.

(* the destination is a total function of mode, type and content, and the message is appended to that
   one queue and to no other, as the exact received bytes *)
Theorem C06_exactly_one : forall debug qs m,
  let qs' := route debug qs m in
  match dest_of debug (m_type m) (msg_data (m_raw m)) with
  | ToMsgQ => q_msg qs' = q_add (q_msg qs) (m_raw m) /\ q_err qs' = q_err qs /\ q_int qs' = q_int qs
  | ToErrQ => q_err qs' = q_add (q_err qs) (m_raw m) /\ q_msg qs' = q_msg qs /\ q_int qs' = q_int qs
  | ToInternQ => q_int qs' = q_add (q_int qs) (m_raw m) /\ q_msg qs' = q_msg qs /\ q_err qs' = q_err qs
  | ToState | ToDropped => qs' = qs
  end.
Proof. exact route_one. Qed.
Print Assumptions C06_exactly_one.

(* the code's table agrees with the README on every one of the 256 type codes: unconditional error
   types, conditional error types, message-queue types, the five startup types,
   and unknown codes go to the message queue *)
Theorem C06_readme_table : forall ty, ty < 256 -> readme_agrees_at ty = true.
Proof. exact readme_agrees. Qed.
Print Assumptions C06_readme_table.

(* MSG_VENDOR (once listed under "Message queue" although the dispatcher consumes it: repaired in the README, /repo cbb7961) *)
Theorem C06_vendor_consumed : mem MSG_VENDOR readme_msgq = false /\ dispatch_class MSG_VENDOR = KConsumed.
Proof. exact vendor_consumed. Qed.
Print Assumptions C06_vendor_consumed.

(* a payload is valid for its type when it has at least the type's minimum number of data bytes (generated from
   bidib_min_data_length); a valid payload is never dropped, in either mode, so it has one of the four destinations of the
   property; a too-short one is dropped by the dispatcher's guard in normal mode: no queue, no state handler (C12) *)
Theorem C06_valid_payload_not_dropped : forall debug ty data, (min_data_len ty <= length data)%nat -> dest_of debug ty data <> ToDropped.
Proof. exact long_not_dropped. Qed.
Print Assumptions C06_valid_payload_not_dropped.
Theorem C06_short_payload_dropped : forall ty data, (length data < min_data_len ty)%nat -> dest_of false ty data = ToDropped.
Proof. exact short_dropped. Qed.
Print Assumptions C06_short_payload_dropped.

Theorem C06_debug_mode : forall ty data, ty <> MSG_STALL -> dest_of true ty data = ToMsgQ.
Proof. exact debug_all_msgq. Qed.
Theorem C06_stall_consumed : forall debug data, dest_of debug MSG_STALL data = ToState.
Proof. exact stall_consumed. Qed.

(* every add/pop history on a queue refines "FIFO of everything added": the queue never exceeds 128
   entries; removed ++ queue = everything added, in order (so overflow discards the oldest, pops return
   the oldest first); what was returned is a subsequence of the removed part (each at most once) *)
Theorem C06_queue_refines : forall ops,
  let '(q', popped) := q_run [] ops in
  nlen q' <= queue_size /\
  exists gone, q_added ops = gone ++ q' /\ sublist popped gone.
Proof.
  exact (fun ops => match q_run [] ops as r return
           (let '(q', popped) := r in nlen q' <= queue_size /\ exists gone', [] ++ [] ++ q_added ops = gone' ++ q' /\ sublist ([] ++ popped) gone')
           -> let '(q', popped) := r in nlen q' <= queue_size /\ exists gone, q_added ops = gone ++ q' /\ sublist popped gone
         with (q', popped) => fun H => H end
         (q_run_refines ops [] [] [] (N.le_0_l _) sub_nil)).
Qed.
Print Assumptions C06_queue_refines.

Theorem C06_queue_size_128 : queue_size = 128. Proof. exact eq_refl. Qed.

Example C06_nonvacuous :
  let ops := map (fun i => QAdd [N.of_nat i]) (seq 0 130) ++ [QPop; QPop] in
  let '(q', popped) := q_run [] ops in
  length q' = 126%nat /\ popped = [[2]; [3]] /\
  dest_of false MSG_BOOST_STAT [BIDIB_BST_STATE_OFF_SHORT] = ToErrQ /\ dest_of false MSG_BOOST_STAT [BIDIB_BST_STATE_ON] = ToState.
Proof. vm_compute. repeat split. Qed.

(* a message in a user queue has exactly one consumer, the application: no function of the library calls the public readers or
   pops one of the two user queues (count regenerated from src/**/*.c on every run) *)
Theorem C06_user_queues_not_consumed_internally : internal_user_queue_consumers = 0.
Proof. exact eq_refl. Qed.

(* the buffer a reader gets is its own: once the dispatcher has handed a message to a queue it does not touch it again (a reader
   on another thread may already have taken and freed it); count regenerated from bidib_handle_received_message on every run *)
Theorem C06_no_use_after_handover : uses_after_handover = 0.
Proof. exact eq_refl. Qed.

(* readers racing the receiver: the three receiver-filled queues are touched only under their own mutex on every
   path of every public function except the two start functions, which create the queues before any thread exists
   (thread-safe or not: the receiver thread runs alongside bidib_send_sys_reset and bidib_stop too) and of the library's own threads; lock programs regenerated from the source on every run *)
Theorem C06_queue_access_guarded : forall f p pre g wr l rest,
  In f (LockCfg.running_entries ++ LockCfg.thread_mains) -> LockLang.run_call LockCfg.body LockCfg.call_depth [] f p ->
  p = pre ++ LockLang.AAcc g wr :: rest -> In g LockCfg.queue_globals -> LockCfg.guard g = Some l ->
  exists H w, LockLang.acts_ok LockCfg.rank LockQueues.queue_guard [] pre = Some H /\ In (l, w) H /\ (wr = true -> w = true).
Proof. exact LockQueues.queue_access_guarded. Qed.
Print Assumptions C06_queue_access_guarded.
Example C06_queue_globals_nonvacuous : (3 <= length LockCfg.queue_globals)%nat /\ forallb (fun g => match LockCfg.guard g with Some _ => true | None => false end) LockCfg.queue_globals = true.
Proof. vm_compute. split; [repeat constructor|reflexivity]. Qed.

