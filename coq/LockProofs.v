(* LockProofs.v — the generated lock programs are accepted by the verified checker. *)
From Coq Require Import List Arith Bool.
From LB Require Import LockLang LockCfg.
Import ListNotations.

Definition no_guard (g : nat) : option nat := None.

(* balance + rank order for every public function and internal thread (C11) *)
Lemma all_entries_balanced_ordered :
  forallb (check_entry rank no_guard body call_depth) (public_entries ++ thread_mains) = true.
Proof. vm_compute. reflexivity. Qed.

(* additionally: every access to a guarded global holds its guard, for the thread-safe API and
   the internal threads (C10) *)
Lemma threadsafe_entries_lockset :
  forallb (check_entry rank guard body call_depth) (threadsafe_entries ++ thread_mains) = true.
Proof. vm_compute. reflexivity. Qed.

From LB Require Import LockSem.

Lemma entry_paths_ok p :
  (exists f, In f (public_entries ++ thread_mains) /\ run_call body call_depth [] f p) ->
  acts_ok rank no_guard [] p = Some [].
Proof.
  intros (f & Hin & Hr). pose proof all_entries_balanced_ordered as Hb. rewrite forallb_forall in Hb.
  eapply check_entry_sound; [apply Hb; exact Hin|exact Hr].
Qed.

Lemma threadsafe_paths_ok p :
  (exists f, In f (threadsafe_entries ++ thread_mains) /\ run_call body call_depth [] f p) ->
  acts_ok rank guard [] p = Some [].
Proof.
  intros (f & Hin & Hr). pose proof threadsafe_entries_lockset as Hb. rewrite forallb_forall in Hb.
  eapply check_entry_sound; [apply Hb; exact Hin|exact Hr].
Qed.

Lemma no_deadlock_entries (tps : list (list (list act))) c :
  Forall (Forall (fun p => exists f, In f (public_entries ++ thread_mains) /\ run_call body call_depth [] f p)) tps ->
  reach rank no_guard (map fresh_thread tps) c -> unfinished c -> exists c', step rank no_guard c c'.
Proof.
  intros H. apply no_deadlock. eapply Forall_impl; [|exact H]. intros ps Hps.
  eapply Forall_impl; [|exact Hps]. intros p Hp. apply entry_paths_ok. exact Hp.
Qed.

Fixpoint nodupb (l : list nat) : bool :=
  match l with [] => true | x :: r => negb (existsb (Nat.eqb x) r) && nodupb r end.
Lemma nodupb_sound l : nodupb l = true -> NoDup l.
Proof.
  induction l as [|x r IH]; cbn; [constructor|]. intros H. apply andb_true_iff in H as [H1 H2].
  constructor; [|apply IH; exact H2]. intro Hin. apply negb_true_iff in H1.
  assert (existsb (Nat.eqb x) r = true) by (apply existsb_exists; exists x; split; [exact Hin|apply Nat.eqb_refl]). congruence.
Qed.
Lemma ranks_nodup : NoDup rank_tab /\ length rank_tab = lock_count.
Proof. split; [apply nodupb_sound; vm_compute; reflexivity|reflexivity]. Qed.

Lemma access_needs_guard H g l p :
  guard g = Some l -> acts_ok rank guard H (AAcc g :: p) <> None -> In l H.
Proof.
  intros Hg. cbn [acts_ok act_ok]. rewrite Hg. destruct (existsb (Nat.eqb l) H) eqn:E; [|congruence].
  intros _. apply existsb_exists in E as (x & Hx & Ex). apply Nat.eqb_eq in Ex. subst x. exact Hx.
Qed.

Lemma threadsafe_inv (tps : list (list (list act))) c :
  Forall (Forall (fun p => exists f, In f (threadsafe_entries ++ thread_mains) /\ run_call body call_depth [] f p)) tps ->
  reach rank guard (map fresh_thread tps) c -> Inv rank guard c.
Proof.
  intros H Hr. eapply Inv_reach; [|exact Hr]. apply Inv_initial. eapply Forall_impl; [|exact H]. intros ps Hps.
  eapply Forall_impl; [|exact Hps]. intros p Hp. apply threadsafe_paths_ok. exact Hp.
Qed.

(* ---- mutual exclusion for the locks that the source only ever takes exclusively ---- *)
From LB Require Import LockExcl.

Definition excl_only (l : nat) : bool :=
  forallb (fun ob => match ob with Some s => negb (mentions (AAcq l false) s) | None => true end) body_tab.

Definition mutex_ids : list nat := filter excl_only (seq 0 lock_count).

Lemma excl_only_bodies l : excl_only l = true -> forall f s, body f = Some s -> mentions (AAcq l false) s = false.
Proof.
  intros H f s Hb. unfold excl_only in H. rewrite forallb_forall in H. unfold body in Hb.
  assert (Hin : In (Some s) body_tab).
  { destruct (Nat.lt_ge_cases f (length body_tab)) as [Hlt|Hge].
    - rewrite <- Hb. apply nth_In. exact Hlt.
    - rewrite nth_overflow in Hb by exact Hge. discriminate. }
  specialize (H _ Hin). cbn in H. apply negb_true_iff in H. exact H.
Qed.

Definition ts_path (p : list act) : Prop :=
  exists f, In f (threadsafe_entries ++ thread_mains) /\ run_call body call_depth [] f p.

Lemma no_shared_initial l (tps : list (list (list act))) : excl_only l = true ->
  Forall (Forall ts_path) tps -> no_shared l (map fresh_thread tps).
Proof.
  intros He H t Hin. apply in_map_iff in Hin as (ps & <- & Hps). cbn [fresh_thread th_prog].
  rewrite Forall_forall in H. specialize (H ps Hps). intro Hc. apply in_concat in Hc as (p & Hp & Hin).
  rewrite Forall_forall in H. destruct (H p Hp) as (f & _ & Hr).
  eapply run_call_mentions; [apply excl_only_bodies; exact He|exact Hr|exact Hin].
Qed.

Lemma HW_initial l (tps : list (list (list act))) : HW l (map fresh_thread tps).
Proof. intros t Hin. apply in_map_iff in Hin as (ps & <- & _). cbn. split; [constructor|tauto]. Qed.

(* In every configuration reachable by any interleaving of threads running thread-safe API calls and
   the internal threads, two different threads are never both about to access data guarded by the same
   mutex. *)
Theorem mutex_mutual_exclusion (tps : list (list (list act))) pre t mid t' post l g g' p p' :
  Forall (Forall ts_path) tps ->
  reach rank guard (map fresh_thread tps) (pre ++ t :: mid ++ t' :: post) ->
  excl_only l = true -> guard g = Some l -> guard g' = Some l ->
  th_prog t = AAcc g :: p -> th_prog t' = AAcc g' :: p' -> False.
Proof.
  intros Hts Hr He Hg Hg' Hp Hp'.
  assert (Hinv0 : Inv rank guard (map fresh_thread tps)).
  { apply Inv_initial. eapply Forall_impl; [|exact Hts]. intros ps Hps. eapply Forall_impl; [|exact Hps].
    intros q Hq. apply threadsafe_paths_ok. exact Hq. }
  pose proof (Inv_reach rank guard _ _ Hinv0 Hr) as Hinv.
  pose proof (Excl_reach rank guard _ _ Hinv0 (Excl_initial tps) Hr) as Hex.
  destruct (HW_reach rank guard l _ _ (no_shared_initial l tps He Hts) (HW_initial l tps) Hr) as [Hw _].
  exact (mutual_exclusion rank guard pre t mid t' post l g g' p p' Hinv Hex Hw Hg Hg' Hp Hp').
Qed.

Lemma mutexes_exist : (10 <= length mutex_ids).
Proof. vm_compute. repeat constructor. Qed.
