(* LockProofs.v — the generated lock programs are accepted by the verified checker. *)
From Coq Require Import List Arith Bool.
From LB Require Import LockLang LockCfg.
Import ListNotations.

Definition no_guard (g : nat) : option nat := None.

(* balance + rank order for every public function and internal thread (C11) *)
Lemma all_entries_balanced_ordered :
  forallb (check_entry rank no_guard body call_depth) (public_entries ++ thread_mains) = true.
Proof. vm_compute. reflexivity. Qed.

(* additionally: every access to a guarded global holds its guard, for the thread-safe API and
   the internal threads (C10) *)
Lemma threadsafe_entries_lockset :
  forallb (check_entry rank guard body call_depth) (threadsafe_entries ++ thread_mains) = true.
Proof. vm_compute. reflexivity. Qed.

From LB Require Import LockSem.

Lemma entry_paths_ok p :
  (exists f, In f (public_entries ++ thread_mains) /\ run_call body call_depth [] f p) ->
  acts_ok rank no_guard [] p = Some [].
Proof.
  intros (f & Hin & Hr). pose proof all_entries_balanced_ordered as Hb. rewrite forallb_forall in Hb.
  eapply check_entry_sound; [apply Hb; exact Hin|exact Hr].
Qed.

Lemma threadsafe_paths_ok p :
  (exists f, In f (threadsafe_entries ++ thread_mains) /\ run_call body call_depth [] f p) ->
  acts_ok rank guard [] p = Some [].
Proof.
  intros (f & Hin & Hr). pose proof threadsafe_entries_lockset as Hb. rewrite forallb_forall in Hb.
  eapply check_entry_sound; [apply Hb; exact Hin|exact Hr].
Qed.

Lemma no_deadlock_entries (tps : list (list (list act))) c :
  Forall (Forall (fun p => exists f, In f (public_entries ++ thread_mains) /\ run_call body call_depth [] f p)) tps ->
  reach rank no_guard (map fresh_thread tps) c -> unfinished c -> exists c', step rank no_guard c c'.
Proof.
  intros H. apply no_deadlock. eapply Forall_impl; [|exact H]. intros ps Hps.
  eapply Forall_impl; [|exact Hps]. intros p Hp. apply entry_paths_ok. exact Hp.
Qed.

Fixpoint nodupb (l : list nat) : bool :=
  match l with [] => true | x :: r => negb (existsb (Nat.eqb x) r) && nodupb r end.
Lemma nodupb_sound l : nodupb l = true -> NoDup l.
Proof.
  induction l as [|x r IH]; cbn; [constructor|]. intros H. apply andb_true_iff in H as [H1 H2].
  constructor; [|apply IH; exact H2]. intro Hin. apply negb_true_iff in H1.
  assert (existsb (Nat.eqb x) r = true) by (apply existsb_exists; exists x; split; [exact Hin|apply Nat.eqb_refl]). congruence.
Qed.
Lemma ranks_nodup : NoDup rank_tab /\ length rank_tab = lock_count.
Proof. split; [apply nodupb_sound; vm_compute; reflexivity|reflexivity]. Qed.

Lemma access_needs_guard H g l p :
  guard g = Some l -> acts_ok rank guard H (AAcc g :: p) <> None -> In l H.
Proof.
  intros Hg. cbn [acts_ok act_ok]. rewrite Hg. destruct (existsb (Nat.eqb l) H) eqn:E; [|congruence].
  intros _. apply existsb_exists in E as (x & Hx & Ex). apply Nat.eqb_eq in Ex. subst x. exact Hx.
Qed.

Lemma threadsafe_inv (tps : list (list (list act))) c :
  Forall (Forall (fun p => exists f, In f (threadsafe_entries ++ thread_mains) /\ run_call body call_depth [] f p)) tps ->
  reach rank guard (map fresh_thread tps) c -> Inv rank guard c.
Proof.
  intros H Hr. eapply Inv_reach; [|exact Hr]. apply Inv_initial. eapply Forall_impl; [|exact H]. intros ps Hps.
  eapply Forall_impl; [|exact Hps]. intros p Hp. apply threadsafe_paths_ok. exact Hp.
Qed.
