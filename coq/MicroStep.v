(* MicroStep.v — lock-granularity model of concurrent submitters (C05).
   With the send-order mutex a submission is three separately locked steps
     [allocate the sequence number] [ask the node table for admission] [append to the packet buffer]
   executed by one thread at a time, while the receiver thread (which does not take that mutex) may run
   a whole uplink step between any two of them. A schedule is any sequence of such micro steps. *)
From Coq Require Import List NArith Bool Arith.
From LB Require Import Tables Framing NodeFlow.
Import ListNotations.
Local Open Scope N_scope.

Inductive pend :=
| PNone
| PAlloc (a : list N) (ty : N) (m : list N)      (* number allocated, message built *)
| PAdmit (a : list N) (m : list N) (ok : bool).   (* admission decided, not yet buffered *)

Inductive mstep :=
| MBegin (a3 : addr3) (ty : N) (data : list N)    (* a thread enters bidib_buffer_message_with(out)_data *)
| MAdmit
| MBuffer
| MUp (a : list N) (rty last : N)                 (* receiver thread: one uplink message *)
| MTime (n : N).

Record mstate := { ms_tab : table; ms_pend : pend; ms_now : N }.
Definition ms_init : mstate := {| ms_tab := []; ms_pend := PNone; ms_now := 0 |}.

Definition grp_msgs (gs : list group) : list (list N * list N) :=
  flat_map (fun g => map (fun e => (fst g, snd e)) (snd g)) gs.

(* None: the step is not enabled in this state (another submission is in flight, nothing to admit...) *)
Definition micro (s : mstate) (st : mstep) : option (mstate * list (list N * list N)) :=
  match st, ms_pend s with
  | MBegin a3 ty data, PNone =>
      let '(t1, sq) := alloc_sseq (ms_tab s) (canon a3) in
      match encode_msg a3 sq ty data with
      | Some m => Some ({| ms_tab := t1; ms_pend := PAlloc (canon a3) ty m; ms_now := ms_now s |}, [])
      | None => None
      end
  | MAdmit, PAlloc a ty m =>
      let '(t2, ok) := try_send (ms_tab s) a ty m (ms_now s) in
      Some ({| ms_tab := t2; ms_pend := PAdmit a m ok; ms_now := ms_now s |}, [])
  | MBuffer, PAdmit a m ok =>
      Some ({| ms_tab := ms_tab s; ms_pend := PNone; ms_now := ms_now s |}, if ok then [(a, m)] else [])
  | MUp a rty last, p =>
      let '(t1, gs) := uplink_tab (ms_tab s) a rty last (ms_now s) in
      Some ({| ms_tab := t1; ms_pend := p; ms_now := ms_now s |}, grp_msgs gs)
  | MTime n, p => Some ({| ms_tab := ms_tab s; ms_pend := p; ms_now := n |}, [])
  | _, _ => None
  end.

Fixpoint micro_run (s : mstate) (ss : list mstep) : option (mstate * list (list N * list N)) :=
  match ss with
  | [] => Some (s, [])
  | st :: r =>
      match micro s st with
      | None => None
      | Some (s1, o1) => match micro_run s1 r with
                         | None => None
                         | Some (s2, o2) => Some (s2, o1 ++ o2)
                         end
      end
  end.

(* the sequence number field of a message addressed to node a *)
Definition msg_seq (a : list N) (m : list N) : N := nth (length a + 2) m 0.
Definition to_node (a : list N) (log : list (list N * list N)) : list (list N) :=
  flat_map (fun e => if addr_eqb a (fst e) then [snd e] else []) log.
