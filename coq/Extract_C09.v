(* Extract_C09.v — extraction of the high-level setter model for the C09 correspondence driver.
   ExtrOcamlBasic only; no Extract Constant. Compiled by the check in a scratch directory. *)
From Coq Require Import Extraction ExtrOcamlBasic List NArith ZArith.
From LB Require Import Tables HighLevel.
Extraction "model_c09.ml"
  cmd node_new node_lost rev_feedback init_world wfb conn_addrs_distinct lib_to_dcc dcc_to_lib.
