(* GetterFactsCheck.v — the hand-written shape model (Getters.v) agrees with the facts the translator
   recomputes from the clang AST on every run (GetterFacts.v, generated): member lists of every result type,
   members never written on the NULL / not-found / found paths of every getter that builds a `query`,
   members never written by the snapshot helpers, no pointer assigned from library state. *)
From Coq Require Import List NArith Bool String.
From LB Require Import Getters GetterFacts.
Import ListNotations.
Local Open Scope string_scope.
Local Open Scope list_scope.
Local Open Scope N_scope.

Definition getter_names : list string :=
  ["state"; "point_state_index"; "signal_state_index"; "segment_state_index"; "point_state"; "signal_state";
   "peripheral_state"; "segment_state"; "reverser_state"; "uniqueid"; "nodeaddr"; "uniqueid_by_nodeaddr"; "nodeaddr_by_uniqueid"; "board_id";
   "boards"; "boards_connected"; "board_connected"; "board_features"; "board_points"; "board_signals"; "board_peripherals"; "board_segments";
   "board_reversers"; "connected_points"; "connected_signals"; "connected_peripherals"; "connected_segments"; "connected_reversers";
   "connected_boosters"; "boosters"; "track_outputs"; "connected_track_outputs"; "booster_state"; "track_output_state"; "trains";
   "trains_on_track"; "train_peripherals"; "train_id"; "train_dcc_addr"; "train_state"; "train_peripheral_state"; "train_position";
   "train_speed_step"; "train_speed_kmh"; "train_on_track"; "point_aspects"; "signal_aspects"; "peripheral_aspects"].
Definition getter_of_name (n : string) : option getter :=
  option_map snd (find (fun p => String.eqb (fst p) n) (combine getter_names all_getters)).

(* ex_state with its board connected at node address 1.0.0 *)
Definition ex_conn : astate :=
  {| boards := map (fun b => {| b_id := b_id b; b_connected := true; b_uid := b_uid b; b_addr := [1; 0; 0]; b_features := b_features b;
                                b_points_board := b_points_board b; b_points_dcc := b_points_dcc b; b_signals_board := b_signals_board b;
                                b_signals_dcc := b_signals_dcc b; b_peripherals := b_peripherals b; b_segments := b_segments b;
                                b_reversers := b_reversers b |}) (boards ex_state);
     trains := trains ex_state; points_board := points_board ex_state; points_dcc := points_dcc ex_state;
     signals_board := signals_board ex_state; signals_dcc := signals_dcc ex_state; peripherals := peripherals ex_state;
     segments := segments ex_state; reversers := reversers ex_state; tstates := tstates ex_state; boosters := boosters ex_state;
     touts := touts ex_state |}.

Definition known_args (g : getter) : arg * arg :=
  match g with
  | GPointState | GPointAspects | GPointStateIndex => (AStr [112; 49], ANull)
  | GSignalState | GSignalAspects => (AStr [115; 50], ANull)
  | GPeripheralState | GPeripheralAspects => (AStr [108; 49], ANull)
  | GSegmentState | GSegmentStateIndex => (AStr [115; 101; 103], ANull)
  | GReverserState => (AStr [114; 118], ANull)
  | GUniqueidByNodeaddr => (ARaw [1; 0; 0], ANull)
  | GNodeaddrByUniqueid | GBoardId => (ARaw [218; 0; 13; 104; 0; 1; 238], ANull)
  | GTrainId => (ARaw [35; 1; 0], ANull)
  | GTrainPeripheralState => (AStr [116; 49], AStr [108; 105])
  | GTrainPeripherals | GTrainDccAddr | GTrainState | GTrainPosition | GTrainSpeedStep | GTrainSpeedKmh | GTrainOnTrack => (AStr [116; 49], ANull)
  | _ => (AStr [98; 49], ANull)
  end.
Definition unknown_args (g : getter) : arg * arg :=
  match g with
  | GUniqueidByNodeaddr | GNodeaddrByUniqueid | GBoardId | GTrainId => (ARaw [9; 9; 9; 9; 9; 9; 9], ANull)
  | _ => (AStr [120], AStr [120])
  end.

Definition leaf_paths (s : shape) : list string := map fst (rec_fields s).
Definition undef_paths (s : shape) : list string :=
  map fst (filter (fun kv => match snd kv with Sc None => true | PUndef => true | _ => false end) (rec_fields s)).
Fixpoint lseqb (a b : list string) : bool :=
  match a, b with [], [] => true | x :: a', y :: b' => String.eqb x y && lseqb a' b' | _, _ => false end.
Definition res_shape (o : outcome) : shape := match o with Res s => s | Crash => Rec [("crash", PUndef)] end.
Definition is_union_getter (n : string) : bool := String.eqb n "point_state" || String.eqb n "signal_state".

Definition check_getter (f : string * (list string * (list string * (list string * list string)))) : bool :=
  let '(n, (lv, (u_null, (u_nf, u_found)))) := f in
  match getter_of_name n with
  | None => false
  | Some g =>
    let s_null := res_shape (call g ANull ANull ex_conn) in
    let s_nf := res_shape (call g (fst (unknown_args g)) (snd (unknown_args g)) ex_conn) in
    let s_found := res_shape (call g (fst (known_args g)) (snd (known_args g)) ex_conn) in
    (is_union_getter n || (lseqb (leaf_paths s_null) lv && lseqb (leaf_paths s_nf) lv && lseqb (leaf_paths s_found) lv))
    && lseqb (undef_paths s_null) u_null && lseqb (undef_paths s_nf) u_nf && lseqb (undef_paths s_found) u_found
  end.

Definition helper_array (n : string) : string :=
  if String.eqb n "bidib_get_state_accessories_board" then "points_board" else
  if String.eqb n "bidib_get_state_accessories_dcc" then "points_dcc" else
  if String.eqb n "bidib_get_state_peripherals" then "peripherals" else
  if String.eqb n "bidib_get_state_segments" then "segments" else
  if String.eqb n "bidib_get_state_reversers" then "reversers" else
  if String.eqb n "bidib_get_state_trains" then "trains" else
  if String.eqb n "bidib_get_state_boosters" then "booster" else
  if String.eqb n "bidib_get_state_track_outputs" then "track_outputs" else "?".
Definition check_helper (f : string * (list string * list string)) : bool :=
  let '(n, (lv, u)) := f in
  match arr_elems (fld (helper_array n) (snapshot ex_conn)) with
  | e :: _ => lseqb (leaf_paths e) lv && lseqb (undef_paths e) u
  | [] => false
  end.

Definition facts_check : bool :=
  forallb check_getter getter_facts && forallb check_helper helper_facts
  && (8 <=? glen helper_facts) && (30 <=? glen getter_facts)
  && match alias_suspects with [] => true | _ => false end.

Lemma facts_agree : facts_check = true.
Proof. vm_compute. reflexivity. Qed.

(* which entries disagree (for the replay file of a broken tie) *)
Definition facts_disagreements : list string :=
  map fst (filter (fun f => negb (check_getter f)) getter_facts) ++ map fst (filter (fun f => negb (check_helper f)) helper_facts)
  ++ map fst alias_suspects.
