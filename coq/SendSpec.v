(* SendSpec.v — hand-written specification of the public low-level send functions, one definition per
   function, written from the doc comments of include/lowlevel/*.h (parameters, documented ranges),
   include/definitions/bidib_messages.h (type codes and opcodes BY NAME through the generated Tables.v,
   data layout comments) and the protocol maximum of 127 for the length byte. No proofs here.

   A specification returns what the call must hand to the transmission layer: `Rejected` (nothing) or
   `Sent address type data` (exactly one message). It never returns SentIndet and knows no faults.

   Where the header documents a range it is used as documented. Where the header documents none but
   bidib_messages.h enumerates the legal values (track-output states, programming opcodes) the
   enumeration is used by name. Ranges marked (code) are documented nowhere in the repository and are
   the ones the implementation applies; they carry no independent weight and are listed in notes/C18.md.
   Arguments are the flattened C arguments in declaration order (struct parameters field by field):
   a is node_address (top, sub, subsub). *)
From Coq Require Import List ZArith NArith Bool.
From LB Require Import Tables SendLib SendFns.
Import ListNotations.
Local Open Scope Z_scope.
Local Open Scope bool_scope.

Definition T (n : N) : Z := Z.of_N n.
Definition within (lo x hi : Z) : bool := (lo <=? x) && (x <=? hi).
Definition one_of (x : Z) (l : list N) : bool := existsb (fun v => x =? T v) l.
Definition ok (c : bool) (a : addr) (ty : N) (data : list Z) : verdict := if c then Sent a (T ty) data else Rejected.

(* protocol limit: the length byte of a message is at most 127; with up to three address bytes, the
   terminating 0, sequence number and type that leaves 127 - 6 = 121 data bytes at every address depth *)
Definition max_data : Z := 121.
Definition interface_addr : addr := (0, 0, 0).

(* RailCom-plus opcodes of bidib_messages.h (RC_*; not exported to Tables.v, which only carries MSG_/BIDIB_/FEATURE_ macros) *)
Definition RC_BIND : Z := 0.
Definition RC_PING : Z := 1.
Definition RC_GET_TID : Z := 2.
Definition RC_SET_TID : Z := 3.
Definition RC_PING_ONCE_P0 : Z := 4.   (* RC_PING_ONCE | RC_P0 *)
Definition RC_PING_ONCE_P1 : Z := 5.   (* RC_PING_ONCE | RC_P1 *)
Definition RC_FIND_P0 : Z := 6.        (* RC_FIND | RC_P0 *)
Definition RC_FIND_P1 : Z := 7.        (* RC_FIND | RC_P1 *)

(* ---------------- bidib_lowlevel_accessory.h ---------------- *)
(* anum, aspect: range 0...127 *)
Definition spec_accessory_set (a : addr) (anum aspect : Z) :=
  ok ((anum <=? 127) && (aspect <=? 127)) a MSG_ACCESSORY_SET [anum; aspect].
Definition spec_accessory_get (a : addr) (anum : Z) :=
  ok (anum <=? 127) a MSG_ACCESSORY_GET [anum].
(* anum 0...127; anum_op "the identifier of the object that represents the operating mode": an object identifier, 0...127 *)
Definition spec_accessory_para_set_opmode (a : addr) (anum anum_op : Z) :=
  ok ((anum <=? 127) && (anum_op <=? 127)) a MSG_ACCESSORY_PARA_SET [anum; T BIDIB_ACCESSORY_PARA_OPMODE; anum_op].
(* startup_behaviour: an aspect 0...127, or 254 / 255 (restore last / none)  (code) *)
Definition spec_accessory_para_set_startup (a : addr) (anum startup_behaviour : Z) :=
  ok ((anum <=? 127) && ((startup_behaviour <=? 127) || (254 <=? startup_behaviour))) a MSG_ACCESSORY_PARA_SET
     [anum; T BIDIB_ACCESSORY_PARA_STARTUP; startup_behaviour].
(* data_size "the number of data bytes, max 16"; data "the data bytes, last byte must be 0xFF" (so there is a last byte) *)
Definition spec_accessory_para_set_macromap (a : addr) (anum data_size : Z) (data : list Z) :=
  ok ((anum <=? 127) && within 1 data_size 16 && (last data 0 =? 255)) a MSG_ACCESSORY_PARA_SET
     (anum :: T BIDIB_ACCESSORY_PARA_MACROMAP :: data).
Definition spec_accessory_para_set_switch_time (a : addr) (anum time : Z) :=
  ok (anum <=? 127) a MSG_ACCESSORY_PARA_SET [anum; T BIDIB_ACCESSORY_SWITCH_TIME; time].
(* para_num: one of the parameter numbers 251..255  (code; bidib_messages.h also defines BIDIB_ACCESSORY_PARA_HAS_ESTOP = 250, see notes) *)
Definition spec_accessory_para_get (a : addr) (anum para_num : Z) :=
  ok ((anum <=? 127) && (251 <=? para_num)) a MSG_ACCESSORY_PARA_GET [anum; para_num].

(* ---------------- bidib_lowlevel_booster.h ---------------- *)
(* unicast: 0 means broadcast, 1 means unicast *)
Definition spec_boost_on (a : addr) (unicast : Z) := ok (unicast <=? 1) a MSG_BOOST_ON [unicast].
Definition spec_boost_off (a : addr) (unicast : Z) := ok (unicast <=? 1) a MSG_BOOST_OFF [unicast].
Definition spec_boost_query (a : addr) := ok true a MSG_BOOST_QUERY [].

(* ---------------- bidib_lowlevel_feature.h ---------------- *)
Definition spec_feature_getall (a : addr) := ok true a MSG_FEATURE_GETALL [].
Definition spec_feature_getnext (a : addr) := ok true a MSG_FEATURE_GETNEXT [].
Definition spec_feature_get (a : addr) (feature_number : Z) := ok true a MSG_FEATURE_GET [feature_number].
Definition spec_feature_set (a : addr) (feature_number feature_value : Z) :=
  ok true a MSG_FEATURE_SET [feature_number; feature_value].

(* ---------------- bidib_lowlevel_firmware.h ---------------- *)
Definition spec_fw_update_op_enter (a : addr) (class_id class_id_ext vendor_id p1 p2 p3 p4 : Z) :=
  ok true a MSG_FW_UPDATE_OP [T BIDIB_MSG_FW_UPDATE_OP_ENTER; class_id; class_id_ext; vendor_id; p1; p2; p3; p4].
Definition spec_fw_update_op_exit (a : addr) := ok true a MSG_FW_UPDATE_OP [T BIDIB_MSG_FW_UPDATE_OP_EXIT].
(* target_range: 0 for flash, 1 for EEPROM *)
Definition spec_fw_update_op_setdest (a : addr) (target_range : Z) :=
  ok (target_range <=? 1) a MSG_FW_UPDATE_OP [T BIDIB_MSG_FW_UPDATE_OP_SETDEST; target_range].
(* "'White'-Characters (0x20, 0x09, 0x0D and 0x0a) will not be transmitted"; opcode + data must fit max_data *)
Definition nonwhite (b : Z) : bool := negb ((b =? 32) || (b =? 9) || (b =? 13) || (b =? 10)).
Definition spec_fw_update_op_data (a : addr) (data_size : Z) (data : list Z) :=
  ok (1 + data_size <=? max_data) a MSG_FW_UPDATE_OP (T BIDIB_MSG_FW_UPDATE_OP_DATA :: filter nonwhite data).
Definition spec_fw_update_op_done (a : addr) := ok true a MSG_FW_UPDATE_OP [T BIDIB_MSG_FW_UPDATE_OP_DONE].

(* ---------------- bidib_lowlevel_occupancy.h ---------------- *)
(* start, end: must be divisible by 8 *)
Definition spec_bm_get_range (a : addr) (start end_ : Z) :=
  ok ((start mod 8 =? 0) && (end_ mod 8 =? 0)) a MSG_BM_GET_RANGE [start; end_].
(* mnum divisible by 8; size "number of reported bits, range 8...128. Must be divisible by 8"; data: size/8 bytes *)
Definition spec_bm_mirror_multiple (a : addr) (mnum size : Z) (data : list Z) :=
  ok ((mnum mod 8 =? 0) && within 8 size 128 && (size mod 8 =? 0)) a MSG_BM_MIRROR_MULTIPLE (mnum :: size :: data).
(* the header repeats "Must be divisible by 8" for the single-detector mirrors; MSG_BM_MIRROR_OCC/FREE carry one
   detector number (bidib_messages.h "1:mnum"), and the library's own receiver mirrors arbitrary numbers (C19): any mnum *)
Definition spec_bm_mirror_occ (a : addr) (mnum : Z) := ok true a MSG_BM_MIRROR_OCC [mnum].
Definition spec_bm_mirror_free (a : addr) (mnum : Z) := ok true a MSG_BM_MIRROR_FREE [mnum].
(* start index, (exclusive) end index: start must not exceed end *)
Definition spec_bm_addr_get_range (a : addr) (start end_ : Z) :=
  ok (start <=? end_) a MSG_BM_ADDR_GET_RANGE [start; end_].
Definition spec_bm_get_confidence (a : addr) := ok true a MSG_BM_GET_CONFIDENCE [].
(* bidib_messages.h: 1:addr_l, 2:addr_h, 3:type, 4:location_id_l, 5:location_id_h *)
Definition spec_msg_bm_mirror_position (a : addr) (addr_l addr_h type location_low location_high : Z) :=
  ok true a MSG_BM_MIRROR_POSITION [addr_l; addr_h; type; location_low; location_high].

(* ---------------- bidib_lowlevel_portconfig.h ---------------- *)
Definition spec_lc_output (a : addr) (port0 port1 portstat : Z) := ok true a MSG_LC_OUTPUT [port0; port1; portstat].
Definition spec_lc_port_query (a : addr) (port0 port1 : Z) := ok true a MSG_LC_PORT_QUERY [port0; port1].
Definition spec_lc_port_query_all (a : addr) (select0 select1 start0 start1 end0 end1 : Z) :=
  ok true a MSG_LC_PORT_QUERY_ALL [select0; select1; start0; start1; end0; end1].
(* pairs_num "the number of key-value pairs, range 1...8"; pairs: 2 * pairs_num bytes (p_enum, p_val each) *)
Definition spec_lc_configx_set (a : addr) (port0 port1 pairs_num : Z) (pairs : list Z) :=
  ok (within 1 pairs_num 8) a MSG_LC_CONFIGX_SET (port0 :: port1 :: pairs).
Definition spec_lc_configx_get (a : addr) (port0 port1 : Z) := ok true a MSG_LC_CONFIGX_GET [port0; port1].
Definition spec_lc_configx_get_all (a : addr) (port0 port1 start0 start1 end0 end1 : Z) :=
  ok true a MSG_LC_CONFIGX_GET_ALL [port0; port1; start0; start1; end0; end1].
(* opcode: BIDIB_MACRO_OFF / _START, or one of the system opcodes 252..255 (RESTORE, SAVE, DELETE, 255)  (code) *)
Definition spec_lc_macro_handle (a : addr) (macro_index opcode : Z) :=
  ok ((opcode <=? T BIDIB_MACRO_START) || (T BIDIB_MACRO_RESTORE <=? opcode)) a MSG_LC_MACRO_HANDLE [macro_index; opcode].
Definition spec_lc_macro_set (a : addr) (d0 d1 d2 d3 d4 d5 : Z) := ok true a MSG_LC_MACRO_SET [d0; d1; d2; d3; d4; d5].
Definition spec_lc_macro_get (a : addr) (macro_index point_index : Z) := ok true a MSG_LC_MACRO_GET [macro_index; point_index].
Definition spec_lc_macro_para_set (a : addr) (d0 d1 d2 d3 d4 d5 : Z) := ok true a MSG_LC_MACRO_PARA_SET [d0; d1; d2; d3; d4; d5].
Definition spec_lc_macro_para_get (a : addr) (macro_index param_index : Z) := ok true a MSG_LC_MACRO_PARA_GET [macro_index; param_index].

(* ---------------- bidib_lowlevel_system.h ---------------- *)
Definition spec_sys_get_magic (a : addr) := ok true a MSG_SYS_GET_MAGIC [].
Definition spec_sys_get_p_version (a : addr) := ok true a MSG_SYS_GET_P_VERSION [].
(* no node_address parameter: addressed to the interface *)
Definition spec_sys_enable := ok true interface_addr MSG_SYS_ENABLE [].
Definition spec_sys_disable := ok true interface_addr MSG_SYS_DISABLE [].
Definition spec_sys_get_unique_id (a : addr) := ok true a MSG_SYS_GET_UNIQUE_ID [].
Definition spec_sys_get_sw_version (a : addr) := ok true a MSG_SYS_GET_SW_VERSION [].
Definition spec_sys_ping (a : addr) (ping_byte : Z) := ok true a MSG_SYS_PING [ping_byte].
(* identify_status: 0 for off, 1 for on *)
Definition spec_sys_identify (a : addr) (identify_status : Z) := ok (identify_status <=? 1) a MSG_SYS_IDENTIFY [identify_status].
Definition spec_sys_get_error (a : addr) := ok true a MSG_SYS_GET_ERROR [].
(* first message of the restart sequence (the rest is C20's subject) *)
Definition spec_sys_reset := ok true interface_addr MSG_SYS_RESET [].
Definition spec_nodetab_getall (a : addr) := ok true a MSG_NODETAB_GETALL [].
Definition spec_nodetab_getnext (a : addr) := ok true a MSG_NODETAB_GETNEXT [].
Definition spec_get_pkt_capacity (a : addr) := ok true a MSG_GET_PKT_CAPACITY [].
Definition spec_node_changed_ack (a : addr) (confirmed_number : Z) := ok true a MSG_NODE_CHANGED_ACK [confirmed_number].
(* tcode0 00mmmmmm minute 0…59; tcode1 100HHHHH hour 0…23; tcode2 01000www weekday 0..6; tcode3 110fffff factor 0..31 *)
Definition spec_sys_clock (a : addr) (tcode0 tcode1 tcode2 tcode3 : Z) :=
  ok (within 0 tcode0 59 && within 128 tcode1 (128 + 23) && within 64 tcode2 (64 + 6) && within 192 tcode3 (192 + 31))
     a MSG_SYS_CLOCK [tcode0; tcode1; tcode2; tcode3].

(* ---------------- bidib_lowlevel_track.h ---------------- *)
Definition spec_cs_allocate (a : addr) := ok true a MSG_CS_ALLOCATE [0].
(* state: one of the track-output states bidib_messages.h defines *)
Definition cs_states : list N :=
  [BIDIB_CS_STATE_OFF; BIDIB_CS_STATE_STOP; BIDIB_CS_STATE_SOFTSTOP; BIDIB_CS_STATE_GO; BIDIB_CS_STATE_GO_IGN_WD;
   BIDIB_CS_STATE_PROG; BIDIB_CS_STATE_PROGBUSY; BIDIB_CS_STATE_BUSY; BIDIB_CS_STATE_QUERY].
Definition spec_cs_set_state (a : addr) (state : Z) := ok (one_of state cs_states) a MSG_CS_SET_STATE [state].
(* format: BIDIB_CS_DRIVE_FORMAT_DCC14/28/128; active: six output-group bits (BIDIB_CS_DRIVE_*_BIT); function1: 3 reserved bits, FL, F4..F1 *)
Definition drive_formats : list N := [BIDIB_CS_DRIVE_FORMAT_DCC14; BIDIB_CS_DRIVE_FORMAT_DCC28; BIDIB_CS_DRIVE_FORMAT_DCC128].
Definition spec_cs_drive (a : addr) (addrl addrh addrtype format active speed f1 f2 f3 f4 : Z) :=
  ok (one_of format drive_formats && (active <=? 63) && (f1 <=? 31)) a MSG_CS_DRIVE [addrl; addrh; format; active; speed; f1; f2; f3; f4].
Definition spec_cs_accessory (a : addr) (addrl addrh addrtype data time : Z) :=
  ok true a MSG_CS_ACCESSORY [addrl; addrh; data; time].
(* opcode: BIDIB_CS_POM_* 0..3, the xPOM opcodes 0x80..0x83, 0x87, 0x8B, 0x8F of bidib_messages.h, and 0x43 / 0x47 (code) *)
Definition spec_cs_pom (a : addr) (addrl addrh addrtype addrxl addrxh mid opcode cvl cvh cvx d0 d1 d2 d3 : Z) :=
  ok (one_of opcode [BIDIB_CS_POM_RD_BLOCK; BIDIB_CS_POM_RD_BYTE; BIDIB_CS_POM_WR_BIT; BIDIB_CS_POM_WR_BYTE;
                     67; 71; 128; 129; 130; 131; 135; 139; 143]%N)
     a MSG_CS_POM [addrl; addrh; addrxl; addrxh; mid; opcode; cvl; cvh; cvx; d0; d1; d2; d3].
(* data: the binary state, 0 or 1 *)
Definition spec_cs_bin_state (a : addr) (addrl addrh addrtype bin_numl bin_numh data : Z) :=
  ok (data <=? 1) a MSG_CS_BIN_STATE [addrl; addrh; bin_numl; bin_numh; data].
Definition prog_opcodes : list N := [BIDIB_CS_PROG_BREAK; BIDIB_CS_PROG_QUERY; BIDIB_CS_PROG_RD_BYTE; BIDIB_CS_PROG_RDWR_BIT; BIDIB_CS_PROG_WR_BYTE].
Definition spec_cs_prog (a : addr) (opcode cvl cvh data : Z) := ok (one_of opcode prog_opcodes) a MSG_CS_PROG [opcode; cvl; cvh; data].
Definition spec_cs_rcplus_get_id (a : addr) := ok true a MSG_CS_RCPLUS [RC_GET_TID].
Definition spec_cs_rcplus_set_id (a : addr) (m0 m1 m2 m3 mid sid : Z) := ok true a MSG_CS_RCPLUS [RC_SET_TID; m0; m1; m2; m3; mid; sid].
Definition spec_cs_rcplus_ping (a : addr) (interval : Z) := ok true a MSG_CS_RCPLUS [RC_PING; interval].
Definition spec_cs_rcplus_ping_once_p0 (a : addr) := ok true a MSG_CS_RCPLUS [RC_PING_ONCE_P0].
Definition spec_cs_rcplus_ping_once_p1 (a : addr) := ok true a MSG_CS_RCPLUS [RC_PING_ONCE_P1].
Definition spec_cs_rcplus_bind (a : addr) (m0 m1 m2 m3 mid new_addrl new_addrh : Z) :=
  ok true a MSG_CS_RCPLUS [RC_BIND; m0; m1; m2; m3; mid; new_addrl; new_addrh].
Definition spec_cs_rcplus_find_p0 (a : addr) (m0 m1 m2 m3 mid : Z) := ok true a MSG_CS_RCPLUS [RC_FIND_P0; m0; m1; m2; m3; mid].
Definition spec_cs_rcplus_find_p1 (a : addr) (m0 m1 m2 m3 mid : Z) := ok true a MSG_CS_RCPLUS [RC_FIND_P1; m0; m1; m2; m3; mid].

(* ---------------- bidib_lowlevel_userconfig.h ---------------- *)
Definition spec_vendor_enable (a : addr) (class_id class_id_ext vendor_id p1 p2 p3 p4 : Z) :=
  ok true a MSG_VENDOR_ENABLE [class_id; class_id_ext; vendor_id; p1; p2; p3; p4].
Definition spec_vendor_disable (a : addr) := ok true a MSG_VENDOR_DISABLE [].
(* V_NAME, V_VALUE: each a length byte followed by that many bytes; must fit max_data *)
Definition spec_vendor_set (a : addr) (name_length value_length : Z) (name value : list Z) :=
  ok (2 + name_length + value_length <=? max_data) a MSG_VENDOR_SET (name_length :: name ++ value_length :: value).
Definition spec_vendor_get (a : addr) (name_length : Z) (name : list Z) :=
  ok (1 + name_length <=? max_data) a MSG_VENDOR_GET (name_length :: name).
(* 1:Nspace, 2:ID, 3:Strsize, 4...n: string *)
Definition spec_string_set (a : addr) (namespace string_id string_size : Z) (string : list Z) :=
  ok (3 + string_size <=? max_data) a MSG_STRING_SET (namespace :: string_id :: string_size :: string).
Definition spec_string_get (a : addr) (namespace string_id : Z) := ok true a MSG_STRING_GET [namespace; string_id].

(* ---------------- uniform view ---------------- *)
Definition A (sc : list Z) : addr := (argz sc 0, argz sc 1, argz sc 2).

Definition spec_call (f : fn) (sc : list Z) (bufs : list (list Z)) : verdict :=
  match f with
  | F_accessory_set => spec_accessory_set (A sc) (argz sc 3) (argz sc 4)
  | F_accessory_get => spec_accessory_get (A sc) (argz sc 3)
  | F_accessory_para_set_opmode => spec_accessory_para_set_opmode (A sc) (argz sc 3) (argz sc 4)
  | F_accessory_para_set_startup => spec_accessory_para_set_startup (A sc) (argz sc 3) (argz sc 4)
  | F_accessory_para_set_macromap => spec_accessory_para_set_macromap (A sc) (argz sc 3) (argz sc 4) (argb bufs 0)
  | F_accessory_para_set_switch_time => spec_accessory_para_set_switch_time (A sc) (argz sc 3) (argz sc 4)
  | F_accessory_para_get => spec_accessory_para_get (A sc) (argz sc 3) (argz sc 4)
  | F_boost_on => spec_boost_on (A sc) (argz sc 3)
  | F_boost_off => spec_boost_off (A sc) (argz sc 3)
  | F_boost_query => spec_boost_query (A sc)
  | F_feature_getall => spec_feature_getall (A sc)
  | F_feature_getnext => spec_feature_getnext (A sc)
  | F_feature_get => spec_feature_get (A sc) (argz sc 3)
  | F_feature_set => spec_feature_set (A sc) (argz sc 3) (argz sc 4)
  | F_fw_update_op_enter => spec_fw_update_op_enter (A sc) (argz sc 3) (argz sc 4) (argz sc 5) (argz sc 6) (argz sc 7) (argz sc 8) (argz sc 9)
  | F_fw_update_op_exit => spec_fw_update_op_exit (A sc)
  | F_fw_update_op_setdest => spec_fw_update_op_setdest (A sc) (argz sc 3)
  | F_fw_update_op_data => spec_fw_update_op_data (A sc) (argz sc 3) (argb bufs 0)
  | F_fw_update_op_done => spec_fw_update_op_done (A sc)
  | F_bm_get_range => spec_bm_get_range (A sc) (argz sc 3) (argz sc 4)
  | F_bm_mirror_multiple => spec_bm_mirror_multiple (A sc) (argz sc 3) (argz sc 4) (argb bufs 0)
  | F_bm_mirror_occ => spec_bm_mirror_occ (A sc) (argz sc 3)
  | F_bm_mirror_free => spec_bm_mirror_free (A sc) (argz sc 3)
  | F_bm_addr_get_range => spec_bm_addr_get_range (A sc) (argz sc 3) (argz sc 4)
  | F_bm_get_confidence => spec_bm_get_confidence (A sc)
  | F_msg_bm_mirror_position => spec_msg_bm_mirror_position (A sc) (argz sc 3) (argz sc 4) (argz sc 5) (argz sc 6) (argz sc 7)
  | F_lc_output => spec_lc_output (A sc) (argz sc 3) (argz sc 4) (argz sc 5)
  | F_lc_port_query => spec_lc_port_query (A sc) (argz sc 3) (argz sc 4)
  | F_lc_port_query_all => spec_lc_port_query_all (A sc) (argz sc 3) (argz sc 4) (argz sc 5) (argz sc 6) (argz sc 7) (argz sc 8)
  | F_lc_configx_set => spec_lc_configx_set (A sc) (argz sc 3) (argz sc 4) (argz sc 5) (argb bufs 0)
  | F_lc_configx_get => spec_lc_configx_get (A sc) (argz sc 3) (argz sc 4)
  | F_lc_configx_get_all => spec_lc_configx_get_all (A sc) (argz sc 3) (argz sc 4) (argz sc 5) (argz sc 6) (argz sc 7) (argz sc 8)
  | F_lc_macro_handle => spec_lc_macro_handle (A sc) (argz sc 3) (argz sc 4)
  | F_lc_macro_set => spec_lc_macro_set (A sc) (argz sc 3) (argz sc 4) (argz sc 5) (argz sc 6) (argz sc 7) (argz sc 8)
  | F_lc_macro_get => spec_lc_macro_get (A sc) (argz sc 3) (argz sc 4)
  | F_lc_macro_para_set => spec_lc_macro_para_set (A sc) (argz sc 3) (argz sc 4) (argz sc 5) (argz sc 6) (argz sc 7) (argz sc 8)
  | F_lc_macro_para_get => spec_lc_macro_para_get (A sc) (argz sc 3) (argz sc 4)
  | F_sys_get_magic => spec_sys_get_magic (A sc)
  | F_sys_get_p_version => spec_sys_get_p_version (A sc)
  | F_sys_enable => spec_sys_enable 
  | F_sys_disable => spec_sys_disable 
  | F_sys_get_unique_id => spec_sys_get_unique_id (A sc)
  | F_sys_get_sw_version => spec_sys_get_sw_version (A sc)
  | F_sys_ping => spec_sys_ping (A sc) (argz sc 3)
  | F_sys_identify => spec_sys_identify (A sc) (argz sc 3)
  | F_sys_get_error => spec_sys_get_error (A sc)
  | F_sys_reset => spec_sys_reset 
  | F_nodetab_getall => spec_nodetab_getall (A sc)
  | F_nodetab_getnext => spec_nodetab_getnext (A sc)
  | F_get_pkt_capacity => spec_get_pkt_capacity (A sc)
  | F_node_changed_ack => spec_node_changed_ack (A sc) (argz sc 3)
  | F_sys_clock => spec_sys_clock (A sc) (argz sc 3) (argz sc 4) (argz sc 5) (argz sc 6)
  | F_cs_allocate => spec_cs_allocate (A sc)
  | F_cs_set_state => spec_cs_set_state (A sc) (argz sc 3)
  | F_cs_drive => spec_cs_drive (A sc) (argz sc 3) (argz sc 4) (argz sc 5) (argz sc 6) (argz sc 7) (argz sc 8) (argz sc 9) (argz sc 10) (argz sc 11) (argz sc 12)
  | F_cs_accessory => spec_cs_accessory (A sc) (argz sc 3) (argz sc 4) (argz sc 5) (argz sc 6) (argz sc 7)
  | F_cs_pom => spec_cs_pom (A sc) (argz sc 3) (argz sc 4) (argz sc 5) (argz sc 6) (argz sc 7) (argz sc 8) (argz sc 9) (argz sc 10) (argz sc 11) (argz sc 12) (argz sc 13) (argz sc 14) (argz sc 15) (argz sc 16)
  | F_cs_bin_state => spec_cs_bin_state (A sc) (argz sc 3) (argz sc 4) (argz sc 5) (argz sc 6) (argz sc 7) (argz sc 8)
  | F_cs_prog => spec_cs_prog (A sc) (argz sc 3) (argz sc 4) (argz sc 5) (argz sc 6)
  | F_cs_rcplus_get_id => spec_cs_rcplus_get_id (A sc)
  | F_cs_rcplus_set_id => spec_cs_rcplus_set_id (A sc) (argz sc 3) (argz sc 4) (argz sc 5) (argz sc 6) (argz sc 7) (argz sc 8)
  | F_cs_rcplus_ping => spec_cs_rcplus_ping (A sc) (argz sc 3)
  | F_cs_rcplus_ping_once_p0 => spec_cs_rcplus_ping_once_p0 (A sc)
  | F_cs_rcplus_ping_once_p1 => spec_cs_rcplus_ping_once_p1 (A sc)
  | F_cs_rcplus_bind => spec_cs_rcplus_bind (A sc) (argz sc 3) (argz sc 4) (argz sc 5) (argz sc 6) (argz sc 7) (argz sc 8) (argz sc 9)
  | F_cs_rcplus_find_p0 => spec_cs_rcplus_find_p0 (A sc) (argz sc 3) (argz sc 4) (argz sc 5) (argz sc 6) (argz sc 7)
  | F_cs_rcplus_find_p1 => spec_cs_rcplus_find_p1 (A sc) (argz sc 3) (argz sc 4) (argz sc 5) (argz sc 6) (argz sc 7)
  | F_vendor_enable => spec_vendor_enable (A sc) (argz sc 3) (argz sc 4) (argz sc 5) (argz sc 6) (argz sc 7) (argz sc 8) (argz sc 9)
  | F_vendor_disable => spec_vendor_disable (A sc)
  | F_vendor_set => spec_vendor_set (A sc) (argz sc 3) (argz sc 4) (argb bufs 0) (argb bufs 1)
  | F_vendor_get => spec_vendor_get (A sc) (argz sc 3) (argb bufs 0)
  | F_string_set => spec_string_set (A sc) (argz sc 3) (argz sc 4) (argz sc 5) (argb bufs 0)
  | F_string_get => spec_string_get (A sc) (argz sc 3) (argz sc 4)
  end.

(* the caller's side of the contract: each pointer argument points to exactly as many bytes as its size
   parameter announces (documented per function above) *)
Definition buf_lengths (f : fn) (sc : list Z) : list Z :=
  match f with
  | F_accessory_para_set_macromap => [argz sc 4]
  | F_fw_update_op_data => [argz sc 3]
  | F_bm_mirror_multiple => [argz sc 4 / 8]
  | F_lc_configx_set => [argz sc 5 * 2]
  | F_vendor_set => [argz sc 3; argz sc 4]
  | F_vendor_get => [argz sc 3]
  | F_string_set => [argz sc 5]
  | _ => []
  end.

Definition wf_args (f : fn) (sc : list Z) (bufs : list (list Z)) : Prop :=
  length sc = fst (fn_sig f) /\ Forall byte sc /\ map zlen bufs = buf_lengths f sc /\ Forall (Forall byte) bufs.
