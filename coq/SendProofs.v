(* SendProofs.v — lemmas about the generated send functions (SendFns.v) against the hand-written
   specification (SendSpec.v). The property statements are in Properties_C18.v. *)
From Coq Require Import List ZArith NArith Bool Lia.
From LB Require Import Tables Framing FramingProofs SendLib SendFns SendSpec.
Import ListNotations.
Local Open Scope Z_scope.
Local Open Scope bool_scope.
Ltac Zify.zify_post_hook ::= Z.div_mod_to_equations.

(* ------------------------------------------------------------------ tactics *)
Ltac b2p := rewrite ?orb_true_iff, ?orb_false_iff, ?andb_true_iff, ?andb_false_iff, ?negb_true_iff, ?negb_false_iff,
    ?Z.ltb_lt, ?Z.ltb_ge, ?Z.leb_le, ?Z.leb_gt, ?Z.eqb_eq, ?Z.eqb_neq in *.
(* one case split per range test (outermost first), then arithmetic *)
Ltac brk :=
  repeat match goal with
  | |- context [if ?c then _ else _] => destruct c eqn:?; cbn
  end; try reflexivity; b2p; try lia.
Ltac head t := match t with ?f _ => head f | _ => t end.
Ltac unfold_heads := match goal with |- ?g = Ok ?s => let hg := head g in let hs := head s in unfold hg, hs end.
Ltac destr_sc sc H := repeat (destruct sc as [|? sc]; try discriminate H).
(* the generic proof for a constructor with a fixed data[] initialiser *)
Ltac bytes_of Hb :=
  repeat match type of Hb with
  | Forall byte (_ :: _) => let H1 := fresh "Hbyte" in
      pose proof (Forall_inv Hb) as H1; apply Forall_inv_tail in Hb; unfold byte in H1
  end.
Ltac fixed sc H Hb :=
  cbn [fn_sig fst] in H; destr_sc sc H; bytes_of Hb;
  cbn [gen_call spec_call argz argb nth A]; unfold_heads;
  unfold ok, within, one_of, send_without_data; cbn; brk.

(* ------------------------------------------------------------------ lists, arrays, buffers *)
Lemma zlen_nil : forall A, zlen (@nil A) = 0. Proof. reflexivity. Qed.
Lemma zlen_cons : forall A (x : A) l, zlen (x :: l) = 1 + zlen l.
Proof. intros. unfold zlen. cbn [length]. lia. Qed.
Lemma zlen_app : forall A (l1 l2 : list A), zlen (l1 ++ l2) = zlen l1 + zlen l2.
Proof. intros. unfold zlen. rewrite app_length. lia. Qed.
Lemma zlen_repeat : forall A (x : A) n, zlen (repeat x n) = Z.of_nat n.
Proof. intros. unfold zlen. now rewrite repeat_length. Qed.
Lemma zlen_map : forall A B (f : A -> B) l, zlen (map f l) = zlen l.
Proof. intros. unfold zlen. now rewrite map_length. Qed.
Lemma zlen_nonneg : forall A (l : list A), 0 <= zlen l. Proof. intros. unfold zlen. lia. Qed.
Lemma zlen_firstn : forall A (l : list A) n, (n <= length l)%nat -> zlen (firstn n l) = Z.of_nat n.
Proof. intros. unfold zlen. rewrite firstn_length. lia. Qed.

Lemma set_nth_app : forall A (pre : list A) c post v,
  set_nth (pre ++ c :: post) (length pre) v = Some (pre ++ v :: post).
Proof. induction pre; intros; cbn; [reflexivity|]. now rewrite IHpre. Qed.

Lemma vla_set_at : forall (pre : vla) c post i v, i = zlen pre ->
  vla_set (pre ++ c :: post) i v = Ok (pre ++ Some v :: post).
Proof.
  intros. subst. unfold vla_set, zlen.
  destruct (Z.ltb_spec (Z.of_nat (length pre)) 0); [lia|].
  rewrite Nat2Z.id, set_nth_app. reflexivity.
Qed.

Lemma vla_set_oob : forall (a : vla) i v, zlen a <= i -> vla_set a i v = Err (VlaWrite i).
Proof.
  intros. unfold vla_set. pose proof (zlen_nonneg _ a). destruct (Z.ltb_spec i 0); [lia|].
  assert (E : forall (l : vla) n, (length l <= n)%nat -> set_nth l n (Some v) = None).
  { induction l; intros; cbn; [reflexivity|]. destruct n; cbn in *; [lia|]. rewrite IHl by lia. reflexivity. }
  rewrite E; [reflexivity|]. unfold zlen in *. lia.
Qed.

Lemma vla_new_pos : forall n, 0 < n -> vla_new n = Ok (repeat None (Z.to_nat n)).
Proof. intros. unfold vla_new. destruct (Z.leb_spec n 0); [lia|reflexivity]. Qed.

Lemma buf_get_ok : forall k b i, 0 <= i < zlen b -> buf_get k b i = Ok (nth (Z.to_nat i) b 0).
Proof.
  intros. unfold buf_get. destruct (Z.ltb_spec i 0); [lia|].
  destruct (nth_error b (Z.to_nat i)) eqn:E.
  - now rewrite (nth_error_nth _ _ _ E).
  - apply nth_error_None in E. unfold zlen in *. lia.
Qed.

Lemma buf_get_neg : forall k b i, i < 0 -> buf_get k b i = Err (BufRead k i).
Proof. intros. unfold buf_get. destruct (Z.ltb_spec i 0); [reflexivity|lia]. Qed.

Lemma skipn_nth : forall A (l : list A) j d, (j < length l)%nat -> skipn j l = nth j l d :: skipn (S j) l.
Proof. induction l; intros; cbn in *; [lia|]. destruct j; [reflexivity|]. apply IHl. lia. Qed.

Lemma all_some_map : forall l, all_some (map Some l) = Some l.
Proof. induction l; cbn; [reflexivity|]. now rewrite IHl. Qed.

Lemma all_some_none : forall l r, all_some (map Some l ++ None :: r) = None.
Proof. induction l; intros; cbn; [reflexivity|]. now rewrite IHl. Qed.

Lemma last_nth : forall (l : list Z) d, l <> [] -> last l d = nth (length l - 1) l d.
Proof.
  induction l; intros; [congruence|]. destruct l; [reflexivity|].
  change (last (a :: z :: l) d) with (last (z :: l) d). rewrite IHl by congruence.
  cbn [length]. replace (S (S (length l)) - 1)%nat with (S (length l)) by lia.
  replace (S (length l) - 1)%nat with (length l) by lia. reflexivity.
Qed.

(* ------------------------------------------------------------------ the copy loop *)
Lemma for_from_copy : forall k (src : list Z) off (body : Z -> vla -> res vla) n j (pre mid post : vla),
  (forall i a, Z.of_nat j <= i < Z.of_nat (j + n) -> body i a = (rd <- buf_get k src i ;; vla_set a (off + i) rd)) ->
  zlen pre = off + Z.of_nat j -> length mid = n -> (j + n <= length src)%nat ->
  for_from n (Z.of_nat j) body (pre ++ mid ++ post) = Ok (pre ++ map Some (firstn n (skipn j src)) ++ post).
Proof.
  induction n; intros j pre mid post Hb Hp Hm Hs.
  - destruct mid; [|discriminate]. reflexivity.
  - destruct mid as [|m mid]; [discriminate|]. cbn [for_from].
    rewrite Hb by lia. rewrite buf_get_ok by (unfold zlen; lia). cbn [bind].
    rewrite Nat2Z.id. cbn [app]. rewrite vla_set_at by lia.
    replace (Z.of_nat j + 1) with (Z.of_nat (S j)) by lia.
    replace (pre ++ Some (nth j src 0) :: mid ++ post) with ((pre ++ [Some (nth j src 0)]) ++ mid ++ post)
      by (rewrite <- app_assoc; reflexivity).
    rewrite IHn.
    + rewrite (skipn_nth _ src j 0) by lia. cbn [firstn map]. rewrite <- app_assoc. reflexivity.
    + intros. apply Hb. lia.
    + rewrite zlen_app, zlen_cons, zlen_nil. lia.
    + cbn in Hm. lia.
    + lia.
Qed.

Lemma for_loop_copy : forall k (src : list Z) off (body : Z -> vla -> res vla) N (pre mid post : vla),
  (forall i a, 0 <= i < N -> body i a = (rd <- buf_get k src i ;; vla_set a (off + i) rd)) ->
  0 <= N -> zlen pre = off -> zlen mid = N -> N <= zlen src ->
  for_loop N body (pre ++ mid ++ post) = Ok (pre ++ map Some (firstn (Z.to_nat N) src) ++ post).
Proof.
  intros. unfold for_loop. change 0 with (Z.of_nat 0).
  rewrite (for_from_copy k src off); try reflexivity; unfold zlen in *; try lia.
  intros. apply H. lia.
Qed.

(* the shape in which the translator emits a copy-loop body *)
Ltac copy_body :=
  let i := fresh "i" in let a := fresh "a" in let Hi := fresh "Hi" in
  intros i a Hi;
  match goal with |- context [vla_set a ?e _] =>
    match goal with |- _ = (rd <- _ ;; vla_set a ?e' rd) => replace e with e' by lia end end;
  match goal with |- context [buf_get ?k ?s i] => destruct (buf_get k s i); cbn [bind]; [|reflexivity] end;
  match goal with |- context [vla_set a ?e ?v] => destruct (vla_set a e v); reflexivity end.

(* ------------------------------------------------------------------ the final call *)
Lemma send_prefix : forall a ty (l : list Z) rest len, len = zlen l ->
  send_with_data a ty len (map Some l ++ rest) = Ok (Sent a ty l).
Proof.
  intros. subst. unfold send_with_data. rewrite zlen_app, zlen_map.
  pose proof (zlen_nonneg _ rest). destruct (Z.ltb_spec (zlen l + zlen rest) (zlen l)); [lia|].
  unfold zlen. rewrite Nat2Z.id.
  replace (length l) with (length (map Some l) + 0)%nat by (rewrite map_length; lia).
  rewrite firstn_app_2. cbn [firstn]. rewrite app_nil_r, all_some_map. reflexivity.
Qed.

Lemma send_full : forall a ty (l : list Z) len, len = zlen l ->
  send_with_data a ty len (map Some l) = Ok (Sent a ty l).
Proof. intros. rewrite <- (app_nil_r (map Some l)). now apply send_prefix. Qed.

Lemma send_indet : forall a ty (l : list Z) m len, len = zlen l + 1 + Z.of_nat m ->
  send_with_data a ty len (map Some l ++ None :: repeat None m) =
  Ok (SentIndet a ty (map Some l ++ None :: repeat None m)).
Proof.
  intros. subst. unfold send_with_data. rewrite zlen_app, zlen_map, zlen_cons, zlen_repeat.
  destruct (Z.ltb_spec (zlen l + (1 + Z.of_nat m)) (zlen l + 1 + Z.of_nat m)); [lia|].
  rewrite firstn_all2.
  - now rewrite all_some_none.
  - rewrite app_length, map_length. cbn [length]. rewrite repeat_length. unfold zlen. lia.
Qed.

(* ------------------------------------------------------------------ the variable-length constructors *)
Lemma repeat_split : forall A (x : A) (n : Z) (k : nat), Z.of_nat k <= n ->
  repeat x (Z.to_nat n) = repeat x k ++ repeat x (Z.to_nat (n - Z.of_nat k)).
Proof. intros. rewrite <- repeat_app. f_equal. lia. Qed.

Lemma firstn_zlen : forall A (l : list A) n, n = zlen l -> firstn (Z.to_nat n) l = l.
Proof. intros. subst. unfold zlen. rewrite Nat2Z.id. apply firstn_all. Qed.

Lemma vla_set_0 : forall c (r : vla) v, vla_set (c :: r) 0 v = Ok (Some v :: r).
Proof. reflexivity. Qed.
Lemma vla_set_1 : forall c0 c (r : vla) v, vla_set (c0 :: c :: r) 1 v = Ok (c0 :: Some v :: r).
Proof. reflexivity. Qed.
Lemma vla_set_2 : forall c0 c1 c (r : vla) v, vla_set (c0 :: c1 :: c :: r) 2 v = Ok (c0 :: c1 :: Some v :: r).
Proof. reflexivity. Qed.

(* rewrite the array under a copy loop into  pre ++ mid ++ []  and apply for_loop_copy *)
Ltac copy_loop k src off pre midlen :=
  match goal with |- context [for_loop ?N ?body ?arr] =>
    replace arr with (pre ++ repeat None (Z.to_nat midlen) ++ @nil (option Z));
    [ rewrite (for_loop_copy k src off body N pre (repeat None (Z.to_nat midlen)) []);
      [ cbn [bind] | copy_body | try lia | try reflexivity | try (rewrite zlen_repeat; lia) | try lia ]
    | try (rewrite app_nil_r; reflexivity) ]
  end.

(* The proofs below do not mention the syntactic form of the range tests, of the length arithmetic or of the
   loop index expressions of the generated code: tests are split as whole boolean conditions and compared with the
   specification's by lia, `e mod 256` is removed by Z.mod_small for whatever e, the array is allocated and split for
   whatever size expression. A behaviour-preserving rewrite inside the translated subset keeps them valid. *)
Ltac open_checks :=
  repeat match goal with
  | |- (if ?c then Ok Rejected else _) = _ => destruct c eqn:?
  end;
  try match goal with |- _ = Ok (if ?c then _ else _) => destruct c eqn:? end;
  try reflexivity; try (exfalso; b2p; lia); b2p.
Ltac no_wrap := repeat match goal with |- context [?e mod 256] => rewrite (Z.mod_small e 256) by lia end.
(* vla_new e ;; ... : allocate, and expose the first k cells *)
Ltac alloc k rest :=
  match goal with |- context [vla_new ?e] =>
    rewrite (vla_new_pos e) by lia; cbn [bind]; rewrite (repeat_split _ None e k) by lia; cbn [repeat app];
    match goal with |- context [repeat None (Z.to_nat ?e')] => replace e' with rest by lia end
  end.

Lemma eq_vendor_get : forall t s ss nl name, byte nl -> zlen name = nl ->
  gen_bidib_send_vendor_get t s ss nl name = Ok (spec_vendor_get (t, s, ss) nl name).
Proof.
  unfold byte. intros t s ss nl name Hb Hl.
  unfold gen_bidib_send_vendor_get, spec_vendor_get, ok, max_data.
  open_checks. no_wrap. alloc 1%nat nl.
  rewrite vla_set_0. cbn [bind].
  copy_loop 0%nat name 1 [Some nl] nl.
  rewrite firstn_zlen by lia. rewrite app_nil_r.
  change ([Some nl] ++ map Some name) with (map Some (nl :: name)).
  rewrite send_full by (rewrite zlen_cons; lia). reflexivity.
Qed.

Lemma eq_string_set : forall t s ss ns id sz str, byte sz -> zlen str = sz ->
  gen_bidib_send_string_set t s ss ns id sz str = Ok (spec_string_set (t, s, ss) ns id sz str).
Proof.
  unfold byte. intros t s ss ns id sz str Hb Hl.
  unfold gen_bidib_send_string_set, spec_string_set, ok, max_data.
  open_checks. no_wrap. alloc 3%nat sz.
  rewrite vla_set_0. cbn [bind]. rewrite vla_set_1. cbn [bind]. rewrite vla_set_2. cbn [bind].
  copy_loop 0%nat str 3 [Some ns; Some id; Some sz] sz.
  rewrite firstn_zlen by lia. rewrite app_nil_r.
  change ([Some ns; Some id; Some sz] ++ map Some str) with (map Some (ns :: id :: sz :: str)).
  rewrite send_full by (rewrite !zlen_cons; lia). reflexivity.
Qed.

Lemma eq_bm_mirror_multiple : forall t s ss mnum size data, byte size -> zlen data = size / 8 ->
  gen_bidib_send_bm_mirror_multiple t s ss mnum size data = Ok (spec_bm_mirror_multiple (t, s, ss) mnum size data).
Proof.
  unfold byte. intros t s ss mnum size data Hb Hl.
  unfold gen_bidib_send_bm_mirror_multiple, spec_bm_mirror_multiple, ok, within.
  open_checks. set (q := size / 8) in *. assert (1 <= q <= 16) by (subst q; lia).
  no_wrap. alloc 2%nat q.
  rewrite vla_set_0. cbn [bind]. rewrite vla_set_1. cbn [bind].
  copy_loop 0%nat data 2 [Some mnum; Some size] q.
  rewrite firstn_zlen by lia. rewrite app_nil_r.
  change ([Some mnum; Some size] ++ map Some data) with (map Some (mnum :: size :: data)).
  rewrite send_full by (rewrite !zlen_cons; lia). reflexivity.
Qed.

Lemma eq_vendor_set : forall t s ss nl vl name value, byte nl -> byte vl -> zlen name = nl -> zlen value = vl ->
  gen_bidib_send_vendor_set t s ss nl vl name value = Ok (spec_vendor_set (t, s, ss) nl vl name value).
Proof.
  unfold byte. intros t s ss nl vl name value Hb1 Hb2 Hl1 Hl2.
  unfold gen_bidib_send_vendor_set, spec_vendor_set, ok, max_data.
  open_checks. no_wrap. alloc 1%nat (nl + vl + 1).
  rewrite vla_set_0. cbn [bind].
  (* first copy: name behind its length byte; the rest of the array (1 + vl cells) is post *)
  match goal with |- context [for_loop nl ?body ?arr] =>
    replace arr with ([Some nl] ++ repeat None (Z.to_nat nl) ++ repeat None (Z.to_nat (1 + vl)))
      by (cbn [app]; f_equal; rewrite <- repeat_app; f_equal; lia);
    rewrite (for_loop_copy 0%nat name 1 body nl [Some nl] (repeat None (Z.to_nat nl)) (repeat None (Z.to_nat (1 + vl))));
      [ cbn [bind] | copy_body | lia | reflexivity | rewrite zlen_repeat; lia | lia ]
  end.
  rewrite firstn_zlen by lia.
  rewrite (repeat_split _ None (1 + vl) 1) by lia. cbn [repeat].
  replace (1 + vl - Z.of_nat 1) with vl by lia.
  replace ([Some nl] ++ map Some name ++ [None] ++ repeat None (Z.to_nat vl))
    with (map Some (nl :: name) ++ None :: repeat None (Z.to_nat vl)) by (cbn [map app]; reflexivity).
  rewrite vla_set_at by (rewrite zlen_map, zlen_cons; lia). cbn [bind].
  match goal with |- context [for_loop vl ?body ?arr] =>
    replace arr with ((map Some (nl :: name) ++ [Some vl]) ++ repeat None (Z.to_nat vl) ++ @nil (option Z))
      by (rewrite <- app_assoc, app_nil_r; reflexivity);
    rewrite (for_loop_copy 1%nat value (nl + 2) body vl (map Some (nl :: name) ++ [Some vl]) (repeat None (Z.to_nat vl)) []);
      [ cbn [bind] | copy_body | lia | rewrite zlen_app, zlen_map, !zlen_cons, zlen_nil; lia | rewrite zlen_repeat; lia | lia ]
  end.
  rewrite firstn_zlen by lia. rewrite app_nil_r.
  replace ((map Some (nl :: name) ++ [Some vl]) ++ map Some value) with (map Some (nl :: name ++ vl :: value))
    by (cbn [map]; rewrite map_app; cbn [map app]; rewrite <- app_assoc; reflexivity).
  rewrite send_full; [reflexivity|]. rewrite zlen_cons, zlen_app, zlen_cons. lia.
Qed.

(* ---- bidib_send_accessory_para_set_macromap: data[data_size - 1] is read only when data_size > 0 ---- *)
Lemma eq_macromap : forall t s ss anum size data, byte size -> zlen data = size ->
  gen_bidib_send_accessory_para_set_macromap t s ss anum size data =
  Ok (spec_accessory_para_set_macromap (t, s, ss) anum size data).
Proof.
  unfold byte. intros t s ss anum size data Hb Hl.
  unfold gen_bidib_send_accessory_para_set_macromap, spec_accessory_para_set_macromap, ok, within.
  (* the checks in front of the read of the last byte *)
  repeat match goal with |- (if ?c then Ok Rejected else _) = _ => destruct c eqn:? end.
  all: try (match goal with |- Ok Rejected = Ok (if ?c then _ else _) => destruct c eqn:? end; [exfalso; b2p; lia|reflexivity]).
  b2p. assert (1 <= size) by lia.
  rewrite buf_get_ok by lia. cbn [bind].
  assert (Hne : data <> []) by (intro; subst data; cbn in *; lia).
  rewrite (last_nth data 0 Hne).
  match goal with |- context [nth (Z.to_nat ?e) data 0] => replace (Z.to_nat e) with (length data - 1)%nat by (unfold zlen in *; lia) end.
  set (lastb := nth (length data - 1) data 0) in *.
  repeat match goal with |- (if ?c then Ok Rejected else _) = _ => destruct c eqn:? end.
  all: match goal with |- _ = Ok (if ?c then _ else _) => destruct c eqn:? end; try reflexivity; try (exfalso; b2p; lia).
  no_wrap. alloc 2%nat size.
  rewrite vla_set_0. cbn [bind]. rewrite vla_set_1. cbn [bind].
  copy_loop 0%nat data 2 [Some anum; Some 253] size.
  rewrite firstn_zlen by lia. rewrite app_nil_r.
  change ([Some anum; Some 253] ++ map Some data) with (map Some (anum :: 253 :: data)).
  rewrite send_full by (rewrite !zlen_cons; lia). reflexivity.
Qed.

(* ---- bidib_send_lc_configx_set ---- *)
Lemma eq_configx_set : forall t s ss p0 p1 pn pairs, byte pn -> zlen pairs = pn * 2 ->
  gen_bidib_send_lc_configx_set t s ss p0 p1 pn pairs = Ok (spec_lc_configx_set (t, s, ss) p0 p1 pn pairs).
Proof.
  unfold byte. intros t s ss p0 p1 pn pairs Hb Hl.
  unfold gen_bidib_send_lc_configx_set, spec_lc_configx_set, ok, within.
  open_checks. no_wrap. alloc 2%nat (pn * 2).
  rewrite vla_set_0. cbn [bind]. rewrite vla_set_1. cbn [bind].
  copy_loop 0%nat pairs 2 [Some p0; Some p1] (pn * 2).
  rewrite firstn_zlen by lia. rewrite app_nil_r.
  change ([Some p0; Some p1] ++ map Some pairs) with (map Some (p0 :: p1 :: pairs)).
  rewrite send_full by (rewrite !zlen_cons; lia). reflexivity.
Qed.

(* ---- bidib_send_fw_update_op_data: the filter loop ---- *)
Lemma fw_from : forall (data : list Z) (body : Z -> vla * Z -> res (vla * Z)),
  (forall i arr idx, 0 <= i < zlen data ->
     body i (arr, idx) = (rd <- buf_get 0 data i ;;
                          if nonwhite rd then (arr' <- vla_set arr idx rd ;; Ok (arr', (idx + 1) mod 256)) else Ok (arr, idx))) ->
  forall n j done rest, (j + n <= length data)%nat -> (n <= length rest)%nat -> zlen done + Z.of_nat n <= 255 ->
  for_from n (Z.of_nat j) body (map Some done ++ rest, zlen done) =
  Ok (map Some (done ++ filter nonwhite (firstn n (skipn j data))) ++
        skipn (length (filter nonwhite (firstn n (skipn j data)))) rest,
      zlen (done ++ filter nonwhite (firstn n (skipn j data)))).
Proof.
  intros data body Hbody. induction n; intros j done rest Hj Hr Hd.
  - cbn. rewrite app_nil_r. reflexivity.
  - cbn [for_from]. rewrite Hbody by (unfold zlen; lia).
    rewrite buf_get_ok by (unfold zlen; lia). cbn [bind]. rewrite Nat2Z.id.
    rewrite (skipn_nth _ data j 0) by lia. cbn [firstn filter].
    replace (Z.of_nat j + 1) with (Z.of_nat (S j)) by lia.
    destruct (nonwhite (nth j data 0)) eqn:Enw.
    + destruct rest as [|c rest]; [cbn in Hr; lia|].
      rewrite vla_set_at by (now rewrite zlen_map). cbn [bind].
      replace ((zlen done + 1) mod 256) with (zlen (done ++ [nth j data 0]))
        by (rewrite zlen_app, zlen_cons, zlen_nil; pose proof (zlen_nonneg _ done); lia).
      replace (map Some done ++ Some (nth j data 0) :: rest) with (map Some (done ++ [nth j data 0]) ++ rest)
        by (rewrite map_app, <- app_assoc; reflexivity).
      rewrite IHn.
      * rewrite <- app_assoc. reflexivity.
      * lia.
      * cbn in Hr. lia.
      * rewrite zlen_app, zlen_cons, zlen_nil. lia.
    + rewrite IHn; [reflexivity| lia | lia | lia].
Qed.

Lemma fw_data_accepted : forall t s ss size data, 0 <= size <= 120 -> zlen data = size ->
  gen_bidib_send_fw_update_op_data t s ss size data = Ok (Sent (t, s, ss) 15 (3 :: filter nonwhite data)).
Proof.
  intros t s ss size data Hs Hl. unfold gen_bidib_send_fw_update_op_data.
  match goal with |- (if ?c then Ok Rejected else _) = _ => destruct c eqn:?; [exfalso; b2p; lia|] end.
  alloc 1%nat size.
  rewrite vla_set_0. cbn [bind].
  unfold for_loop. change 0 with (Z.of_nat 0).
  change (Some 3 :: repeat None (Z.to_nat size), 1) with (map Some [3] ++ repeat None (Z.to_nat size), zlen [3]).
  rewrite (fw_from data).
  - cbn [bind skipn]. rewrite firstn_zlen by lia. rewrite send_prefix by reflexivity. reflexivity.
  - intros i arr idx Hi. cbn beta iota. unfold nonwhite.
    destruct (buf_get 0 data i) as [rd|]; cbn [bind]; [|reflexivity].
    destruct (negb (rd =? 32) && negb (rd =? 9) && negb (rd =? 13) && negb (rd =? 10)) eqn:E1;
    destruct (negb ((rd =? 32) || (rd =? 9) || (rd =? 13) || (rd =? 10))) eqn:E2;
    try (exfalso; b2p; lia); cbn [bind]; [|reflexivity].
    destruct (vla_set arr idx rd); reflexivity.
  - unfold zlen in *. lia.
  - rewrite repeat_length. lia.
  - rewrite zlen_cons, zlen_nil. lia.
Qed.

Lemma eq_fw_data : forall t s ss size data, byte size -> zlen data = size ->
  gen_bidib_send_fw_update_op_data t s ss size data = Ok (spec_fw_update_op_data (t, s, ss) size data).
Proof.
  unfold byte. intros t s ss size data Hb Hl.
  unfold spec_fw_update_op_data, ok, max_data.
  destruct (Z.leb_spec (1 + size) 121).
  - rewrite fw_data_accepted by lia. reflexivity.
  - unfold gen_bidib_send_fw_update_op_data.
    match goal with |- (if ?c then Ok Rejected else _) = _ => destruct c eqn:?; [reflexivity|exfalso; b2p; lia] end.
Qed.

(* ------------------------------------------------------------------ type code and destination: read off the generated code,
   for arbitrary arguments (no well-formedness needed, independent of SendSpec) *)
Lemma send_with_data_inv : forall a ty len d v, send_with_data a ty len d = Ok v -> vtype v = Some ty /\ vaddr v = Some a.
Proof. unfold send_with_data. intros. destruct (zlen d <? len); [discriminate|]. destruct (all_some _); inversion H; auto. Qed.

Ltac unbind H :=
  cbv zeta in H;
  repeat match type of H with
  | (if ?c then _ else _) = Ok _ => destruct c
  | bind ?e _ = Ok _ => let x := fresh "x" in destruct e as [x|]; cbn [bind] in H; [|discriminate H]
  | (let '(_, _) := ?p in _) = Ok _ => destruct p
  end.

Lemma type_addr : forall f sc bufs v, gen_call f sc bufs = Ok v ->
  v = Rejected \/ (vtype v = Some (gen_type f) /\ vaddr v = Some (if has_node_address f then A sc else (0, 0, 0))).
Proof.
  intros f sc bufs v H. destruct f; cbn [gen_call gen_type has_node_address] in *.
  all: match type of H with ?g = _ => let h := head g in unfold h in H end; unfold send_without_data in H; unbind H;
    try (left; congruence); right;
    try (apply send_with_data_inv in H; exact H); try (inversion H; subst; split; reflexivity).
Qed.

Lemma gen_type_downlink : forall f, 0 <= gen_type f < 128.
Proof. destruct f; cbn; lia. Qed.

Lemma ok_type : forall c a ty d, vtype (ok c a ty d) = None \/ vtype (ok c a ty d) = Some (T ty).
Proof. intros. unfold ok. destruct c; cbn; auto. Qed.

Lemma gen_type_spec : forall f sc bufs, vtype (spec_call f sc bufs) = None \/ vtype (spec_call f sc bufs) = Some (gen_type f).
Proof.
  intros. destruct f; cbn [spec_call gen_type];
  match goal with |- vtype ?s = None \/ _ => let h := head s in unfold h end; apply ok_type.
Qed.

Lemma compound_only_sys_reset : forall f, compound f = true <-> f = F_sys_reset.
Proof. destruct f; cbn; split; intro; congruence. Qed.

(* ------------------------------------------------------------------ generated = specified, outside the three excluded classes *)
Ltac bufs1 bufs Hbl := 
  destruct bufs as [|b0 [|? ?]]; cbn [map] in Hbl; try discriminate Hbl; injection Hbl as Hbl.
Ltac byte_of Hb x :=
  let H := fresh "Hbyte" in
  assert (H : byte x) by (repeat (apply Forall_inv in Hb as H || apply Forall_inv_tail in Hb); exact H).

Lemma forall_nth_byte : forall sc n, Forall byte sc -> (n < length sc)%nat -> byte (nth n sc 0).
Proof. intros. rewrite Forall_forall in H. apply H. now apply nth_In. Qed.

Theorem eq_spec : forall f sc bufs, wf_args f sc bufs -> gen_call f sc bufs = Ok (spec_call f sc bufs).
Proof.
  intros f sc bufs (Hlen & Hb & Hbl & Hbb).
  destruct f.
  all: try (fixed sc Hlen Hb; fail).
  - (* macromap *) cbn [fn_sig fst buf_lengths] in *. bufs1 bufs Hbl. cbn [gen_call spec_call argb nth A].
    apply eq_macromap; [apply forall_nth_byte; [assumption|lia] | assumption].
  - (* fw_update_op_data *) cbn [fn_sig fst buf_lengths] in *. bufs1 bufs Hbl. cbn [gen_call spec_call argb nth A].
    apply eq_fw_data; [apply forall_nth_byte; [assumption|lia] | assumption].
  - (* bm_mirror_multiple *) cbn [fn_sig fst buf_lengths] in *. bufs1 bufs Hbl. cbn [gen_call spec_call argb nth A].
    apply eq_bm_mirror_multiple; [apply forall_nth_byte; [assumption|lia] | assumption].
  - (* lc_configx_set *) cbn [fn_sig fst buf_lengths] in *. bufs1 bufs Hbl. cbn [gen_call spec_call argb nth A].
    apply eq_configx_set; [apply forall_nth_byte; [assumption|lia] | assumption].
  - (* vendor_set *) cbn [fn_sig fst buf_lengths] in *.
    destruct bufs as [|b0 [|b1 [|? ?]]]; cbn [map] in Hbl; try discriminate Hbl. injection Hbl as Hbl0 Hbl1.
    cbn [gen_call spec_call argb nth A].
    apply eq_vendor_set; try assumption; apply forall_nth_byte; try assumption; lia.
  - (* vendor_get *) cbn [fn_sig fst buf_lengths] in *. bufs1 bufs Hbl. cbn [gen_call spec_call argb nth A].
    apply eq_vendor_get; [apply forall_nth_byte; [assumption|lia] | assumption].
  - (* string_set *) cbn [fn_sig fst buf_lengths] in *. bufs1 bufs Hbl. cbn [gen_call spec_call argb nth A].
    apply eq_string_set; [apply forall_nth_byte; [assumption|lia] | assumption].
Qed.

(* ------------------------------------------------------------------ facts about the specification itself *)
Lemma filter_zlen : forall (p : Z -> bool) l, zlen (filter p l) <= zlen l.
Proof. induction l; cbn [filter]; [lia|]. destruct (p a); rewrite ?zlen_cons; lia. Qed.

Lemma filter_bytes : forall (p : Z -> bool) l, Forall byte l -> Forall byte (filter p l).
Proof. induction 1; cbn [filter]; [constructor|]. destruct (p x); [constructor|]; assumption. Qed.

Definition addr_bytes_ok (a : addr) : Prop := let '(t, s, ss) := a in byte t /\ byte s /\ byte ss.

Ltac spec_unfold :=
  match goal with |- context [spec_call ?f ?sc ?bufs] =>
    cbn [spec_call argz argb nth A]; 
    match goal with |- context [vlen ?s] => let h := head s in unfold h
                  | |- context [match ?s with Rejected => _ | _ => _ end] => let h := head s in unfold h end
  end; unfold ok.

Lemma spec_len : forall f sc bufs, wf_args f sc bufs ->
  match vlen (spec_call f sc bufs) with Some n => n <= max_data | None => True end.
Proof.
  intros f sc bufs (Hlen & Hb & Hbl & Hbb). unfold max_data.
  destruct f; cbn [fn_sig fst buf_lengths] in *.
  all: try (destr_sc sc Hlen; spec_unfold; try match goal with |- context [if ?c then _ else _] => destruct c end; cbn; lia).
  all: destruct bufs as [|b0 bufs]; cbn [map] in Hbl; try discriminate Hbl; injection Hbl as Hbl0 Hbl;
       try (destruct bufs as [|b1 bufs]; cbn [map] in Hbl; try discriminate Hbl; injection Hbl as Hbl1 Hbl);
       destruct bufs; try discriminate Hbl;
       spec_unfold; unfold within, max_data;
       match goal with |- context [if ?c then _ else _] => destruct c eqn:E end; cbn [vlen]; try exact I;
       b2p; change (Z.of_nat (length ?l)) with (zlen l);
       repeat (rewrite ?zlen_cons, ?zlen_app); cbn [argz nth] in *; try lia.
  - (* fw: filtered *) pose proof (filter_zlen nonwhite b0). lia.
Qed.

Ltac bufs_of bufs Hbl Hbb :=
  let b0 := fresh "b" in let Hl := fresh "Hl" in let Hy := fresh "Hy" in
  destruct bufs as [|b0 bufs]; cbn [map] in Hbl; try discriminate Hbl; injection Hbl as Hl Hbl;
  pose proof (Forall_inv Hbb) as Hy; apply Forall_inv_tail in Hbb.

Lemma spec_bytes : forall f sc bufs, wf_args f sc bufs ->
  match spec_call f sc bufs with Sent a _ d => addr_bytes_ok a /\ Forall byte d | _ => True end.
Proof.
  intros f sc bufs (Hlen & Hb & Hbl & Hbb).
  destruct f; cbn [fn_sig fst buf_lengths] in *.
  all: try (destr_sc sc Hlen; bytes_of Hb; spec_unfold; try (match goal with |- context [if ?c then _ else _] => destruct c end; [|exact I]);
            unfold interface_addr, RC_BIND, RC_PING, RC_GET_TID, RC_SET_TID, RC_PING_ONCE_P0, RC_PING_ONCE_P1, RC_FIND_P0, RC_FIND_P1;
            cbn; unfold byte; repeat split; repeat constructor; (assumption || lia); fail).
  all: bufs_of bufs Hbl Hbb; try bufs_of bufs Hbl Hbb; destr_sc sc Hlen; bytes_of Hb; spec_unfold;
       (match goal with |- context [if ?c then _ else _] => destruct c end; [|exact I]);
       unfold addr_bytes_ok, A; cbn [argz nth]; (split; [unfold byte; lia|]).
  all: repeat (apply Forall_cons; [unfold byte; (lia || (cbn; lia))|]); try assumption.
  - apply filter_bytes; assumption.
  - apply Forall_app; split; [assumption|]. apply Forall_cons; [unfold byte; lia|assumption].
Qed.

(* ------------------------------------------------------------------ corollaries *)
Lemma zlen_length : forall A (l : list A), Z.of_nat (length l) = zlen l. Proof. reflexivity. Qed.

Theorem len_ok : forall f sc bufs v n, wf_args f sc bufs -> gen_call f sc bufs = Ok v -> vlen v = Some n -> n <= max_data.
Proof.
  intros f sc bufs v n Hwf Hg Hv. rewrite (eq_spec f sc bufs Hwf) in Hg. inversion Hg; subst v.
  pose proof (spec_len f sc bufs Hwf) as Hs. rewrite Hv in Hs. exact Hs.
Qed.

Theorem no_fault : forall f sc bufs, wf_args f sc bufs -> exists v, gen_call f sc bufs = Ok v.
Proof. intros. rewrite eq_spec by assumption. eauto. Qed.

Lemma spec_never_indet : forall f sc bufs a ty d, spec_call f sc bufs <> SentIndet a ty d.
Proof.
  intros f sc bufs a ty d Hs. destruct f; cbn [spec_call] in Hs;
  match type of Hs with ?s = _ => let h := head s in unfold h, ok in Hs end;
  try match type of Hs with (if ?c then _ else _) = _ => destruct c end; discriminate.
Qed.

Theorem no_indet : forall f sc bufs a ty d, wf_args f sc bufs -> gen_call f sc bufs <> Ok (SentIndet a ty d).
Proof.
  intros f sc bufs a ty d Hwf Hg. rewrite (eq_spec f sc bufs Hwf) in Hg. inversion Hg as [Hs].
  exact (spec_never_indet _ _ _ _ _ _ Hs).
Qed.

Theorem sent_bytes : forall f sc bufs a ty d, wf_args f sc bufs ->
  gen_call f sc bufs = Ok (Sent a ty d) -> addr_bytes_ok a /\ Forall byte d.
Proof.
  intros f sc bufs a ty d Hwf Hg. rewrite (eq_spec f sc bufs Hwf) in Hg. inversion Hg as [Hs].
  pose proof (spec_bytes f sc bufs Hwf) as Hb. rewrite Hs in Hb. exact Hb.
Qed.

(* ------------------------------------------------------------------ bridge to the transmission layer *)
Lemma depth_range : forall a, 0 <= depth a <= 3.
Proof.
  intros [[t s] ss]. unfold depth, addrN, addr_bytes.
  destruct (Z.to_N t =? 0)%N; [cbn; lia|]. destruct (Z.to_N s =? 0)%N; [cbn; lia|]. destruct (Z.to_N ss =? 0)%N; cbn; lia.
Qed.

Lemma msg_of_ok : forall a seq ty d, zlen d <= max_data ->
  msg_of a seq ty d = Some (Z.to_N (zlen d + depth a + 3) :: addr_bytes (addrN a) ++ [seq; Z.to_N ty] ++ map Z.to_N d)
  /\ zlen d + depth a + 3 <= 127 /\ length_byte a d = zlen d + depth a + 3.
Proof.
  intros a seq ty d Hd. pose proof (depth_range a) as Hr. pose proof (zlen_nonneg _ d) as Hn. unfold max_data in Hd.
  split; [|split; [lia| unfold length_byte; lia]].
  unfold msg_of, encode_msg. unfold depth in *.
  set (ab := addr_bytes (addrN a)) in *.
  assert (Hl : nlen (map Z.to_N d) = Z.to_N (zlen d)) by (unfold nlen, zlen; rewrite map_length; lia).
  rewrite Hl.
  destruct (N.ltb_spec 255 (Z.to_N (zlen d) + nlen ab + 3))%N; [lia|].
  f_equal. f_equal. lia.
Qed.

(* executable check of the whole property on one call (the oracle of checks/C18.py evaluates the same three
   conditions on the implementation's wire output) *)
Example nonvacuous_call :
  gen_call F_vendor_set [1; 2; 0; 2; 1] [[65; 66]; [67]] = Ok (Sent (1, 2, 0) 22 [2; 65; 66; 1; 67]) /\
  spec_call F_vendor_set [1; 2; 0; 2; 1] [[65; 66]; [67]] = Sent (1, 2, 0) 22 [2; 65; 66; 1; 67] /\
  msg_of (1, 2, 0) 7%N 22 [2; 65; 66; 1; 67] = Some [10; 1; 2; 0; 7; 22; 2; 65; 66; 1; 67]%N /\
  gen_call F_sys_clock [0; 0; 0; 59; 151; 70; 223] [] = Ok (Sent (0, 0, 0) 24 [59; 151; 70; 223]) /\
  gen_call F_sys_clock [0; 0; 0; 60; 151; 70; 223] [] = Ok Rejected.
Proof. repeat split; vm_compute; reflexivity. Qed.

Theorem sent_msg : forall f sc bufs a ty d seq, wf_args f sc bufs ->
  gen_call f sc bufs = Ok (Sent a ty d) ->
  msg_of a seq ty d = Some (Z.to_N (zlen d + depth a + 3) :: addr_bytes (addrN a) ++ [seq; Z.to_N ty] ++ map Z.to_N d)
  /\ length_byte a d <= 127 /\ length_byte a d = zlen d + depth a + 3.
Proof.
  intros f sc bufs a ty d seq Hwf Hg.
  assert (Hd : zlen d <= max_data) by (apply (len_ok f sc bufs _ _ Hwf Hg); reflexivity).
  destruct (msg_of_ok a seq ty d Hd) as (H1 & H2 & H3). repeat split; try assumption. lia.
Qed.

Theorem type_and_destination : forall f sc bufs v, gen_call f sc bufs = Ok v ->
  v = Rejected \/
  (exists ty, vtype v = Some ty /\ 0 <= ty < 128) /\ vaddr v = Some (if has_node_address f then A sc else (0, 0, 0)).
Proof.
  intros f sc bufs v H. destruct (type_addr f sc bufs v H) as [Hr|[Ht Ha]]; [left; assumption|right].
  split; [|assumption]. exists (gen_type f). split; [assumption|apply gen_type_downlink].
Qed.

(* ------------------------------------------------------------------ composition with C01: one accepted call followed by bidib_flush()
   puts bytes on the wire that the independent reference decoder of Framing.v reads back as exactly that one message *)
Lemma sent_wire_decodes : forall a ty d m, msg_of a 0%N ty d = Some m ->
  ref_decode (concat (sent_wire a ty d)) = Some [m].
Proof.
  intros a ty d m Hm. unfold sent_wire. rewrite Hm.
  assert (Hwf : ops_wf [Add m]).
  { constructor; [|constructor]. unfold msg_of in Hm. eapply encode_msg_wf; eassumption. }
  pose proof (c01_decodes [Add m] Hwf) as H. cbn [app added flat_map] in H.
  unfold wire in H. cbn [tx_run] in H.
  destruct (tx_step tx_init (Add m)) as [s1 p1]. destruct (tx_step s1 Flush) as [s2 p2].
  cbn [snd] in H. rewrite app_nil_r in H. exact H.
Qed.

Theorem wire_one_message : forall f sc bufs a ty d, wf_args f sc bufs ->
  gen_call f sc bufs = Ok (Sent a ty d) ->
  exists m, msg_of a 0%N ty d = Some m /\ ref_decode (concat (sent_wire a ty d)) = Some [m].
Proof.
  intros f sc bufs a ty d Hwf Hg.
  destruct (sent_msg f sc bufs a ty d 0%N Hwf Hg) as (Hm & _).
  eexists. split; [exact Hm|]. apply sent_wire_decodes. exact Hm.
Qed.
