(* Extract_C17.v — extraction of the getter shape model for the C17 correspondence driver.
   ExtrOcamlBasic only; no Extract Constant. Compiled by the check in a scratch directory. *)
From Coq Require Import Extraction ExtrOcamlBasic List NArith String.
From LB Require Import Getters.
Extraction "model_c17.ml" call free_query rtype_of has_undef has_alias snapshot_mismatches all_getters st_empty cat_array.
