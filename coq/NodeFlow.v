(* NodeFlow.v — executable model of src/transmission/bidib_transmission_node_states.c and of the
   submit path bidib_buffer_message_with(out)_data -> bidib_node_try_send -> bidib_add_to_buffer.
   Faithful to the code, including behaviour that violates a property. No proofs here. *)
From Coq Require Import List NArith Bool Arith.
From LB Require Import Tables Framing.
Import ListNotations.
Local Open Scope N_scope.

(* A node address in canonical form: the non-zero bytes before the first zero (at most 3). *)
Notation addr := (list N) (only parsing).

Definition canon (a : addr3) : addr :=
  let '(t, s, ss) := a in
  if t =? 0 then [] else if s =? 0 then [t] else if ss =? 0 then [t; s] else [t; s; ss].

Fixpoint addr_eqb (a b : addr) : bool :=
  match a, b with
  | [], [] => true
  | x :: a', y :: b' => (x =? y) && addr_eqb a' b'
  | _, _ => false
  end.

(* ---- bidib_response_info accessors (generated table) ---- *)
Definition info_row (ty : N) : list N := nth (N.to_nat ty) response_info [].
Definition info_cnt (ty : N) : N := nth 0 (info_row ty) 0.
Definition resp_size (ty : N) : N := nth 1 (info_row ty) 0.
Definition info_at (ty i : N) : N := nth (N.to_nat i) (info_row ty) 0.

Record node := {
  n_stall : bool;
  n_used : N;                         (* current_max_respond *)
  n_resp : list (N * N);              (* response_queue: (request type, creation time) *)
  n_held : list (N * list N);         (* message_queue: (type, message) *)
  n_waiters : list addr;              (* stall_affected_nodes_queue *)
  n_sseq : N;                         (* send_seqnum *)
  n_rseq : N                          (* receive_seqnum *)
}.

Definition new_node : node :=
  {| n_stall := false; n_used := 0; n_resp := []; n_held := []; n_waiters := []; n_sseq := 1; n_rseq := 1 |}.

Definition table := list (addr * node).

Fixpoint lookup (t : table) (a : addr) : option node :=
  match t with
  | [] => None
  | (k, v) :: r => if addr_eqb k a then Some v else lookup r a
  end.

Fixpoint store (t : table) (a : addr) (v : node) : table :=
  match t with
  | [] => [(a, v)]
  | (k, w) :: r => if addr_eqb k a then (k, v) :: r else (k, w) :: store r a v
  end.

(* bidib_node_query: lookup, inserting a fresh node when absent *)
Definition get (t : table) (a : addr) : node :=
  match lookup t a with Some v => v | None => new_node end.
Definition ensure (t : table) (a : addr) : table :=
  match lookup t a with Some _ => t | None => store t a new_node end.

Definition with_stall (v : node) (b : bool) : node :=
  {| n_stall := b; n_used := n_used v; n_resp := n_resp v; n_held := n_held v;
     n_waiters := n_waiters v; n_sseq := n_sseq v; n_rseq := n_rseq v |}.
Definition with_waiters (v : node) (w : list addr) : node :=
  {| n_stall := n_stall v; n_used := n_used v; n_resp := n_resp v; n_held := n_held v;
     n_waiters := w; n_sseq := n_sseq v; n_rseq := n_rseq v |}.
Definition with_flow (v : node) (u : N) (rq : list (N * N)) (h : list (N * list N)) : node :=
  {| n_stall := n_stall v; n_used := u; n_resp := rq; n_held := h;
     n_waiters := n_waiters v; n_sseq := n_sseq v; n_rseq := n_rseq v |}.
Definition with_sseq (v : node) (s : N) : node :=
  {| n_stall := n_stall v; n_used := n_used v; n_resp := n_resp v; n_held := n_held v;
     n_waiters := n_waiters v; n_sseq := s; n_rseq := n_rseq v |}.
Definition with_rseq (v : node) (s : N) : node :=
  {| n_stall := n_stall v; n_used := n_used v; n_resp := n_resp v; n_held := n_held v;
     n_waiters := n_waiters v; n_sseq := n_sseq v; n_rseq := s |}.

(* ---- bidib_node_stall_ready ----
   the walk visits addr, then each proper prefix, and finally the interface (empty address) *)
Fixpoint walk_list (a : addr) (k : nat) : list addr :=
  match k with
  | O => []
  | S k' => firstn (S k') a :: walk_list a k'
  end.
Definition ancestors (a : addr) : list addr := walk_list a (length a) ++ [[]].

Definition is_stalled (t : table) (p : addr) : bool :=
  match lookup t p with Some v => n_stall v | None => false end.

Definition stall_ready (t : table) (a : addr) : table * bool :=
  match find (is_stalled t) (ancestors a) with
  | None => (t, true)
  | Some p =>
      let v := get t p in
      if existsb (addr_eqb a) (n_waiters v) then (t, false)
      else (store t p (with_waiters v (n_waiters v ++ [a])), false)
  end.

(* bidib_node_state_add_response *)
Definition add_response (v : node) (ty now : N) : node :=
  if 0 <? resp_size ty
  then with_flow v (n_used v + resp_size ty) (n_resp v ++ [(ty, now)]) (n_held v)
  else v.

(* ---- bidib_node_try_send ---- *)
Definition try_send (t : table) (a : addr) (ty : N) (m : list N) (now : N) : table * bool :=
  let t1 := ensure t a in
  let '(t2, ready) := stall_ready t1 a in
  let v := get t2 a in
  if ready && (match n_held v with [] => true | _ => false end) && (n_used v + resp_size ty <=? response_limit)
  then (store t2 a (add_response v ty now), true)
  else (store t2 a (with_flow v (n_used v) (n_resp v) (n_held v ++ [(ty, m)])), false).

(* ---- bidib_node_try_queued_messages: returns the messages handed to bidib_add_to_buffer ---- *)
Fixpoint try_queued_loop (fuel : nat) (t : table) (a : addr) (now : N) (acc : list (N * list N))
  : table * list (N * list N) :=
  match fuel with
  | O => (t, acc)
  | S f =>
      let '(t1, ready) := stall_ready t a in
      if ready then
        let v := get t1 a in
        match n_held v with
        | [] => (t1, acc)
        | (ty, m) :: rest =>
            if n_used v + resp_size ty <=? response_limit then
              let v1 := add_response (with_flow v (n_used v) (n_resp v) rest) ty now in
              try_queued_loop f (store t1 a v1) a now (acc ++ [(ty, m)])
            else (t1, acc)
        end
      else (t1, acc)
  end.

(* one extra round of fuel: the loop condition is evaluated once more after the last message.
   A release group (a, ms): the messages of node a handed to bidib_add_to_buffer in this call,
   followed by one bidib_flush when there is at least one. *)
Definition group := (list N * list (N * list N))%type.   (* node, released (type, message) entries *)

Definition try_queued (t : table) (a : addr) (now : N) : table * list group :=
  let '(t1, ms) := try_queued_loop (S (length (n_held (get t a)))) t a now [] in
  (t1, [(a, ms)]).

Definition group_ops (g : group) : list op :=
  map (fun e => Add (snd e)) (snd g) ++ match snd g with [] => [] | _ => [Flush] end.
Definition groups_ops (gs : list group) : list op := flat_map group_ops gs.

(* ---- bidib_node_state_update ---- *)
Definition pop_resp (v : node) : node :=
  match n_resp v with
  | [] => v
  | (ty, _) :: rest => with_flow v (n_used v - resp_size ty) rest (n_held v)
  end.

(* returns the node and whether the awaited answer matched (then the held queue is retried) *)
Fixpoint upd_loop (fuel : nat) (i : N) (v : node) (rty now : N) : node * bool :=
  match fuel with
  | O => (v, false)
  | S f =>
      match n_resp v with
      | [] => (v, false)
      | (ty, created) :: rest =>
          if i <=? info_cnt ty then
            if info_at ty i =? rty then (pop_resp v, true)
            else if expiry_secs <=? now - created then
              match rest with
              | [] => (pop_resp v, false)
              | _ => upd_loop f (i + 1) (pop_resp v) rty now
              end
            else upd_loop f (i + 1) v rty now
          else (v, false)
      end
  end.

Definition on_update (t : table) (a : addr) (rty now : N) : table * list group :=
  match lookup t a with
  | None => (t, [])
  | Some v =>
      match n_resp v with
      | [] => (t, [])
      | _ =>
          let '(v1, matched) := upd_loop 8 2 v rty now in
          let t1 := store t a v1 in
          if matched then try_queued t1 a now else (t1, [])
      end
  end.

(* ---- bidib_node_update_stall ---- *)
Fixpoint release_waiters (ws : list addr) (t : table) (now : N) (acc : list group) : table * list group :=
  match ws with
  | [] => (t, acc)
  | w :: r =>
      match lookup t w with
      | None => release_waiters r t now acc
      | Some _ => let '(t1, o) := try_queued t w now in release_waiters r t1 now (acc ++ o)
      end
  end.

Definition on_stall (t : table) (a : addr) (status now : N) : table * list group :=
  let t1 := ensure t a in
  let v := get t1 a in
  if status =? 0 then
    let ws := n_waiters v in
    let t2 := store t1 a (with_waiters (with_stall v false) []) in
    release_waiters ws t2 now []
  else (store t1 a (with_stall v true), []).

(* ---- sequence numbers ---- *)
Definition seq_next (s : N) : N := if s =? 255 then 1 else s + 1.

Definition alloc_sseq (t : table) (a : addr) : table * N :=
  let t1 := ensure t a in
  let v := get t1 a in
  (store t1 a (with_sseq v (seq_next (n_sseq v))), n_sseq v).

Definition alloc_rseq (t : table) (a : addr) : table * N :=
  let t1 := ensure t a in
  let v := get t1 a in
  (store t1 a (with_rseq v (seq_next (n_rseq v))), n_rseq v).

Definition set_rseq (t : table) (a : addr) (s : N) : table :=
  let t1 := ensure t a in
  store t1 a (with_rseq (get t1 a) s).

(* ---- the flow world: node table + transmit buffer ---- *)
Record flow := { f_tab : table; f_tx : tx; f_seqon : bool }.
Definition flow_init : flow := {| f_tab := []; f_tx := tx_init; f_seqon := true |}.

(* node-table half of bidib_buffer_message_with(out)_data: the message built, and whether it is
   admitted now. None = uint8 length wrap (memory error in the C) *)
Definition submit_tab (t : table) (seqon : bool) (a : addr3) (ty : N) (data : list N) (now : N)
  : option (table * N * list N * bool) :=
  let '(t1, seq) := if seqon then alloc_sseq t (canon a) else (t, 0) in
  match encode_msg a seq ty data with
  | None => None
  | Some m => let '(t2, ok) := try_send t1 (canon a) ty m now in Some (t2, seq, m, ok)
  end.

(* node-table half of the receiver's handling of one uplink message of type rty from node a:
   bidib_node_state_update, then for MSG_STALL the stall update with the message's last byte *)
Definition uplink_tab (t : table) (a : addr) (rty last now : N) : table * list group :=
  let '(t1, g1) := on_update t a rty now in
  let '(t2, g2) := if rty =? MSG_STALL then on_stall t1 a last now else (t1, []) in
  (t2, g1 ++ g2).

Inductive fev :=
| FSend (a : addr3) (ty : N) (data : list N)
| FUp (a : addr) (rty last : N)
| FTime (now : N)
| FFlush
| FCap (c : N)
| FSeqOn (b : bool)
| FReset.

(* ghost output of a step at node-table level *)
Inductive gout :=
| GSubmitted (a : addr) (sq : N) (m : list N) (admitted : bool)
| GReleased (g : group).

(* the node-table/clock half of a step: new table, seq flag, clock, ghost outputs, buffer operations *)
Definition tab_step (t : table) (seqon : bool) (now : N) (e : fev)
  : table * bool * N * list gout * list op :=
  match e with
  | FSend a ty data =>
      match submit_tab t seqon a ty data now with
      | Some (t1, sq, m, ok) => (t1, seqon, now, [GSubmitted (canon a) sq m ok], if ok then [Add m] else [])
      | None => (t, seqon, now, [], [])
      end
  | FUp a rty last =>
      let '(t1, gs) := uplink_tab t a rty last now in (t1, seqon, now, map GReleased gs, groups_ops gs)
  | FTime n => (t, seqon, n, [], [])
  | FFlush => (t, seqon, now, [], [Flush])
  | FCap c => (t, seqon, now, [], [SetCap c])
  | FSeqOn b => (t, b, now, [], [])
  | FReset => ([], seqon, now, [], [])
  end.

Definition flow_step (wn : flow * N) (e : fev) : (flow * N) * list (N * packet) :=
  let '(w, now) := wn in
  let '(t1, so1, now1, _, ops) := tab_step (f_tab w) (f_seqon w) now e in
  let '(tx1, ps) := tx_run (f_tx w) ops in
  (({| f_tab := t1; f_tx := tx1; f_seqon := so1 |}, now1), ps).

Fixpoint flow_run (wn : flow * N) (es : list fev) : (flow * N) * list (N * packet) :=
  match es with
  | [] => (wn, [])
  | e :: r => let '(wn1, p1) := flow_step wn e in
              let '(wn2, p2) := flow_run wn1 r in (wn2, p1 ++ p2)
  end.

(* table-level run with the full ghost log (used by the theorems) *)
Fixpoint tab_run (t : table) (seqon : bool) (now : N) (es : list fev)
  : table * bool * N * list gout * list op :=
  match es with
  | [] => (t, seqon, now, [], [])
  | e :: r =>
      let '(t1, s1, n1, g1, o1) := tab_step t seqon now e in
      let '(t2, s2, n2, g2, o2) := tab_run t1 s1 n1 r in
      (t2, s2, n2, g1 ++ g2, o1 ++ o2)
  end.
