(* TimerSpecProofs.v — the never-stranded clause of C03 in the property's own accounting (BudgetSpec.v):
   at every point of a history at which the timer has fired since the last clock change, the library's
   outstanding list of every node IS the list of the property's live outstanding requests, so "limited by
   the counter" means "limited by the budget of the property text".
   Hypothesis on the window between a clock change and the timer pass (at most one heartbeat period in the
   running library): the uplink messages processed there answer no request at all (quiet_gaps). An answer
   processed in that window may be credited by the library to a request of expiry age that the pass has not
   yet removed, by the property to the oldest live one: then the two accountings differ for up to 2 seconds. *)
From Coq Require Import List NArith Bool Arith Lia.
From LB Require Import Tables Framing NodeFlow NodeFlowProofs DispatchProofs BudgetSpec BudgetProofs NoStrandProofs.
Import ListNotations.
Local Open Scope N_scope.

(* ---- uplink types that answer no request ---- *)
Definition no_answer (rty : N) : bool :=
  forallb (fun ty => negb (answers_b (N.of_nat ty) rty)) (seq 0 (length response_info)).

Lemma no_answer_spec rty : no_answer rty = true -> forall ty, answers_b ty rty = false.
Proof.
  intros H ty. unfold no_answer in H. rewrite forallb_forall in H.
  destruct (Nat.lt_ge_cases (N.to_nat ty) (length response_info)) as [Hl|Hg].
  - specialize (H (N.to_nat ty)). rewrite N2Nat.id in H. apply negb_true_iff. apply H. apply in_seq. lia.
  - unfold answers_b, info_cnt, info_at, info_row. rewrite nth_overflow by exact Hg. reflexivity.
Qed.

Lemma answers_b_inv ty rty : answers_b ty rty = true -> exists i, 2 <= i /\ i <= info_cnt ty /\ info_at ty i = rty.
Proof.
  unfold answers_b. intros H. apply existsb_exists in H as (k & Hin & Hk). apply in_seq in Hin. apply N.eqb_eq in Hk.
  exists (N.of_nat k). split; [lia|]. split; [lia|exact Hk].
Qed.

Lemma answer_first_none now rty l : (forall ty, answers_b ty rty = false) -> answer_first now rty l = l.
Proof.
  intros H. induction l as [|e r IH]; [reflexivity|]. cbn [answer_first]. rewrite (H (fst e)).
  destruct (is_live now e); [reflexivity|]. rewrite IH. reflexivity.
Qed.

(* ---- bidib_node_state_update on a list without requests of expiry age: the answer rule of the property ---- *)
Lemma upd_loop_nomatch fuel : forall i v rty now ty c rest, RO now v -> n_resp v = (ty, c) :: rest ->
  (forall j, i <= j -> j <= info_cnt ty -> info_at ty j <> rty) -> upd_loop fuel i v rty now = (v, false).
Proof.
  induction fuel as [|f IH]; intros i v rty now ty c rest Hy E Hn; cbn [upd_loop]; [reflexivity|]. rewrite E.
  destruct (i <=? info_cnt ty) eqn:Ec; [|reflexivity]. apply N.leb_le in Ec.
  destruct (N.eqb_spec (info_at ty i) rty) as [Em|Em]; [exfalso; apply (Hn i); [lia|exact Ec|exact Em]|].
  assert (Hx : (expiry_secs <=? now - c) = false).
  { apply N.leb_gt. apply (Hy (ty, c)). rewrite E. left. reflexivity. }
  rewrite Hx. eapply IH; [exact Hy|exact E|]. intros j Hj. apply Hn. lia.
Qed.

Lemma upd_loop_match fuel : forall i v rty now ty c rest, RO now v -> n_resp v = (ty, c) :: rest ->
  (exists j, i <= j /\ j <= info_cnt ty /\ info_at ty j = rty) -> (N.to_nat (info_cnt ty + 1 - i) <= fuel)%nat ->
  upd_loop fuel i v rty now = (pop_resp v, true).
Proof.
  induction fuel as [|f IH]; intros i v rty now ty c rest Hy E (j & Hj1 & Hj2 & Hj3) Hf.
  - exfalso. lia.
  - cbn [upd_loop]. rewrite E.
    assert (Ec : (i <=? info_cnt ty) = true) by (apply N.leb_le; lia). rewrite Ec.
    destruct (N.eqb_spec (info_at ty i) rty) as [Em|Em]; [reflexivity|].
    assert (Hx : (expiry_secs <=? now - c) = false).
    { apply N.leb_gt. apply (Hy (ty, c)). rewrite E. left. reflexivity. }
    rewrite Hx. eapply IH; [exact Hy|exact E| |lia].
    exists j. split; [|split; assumption]. destruct (N.eq_dec i j) as [->|]; [congruence|lia].
Qed.

Lemma rows_cnt ty : info_cnt ty <= 4.
Proof.
  unfold info_cnt. destruct (info_row_cases ty) as [E|Hin]; [rewrite E; cbn; lia|].
  pose proof rows_cnt_b as Hcb. rewrite forallb_forall in Hcb. specialize (Hcb _ Hin). apply N.leb_le in Hcb. exact Hcb.
Qed.

Lemma upd_loop_young_answers v rty now ty c rest : RO now v -> n_resp v = (ty, c) :: rest ->
  upd_loop 8 2 v rty now = if answers_b ty rty then (pop_resp v, true) else (v, false).
Proof.
  intros Hy E. destruct (answers_b ty rty) eqn:Ea.
  - apply answers_b_inv in Ea. eapply upd_loop_match; [exact Hy|exact E|exact Ea|]. pose proof (rows_cnt ty). lia.
  - eapply upd_loop_nomatch; [exact Hy|exact E|]. intros j Hj1 Hj2 Hj3.
    rewrite (answers_from_info ty j rty Hj1 Hj2 Hj3) in Ea. discriminate.
Qed.

(* ... and on any list, for a message that answers nothing: only requests of expiry age disappear *)
Lemma live_cons_dead now e l : is_live now e = false -> live now (e :: l) = live now l.
Proof. intros H. unfold live. cbn [filter]. rewrite H. reflexivity. Qed.

Lemma pop_resp_dead now v ty c rest : n_resp v = (ty, c) :: rest -> (expiry_secs <=? now - c) = true ->
  live now (n_resp (pop_resp v)) = live now (n_resp v).
Proof.
  intros E Hx. unfold pop_resp. rewrite E. cbn [with_flow n_resp]. symmetry. apply live_cons_dead.
  unfold is_live. cbn [snd]. apply N.ltb_ge. apply N.leb_le. exact Hx.
Qed.

Lemma upd_loop_quiet fuel : forall i v rty now, 2 <= i -> (forall ty, answers_b ty rty = false) ->
  snd (upd_loop fuel i v rty now) = false /\ live now (n_resp (fst (upd_loop fuel i v rty now))) = live now (n_resp v).
Proof.
  induction fuel as [|f IH]; intros i v rty now Hi Hq; cbn [upd_loop]; [split; reflexivity|].
  destruct (n_resp v) as [|[ty c] rest] eqn:E; [split; [reflexivity|cbn [fst]; rewrite E; reflexivity]|].
  destruct (i <=? info_cnt ty) eqn:Ec; [|split; [reflexivity|cbn [fst]; rewrite E; reflexivity]]. apply N.leb_le in Ec.
  destruct (N.eqb_spec (info_at ty i) rty) as [Em|Em].
  { pose proof (Hq ty) as Hc. rewrite (answers_from_info ty i rty Hi Ec Em) in Hc. discriminate. }
  destruct (expiry_secs <=? now - c) eqn:Ex.
  - pose proof (pop_resp_dead now v ty c rest E Ex) as Hp. rewrite E in Hp.
    destruct rest as [|r0 rest']; [split; [reflexivity|exact Hp]|].
    destruct (IH (i + 1) (pop_resp v) rty now ltac:(lia) Hq) as [A B]. split; [exact A|]. rewrite B. exact Hp.
  - destruct (IH (i + 1) v rty now ltac:(lia) Hq) as [A B]. split; [exact A|]. rewrite B, E. reflexivity.
Qed.

(* ---- the timer pass keeps the live requests and appends what it transmits ---- *)
Lemma reap_q_live now q : forall u, live now (fst (reap_q q u now)) = live now q.
Proof.
  induction q as [|[ty c] rest IH]; intros u; cbn [reap_q]; [reflexivity|].
  destruct (expiry_secs <=? now - c) eqn:Ex; [|reflexivity]. rewrite IH. symmetry. apply live_cons_dead.
  unfold is_live. cbn [snd]. apply N.ltb_ge. apply N.leb_le. exact Ex.
Qed.

Lemma reap_live now v : live now (n_resp (reap v now)) = live now (n_resp v).
Proof.
  unfold reap. pose proof (reap_q_live now (n_resp v) (n_used v)) as H.
  destruct (reap_q (n_resp v) (n_used v) now) as [q u]. exact H.
Qed.

Lemma expire_loop_live ks : forall t now acc,
  let '(t', gs) := expire_loop ks t now acc in
  exists more, gs = acc ++ more /\
    forall b, live now (n_resp (get t' b)) = live now (n_resp (get t b)) ++ transmitted now (flat_map (rel_of b) more).
Proof.
  induction ks as [|a r IH]; intros t now acc; cbn [expire_loop].
  - exists []. rewrite app_nil_r. split; [reflexivity|]. intros b. cbn. rewrite app_nil_r. reflexivity.
  - assert (H1 : forall b, live now (n_resp (get (store t a (reap (get t a) now)) b)) = live now (n_resp (get t b))).
    { intros b. destruct (addr_eqb_spec a b) as [<-|Hn].
      - rewrite get_store_same. apply reap_live.
      - rewrite get_store_other by exact Hn. reflexivity. }
    destruct (head_fits (reap (get t a) now)).
    + pose proof (try_queued_resp (store t a (reap (get t a) now)) a now) as Hq.
      destruct (try_queued (store t a (reap (get t a) now)) a now) as [t2 o]. destruct Hq as [_ Hq].
      specialize (IH t2 now (acc ++ o)). destruct (expire_loop r t2 now (acc ++ o)) as [t' gs].
      destruct IH as (more & Hgs & Hr). exists (o ++ more). split; [rewrite Hgs, app_assoc; reflexivity|].
      intros b. rewrite Hr, Hq, live_app, live_transmitted, H1, flat_map_app, transmitted_app, app_assoc. reflexivity.
    + specialize (IH (store t a (reap (get t a) now)) now acc). destruct (expire_loop r _ now acc) as [t' gs].
      destruct IH as (more & Hgs & Hr). exists more. split; [exact Hgs|]. intros b. rewrite Hr, H1. reflexivity.
Qed.

(* ---- the invariant: live requests of the library = live requests of the property ---- *)
Definition EQ (now : N) (spec : list N -> list (N * N)) (t : table) : Prop :=
  forall b, live now (n_resp (get t b)) = live now (spec b).

Lemma live_young now v : RO now v -> live now (n_resp v) = n_resp v.
Proof.
  unfold RO, live. induction (n_resp v) as [|e r IH]; intros H; [reflexivity|]. cbn [filter].
  assert (E : is_live now e = true) by (unfold is_live; apply N.ltb_lt; apply (H e); left; reflexivity).
  rewrite E. f_equal. apply IH. intros x Hx. apply H. right. exact Hx.
Qed.

Lemma live_later now n l : now <= n -> live n (live now l) = live n l.
Proof.
  intros Hn. unfold live. induction l as [|e r IH]; [reflexivity|]. cbn [filter].
  destruct (is_live now e) eqn:E1; cbn [filter]; [rewrite IH; reflexivity|].
  assert (E2 : is_live n e = false) by (unfold is_live in *; apply N.ltb_ge in E1; apply N.ltb_ge; lia).
  rewrite E2. exact IH.
Qed.

(* what is required of an event in the window between a clock change and the timer pass *)
Definition quiet_event (f : bool) (e : fev) : bool :=
  match e with FUp _ rty _ => f || no_answer rty | _ => true end.

Lemma on_update_eq t a rty now l : tab_ok t -> (CT t now \/ forall ty, answers_b ty rty = false) ->
  live now (n_resp (get t a)) = live now l ->
  let '(t', gs) := on_update t a rty now in
  live now (n_resp (get t' a)) = live now (answer_first now rty l ++ transmitted now (flat_map (rel_of a) gs)) /\
  (forall b, b <> a -> n_resp (get t' b) = n_resp (get t b) /\ flat_map (rel_of b) gs = []).
Proof.
  intros Hok Hcase Hl. unfold on_update. destruct (lookup t a) as [v|] eqn:El.
  2:{ cbn [flat_map]. unfold transmitted at 1. cbn [filter map]. rewrite app_nil_r. split; [|auto].
      assert (Hg : n_resp (get t a) = []) by (unfold get; rewrite El; reflexivity). rewrite Hg in Hl. rewrite Hg.
      destruct (live_af_cases now rty l) as [->|(e & L1 & He & _ & _)]; [exact Hl|]. rewrite <- Hl in He. discriminate. }
  assert (Hgv : get t a = v) by (apply lookup_get; exact El). rewrite Hgv in Hl.
  destruct (n_resp v) as [|[ty c] rest] eqn:Er.
  { cbn [flat_map]. unfold transmitted at 1. cbn [filter map]. rewrite app_nil_r, Hgv, Er. split; [|auto].
    destruct (live_af_cases now rty l) as [->|(e & L1 & He & _ & _)]; [exact Hl|]. rewrite <- Hl in He. discriminate. }
  destruct Hcase as [Hct|Hq].
  - (* no request of expiry age: the property's answer rule *)
    assert (Hy : RO now v) by (rewrite <- Hgv; apply CT_RO; exact Hct).
    rewrite (upd_loop_young_answers v rty now ty c rest Hy Er).
    rewrite <- Er in Hl. rewrite (live_young now v Hy) in Hl. rewrite Er in Hl.
    destruct (answers_b ty rty) eqn:Ea.
    + pose proof (try_queued_resp (store t a (pop_resp v)) a now) as Hq. destruct (try_queued (store t a (pop_resp v)) a now) as [t' gs].
      destruct Hq as [(rel & ->) Hq]. split.
      * rewrite Hq, get_store_same, !live_app, live_transmitted. f_equal.
        rewrite (live_af_head now rty l (ty, c) rest (eq_sym Hl) Ea).
        assert (Hp : n_resp (pop_resp v) = rest) by (unfold pop_resp; rewrite Er; reflexivity). rewrite Hp.
        assert (Hr : RO now (pop_resp v)) by (apply RO_pop; exact Hy). rewrite <- Hp. apply live_young. exact Hr.
      * intros b Hb. rewrite Hq. rewrite get_store_other by congruence. rewrite (rel_of_other b a rel Hb). cbn. rewrite app_nil_r. auto.
    + cbn [flat_map]. unfold transmitted at 1. cbn [filter map]. rewrite app_nil_r, get_store_same. split.
      * rewrite (live_young now v Hy), Er.
        destruct (live_af_cases now rty l) as [->|(e & L1 & He & Hae & _)]; [exact Hl|].
        rewrite <- Hl in He. injection He as <- _. cbn [fst] in Hae. congruence.
      * intros b Hb. rewrite get_store_other by congruence. auto.
  - (* a message that answers nothing *)
    destruct (upd_loop_quiet 8 2 v rty now ltac:(lia) Hq) as [A B]. rewrite Er in B.
    destruct (upd_loop 8 2 v rty now) as [v1 matched]. cbn [fst snd] in A, B. subst matched.
    cbn [flat_map]. unfold transmitted at 1. cbn [filter map]. rewrite app_nil_r, get_store_same. split.
    + rewrite B, (answer_first_none now rty l Hq). exact Hl.
    + intros b Hb. rewrite get_store_other by congruence. auto.
Qed.

Lemma tab_step_eq f t so now e spec :
  tab_ok t -> (f = true -> CT t now) -> quiet_event f e = true -> clock_mono_step now e = true -> EQ now spec t ->
  let '(t', _, now', gouts, _) := tab_step t so now e in
  EQ now' (fun b => spec_step b now e gouts (spec b)) t'.
Proof.
  intros Hok Hct Hq Hm HE. destruct e as [a3 ty data|a rty last|n| |c|bb| |]; cbn [tab_step].
  - (* FSend *)
    unfold submit_tab.
    assert (H1 : exists t1 sq, (if so then alloc_sseq t (canon a3) else (t, 0)) = (t1, sq) /\ forall b, n_resp (get t1 b) = n_resp (get t b)).
    { destruct so.
      - pose proof (alloc_sseq_resp t (canon a3)) as H. destruct (alloc_sseq t (canon a3)) as [t1 sq]. exists t1, sq. auto.
      - exists t, 0. auto. }
    destruct H1 as (t1 & sq & -> & H1).
    destruct (encode_msg a3 sq ty data) as [m|]; [|intros b; cbn [spec_step]; apply HE].
    pose proof (try_send_resp t1 (canon a3) ty m now) as Hs. destruct (try_send t1 (canon a3) ty m now) as [t2 ok].
    intros b. cbn [spec_step]. rewrite Hs, H1. destruct ok; cbn [andb].
    + destruct (addr_eqb b (canon a3)).
      * rewrite !live_app. f_equal. apply HE.
      * rewrite app_nil_r. apply HE.
    + rewrite app_nil_r. apply HE.
  - (* FUp *)
    unfold uplink_tab.
    assert (Hcase : CT t now \/ forall ty, answers_b ty rty = false).
    { cbn [quiet_event] in Hq. destruct f; [left; apply Hct; reflexivity|right; apply no_answer_spec; exact Hq]. }
    pose proof (on_update_eq t a rty now (spec a) Hok Hcase (HE a)) as Hu. destruct (on_update t a rty now) as [t1 g1].
    destruct Hu as [Hua Huo].
    assert (Hst : exists t2 g2, (if rty =? MSG_STALL then on_stall t1 a last now else (t1, [])) = (t2, g2) /\
              forall b, n_resp (get t2 b) = n_resp (get t1 b) ++ transmitted now (flat_map (rel_of b) g2)).
    { destruct (rty =? MSG_STALL).
      - pose proof (on_stall_resp t1 a last now) as H. destruct (on_stall t1 a last now) as [t2 g2]. exists t2, g2. auto.
      - exists t1, []. split; [reflexivity|]. intros b. cbn. rewrite app_nil_r. reflexivity. }
    destruct Hst as (t2 & g2 & -> & H2). intros b. cbn [spec_step].
    rewrite released_rel, flat_map_app, transmitted_app, H2.
    destruct (addr_eqb_spec b a) as [->|Hn].
    + rewrite app_assoc, !live_app, live_transmitted. f_equal. rewrite Hua, live_app. reflexivity.
    + destruct (Huo b Hn) as [E1 E2]. rewrite E1, E2. unfold transmitted at 2. cbn [filter map app].
      rewrite !live_app. f_equal. apply HE.
  - (* FTime *)
    cbn in Hm. apply N.leb_le in Hm. intros b. cbn [spec_step].
    rewrite <- (live_later now n _ Hm), <- (live_later now n (spec b) Hm), (HE b). reflexivity.
  - intros b. apply HE.
  - intros b. apply HE.
  - intros b. apply HE.
  - intros b. cbn [spec_step]. unfold get; cbn. reflexivity.
  - (* FExpire *)
    unfold on_expire. pose proof (expire_loop_live (map fst t) t now []) as He.
    destruct (expire_loop (map fst t) t now []) as [t1 gs]. destruct He as (more & Hgs & Hr). cbn [app] in Hgs. subst more.
    intros b. cbn [spec_step]. rewrite released_rel, live_app, live_transmitted, Hr. f_equal. apply HE.
Qed.

(* ---- along a history ---- *)
Fixpoint quiet_gaps (f : bool) (es : list fev) : bool :=
  match es with [] => true | e :: r => quiet_event f e && quiet_gaps (settle_step f e) r end.

Lemma spec_run_eq es : forall f t so now spec, clock_mono now es = true -> quiet_gaps f es = true ->
  TI f t now -> EQ now spec t ->
  let '(t', now', spec') := spec_run t so now es spec in TI (settled_from f es) t' now' /\ EQ now' spec' t'.
Proof.
  induction es as [|e r IH]; intros f t so now spec Hc Hq Hi HE; cbn [spec_run settled_from]; [split; assumption|].
  cbn [clock_mono] in Hc. apply andb_true_iff in Hc as [Hc1 Hc2].
  cbn [quiet_gaps] in Hq. apply andb_true_iff in Hq as [Hq1 Hq2].
  pose proof (tab_step_ti f t so now e Hc1 Hi) as H1. pose proof (tab_step_now t so now e) as Hn.
  destruct Hi as (Hok & Has & Hf).
  pose proof (tab_step_eq f t so now e spec Hok (fun E => proj2 (Hf E)) Hq1 Hc1 HE) as H2.
  destruct (tab_step t so now e) as [[[[t1 s1] n1] g1] o1]. subst n1.
  apply IH; assumption.
Qed.

(* The never-stranded clause of C03 in the property's own accounting. *)
Theorem no_strand_spec es so now0 : clock_mono now0 es = true -> timer_settled es = true -> quiet_gaps true es = true ->
  let '(t, now, spec) := spec_run [] so now0 es (fun _ => []) in
  forall a, n_held (get t a) <> [] -> unblocked t a ->
    exists ty m rest, n_held (get t a) = (ty, m) :: rest /\
                      outstanding_sum now (spec a) = n_used (get t a) /\
                      response_limit < outstanding_sum now (spec a) + resp_size ty.
Proof.
  intros Hc Hs Hq.
  assert (HE0 : EQ now0 (fun _ => []) []) by (intros b; reflexivity).
  pose proof (spec_run_eq es true [] so now0 (fun _ => []) Hc Hq (TI_init now0) HE0) as H.
  unfold timer_settled in Hs. rewrite Hs in H.
  destruct (spec_run [] so now0 es (fun _ => [])) as [[t now] spec]. destruct H as ((Hok & _ & Hf) & HE).
  destruct (Hf eq_refl) as [Hns Hct]. intros a Hh Hu.
  destruct (Hns a Hh) as [(ty & m & rest & Eh & Hb)|Hr]; [|exfalso; exact (registered_blocked t a Hr Hu)].
  assert (Hsum : outstanding_sum now (spec a) = n_used (get t a)).
  { rewrite outstanding_sum_sumsz, <- (HE a), (live_young now (get t a)) by (apply CT_RO; exact Hct).
    destruct (Hok a) as [-> _]. reflexivity. }
  exists ty, m, rest. split; [exact Eh|]. split; [exact Hsum|]. rewrite Hsum. exact Hb.
Qed.

(* timer_follows histories have no window at all *)
Lemma timer_follows_quiet es : forall f, timer_follows es = true ->
  (f = true \/ exists r, es = FExpire :: r) -> quiet_gaps f es = true.
Proof.
  induction es as [|e r IH]; intros f Ht Hf; cbn [quiet_gaps]; [reflexivity|].
  destruct e as [a3 ty data|a rty last|n| |c|b| |]; cbn [quiet_event settle_step timer_follows] in *;
    try (destruct Hf as [->|(r0 & E)]; [cbn [orb andb]; apply IH; [exact Ht|left; reflexivity]|discriminate]).
  - destruct r as [|e' r']; [discriminate|]. destruct e'; try discriminate. cbn [andb]. apply IH; [exact Ht|]. right. eexists. reflexivity.
  - cbn [andb]. apply IH; [exact Ht|left; reflexivity].
Qed.

Theorem no_strand_spec_follows es so now0 : clock_mono now0 es = true -> timer_follows es = true ->
  let '(t, now, spec) := spec_run [] so now0 es (fun _ => []) in
  forall a, n_held (get t a) <> [] -> unblocked t a ->
    exists ty m rest, n_held (get t a) = (ty, m) :: rest /\
                      outstanding_sum now (spec a) = n_used (get t a) /\
                      response_limit < outstanding_sum now (spec a) + resp_size ty.
Proof.
  intros Hc Ht. apply no_strand_spec; [exact Hc| |].
  - apply timer_follows_settled; [exact Ht|left; reflexivity].
  - apply timer_follows_quiet; [exact Ht|left; reflexivity].
Qed.
