(* LockExcl.v — mutual exclusion in the interleaving semantics of LockSem.v (C10):
   at most one thread holds a lock in exclusive mode, and then nobody else holds it at all; for locks
   that are only ever taken exclusively (mutexes), two threads are never both about to perform an
   access guarded by the same lock. *)
From Coq Require Import List Arith Bool Lia PeanoNat.
From LB Require Import LockLang LockSem.
Import ListNotations.

Section Excl.
Variable rank : nat -> nat.
Variable guard : nat -> option nat.

Definition mem (l : nat) (H : list nat) : bool := existsb (Nat.eqb l) H.
Definition b2n (b : bool) : nat := if b then 1 else 0.

Fixpoint hcount (l : nat) (c : config) : nat :=
  match c with [] => 0 | t :: r => b2n (mem l (th_held t)) + hcount l r end.
Fixpoint wcount (l : nat) (c : config) : nat :=
  match c with [] => 0 | t :: r => b2n (mem l (th_w t)) + wcount l r end.

Lemma hcount_app l a b : hcount l (a ++ b) = hcount l a + hcount l b.
Proof. induction a as [|t r IH]; cbn; [reflexivity|]. rewrite IH. lia. Qed.
Lemma wcount_app l a b : wcount l (a ++ b) = wcount l a + wcount l b.
Proof. induction a as [|t r IH]; cbn; [reflexivity|]. rewrite IH. lia. Qed.

Lemma mem_In l H : mem l H = true <-> In l H.
Proof.
  unfold mem. rewrite existsb_exists. split.
  - intros (x & Hx & E). apply Nat.eqb_eq in E. subst. exact Hx.
  - intros Hin. exists l. split; [exact Hin|apply Nat.eqb_refl].
Qed.

Lemma hcount_zero l c : ~ holds_any c l -> hcount l c = 0.
Proof.
  induction c as [|t r IH]; intros H; [reflexivity|]. cbn [hcount].
  destruct (mem l (th_held t)) eqn:E.
  - exfalso. apply H. exists t. split; [left; reflexivity|apply mem_In; exact E].
  - rewrite IH; [reflexivity|]. intros (t' & Hin & Hl). apply H. exists t'. split; [right; exact Hin|exact Hl].
Qed.
Lemma wcount_zero l c : ~ holds_w c l -> wcount l c = 0.
Proof.
  induction c as [|t r IH]; intros H; [reflexivity|]. cbn [wcount].
  destruct (mem l (th_w t)) eqn:E.
  - exfalso. apply H. exists t. split; [left; reflexivity|apply mem_In; exact E].
  - rewrite IH; [reflexivity|]. intros (t' & Hin & Hl). apply H. exists t'. split; [right; exact Hin|exact Hl].
Qed.

Lemma wcount_le_hcount l c : Inv rank guard c -> wcount l c <= hcount l c.
Proof.
  induction c as [|t r IH]; intros Hi; [cbn; lia|]. inversion Hi as [|? ? Hth Hr]; subst. destruct Hth as [_ Hw]. cbn [wcount hcount].
  specialize (IH Hr). destruct (mem l (th_w t)) eqn:E; cbn [b2n]; [|lia].
  apply mem_In in E. apply Hw in E. apply mem_In in E. rewrite E. cbn. lia.
Qed.

Definition Excl (c : config) : Prop := forall l, wcount l c <= 1 /\ (wcount l c = 1 -> hcount l c = 1).

Lemma in_ins l H x : In x (insert l H) <-> x = l \/ In x H.
Proof.
  induction H as [|h t IH]; cbn; [intuition|]. destruct (Nat.leb l h); cbn; [intuition|]. rewrite IH. intuition.
Qed.
Lemma rem1_incl l H x : In x (remove1 l H) -> In x H.
Proof. induction H as [|h t IH]; cbn; [tauto|]. destruct (Nat.eqb l h); cbn; tauto. Qed.
Lemma in_rem1_other l H x : x <> l -> In x H -> In x (remove1 l H).
Proof.
  intros Hn. induction H as [|h t IH]; cbn; [tauto|]. destruct (Nat.eqb_spec l h) as [->|Hlh].
  - intros [E|Hin]; [congruence|exact Hin].
  - intros [E|Hin]; [left; exact E|right; apply IH; exact Hin].
Qed.

Lemma mem_insert l l0 H : mem l (insert l0 H) = Nat.eqb l l0 || mem l H.
Proof.
  destruct (mem l (insert l0 H)) eqn:E.
  - apply mem_In in E. destruct (proj1 (in_ins l0 H l) E) as [->|E2]; clear E.
    + rewrite Nat.eqb_refl. reflexivity.
    + apply mem_In in E2. rewrite E2. symmetry. apply orb_true_r.
  - symmetry. apply orb_false_iff. split.
    + apply Nat.eqb_neq. intros ->. assert (mem l0 (insert l0 H) = true) by (apply mem_In, in_ins; left; reflexivity). congruence.
    + destruct (mem l H) eqn:E2; [|reflexivity]. apply mem_In in E2.
      assert (mem l (insert l0 H) = true) by (apply mem_In, in_ins; right; exact E2). congruence.
Qed.

Lemma mem_remove1_other l l0 H : l <> l0 -> mem l (remove1 l0 H) = mem l H.
Proof.
  intros Hn. destruct (mem l H) eqn:E.
  - apply mem_In. apply mem_In in E. apply in_rem1_other; assumption.
  - destruct (mem l (remove1 l0 H)) eqn:E2; [|reflexivity]. apply mem_In in E2. apply rem1_incl in E2. apply mem_In in E2. congruence.
Qed.

Lemma mem_filter_other l l0 W : l <> l0 -> mem l (filter (fun x => negb (Nat.eqb x l0)) W) = mem l W.
Proof.
  intros Hn. destruct (mem l W) eqn:E.
  - apply mem_In. apply mem_In in E. apply filter_In. split; [exact E|]. apply negb_true_iff, Nat.eqb_neq. exact Hn.
  - destruct (mem l (filter _ W)) eqn:E2; [|reflexivity]. apply mem_In in E2. apply filter_In in E2 as [E2 _]. apply mem_In in E2. congruence.
Qed.
Lemma mem_filter_same l0 W : mem l0 (filter (fun x => negb (Nat.eqb x l0)) W) = false.
Proof.
  destruct (mem l0 (filter _ W)) eqn:E; [|reflexivity]. apply mem_In in E. apply filter_In in E as [_ E].
  rewrite Nat.eqb_refl in E. discriminate.
Qed.

Theorem excl_preserved c c' : Inv rank guard c -> Excl c -> step rank guard c c' -> Excl c'.
Proof.
  intros Hinv He Hs. destruct Hs as [pre t t' post Hts]. intros l. specialize (He l).
  pose proof (wcount_le_hcount l _ Hinv) as Hle.
  assert (Hparts : wcount l pre <= hcount l pre /\ wcount l post <= hcount l post).
  { unfold Inv in Hinv. apply Forall_app in Hinv as [Hp Hq]. inversion Hq as [|? ? _ Hq']; subst.
    split; apply wcount_le_hcount; assumption. }
  rewrite !hcount_app, !wcount_app in *. cbn [hcount wcount] in *.
  inversion Hts as [H W l0 p H' Hfree Ha|H W l0 p H' Hfree Ha|H W l0 p H' Ha|H W g p Ha]; subst; cbn [th_held th_w] in *.
  - (* exclusive acquire *)
    cbn [act_ok] in Ha. destruct (forallb _ H); [|discriminate]. injection Ha as <-.
    destruct (Nat.eq_dec l l0) as [->|Hn].
    + pose proof (hcount_zero l0 _ Hfree) as Hz. rewrite hcount_app in Hz. cbn [hcount th_held] in Hz.
      assert (Hw0 : wcount l0 pre + (b2n (mem l0 W) + wcount l0 post) = 0) by lia.
      rewrite mem_insert, Nat.eqb_refl. cbn [orb b2n mem existsb]. rewrite Nat.eqb_refl. cbn [orb b2n]. lia.
    + rewrite mem_insert. apply Nat.eqb_neq in Hn. rewrite Hn. cbn [orb mem existsb]. rewrite Hn. cbn [orb]. exact He.
  - (* shared acquire *)
    cbn [act_ok] in Ha. destruct (forallb _ H); [|discriminate]. injection Ha as <-.
    destruct (Nat.eq_dec l l0) as [->|Hn].
    + pose proof (wcount_zero l0 _ Hfree) as Hz. rewrite wcount_app in Hz. cbn [wcount th_w] in Hz. lia.
    + rewrite mem_insert. apply Nat.eqb_neq in Hn. rewrite Hn. cbn [orb]. exact He.
  - (* release *)
    cbn [act_ok] in Ha. destruct (existsb (Nat.eqb l0) H) eqn:Eh; [|discriminate]. injection Ha as <-.
    destruct (Nat.eq_dec l l0) as [->|Hn].
    + rewrite mem_filter_same. cbn [b2n]. fold (mem l0 H) in Eh. rewrite Eh in *. cbn [b2n] in *.
      destruct He as [He1 He2]. split; [lia|]. intros Hw1.
      destruct (mem l0 W) eqn:Ew; cbn [b2n] in *; [lia|].
      (* another thread is the writer: then it was the only holder, but t held the lock too *)
      assert (wcount l0 pre + (0 + wcount l0 post) = 1) by lia. specialize (He2 H0). destruct Hparts. lia.
    + rewrite mem_remove1_other, mem_filter_other by exact Hn. exact He.
  - exact He.
Qed.

Lemma Excl_initial (tps : list (list (list act))) : Excl (map fresh_thread tps).
Proof.
  intros l. assert (H : wcount l (map fresh_thread tps) = 0 /\ hcount l (map fresh_thread tps) = 0).
  { induction tps as [|p r [A B]]; cbn; [auto|]. rewrite A, B. auto. }
  destruct H as [A B]. rewrite A. split; [lia|lia].
Qed.

Lemma Excl_reach c c' : Inv rank guard c -> Excl c -> reach rank guard c c' -> Excl c'.
Proof.
  intros Hi He Hr. induction Hr as [c|c c1 c2 Hs _ IH]; [exact He|].
  apply IH; [eapply preservation; eauto|eapply excl_preserved; eauto].
Qed.

(* two different threads never both hold a lock if one of them holds it exclusively *)
Theorem writer_excludes pre t mid t' post l :
  Inv rank guard (pre ++ t :: mid ++ t' :: post) ->
  Excl (pre ++ t :: mid ++ t' :: post) -> In l (th_w t) -> In l (th_held t') -> False.
Proof.
  intros Hi He Hw Hh.
  assert (Hth : In l (th_held t)).
  { unfold Inv in Hi. apply Forall_app in Hi as [_ Hq]. inversion Hq as [|? ? [_ Hincl] _]; subst. apply Hincl. exact Hw. }
  specialize (He l). rewrite !hcount_app, !wcount_app in He. cbn [hcount wcount] in He.
  rewrite !hcount_app, !wcount_app in He. cbn [hcount wcount] in He.
  apply mem_In in Hw. apply mem_In in Hh. apply mem_In in Hth. rewrite Hw, Hh, Hth in He. cbn [b2n] in He.
  destruct He as [He1 He2].
  assert (Hw1 : wcount l pre + (1 + (wcount l mid + (b2n (mem l (th_w t')) + wcount l post))) = 1) by lia.
  specialize (He2 Hw1). lia.
Qed.

(* the same with the two threads in the other order *)
Theorem writer_excludes' pre t mid t' post l :
  Inv rank guard (pre ++ t :: mid ++ t' :: post) ->
  Excl (pre ++ t :: mid ++ t' :: post) -> In l (th_w t') -> In l (th_held t) -> False.
Proof.
  intros Hi He Hw Hh.
  assert (Hth : In l (th_held t')).
  { unfold Inv in Hi. apply Forall_app in Hi as [_ Hq]. inversion Hq as [|? ? _ Hq2]; subst.
    apply Forall_app in Hq2 as [_ Hq3]. inversion Hq3 as [|? ? [_ Hincl] _]; subst. apply Hincl. exact Hw. }
  specialize (He l). rewrite !hcount_app, !wcount_app in He. cbn [hcount wcount] in He.
  rewrite !hcount_app, !wcount_app in He. cbn [hcount wcount] in He.
  apply mem_In in Hw. apply mem_In in Hh. apply mem_In in Hth. rewrite Hw, Hh, Hth in He. cbn [b2n] in He.
  destruct He as [He1 He2].
  assert (Hw1 : wcount l pre + (b2n (mem l (th_w t)) + (wcount l mid + (1 + wcount l post))) = 1) by lia.
  specialize (He2 Hw1). lia.
Qed.

(* ---- locks that are only ever taken exclusively (mutexes): every holder is the exclusive holder ---- *)
Definition no_shared (l : nat) (c : config) : Prop := forall t, In t c -> ~ In (AAcq l false) (th_prog t).
Definition HW (l : nat) (c : config) : Prop :=
  forall t, In t c -> NoDup (th_held t) /\ (In l (th_held t) -> In l (th_w t)).

Lemma NoDup_insert l H : ~ In l H -> NoDup H -> NoDup (insert l H).
Proof.
  intros Hn Hd. induction H as [|h t IH]; cbn; [constructor; [tauto|constructor]|].
  destruct (Nat.leb l h); [constructor; assumption|].
  inversion Hd as [|? ? Hh Ht]; subst. constructor.
  - intro Hin. apply in_ins in Hin as [->|Hin]; [apply Hn; left; reflexivity|contradiction].
  - apply IH; [intro; apply Hn; right; assumption|exact Ht].
Qed.
Lemma NoDup_remove1 l H : NoDup H -> NoDup (remove1 l H) /\ ~ In l (remove1 l H).
Proof.
  induction 1 as [|h t Hh Ht IH]; cbn; [split; [constructor|tauto]|].
  destruct (Nat.eqb_spec l h) as [->|Hn]; [split; assumption|].
  destruct IH as [A B]. split.
  - constructor; [intro Hin; apply Hh; eapply rem1_incl; eauto|exact A].
  - intros [E|Hin]; [congruence|contradiction].
Qed.

Lemma no_shared_step l c c' : no_shared l c -> step rank guard c c' -> no_shared l c'.
Proof.
  intros Hns Hs. destruct Hs as [pre t t' post Hts]. intros x Hin. apply in_app_or in Hin as [Hin|[<-|Hin]].
  - apply Hns. apply in_or_app. left. exact Hin.
  - assert (Ht : ~ In (AAcq l false) (th_prog t)) by (apply Hns; apply in_or_app; right; left; reflexivity).
    inversion Hts; subst; cbn [th_prog] in *; intro Hx; apply Ht; right; exact Hx.
  - apply Hns. apply in_or_app. right. right. exact Hin.
Qed.

Lemma HW_step l c c' : no_shared l c -> HW l c -> step rank guard c c' -> HW l c'.
Proof.
  intros Hns Hw Hs. destruct Hs as [pre t t' post Hts]. intros x Hin.
  assert (Ht : NoDup (th_held t) /\ (In l (th_held t) -> In l (th_w t))) by (apply Hw; apply in_or_app; right; left; reflexivity).
  assert (Hnt : ~ In (AAcq l false) (th_prog t)) by (apply Hns; apply in_or_app; right; left; reflexivity).
  apply in_app_or in Hin as [Hin|[<-|Hin]]; [apply Hw; apply in_or_app; left; exact Hin| |apply Hw; apply in_or_app; right; right; exact Hin].
  destruct Ht as [Hnd Himp].
  inversion Hts as [H W l0 p H' Hfree Ha|H W l0 p H' Hfree Ha|H W l0 p H' Ha|H W g p Ha]; subst; cbn [th_held th_w th_prog] in *.
  - cbn [act_ok] in Ha. destruct (forallb (fun h => Nat.ltb (rank h) (rank l0)) H) eqn:Ef; [|discriminate]. injection Ha as <-.
    assert (Hnot : ~ In l0 H).
    { intro Hin0. rewrite forallb_forall in Ef. specialize (Ef l0 Hin0). apply Nat.ltb_lt in Ef. lia. }
    split; [apply NoDup_insert; assumption|]. intros Hl. apply in_ins in Hl as [->|Hl]; [left; reflexivity|right; apply Himp; exact Hl].
  - cbn [act_ok] in Ha. destruct (forallb (fun h => Nat.ltb (rank h) (rank l0)) H) eqn:Ef; [|discriminate]. injection Ha as <-.
    assert (Hnot : ~ In l0 H).
    { intro Hin0. rewrite forallb_forall in Ef. specialize (Ef l0 Hin0). apply Nat.ltb_lt in Ef. lia. }
    split; [apply NoDup_insert; assumption|]. intros Hl. apply in_ins in Hl as [->|Hl]; [exfalso; apply Hnt; left; reflexivity|apply Himp; exact Hl].
  - cbn [act_ok] in Ha. destruct (existsb (Nat.eqb l0) H); [|discriminate]. injection Ha as <-.
    destruct (NoDup_remove1 l0 H Hnd) as [A B]. split; [exact A|]. intros Hl.
    apply filter_In. split; [apply Himp; eapply rem1_incl; eauto|].
    apply negb_true_iff, Nat.eqb_neq. intros ->. contradiction.
  - split; assumption.
Qed.

Lemma HW_reach l c c' : no_shared l c -> HW l c -> reach rank guard c c' -> HW l c' /\ no_shared l c'.
Proof.
  intros Hn Hw Hr. induction Hr as [c|c c1 c2 Hs _ IH]; [split; assumption|].
  apply IH; [eapply no_shared_step; eauto|eapply HW_step; eauto].
Qed.

(* mutual exclusion: two different threads are never both about to access data guarded by the same
   exclusively-taken lock *)
Theorem mutual_exclusion pre t mid t' post l g g' p p' :
  Inv rank guard (pre ++ t :: mid ++ t' :: post) -> Excl (pre ++ t :: mid ++ t' :: post) ->
  HW l (pre ++ t :: mid ++ t' :: post) ->
  guard g = Some l -> guard g' = Some l ->
  th_prog t = AAcc g :: p -> th_prog t' = AAcc g' :: p' -> False.
Proof.
  intros Hi He Hw Hg Hg' Hp Hp'.
  assert (Hholds : forall x gx px, In x (pre ++ t :: mid ++ t' :: post) -> guard gx = Some l -> th_prog x = AAcc gx :: px -> In l (th_held x)).
  { intros x gx px Hin Hgx Hpx. unfold Inv in Hi. rewrite Forall_forall in Hi. destruct (Hi x Hin) as [Hok _].
    rewrite Hpx in Hok. cbn [acts_ok act_ok] in Hok. rewrite Hgx in Hok.
    destruct (existsb (Nat.eqb l) (th_held x)) eqn:E; [|discriminate]. apply mem_In. exact E. }
  assert (Hin1 : In t (pre ++ t :: mid ++ t' :: post)) by (apply in_or_app; right; left; reflexivity).
  assert (Hin2 : In t' (pre ++ t :: mid ++ t' :: post)) by (apply in_or_app; right; right; apply in_or_app; right; left; reflexivity).
  pose proof (Hholds t g p Hin1 Hg Hp) as H1. pose proof (Hholds t' g' p' Hin2 Hg' Hp') as H2.
  destruct (Hw t Hin1) as [_ Hw1]. eapply writer_excludes; [exact Hi|exact He|apply Hw1; exact H1|exact H2].
Qed.

End Excl.
