(* Properties_C17.v — C17: query results are initialised deep copies, safe to free for known / unknown /
   NULL ids; the whole-track snapshot carries the same values as the single-entity getters.
   State of /repo after the C17 repairs (query structs zero-initialised; snapshot and DCC branches copy every
   member; index getters return -1 for NULL; parsers initialise every state member).

   [call g a1 a2 st] (Getters.v) is the ownership shape of what getter g returns in library state st
   (st = contents of bidib_boards / bidib_trains / bidib_track_state). Arguments: ANull = NULL pointer,
   AStr s = C string (known or unknown is decided by st), ARaw = by-value struct bytes. *)
From Coq Require Import List NArith Bool String.
From LB Require Import Getters GettersProofs GetterFacts GetterFactsCheck.
Import ListNotations.
Local Open Scope string_scope.
Local Open Scope N_scope.

(* --- deep copy: no member of any result of any getter, for any arguments and state, points into the
   library state; and such a result reads the same whatever the library does later (state changes, stop) *)
Theorem C17_deep_copy : forall g a1 a2 st s, call g a1 a2 st = Res s ->
  has_alias s = false /\ forall later1 later2, observe later1 s = observe later2 s.
Proof. exact (fun g a1 a2 st s H => conj (no_alias g a1 a2 st s H) (deep_copy s (no_alias g a1 a2 st s H))). Qed.
Print Assumptions C17_deep_copy.

(* --- initialised: no result of any getter, for any argument (known, unknown, NULL), has an undefined member.
   The one hypothesis is about the input, not about the getters: the library state itself has no member that
   was never initialised ([state_defined]: a getter that copies such a member faithfully returns it). The parsers
   now initialise every member; the check verifies on every run that the state abstraction contains none. *)
Theorem C17_initialised : forall g a1 a2 st s,
  state_defined st = true -> call g a1 a2 st = Res s -> has_undef s = false.
Proof. exact initialised. Qed.
Print Assumptions C17_initialised.

(* --- free: the free function of the result type never faults: it never frees anything but NULL or a block
   of this very result and never reads an undefined count *)
Theorem C17_free_ok : forall g a1 a2 st s, call g a1 a2 st = Res s -> free_query (rtype_of g) s = FOk.
Proof. exact free_ok. Qed.
Print Assumptions C17_free_ok.

(* --- every getter returns for every argument and state *)
Theorem C17_total : forall g a1 a2 st, exists s, call g a1 a2 st = Res s.
Proof. exact total. Qed.
Print Assumptions C17_total.

(* --- snapshot: with unique ids (what the parser enforces), every member of every entity of bidib_get_state
   equals the member the single-entity getter returns for that id in the same state *)
Theorem C17_snapshot_eq : forall st, ids_unique st -> snapshot_mismatches st = [].
Proof. exact snapshot_eq. Qed.
Print Assumptions C17_snapshot_eq.

(* --- the model agrees with the source: for every getter that builds a `query` and every snapshot helper, the
   member list of the result / element type and the members left unwritten on the NULL, not-found and found
   paths, as recomputed from the clang AST on this run (GetterFacts.v, generated), are exactly those of the model
   (none is left unwritten any more); no pointer member is assigned from anything but strdup / malloc / NULL *)
Theorem C17_model_matches_source : facts_check = true.
Proof. exact facts_agree. Qed.
Print Assumptions C17_model_matches_source.

(* the hypotheses are satisfiable by a state with every kind of entity, and the theorems say something there *)
Example C17_nonvacuous :
  state_defined ex_state = true /\ ids_unique ex_state /\
  (exists s, call GPeripheralState (AStr [108; 49]) ANull ex_state = Res s /\
             has_undef s = false /\ free_query (rtype_of GPeripheralState) s = FOk /\ fld "data.state_id" s = PFresh (Str unknown_str)) /\
  (exists s, call GPeripheralState (AStr [120]) ANull ex_state = Res s /\ fld "available" s = sc 0 /\
             fld "data.state_id" s = PNull /\ has_undef s = false) /\
  (exists s, call GPointStateIndex ANull ANull ex_state = Res s /\ fld "result" s = sc max_size_t) /\
  (exists s, call GState ANull ANull ex_state = Res s /\ has_undef s = false /\ has_alias s = false) /\
  List.length (arr_elems (fld "booster" (snapshot ex_state))) = 1%nat.
Proof.
  split; [reflexivity|]. split; [exact ex_state_unique|].
  repeat (split; [eexists; split; [reflexivity|vm_compute; repeat split]|]). reflexivity.
Qed.
