(* LockWaitC11.v — no public call and no internal thread other than the receiver waits for the receiver thread (polls
   the intern uplink queue) while holding a lock the receiver thread may need: the fact, checked against the
   generated lock programs, its meaning, and non-vacuity. *)
From Coq Require Import List Arith Bool.
From LB Require Import LockLang LockCfg LockSem LockTrace LockAtomic LockWait LockWitness.
Import ListNotations.

(* the receiver's acquisitions listed by the translator cover what the lock programs say *)
Lemma rx_acqs_complete : forallb (fun e => amem e rx_acqs) (fn_acqs body call_depth rx_main) = true.
Proof. vm_compute. reflexivity. Qed.

Lemma nat_mem_In x s : existsb (Nat.eqb x) s = true -> In x s.
Proof. intros H. apply existsb_exists in H as (y & Hy & E). apply Nat.eqb_eq in E. subst. exact Hy. Qed.

Lemma In_amem e s : In e s -> amem e s = true.
Proof.
  intros H. unfold amem. apply existsb_exists. exists e. split; [exact H|]. rewrite Nat.eqb_refl, Bool.eqb_reflx. reflexivity.
Qed.

Theorem rx_acquires_only_listed args p l w : run_call body call_depth args rx_main p -> In (AAcq l w) p -> In (l, w) rx_acqs.
Proof.
  intros Hr Hin. pose proof (fn_acqs_sound body call_depth args rx_main p l w Hr Hin) as H.
  pose proof rx_acqs_complete as Hc. rewrite forallb_forall in Hc. apply amem_In. apply Hc. exact H.
Qed.

(* (lock, mode it is held in) that conflicts with some acquisition of the receiver: held exclusively and the receiver
   takes the lock at all, or held shared and the receiver takes it exclusively; the wait queue's own mutex (taken and
   released inside the pop) does not count *)
Definition wait_forb (l : nat) (w : bool) : bool :=
  negb (existsb (Nat.eqb l) wait_mutexes) &&
  (if w then existsb (fun h => Nat.eqb (fst h) l) rx_acqs else amem (l, true) rx_acqs).

Lemma wait_forb_meaning l w : wait_forb l w = false ->
  existsb (Nat.eqb l) wait_mutexes = false -> forall w', In (l, w') rx_acqs -> w = false /\ w' = false.
Proof.
  unfold wait_forb. intros H Hm w' Hin. rewrite Hm in H. simpl negb in H. rewrite andb_true_l in H.
  destruct w.
  - exfalso. rewrite (proj2 (existsb_exists _ _)) in H; [discriminate|].
    exists (l, w'). split; [exact Hin|apply Nat.eqb_refl].
  - split; [reflexivity|]. destruct w'; [|reflexivity]. rewrite (In_amem _ _ Hin) in H. discriminate.
Qed.

(* THE FACT: every public function and every thread main other than the receiver is accepted *)
Lemma no_wait_all : forallb (no_wait wait_forb wait_globals body call_depth) nonrx_entries = true.
Proof. vm_compute. reflexivity. Qed.

(* static: on every path of every such entry, at every wait point, a lock acquired and not yet released on that path is
   not forbidden: unless it is the wait queue's own mutex, it conflicts with no acquisition the
   receiver thread can perform *)
Theorem no_wait_holding_receiver_lock f args p pre g wr rest l w :
  In f nonrx_entries -> run_call body call_depth args f p ->
  p = pre ++ AAcc g wr :: rest -> In g wait_globals -> held_in pre l w -> wait_forb l w = false.
Proof.
  intros Hf Hr Hp Hg Hh. pose proof no_wait_all as Ha. rewrite forallb_forall in Ha.
  exact (no_wait_sound wait_forb wait_globals body call_depth f (Ha f Hf) args p Hr pre g wr rest l w Hp Hg Hh).
Qed.

(* semantic: any execution of any number of threads; thread i runs one call of such an entry and is about to perform a
   wait access; the receiver's main can acquire (l, w') on some path. If thread i holds l in mode w (not the wait queue's
   own mutex), then both modes are shared: thread i does not block the receiver there *)
Theorem waiter_never_blocks_receiver (tps : list (list (list act))) tr c i f args p t g wr rest l w w' argsr pr :
  nth_error tps i = Some [p] -> In f nonrx_entries -> run_call body call_depth args f p ->
  exec rank guard (map fresh_thread tps) tr c ->
  nth_error c i = Some t -> th_prog t = AAcc g wr :: rest -> In g wait_globals ->
  In (l, w) (th_held t) ->
  run_call body call_depth argsr rx_main pr -> In (AAcq l w') pr ->
  existsb (Nat.eqb l) wait_mutexes = false ->
  w = false /\ w' = false.
Proof.
  intros Hi Hf Hr He Ht Hp Hg Hin Hrx Hacq Hm.
  pose proof no_wait_all as Ha. rewrite forallb_forall in Ha.
  pose proof (no_wait_sound wait_forb wait_globals body call_depth f (Ha f Hf) args p Hr) as Hnw.
  pose proof (wait_point_holds_no_forbidden rank guard wait_forb wait_globals tps tr c i p t g wr rest Hi Hnw He Ht Hp Hg l w Hin) as Hfb.
  eapply wait_forb_meaning; [exact Hfb|exact Hm|]. eapply rx_acquires_only_listed; eauto.
Qed.

(* non-vacuity (when the translator found the witnesses: ex_wait_present): a concrete path of bidib_send_sys_reset reaches
   a wait point, and there nothing forbidden is held; the fact is real: once the releases of bidib_boards_rwlock are removed
   from bidib_state_init_allocation_table (the lock then stays held over the polling of bidib_state_query_nodetab, which is
   what seed C11-e amounts to) the checker rejects bidib_send_sys_reset *)
Fixpoint strip_rel (l : nat) (s : stmt) : stmt :=
  match s with
  | Rel l' => if Nat.eqb l l' then Skip else s
  | Seq a b => Seq (strip_rel l a) (strip_rel l b)
  | If a b => If (strip_rel l a) (strip_rel l b)
  | IfP i a b => IfP i (strip_rel l a) (strip_rel l b)
  | Loop a => Loop (strip_rel l a)
  | Catch a => Catch (strip_rel l a)
  | _ => s
  end.
Definition body_norel (f0 l : nat) (f : nat) : option stmt :=
  if Nat.eqb f f0 then option_map (strip_rel l) (body f) else body f.

Lemma no_wait_example : ex_wait_present = true ->
  In ex_wait_entry nonrx_entries /\ In ex_wait_global wait_globals /\ wait_forb ex_wait_lock true = true /\
  (exists pre wr rest, run_call body call_depth [] ex_wait_entry (pre ++ AAcc ex_wait_global wr :: rest) /\
     forall l w, held_in pre l w -> wait_forb l w = false) /\
  no_wait wait_forb wait_globals body call_depth ex_wait_entry = true /\
  no_wait wait_forb wait_globals (body_norel ex_wait_fn ex_wait_lock) call_depth ex_wait_entry = false.
Proof.
  intros E. first [discriminate E|clear E].
  assert (Hin : In ex_wait_entry nonrx_entries) by (apply nat_mem_In; vm_compute; reflexivity).
  assert (Hg : In ex_wait_global wait_globals) by (apply nat_mem_In; vm_compute; reflexivity).
  split; [exact Hin|]. split; [exact Hg|]. split; [vm_compute; reflexivity|]. split.
  - destruct (gen_call body call_depth [] ex_wait_entry ex_wait_choices) as [[p ch]|] eqn:Eg; [|vm_compute in Eg; discriminate].
    pose proof (gen_call_sound body call_depth _ _ _ _ _ Eg) as Hr.
    destruct (split_at (AAcc ex_wait_global true) p) as [[pre rest]|] eqn:Es;
      [|vm_compute in Eg; injection Eg as <- _; vm_compute in Es; discriminate].
    apply split_at_sound in Es. subst p. exists pre, true, rest. split; [exact Hr|].
    intros l w Hh. eapply no_wait_holding_receiver_lock; eauto.
  - split; vm_compute; reflexivity.
Qed.
