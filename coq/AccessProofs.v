From Coq Require Import List NArith Bool Arith Lia.
From LB Require Import Tables Framing FramingProofs NodeFlow Rx RxProofs AccessTab AccessModel.
Import ListNotations.
Local Open Scope N_scope.

Lemma fdbi_skip pre : Forall (fun b => b <> 0) pre -> forall cnt hd post i,
  (length pre < cnt)%nat -> i = length hd ->
  fdbi_loop (hd ++ pre ++ 0 :: post) i cnt = Some (i + length pre + 3)%nat.
Proof.
  induction pre as [|b pre IH]; intros Hnz cnt hd post i Hc Hi.
  - destruct cnt; [cbn in Hc; lia|]. cbn [fdbi_loop app]. subst i.
    rewrite nth_error_app2 by lia. rewrite Nat.sub_diag. cbn. f_equal. lia.
  - inversion Hnz as [|? ? Hb Hr]; subst. destruct cnt; [cbn in Hc; lia|]. cbn [fdbi_loop].
    rewrite nth_error_app2 by lia. rewrite Nat.sub_diag. cbn [nth_error app].
    apply N.eqb_neq in Hb. rewrite Hb.
    replace (hd ++ b :: pre ++ 0 :: post) with ((hd ++ [b]) ++ pre ++ 0 :: post) by (rewrite <- app_assoc; reflexivity).
    rewrite (IH Hr cnt (hd ++ [b]) post (S (length hd))); [f_equal; cbn; lia|cbn in Hc; lia|rewrite app_length; cbn; lia].
Qed.

(* for a message built with at least one data byte, data_index is the position of the first data byte *)
Lemma fdi_encode a3 sq ty data m : encode_msg a3 sq ty data = Some m -> data <> [] ->
  first_data_index m = Some (length (canon a3) + 4)%nat /\ length m = (length (canon a3) + 4 + length data)%nat.
Proof.
  unfold encode_msg. destruct (255 <? _) eqn:E; [discriminate|]. apply N.ltb_ge in E. intros H Hd. injection H as <-.
  destruct (addr_bytes_shape a3) as (pre & Hab & Hpre & Hnz & Hlen). rewrite Hab in *. rewrite <- Hpre.
  set (l0 := nlen data + nlen (pre ++ [0]) + 3 - 1).
  assert (Hl0 : N.to_nat l0 = (length data + length pre + 3)%nat).
  { unfold l0, nlen. rewrite app_length. cbn [length]. lia. }
  split.
  - unfold first_data_index. rewrite Hl0.
    change (l0 :: (pre ++ [0]) ++ [sq; ty] ++ data) with ([l0] ++ (pre ++ [0]) ++ [sq; ty] ++ data).
    rewrite <- (app_assoc pre [0]). cbn [app].
    change (l0 :: pre ++ 0 :: sq :: ty :: data) with ([l0] ++ pre ++ 0 :: sq :: ty :: data).
    rewrite (fdbi_skip pre Hnz _ [l0] (sq :: ty :: data) 1%nat); [f_equal; lia| |reflexivity].
    destruct data; [congruence|]. cbn [length]. lia.
  - cbn [length]. rewrite !app_length. cbn [length]. lia.
Qed.

(* a message that carries at least as many data bytes as its handler's largest fixed offset requires
   has all those reads inside the message *)
Lemma fixed_reads_long_enough a3 sq ty data m :
  encode_msg a3 sq ty data = Some m -> data <> [] -> (min_data_len ty <= length data)%nat ->
  fixed_reads_ok m ty = true.
Proof.
  intros He Hd Hmin. destruct (fdi_encode a3 sq ty data m He Hd) as [Hf Hl]. unfold fixed_reads_ok. rewrite Hf.
  apply forallb_forall. intros k Hk. apply Nat.ltb_lt. rewrite Hl.
  assert (S k <= min_data_len ty)%nat.
  { unfold min_data_len. induction (offsets_of ty) as [|x r IH]; [contradiction|]. cbn [fold_right].
    destruct Hk as [->|Hk]; [lia|]. specialize (IH Hk). lia. }
  lia.
Qed.
