/* drv.c — correspondence driver for libbidib (linked against objects compiled from /repo/src).
 *
 * Reads a script (one command per line) from stdin, drives the real library through its public
 * API and its non-static internal entry points, prints canonical observation lines to stdout.
 * No source change in /repo is needed: usleep/time/syslog are interposed at link time.
 */
#define _GNU_SOURCE
#include <stdio.h>
#include <stdlib.h>
#include <string.h>
#include <stdint.h>
#include <stdbool.h>
#include <pthread.h>
#include <time.h>
#include <unistd.h>
#include <stdarg.h>
#include <sched.h>
#include <errno.h>

#include "bidib.h"
#include "../src/transmission/bidib_transmission_intern.h"
#include "../src/state/bidib_state_intern.h"
#include "../src/state/bidib_state_setter_intern.h"
#include "../src/state/bidib_state_getter_intern.h"
#include "../src/highlevel/bidib_highlevel_intern.h"
#include "../src/lowlevel/bidib_lowlevel_intern.h"

/* ------------------------------------------------------------------ interposers */
static volatile long vclock = 1000000;
static volatile int fast_sleep = 1;
time_t time(time_t *t) { time_t v = (time_t)vclock; if (t) *t = v; return v; }

int usleep(useconds_t us) {
	if (fast_sleep) { struct timespec ts = {0, 20000}; (void)us; nanosleep(&ts, NULL); }
	else { struct timespec ts = {us / 1000000, (us % 1000000) * 1000}; nanosleep(&ts, NULL); }
	return 0;
}
static int drv_log = -1;
/* the interposed syslog really formats its arguments (into a scratch buffer), as the C library's would: a text that is
   passed as the format, or arguments that do not match it, fault here under the sanitizers instead of going unnoticed */
void syslog(int p, const char *f, ...) {
	char scratch[2048]; va_list ap;
	if (drv_log < 0) drv_log = getenv("DRV_LOG") != NULL;
	va_start(ap, f); vsnprintf(scratch, sizeof scratch, f, ap); va_end(ap);
	if (drv_log) { fputs(scratch, stderr); fputc('\n', stderr); }
	(void)p;
}
void vsyslog(int p, const char *f, va_list ap) { char scratch[2048]; vsnprintf(scratch, sizeof scratch, f, ap); (void)p; }
void openlog(const char *i, int o, int f) { (void)i; (void)o; (void)f; }
void closelog(void) {}

/* ------------------------------------------------------------------ output log */
static pthread_mutex_t out_mx = PTHREAD_MUTEX_INITIALIZER;
static char *outbuf; static size_t outlen, outcap;
static void out_raw(const char *s, size_t n) {
	if (outlen + n + 1 > outcap) { outcap = (outcap + n + 1) * 2; outbuf = realloc(outbuf, outcap); }
	memcpy(outbuf + outlen, s, n); outlen += n; outbuf[outlen] = 0;
}
static void outf(const char *fmt, ...) {
	char tmp[4096]; va_list ap; va_start(ap, fmt); int n = vsnprintf(tmp, sizeof tmp, fmt, ap); va_end(ap);
	if (n < 0) n = 0; if ((size_t)n >= sizeof tmp) n = (int)sizeof tmp - 1;   /* vsnprintf returns the untruncated length */
	pthread_mutex_lock(&out_mx); out_raw(tmp, (size_t)n); pthread_mutex_unlock(&out_mx);
}
static void out_hex(const char *tag, const uint8_t *b, int n) {
	pthread_mutex_lock(&out_mx);
	out_raw(tag, strlen(tag));
	if (n == 0) out_raw(" -", 2);
	else { out_raw(" ", 1); for (int i = 0; i < n; i++) { char h[3]; snprintf(h, 3, "%02x", b[i]); out_raw(h, 2); } }
	out_raw("\n", 1);
	pthread_mutex_unlock(&out_mx);
}
static void out_flush(void) {
	pthread_mutex_lock(&out_mx);
	if (outlen) { fwrite(outbuf, 1, outlen, stdout); outlen = 0; }
	fflush(stdout);
	pthread_mutex_unlock(&out_mx);
}

/* ------------------------------------------------------------------ callbacks */
static int log_writes = 1;
static void slow_write_hook(void);
static void write_cb(uint8_t *b, int32_t n) { slow_write_hook(); if (log_writes) out_hex("w", b, n); }

#define RXCAP (1 << 20)
static uint8_t rxbuf[RXCAP];
static volatile size_t rx_head, rx_tail;       /* consumer: receiver thread; producer: main */
static volatile unsigned long empty_polls;
static pthread_mutex_t rx_mx = PTHREAD_MUTEX_INITIALIZER;
static uint8_t read_cb(int *ok) {
	uint8_t v = 0;
	pthread_mutex_lock(&rx_mx);
	if (rx_head != rx_tail) { v = rxbuf[rx_head]; rx_head = (rx_head + 1) % RXCAP; *ok = 1; }
	else { *ok = 0; empty_polls++; }
	pthread_mutex_unlock(&rx_mx);
	return v;
}
static void rx_push(const uint8_t *b, int n) {
	pthread_mutex_lock(&rx_mx);
	for (int i = 0; i < n; i++) { rxbuf[rx_tail] = b[i]; rx_tail = (rx_tail + 1) % RXCAP; }
	pthread_mutex_unlock(&rx_mx);
}
/* all bytes consumed and the receiver has polled again (twice) with nothing to deliver */
static int rx_quiesce(int timeout_ms) {
	struct timespec t0, t; clock_gettime(CLOCK_MONOTONIC, &t0);
	unsigned long base = 0; int armed = 0;
	for (;;) {
		pthread_mutex_lock(&rx_mx);
		int empty = rx_head == rx_tail; unsigned long p = empty_polls;
		pthread_mutex_unlock(&rx_mx);
		if (empty) { if (!armed) { armed = 1; base = p; } else if (p >= base + 2) return 0; }
		else armed = 0;
		clock_gettime(CLOCK_MONOTONIC, &t);
		long ms = (t.tv_sec - t0.tv_sec) * 1000 + (t.tv_nsec - t0.tv_nsec) / 1000000;
		if (ms > timeout_ms) return 1;
		struct timespec ts = {0, 20000}; nanosleep(&ts, NULL);
	}
}

/* ------------------------------------------------------------------ helpers */
static int hexval(int c) { if (c >= '0' && c <= '9') return c - '0'; if (c >= 'a' && c <= 'f') return c - 'a' + 10; if (c >= 'A' && c <= 'F') return c - 'A' + 10; return -1; }
static int parse_hex(const char *s, uint8_t *dst, int max) {
	if (!s || !strcmp(s, "-")) return 0;
	int n = 0;
	while (s[0] && s[1] && n < max) { int a = hexval(s[0]), b = hexval(s[1]); if (a < 0 || b < 0) break; dst[n++] = (uint8_t)(a * 16 + b); s += 2; }
	return n;
}
static int msg_len(const uint8_t *m) { return m[0] + 1; }

#include "ext_all.inc"   /* generated at build time from harness/ext_*.inc */

int main(int argc, char **argv) {
	(void)argc; (void)argv;
	static char line[1 << 18];
	static uint8_t bytes[1 << 17];
	setvbuf(stdout, NULL, _IOFBF, 1 << 16);
	while (fgets(line, sizeof line, stdin)) {
		char *nl = strchr(line, '\n'); if (nl) *nl = 0;
		if (!line[0] || line[0] == '#') continue;
		char *save = NULL; char *cmd = strtok_r(line, " ", &save);
		char *a[16]; int na = 0; while (na < 16 && (a[na] = strtok_r(NULL, " ", &save))) na++;
		if (!strcmp(cmd, "case")) { out_flush(); outf("case %s\n", na ? a[0] : "?"); }
		else if (!strcmp(cmd, "start")) {
			/* start <debug-after 0|1> <configdir|-> <flush_interval_ms> */
			int dbg = atoi(a[0]); const char *dir = strcmp(a[1], "-") ? a[1] : NULL; unsigned fi = (unsigned)atoi(a[2]);
			bidib_set_lowlevel_debug_mode(true);
			int r = bidib_start_pointer(read_cb, write_cb, dir, fi);
			bidib_set_lowlevel_debug_mode(dbg != 0);
			outf("start %d\n", r);
		}
		else if (!strcmp(cmd, "rawstart")) {
			/* rawstart <debug 0|1> <configdir|-> <flush_interval_ms> : exactly what a user does */
			int dbg = atoi(a[0]); const char *dir = strcmp(a[1], "-") ? a[1] : NULL; unsigned fi = (unsigned)atoi(a[2]);
			bidib_set_lowlevel_debug_mode(dbg != 0);
			int r = bidib_start_pointer(read_cb, write_cb, dir, fi);
			outf("start %d\n", r);
		}
		else if (!strcmp(cmd, "stop")) { bidib_stop(); outf("stopped\n"); }
		else if (!strcmp(cmd, "debugmode")) { bidib_set_lowlevel_debug_mode(atoi(a[0]) != 0); }
		else if (!strcmp(cmd, "fastsleep")) { fast_sleep = atoi(a[0]); }
		else if (!strcmp(cmd, "logw")) { log_writes = atoi(a[0]); }
		else if (!strcmp(cmd, "cap")) { bidib_state_packet_capacity((uint8_t)atoi(a[0])); }
		else if (!strcmp(cmd, "add")) { parse_hex(a[0], bytes, sizeof bytes); bidib_add_to_buffer(bytes); }
		else if (!strcmp(cmd, "flush")) { bidib_flush(); }
		else if (!strcmp(cmd, "mark")) { outf("mark %s\n", na ? a[0] : ""); }
		else if (!strcmp(cmd, "send")) {
			/* send <top> <sub> <subsub> <type> <data-hex|-> [action id] */
			uint8_t addr[4] = {(uint8_t)atoi(a[0]), (uint8_t)atoi(a[1]), (uint8_t)atoi(a[2]), 0};
			uint8_t type = (uint8_t)atoi(a[3]); int n = parse_hex(a[4], bytes, 255);
			unsigned int action = na > 5 ? (unsigned int)atoi(a[5]) : 0;
			if (n == 0) bidib_buffer_message_without_data(addr, type, action);
			else bidib_buffer_message_with_data(addr, type, (uint8_t)n, bytes, action);
		}
		else if (!strcmp(cmd, "seqon")) { bidib_seq_num_enabled = atoi(a[0]) != 0; }
		else if (!strcmp(cmd, "reset_nodes")) { bidib_node_state_table_reset(true); }
		else if (!strcmp(cmd, "time")) { vclock = atol(a[0]); }
		else if (!strcmp(cmd, "rx")) {
			int n = parse_hex(a[0], bytes, sizeof bytes); rx_push(bytes, n);
			if (rx_quiesce(20000)) outf("rx-timeout\n");
		}
		else if (!strcmp(cmd, "rxnowait")) { int n = parse_hex(a[0], bytes, sizeof bytes); rx_push(bytes, n); }
		else if (!strcmp(cmd, "quiesce")) { if (rx_quiesce(20000)) outf("rx-timeout\n"); }
		else if (!strcmp(cmd, "idle")) {
			/* idle <n> : wait until the receiver thread has polled the read callback n more times without getting a byte */
			unsigned long want = (unsigned long)atol(a[0]), base;
			pthread_mutex_lock(&rx_mx); base = empty_polls; pthread_mutex_unlock(&rx_mx);
			for (int i = 0; i < 200000; i++) {
				pthread_mutex_lock(&rx_mx); unsigned long now = empty_polls; pthread_mutex_unlock(&rx_mx);
				if (now - base >= want) break;
				struct timespec ts = {0, 100000}; nanosleep(&ts, NULL);
			}
		}
		else if (!strcmp(cmd, "handle")) {
			/* handle <msg-hex> : bidib_node_state_update + bidib_handle_received_message as the receiver does */
			int n = parse_hex(a[0], bytes, sizeof bytes); uint8_t *m = malloc((size_t)n); memcpy(m, bytes, (size_t)n);
			uint8_t ad[4]; bidib_extract_address(m, ad); uint8_t ty = bidib_extract_msg_type(m);
			unsigned aid = bidib_node_state_update(ad, ty);
			bidib_handle_received_message(m, ty, ad, bidib_extract_seq_num(m), aid);
		}
		else if (!strcmp(cmd, "readq") || !strcmp(cmd, "reade") || !strcmp(cmd, "readi")) {
			uint8_t *m = cmd[4] == 'q' ? bidib_read_message() : cmd[4] == 'e' ? bidib_read_error_message() : bidib_read_intern_message();
			char tag[3] = {cmd[4], 0, 0};
			if (m) { out_hex(tag, m, msg_len(m)); free(m); } else outf("%s none\n", tag);
		}
		else if (!strcmp(cmd, "drain")) {
			/* drain <q|e|i> : pop everything, one line per message, then "<tag> none" */
			char tag[3] = {a[0][0], 0, 0}; uint8_t *m;
			for (;;) {
				m = a[0][0] == 'q' ? bidib_read_message() : a[0][0] == 'e' ? bidib_read_error_message() : bidib_read_intern_message();
				if (!m) break; out_hex(tag, m, msg_len(m)); free(m);
			}
			outf("%s none\n", tag);
		}
		else if (!strcmp(cmd, "discard")) {
			uint8_t *m;
			for (;;) {
				m = a[0][0] == 'q' ? bidib_read_message() : a[0][0] == 'e' ? bidib_read_error_message() : bidib_read_intern_message();
				if (!m) break; free(m);
			}
		}
		else if (ext_command(cmd, a, na, bytes, sizeof bytes)) { /* handled */ }
		else { outf("unknown-command %s\n", cmd); }
	}
	out_flush();
	fflush(stdout);
	_exit(0);
}
