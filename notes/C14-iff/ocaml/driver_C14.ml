(* driver_C14.ml — runs the extracted configuration model (coq/ConfigSpec.v) on the scripts of
   checks/C13.py / checks/C14.py and prints the observation lines harness/ext_C13.inc prints for the
   real library.  Thin glue only: token parsing, int<->N conversion, printing. *)
open Model_c14

let rec pos_of_int (i : int) : positive =
  if i = 1 then XH else if i land 1 = 1 then XI (pos_of_int (i lsr 1)) else XO (pos_of_int (i lsr 1))
let n_of_int (i : int) : n = if i = 0 then N0 else Npos (pos_of_int i)
let rec int_of_pos (p : positive) : int = match p with XH -> 1 | XO q -> 2 * int_of_pos q | XI q -> 2 * int_of_pos q + 1
let int_of_n (x : n) : int = match x with N0 -> 0 | Npos p -> int_of_pos p

let unhex (s : string) : n list =
  if s = "-" then [] else
    let k = String.length s / 2 in
    List.init k (fun i -> n_of_int (int_of_string ("0x" ^ String.sub s (2 * i) 2)))
let hex (l : n list) : string =
  if l = [] then "-" else String.concat "" (List.map (fun b -> Printf.sprintf "%02x" (int_of_n b)) l)
let split_ws (s : string) : string list = List.filter (fun x -> x <> "") (String.split_on_char ' ' s)

let buf = Buffer.create 65536
let out s = Buffer.add_string buf s; Buffer.add_char buf '\n'
let flush_out () = print_string (Buffer.contents buf); Buffer.clear buf

(* ---------------------------------------------------------------- token parser *)
exception Bad of string
let toks = ref ([] : string list)
let next () = match !toks with t :: r -> toks := r; t | [] -> raise (Bad "eof")
let str () = unhex (next ())
let opt f = match next () with "N" -> None | "S" -> Some (f ()) | t -> raise (Bad ("opt " ^ t))
let lst f =
  (match next () with "[" -> () | t -> raise (Bad ("list " ^ t)));
  let rec go acc = match !toks with
    | "]" :: r -> toks := r; List.rev acc
    | _ -> let x = f () in go (x :: acc) in
  go []

let aspect () = let i = str () in let v = str () in { a_id = i; a_val = v }
let bacc () = let i = str () in let n = str () in let a = lst aspect in let o = opt str in
  { ba_id = i; ba_num = n; ba_aspects = a; ba_init = o }
let dport () = let p = str () in let v = str () in { dp_port = p; dp_val = v }
let dasp () = let i = str () in let p = lst dport in { da_id = i; da_ports = p }
let dacc () = let i = str () in let a = str () in let e = str () in let l = lst dasp in let o = opt str in
  { dc_id = i; dc_addr = a; dc_ext = e; dc_aspects = l; dc_init = o }
let periph () = let i = str () in let n = str () in let p = str () in let a = lst aspect in let o = opt str in
  { p_id = i; p_num = n; p_port = p; p_aspects = a; p_init = o }
let seg () = let i = str () in let a = str () in let l = str () in { sg_id = i; sg_addr = a; sg_len = l }
let rev () = let i = str () in let c = str () in { rv_id = i; rv_cv = c }
let setup () =
  let i = str () in let pb = lst bacc in let pd = lst dacc in let sb = lst bacc in let sd = lst dacc in
  let pe = lst periph in let sg = lst seg in let rv = lst rev in
  { su_id = i; su_pb = pb; su_pd = pd; su_sb = sb; su_sd = sd; su_pe = pe; su_sg = sg; su_rv = rv }
let feat () = let n = str () in let v = str () in { f_num = n; f_val = v }
let brd () = let i = str () in let u = str () in let f = lst feat in { b_id = i; b_uid = u; b_feats = f }
let tper () = let i = str () in let b = str () in let o = opt str in { tp_id = i; tp_bit = b; tp_init = o }
let train () =
  let i = str () in let a = str () in let s = str () in
  let c = opt (fun () -> lst str) in let p = opt (fun () -> lst tper) in
  { t_id = i; t_addr = a; t_steps = s; t_cal = c; t_per = p }
let doc () = let b = lst brd in let t = lst setup in let r = lst train in { d_boards = b; d_track = t; d_trains = r }

(* ---------------------------------------------------------------- printing (format of ext_C13.inc c13_dump) *)
let ids l = String.concat "" (List.map (fun s -> " " ^ hex s) l)
let unk = " 756e6b6e6f776e"
let dump (s : st) =
  out ("boards :" ^ ids (g_boards s));
  List.iter (fun b ->
    let u = match g_uid b with Some u -> hex u | None -> "unknown" in
    out (Printf.sprintf "board %s uid %s conn 0 feats%s" (hex (bd_id b)) u
           (String.concat "" (List.map (fun (n, v) -> Printf.sprintf " %d:%d" (int_of_n n) (int_of_n v)) (bd_feats b))));
    out ("bpoints " ^ hex (bd_id b) ^ " :" ^ ids (g_board_points b));
    out ("bsignals " ^ hex (bd_id b) ^ " :" ^ ids (g_board_signals b));
    out ("bperiph " ^ hex (bd_id b) ^ " :" ^ ids (g_board_periphs b));
    out ("bsegs " ^ hex (bd_id b) ^ " :" ^ ids (g_board_segs b));
    out ("brevs " ^ hex (bd_id b) ^ " :" ^ ids (g_board_revs b))) (boards s);
  List.iter (fun b ->
    List.iter (fun p -> out ("paspects " ^ hex p ^ " :" ^ ids (g_acc_aspects true p s))) (g_board_points b);
    List.iter (fun p -> out ("saspects " ^ hex p ^ " :" ^ ids (g_acc_aspects false p s))) (g_board_signals b);
    List.iter (fun p -> out ("easpects " ^ hex p ^ " :" ^ ids (g_pe_aspects p s))) (g_board_periphs b)) (boards s);
  out ("boosters :" ^ ids (boosters s));
  out ("touts :" ^ ids (touts s));
  out ("trains :" ^ ids (g_trains s));
  List.iter (fun t ->
    let (h, l) = tr_addr t in
    out (Printf.sprintf "train %s addr %02x%02x" (hex (tr_id t)) (int_of_n h) (int_of_n l));
    out ("tperiph " ^ hex (tr_id t) ^ " :" ^ ids (g_train_periphs t))) (trains s);
  List.iter (fun i -> out ("PB " ^ hex i ^ unk ^ " 0 2 0")) (ptb s);
  List.iter (fun i -> out ("PD " ^ hex i ^ unk ^ " 0 1 1 4 0 0")) (ptd s);
  List.iter (fun i -> out ("SB " ^ hex i ^ unk ^ " 0 2 0")) (sgb s);
  List.iter (fun i -> out ("SD " ^ hex i ^ unk ^ " 0 1 1 4 0 0")) (sgd s);
  List.iter (fun i -> out ("PE " ^ hex i ^ unk ^ " 0 0 0")) (pes s);
  List.iter (fun i -> out ("SG " ^ hex i ^ " 0 000 0 0 0")) (segs s);
  List.iter (fun i -> out ("RV " ^ hex i ^ unk ^ " 2")) (revs s);
  List.iter (fun (i, ps) -> out ("TR " ^ hex i ^ " 0 0 0 1 4 0 00000 :" ^ String.concat "" (List.map (fun p -> " " ^ hex p ^ ":0") ps))) (tstates s);
  List.iter (fun i -> out ("BO " ^ hex i ^ " 0 1 0 0")) (boosters s);
  List.iter (fun i -> out ("TO " ^ hex i ^ " 0")) (touts s)

let site_name = function
  | 1 -> "bidib_state_free_single_segment_state_intern"
  | k -> "site" ^ string_of_int k

let () =
  let cur = ref None in
  (try while true do
    let line = input_line stdin in
    match split_ws line with
    | [] -> ()
    | "case" :: id :: _ -> out ("case " ^ id); cur := None
    | "c13ast" :: rest -> toks := rest; (try cur := Some (doc ()) with Bad m -> out ("bad-ast " ^ m))
    | "c13run" :: _ ->
        (match !cur with
         | None -> out "no-ast"
         | Some d ->
           (* verdict of the specification predicate ConfigWf.wf_doc3 *)
           out (Printf.sprintf "wf %d" (if wf_doc3 d then 1 else 0));
           (match parse3 d with
            | Ok s -> out "start 0"; dump s
            | Rej -> out "start 1"
            | Flt k -> out ("start fault " ^ site_name (int_of_n k))))
    | "byte" :: h :: _ -> (match to_byte (unhex h) with Some v -> out (Printf.sprintf "byte %d" (int_of_n v)) | None -> out "byte err")
    | _ -> ()
  done with End_of_file -> ());
  flush_out ()
