(* Extract_C14.v — extraction of the configuration model for the C13/C14 correspondence driver.
   ExtrOcamlBasic only; no Extract Constant. Compiled by the check in a scratch directory. *)
From Coq Require Import Extraction ExtrOcamlBasic List NArith.
From LB Require Import ConfigSpec ConfigWf.
Extraction "model_c14.ml"
  parse3 accept wf_doc3 to_byte to_uid to_pair
  g_boards g_board_points g_board_signals g_board_periphs g_board_segs g_board_revs g_uid
  g_acc_aspects g_pe_aspects g_trains g_train_periphs
  boards ptb ptd sgb sgd pes segs revs boosters touts trains tstates
  bd_id bd_feats tr_id tr_addr.
