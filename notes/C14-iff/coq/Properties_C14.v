(* Properties_C14.v - C14: configs accepted iff well-formed and unambiguous; getters reflect them exactly.
   Statements only.  `accept d` is the verdict of bidib_start_pointer's configuration phase on the
   layout-following document d (coq/ConfigSpec.v); `steps d` is d in document order as one list of atomic
   entries (board / setup header / board accessory / dcc accessory / peripheral / segment / reverser / train),
   `x` before `y` in that list = x is declared earlier in the three files (board file, track file, train file).
   Every "rejects" theorem is one fault class of the property statement. *)
From Coq Require Import List NArith Bool String.
From LB Require Import ConfigSpec ConfigSpecProofs ConfigExamples ConfigWf ConfigWfProofs ConfigWfExamples.
Import ListNotations.
Local Open Scope N_scope.

(* acceptance is the fold of the per-entry step over the document order *)
Theorem C14_document_order : forall d, parse3 d = fold_res run_step (steps d) st0.
Proof. exact parse3_steps. Qed.
Print Assumptions C14_document_order.

(* ---- ambiguous identifiers ---- *)
Theorem C14_rejects_dup_board_id : forall d b1 b2 l1 l2 l3,
  steps d = l1 ++ SBoard b1 :: l2 ++ SBoard b2 :: l3 -> b_id b1 = b_id b2 -> accept d = false.
Proof. exact rejects_dup_board_id. Qed.
Print Assumptions C14_rejects_dup_board_id.

Theorem C14_rejects_dup_unique_id : forall d b1 b2 u l1 l2 l3,
  steps d = l1 ++ SBoard b1 :: l2 ++ SBoard b2 :: l3 -> to_uid (b_uid b1) = Some u -> to_uid (b_uid b2) = Some u -> accept d = false.
Proof. exact rejects_dup_unique_id. Qed.
Print Assumptions C14_rejects_dup_unique_id.

(* points: board points and dcc points of all boards share one id space; likewise signals *)
Theorem C14_rejects_dup_point_id : forall d x y k l1 l2 l3,
  steps d = l1 ++ x :: l2 ++ y :: l3 -> point_id_of x = Some k -> point_id_of y = Some k -> accept d = false.
Proof. exact rejects_dup_point_id. Qed.
Print Assumptions C14_rejects_dup_point_id.

Theorem C14_rejects_dup_signal_id : forall d x y k l1 l2 l3,
  steps d = l1 ++ x :: l2 ++ y :: l3 -> signal_id_of x = Some k -> signal_id_of y = Some k -> accept d = false.
Proof. exact rejects_dup_signal_id. Qed.
Print Assumptions C14_rejects_dup_signal_id.

Theorem C14_rejects_dup_peripheral_id : forall d b1 e1 b2 e2 l1 l2 l3,
  steps d = l1 ++ SPeriph b1 e1 :: l2 ++ SPeriph b2 e2 :: l3 -> p_id e1 = p_id e2 -> accept d = false.
Proof. exact rejects_dup_peripheral_id. Qed.
Print Assumptions C14_rejects_dup_peripheral_id.

Theorem C14_rejects_dup_segment_id : forall d b1 e1 b2 e2 l1 l2 l3,
  steps d = l1 ++ SSeg b1 e1 :: l2 ++ SSeg b2 e2 :: l3 -> sg_id e1 = sg_id e2 -> accept d = false.
Proof. exact rejects_dup_segment_id. Qed.
Print Assumptions C14_rejects_dup_segment_id.

Theorem C14_rejects_dup_reverser_id : forall d b1 e1 b2 e2 l1 l2 l3,
  steps d = l1 ++ SRev b1 e1 :: l2 ++ SRev b2 e2 :: l3 -> rv_id e1 = rv_id e2 -> accept d = false.
Proof. exact rejects_dup_reverser_id. Qed.
Print Assumptions C14_rejects_dup_reverser_id.

Theorem C14_rejects_dup_train_id : forall d t1 t2 l1 l2 l3,
  steps d = l1 ++ STrain t1 :: l2 ++ STrain t2 :: l3 -> t_id t1 = t_id t2 -> accept d = false.
Proof. exact rejects_dup_train_id. Qed.
Print Assumptions C14_rejects_dup_train_id.

(* ---- duplicates on one board (the board may be spread over several entries of the track file) ---- *)
(* board points and board signals of one board share one accessory-number space (pt1, pt2 arbitrary) *)
Theorem C14_rejects_dup_number : forall d pt1 pt2 bid e1 e2 n l1 l2 l3,
  steps d = l1 ++ SBacc pt1 bid e1 :: l2 ++ SBacc pt2 bid e2 :: l3 ->
  to_byte (ba_num e1) = Some n -> to_byte (ba_num e2) = Some n -> accept d = false.
Proof. exact rejects_dup_accessory_number. Qed.
Print Assumptions C14_rejects_dup_number.

Theorem C14_rejects_dup_peripheral_number : forall d bid e1 e2 n l1 l2 l3,
  steps d = l1 ++ SPeriph bid e1 :: l2 ++ SPeriph bid e2 :: l3 ->
  to_byte (p_num e1) = Some n -> to_byte (p_num e2) = Some n -> accept d = false.
Proof. exact rejects_dup_peripheral_number. Qed.
Print Assumptions C14_rejects_dup_peripheral_number.

Theorem C14_rejects_dup_port : forall d bid e1 e2 p l1 l2 l3,
  steps d = l1 ++ SPeriph bid e1 :: l2 ++ SPeriph bid e2 :: l3 ->
  to_pair (p_port e1) = Some p -> to_pair (p_port e2) = Some p -> accept d = false.
Proof. exact rejects_dup_peripheral_port. Qed.
Print Assumptions C14_rejects_dup_port.

Theorem C14_rejects_dup_segment_address : forall d bid e1 e2 a l1 l2 l3,
  steps d = l1 ++ SSeg bid e1 :: l2 ++ SSeg bid e2 :: l3 ->
  to_byte (sg_addr e1) = Some a -> to_byte (sg_addr e2) = Some a -> accept d = false.
Proof. exact rejects_dup_segment_address. Qed.
Print Assumptions C14_rejects_dup_segment_address.

Theorem C14_rejects_dup_cv : forall d bid e1 e2 l1 l2 l3,
  steps d = l1 ++ SRev bid e1 :: l2 ++ SRev bid e2 :: l3 -> rv_cv e1 = rv_cv e2 -> accept d = false.
Proof. exact rejects_dup_cv. Qed.
Print Assumptions C14_rejects_dup_cv.

(* ---- a DCC address shared between any two of: dcc points, dcc signals (any boards), trains ---- *)
Theorem C14_rejects_shared_dcc_address : forall d x y a l1 l2 l3,
  steps d = l1 ++ x :: l2 ++ y :: l3 -> dcc_addr_of x = Some a -> dcc_addr_of y = Some a -> accept d = false.
Proof. exact rejects_shared_dcc_address. Qed.
Print Assumptions C14_rejects_shared_dcc_address.

(* ---- faults of a single entry: malformed values (byte / unique id / dcc address / port / 0-1 flags / dcc
   ports > 31), duplicate aspect ids or values, duplicate dcc aspect ids, duplicate ports in a dcc aspect, no
   aspects / no ports, an initial value naming no declared aspect, calibration not nine values <= 126,
   speed steps other than 14/28/126, function bits > 31 or duplicated, duplicate function ids, duplicate
   feature numbers.  step_fault spells these out (ConfigSpecProofs.v). ---- *)
Theorem C14_rejects_entry_fault : forall d x, In x (steps d) -> step_fault x -> accept d = false.
Proof. exact rejects_step_fault. Qed.
Print Assumptions C14_rejects_entry_fault.

(* the named classes as instances *)
Theorem C14_rejects_no_aspects : forall d pt bid e, In (SBacc pt bid e) (steps d) -> ba_aspects e = [] -> accept d = false.
Proof. exact (fun d pt bid e Hin H => rejects_step_fault d (SBacc pt bid e) Hin (or_intror (or_intror (or_introl H)))). Qed.
Print Assumptions C14_rejects_no_aspects.

Theorem C14_rejects_bad_initial : forall d pt bid e v, In (SBacc pt bid e) (steps d) ->
  ba_init e = Some v -> ~ In v (map a_id (ba_aspects e)) -> accept d = false.
Proof. exact (fun d pt bid e v Hin H1 H2 => rejects_step_fault d (SBacc pt bid e) Hin (or_intror (or_intror (or_intror (ex_intro _ v (conj H1 H2)))))). Qed.
Print Assumptions C14_rejects_bad_initial.

Theorem C14_rejects_dup_aspect_value : forall d pt bid e a1 a2 v, In (SBacc pt bid e) (steps d) ->
  before a1 a2 (ba_aspects e) -> to_byte (a_val a1) = Some v -> to_byte (a_val a2) = Some v -> accept d = false.
Proof. exact (fun d pt bid e a1 a2 v Hin Hb H1 H2 => rejects_step_fault d (SBacc pt bid e) Hin
  (or_intror (or_introl (or_intror (or_intror (ex_intro _ a1 (ex_intro _ a2 (ex_intro _ v (conj Hb (conj H1 H2)))))))))). Qed.
Print Assumptions C14_rejects_dup_aspect_value.

Theorem C14_rejects_dup_aspect_id : forall d pt bid e a1 a2, In (SBacc pt bid e) (steps d) ->
  before a1 a2 (ba_aspects e) -> a_id a1 = a_id a2 -> accept d = false.
Proof. exact (fun d pt bid e a1 a2 Hin Hb H => rejects_step_fault d (SBacc pt bid e) Hin
  (or_intror (or_introl (or_intror (or_introl (ex_intro _ a1 (ex_intro _ a2 (conj Hb H)))))))). Qed.
Print Assumptions C14_rejects_dup_aspect_id.

Theorem C14_rejects_bad_calibration : forall d t l, In t (d_trains d) -> t_cal t = Some l -> cal_fault l -> accept d = false.
Proof. exact (fun d t l Hin H1 H2 => rejects_step_fault d (STrain t) (in_steps_train d t Hin)
  (or_intror (or_intror (or_intror (or_introl (ex_intro _ l (conj H1 H2))))))). Qed.
Print Assumptions C14_rejects_bad_calibration.

Theorem C14_rejects_bad_speed_steps : forall d t v, In t (d_trains d) -> to_byte (t_steps t) = Some v ->
  v <> 14 -> v <> 28 -> v <> 126 -> accept d = false.
Proof.
  exact (fun d t v Hin H1 n14 n28 n126 => rejects_step_fault d (STrain t) (in_steps_train d t Hin)
    (or_intror (or_intror (or_introl (ex_intro _ v (conj H1
      (proj2 (orb_false_iff _ _) (conj (proj2 (orb_false_iff _ _) (conj (proj2 (N.eqb_neq _ _) n14) (proj2 (N.eqb_neq _ _) n28))) (proj2 (N.eqb_neq _ _) n126))))))))).
Qed.
Print Assumptions C14_rejects_bad_speed_steps.

Theorem C14_rejects_bit_gt_31 : forall d t l p v, In t (d_trains d) -> t_per t = Some l -> In p l ->
  to_byte (tp_bit p) = Some v -> 31 < v -> accept d = false.
Proof. exact (fun d t l p v Hin H1 Hp H2 H3 => rejects_step_fault d (STrain t) (in_steps_train d t Hin)
  (or_intror (or_intror (or_intror (or_intror (ex_intro _ l (conj H1 (or_introl (ex_intro _ p (conj Hp (or_intror (or_introl (ex_intro _ v (conj H2 H3)))))))))))))). Qed.
Print Assumptions C14_rejects_bit_gt_31.

Theorem C14_rejects_dup_bit : forall d t l p1 p2 v, In t (d_trains d) -> t_per t = Some l -> before p1 p2 l ->
  to_byte (tp_bit p1) = Some v -> to_byte (tp_bit p2) = Some v -> accept d = false.
Proof. exact (fun d t l p1 p2 v Hin H1 Hb H2 H3 => rejects_step_fault d (STrain t) (in_steps_train d t Hin)
  (or_intror (or_intror (or_intror (or_intror (ex_intro _ l (conj H1 (or_intror (or_introl (ex_intro _ p1 (ex_intro _ p2 (ex_intro _ v (conj Hb (conj H2 H3)))))))))))))). Qed.
Print Assumptions C14_rejects_dup_bit.

Theorem C14_rejects_malformed_unique_id : forall d b, In b (d_boards d) -> to_uid (b_uid b) = None -> accept d = false.
Proof. exact (fun d b Hin H => rejects_step_fault d (SBoard b) (in_steps_board d b Hin) (or_introl H)). Qed.
Print Assumptions C14_rejects_malformed_unique_id.

(* ---- a board in the track file that the board file does not declare ---- *)
Theorem C14_rejects_unknown_board : forall d u, In u (d_track d) -> ~ In (su_id u) (map b_id (d_boards d)) -> accept d = false.
Proof. exact rejects_unknown_board. Qed.
Print Assumptions C14_rejects_unknown_board.

(* ---- enumeration: after acceptance every list the getters enumerate is exactly what was declared, in
   document order; boosters / track outputs are the boards whose unique-id class byte has bit 1 / bit 4 ---- *)
Theorem C14_enumeration : forall d s, parse3 d = Ok s ->
  g_boards s = map b_id (d_boards d) /\
  ptb s = flat_map c_ptb (steps d) /\ ptd s = flat_map c_ptd (steps d) /\
  sgb s = flat_map c_sgb (steps d) /\ sgd s = flat_map c_sgd (steps d) /\
  pes s = flat_map c_pes (steps d) /\ segs s = flat_map c_segs (steps d) /\ revs s = flat_map c_revs (steps d) /\
  g_trains s = flat_map c_train (steps d) /\
  boosters s = flat_map c_boost (steps d) /\ touts s = flat_map c_tout (steps d) /\
  tstates s = flat_map c_tstate (steps d).
Proof.
  exact (fun d s H => match accepted_lists d s H with
                      | conj A B => conj (eq_trans A (flat_map_c_board d)) B end).
Qed.
Print Assumptions C14_enumeration.

(* per board: what bidib_get_board_points / _signals / _peripherals / _segments / _reversers return for board `bid`
   is exactly what the track file declares for that board (all its entries, in file order; board kinds first,
   then dcc kinds, as the getters concatenate them) *)
Theorem C14_enumeration_per_board : forall d s, parse3 d = Ok s -> forall bid b, get_board bid s = Some b ->
  g_board_points b = flat_map (cb Kpb bid) (steps d) ++ flat_map (cb Kpd bid) (steps d) /\
  g_board_signals b = flat_map (cb Ksb bid) (steps d) ++ flat_map (cb Ksd bid) (steps d) /\
  g_board_periphs b = flat_map (cb Kpe bid) (steps d) /\
  g_board_segs b = flat_map (cb Ksg bid) (steps d) /\
  g_board_revs b = flat_map (cb Krv bid) (steps d).
Proof. exact accepted_board_getters. Qed.
Print Assumptions C14_enumeration_per_board.

(* ---- formerly refuted, repaired in /repo (fix: reject a board point and a board signal of one board that share an
   accessory number): the witness document is now rejected, as an instance of C14_rejects_dup_number ---- *)
Definition point_signal_share_number (d : doc3) : bool :=
  existsb (fun u => existsb (fun p => existsb (fun g =>
    match to_byte (ba_num p), to_byte (ba_num g) with Some a, Some b => a =? b | _, _ => false end) (su_sb u)) (su_pb u)) (d_track d).
Example C14_point_signal_same_number_rejected :
  point_signal_share_number ex_point_signal_same_number = true /\ accept ex_point_signal_same_number = false.
Proof. vm_compute. split; reflexivity. Qed.
Print Assumptions C14_point_signal_same_number_rejected.

(* ---- formerly refuted, repaired in /repo (fix: accept a train entry that ends after its calibration values):
   calibration and peripherals are independent optional sections ---- *)
Example C14_accepts_calibration_only : accept ex_doc = true /\ accept ex_calibration_only = true.
Proof. vm_compute. split; reflexivity. Qed.
Print Assumptions C14_accepts_calibration_only.

(* ==================================================================== the IFF: accepted <-> well-formed and unambiguous
   wf_doc3 (coq/ConfigWf.v) is the specification, written from the property text: every entry well-formed on its own,
   every track-file entry on a declared board, no identity (id per kind, unique id, accessory number / peripheral
   number / port / segment address / CV per board, DCC address) claimed twice. *)

(* the IFF *)
Theorem C14_accept_iff : forall d, (exists s, parse3 d = Ok s) <-> wf_doc3 d = true.
Proof. exact accept_iff. Qed.
Print Assumptions C14_accept_iff.

(* acceptance half: every well-formed and unambiguous document is accepted (start returns 0) *)
Theorem C14_accepts_wellformed : forall d, wf_doc3 d = true -> exists s, parse3 d = Ok s.
Proof. exact accepts_wellformed. Qed.
Print Assumptions C14_accepts_wellformed.

(* rejection half: whatever the specification calls ill-formed or ambiguous is rejected (start returns 1, no fault) *)
Theorem C14_rejects_illformed : forall d, wf_doc3 d = false -> parse3 d = Rej.
Proof. exact rejects_illformed. Qed.
Print Assumptions C14_rejects_illformed.

(* as booleans: the loader's verdict IS the specification predicate *)
Theorem C14_accept_is_wf : forall d, accept d = wf_doc3 d.
Proof. exact accept_bool_iff. Qed.
Print Assumptions C14_accept_is_wf.

(* formerly refuted, repaired in /repo (f13e215: two dcc aspects are equal only if they assign the same values to the same
   ports): point3 with the aspects both = {0:1, 1:0}, one = {0:1} is well-formed and accepted in either order *)
Example C14_dcc_aspect_containment_accepted :
  wf_doc3 wx_dcc_contained_later = true /\ accept wx_dcc_contained_later = true /\
  wf_doc3 wx_dcc_contained_earlier = true /\ accept wx_dcc_contained_earlier = true.
Proof. vm_compute. repeat split. Qed.
Print Assumptions C14_dcc_aspect_containment_accepted.

(* a well-formed document is accepted AND every enumeration getter returns exactly what it declares *)
Theorem C14_wellformed_enumerated : forall d, wf_doc3 d = true ->
  exists s, parse3 d = Ok s /\
    g_boards s = map b_id (d_boards d) /\ g_trains s = flat_map c_train (steps d) /\
    boosters s = flat_map c_boost (steps d) /\ touts s = flat_map c_tout (steps d) /\
    (forall bid b, get_board bid s = Some b ->
       g_board_points b = flat_map (cb Kpb bid) (steps d) ++ flat_map (cb Kpd bid) (steps d) /\
       g_board_signals b = flat_map (cb Ksb bid) (steps d) ++ flat_map (cb Ksd bid) (steps d) /\
       g_board_periphs b = flat_map (cb Kpe bid) (steps d) /\
       g_board_segs b = flat_map (cb Ksg bid) (steps d) /\
       g_board_revs b = flat_map (cb Krv bid) (steps d)).
Proof.
  exact (fun d H1 =>
    match accepts_wellformed d H1 with
    | ex_intro _ s Hs =>
        match C14_enumeration d s Hs with
        | conj A (conj _ (conj _ (conj _ (conj _ (conj _ (conj _ (conj _ (conj T (conj B (conj U _)))))))))) =>
            ex_intro _ s (conj Hs (conj A (conj T (conj B (conj U (accepted_board_getters d s Hs))))))
        end
    end).
Qed.
Print Assumptions C14_wellformed_enumerated.

(* the specification on concrete documents: the unit-test configuration, a zero-valued variant and a rich generated
   one are well-formed (and accepted); one witness per fault class of the statement is ill-formed (and rejected) *)
Example C14_wf_examples :
  wf_doc3 ex_doc = true /\ wf_doc3 wx_zero = true /\ wf_doc3 wx_rich = true /\
  accept ex_doc = true /\ accept wx_zero = true /\ accept wx_rich = true /\
  List.length wx_bad_all = 25%nat /\ forallb (fun d => negb (wf_doc3 d) && negb (accept d)) wx_bad_all = true.
Proof. vm_compute. repeat split. Qed.
Print Assumptions C14_wf_examples.

(* conversions: every byte value in its documented spellings, and nothing above 255 *)
Definition dec_digits (n : N) : str :=
  (if 100 <=? n then [48 + n / 100] else []) ++ (if 10 <=? n then [48 + (n / 10) mod 10] else []) ++ [48 + n mod 10].
Definition hexd (v : N) : N := if v <? 10 then 48 + v else 87 + v.
Definition hexD (v : N) : N := if v <? 10 then 48 + v else 55 + v.
Theorem C14_byte_spellings :
  forallb (fun n => match to_byte (dec_digits n), to_byte [48; 120; hexd (n / 16); hexd (n mod 16)], to_byte [48; 120; hexD (n / 16); hexD (n mod 16)] with
                    | Some a, Some b, Some c => (a =? n) && (b =? n) && (c =? n) | _, _, _ => false end)
          (map N.of_nat (seq 0 256)) = true
  /\ forallb (fun n => match to_byte (dec_digits n) with None => true | Some _ => false end) (map N.of_nat (seq 256 744)) = true.
Proof. vm_compute. split; reflexivity. Qed.
Print Assumptions C14_byte_spellings.

(* non-vacuity: the configuration of the unit tests is accepted and enumerated as declared *)
Example C14_nonvacuous :
  accept ex_doc = true /\
  match parse3 ex_doc with
  | Ok st => g_boards st = [s "board1"%string; s "board2"%string; s "board3"%string] /\ boosters st = [s "board1"%string] /\
             touts st = [s "board3"%string] /\ ptb st = [s "point1"%string; s "point2"%string] /\ ptd st = [s "point3"%string] /\
             g_trains st = [s "train1"%string; s "train2"%string]
  | _ => False
  end.
Proof. vm_compute. repeat split. Qed.
Print Assumptions C14_nonvacuous.
