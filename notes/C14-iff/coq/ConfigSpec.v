(* ConfigSpec.v — executable model of libbidib's configuration loading (C13/C14) for documents that
   follow the documented key layout (README "Usage": same keys, same order as the example files).

   Input: a typed syntax tree of the three YAML files in which every scalar is still the raw byte
   string found in the file (so malformed values, duplicates, unknown references are all expressible);
   the key names and their order are fixed by the constructors (the renderer in checks/cfggen.py writes
   them; the correspondence run validates renderer + model against the real parser).
   Output: Some st = bidib_start_pointer's config phase succeeds (return value 0 in debug mode) and st is
   the content of bidib_boards / bidib_track_state / bidib_trains afterwards; None = rejected (return 1).

   Mirrors: src/parser/bidib_config_parser.c (string -> byte / unique id / dcc address / port),
   the twelve event state machines of bidib_config_parser_{board,track,train}.c restricted to
   layout-following input, and the uniqueness checks bidib_state_add_* / bidib_state_dcc_addr_in_use
   of src/state/bidib_state.c.  No proofs in this file. *)
From Coq Require Import List NArith Bool.
Import ListNotations.
Local Open Scope N_scope.

Definition str := list N.

Fixpoint str_eqb (a b : str) : bool :=
  match a, b with
  | [], [] => true
  | x :: a', y :: b' => (x =? y) && str_eqb a' b'
  | _, _ => false
  end.

Definition mem_str (s : str) (l : list str) : bool := existsb (str_eqb s) l.
Definition is_nil {A} (l : list A) : bool := match l with [] => true | _ => false end.

(* ------------------------------------------------------------------ strtol as bidib_string_to_byte uses it *)
Definition is_space (c : N) : bool := (c =? 32) || ((9 <=? c) && (c <=? 13)).

Definition digit_of (base c : N) : option N :=
  let d := if (48 <=? c) && (c <=? 57) then Some (c - 48)
           else if (97 <=? c) && (c <=? 122) then Some (c - 87)
           else if (65 <=? c) && (c <=? 90) then Some (c - 55) else None in
  match d with Some v => if v <? base then Some v else None | None => None end.

Fixpoint skip_spaces (s : str) : str :=
  match s with c :: t => if is_space c then skip_spaces t else s | [] => [] end.

(* (value, number of digits converted, unconverted rest) *)
Fixpoint take_digits (base : N) (s : str) (acc : N) (n : nat) : N * nat * str :=
  match s with
  | c :: t => match digit_of base c with
              | Some d => take_digits base t (acc * base + d) (S n)
              | None => (acc, n, s)
              end
  | [] => (acc, n, [])
  end.

(* base 16 only: an optional "0x"/"0X" is skipped when a hex digit follows it *)
Definition strip_0x (s : str) : str :=
  match s with
  | z :: x :: h :: t =>
      if (z =? 48) && ((x =? 120) || (x =? 88)) && (match digit_of 16 h with Some _ => true | None => false end)
      then h :: t else s
  | _ => s
  end.

Definition split_sign (s : str) : bool * str :=
  match s with
  | c :: t => if c =? 45 then (true, t) else if c =? 43 then (false, t) else (false, s)
  | [] => (false, [])
  end.

(* Some v  iff  strtol converts at least one digit, stops at the terminating NUL and 0 <= value <= 255
   (overflow saturates to LONG_MAX/LONG_MIN in C and is out of range either way) *)
Definition strtol_byte (base : N) (s : str) : option N :=
  let '(neg, s2) := split_sign (skip_spaces s) in
  let s3 := if base =? 16 then strip_0x s2 else s2 in
  let '(v, n, rest) := take_digits base s3 0 0%nat in
  match n, rest with
  | O, _ => None
  | _, _ :: _ => None
  | _, [] => if neg then (if v =? 0 then Some 0 else None) else (if v <=? 255 then Some v else None)
  end.

(* bidib_string_to_byte *)
Definition to_byte (s : str) : option N :=
  match s with
  | [] => None
  | a :: b :: c :: t => if (a =? 48) && (b =? 120) then strtol_byte 16 (c :: t) else strtol_byte 10 s
  | _ => strtol_byte 10 s
  end.

Definition hex_pair (a b : N) : option N := to_byte [48; 120; a; b].

Definition bind {A B} (o : option A) (f : A -> option B) : option B :=
  match o with Some a => f a | None => None end.
Notation "'do' x <- e ; k" := (bind e (fun x => k)) (at level 200, x pattern, e at level 100, k at level 200).
Definition guard (b : bool) : option unit := if b then Some tt else None.

(* outcome of loading: accepted with a value, rejected (return value 1), or a memory fault of the C
   code at a named site (a value, never a default) *)
Inductive res (A : Type) : Type := Ok (a : A) | Rej | Flt (site : N).
Arguments Ok {A} a. Arguments Rej {A}. Arguments Flt {A} site.
Definition rbind {A B} (r : res A) (f : A -> res B) : res B :=
  match r with Ok a => f a | Rej => Rej | Flt k => Flt k end.
Definition lift {A} (o : option A) : res A := match o with Some a => Ok a | None => Rej end.
Definition rguard (b : bool) : res unit := if b then Ok tt else Rej.
Notation "'dor' x <- e ; k" := (rbind e (fun x => k)) (at level 200, x pattern, e at level 100, k at level 200).

(* fault sites: none is reachable from a layout-following document any more (the uninitialised `length` of a
   failed segment record was repaired in /repo); the constructor stays so that a fault would remain a value *)

(* bidib_string_to_uid: "0x" + 14 characters *)
Definition to_uid (s : str) : option (list N) :=
  match s with
  | [z; x; a1; a2; b1; b2; c1; c2; d1; d2; e1; e2; f1; f2; g1; g2] =>
      do _ <- guard ((z =? 48) && (x =? 120));
      do a <- hex_pair a1 a2; do b <- hex_pair b1 b2; do c <- hex_pair c1 c2; do d <- hex_pair d1 d2;
      do e <- hex_pair e1 e2; do f <- hex_pair f1 f2; do g <- hex_pair g1 g2;
      Some [a; b; c; d; e; f; g]
  | _ => None
  end.

(* bidib_string_to_dccaddr (addrh, addrl) and bidib_string_to_port (port1, port0): "0x" + 4 characters *)
Definition to_pair (s : str) : option (N * N) :=
  match s with
  | [z; x; a1; a2; b1; b2] =>
      do _ <- guard ((z =? 48) && (x =? 120));
      do a <- hex_pair a1 a2; do b <- hex_pair b1 b2; Some (a, b)
  | _ => None
  end.

(* ------------------------------------------------------------------ source documents (layout-following) *)
Record feat_src := { f_num : str; f_val : str }.
Record board_src := { b_id : str; b_uid : str; b_feats : list feat_src }.

Record aspect_src := { a_id : str; a_val : str }.
Record bacc_src := { ba_id : str; ba_num : str; ba_aspects : list aspect_src; ba_init : option str }.
Record dport_src := { dp_port : str; dp_val : str }.
Record daspect_src := { da_id : str; da_ports : list dport_src }.
Record dacc_src := { dc_id : str; dc_addr : str; dc_ext : str; dc_aspects : list daspect_src; dc_init : option str }.
Record periph_src := { p_id : str; p_num : str; p_port : str; p_aspects : list aspect_src; p_init : option str }.
Record seg_src := { sg_id : str; sg_addr : str; sg_len : str }.
Record rev_src := { rv_id : str; rv_cv : str }.
Record setup_src := { su_id : str; su_pb : list bacc_src; su_pd : list dacc_src; su_sb : list bacc_src;
                      su_sd : list dacc_src; su_pe : list periph_src; su_sg : list seg_src; su_rv : list rev_src }.

Record tperiph_src := { tp_id : str; tp_bit : str; tp_init : option str }.
Record train_src := { t_id : str; t_addr : str; t_steps : str; t_cal : option (list str);
                      t_per : option (list tperiph_src) }.

Record doc3 := { d_boards : list board_src; d_track : list setup_src; d_trains : list train_src }.

(* ------------------------------------------------------------------ loaded configuration *)
Record aspect := { asp_id : str; asp_val : N }.
Record bacc := { bm_id : str; bm_num : N; bm_aspects : list aspect }.
Record daspect := { das_id : str; das_ports : list (N * N) }.
Record dacc := { dm_id : str; dm_addr : N * N; dm_ext : N; dm_aspects : list daspect }.
Record periph := { pm_id : str; pm_num : N; pm_port : N * N; pm_aspects : list aspect }.
Record board := { bd_id : str; bd_uid : list N; bd_feats : list (N * N);
                  bd_pb : list bacc; bd_pd : list dacc; bd_sb : list bacc; bd_sd : list dacc;
                  bd_pe : list periph; bd_sg : list (str * N); bd_rv : list (str * str) }.
Record train := { tr_id : str; tr_addr : N * N; tr_steps : N; tr_cal : option (list N); tr_per : list (str * N) }.

(* boards = bidib_boards; ptb/ptd/sgb/sgd/pes/segs/revs/boosters/touts/tstates = the id columns of the
   arrays of bidib_track_state, in insertion order; trains = bidib_trains *)
Record st := { boards : list board;
               ptb : list str; ptd : list str; sgb : list str; sgd : list str;
               pes : list str; segs : list str; revs : list str;
               boosters : list str; touts : list str;
               trains : list train; tstates : list (str * list str) }.

Definition st0 : st := {| boards := []; ptb := []; ptd := []; sgb := []; sgd := []; pes := []; segs := []; revs := [];
                          boosters := []; touts := []; trains := []; tstates := [] |}.

Definition set_boards (s : st) (v : list board) : st :=
  {| boards := v; ptb := ptb s; ptd := ptd s; sgb := sgb s; sgd := sgd s; pes := pes s; segs := segs s; revs := revs s;
     boosters := boosters s; touts := touts s; trains := trains s; tstates := tstates s |}.
Definition set_ptb (s : st) (v : list str) : st :=
  {| boards := boards s; ptb := v; ptd := ptd s; sgb := sgb s; sgd := sgd s; pes := pes s; segs := segs s; revs := revs s;
     boosters := boosters s; touts := touts s; trains := trains s; tstates := tstates s |}.
Definition set_ptd (s : st) (v : list str) : st :=
  {| boards := boards s; ptb := ptb s; ptd := v; sgb := sgb s; sgd := sgd s; pes := pes s; segs := segs s; revs := revs s;
     boosters := boosters s; touts := touts s; trains := trains s; tstates := tstates s |}.
Definition set_sgb (s : st) (v : list str) : st :=
  {| boards := boards s; ptb := ptb s; ptd := ptd s; sgb := v; sgd := sgd s; pes := pes s; segs := segs s; revs := revs s;
     boosters := boosters s; touts := touts s; trains := trains s; tstates := tstates s |}.
Definition set_sgd (s : st) (v : list str) : st :=
  {| boards := boards s; ptb := ptb s; ptd := ptd s; sgb := sgb s; sgd := v; pes := pes s; segs := segs s; revs := revs s;
     boosters := boosters s; touts := touts s; trains := trains s; tstates := tstates s |}.
Definition set_pes (s : st) (v : list str) : st :=
  {| boards := boards s; ptb := ptb s; ptd := ptd s; sgb := sgb s; sgd := sgd s; pes := v; segs := segs s; revs := revs s;
     boosters := boosters s; touts := touts s; trains := trains s; tstates := tstates s |}.
Definition set_segs (s : st) (v : list str) : st :=
  {| boards := boards s; ptb := ptb s; ptd := ptd s; sgb := sgb s; sgd := sgd s; pes := pes s; segs := v; revs := revs s;
     boosters := boosters s; touts := touts s; trains := trains s; tstates := tstates s |}.
Definition set_revs (s : st) (v : list str) : st :=
  {| boards := boards s; ptb := ptb s; ptd := ptd s; sgb := sgb s; sgd := sgd s; pes := pes s; segs := segs s; revs := v;
     boosters := boosters s; touts := touts s; trains := trains s; tstates := tstates s |}.

Definition bset_pb (b : board) (v : list bacc) : board :=
  {| bd_id := bd_id b; bd_uid := bd_uid b; bd_feats := bd_feats b; bd_pb := v; bd_pd := bd_pd b; bd_sb := bd_sb b;
     bd_sd := bd_sd b; bd_pe := bd_pe b; bd_sg := bd_sg b; bd_rv := bd_rv b |}.
Definition bset_pd (b : board) (v : list dacc) : board :=
  {| bd_id := bd_id b; bd_uid := bd_uid b; bd_feats := bd_feats b; bd_pb := bd_pb b; bd_pd := v; bd_sb := bd_sb b;
     bd_sd := bd_sd b; bd_pe := bd_pe b; bd_sg := bd_sg b; bd_rv := bd_rv b |}.
Definition bset_sb (b : board) (v : list bacc) : board :=
  {| bd_id := bd_id b; bd_uid := bd_uid b; bd_feats := bd_feats b; bd_pb := bd_pb b; bd_pd := bd_pd b; bd_sb := v;
     bd_sd := bd_sd b; bd_pe := bd_pe b; bd_sg := bd_sg b; bd_rv := bd_rv b |}.
Definition bset_sd (b : board) (v : list dacc) : board :=
  {| bd_id := bd_id b; bd_uid := bd_uid b; bd_feats := bd_feats b; bd_pb := bd_pb b; bd_pd := bd_pd b; bd_sb := bd_sb b;
     bd_sd := v; bd_pe := bd_pe b; bd_sg := bd_sg b; bd_rv := bd_rv b |}.
Definition bset_pe (b : board) (v : list periph) : board :=
  {| bd_id := bd_id b; bd_uid := bd_uid b; bd_feats := bd_feats b; bd_pb := bd_pb b; bd_pd := bd_pd b; bd_sb := bd_sb b;
     bd_sd := bd_sd b; bd_pe := v; bd_sg := bd_sg b; bd_rv := bd_rv b |}.
Definition bset_sg (b : board) (v : list (str * N)) : board :=
  {| bd_id := bd_id b; bd_uid := bd_uid b; bd_feats := bd_feats b; bd_pb := bd_pb b; bd_pd := bd_pd b; bd_sb := bd_sb b;
     bd_sd := bd_sd b; bd_pe := bd_pe b; bd_sg := v; bd_rv := bd_rv b |}.
Definition bset_rv (b : board) (v : list (str * str)) : board :=
  {| bd_id := bd_id b; bd_uid := bd_uid b; bd_feats := bd_feats b; bd_pb := bd_pb b; bd_pd := bd_pd b; bd_sb := bd_sb b;
     bd_sd := bd_sd b; bd_pe := bd_pe b; bd_sg := bd_sg b; bd_rv := v |}.

Fixpoint fold_opt {S A} (f : S -> A -> option S) (l : list A) (s : S) : option S :=
  match l with
  | [] => Some s
  | x :: t => match f s x with Some s' => fold_opt f t s' | None => None end
  end.

Fixpoint fold_res {S A} (f : S -> A -> res S) (l : list A) (s : S) : res S :=
  match l with
  | [] => Ok s
  | x :: t => match f s x with Ok s' => fold_res f t s' | Rej => Rej | Flt k => Flt k end
  end.

(* bidib_state_get_board_ref: first board with that id *)
Definition get_board (id : str) (s : st) : option board := find (fun b => str_eqb (bd_id b) id) (boards s).

(* replace the first board with that id *)
Fixpoint upd_first (id : str) (f : board -> board) (l : list board) : list board :=
  match l with
  | [] => []
  | b :: t => if str_eqb (bd_id b) id then f b :: t else b :: upd_first id f t
  end.
Definition upd_board (id : str) (f : board -> board) (s : st) : st := set_boards s (upd_first id f (boards s)).

(* ------------------------------------------------------------------ board file *)
Definition add_feature (fs : list (N * N)) (f : feat_src) : option (list (N * N)) :=
  do n <- to_byte (f_num f);
  do _ <- guard (negb (existsb (fun p => fst p =? n) fs));
  do v <- to_byte (f_val f);
  Some (fs ++ [(n, v)]).

Definition uid_class (u : list N) : N := nth 0 u 0.

(* bidib_config_parse_single_board_features + bidib_state_add_board.  The booster / track-output
   entries are appended as soon as the unique id is read (before the board itself is accepted). *)
Definition add_board_entry (s : st) (b : board_src) : option st :=
  do uid <- to_uid (b_uid b);
  let bo := if N.testbit (uid_class uid) 1 then boosters s ++ [b_id b] else boosters s in
  let tou := if N.testbit (uid_class uid) 4 then touts s ++ [b_id b] else touts s in
  do feats <- fold_opt add_feature (b_feats b) [];
  do _ <- guard (negb (existsb (fun x => str_eqb (bd_id x) (b_id b) || str_eqb (bd_uid x) uid) (boards s)));
  Some {| boards := boards s ++ [{| bd_id := b_id b; bd_uid := uid; bd_feats := feats; bd_pb := []; bd_pd := [];
                                    bd_sb := []; bd_sd := []; bd_pe := []; bd_sg := []; bd_rv := [] |}];
          ptb := ptb s; ptd := ptd s; sgb := sgb s; sgd := sgd s; pes := pes s; segs := segs s; revs := revs s;
          boosters := bo; touts := tou; trains := trains s; tstates := tstates s |}.

(* ------------------------------------------------------------------ track file *)
Definition add_aspect (acc : list aspect) (a : aspect_src) : option (list aspect) :=
  do v <- to_byte (a_val a);
  do _ <- guard (negb (existsb (fun x => (asp_val x =? v) || str_eqb (asp_id x) (a_id a)) acc));
  Some (acc ++ [{| asp_id := a_id a; asp_val := v |}]).

(* initial_value_valid *)
Definition init_ok (ids : list str) (i : option str) : bool :=
  match i with None => true | Some v => mem_str v ids end.

(* bidib_config_parse_single_board_accessory; pt = true for points-board, false for signals-board.
   The duplicate-number scan covers the board points and the board signals of the board (one number space). *)
Definition add_bacc (pt : bool) (bid : str) (s : st) (e : bacc_src) : option st :=
  do n <- to_byte (ba_num e);
  do asps <- fold_opt add_aspect (ba_aspects e) [];
  do _ <- guard (negb (is_nil asps));
  do _ <- guard (init_ok (map asp_id asps) (ba_init e));
  do b <- get_board bid s;
  do _ <- guard (negb (existsb (fun m => bm_num m =? n) (bd_pb b ++ bd_sb b)));
  do _ <- guard (negb (mem_str (ba_id e) (if pt then ptb s ++ ptd s else sgb s ++ sgd s)));
  let m := {| bm_id := ba_id e; bm_num := n; bm_aspects := asps |} in
  Some (if pt then upd_board bid (fun b => bset_pb b (bd_pb b ++ [m])) (set_ptb s (ptb s ++ [ba_id e]))
        else upd_board bid (fun b => bset_sb b (bd_sb b ++ [m])) (set_sgb s (sgb s ++ [ba_id e]))).

Definition add_dport (ps : list (N * N)) (p : dport_src) : option (list (N * N)) :=
  do pt <- to_byte (dp_port p);
  do _ <- guard (pt <=? 31);
  do v <- to_byte (dp_val p);
  do _ <- guard (v <=? 1);
  do _ <- guard (negb (existsb (fun x => fst x =? pt) ps));
  Some (ps ++ [(pt, v)]).

(* dcc_aspects_equal a1 a2: same id, or the same number of port values and every port of a1 occurs in a2 with the same
   value (the ports of an aspect are distinct, so this is: both assign the same values to the same ports) *)
Definition ports_subsumed (p1 p2 : list (N * N)) : bool :=
  forallb (fun x => match find (fun y => fst y =? fst x) p2 with
                    | Some y => snd y =? snd x
                    | None => false
                    end) p1.
Definition dasp_equal (a1 a2 : daspect) : bool :=
  str_eqb (das_id a1) (das_id a2) ||
  (Nat.eqb (length (das_ports a1)) (length (das_ports a2)) && ports_subsumed (das_ports a1) (das_ports a2)).

Definition add_daspect (acc : list daspect) (a : daspect_src) : option (list daspect) :=
  do ps <- fold_opt add_dport (da_ports a) [];
  do _ <- guard (negb (is_nil ps));
  let na := {| das_id := da_id a; das_ports := ps |} in
  do _ <- guard (negb (existsb (fun old => dasp_equal na old) acc));
  Some (acc ++ [na]).

Definition addr_eqb (a b : N * N) : bool := (fst a =? fst b) && (snd a =? snd b).

(* bidib_state_dcc_addr_in_use: dcc points and dcc signals of every board, and every train *)
Definition dcc_in_use (s : st) (a : N * N) : bool :=
  existsb (fun b => existsb (fun m => addr_eqb (dm_addr m) a) (bd_pd b) || existsb (fun m => addr_eqb (dm_addr m) a) (bd_sd b)) (boards s)
  || existsb (fun t => addr_eqb (tr_addr t) a) (trains s).

(* bidib_config_parse_single_dcc_accessory + bidib_state_add_dcc_point/signal_state *)
Definition add_dacc (pt : bool) (bid : str) (s : st) (e : dacc_src) : option st :=
  do _ <- get_board bid s;
  do a <- to_pair (dc_addr e);
  do x <- to_byte (dc_ext e);
  do _ <- guard (x <=? 1);
  do asps <- fold_opt add_daspect (dc_aspects e) [];
  do _ <- guard (negb (is_nil asps));
  do _ <- guard (init_ok (map das_id asps) (dc_init e));
  do _ <- guard (negb (mem_str (dc_id e) (if pt then ptb s ++ ptd s else sgb s ++ sgd s)));
  do _ <- guard (negb (dcc_in_use s a));
  let m := {| dm_id := dc_id e; dm_addr := a; dm_ext := x; dm_aspects := asps |} in
  Some (if pt then upd_board bid (fun b => bset_pd b (bd_pd b ++ [m])) (set_ptd s (ptd s ++ [dc_id e]))
        else upd_board bid (fun b => bset_sd b (bd_sd b ++ [m])) (set_sgd s (sgd s ++ [dc_id e]))).

Definition add_periph (bid : str) (s : st) (e : periph_src) : option st :=
  do n <- to_byte (p_num e);
  do pt <- to_pair (p_port e);
  do asps <- fold_opt add_aspect (p_aspects e) [];
  do _ <- guard (negb (is_nil asps));
  do _ <- guard (init_ok (map asp_id asps) (p_init e));
  do b <- get_board bid s;
  do _ <- guard (negb (existsb (fun m => addr_eqb (pm_port m) pt || (pm_num m =? n)) (bd_pe b)));
  do _ <- guard (negb (mem_str (p_id e) (pes s)));
  let m := {| pm_id := p_id e; pm_num := n; pm_port := pt; pm_aspects := asps |} in
  Some (upd_board bid (fun b => bset_pe b (bd_pe b ++ [m])) (set_pes s (pes s ++ [p_id e]))).

(* bidib_config_parse_single_board_segment *)
Definition add_seg (bid : str) (s : st) (e : seg_src) : option st :=
  do a <- to_byte (sg_addr e);
  do b <- get_board bid s;
  do _ <- guard (negb (existsb (fun m => snd m =? a) (bd_sg b)));
  do _ <- guard (negb (mem_str (sg_id e) (segs s)));
  Some (upd_board bid (fun b => bset_sg b (bd_sg b ++ [(sg_id e, a)])) (set_segs s (segs s ++ [sg_id e]))).

Definition add_rev (bid : str) (s : st) (e : rev_src) : option st :=
  do b <- get_board bid s;
  do _ <- guard (negb (existsb (fun m => str_eqb (snd m) (rv_cv e)) (bd_rv b)));
  do _ <- guard (negb (mem_str (rv_id e) (revs s)));
  Some (upd_board bid (fun b => bset_rv b (bd_rv b ++ [(rv_id e, rv_cv e)])) (set_revs s (revs s ++ [rv_id e]))).

(* bidib_config_parse_single_board_setup *)
Definition add_setup (s : st) (u : setup_src) : res st :=
  dor _ <- lift (get_board (su_id u) s);
  dor s1 <- lift (fold_opt (add_bacc true (su_id u)) (su_pb u) s);
  dor s2 <- lift (fold_opt (add_dacc true (su_id u)) (su_pd u) s1);
  dor s3 <- lift (fold_opt (add_bacc false (su_id u)) (su_sb u) s2);
  dor s4 <- lift (fold_opt (add_dacc false (su_id u)) (su_sd u) s3);
  dor s5 <- lift (fold_opt (add_periph (su_id u)) (su_pe u) s4);
  dor s6 <- lift (fold_opt (add_seg (su_id u)) (su_sg u) s5);
  lift (fold_opt (add_rev (su_id u)) (su_rv u) s6).

(* ------------------------------------------------------------------ train file *)
Definition cal_value (s : str) : option N := do v <- to_byte s; do _ <- guard (v <=? 126); Some v.
Fixpoint map_opt {A B} (f : A -> option B) (l : list A) : option (list B) :=
  match l with
  | [] => Some []
  | x :: t => do y <- f x; do r <- map_opt f t; Some (y :: r)
  end.
(* bidib_config_parse_single_train_calibration + the train machine around it: exactly nine values *)
Definition cal_ok (l : list str) : option (list N) :=
  do _ <- guard (Nat.eqb (length l) 9); map_opt cal_value l.

Definition add_tperiph (acc : list (str * N)) (p : tperiph_src) : option (list (str * N)) :=
  do b <- to_byte (tp_bit p);
  do _ <- guard (b <=? 31);
  do _ <- guard (negb (existsb (fun x => (snd x =? b) || str_eqb (fst x) (tp_id p)) acc));
  do _ <- match tp_init p with
          | None => Some tt
          | Some i => do v <- to_byte i; guard (v <=? 1)
          end;
  Some (acc ++ [(tp_id p, b)]).

Definition steps_ok (v : N) : bool := (v =? 14) || (v =? 28) || (v =? 126).

(* bidib_config_parse_single_train + bidib_state_add_train; calibration and peripherals are both optional *)
Definition add_train (s : st) (t : train_src) : option st :=
  do a <- to_pair (t_addr t);
  do v <- to_byte (t_steps t);
  do _ <- guard (steps_ok v);
  do cal <- match t_cal t with
            | None => Some None
            | Some l => do c <- cal_ok l; Some (Some c)
            end;
  do ps <- fold_opt add_tperiph (match t_per t with Some l => l | None => [] end) [];
  do _ <- guard (negb (dcc_in_use s a));
  do _ <- guard (negb (existsb (fun x => str_eqb (tr_id x) (t_id t)) (trains s)));
  Some {| boards := boards s; ptb := ptb s; ptd := ptd s; sgb := sgb s; sgd := sgd s; pes := pes s; segs := segs s;
          revs := revs s; boosters := boosters s; touts := touts s;
          trains := trains s ++ [{| tr_id := t_id t; tr_addr := a; tr_steps := v; tr_cal := cal; tr_per := ps |}];
          tstates := tstates s ++ [(t_id t, map fst ps)] |}.

(* ------------------------------------------------------------------ bidib_config_parse *)
Definition parse_boards (d : doc3) : option st := fold_opt add_board_entry (d_boards d) st0.
Definition parse3 (d : doc3) : res st :=
  dor s1 <- lift (parse_boards d);
  dor s2 <- fold_res add_setup (d_track d) s1;
  lift (fold_opt add_train (d_trains d) s2).

Definition accept (d : doc3) : bool := match parse3 d with Ok _ => true | _ => false end.

(* ------------------------------------------------------------------ what the enumeration getters return *)
Definition g_boards (s : st) : list str := map bd_id (boards s).                      (* bidib_get_boards *)
Definition g_board_points (b : board) : list str := map bm_id (bd_pb b) ++ map dm_id (bd_pd b).
Definition g_board_signals (b : board) : list str := map bm_id (bd_sb b) ++ map dm_id (bd_sd b).
Definition g_board_periphs (b : board) : list str := map pm_id (bd_pe b).
Definition g_board_segs (b : board) : list str := map fst (bd_sg b).
Definition g_board_revs (b : board) : list str := map fst (bd_rv b).
(* bidib_get_uniqueid reports "unknown" for a class byte of 0xFF *)
Definition g_uid (b : board) : option (list N) := if uid_class (bd_uid b) =? 255 then None else Some (bd_uid b).
Definition g_bacc_aspects (m : bacc) : list str := map asp_id (bm_aspects m).
Definition g_dacc_aspects (m : dacc) : list str := map das_id (dm_aspects m).
Definition g_periph_aspects (m : periph) : list str := map asp_id (pm_aspects m).
Definition g_trains (s : st) : list str := map tr_id (trains s).                      (* bidib_get_trains *)
Definition g_train_periphs (t : train) : list str := map fst (tr_per t).              (* bidib_get_train_peripherals *)

(* bidib_get_point_aspects / bidib_get_signal_aspects resolve an id through
   bidib_state_get_{board,dcc}_accessory_mapping_ref: boards in order, board accessories of the kind first *)
Definition find_bacc (pt : bool) (id : str) (s : st) : option bacc :=
  find (fun m => str_eqb (bm_id m) id) (flat_map (fun b => if pt then bd_pb b else bd_sb b) (boards s)).
Definition find_dacc (pt : bool) (id : str) (s : st) : option dacc :=
  find (fun m => str_eqb (dm_id m) id) (flat_map (fun b => if pt then bd_pd b else bd_sd b) (boards s)).
Definition find_periph (id : str) (s : st) : option periph :=
  find (fun m => str_eqb (pm_id m) id) (flat_map bd_pe (boards s)).
Definition g_acc_aspects (pt : bool) (id : str) (s : st) : list str :=
  match find_bacc pt id s with
  | Some m => g_bacc_aspects m
  | None => match find_dacc pt id s with Some m => g_dacc_aspects m | None => [] end
  end.
Definition g_pe_aspects (id : str) (s : st) : list str :=
  match find_periph id s with Some m => g_periph_aspects m | None => [] end.

(* ------------------------------------------------------------------ the document as the list of its entries in file order
   (board file, then the track file set-up by set-up with its seven sections in their documented order, then the
   train file); SSetup is the `- id: <board>` header of a track-file entry *)
Inductive step :=
| SBoard (b : board_src) | SSetup (bid : str)
| SBacc (pt : bool) (bid : str) (e : bacc_src) | SDacc (pt : bool) (bid : str) (e : dacc_src)
| SPeriph (bid : str) (e : periph_src) | SSeg (bid : str) (e : seg_src) | SRev (bid : str) (e : rev_src)
| STrain (t : train_src).


Definition setup_steps (u : setup_src) : list step :=
  SSetup (su_id u) :: map (SBacc true (su_id u)) (su_pb u) ++ map (SDacc true (su_id u)) (su_pd u)
  ++ map (SBacc false (su_id u)) (su_sb u) ++ map (SDacc false (su_id u)) (su_sd u)
  ++ map (SPeriph (su_id u)) (su_pe u) ++ map (SSeg (su_id u)) (su_sg u) ++ map (SRev (su_id u)) (su_rv u).

Definition steps (d : doc3) : list step :=
  map SBoard (d_boards d) ++ flat_map setup_steps (d_track d) ++ map STrain (d_trains d).
