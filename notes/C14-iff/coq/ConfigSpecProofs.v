(* ConfigSpecProofs.v - lemmas about coq/ConfigSpec.v (C13/C14).
   Method: the three-file document is flattened into one list of atomic steps (`steps`), parse3 is the
   fold of `run_step` over it (parse3_steps); every successful step only grows the state (step_mono).
   A duplicate / shared identifier is then "an earlier step registers a fact that every later step
   preserves and that makes a later step fail" (reject_reg_req); a malformed or locally inconsistent
   entry makes its own step fail in every state (reject_local). *)
From Coq Require Import List NArith Bool Lia PeanoNat.
From LB Require Import ConfigSpec.
Import ListNotations.
Local Open Scope N_scope.

(* ------------------------------------------------------------------ basics *)
Lemma str_eqb_eq : forall a b, str_eqb a b = true <-> a = b.
Proof.
  induction a as [|x a IH]; destruct b as [|y b]; cbn; split; intro H; try congruence; try reflexivity.
  - apply andb_true_iff in H as [H1 H2]. apply N.eqb_eq in H1. apply IH in H2. congruence.
  - injection H as -> ->. rewrite N.eqb_refl. cbn. apply IH. reflexivity.
Qed.
Lemma str_eqb_refl a : str_eqb a a = true. Proof. apply str_eqb_eq. reflexivity. Qed.
Lemma str_eqb_sym a b : str_eqb a b = str_eqb b a.
Proof. destruct (str_eqb a b) eqn:E; symmetry. - apply str_eqb_eq in E. subst. apply str_eqb_refl.
  - destruct (str_eqb b a) eqn:E2; [|reflexivity]. apply str_eqb_eq in E2. subst. rewrite str_eqb_refl in E. discriminate. Qed.

Lemma mem_str_In s l : mem_str s l = true <-> In s l.
Proof.
  unfold mem_str. rewrite existsb_exists. split.
  - intros (x & Hin & He). apply str_eqb_eq in He. subst. exact Hin.
  - intro H. exists s. split; [exact H | apply str_eqb_refl].
Qed.
Lemma mem_str_false s l : mem_str s l = false <-> ~ In s l.
Proof. rewrite <- mem_str_In. destruct (mem_str s l); split; intro H; try congruence; try (exfalso; apply H; reflexivity). Qed.

Lemma addr_eqb_eq a b : addr_eqb a b = true <-> a = b.
Proof. destruct a, b. unfold addr_eqb. cbn. rewrite andb_true_iff, !N.eqb_eq. split; [intros [-> ->]; reflexivity | intro H; injection H; auto]. Qed.

(* ------------------------------------------------------------------ folds *)
Lemma fold_res_app {S A} (f : S -> A -> res S) l1 l2 s :
  fold_res f (l1 ++ l2) s = rbind (fold_res f l1 s) (fold_res f l2).
Proof. revert s. induction l1 as [|x l1 IH]; intro s; cbn; [reflexivity|]. destruct (f s x); cbn; auto. Qed.

Lemma fold_res_lift {S A} (f : S -> A -> option S) l s :
  lift (fold_opt f l s) = fold_res (fun s x => lift (f s x)) l s.
Proof. revert s. induction l as [|x l IH]; intro s; cbn; [reflexivity|]. destruct (f s x); cbn; auto. Qed.

Lemma fold_res_map {S A B} (f : S -> B -> res S) (g : A -> B) l s :
  fold_res f (map g l) s = fold_res (fun s x => f s (g x)) l s.
Proof. revert s. induction l as [|x l IH]; intro s; cbn; [reflexivity|]. destruct (f s (g x)); auto. Qed.

Lemma fold_res_ext {S A} (f g : S -> A -> res S) l s : (forall s x, f s x = g s x) -> fold_res f l s = fold_res g l s.
Proof. intro H. revert s. induction l as [|x l IH]; intro s; cbn; [reflexivity|]. rewrite H. destruct (g s x); auto. Qed.

(* ------------------------------------------------------------------ the document as one list of atomic steps *)
Definition run_step (s : st) (x : step) : res st :=
  match x with
  | SBoard b => lift (add_board_entry s b)
  | SSetup bid => rbind (lift (get_board bid s)) (fun _ => Ok s)
  | SBacc pt bid e => lift (add_bacc pt bid s e)
  | SDacc pt bid e => lift (add_dacc pt bid s e)
  | SPeriph bid e => lift (add_periph bid s e)
  | SSeg bid e => lift (add_seg bid s e)
  | SRev bid e => lift (add_rev bid s e)
  | STrain t => lift (add_train s t)
  end.

Ltac stepf :=
  rewrite ?fold_res_app, ?fold_res_map; try rewrite fold_res_lift; cbn [run_step];
  match goal with |- context [rbind (fold_res ?f ?l ?s) _] => destruct (fold_res f l s); cbn [rbind]; try reflexivity end.

Lemma add_setup_steps s u : add_setup s u = fold_res run_step (setup_steps u) s.
Proof.
  unfold add_setup, setup_steps. cbn [fold_res run_step].
  destruct (get_board (su_id u) s); cbn [lift rbind]; [|reflexivity].
  do 6 stepf.
  rewrite fold_res_map, fold_res_lift. reflexivity.
Qed.

Lemma fold_res_flat_map {S A B} (f : S -> B -> res S) (g : A -> list B) l s :
  fold_res f (flat_map g l) s = fold_res (fun s x => fold_res f (g x) s) l s.
Proof. revert s. induction l as [|x l IH]; intro s; cbn; [reflexivity|]. rewrite fold_res_app. destruct (fold_res f (g x) s); cbn; auto. Qed.

Theorem parse3_steps d : parse3 d = fold_res run_step (steps d) st0.
Proof.
  unfold parse3, steps, parse_boards. stepf.
  rewrite fold_res_app, fold_res_flat_map. rewrite (fold_res_ext _ _ _ _ add_setup_steps).
  match goal with |- context [rbind (fold_res ?f ?l ?s) _] => destruct (fold_res f l s); cbn [rbind]; try reflexivity end.
  rewrite fold_res_map, fold_res_lift. reflexivity.
Qed.

Definition is_ok {A} (r : res A) : bool := match r with Ok _ => true | _ => false end.

Lemma accept_steps d : accept d = is_ok (fold_res run_step (steps d) st0).
Proof. unfold accept. rewrite parse3_steps. reflexivity. Qed.

(* ------------------------------------------------------------------ failure propagation *)
Lemma fold_res_fail_at {S A} (f : S -> A -> res S) l1 x l2 s :
  (forall s', is_ok (f s' x) = false) -> is_ok (fold_res f (l1 ++ x :: l2) s) = false.
Proof.
  intro H. rewrite fold_res_app. destruct (fold_res f l1 s) as [s1| |k]; cbn; try reflexivity.
  specialize (H s1). destruct (f s1 x); cbn in *; congruence.
Qed.

(* an earlier step registers a fact that is preserved by every successful step and makes a later step fail *)
Lemma fold_res_reg_req {S A} (f : S -> A -> res S) (P : S -> Prop) x y :
  (forall s a s', f s a = Ok s' -> P s -> P s') ->
  (forall s s', f s x = Ok s' -> P s') ->
  (forall s, P s -> is_ok (f s y) = false) ->
  forall l1 l2 l3 s, is_ok (fold_res f (l1 ++ x :: l2 ++ y :: l3) s) = false.
Proof.
  intros Hmono Hreg Hreq l1 l2 l3 s.
  rewrite fold_res_app. destruct (fold_res f l1 s) as [s1| |k]; cbn [rbind]; try reflexivity.
  cbn [fold_res]. destruct (f s1 x) as [s2| |k] eqn:E; try reflexivity.
  apply Hreg in E.
  assert (G : forall l s, P s -> is_ok (fold_res f (l ++ y :: l3) s) = false).
  { induction l as [|a l IH]; intros s0 HP; cbn [app fold_res].
    - specialize (Hreq s0 HP). destruct (f s0 y); cbn in *; congruence.
    - destruct (f s0 a) as [s3| |k] eqn:E3; try reflexivity. apply IH. eapply Hmono; eauto. }
  apply G. exact E.
Qed.

(* ------------------------------------------------------------------ inversion of the option-monad definitions *)
Ltac inv_opt H :=
  repeat match type of H with
  | context [match ?x with _ => _ end] => destruct x eqn:?; try discriminate H
  end; try (injection H as H).

Lemma guard_true b u : guard b = Some u -> b = true.
Proof. destruct b; cbn; congruence. Qed.

Definition pid (x : str) (b : board) : bool := str_eqb (bd_id b) x.

Lemma find_upd_first id f l bid : (forall b, bd_id (f b) = bd_id b) ->
  find (pid bid) (upd_first id f l) = if str_eqb id bid then option_map f (find (pid bid) l) else find (pid bid) l.
Proof.
  intro Hf. induction l as [|b l IH]; cbn.
  - destruct (str_eqb id bid); reflexivity.
  - unfold pid at 2. unfold pid at 3. destruct (str_eqb (bd_id b) id) eqn:E1; cbn [find]; unfold pid at 1.
    + rewrite Hf. apply str_eqb_eq in E1. rewrite E1.
      destruct (str_eqb id bid) eqn:E2; [cbn; reflexivity|]. reflexivity.
    + destruct (str_eqb (bd_id b) bid) eqn:E3.
      * destruct (str_eqb id bid) eqn:E2; [|reflexivity].
        apply str_eqb_eq in E2, E3. subst. rewrite str_eqb_refl in E1. discriminate.
      * exact IH.
Qed.

Lemma get_board_upd id f s bid : (forall b, bd_id (f b) = bd_id b) ->
  get_board bid (upd_board id f s) = if str_eqb id bid then option_map f (get_board bid s) else get_board bid s.
Proof. intro Hf. unfold get_board, upd_board. cbn. apply (find_upd_first id f (boards s) bid Hf). Qed.

Lemma find_app_some {A} (p : A -> bool) l l2 b : find p l = Some b -> find p (l ++ l2) = Some b.
Proof. induction l as [|a l IH]; cbn; [discriminate|]. destruct (p a); auto. Qed.

Definition board_le (b b' : board) : Prop :=
  bd_id b = bd_id b' /\ bd_uid b = bd_uid b' /\ incl (bd_pb b) (bd_pb b') /\ incl (bd_pd b) (bd_pd b') /\
  incl (bd_sb b) (bd_sb b') /\ incl (bd_sd b) (bd_sd b') /\ incl (bd_pe b) (bd_pe b') /\
  incl (bd_sg b) (bd_sg b') /\ incl (bd_rv b) (bd_rv b').

Lemma board_le_refl b : board_le b b.
Proof. unfold board_le. repeat split; try apply incl_refl. Qed.

Record st_le (s s' : st) : Prop := {
  le_get : forall bid b, get_board bid s = Some b -> exists b', get_board bid s' = Some b' /\ board_le b b';
  le_all : forall b, In b (boards s) -> exists b', In b' (boards s') /\ board_le b b';
  le_ptb : incl (ptb s) (ptb s'); le_ptd : incl (ptd s) (ptd s');
  le_sgb : incl (sgb s) (sgb s'); le_sgd : incl (sgd s) (sgd s');
  le_pes : incl (pes s) (pes s'); le_segs : incl (segs s) (segs s'); le_revs : incl (revs s) (revs s');
  le_trains : incl (trains s) (trains s') }.

Lemma st_le_refl s : st_le s s.
Proof. constructor; try apply incl_refl; intros; eexists; split; eauto using board_le_refl. Qed.

(* appending to one list of one board *)
Lemma in_upd_first id f l b : (forall b, board_le b (f b)) -> In b l -> exists b', In b' (upd_first id f l) /\ board_le b b'.
Proof.
  intro Hf. induction l as [|a l IH]; cbn; [tauto|]. intros [->|Hin].
  - destruct (str_eqb (bd_id b) id); [exists (f b) | exists b]; split; cbn; auto using board_le_refl.
  - destruct (str_eqb (bd_id a) id).
    + exists b. split; [right; exact Hin | apply board_le_refl].
    + destruct (IH Hin) as (b' & H1 & H2). exists b'. split; [right; exact H1 | exact H2].
Qed.

Lemma st_le_upd id f s s1 :
  (forall b, board_le b (f b)) -> st_le s s1 -> st_le s (upd_board id f s1).
Proof.
  intros Hf H. assert (Hid : forall b, bd_id (f b) = bd_id b) by (intro b; symmetry; apply (Hf b)).
  destruct H. constructor; [ | | cbn; auto ..].
  - intros bid b Hb. destruct (le_get0 _ _ Hb) as (b1 & Hb1 & Hle).
    rewrite get_board_upd by exact Hid. destruct (str_eqb id bid).
    + rewrite Hb1. cbn. exists (f b1). split; [reflexivity|].
      destruct (Hf b1) as (A1 & A2 & A3 & A4 & A5 & A6 & A7 & A8 & A9).
      destruct Hle as (B1 & B2 & B3 & B4 & B5 & B6 & B7 & B8 & B9).
      unfold board_le. repeat split; try congruence; eapply incl_tran; eauto.
    + eauto.
  - intros b Hb. destruct (le_all0 _ Hb) as (b1 & Hb1 & Hle).
    destruct (in_upd_first id f _ b1 Hf Hb1) as (b2 & H1 & H2). exists b2. split; [exact H1|].
    destruct H2 as (A1 & A2 & A3 & A4 & A5 & A6 & A7 & A8 & A9).
    destruct Hle as (B1 & B2 & B3 & B4 & B5 & B6 & B7 & B8 & B9).
    unfold board_le. repeat split; try congruence; eapply incl_tran; eauto.
Qed.

Ltac ble := unfold board_le; cbn; repeat split; try apply incl_refl; try (apply incl_appl; apply incl_refl).

Lemma st_le_set_ptb s v : incl (ptb s) v -> st_le s (set_ptb s v).
Proof. intro H. constructor; cbn; try apply incl_refl; auto; intros; eexists; split; eauto using board_le_refl. Qed.
Lemma st_le_set_ptd s v : incl (ptd s) v -> st_le s (set_ptd s v).
Proof. intro H. constructor; cbn; try apply incl_refl; auto; intros; eexists; split; eauto using board_le_refl. Qed.
Lemma st_le_set_sgb s v : incl (sgb s) v -> st_le s (set_sgb s v).
Proof. intro H. constructor; cbn; try apply incl_refl; auto; intros; eexists; split; eauto using board_le_refl. Qed.
Lemma st_le_set_sgd s v : incl (sgd s) v -> st_le s (set_sgd s v).
Proof. intro H. constructor; cbn; try apply incl_refl; auto; intros; eexists; split; eauto using board_le_refl. Qed.
Lemma st_le_set_pes s v : incl (pes s) v -> st_le s (set_pes s v).
Proof. intro H. constructor; cbn; try apply incl_refl; auto; intros; eexists; split; eauto using board_le_refl. Qed.
Lemma st_le_set_segs s v : incl (segs s) v -> st_le s (set_segs s v).
Proof. intro H. constructor; cbn; try apply incl_refl; auto; intros; eexists; split; eauto using board_le_refl. Qed.
Lemma st_le_set_revs s v : incl (revs s) v -> st_le s (set_revs s v).
Proof. intro H. constructor; cbn; try apply incl_refl; auto; intros; eexists; split; eauto using board_le_refl. Qed.

(* explicit results of the successful steps *)
Lemma add_bacc_ok pt bid s e s' : add_bacc pt bid s e = Some s' ->
  exists n asps b, to_byte (ba_num e) = Some n /\ fold_opt add_aspect (ba_aspects e) [] = Some asps /\ asps <> [] /\
    init_ok (map asp_id asps) (ba_init e) = true /\ get_board bid s = Some b /\
    existsb (fun m => bm_num m =? n) (bd_pb b ++ bd_sb b) = false /\
    mem_str (ba_id e) (if pt then ptb s ++ ptd s else sgb s ++ sgd s) = false /\
    s' = (let m := {| bm_id := ba_id e; bm_num := n; bm_aspects := asps |} in
          if pt then upd_board bid (fun b => bset_pb b (bd_pb b ++ [m])) (set_ptb s (ptb s ++ [ba_id e]))
          else upd_board bid (fun b => bset_sb b (bd_sb b ++ [m])) (set_sgb s (sgb s ++ [ba_id e]))).
Proof.
  unfold add_bacc, bind. intro H.
  destruct (to_byte (ba_num e)) as [n|]; [|discriminate].
  destruct (fold_opt add_aspect (ba_aspects e) []) as [asps|]; [|discriminate].
  destruct (guard (negb (is_nil asps))) eqn:G1; [|discriminate].
  destruct (guard (init_ok (map asp_id asps) (ba_init e))) eqn:G2; [|discriminate].
  destruct (get_board bid s) as [b|]; [|discriminate].
  destruct (guard (negb (existsb _ _))) eqn:G3; [|discriminate].
  destruct (guard (negb (mem_str _ _))) eqn:G4; [|discriminate].
  injection H as <-. exists n, asps, b.
  destruct u, u0, u1, u2.
  apply guard_true in G1, G2, G3, G4. apply negb_true_iff in G1, G3, G4.
  repeat split; auto. destruct asps; [discriminate | congruence].
Qed.

Lemma lift_ok {A} (o : option A) a : lift o = Ok a -> o = Some a.
Proof. destruct o; cbn; congruence. Qed.

Ltac inv_do H :=
  unfold bind in H;
  repeat match type of H with
  | context [match ?x with _ => _ end] => let E := fresh "E" in destruct x eqn:E; try discriminate H
  end;
  try (injection H as H).

Lemma step_mono x s s' : run_step s x = Ok s' -> st_le s s'.
Proof.
  destruct x; cbn [run_step]; intro H.
  - apply lift_ok in H. unfold add_board_entry in H. inv_do H; subst s';
    (constructor; cbn; try apply incl_refl;
     [ intros bid b0 Hb; exists b0; split; [|apply board_le_refl]; unfold get_board in *; cbn; apply find_app_some; exact Hb
     | intros b0 Hb; exists b0; split; [apply in_or_app; left; exact Hb | apply board_le_refl] ]).
  - destruct (get_board bid s); cbn in H; [|discriminate]. injection H as <-. apply st_le_refl.
  - apply lift_ok in H. apply add_bacc_ok in H as (n & asps & b & _ & _ & _ & _ & _ & _ & _ & ->).
    destruct pt; cbn zeta.
    + apply st_le_upd; [intro; ble | apply st_le_set_ptb; apply incl_appl; apply incl_refl].
    + apply st_le_upd; [intro; ble | apply st_le_set_sgb; apply incl_appl; apply incl_refl].
  - apply lift_ok in H. unfold add_dacc in H. destruct pt; inv_do H; subst s'.
    + apply st_le_upd; [intro; ble | apply st_le_set_ptd; apply incl_appl; apply incl_refl].
    + apply st_le_upd; [intro; ble | apply st_le_set_sgd; apply incl_appl; apply incl_refl].
  - apply lift_ok in H. unfold add_periph in H. inv_do H. subst s'.
    apply st_le_upd; [intro; ble | apply st_le_set_pes; apply incl_appl; apply incl_refl].
  - apply lift_ok in H. unfold add_seg in H. inv_do H. subst s'.
    apply st_le_upd; [intro; ble | apply st_le_set_segs; apply incl_appl; apply incl_refl].
  - apply lift_ok in H. unfold add_rev in H. inv_do H. subst s'.
    apply st_le_upd; [intro; ble | apply st_le_set_revs; apply incl_appl; apply incl_refl].
  - apply lift_ok in H. unfold add_train in H. inv_do H. subst s'.
    constructor; cbn; try apply incl_refl; try (apply incl_appl; apply incl_refl);
      intros; eexists; split; eauto using board_le_refl.
Qed.

Lemma reject_reg_req (P : st -> Prop) x y d l1 l2 l3 :
  steps d = l1 ++ x :: l2 ++ y :: l3 ->
  (forall s s', st_le s s' -> P s -> P s') ->
  (forall s s', run_step s x = Ok s' -> P s') ->
  (forall s, P s -> is_ok (run_step s y) = false) ->
  accept d = false.
Proof.
  intros Hs Hmono Hreg Hreq. rewrite accept_steps, Hs.
  apply fold_res_reg_req with (P := P); auto.
  intros s a s' Hstep HP. eapply Hmono; [eapply step_mono; eauto | exact HP].
Qed.

Lemma reject_local x d : In x (steps d) -> (forall s, is_ok (run_step s x) = false) -> accept d = false.
Proof.
  intros Hin H. apply in_split in Hin as (l1 & l2 & E). rewrite accept_steps, E. apply fold_res_fail_at. exact H.
Qed.

Lemma is_ok_lift_none {A} (o : option A) : o = None -> is_ok (lift o) = false.
Proof. intros ->. reflexivity. Qed.

(* walk through a do-chain: use known equations, otherwise split; closes the goal when a guard fails *)
Ltac walk :=
  repeat (cbv beta iota; match goal with
   | H : ?x = _ |- context [match ?x with _ => _ end] => rewrite H
   | |- context [match ?x with _ => _ end] => destruct x eqn:?; try reflexivity
  end); try reflexivity.

Lemma guard_false b : b = false -> guard b = None.
Proof. intros ->. reflexivity. Qed.

(* ------------------------------------------------------------------ ids *)
Definition point_id_of (x : step) : option str :=
  match x with SBacc true _ e => Some (ba_id e) | SDacc true _ e => Some (dc_id e) | _ => None end.
Definition signal_id_of (x : step) : option str :=
  match x with SBacc false _ e => Some (ba_id e) | SDacc false _ e => Some (dc_id e) | _ => None end.

Lemma point_reg x k s s' : point_id_of x = Some k -> run_step s x = Ok s' -> In k (ptb s' ++ ptd s').
Proof.
  destruct x as [| |[] bid e|[] bid e| | | |]; cbn [point_id_of]; try discriminate; intros [= <-] H; cbn [run_step] in H; apply lift_ok in H.
  - apply add_bacc_ok in H as (n & asps & b & _ & _ & _ & _ & _ & _ & _ & ->). cbn. rewrite <- app_assoc. apply in_or_app. right. left. reflexivity.
  - unfold add_dacc in H. inv_do H. subst s'. cbn. apply in_or_app. right. apply in_or_app. right. left. reflexivity.
Qed.

Lemma point_req y k s : point_id_of y = Some k -> In k (ptb s ++ ptd s) -> is_ok (run_step s y) = false.
Proof.
  intros Hy Hin. apply mem_str_In in Hin.
  destruct y as [| |[] bid e|[] bid e| | | |]; cbn [point_id_of] in Hy; try discriminate; injection Hy as <-; cbn [run_step]; apply is_ok_lift_none.
  - unfold add_bacc, bind. assert (G : guard (negb (mem_str (ba_id e) (ptb s ++ ptd s))) = None) by (rewrite Hin; reflexivity). walk.
  - unfold add_dacc, bind. assert (G : guard (negb (mem_str (dc_id e) (ptb s ++ ptd s))) = None) by (rewrite Hin; reflexivity). walk.
Qed.

Theorem rejects_dup_point_id d x y k l1 l2 l3 :
  steps d = l1 ++ x :: l2 ++ y :: l3 -> point_id_of x = Some k -> point_id_of y = Some k -> accept d = false.
Proof.
  intros Hs Hx Hy. apply (reject_reg_req (fun s => In k (ptb s ++ ptd s)) x y d l1 l2 l3 Hs).
  - intros s s' [] H. apply in_app_or in H as [H|H]; apply in_or_app; [left|right]; auto.
  - intros s s' H. exact (point_reg x k s s' Hx H).
  - intros s H. exact (point_req y k s Hy H).
Qed.

Lemma signal_reg x k s s' : signal_id_of x = Some k -> run_step s x = Ok s' -> In k (sgb s' ++ sgd s').
Proof.
  destruct x as [| |[] bid e|[] bid e| | | |]; cbn [signal_id_of]; try discriminate; intros [= <-] H; cbn [run_step] in H; apply lift_ok in H.
  - apply add_bacc_ok in H as (n & asps & b & _ & _ & _ & _ & _ & _ & _ & ->). cbn. rewrite <- app_assoc. apply in_or_app. right. left. reflexivity.
  - unfold add_dacc in H. inv_do H. subst s'. cbn. apply in_or_app. right. apply in_or_app. right. left. reflexivity.
Qed.
Lemma signal_req y k s : signal_id_of y = Some k -> In k (sgb s ++ sgd s) -> is_ok (run_step s y) = false.
Proof.
  intros Hy Hin. apply mem_str_In in Hin.
  destruct y as [| |[] bid e|[] bid e| | | |]; cbn [signal_id_of] in Hy; try discriminate; injection Hy as <-; cbn [run_step]; apply is_ok_lift_none.
  - unfold add_bacc, bind. assert (G : guard (negb (mem_str (ba_id e) (sgb s ++ sgd s))) = None) by (rewrite Hin; reflexivity). walk.
  - unfold add_dacc, bind. assert (G : guard (negb (mem_str (dc_id e) (sgb s ++ sgd s))) = None) by (rewrite Hin; reflexivity). walk.
Qed.
Theorem rejects_dup_signal_id d x y k l1 l2 l3 :
  steps d = l1 ++ x :: l2 ++ y :: l3 -> signal_id_of x = Some k -> signal_id_of y = Some k -> accept d = false.
Proof.
  intros Hs Hx Hy. apply (reject_reg_req (fun s => In k (sgb s ++ sgd s)) x y d l1 l2 l3 Hs).
  - intros s s' [] H. apply in_app_or in H as [H|H]; apply in_or_app; [left|right]; auto.
  - intros s s' H. exact (signal_reg x k s s' Hx H).
  - intros s H. exact (signal_req y k s Hy H).
Qed.

Theorem rejects_dup_peripheral_id d b1 e1 b2 e2 l1 l2 l3 :
  steps d = l1 ++ SPeriph b1 e1 :: l2 ++ SPeriph b2 e2 :: l3 -> p_id e1 = p_id e2 -> accept d = false.
Proof.
  intros Hs He. apply (reject_reg_req (fun s => In (p_id e1) (pes s)) _ _ d l1 l2 l3 Hs).
  - intros s s' [] H. auto.
  - intros s s' H. cbn in H. apply lift_ok in H. unfold add_periph in H. inv_do H. subst s'. cbn. apply in_or_app. right. left. reflexivity.
  - intros s H. apply mem_str_In in H. cbn [run_step]. apply is_ok_lift_none. unfold add_periph, bind.
    assert (G : guard (negb (mem_str (p_id e2) (pes s))) = None) by (rewrite <- He, H; reflexivity). walk.
Qed.

Theorem rejects_dup_segment_id d b1 e1 b2 e2 l1 l2 l3 :
  steps d = l1 ++ SSeg b1 e1 :: l2 ++ SSeg b2 e2 :: l3 -> sg_id e1 = sg_id e2 -> accept d = false.
Proof.
  intros Hs He. apply (reject_reg_req (fun s => In (sg_id e1) (segs s)) _ _ d l1 l2 l3 Hs).
  - intros s s' [] H. auto.
  - intros s s' H. cbn in H. apply lift_ok in H. unfold add_seg in H. inv_do H. subst s'. cbn. apply in_or_app. right. left. reflexivity.
  - intros s H. apply mem_str_In in H. cbn [run_step]. apply is_ok_lift_none. unfold add_seg, bind.
    assert (G : guard (negb (mem_str (sg_id e2) (segs s))) = None) by (rewrite <- He, H; reflexivity). walk.
Qed.

Theorem rejects_dup_reverser_id d b1 e1 b2 e2 l1 l2 l3 :
  steps d = l1 ++ SRev b1 e1 :: l2 ++ SRev b2 e2 :: l3 -> rv_id e1 = rv_id e2 -> accept d = false.
Proof.
  intros Hs He. apply (reject_reg_req (fun s => In (rv_id e1) (revs s)) _ _ d l1 l2 l3 Hs).
  - intros s s' [] H. auto.
  - intros s s' H. cbn in H. apply lift_ok in H. unfold add_rev in H. inv_do H. subst s'. cbn. apply in_or_app. right. left. reflexivity.
  - intros s H. apply mem_str_In in H. cbn [run_step]. apply is_ok_lift_none. unfold add_rev, bind.
    assert (G : guard (negb (mem_str (rv_id e2) (revs s))) = None) by (rewrite <- He, H; reflexivity). walk.
Qed.

Lemma existsb_true {A} (p : A -> bool) l x : In x l -> p x = true -> existsb p l = true.
Proof. intros. apply existsb_exists. eauto. Qed.

Theorem rejects_dup_train_id d t1 t2 l1 l2 l3 :
  steps d = l1 ++ STrain t1 :: l2 ++ STrain t2 :: l3 -> t_id t1 = t_id t2 -> accept d = false.
Proof.
  intros Hs He. apply (reject_reg_req (fun s => exists t, In t (trains s) /\ tr_id t = t_id t1) _ _ d l1 l2 l3 Hs).
  - intros s s' [] (t & H1 & H2). exists t. auto.
  - intros s s' H. cbn in H. apply lift_ok in H. unfold add_train in H. inv_do H; subst s'; cbn; eexists; (split; [apply in_or_app; right; left; reflexivity | reflexivity]).
  - intros s (t & H1 & H2). cbn [run_step]. apply is_ok_lift_none. unfold add_train, bind.
    assert (G : guard (negb (existsb (fun x => str_eqb (tr_id x) (t_id t2)) (trains s))) = None).
    { rewrite (existsb_true _ _ t H1); [reflexivity|]. rewrite H2, He. apply str_eqb_refl. }
    walk.
Qed.

Theorem rejects_dup_board_id d b1 b2 l1 l2 l3 :
  steps d = l1 ++ SBoard b1 :: l2 ++ SBoard b2 :: l3 -> b_id b1 = b_id b2 -> accept d = false.
Proof.
  intros Hs He. apply (reject_reg_req (fun s => exists b, In b (boards s) /\ bd_id b = b_id b1) _ _ d l1 l2 l3 Hs).
  - intros s s' Hle (b & H1 & H2). destruct (le_all _ _ Hle b H1) as (b' & H3 & H4). exists b'. split; [exact H3|]. destruct H4 as (H4 & _). congruence.
  - intros s s' H. cbn in H. apply lift_ok in H. unfold add_board_entry in H. inv_do H; subst s'; cbn; eexists; (split; [apply in_or_app; right; left; reflexivity | reflexivity]).
  - intros s (b & H1 & H2). cbn [run_step]. apply is_ok_lift_none. unfold add_board_entry, bind.
    destruct (to_uid (b_uid b2)) as [u|]; [|reflexivity]. cbv beta iota.
    destruct (fold_opt add_feature (b_feats b2) []); [|reflexivity]. cbv beta iota.
    rewrite (existsb_true _ _ b H1); [reflexivity|]. rewrite H2, He, str_eqb_refl. reflexivity.
Qed.

Theorem rejects_dup_unique_id d b1 b2 u l1 l2 l3 :
  steps d = l1 ++ SBoard b1 :: l2 ++ SBoard b2 :: l3 -> to_uid (b_uid b1) = Some u -> to_uid (b_uid b2) = Some u -> accept d = false.
Proof.
  intros Hs H1 H2. apply (reject_reg_req (fun s => exists b, In b (boards s) /\ bd_uid b = u) _ _ d l1 l2 l3 Hs).
  - intros s s' Hle (b & Hb1 & Hb2). destruct (le_all _ _ Hle b Hb1) as (b' & H3 & H4). exists b'. split; [exact H3|]. destruct H4 as (_ & H4 & _). congruence.
  - intros s s' H. cbn in H. apply lift_ok in H. unfold add_board_entry in H. rewrite H1 in H. inv_do H; subst s'; cbn; eexists; (split; [apply in_or_app; right; left; reflexivity | reflexivity]).
  - intros s (b & Hb1 & Hb2). cbn [run_step]. apply is_ok_lift_none. unfold add_board_entry, bind. rewrite H2. cbv beta iota.
    destruct (fold_opt add_feature (b_feats b2) []); [|reflexivity]. cbv beta iota.
    rewrite (existsb_true _ _ b Hb1); [reflexivity|]. rewrite Hb2, str_eqb_refl. apply orb_true_r.
Qed.

Lemma incl_map_in {A B} (f : A -> B) l l' x : incl l l' -> In x (map f l) -> In x (map f l').
Proof. intros H Hin. apply in_map_iff in Hin as (a & <- & Ha). apply in_map. auto. Qed.

Lemma get_board_set_upd bid f s1 b :
  (forall b, bd_id (f b) = bd_id b) -> get_board bid s1 = Some b -> get_board bid (upd_board bid f s1) = Some (f b).
Proof. intros Hf H. rewrite get_board_upd by exact Hf. rewrite str_eqb_refl, H. reflexivity. Qed.

(* ------------------------------------------------------------------ accessory numbers on a board *)
Definition has_num (bid : str) (n : N) (s : st) : Prop :=
  exists b, get_board bid s = Some b /\ In n (map bm_num (bd_pb b ++ bd_sb b)).

(* board points and board signals of one board share one accessory-number space *)
Theorem rejects_dup_accessory_number d pt1 pt2 bid e1 e2 n l1 l2 l3 :
  steps d = l1 ++ SBacc pt1 bid e1 :: l2 ++ SBacc pt2 bid e2 :: l3 ->
  to_byte (ba_num e1) = Some n -> to_byte (ba_num e2) = Some n -> accept d = false.
Proof.
  intros Hs H1 H2. apply (reject_reg_req (has_num bid n) _ _ d l1 l2 l3 Hs).
  - intros s s' Hle (b & Hb & Hin). destruct (le_get _ _ Hle _ _ Hb) as (b' & Hb' & Hbl). exists b'. split; [exact Hb'|].
    destruct Hbl as (_ & _ & A3 & _ & A5 & _). rewrite map_app in *. apply in_app_or in Hin as [Hin|Hin]; apply in_or_app; [left|right]; eapply incl_map_in; eauto.
  - intros s s' H. cbn in H. apply lift_ok in H. apply add_bacc_ok in H as (n' & asps & b & Hn & _ & _ & _ & Hb & _ & _ & ->).
    rewrite H1 in Hn. injection Hn as <-. destruct pt1; cbn zeta.
    + eexists. split; [apply get_board_set_upd; [reflexivity | exact Hb]|]. cbn. rewrite !map_app. apply in_or_app. left. apply in_or_app. right. left. reflexivity.
    + eexists. split; [apply get_board_set_upd; [reflexivity | exact Hb]|]. cbn. rewrite !map_app. apply in_or_app. right. apply in_or_app. right. left. reflexivity.
  - intros s (b & Hb & Hin). cbn [run_step]. apply is_ok_lift_none. unfold add_bacc, bind.
    apply in_map_iff in Hin as (m & Hm & Hin).
    assert (G : guard (negb (existsb (fun m => bm_num m =? n) (bd_pb b ++ bd_sb b))) = None).
    { rewrite (existsb_true _ _ m Hin); [reflexivity|]. apply N.eqb_eq. exact Hm. }
    walk.
Qed.

(* ------------------------------------------------------------------ peripheral numbers and ports on a board *)
Theorem rejects_dup_peripheral_number d bid e1 e2 n l1 l2 l3 :
  steps d = l1 ++ SPeriph bid e1 :: l2 ++ SPeriph bid e2 :: l3 ->
  to_byte (p_num e1) = Some n -> to_byte (p_num e2) = Some n -> accept d = false.
Proof.
  intros Hs H1 H2.
  apply (reject_reg_req (fun s => exists b, get_board bid s = Some b /\ In n (map pm_num (bd_pe b))) _ _ d l1 l2 l3 Hs).
  - intros s s' Hle (b & Hb & Hin). destruct (le_get _ _ Hle _ _ Hb) as (b' & Hb' & Hbl). exists b'. split; [exact Hb'|].
    destruct Hbl as (_ & _ & _ & _ & _ & _ & A7 & _). eapply incl_map_in; eauto.
  - intros s s' H. cbn in H. apply lift_ok in H. unfold add_periph in H. rewrite H1 in H. inv_do H. subst s'.
    eexists. split; [apply get_board_set_upd; [reflexivity | match goal with Hb : get_board _ _ = Some _ |- _ => exact Hb end]|]. cbn. rewrite map_app. apply in_or_app. right. left. reflexivity.
  - intros s (b & Hb & Hin). cbn [run_step]. apply is_ok_lift_none. unfold add_periph, bind.
    apply in_map_iff in Hin as (m & Hm & Hin). rewrite H2. cbv beta iota.
    destruct (to_pair (p_port e2)) as [pt|]; [|reflexivity].
    assert (G : guard (negb (existsb (fun m => addr_eqb (pm_port m) pt || (pm_num m =? n)) (bd_pe b))) = None).
    { rewrite (existsb_true _ _ m Hin); [reflexivity|]. rewrite Hm, N.eqb_refl. apply orb_true_r. }
    walk.
Qed.

Theorem rejects_dup_peripheral_port d bid e1 e2 p l1 l2 l3 :
  steps d = l1 ++ SPeriph bid e1 :: l2 ++ SPeriph bid e2 :: l3 ->
  to_pair (p_port e1) = Some p -> to_pair (p_port e2) = Some p -> accept d = false.
Proof.
  intros Hs H1 H2.
  apply (reject_reg_req (fun s => exists b, get_board bid s = Some b /\ In p (map pm_port (bd_pe b))) _ _ d l1 l2 l3 Hs).
  - intros s s' Hle (b & Hb & Hin). destruct (le_get _ _ Hle _ _ Hb) as (b' & Hb' & Hbl). exists b'. split; [exact Hb'|].
    destruct Hbl as (_ & _ & _ & _ & _ & _ & A7 & _). eapply incl_map_in; eauto.
  - intros s s' H. cbn in H. apply lift_ok in H. unfold add_periph in H. rewrite H1 in H. inv_do H. subst s'.
    eexists. split; [apply get_board_set_upd; [reflexivity | match goal with Hb : get_board _ _ = Some _ |- _ => exact Hb end]|]. cbn. rewrite map_app. apply in_or_app. right. left. reflexivity.
  - intros s (b & Hb & Hin). cbn [run_step]. apply is_ok_lift_none. unfold add_periph, bind.
    apply in_map_iff in Hin as (m & Hm & Hin). rewrite H2.
    destruct (to_byte (p_num e2)) as [n|]; [|reflexivity]. cbv beta iota.
    assert (G : guard (negb (existsb (fun m => addr_eqb (pm_port m) p || (pm_num m =? n)) (bd_pe b))) = None).
    { rewrite (existsb_true _ _ m Hin); [reflexivity|]. rewrite Hm. replace (addr_eqb p p) with true by (symmetry; apply addr_eqb_eq; reflexivity). reflexivity. }
    walk.
Qed.

(* ------------------------------------------------------------------ segment addresses and reverser CVs on a board *)
Theorem rejects_dup_segment_address d bid e1 e2 a l1 l2 l3 :
  steps d = l1 ++ SSeg bid e1 :: l2 ++ SSeg bid e2 :: l3 ->
  to_byte (sg_addr e1) = Some a -> to_byte (sg_addr e2) = Some a -> accept d = false.
Proof.
  intros Hs H1 H2.
  apply (reject_reg_req (fun s => exists b, get_board bid s = Some b /\ In a (map snd (bd_sg b))) _ _ d l1 l2 l3 Hs).
  - intros s s' Hle (b & Hb & Hin). destruct (le_get _ _ Hle _ _ Hb) as (b' & Hb' & Hbl). exists b'. split; [exact Hb'|].
    destruct Hbl as (_ & _ & _ & _ & _ & _ & _ & A8 & _). eapply incl_map_in; eauto.
  - intros s s' H. cbn in H. apply lift_ok in H. unfold add_seg in H. rewrite H1 in H. inv_do H. subst s'.
    eexists. split; [apply get_board_set_upd; [reflexivity | match goal with Hb : get_board _ _ = Some _ |- _ => exact Hb end]|]. cbn. rewrite map_app. apply in_or_app. right. left. reflexivity.
  - intros s (b & Hb & Hin). cbn [run_step]. apply is_ok_lift_none. unfold add_seg, bind. rewrite H2. cbv beta iota.
    apply in_map_iff in Hin as (m & Hm & Hin).
    assert (G : guard (negb (existsb (fun m => snd m =? a) (bd_sg b))) = None).
    { rewrite (existsb_true _ _ m Hin); [reflexivity|]. apply N.eqb_eq. exact Hm. }
    walk.
Qed.

Theorem rejects_dup_cv d bid e1 e2 l1 l2 l3 :
  steps d = l1 ++ SRev bid e1 :: l2 ++ SRev bid e2 :: l3 -> rv_cv e1 = rv_cv e2 -> accept d = false.
Proof.
  intros Hs He.
  apply (reject_reg_req (fun s => exists b, get_board bid s = Some b /\ In (rv_cv e1) (map snd (bd_rv b))) _ _ d l1 l2 l3 Hs).
  - intros s s' Hle (b & Hb & Hin). destruct (le_get _ _ Hle _ _ Hb) as (b' & Hb' & Hbl). exists b'. split; [exact Hb'|].
    destruct Hbl as (_ & _ & _ & _ & _ & _ & _ & _ & A9). eapply incl_map_in; eauto.
  - intros s s' H. cbn in H. apply lift_ok in H. unfold add_rev in H. inv_do H. subst s'.
    eexists. split; [apply get_board_set_upd; [reflexivity | match goal with Hb : get_board _ _ = Some _ |- _ => exact Hb end]|]. cbn. rewrite map_app. apply in_or_app. right. left. reflexivity.
  - intros s (b & Hb & Hin). cbn [run_step]. apply is_ok_lift_none. unfold add_rev, bind.
    apply in_map_iff in Hin as (m & Hm & Hin).
    assert (G : guard (negb (existsb (fun m => str_eqb (snd m) (rv_cv e2)) (bd_rv b))) = None).
    { rewrite (existsb_true _ _ m Hin); [reflexivity|]. rewrite Hm, He. apply str_eqb_refl. }
    walk.
Qed.

(* ------------------------------------------------------------------ DCC addresses: accessories and trains *)
Definition dcc_reg (a : N * N) (s : st) : Prop :=
  (exists b, In b (boards s) /\ (In a (map dm_addr (bd_pd b)) \/ In a (map dm_addr (bd_sd b)))) \/ In a (map tr_addr (trains s)).

Lemma dcc_in_use_true s a : dcc_reg a s -> dcc_in_use s a = true.
Proof.
  unfold dcc_in_use. intros [(b & Hb & [H|H]) | H]; apply orb_true_iff.
  - left. apply (existsb_true _ _ b Hb). apply orb_true_iff. left. apply in_map_iff in H as (m & Hm & Hin).
    apply (existsb_true _ _ m Hin). apply addr_eqb_eq. exact Hm.
  - left. apply (existsb_true _ _ b Hb). apply orb_true_iff. right. apply in_map_iff in H as (m & Hm & Hin).
    apply (existsb_true _ _ m Hin). apply addr_eqb_eq. exact Hm.
  - right. apply in_map_iff in H as (t & Ht & Hin). apply (existsb_true _ _ t Hin). apply addr_eqb_eq. exact Ht.
Qed.

Definition dcc_addr_of (x : step) : option (N * N) :=
  match x with SDacc _ _ e => to_pair (dc_addr e) | STrain t => to_pair (t_addr t) | _ => None end.

Lemma upd_first_in bid f l b : find (pid bid) l = Some b -> In (f b) (upd_first bid f l).
Proof.
  induction l as [|a l IH]; cbn; [discriminate|]. unfold pid at 1. destruct (str_eqb (bd_id a) bid).
  - intros [= ->]. left. reflexivity.
  - intro H. right. auto.
Qed.

Lemma dcc_reg_step x a s s' : dcc_addr_of x = Some a -> run_step s x = Ok s' -> dcc_reg a s'.
Proof.
  destruct x; cbn [dcc_addr_of]; try discriminate; intros Ha H; cbn [run_step] in H; apply lift_ok in H.
  - unfold add_dacc in H. rewrite Ha in H. destruct pt; inv_do H; subst s'; left.
    + set (f := fun b0 : board => bset_pd b0 (bd_pd b0 ++ [{| dm_id := dc_id e; dm_addr := a; dm_ext := n; dm_aspects := l |}])).
      exists (f b). split.
      * cbn. apply (upd_first_in bid f (boards s) b). assumption.
      * left. cbn. rewrite map_app. apply in_or_app. right. left. reflexivity.
    + set (f := fun b0 : board => bset_sd b0 (bd_sd b0 ++ [{| dm_id := dc_id e; dm_addr := a; dm_ext := n; dm_aspects := l |}])).
      exists (f b). split.
      * cbn. apply (upd_first_in bid f (boards s) b). assumption.
      * right. cbn. rewrite map_app. apply in_or_app. right. left. reflexivity.
  - unfold add_train in H. rewrite Ha in H. inv_do H; subst s'; right; cbn; rewrite map_app; apply in_or_app; right; left; reflexivity.
Qed.

Lemma dcc_req_step y a s : dcc_addr_of y = Some a -> dcc_reg a s -> is_ok (run_step s y) = false.
Proof.
  intros Hy Hr. apply dcc_in_use_true in Hr.
  assert (G : guard (negb (dcc_in_use s a)) = None) by (rewrite Hr; reflexivity).
  destruct y; cbn [dcc_addr_of] in Hy; try discriminate; cbn [run_step]; apply is_ok_lift_none.
  - unfold add_dacc, bind. walk.
  - unfold add_train, bind. walk.
Qed.

Theorem rejects_shared_dcc_address d x y a l1 l2 l3 :
  steps d = l1 ++ x :: l2 ++ y :: l3 -> dcc_addr_of x = Some a -> dcc_addr_of y = Some a -> accept d = false.
Proof.
  intros Hs Hx Hy. apply (reject_reg_req (dcc_reg a) x y d l1 l2 l3 Hs).
  - intros s s' Hle [(b & Hb & H) | H].
    + left. destruct (le_all _ _ Hle b Hb) as (b' & Hb' & Hbl). exists b'. split; [exact Hb'|].
      destruct Hbl as (_ & _ & _ & A4 & _ & A6 & _). destruct H as [H|H]; [left|right]; eapply incl_map_in; eauto.
    + right. eapply incl_map_in; [apply (le_trains _ _ Hle) | exact H].
  - intros s s' H. exact (dcc_reg_step x a s s' Hx H).
  - intros s H. exact (dcc_req_step y a s Hy H).
Qed.

(* ------------------------------------------------------------------ option folds *)
Lemma fold_opt_none_of_res {S A} (f : S -> A -> option S) l s :
  is_ok (fold_res (fun s x => lift (f s x)) l s) = false -> fold_opt f l s = None.
Proof. rewrite <- fold_res_lift. destruct (fold_opt f l s); cbn; congruence. Qed.

Lemma fold_opt_fail_at {S A} (f : S -> A -> option S) l x s :
  In x l -> (forall s', f s' x = None) -> fold_opt f l s = None.
Proof.
  intros Hin H. apply in_split in Hin as (l1 & l2 & ->). apply fold_opt_none_of_res. apply fold_res_fail_at.
  intro s'. rewrite H. reflexivity.
Qed.

Lemma fold_opt_reg_req {S A} (f : S -> A -> option S) (P : S -> Prop) x y :
  (forall s a s', f s a = Some s' -> P s -> P s') ->
  (forall s s', f s x = Some s' -> P s') ->
  (forall s, P s -> f s y = None) ->
  forall l1 l2 l3 s, fold_opt f (l1 ++ x :: l2 ++ y :: l3) s = None.
Proof.
  intros Hm Hr Hq l1 l2 l3 s. apply fold_opt_none_of_res. apply fold_res_reg_req with (P := P).
  - intros s0 a s' H. apply lift_ok in H. eauto.
  - intros s0 s' H. apply lift_ok in H. eauto.
  - intros s0 HP. rewrite (Hq s0 HP). reflexivity.
Qed.

Definition before {A} (x y : A) (l : list A) : Prop := exists l1 l2 l3, l = l1 ++ x :: l2 ++ y :: l3.

(* ------------------------------------------------------------------ aspects of board accessories and peripherals *)
Lemma add_aspect_ok acc a acc' : add_aspect acc a = Some acc' ->
  exists v, to_byte (a_val a) = Some v /\ acc' = acc ++ [{| asp_id := a_id a; asp_val := v |}].
Proof. unfold add_aspect. intro H. inv_do H. subst. eauto. Qed.

Lemma aspects_ids l : forall acc acc', fold_opt add_aspect l acc = Some acc' -> map asp_id acc' = map asp_id acc ++ map a_id l.
Proof.
  induction l as [|a l IH]; cbn; intros acc acc' H.
  - injection H as <-. rewrite app_nil_r. reflexivity.
  - destruct (add_aspect acc a) as [acc1|] eqn:E; [|discriminate]. apply add_aspect_ok in E as (v & _ & ->).
    rewrite (IH _ _ H), map_app, <- app_assoc. reflexivity.
Qed.

Definition aspects_fault (l : list aspect_src) : Prop :=
  (exists a, In a l /\ to_byte (a_val a) = None)
  \/ (exists a1 a2, before a1 a2 l /\ a_id a1 = a_id a2)
  \/ (exists a1 a2 v, before a1 a2 l /\ to_byte (a_val a1) = Some v /\ to_byte (a_val a2) = Some v).

Lemma aspects_fault_none l acc : aspects_fault l -> fold_opt add_aspect l acc = None.
Proof.
  intros [(a & Hin & Hv) | [(a1 & a2 & (l1 & l2 & l3 & ->) & Hid) | (a1 & a2 & v & (l1 & l2 & l3 & ->) & H1 & H2)]].
  - apply (fold_opt_fail_at _ _ a _ Hin). intro s'. unfold add_aspect, bind. rewrite Hv. reflexivity.
  - apply fold_opt_reg_req with (P := fun acc => In (a_id a1) (map asp_id acc)).
    + intros s a s' H HP. apply add_aspect_ok in H as (v & _ & ->). rewrite map_app. apply in_or_app. left. exact HP.
    + intros s s' H. apply add_aspect_ok in H as (v & _ & ->). rewrite map_app. apply in_or_app. right. left. reflexivity.
    + intros s HP. unfold add_aspect, bind. destruct (to_byte (a_val a2)); [|reflexivity]. cbv beta iota.
      apply in_map_iff in HP as (x & Hx & Hin). rewrite (existsb_true _ _ x Hin); [reflexivity|].
      rewrite Hx, Hid, str_eqb_refl. apply orb_true_r.
  - apply fold_opt_reg_req with (P := fun acc => In v (map asp_val acc)).
    + intros s a s' H HP. apply add_aspect_ok in H as (v' & _ & ->). rewrite map_app. apply in_or_app. left. exact HP.
    + intros s s' H. apply add_aspect_ok in H as (v' & Hv & ->). rewrite H1 in Hv. injection Hv as <-. rewrite map_app. apply in_or_app. right. left. reflexivity.
    + intros s HP. unfold add_aspect, bind. rewrite H2. cbv beta iota.
      apply in_map_iff in HP as (x & Hx & Hin). rewrite (existsb_true _ _ x Hin); [reflexivity|].
      rewrite Hx, N.eqb_refl. reflexivity.
Qed.

Definition init_fault (ids : list str) (i : option str) : Prop := exists v, i = Some v /\ ~ In v ids.

Lemma init_fault_false ids i : init_fault ids i -> init_ok ids i = false.
Proof. intros (v & -> & H). cbn. apply mem_str_false. exact H. Qed.

(* faults of one board accessory / peripheral entry that do not depend on the rest of the document *)
Definition bacc_fault (e : bacc_src) : Prop :=
  to_byte (ba_num e) = None \/ aspects_fault (ba_aspects e) \/ ba_aspects e = [] \/ init_fault (map a_id (ba_aspects e)) (ba_init e).
Definition periph_fault (e : periph_src) : Prop :=
  to_byte (p_num e) = None \/ to_pair (p_port e) = None \/ aspects_fault (p_aspects e) \/ p_aspects e = [] \/
  init_fault (map a_id (p_aspects e)) (p_init e).

Lemma bacc_fault_none pt bid s e : bacc_fault e -> add_bacc pt bid s e = None.
Proof.
  unfold add_bacc, bind. intros [H | [H | [H | H]]].
  - rewrite H. reflexivity.
  - destruct (to_byte (ba_num e)); [|reflexivity]. rewrite (aspects_fault_none _ [] H). reflexivity.
  - destruct (to_byte (ba_num e)); [|reflexivity]. rewrite H. reflexivity.
  - destruct (to_byte (ba_num e)); [|reflexivity]. destruct (fold_opt add_aspect (ba_aspects e) []) as [asps|] eqn:E; [|reflexivity].
    apply aspects_ids in E. cbn in E. rewrite E, (init_fault_false _ _ H). cbv beta iota. destruct (guard (negb (is_nil asps))); reflexivity.
Qed.

Lemma periph_fault_none bid s e : periph_fault e -> add_periph bid s e = None.
Proof.
  unfold add_periph, bind. intros [H | [H | [H | [H | H]]]].
  - rewrite H. reflexivity.
  - destruct (to_byte (p_num e)); [|reflexivity]. rewrite H. reflexivity.
  - destruct (to_byte (p_num e)); [|reflexivity]. destruct (to_pair (p_port e)); [|reflexivity]. rewrite (aspects_fault_none _ [] H). reflexivity.
  - destruct (to_byte (p_num e)); [|reflexivity]. destruct (to_pair (p_port e)); [|reflexivity]. rewrite H. reflexivity.
  - destruct (to_byte (p_num e)); [|reflexivity]. destruct (to_pair (p_port e)); [|reflexivity].
    destruct (fold_opt add_aspect (p_aspects e) []) as [asps|] eqn:E; [|reflexivity].
    apply aspects_ids in E. cbn in E. rewrite E, (init_fault_false _ _ H). cbv beta iota. destruct (guard (negb (is_nil asps))); reflexivity.
Qed.

(* ------------------------------------------------------------------ dcc accessories *)
Lemma add_dport_ok acc p acc' : add_dport acc p = Some acc' ->
  exists pt v, to_byte (dp_port p) = Some pt /\ pt <= 31 /\ to_byte (dp_val p) = Some v /\ v <= 1 /\ acc' = acc ++ [(pt, v)].
Proof. unfold add_dport. intro H. inv_do H. subst. apply guard_true in E0, E2. apply N.leb_le in E0, E2. eauto 10. Qed.

Definition dports_fault (l : list dport_src) : Prop :=
  l = []
  \/ (exists p, In p l /\ (to_byte (dp_port p) = None \/ to_byte (dp_val p) = None
                           \/ (exists v, to_byte (dp_port p) = Some v /\ 31 < v) \/ (exists v, to_byte (dp_val p) = Some v /\ 1 < v)))
  \/ (exists p1 p2 v, before p1 p2 l /\ to_byte (dp_port p1) = Some v /\ to_byte (dp_port p2) = Some v).

Lemma dports_fault_none l : dports_fault l ->
  match fold_opt add_dport l [] with Some ps => is_nil ps = true | None => True end.
Proof.
  intros [-> | [(p & Hin & H) | (p1 & p2 & v & (l1 & l2 & l3 & ->) & H1 & H2)]].
  - reflexivity.
  - rewrite (fold_opt_fail_at _ _ p _ Hin); [exact I|]. intro s'. unfold add_dport, bind.
    destruct H as [H | [H | [(v & H & Hv) | (v & H & Hv)]]].
    + rewrite H. reflexivity.
    + destruct (to_byte (dp_port p)); [|reflexivity]. cbv beta iota. destruct (guard (n <=? 31)); [|reflexivity]. rewrite H. reflexivity.
    + rewrite H. cbv beta iota. apply N.leb_gt in Hv. rewrite Hv. reflexivity.
    + destruct (to_byte (dp_port p)); [|reflexivity]. cbv beta iota. destruct (guard (n <=? 31)); [|reflexivity]. rewrite H. cbv beta iota.
      apply N.leb_gt in Hv. rewrite Hv. reflexivity.
  - rewrite fold_opt_reg_req with (P := fun acc => In v (map fst acc)); [exact I | | |].
    + intros s a s' H HP. apply add_dport_ok in H as (pt & v' & _ & _ & _ & _ & ->). rewrite map_app. apply in_or_app. left. exact HP.
    + intros s s' H. apply add_dport_ok in H as (pt & v' & Hp & _ & _ & _ & ->). rewrite H1 in Hp. injection Hp as <-.
      rewrite map_app. apply in_or_app. right. left. reflexivity.
    + intros s HP. unfold add_dport, bind. rewrite H2. cbv beta iota.
      apply in_map_iff in HP as (x & Hx & Hin).
      assert (G : guard (negb (existsb (fun x => fst x =? v) s)) = None).
      { rewrite (existsb_true _ _ x Hin); [reflexivity|]. apply N.eqb_eq. exact Hx. }
      walk.
Qed.

Lemma add_daspect_ok acc a acc' : add_daspect acc a = Some acc' ->
  exists ps, acc' = acc ++ [{| das_id := da_id a; das_ports := ps |}].
Proof. unfold add_daspect. intro H. inv_do H. subst. eauto. Qed.

Lemma daspects_ids l : forall acc acc', fold_opt add_daspect l acc = Some acc' -> map das_id acc' = map das_id acc ++ map da_id l.
Proof.
  induction l as [|a l IH]; cbn; intros acc acc' H.
  - injection H as <-. rewrite app_nil_r. reflexivity.
  - destruct (add_daspect acc a) as [acc1|] eqn:E; [|discriminate]. apply add_daspect_ok in E as (ps & ->).
    rewrite (IH _ _ H), map_app, <- app_assoc. reflexivity.
Qed.

Definition daspects_fault (l : list daspect_src) : Prop :=
  (exists a, In a l /\ dports_fault (da_ports a))
  \/ (exists a1 a2, before a1 a2 l /\ da_id a1 = da_id a2).

Lemma daspects_fault_none l acc : daspects_fault l -> fold_opt add_daspect l acc = None.
Proof.
  intros [(a & Hin & H) | (a1 & a2 & (l1 & l2 & l3 & ->) & Hid)].
  - apply (fold_opt_fail_at _ _ a _ Hin). intro s'. unfold add_daspect, bind. apply dports_fault_none in H.
    destruct (fold_opt add_dport (da_ports a) []) as [ps|]; [|reflexivity]. rewrite H. reflexivity.
  - apply fold_opt_reg_req with (P := fun acc => In (da_id a1) (map das_id acc)).
    + intros s a s' H HP. apply add_daspect_ok in H as (ps & ->). rewrite map_app. apply in_or_app. left. exact HP.
    + intros s s' H. apply add_daspect_ok in H as (ps & ->). rewrite map_app. apply in_or_app. right. left. reflexivity.
    + intros s HP. unfold add_daspect, bind. destruct (fold_opt add_dport (da_ports a2) []) as [ps|]; [|reflexivity]. cbv beta iota.
      destruct (guard (negb (is_nil ps))); [|reflexivity]. cbv beta iota zeta.
      apply in_map_iff in HP as (x & Hx & Hin). rewrite (existsb_true _ _ x Hin); [reflexivity|].
      unfold dasp_equal. cbn. rewrite Hx, Hid, str_eqb_refl. reflexivity.
Qed.

Definition dacc_fault (e : dacc_src) : Prop :=
  to_pair (dc_addr e) = None \/ to_byte (dc_ext e) = None \/ (exists v, to_byte (dc_ext e) = Some v /\ 1 < v)
  \/ daspects_fault (dc_aspects e) \/ dc_aspects e = [] \/ init_fault (map da_id (dc_aspects e)) (dc_init e).

Lemma dacc_fault_none pt bid s e : dacc_fault e -> add_dacc pt bid s e = None.
Proof.
  unfold add_dacc, bind. destruct (get_board bid s); [|reflexivity]. cbv beta iota.
  intros [H | [H | [(v & H & Hv) | [H | [H | H]]]]].
  - rewrite H. reflexivity.
  - destruct (to_pair (dc_addr e)); [|reflexivity]. rewrite H. reflexivity.
  - destruct (to_pair (dc_addr e)); [|reflexivity]. rewrite H. cbv beta iota. apply N.leb_gt in Hv. rewrite Hv. reflexivity.
  - destruct (to_pair (dc_addr e)); [|reflexivity]. destruct (to_byte (dc_ext e)); [|reflexivity]. cbv beta iota.
    destruct (guard (n <=? 1)); [|reflexivity]. rewrite (daspects_fault_none _ [] H). reflexivity.
  - destruct (to_pair (dc_addr e)); [|reflexivity]. destruct (to_byte (dc_ext e)); [|reflexivity]. cbv beta iota.
    destruct (guard (n <=? 1)); [|reflexivity]. rewrite H. reflexivity.
  - destruct (to_pair (dc_addr e)); [|reflexivity]. destruct (to_byte (dc_ext e)); [|reflexivity]. cbv beta iota.
    destruct (guard (n <=? 1)); [|reflexivity].
    destruct (fold_opt add_daspect (dc_aspects e) []) as [asps|] eqn:E; [|reflexivity].
    apply daspects_ids in E. cbn in E. rewrite E, (init_fault_false _ _ H). cbv beta iota. destruct (guard (negb (is_nil asps))); reflexivity.
Qed.

(* ------------------------------------------------------------------ trains *)
Lemma map_opt_none {A B} (f : A -> option B) l x : In x l -> f x = None -> map_opt f l = None.
Proof.
  induction l as [|a l IH]; cbn; [tauto|]. intros [->|Hin] H; unfold bind.
  - rewrite H. reflexivity.
  - destruct (f a); [|reflexivity]. rewrite (IH Hin H). reflexivity.
Qed.

Definition cal_fault (l : list str) : Prop :=
  length l <> 9%nat \/ exists x, In x l /\ (to_byte x = None \/ exists v, to_byte x = Some v /\ 126 < v).

Lemma cal_fault_none l : cal_fault l -> cal_ok l = None.
Proof.
  unfold cal_ok, bind. intros [H | (x & Hin & H)].
  - apply Nat.eqb_neq in H. rewrite H. reflexivity.
  - destruct (guard (Nat.eqb (length l) 9)); [|reflexivity]. apply (map_opt_none _ _ x Hin).
    unfold cal_value, bind. destruct H as [H | (v & H & Hv)]; rewrite H; [reflexivity|]. apply N.leb_gt in Hv. rewrite Hv. reflexivity.
Qed.

Lemma add_tperiph_ok acc p acc' : add_tperiph acc p = Some acc' -> exists b, to_byte (tp_bit p) = Some b /\ acc' = acc ++ [(tp_id p, b)].
Proof. unfold add_tperiph. intro H. inv_do H; subst; eauto. Qed.

Definition tperiph_fault1 (p : tperiph_src) : Prop :=
  to_byte (tp_bit p) = None \/ (exists v, to_byte (tp_bit p) = Some v /\ 31 < v)
  \/ (exists i, tp_init p = Some i /\ (to_byte i = None \/ exists v, to_byte i = Some v /\ 1 < v)).

Definition tperiphs_fault (l : list tperiph_src) : Prop :=
  (exists p, In p l /\ tperiph_fault1 p)
  \/ (exists p1 p2 v, before p1 p2 l /\ to_byte (tp_bit p1) = Some v /\ to_byte (tp_bit p2) = Some v)
  \/ (exists p1 p2, before p1 p2 l /\ tp_id p1 = tp_id p2).

Lemma tperiphs_fault_none l acc : tperiphs_fault l -> fold_opt add_tperiph l acc = None.
Proof.
  intros [(p & Hin & H) | [(p1 & p2 & v & (l1 & l2 & l3 & ->) & H1 & H2) | (p1 & p2 & (l1 & l2 & l3 & ->) & Hid)]].
  - apply (fold_opt_fail_at _ _ p _ Hin). intro s'. unfold add_tperiph, bind.
    destruct H as [H | [(v & H & Hv) | (i & Hi & H)]].
    + rewrite H. reflexivity.
    + rewrite H. cbv beta iota. apply N.leb_gt in Hv. rewrite Hv. reflexivity.
    + destruct (to_byte (tp_bit p)); [|reflexivity]. cbv beta iota. destruct (guard (n <=? 31)); [|reflexivity]. cbv beta iota.
      destruct (guard (negb _)); [|reflexivity]. cbv beta iota. rewrite Hi.
      destruct H as [H | (v & H & Hv)]; rewrite H; [reflexivity|]. cbv beta iota. apply N.leb_gt in Hv. rewrite Hv. reflexivity.
  - apply fold_opt_reg_req with (P := fun acc => In v (map snd acc)).
    + intros s a s' H HP. apply add_tperiph_ok in H as (b & _ & ->). rewrite map_app. apply in_or_app. left. exact HP.
    + intros s s' H. apply add_tperiph_ok in H as (b & Hb & ->). rewrite H1 in Hb. injection Hb as <-. rewrite map_app. apply in_or_app. right. left. reflexivity.
    + intros s HP. unfold add_tperiph, bind. rewrite H2. cbv beta iota. destruct (guard (v <=? 31)); [|reflexivity]. cbv beta iota.
      apply in_map_iff in HP as (x & Hx & Hin). rewrite (existsb_true _ _ x Hin); [reflexivity|]. rewrite Hx, N.eqb_refl. reflexivity.
  - apply fold_opt_reg_req with (P := fun acc => In (tp_id p1) (map fst acc)).
    + intros s a s' H HP. apply add_tperiph_ok in H as (b & _ & ->). rewrite map_app. apply in_or_app. left. exact HP.
    + intros s s' H. apply add_tperiph_ok in H as (b & Hb & ->). rewrite map_app. apply in_or_app. right. left. reflexivity.
    + intros s HP. unfold add_tperiph, bind. destruct (to_byte (tp_bit p2)); [|reflexivity]. cbv beta iota.
      destruct (guard (n <=? 31)); [|reflexivity]. cbv beta iota.
      apply in_map_iff in HP as (x & Hx & Hin). rewrite (existsb_true _ _ x Hin); [reflexivity|]. rewrite Hx, Hid, str_eqb_refl. apply orb_true_r.
Qed.

Definition train_fault (t : train_src) : Prop :=
  to_pair (t_addr t) = None \/ to_byte (t_steps t) = None \/ (exists v, to_byte (t_steps t) = Some v /\ steps_ok v = false)
  \/ (exists l, t_cal t = Some l /\ cal_fault l)
  \/ (exists l, t_per t = Some l /\ tperiphs_fault l).

Lemma train_fault_none s t : train_fault t -> add_train s t = None.
Proof.
  unfold add_train, bind. intros [H | [H | [(v & H & Hv) | [(l & Hl & H) | (l & Hl & H)]]]].
  - rewrite H. reflexivity.
  - destruct (to_pair (t_addr t)); [|reflexivity]. rewrite H. reflexivity.
  - destruct (to_pair (t_addr t)); [|reflexivity]. rewrite H. cbv beta iota. rewrite Hv. reflexivity.
  - destruct (to_pair (t_addr t)); [|reflexivity]. destruct (to_byte (t_steps t)); [|reflexivity]. cbv beta iota.
    destruct (guard (steps_ok n)); [|reflexivity]. cbv beta iota. rewrite Hl. unfold bind. rewrite (cal_fault_none _ H). reflexivity.
  - destruct (to_pair (t_addr t)); [|reflexivity]. destruct (to_byte (t_steps t)); [|reflexivity]. cbv beta iota.
    destruct (guard (steps_ok n)); [|reflexivity]. cbv beta iota.
    destruct (match t_cal t with Some l0 => _ | None => _ end); [|reflexivity]. cbv beta iota.
    rewrite Hl, (tperiphs_fault_none _ [] H). reflexivity.
Qed.

(* ------------------------------------------------------------------ boards *)
Definition feats_fault (l : list feat_src) : Prop :=
  (exists f, In f l /\ (to_byte (f_num f) = None \/ to_byte (f_val f) = None))
  \/ (exists f1 f2 v, before f1 f2 l /\ to_byte (f_num f1) = Some v /\ to_byte (f_num f2) = Some v).

Lemma add_feature_ok acc f acc' : add_feature acc f = Some acc' -> exists n v, to_byte (f_num f) = Some n /\ acc' = acc ++ [(n, v)].
Proof. unfold add_feature. intro H. inv_do H; subst; eauto. Qed.

Lemma feats_fault_none l acc : feats_fault l -> fold_opt add_feature l acc = None.
Proof.
  intros [(f & Hin & H) | (f1 & f2 & v & (l1 & l2 & l3 & ->) & H1 & H2)].
  - apply (fold_opt_fail_at _ _ f _ Hin). intro s'. unfold add_feature, bind. destruct H as [H|H].
    + rewrite H. reflexivity.
    + destruct (to_byte (f_num f)); [|reflexivity]. cbv beta iota. destruct (guard _); [|reflexivity]. rewrite H. reflexivity.
  - apply fold_opt_reg_req with (P := fun acc => In v (map fst acc)).
    + intros s a s' H HP. apply add_feature_ok in H as (n & v' & _ & ->). rewrite map_app. apply in_or_app. left. exact HP.
    + intros s s' H. apply add_feature_ok in H as (n & v' & Hn & ->). rewrite H1 in Hn. injection Hn as <-. rewrite map_app. apply in_or_app. right. left. reflexivity.
    + intros s HP. unfold add_feature, bind. rewrite H2. cbv beta iota.
      apply in_map_iff in HP as (x & Hx & Hin). rewrite (existsb_true _ _ x Hin); [reflexivity|]. apply N.eqb_eq. exact Hx.
Qed.

Definition board_fault (b : board_src) : Prop := to_uid (b_uid b) = None \/ feats_fault (b_feats b).

Lemma board_fault_none s b : board_fault b -> add_board_entry s b = None.
Proof.
  unfold add_board_entry, bind. intros [H|H].
  - rewrite H. reflexivity.
  - destruct (to_uid (b_uid b)); [|reflexivity]. cbv beta iota zeta. rewrite (feats_fault_none _ [] H). reflexivity.
Qed.

(* ------------------------------------------------------------------ every entry-local fault, per step *)
Definition step_fault (x : step) : Prop :=
  match x with
  | SBoard b => board_fault b
  | SSetup _ => False
  | SBacc _ _ e => bacc_fault e
  | SDacc _ _ e => dacc_fault e
  | SPeriph _ e => periph_fault e
  | SSeg _ e => to_byte (sg_addr e) = None
  | SRev _ _ => False
  | STrain t => train_fault t
  end.

Theorem rejects_step_fault d x : In x (steps d) -> step_fault x -> accept d = false.
Proof.
  intros Hin H. apply (reject_local x d Hin). intro s.
  destruct x; cbn [step_fault run_step] in *; try contradiction.
  - rewrite (board_fault_none s b H). reflexivity.
  - rewrite (bacc_fault_none pt bid s e H). reflexivity.
  - rewrite (dacc_fault_none pt bid s e H). reflexivity.
  - rewrite (periph_fault_none bid s e H). reflexivity.
  - unfold add_seg, bind. rewrite H. reflexivity.
  - rewrite (train_fault_none s t H). reflexivity.
Qed.

(* ------------------------------------------------------------------ a setup naming a board that the board file does not declare *)
Lemma fold_res_inv_req {S A} (f : S -> A -> res S) (Q : S -> Prop) l1 y l2 s :
  Q s -> (forall s a s', In a l1 -> f s a = Ok s' -> Q s -> Q s') -> (forall s, Q s -> is_ok (f s y) = false) ->
  is_ok (fold_res f (l1 ++ y :: l2) s) = false.
Proof.
  revert s. induction l1 as [|a l1 IH]; intros s HQ Hinv Hreq; cbn [app fold_res].
  - specialize (Hreq s HQ). destruct (f s y); cbn in *; congruence.
  - destruct (f s a) as [s1| |k] eqn:E; try reflexivity. apply IH; auto.
    + eapply Hinv; eauto. left. reflexivity.
    + intros. eapply Hinv; eauto. right. assumption.
Qed.

Lemma boards_ids_step x s s' : run_step s x = Ok s' ->
  map bd_id (boards s') = map bd_id (boards s) ++ match x with SBoard b => [b_id b] | _ => [] end.
Proof.
  assert (U : forall id f l, (forall b, bd_id (f b) = bd_id b) -> map bd_id (upd_first id f l) = map bd_id l).
  { intros id f l Hf. induction l as [|a l IH]; cbn; [reflexivity|]. destruct (str_eqb (bd_id a) id); cbn; [rewrite Hf|rewrite IH]; reflexivity. }
  destruct x; cbn [run_step]; intro H; rewrite ?app_nil_r.
  - apply lift_ok in H. unfold add_board_entry in H. inv_do H; subst s'; cbn; rewrite map_app; reflexivity.
  - destruct (get_board bid s); cbn in H; [|discriminate]. injection H as <-. reflexivity.
  - apply lift_ok in H. apply add_bacc_ok in H as (n & asps & b & _ & _ & _ & _ & _ & _ & _ & ->). destruct pt; cbn; apply U; reflexivity.
  - apply lift_ok in H. unfold add_dacc in H. destruct pt; inv_do H; subst s'; cbn; apply U; reflexivity.
  - apply lift_ok in H. unfold add_periph in H. inv_do H. subst s'. cbn. apply U. reflexivity.
  - apply lift_ok in H. unfold add_seg in H. inv_do H. subst s'. cbn. apply U. reflexivity.
  - apply lift_ok in H. unfold add_rev in H. inv_do H. subst s'. cbn. apply U. reflexivity.
  - apply lift_ok in H. unfold add_train in H. inv_do H; subst s'; reflexivity.
Qed.

Lemma get_board_none bid s : ~ In bid (map bd_id (boards s)) -> get_board bid s = None.
Proof.
  unfold get_board. intro H. destruct (find _ (boards s)) as [b|] eqn:E; [|reflexivity]. exfalso. apply H.
  apply find_some in E as (Hin & He). apply str_eqb_eq in He. subst. apply in_map. exact Hin.
Qed.

Lemma no_board_in_setups b l : ~ In (SBoard b) (flat_map setup_steps l).
Proof.
  intro H. apply in_flat_map in H as (u & _ & H). unfold setup_steps in H. destruct H as [H|H]; [discriminate|].
  repeat (apply in_app_or in H as [H|H]; [apply in_map_iff in H as (? & ? & _); discriminate|]).
  apply in_map_iff in H as (? & ? & _). discriminate.
Qed.

Theorem rejects_unknown_board d u : In u (d_track d) -> ~ In (su_id u) (map b_id (d_boards d)) -> accept d = false.
Proof.
  intros Hu Hn. rewrite accept_steps. unfold steps. apply in_split in Hu as (t1 & t2 & Ht). rewrite Ht, flat_map_app. cbn [flat_map].
  unfold setup_steps at 2. rewrite <- !app_assoc, <- app_comm_cons, app_assoc.
  apply fold_res_inv_req with (Q := fun s => ~ In (su_id u) (map bd_id (boards s))).
  - cbn. tauto.
  - intros s a s' Hin H HQ. rewrite (boards_ids_step a s s' H). intro Hc. apply in_app_or in Hc as [Hc|Hc]; [tauto|].
    destruct a; try contradiction. destruct Hc as [Hc|[]]. apply in_app_or in Hin as [Hin|Hin].
    + apply in_map_iff in Hin as (b' & [= ->] & Hb). apply Hn. rewrite <- Hc. apply in_map. exact Hb.
    + exact (no_board_in_setups b t1 Hin).
  - intros s HQ. cbn [run_step]. rewrite (get_board_none _ _ HQ). reflexivity.
Qed.

(* ------------------------------------------------------------------ enumeration: what the lists of an accepted configuration are *)
Lemma fold_res_acc {S A B} (f : S -> A -> res S) (pi : S -> list B) (c : A -> list B) :
  (forall x s s', f s x = Ok s' -> pi s' = pi s ++ c x) ->
  forall l s s', fold_res f l s = Ok s' -> pi s' = pi s ++ flat_map c l.
Proof.
  intro H. induction l as [|x l IH]; cbn; intros s s' E.
  - injection E as <-. rewrite app_nil_r. reflexivity.
  - destruct (f s x) as [s1| |k] eqn:E1; try discriminate. rewrite (IH _ _ E), (H _ _ _ E1), <- app_assoc. reflexivity.
Qed.

(* contribution of one step to each enumerated list *)
Definition c_board (x : step) : list str := match x with SBoard b => [b_id b] | _ => [] end.
Definition c_ptb (x : step) : list str := match x with SBacc true _ e => [ba_id e] | _ => [] end.
Definition c_ptd (x : step) : list str := match x with SDacc true _ e => [dc_id e] | _ => [] end.
Definition c_sgb (x : step) : list str := match x with SBacc false _ e => [ba_id e] | _ => [] end.
Definition c_sgd (x : step) : list str := match x with SDacc false _ e => [dc_id e] | _ => [] end.
Definition c_pes (x : step) : list str := match x with SPeriph _ e => [p_id e] | _ => [] end.
Definition c_segs (x : step) : list str := match x with SSeg _ e => [sg_id e] | _ => [] end.
Definition c_revs (x : step) : list str := match x with SRev _ e => [rv_id e] | _ => [] end.
Definition c_train (x : step) : list str := match x with STrain t => [t_id t] | _ => [] end.
Definition class_bit (k : N) (b : board_src) : bool :=
  match to_uid (b_uid b) with Some u => N.testbit (uid_class u) k | None => false end.
Definition c_boost (x : step) : list str := match x with SBoard b => if class_bit 1 b then [b_id b] else [] | _ => [] end.
Definition c_tout (x : step) : list str := match x with SBoard b => if class_bit 4 b then [b_id b] else [] | _ => [] end.
Definition c_tstate (x : step) : list (str * list str) :=
  match x with STrain t => [(t_id t, map tp_id (match t_per t with Some l => l | None => [] end))] | _ => [] end.

Lemma tperiph_ids l : forall acc acc', fold_opt add_tperiph l acc = Some acc' -> map fst acc' = map fst acc ++ map tp_id l.
Proof.
  induction l as [|a l IH]; cbn; intros acc acc' H.
  - injection H as <-. rewrite app_nil_r. reflexivity.
  - destruct (add_tperiph acc a) as [acc1|] eqn:E; [|discriminate]. apply add_tperiph_ok in E as (b & _ & ->).
    rewrite (IH _ _ H), map_app, <- app_assoc. reflexivity.
Qed.

Lemma step_lists x s s' : run_step s x = Ok s' ->
  ptb s' = ptb s ++ c_ptb x /\ ptd s' = ptd s ++ c_ptd x /\ sgb s' = sgb s ++ c_sgb x /\ sgd s' = sgd s ++ c_sgd x /\
  pes s' = pes s ++ c_pes x /\ segs s' = segs s ++ c_segs x /\ revs s' = revs s ++ c_revs x /\
  map tr_id (trains s') = map tr_id (trains s) ++ c_train x /\
  boosters s' = boosters s ++ c_boost x /\ touts s' = touts s ++ c_tout x /\ tstates s' = tstates s ++ c_tstate x.
Proof.
  destruct x; cbn [run_step c_ptb c_ptd c_sgb c_sgd c_pes c_segs c_revs c_train c_boost c_tout c_tstate]; intro H.
  - apply lift_ok in H. unfold add_board_entry in H. unfold class_bit.
    destruct (to_uid (b_uid b)) as [u|] eqn:Eu; [|discriminate]. cbn [bind] in H.
    destruct (N.testbit (uid_class u) 1), (N.testbit (uid_class u) 4); inv_do H; subst s'; cbn; rewrite ?app_nil_r; repeat split; reflexivity.
  - destruct (get_board bid s); cbn in H; [|discriminate]. injection H as <-. rewrite ?app_nil_r. repeat split; reflexivity.
  - apply lift_ok in H. apply add_bacc_ok in H as (n & asps & b & _ & _ & _ & _ & _ & _ & _ & ->).
    destruct pt; cbn; rewrite ?app_nil_r; repeat split; reflexivity.
  - apply lift_ok in H. unfold add_dacc in H. destruct pt; inv_do H; subst s'; cbn; rewrite ?app_nil_r; repeat split; reflexivity.
  - apply lift_ok in H. unfold add_periph in H. inv_do H. subst s'. cbn. rewrite ?app_nil_r. repeat split; reflexivity.
  - apply lift_ok in H. unfold add_seg in H. inv_do H. subst s'. cbn. rewrite ?app_nil_r. repeat split; reflexivity.
  - apply lift_ok in H. unfold add_rev in H. inv_do H. subst s'. cbn. rewrite ?app_nil_r. repeat split; reflexivity.
  - apply lift_ok in H. unfold add_train in H. unfold bind in H.
    destruct (to_pair (t_addr t)); [|discriminate]. destruct (to_byte (t_steps t)); [|discriminate].
    destruct (guard (steps_ok n)); [|discriminate].
    destruct (match t_cal t with Some l => _ | None => _ end); [|discriminate].
    destruct (fold_opt add_tperiph _ []) as [ps|] eqn:Ep; [|discriminate].
    destruct (guard _); [|discriminate]. destruct (guard _); [|discriminate]. injection H as <-.
    apply tperiph_ids in Ep. cbn in Ep. cbn. rewrite ?app_nil_r, map_app, Ep. repeat split; reflexivity.
Qed.

Theorem accepted_lists d s : parse3 d = Ok s ->
  g_boards s = flat_map c_board (steps d) /\
  ptb s = flat_map c_ptb (steps d) /\ ptd s = flat_map c_ptd (steps d) /\
  sgb s = flat_map c_sgb (steps d) /\ sgd s = flat_map c_sgd (steps d) /\
  pes s = flat_map c_pes (steps d) /\ segs s = flat_map c_segs (steps d) /\ revs s = flat_map c_revs (steps d) /\
  g_trains s = flat_map c_train (steps d) /\
  boosters s = flat_map c_boost (steps d) /\ touts s = flat_map c_tout (steps d) /\
  tstates s = flat_map c_tstate (steps d).
Proof.
  rewrite parse3_steps. intro H.
  repeat split.
  - apply (fold_res_acc run_step (fun s => map bd_id (boards s)) c_board (fun x s s' E => boards_ids_step x s s' E) _ _ _ H).
  - apply (fold_res_acc run_step ptb c_ptb (fun x s s' E => proj1 (step_lists x s s' E)) _ _ _ H).
  - apply (fold_res_acc run_step ptd c_ptd (fun x s s' E => proj1 (proj2 (step_lists x s s' E))) _ _ _ H).
  - apply (fold_res_acc run_step sgb c_sgb (fun x s s' E => proj1 (proj2 (proj2 (step_lists x s s' E)))) _ _ _ H).
  - apply (fold_res_acc run_step sgd c_sgd (fun x s s' E => proj1 (proj2 (proj2 (proj2 (step_lists x s s' E))))) _ _ _ H).
  - apply (fold_res_acc run_step pes c_pes (fun x s s' E => proj1 (proj2 (proj2 (proj2 (proj2 (step_lists x s s' E)))))) _ _ _ H).
  - apply (fold_res_acc run_step segs c_segs (fun x s s' E => proj1 (proj2 (proj2 (proj2 (proj2 (proj2 (step_lists x s s' E))))))) _ _ _ H).
  - apply (fold_res_acc run_step revs c_revs (fun x s s' E => proj1 (proj2 (proj2 (proj2 (proj2 (proj2 (proj2 (step_lists x s s' E)))))))) _ _ _ H).
  - apply (fold_res_acc run_step (fun s => map tr_id (trains s)) c_train (fun x s s' E => proj1 (proj2 (proj2 (proj2 (proj2 (proj2 (proj2 (proj2 (step_lists x s s' E))))))))) _ _ _ H).
  - apply (fold_res_acc run_step boosters c_boost (fun x s s' E => proj1 (proj2 (proj2 (proj2 (proj2 (proj2 (proj2 (proj2 (proj2 (step_lists x s s' E)))))))))) _ _ _ H).
  - apply (fold_res_acc run_step touts c_tout (fun x s s' E => proj1 (proj2 (proj2 (proj2 (proj2 (proj2 (proj2 (proj2 (proj2 (proj2 (step_lists x s s' E))))))))))) _ _ _ H).
  - apply (fold_res_acc run_step tstates c_tstate (fun x s s' E => proj2 (proj2 (proj2 (proj2 (proj2 (proj2 (proj2 (proj2 (proj2 (proj2 (step_lists x s s' E))))))))))) _ _ _ H).
Qed.

(* the board list in terms of the document itself *)
Lemma flat_map_c_board d : flat_map c_board (steps d) = map b_id (d_boards d).
Proof.
  unfold steps. rewrite !flat_map_app.
  assert (A : forall l, flat_map c_board (map SBoard l) = map b_id l) by (induction l; cbn; congruence).
  assert (B : forall l, flat_map c_board (flat_map setup_steps l) = []).
  { induction l as [|u l IH]; cbn; [reflexivity|]. rewrite flat_map_app, IH, app_nil_r. unfold setup_steps. cbn.
    rewrite !flat_map_app. repeat match goal with |- context [flat_map c_board (map ?g ?l)] =>
      replace (flat_map c_board (map g l)) with (@nil str) by (induction l; cbn; congruence) end. reflexivity. }
  assert (C : forall l, flat_map c_board (map STrain l) = []) by (induction l; cbn; congruence).
  rewrite A, B, C, !app_nil_r. reflexivity.
Qed.

Lemma in_steps_board d b : In b (d_boards d) -> In (SBoard b) (steps d).
Proof. intro H. unfold steps. apply in_or_app. left. apply in_map. exact H. Qed.
Lemma in_steps_train d t : In t (d_trains d) -> In (STrain t) (steps d).
Proof. intro H. unfold steps. apply in_or_app. right. apply in_or_app. right. apply in_map. exact H. Qed.
Lemma in_steps_setup d u x : In u (d_track d) -> In x (setup_steps u) -> In x (steps d).
Proof. intros Hu Hx. unfold steps. apply in_or_app. right. apply in_or_app. left. apply in_flat_map. eauto. Qed.
Lemma in_setup_pb u e : In e (su_pb u) -> In (SBacc true (su_id u) e) (setup_steps u).
Proof. intro H. unfold setup_steps. right. apply in_or_app. left. apply in_map. exact H. Qed.
Lemma in_setup_sg u e : In e (su_sg u) -> In (SSeg (su_id u) e) (setup_steps u).
Proof. intro H. unfold setup_steps. right. do 5 (apply in_or_app; right). apply in_or_app. left. apply in_map. exact H. Qed.

(* ------------------------------------------------------------------ faults of the model: none *)
Lemma run_step_no_flt x s k : run_step s x <> Flt k.
Proof.
  destruct x; cbn [run_step]; try (match goal with |- lift ?o <> _ => destruct o; discriminate end).
  destruct (get_board bid s); discriminate.
Qed.

Lemma fold_res_flt {S A} (f : S -> A -> res S) l s k : fold_res f l s = Flt k -> exists x s', In x l /\ f s' x = Flt k.
Proof.
  revert s. induction l as [|a l IH]; cbn; intros s H; [discriminate|].
  destruct (f s a) as [s1| |k'] eqn:E; try discriminate.
  - destruct (IH _ H) as (x & s' & Hin & Hx). eauto.
  - injection H as <-. eauto.
Qed.

Theorem no_fault d k : parse3 d <> Flt k.
Proof.
  rewrite parse3_steps. intro H. apply fold_res_flt in H as (x & s' & _ & Hx). exact (run_step_no_flt x s' k Hx).
Qed.

(* ------------------------------------------------------------------ per-board getter lists *)
Inductive bkind := Kpb | Kpd | Ksb | Ksd | Kpe | Ksg | Krv.
Definition bproj (k : bkind) (b : board) : list str :=
  match k with
  | Kpb => map bm_id (bd_pb b) | Kpd => map dm_id (bd_pd b) | Ksb => map bm_id (bd_sb b) | Ksd => map dm_id (bd_sd b)
  | Kpe => map pm_id (bd_pe b) | Ksg => map fst (bd_sg b) | Krv => map fst (bd_rv b)
  end.
Definition blist (k : bkind) (bid : str) (s : st) : list str :=
  match get_board bid s with Some b => bproj k b | None => [] end.
Definition on (bid bid' : str) (l : list str) : list str := if str_eqb bid bid' then l else [].
(* contribution of one step to list k of board bid' *)
Definition cb (k : bkind) (bid' : str) (x : step) : list str :=
  match k, x with
  | Kpb, SBacc true bid e => on bid bid' [ba_id e]
  | Kpd, SDacc true bid e => on bid bid' [dc_id e]
  | Ksb, SBacc false bid e => on bid bid' [ba_id e]
  | Ksd, SDacc false bid e => on bid bid' [dc_id e]
  | Kpe, SPeriph bid e => on bid bid' [p_id e]
  | Ksg, SSeg bid e => on bid bid' [sg_id e]
  | Krv, SRev bid e => on bid bid' [rv_id e]
  | _, _ => []
  end.

Lemma find_app_none {A} (p : A -> bool) l l2 : find p l = None -> find p (l ++ l2) = find p l2.
Proof. induction l as [|a l IH]; cbn; [reflexivity|]. destruct (p a); [discriminate | auto]. Qed.

Lemma on_nil a b : on a b [] = [].
Proof. unfold on. destruct (str_eqb a b); reflexivity. Qed.

Lemma blist_step_upd k bid bid' (f : board -> board) s1 extra :
  (forall b, bd_id (f b) = bd_id b) -> get_board bid s1 <> None ->
  (forall b0, bproj k (f b0) = bproj k b0 ++ extra) ->
  blist k bid' (upd_board bid f s1) = blist k bid' s1 ++ on bid bid' extra.
Proof.
  intros Hf Hex Hp. unfold blist, on. rewrite get_board_upd by exact Hf.
  destruct (str_eqb bid bid') eqn:E.
  - apply str_eqb_eq in E. subst bid'. destruct (get_board bid s1) as [b|]; [|congruence]. cbn. apply Hp.
  - rewrite app_nil_r. reflexivity.
Qed.

Lemma blist_step x s s' : run_step s x = Ok s' -> forall k bid', blist k bid' s' = blist k bid' s ++ cb k bid' x.
Proof.
  destruct x; cbn [run_step]; intros H k bid'.
  - (* SBoard: a new board with empty lists is appended *)
    apply lift_ok in H. unfold add_board_entry in H.
    assert (E : cb k bid' (SBoard b) = []) by (destruct k; reflexivity). rewrite E, app_nil_r.
    unfold blist. destruct (get_board bid' s) as [b0|] eqn:G.
    + assert (G' : get_board bid' s' = Some b0).
      { inv_do H; subst s'; unfold get_board in *; cbn; apply find_app_some; exact G. }
      rewrite G'. reflexivity.
    + assert (G' : get_board bid' s' = None \/ exists nb, get_board bid' s' = Some nb /\ forall k, bproj k nb = []).
      { inv_do H; subst s';
        (unfold get_board in *; cbn; rewrite (find_app_none _ _ _ G); cbn;
         destruct (str_eqb (b_id b) bid');
         [right; eexists; split; [reflexivity | intro k0; destruct k0; reflexivity] | left; reflexivity]). }
      destruct G' as [G' | (nb & G' & Hn)]; rewrite G'; [reflexivity | apply Hn].
  - destruct (get_board bid s); cbn in H; [|discriminate]. injection H as <-. destruct k; cbn; rewrite app_nil_r; reflexivity.
  - apply lift_ok in H. apply add_bacc_ok in H as (n & asps & b & _ & _ & _ & _ & Hb & _ & _ & ->).
    destruct pt; cbn zeta.
    + rewrite (blist_step_upd k bid bid' _ _ (match k with Kpb => [ba_id e] | _ => [] end)); [destruct k; cbn [cb]; rewrite ?on_nil; reflexivity | reflexivity | unfold get_board in *; cbn; congruence |].
      intro b0. destruct k; cbn; rewrite ?app_nil_r, ?map_app; reflexivity.
    + rewrite (blist_step_upd k bid bid' _ _ (match k with Ksb => [ba_id e] | _ => [] end)); [destruct k; cbn [cb]; rewrite ?on_nil; reflexivity | reflexivity | unfold get_board in *; cbn; congruence |].
      intro b0. destruct k; cbn; rewrite ?app_nil_r, ?map_app; reflexivity.
  - apply lift_ok in H. unfold add_dacc in H. destruct pt; inv_do H; subst s'.
    + rewrite (blist_step_upd k bid bid' _ _ (match k with Kpd => [dc_id e] | _ => [] end)); [destruct k; cbn [cb]; rewrite ?on_nil; reflexivity | reflexivity | unfold get_board in *; cbn; congruence |].
      intro b0. destruct k; cbn; rewrite ?app_nil_r, ?map_app; reflexivity.
    + rewrite (blist_step_upd k bid bid' _ _ (match k with Ksd => [dc_id e] | _ => [] end)); [destruct k; cbn [cb]; rewrite ?on_nil; reflexivity | reflexivity | unfold get_board in *; cbn; congruence |].
      intro b0. destruct k; cbn; rewrite ?app_nil_r, ?map_app; reflexivity.
  - apply lift_ok in H. unfold add_periph in H. inv_do H. subst s'.
    rewrite (blist_step_upd k bid bid' _ _ (match k with Kpe => [p_id e] | _ => [] end)); [destruct k; cbn [cb]; rewrite ?on_nil; reflexivity | reflexivity | unfold get_board in *; cbn; congruence |].
    intro b0. destruct k; cbn; rewrite ?app_nil_r, ?map_app; reflexivity.
  - apply lift_ok in H. unfold add_seg in H. inv_do H. subst s'.
    rewrite (blist_step_upd k bid bid' _ _ (match k with Ksg => [sg_id e] | _ => [] end)); [destruct k; cbn [cb]; rewrite ?on_nil; reflexivity | reflexivity | unfold get_board in *; cbn; congruence |].
    intro b0. destruct k; cbn; rewrite ?app_nil_r, ?map_app; reflexivity.
  - apply lift_ok in H. unfold add_rev in H. inv_do H. subst s'.
    rewrite (blist_step_upd k bid bid' _ _ (match k with Krv => [rv_id e] | _ => [] end)); [destruct k; cbn [cb]; rewrite ?on_nil; reflexivity | reflexivity | unfold get_board in *; cbn; congruence |].
    intro b0. destruct k; cbn; rewrite ?app_nil_r, ?map_app; reflexivity.
  - apply lift_ok in H. unfold add_train in H. inv_do H; subst s'; (destruct k; cbn; rewrite app_nil_r; reflexivity).
Qed.

Theorem accepted_board_lists d s : parse3 d = Ok s -> forall k bid, blist k bid s = flat_map (cb k bid) (steps d).
Proof.
  rewrite parse3_steps. intros H k bid.
  apply (fold_res_acc run_step (blist k bid) (cb k bid) (fun x s s' E => blist_step x s s' E k bid) _ _ _ H).
Qed.

Theorem accepted_board_getters d s : parse3 d = Ok s -> forall bid b, get_board bid s = Some b ->
  g_board_points b = flat_map (cb Kpb bid) (steps d) ++ flat_map (cb Kpd bid) (steps d) /\
  g_board_signals b = flat_map (cb Ksb bid) (steps d) ++ flat_map (cb Ksd bid) (steps d) /\
  g_board_periphs b = flat_map (cb Kpe bid) (steps d) /\
  g_board_segs b = flat_map (cb Ksg bid) (steps d) /\
  g_board_revs b = flat_map (cb Krv bid) (steps d).
Proof.
  intros H bid b Hb.
  assert (L : forall k, bproj k b = flat_map (cb k bid) (steps d)).
  { intro k. rewrite <- (accepted_board_lists d s H k bid). unfold blist. rewrite Hb. reflexivity. }
  unfold g_board_points, g_board_signals, g_board_periphs, g_board_segs, g_board_revs.
  rewrite <- (L Kpb), <- (L Kpd), <- (L Ksb), <- (L Ksd), <- (L Kpe), <- (L Ksg), <- (L Krv). repeat split; reflexivity.
Qed.
