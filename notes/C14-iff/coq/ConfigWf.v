(* ConfigWf.v — the SPECIFICATION side of C14: when is a (layout-following) configuration well-formed and
   unambiguous.  Written from the property statement and the documented file format, not from the loader:
   it never mentions the loader's state, its order of checks or its helper functions apart from the three
   scalar readers (to_byte / to_uid / to_pair = "is a byte", "is a unique id", "is a 16-bit hex word").
   Executable (bool) so that the check can evaluate it on every generated document.  No proofs in this file.

   Shape:   wf_doc3 d  =  every entry of the three files is well-formed on its own            (entry_ok)
                       /\ every track-file entry names a board the board file declares        (board_declared)
                       /\ no two entries make the same claim                                  (claims)
   where an entry's claims are the identities it occupies: (namespace, value) pairs such as
   (point id, "p1"), (accessory number on board b, 5), (DCC address, 0x0113).  Ambiguity = a repeated claim. *)
From Coq Require Import List NArith Bool.
From LB Require Import ConfigSpec.
Import ListNotations.
Local Open Scope N_scope.

Definition is_some {A} (o : option A) : bool := match o with Some _ => true | None => false end.

(* all pairs (earlier x, later y) of the list satisfy r x y *)
Fixpoint pairwiseb {A} (r : A -> A -> bool) (l : list A) : bool :=
  match l with [] => true | x :: t => forallb (r x) t && pairwiseb r t end.
Definition nodupb {A} (eqb : A -> A -> bool) (l : list A) : bool := pairwiseb (fun x y => negb (eqb x y)) l.

(* ------------------------------------------------------------------ scalars *)
Definition byte_ok (s : str) : bool := is_some (to_byte s).                          (* decimal or 0x.. , 0..255 *)
Definition byte_le (k : N) (s : str) : bool := match to_byte s with Some v => v <=? k | None => false end.
Definition val (s : str) : N := match to_byte s with Some v => v | None => 0 end.    (* value of a byte scalar *)
Definition word_ok (s : str) : bool := is_some (to_pair s).                          (* 0xHHLL *)
Definition word (s : str) : str := match to_pair s with Some (h, l) => [h; l] | None => [] end.
Definition uid_ok (s : str) : bool := is_some (to_uid s).                            (* 0x + 14 hex digits *)
Definition uid (s : str) : str := match to_uid s with Some u => u | None => [] end.

(* ------------------------------------------------------------------ one entry on its own *)
(* aspects of a board point / board signal / peripheral: at least one, byte values, ids and values unique *)
Definition aspects_ok (l : list aspect_src) : bool :=
  negb (is_nil l) && forallb (fun a => byte_ok (a_val a)) l &&
  nodupb str_eqb (map a_id l) && nodupb N.eqb (map (fun a => val (a_val a)) l).

(* an initial value, when given, names one of the declared aspects *)
Definition initial_ok (ids : list str) (i : option str) : bool :=
  match i with None => true | Some v => mem_str v ids end.

(* ports of a dcc aspect: at least one, port 0..31, value 0/1, no port twice *)
Definition dports_ok (l : list dport_src) : bool :=
  negb (is_nil l) && forallb (fun p => byte_le 31 (dp_port p) && byte_le 1 (dp_val p)) l &&
  nodupb N.eqb (map (fun p => val (dp_port p)) l).
(* the "value" of a dcc aspect is its port assignment *)
Definition assignment (a : daspect_src) : list (N * N) := map (fun p => (val (dp_port p), val (dp_val p))) (da_ports a).
Definition sub_assign (x y : list (N * N)) : bool := forallb (fun p => existsb (addr_eqb p) y) x.
Definition same_assign (x y : list (N * N)) : bool := sub_assign x y && sub_assign y x.
Definition daspects_ok (l : list daspect_src) : bool :=
  negb (is_nil l) && forallb (fun a => dports_ok (da_ports a)) l &&
  nodupb str_eqb (map da_id l) && nodupb same_assign (map assignment l).

Definition features_ok (l : list feat_src) : bool :=
  forallb (fun f => byte_ok (f_num f) && byte_ok (f_val f)) l && nodupb N.eqb (map (fun f => val (f_num f)) l).

Definition calibration_ok (c : option (list str)) : bool :=
  match c with None => true | Some l => Nat.eqb (length l) 9 && forallb (byte_le 126) l end.
Definition speed_steps_ok (s : str) : bool :=
  match to_byte s with Some v => (v =? 14) || (v =? 28) || (v =? 126) | None => false end.
(* train functions: bit 0..31, initial 0/1 when given, bits and ids unique *)
Definition functions_ok (l : list tperiph_src) : bool :=
  forallb (fun p => byte_le 31 (tp_bit p) && match tp_init p with None => true | Some i => byte_le 1 i end) l &&
  nodupb N.eqb (map (fun p => val (tp_bit p)) l) && nodupb str_eqb (map tp_id l).

Definition entry_ok (x : step) : bool :=
  match x with
  | SBoard b => uid_ok (b_uid b) && features_ok (b_feats b)
  | SSetup _ => true
  | SBacc _ _ e => byte_ok (ba_num e) && aspects_ok (ba_aspects e) && initial_ok (map a_id (ba_aspects e)) (ba_init e)
  | SDacc _ _ e => word_ok (dc_addr e) && byte_le 1 (dc_ext e) && daspects_ok (dc_aspects e) &&
                   initial_ok (map da_id (dc_aspects e)) (dc_init e)
  | SPeriph _ e => byte_ok (p_num e) && word_ok (p_port e) && aspects_ok (p_aspects e) &&
                   initial_ok (map a_id (p_aspects e)) (p_init e)
  | SSeg _ e => byte_ok (sg_addr e)
  | SRev _ _ => true
  | STrain t => word_ok (t_addr t) && speed_steps_ok (t_steps t) && calibration_ok (t_cal t) &&
                functions_ok (match t_per t with Some l => l | None => [] end)
  end.

(* ------------------------------------------------------------------ claims: the identities an entry occupies *)
Inductive namespace :=
| NsBoardId | NsUniqueId                                   (* board file *)
| NsPointId | NsSignalId | NsPeripheralId | NsSegmentId | NsReverserId | NsTrainId      (* ids, per kind *)
| NsDccAddress                                             (* dcc points, dcc signals (all boards) and trains *)
| NsAccessoryNumber (board : str)                          (* board points AND board signals of one board *)
| NsPeripheralNumber (board : str) | NsPeripheralPort (board : str)
| NsSegmentAddress (board : str) | NsCv (board : str).

Definition ns_eqb (a b : namespace) : bool :=
  match a, b with
  | NsBoardId, NsBoardId | NsUniqueId, NsUniqueId | NsPointId, NsPointId | NsSignalId, NsSignalId
  | NsPeripheralId, NsPeripheralId | NsSegmentId, NsSegmentId | NsReverserId, NsReverserId
  | NsTrainId, NsTrainId | NsDccAddress, NsDccAddress => true
  | NsAccessoryNumber x, NsAccessoryNumber y | NsPeripheralNumber x, NsPeripheralNumber y
  | NsPeripheralPort x, NsPeripheralPort y | NsSegmentAddress x, NsSegmentAddress y | NsCv x, NsCv y => str_eqb x y
  | _, _ => false
  end.

Definition claim := (namespace * str)%type.     (* numbers are one-byte strings, addresses / ports two-byte strings *)
Definition claim_eqb (a b : claim) : bool := ns_eqb (fst a) (fst b) && str_eqb (snd a) (snd b).

Definition claims (x : step) : list claim :=
  match x with
  | SBoard b => [(NsBoardId, b_id b); (NsUniqueId, uid (b_uid b))]
  | SSetup _ => []
  | SBacc pt bid e => [(if pt then NsPointId else NsSignalId, ba_id e); (NsAccessoryNumber bid, [val (ba_num e)])]
  | SDacc pt bid e => [(if pt then NsPointId else NsSignalId, dc_id e); (NsDccAddress, word (dc_addr e))]
  | SPeriph bid e => [(NsPeripheralId, p_id e); (NsPeripheralNumber bid, [val (p_num e)]); (NsPeripheralPort bid, word (p_port e))]
  | SSeg bid e => [(NsSegmentId, sg_id e); (NsSegmentAddress bid, [val (sg_addr e)])]
  | SRev bid e => [(NsReverserId, rv_id e); (NsCv bid, rv_cv e)]
  | STrain t => [(NsTrainId, t_id t); (NsDccAddress, word (t_addr t))]
  end.

(* the board a track-file entry belongs to *)
Definition board_of (x : step) : option str :=
  match x with
  | SSetup bid | SBacc _ bid _ | SDacc _ bid _ | SPeriph bid _ | SSeg bid _ | SRev bid _ => Some bid
  | SBoard _ | STrain _ => None
  end.
Definition declared_boards (es : list step) : list str :=
  flat_map (fun x => match x with SBoard b => [b_id b] | _ => [] end) es.
Definition board_declared (es : list step) (x : step) : bool :=
  match board_of x with Some bid => mem_str bid (declared_boards es) | None => true end.

(* ------------------------------------------------------------------ the specification *)
Definition wf_entries (es : list step) : bool :=
  forallb entry_ok es && forallb (board_declared es) es && nodupb claim_eqb (flat_map claims es).

Definition wf_doc3 (d : doc3) : bool := wf_entries (steps d).
