(* ConfigWfProofs.v - the loader model (ConfigSpec.parse3) accepts exactly the documents that the specification
   ConfigWf.wf_doc3 calls well-formed and unambiguous.
   Route: (1) every inner fold of the loader (features, aspects, dcc ports, dcc aspects, train functions) is an
   instance of "append the converted element unless it clashes with an earlier one" (ff_fold), which gives closed
   forms of all entry functions in terms of the specification's entry predicates (add_*_closed);
   (2) regl s ns = what state s has registered in namespace ns; one entry succeeds iff it is entry_ok, its board is
   registered and none of its claims is (step_iff), and then exactly its claims are added (step_reg);
   (3) hence a run succeeds iff a recursive condition on the claims made before holds (fold_okP), which from the
   empty state is: all entries ok, boards declared, all claims distinct (okP_list, ctxs_declared, entries_iff). *)
From Coq Require Import List NArith Bool Lia PeanoNat.
From LB Require Import ConfigSpec ConfigSpecProofs ConfigWf.
Import ListNotations.
Local Open Scope N_scope.

(* ------------------------------------------------------------------ pairwiseb *)
Lemma pairwiseb_snoc {A} (r : A -> A -> bool) l y :
  pairwiseb r (l ++ [y]) = pairwiseb r l && forallb (fun x => r x y) l.
Proof.
  induction l as [|x l IH]; cbn; [reflexivity|].
  rewrite forallb_app, IH. cbn. destruct (forallb (r x) l), (r x y), (pairwiseb r l), (forallb (fun x0 => r x0 y) l); reflexivity.
Qed.

Lemma pairwiseb_app {A} (r : A -> A -> bool) l1 l2 :
  pairwiseb r (l1 ++ l2) = pairwiseb r l1 && pairwiseb r l2 && forallb (fun x => forallb (r x) l2) l1.
Proof.
  induction l1 as [|x l1 IH]; cbn; [rewrite andb_true_r; reflexivity|].
  rewrite forallb_app, IH.
  destruct (forallb (r x) l1), (forallb (r x) l2), (pairwiseb r l1), (pairwiseb r l2), (forallb (fun x0 => forallb (r x0) l2) l1); reflexivity.
Qed.

Lemma forallb_map' {A B} (f : A -> B) (p : B -> bool) l : forallb p (map f l) = forallb (fun x => p (f x)) l.
Proof. induction l as [|x l IH]; cbn; [reflexivity|]. rewrite IH. reflexivity. Qed.

Lemma pairwiseb_map {A B} (f : A -> B) (r : B -> B -> bool) l :
  pairwiseb r (map f l) = pairwiseb (fun x y => r (f x) (f y)) l.
Proof. induction l as [|x l IH]; cbn; [reflexivity|]. rewrite IH, forallb_map'. reflexivity. Qed.

Lemma forallb_ext' {A} (p q : A -> bool) l : (forall x, p x = q x) -> forallb p l = forallb q l.
Proof. intro H. induction l as [|x l IH]; cbn; [reflexivity|]. rewrite H, IH. reflexivity. Qed.

Lemma pairwiseb_ext {A} (r1 r2 : A -> A -> bool) l : (forall x y, r1 x y = r2 x y) -> pairwiseb r1 l = pairwiseb r2 l.
Proof. intro H. induction l as [|x l IH]; cbn; [reflexivity|]. rewrite IH. f_equal. apply forallb_ext'. apply H. Qed.

Lemma forallb_and {A} (p q : A -> bool) l : forallb (fun x => p x && q x) l = forallb p l && forallb q l.
Proof. induction l as [|x l IH]; cbn; [reflexivity|]. rewrite IH. destruct (p x), (q x), (forallb p l), (forallb q l); reflexivity. Qed.

Lemma pairwiseb_and {A} (r1 r2 : A -> A -> bool) l :
  pairwiseb (fun x y => r1 x y && r2 x y) l = pairwiseb r1 l && pairwiseb r2 l.
Proof.
  induction l as [|x l IH]; cbn; [reflexivity|]. rewrite IH, forallb_and.
  destruct (forallb (r1 x) l), (forallb (r2 x) l), (pairwiseb r1 l), (pairwiseb r2 l); reflexivity.
Qed.

Lemma forallb_negb_existsb {A} (p : A -> bool) l : forallb (fun x => negb (p x)) l = negb (existsb p l).
Proof. induction l as [|x l IH]; cbn; [reflexivity|]. rewrite IH. destruct (p x); reflexivity. Qed.

(* ------------------------------------------------------------------ folds that append a converted element when it clashes with nothing before *)
Section FoldFresh.
Context {A V : Type}.
Variable conv : A -> option V.
Variable clash : V -> V -> bool.        (* clash new old *)
Definition ff (acc : list V) (x : A) : option (list V) :=
  match conv x with
  | Some v => if existsb (clash v) acc then None else Some (acc ++ [v])
  | None => None
  end.
Definition fresh_all (acc vs : list V) : bool := forallb (fun new => negb (existsb (clash new) acc)) vs.
Definition noclash (vs : list V) : bool := pairwiseb (fun old new => negb (clash new old)) vs.

Lemma ff_fold l : forall acc, fold_opt ff l acc =
  match map_opt conv l with
  | Some vs => if fresh_all acc vs && noclash vs then Some (acc ++ vs) else None
  | None => None
  end.
Proof.
  induction l as [|x l IH]; intro acc; cbn.
  - rewrite app_nil_r. reflexivity.
  - unfold ff at 1. unfold bind. destruct (conv x) as [v|]; [|reflexivity].
    destruct (existsb (clash v) acc) eqn:E.
    + destruct (map_opt conv l); [unfold fresh_all; cbn; rewrite E; reflexivity | reflexivity].
    + rewrite IH. destruct (map_opt conv l) as [vs|]; [|reflexivity].
      unfold fresh_all, noclash. cbn. rewrite E. cbn.
      rewrite <- app_assoc. cbn.
      assert (F : forallb (fun new => negb (existsb (clash new) (acc ++ [v]))) vs
                  = forallb (fun new => negb (existsb (clash new) acc)) vs && forallb (fun new => negb (clash new v)) vs).
      { rewrite <- forallb_and. apply forallb_ext'. intro y. rewrite existsb_app. cbn. rewrite orb_false_r.
        destruct (existsb (clash y) acc), (clash y v); reflexivity. }
      rewrite F.
      destruct (forallb (fun new => negb (existsb (clash new) acc)) vs), (forallb (fun new => negb (clash new v)) vs),
               (pairwiseb (fun old new => negb (clash new old)) vs); reflexivity.
Qed.

Lemma ff_fold_nil l : fold_opt ff l [] =
  match map_opt conv l with Some vs => if noclash vs then Some vs else None | None => None end.
Proof.
  rewrite ff_fold. destruct (map_opt conv l) as [vs|]; [|reflexivity].
  assert (F : fresh_all [] vs = true) by (unfold fresh_all; induction vs; cbn; auto). rewrite F. reflexivity.
Qed.
End FoldFresh.

Lemma fold_opt_ext {S A} (f g : S -> A -> option S) l s : (forall s x, f s x = g s x) -> fold_opt f l s = fold_opt g l s.
Proof. intro H. revert s. induction l as [|x l IH]; intro s; cbn; [reflexivity|]. rewrite H. destruct (g s x); auto. Qed.

Lemma map_opt_spec {A B} (conv : A -> option B) (ok : A -> bool) (cv : A -> B) l :
  (forall x, conv x = if ok x then Some (cv x) else None) ->
  map_opt conv l = if forallb ok l then Some (map cv l) else None.
Proof.
  intro H. induction l as [|x l IH]; cbn; [reflexivity|]. unfold bind. rewrite H, IH.
  destruct (ok x), (forallb ok l); reflexivity.
Qed.

Ltac bcases := repeat match goal with
  | |- context [match ?x with _ => _ end] => destruct x eqn:?; cbn; try reflexivity; try discriminate
  end.

(* ------------------------------------------------------------------ features *)
Definition cv_feat (f : feat_src) : N * N := (val (f_num f), val (f_val f)).
Definition conv_feat (f : feat_src) : option (N * N) :=
  match to_byte (f_num f), to_byte (f_val f) with Some n, Some v => Some (n, v) | _, _ => None end.
Definition clash_feat (new old : N * N) : bool := fst old =? fst new.

Lemma add_feature_ff fs f : add_feature fs f = ff conv_feat clash_feat fs f.
Proof.
  unfold add_feature, ff, conv_feat, bind, guard, clash_feat.
  destruct (to_byte (f_num f)) as [n|]; [|reflexivity].
  destruct (to_byte (f_val f)) as [v|]; cbn [fst]; destruct (existsb (fun p => fst p =? n) fs); reflexivity.
Qed.

Lemma features_fold l : fold_opt add_feature l [] = if features_ok l then Some (map cv_feat l) else None.
Proof.
  rewrite (fold_opt_ext _ _ _ _ add_feature_ff), ff_fold_nil.
  rewrite (map_opt_spec conv_feat (fun f => byte_ok (f_num f) && byte_ok (f_val f)) cv_feat).
  2:{ intro f. unfold conv_feat, cv_feat, byte_ok, val, is_some. destruct (to_byte (f_num f)), (to_byte (f_val f)); reflexivity. }
  unfold features_ok. destruct (forallb _ l); [|reflexivity]. cbn [andb].
  unfold noclash, nodupb. rewrite !pairwiseb_map. reflexivity.
Qed.

(* ------------------------------------------------------------------ aspects *)
Definition cv_asp (a : aspect_src) : aspect := {| asp_id := a_id a; asp_val := val (a_val a) |}.
Definition conv_asp (a : aspect_src) : option aspect :=
  match to_byte (a_val a) with Some v => Some {| asp_id := a_id a; asp_val := v |} | None => None end.
Definition clash_asp (new old : aspect) : bool := (asp_val old =? asp_val new) || str_eqb (asp_id old) (asp_id new).

Lemma add_aspect_ff acc a : add_aspect acc a = ff conv_asp clash_asp acc a.
Proof.
  unfold add_aspect, ff, conv_asp, bind, guard, clash_asp.
  destruct (to_byte (a_val a)) as [v|]; [|reflexivity]. cbn [asp_val asp_id].
  destruct (existsb _ acc); reflexivity.
Qed.

Definition aspects_nonempty_ok (l : list aspect_src) : bool :=
  forallb (fun a => byte_ok (a_val a)) l && nodupb str_eqb (map a_id l) && nodupb N.eqb (map (fun a => val (a_val a)) l).

Lemma aspects_fold l : fold_opt add_aspect l [] = if aspects_nonempty_ok l then Some (map cv_asp l) else None.
Proof.
  rewrite (fold_opt_ext _ _ _ _ add_aspect_ff), ff_fold_nil.
  rewrite (map_opt_spec conv_asp (fun a => byte_ok (a_val a)) cv_asp).
  2:{ intro a. unfold conv_asp, cv_asp, byte_ok, val, is_some. destruct (to_byte (a_val a)); reflexivity. }
  unfold aspects_nonempty_ok. destruct (forallb _ l); [|reflexivity]. cbn [andb].
  unfold noclash, nodupb. rewrite !pairwiseb_map.
  rewrite <- pairwiseb_and. erewrite pairwiseb_ext; [reflexivity|].
  intros x y. unfold clash_asp, cv_asp. cbn. rewrite negb_orb, andb_comm. reflexivity.
Qed.

Lemma aspects_ok_split l : aspects_ok l = negb (is_nil l) && aspects_nonempty_ok l.
Proof. unfold aspects_ok, aspects_nonempty_ok. rewrite !andb_assoc. reflexivity. Qed.

(* ------------------------------------------------------------------ dcc ports *)
Definition cv_dport (p : dport_src) : N * N := (val (dp_port p), val (dp_val p)).
Definition conv_dport (p : dport_src) : option (N * N) :=
  match to_byte (dp_port p) with
  | Some pt => if pt <=? 31 then match to_byte (dp_val p) with Some v => if v <=? 1 then Some (pt, v) else None | None => None end else None
  | None => None
  end.
Lemma add_dport_ff ps p : add_dport ps p = ff conv_dport clash_feat ps p.
Proof.
  unfold add_dport, ff, conv_dport, bind, guard, clash_feat.
  destruct (to_byte (dp_port p)) as [pt|]; [|reflexivity]. destruct (pt <=? 31); [|reflexivity].
  destruct (to_byte (dp_val p)) as [v|]; [|reflexivity]. destruct (v <=? 1); [|reflexivity]. cbn [fst].
  destruct (existsb _ ps); reflexivity.
Qed.
Definition dports_nonempty_ok (l : list dport_src) : bool :=
  forallb (fun p => byte_le 31 (dp_port p) && byte_le 1 (dp_val p)) l && nodupb N.eqb (map (fun p => val (dp_port p)) l).
Lemma dports_fold l : fold_opt add_dport l [] = if dports_nonempty_ok l then Some (map cv_dport l) else None.
Proof.
  rewrite (fold_opt_ext _ _ _ _ add_dport_ff), ff_fold_nil.
  rewrite (map_opt_spec conv_dport (fun p => byte_le 31 (dp_port p) && byte_le 1 (dp_val p)) cv_dport).
  2:{ intro p. unfold conv_dport, cv_dport, byte_le, val. destruct (to_byte (dp_port p)) as [a|]; [|reflexivity].
      destruct (a <=? 31); [|reflexivity]. destruct (to_byte (dp_val p)) as [b|]; [|reflexivity]. destruct (b <=? 1); reflexivity. }
  unfold dports_nonempty_ok. destruct (forallb _ l); [|reflexivity]. cbn [andb].
  unfold noclash, nodupb. rewrite !pairwiseb_map. reflexivity.
Qed.
Lemma dports_ok_split l : dports_ok l = negb (is_nil l) && dports_nonempty_ok l.
Proof. unfold dports_ok, dports_nonempty_ok. rewrite !andb_assoc. reflexivity. Qed.

(* ------------------------------------------------------------------ dcc aspects: exact characterisation (the loader's comparison) *)
Definition cv_dasp (a : daspect_src) : daspect := {| das_id := da_id a; das_ports := assignment a |}.
Definition conv_dasp (a : daspect_src) : option daspect :=
  match fold_opt add_dport (da_ports a) [] with
  | Some ps => if is_nil ps then None else Some {| das_id := da_id a; das_ports := ps |}
  | None => None
  end.
Lemma add_daspect_ff acc a : add_daspect acc a = ff conv_dasp dasp_equal acc a.
Proof.
  unfold add_daspect, ff, conv_dasp, bind, guard.
  destruct (fold_opt add_dport (da_ports a) []) as [ps|]; [|reflexivity].
  destruct (is_nil ps); cbn [negb]; [reflexivity|]. destruct (existsb _ acc); reflexivity.
Qed.
Lemma is_nil_map {A B} (f : A -> B) l : is_nil (map f l) = is_nil l.
Proof. destruct l; reflexivity. Qed.
(* what the loader requires of the aspect list of a dcc accessory *)
Definition daspects_loader_ok (l : list daspect_src) : bool :=
  forallb (fun a => dports_ok (da_ports a)) l &&
  pairwiseb (fun earlier later => negb (dasp_equal (cv_dasp later) (cv_dasp earlier))) l.
Lemma daspects_fold l : fold_opt add_daspect l [] = if daspects_loader_ok l then Some (map cv_dasp l) else None.
Proof.
  rewrite (fold_opt_ext _ _ _ _ add_daspect_ff), ff_fold_nil.
  rewrite (map_opt_spec conv_dasp (fun a => dports_ok (da_ports a)) cv_dasp).
  2:{ intro a. unfold conv_dasp, cv_dasp. rewrite dports_fold, dports_ok_split.
      destruct (dports_nonempty_ok (da_ports a)); [|rewrite andb_false_r; reflexivity].
      unfold assignment. fold cv_dport. rewrite is_nil_map. destruct (is_nil (da_ports a)); reflexivity. }
  unfold daspects_loader_ok. destruct (forallb _ l); [|reflexivity]. cbn [andb].
  unfold noclash. rewrite pairwiseb_map. reflexivity.
Qed.

(* ------------------------------------------------------------------ train functions *)
Definition cv_tp (p : tperiph_src) : str * N := (tp_id p, val (tp_bit p)).
Definition tp_ok1 (p : tperiph_src) : bool :=
  byte_le 31 (tp_bit p) && match tp_init p with None => true | Some i => byte_le 1 i end.
Definition conv_tp (p : tperiph_src) : option (str * N) := if tp_ok1 p then Some (cv_tp p) else None.
Definition clash_tp (new old : str * N) : bool := (snd old =? snd new) || str_eqb (fst old) (fst new).
Lemma add_tperiph_ff acc p : add_tperiph acc p = ff conv_tp clash_tp acc p.
Proof.
  unfold add_tperiph, ff, conv_tp, tp_ok1, cv_tp, byte_le, val, bind, guard, clash_tp.
  destruct (to_byte (tp_bit p)) as [b|]; [|reflexivity]. destruct (b <=? 31); [|reflexivity]. cbn [andb fst snd].
  destruct (tp_init p) as [i|].
  - destruct (to_byte i) as [v|]; [|destruct (existsb _ acc); reflexivity].
    destruct (v <=? 1); destruct (existsb _ acc); reflexivity.
  - destruct (existsb _ acc); reflexivity.
Qed.
Lemma functions_fold l : fold_opt add_tperiph l [] = if functions_ok l then Some (map cv_tp l) else None.
Proof.
  rewrite (fold_opt_ext _ _ _ _ add_tperiph_ff), ff_fold_nil.
  rewrite (map_opt_spec conv_tp tp_ok1 cv_tp) by reflexivity.
  unfold functions_ok. fold tp_ok1. destruct (forallb tp_ok1 l); [|reflexivity]. cbn [andb].
  unfold noclash, nodupb. rewrite !pairwiseb_map.
  rewrite <- pairwiseb_and. erewrite pairwiseb_ext; [reflexivity|].
  intros x y. unfold clash_tp, cv_tp. cbn. rewrite negb_orb. reflexivity.
Qed.

(* ------------------------------------------------------------------ calibration *)
Lemma cal_fold l : cal_ok l = if calibration_ok (Some l) then Some (map val l) else None.
Proof.
  unfold cal_ok, calibration_ok, bind, guard. destruct (Nat.eqb (length l) 9); [|reflexivity]. cbn [andb].
  rewrite (map_opt_spec cal_value (byte_le 126) val); [reflexivity|].
  intro x. unfold cal_value, byte_le, val, bind, guard. destruct (to_byte x) as [v|]; [|reflexivity]. destruct (v <=? 126); reflexivity.
Qed.

(* ------------------------------------------------------------------ dcc aspects: loader condition vs. specification *)
Lemma pairwiseb_ext_in {A} (r1 r2 : A -> A -> bool) l :
  (forall x y, In x l -> In y l -> r1 x y = r2 x y) -> pairwiseb r1 l = pairwiseb r2 l.
Proof.
  induction l as [|x l IH]; cbn; intro H; [reflexivity|]. rewrite IH by (intros; apply H; auto). f_equal.
  clear IH. assert (G : forall y, In y l -> r1 x y = r2 x y) by (intros; apply H; auto). clear H.
  induction l as [|y l IH]; cbn; [reflexivity|]. rewrite G by (left; reflexivity). rewrite IH by (intros; apply G; right; assumption). reflexivity.
Qed.

Lemma pairwiseb_impl {A} (r1 r2 : A -> A -> bool) l :
  (forall x y, r1 x y = true -> r2 x y = true) -> pairwiseb r1 l = true -> pairwiseb r2 l = true.
Proof.
  intro H. induction l as [|x l IH]; cbn; [auto|]. rewrite !andb_true_iff. intros [H1 H2]. split; [|auto].
  rewrite forallb_forall in *. auto.
Qed.

Lemma ports_subsumed_sub p1 p2 : nodupb N.eqb (map fst p2) = true -> ports_subsumed p1 p2 = sub_assign p1 p2.
Proof.
  intro Hn. unfold ports_subsumed, sub_assign. apply forallb_ext'. intro x.
  induction p2 as [|y t IH]; cbn; [reflexivity|].
  unfold nodupb in Hn. cbn in Hn. apply andb_true_iff in Hn as [Hy Ht].
  unfold addr_eqb at 1. rewrite (N.eqb_sym (fst x) (fst y)).
  destruct (fst y =? fst x) eqn:E; cbn.
  - rewrite (N.eqb_sym (snd x) (snd y)). destruct (snd y =? snd x); [reflexivity|]. cbn.
    symmetry. apply not_true_is_false. intro Hex. apply existsb_exists in Hex as (z & Hz & Hxz).
    unfold addr_eqb in Hxz. apply andb_true_iff in Hxz as [Hf _]. apply N.eqb_eq in Hf, E.
    rewrite forallb_forall in Hy. specialize (Hy (fst z) (in_map fst _ _ Hz)).
    apply negb_true_iff, N.eqb_neq in Hy. congruence.
  - apply IH. exact Ht.
Qed.

Lemma assignment_ports a : map fst (assignment a) = map (fun p => val (dp_port p)) (da_ports a).
Proof. unfold assignment. rewrite map_map. reflexivity. Qed.

Lemma dports_ok_nodup a : dports_ok (da_ports a) = true -> nodupb N.eqb (map fst (assignment a)) = true.
Proof. unfold dports_ok. rewrite !andb_true_iff. intros [_ H]. rewrite assignment_ports. exact H. Qed.

(* equal length + one-sided containment = containment both ways, for assignments without repeated ports *)
Lemma nodup_fst_NoDup (p : list (N * N)) : nodupb N.eqb (map fst p) = true -> NoDup p.
Proof.
  unfold nodupb. induction p as [|x t IH]; cbn; [constructor|]. rewrite andb_true_iff. intros [H1 H2]. constructor; [|auto].
  intro Hin. rewrite forallb_forall in H1. specialize (H1 (fst x) (in_map fst _ _ Hin)). rewrite N.eqb_refl in H1. discriminate.
Qed.

Lemma sub_assign_incl x y : sub_assign x y = true <-> incl x y.
Proof.
  unfold sub_assign, incl. rewrite forallb_forall. split; intros H a Ha.
  - specialize (H a Ha). apply existsb_exists in H as (b & Hb & E). apply addr_eqb_eq in E. subst. exact Hb.
  - apply existsb_exists. exists a. split; [apply H; exact Ha | apply addr_eqb_eq; reflexivity].
Qed.

Lemma same_assign_length x y : nodupb N.eqb (map fst x) = true -> nodupb N.eqb (map fst y) = true ->
  Nat.eqb (length y) (length x) && sub_assign y x = same_assign x y.
Proof.
  intros Hx Hy. apply nodup_fst_NoDup in Hx, Hy. unfold same_assign.
  destruct (sub_assign y x) eqn:S; [|rewrite !andb_false_r; reflexivity]. rewrite !andb_true_r.
  apply sub_assign_incl in S.
  destruct (Nat.eqb (length y) (length x)) eqn:L.
  - apply Nat.eqb_eq in L. symmetry. apply sub_assign_incl. apply (NoDup_length_incl Hy); [lia | exact S].
  - symmetry. apply not_true_is_false. intro Q. apply sub_assign_incl in Q. apply Nat.eqb_neq in L. apply L.
    apply Nat.le_antisymm; apply NoDup_incl_length; assumption.
Qed.

Lemma daspects_loader_spec l : negb (is_nil l) && daspects_loader_ok l = daspects_ok l.
Proof.
  unfold daspects_loader_ok, daspects_ok. destruct (negb (is_nil l)); [|reflexivity]. cbn [andb].
  destruct (forallb (fun a => dports_ok (da_ports a)) l) eqn:F; [|reflexivity]. cbn [andb].
  unfold nodupb. rewrite !pairwiseb_map, <- pairwiseb_and.
  apply pairwiseb_ext_in. intros x y Hx Hy. rewrite forallb_forall in F.
  unfold dasp_equal, cv_dasp. cbn. rewrite negb_orb, (str_eqb_sym (da_id y) (da_id x)).
  change (forallb _ (assignment y)) with (ports_subsumed (assignment y) (assignment x)).
  rewrite (ports_subsumed_sub (assignment y) (assignment x)) by (apply dports_ok_nodup; apply F; exact Hx).
  rewrite same_assign_length by (apply dports_ok_nodup; apply F; assumption). reflexivity.
Qed.

(* ------------------------------------------------------------------ closed forms of the entry functions *)
Lemma map_asp_id l : map asp_id (map cv_asp l) = map a_id l.
Proof. rewrite map_map. reflexivity. Qed.
Lemma map_das_id l : map das_id (map cv_dasp l) = map da_id l.
Proof. rewrite map_map. reflexivity. Qed.

Definition bacc_ok (e : bacc_src) : bool :=
  byte_ok (ba_num e) && aspects_ok (ba_aspects e) && initial_ok (map a_id (ba_aspects e)) (ba_init e).

Lemma add_bacc_closed pt bid s e : add_bacc pt bid s e =
  if bacc_ok e then
    match get_board bid s with
    | Some b =>
        if existsb (fun m => bm_num m =? val (ba_num e)) (bd_pb b ++ bd_sb b)
           || mem_str (ba_id e) (if pt then ptb s ++ ptd s else sgb s ++ sgd s) then None
        else let m := {| bm_id := ba_id e; bm_num := val (ba_num e); bm_aspects := map cv_asp (ba_aspects e) |} in
             Some (if pt then upd_board bid (fun b => bset_pb b (bd_pb b ++ [m])) (set_ptb s (ptb s ++ [ba_id e]))
                   else upd_board bid (fun b => bset_sb b (bd_sb b ++ [m])) (set_sgb s (sgb s ++ [ba_id e])))
    | None => None
    end
  else None.
Proof.
  unfold add_bacc, bacc_ok, bind, guard, byte_ok, val, is_some. destruct (to_byte (ba_num e)) as [n|]; [|reflexivity]. cbn [andb].
  rewrite aspects_fold, aspects_ok_split. destruct (aspects_nonempty_ok (ba_aspects e)); [|rewrite andb_false_r; reflexivity].
  rewrite andb_true_r, is_nil_map. destruct (is_nil (ba_aspects e)); cbn [negb andb]; [reflexivity|].
  rewrite map_asp_id. unfold initial_ok, init_ok. destruct (match ba_init e with Some v => _ | None => true end); [|reflexivity].
  destruct (get_board bid s) as [b|]; [|reflexivity].
  destruct (existsb _ (bd_pb b ++ bd_sb b)); cbn; [reflexivity|]. destruct (mem_str _ _); reflexivity.
Qed.

Definition dacc_exact_ok (e : dacc_src) : bool :=
  word_ok (dc_addr e) && byte_le 1 (dc_ext e) && daspects_ok (dc_aspects e) && initial_ok (map da_id (dc_aspects e)) (dc_init e).

Definition pairv (s : str) : N * N := match to_pair s with Some p => p | None => (0, 0) end.

Lemma add_dacc_closed pt bid s e : add_dacc pt bid s e =
  if dacc_exact_ok e then
    match get_board bid s with
    | Some _ =>
        if mem_str (dc_id e) (if pt then ptb s ++ ptd s else sgb s ++ sgd s) || dcc_in_use s (pairv (dc_addr e)) then None
        else let m := {| dm_id := dc_id e; dm_addr := pairv (dc_addr e); dm_ext := val (dc_ext e); dm_aspects := map cv_dasp (dc_aspects e) |} in
             Some (if pt then upd_board bid (fun b => bset_pd b (bd_pd b ++ [m])) (set_ptd s (ptd s ++ [dc_id e]))
                   else upd_board bid (fun b => bset_sd b (bd_sd b ++ [m])) (set_sgd s (sgd s ++ [dc_id e])))
    | None => None
    end
  else None.
Proof.
  unfold add_dacc, dacc_exact_ok, bind, guard, word_ok, byte_le, val, pairv, is_some.
  destruct (get_board bid s) as [b|].
  2:{ destruct (_ && _ && _ && _); reflexivity. }
  destruct (to_pair (dc_addr e)) as [a|]; [|reflexivity]. cbn [andb].
  destruct (to_byte (dc_ext e)) as [x|]; [|reflexivity]. destruct (x <=? 1); [|reflexivity]. cbn [andb].
  rewrite daspects_fold.
  assert (R : daspects_ok (dc_aspects e) && initial_ok (map da_id (dc_aspects e)) (dc_init e)
              = negb (is_nil (dc_aspects e)) && daspects_loader_ok (dc_aspects e) && initial_ok (map da_id (dc_aspects e)) (dc_init e)).
  { rewrite daspects_loader_spec. reflexivity. }
  rewrite R. destruct (daspects_loader_ok (dc_aspects e)); [|rewrite andb_false_r; reflexivity].
  rewrite andb_true_r, is_nil_map. destruct (is_nil (dc_aspects e)); cbn [negb andb]; [reflexivity|].
  rewrite map_das_id. unfold initial_ok, init_ok. destruct (match dc_init e with Some v => _ | None => true end); [|reflexivity].
  destruct (mem_str _ _); cbn; [reflexivity|]. destruct (dcc_in_use s a); reflexivity.
Qed.

Definition periph_ok (e : periph_src) : bool :=
  byte_ok (p_num e) && word_ok (p_port e) && aspects_ok (p_aspects e) && initial_ok (map a_id (p_aspects e)) (p_init e).

Lemma add_periph_closed bid s e : add_periph bid s e =
  if periph_ok e then
    match get_board bid s with
    | Some b =>
        if existsb (fun m => addr_eqb (pm_port m) (pairv (p_port e)) || (pm_num m =? val (p_num e))) (bd_pe b) || mem_str (p_id e) (pes s) then None
        else let m := {| pm_id := p_id e; pm_num := val (p_num e); pm_port := pairv (p_port e); pm_aspects := map cv_asp (p_aspects e) |} in
             Some (upd_board bid (fun b => bset_pe b (bd_pe b ++ [m])) (set_pes s (pes s ++ [p_id e])))
    | None => None
    end
  else None.
Proof.
  unfold add_periph, periph_ok, bind, guard, byte_ok, word_ok, val, pairv, is_some.
  destruct (to_byte (p_num e)) as [n|]; [|reflexivity]. destruct (to_pair (p_port e)) as [pt|]; [|reflexivity]. cbn [andb].
  rewrite aspects_fold, aspects_ok_split. destruct (aspects_nonempty_ok (p_aspects e)); [|rewrite andb_false_r; reflexivity].
  rewrite andb_true_r, is_nil_map. destruct (is_nil (p_aspects e)); cbn [negb andb]; [reflexivity|].
  rewrite map_asp_id. unfold initial_ok, init_ok. destruct (match p_init e with Some v => _ | None => true end); [|reflexivity].
  destruct (get_board bid s) as [b|]; [|reflexivity].
  destruct (existsb _ (bd_pe b)); cbn; [reflexivity|]. destruct (mem_str _ _); reflexivity.
Qed.

Lemma add_seg_closed bid s e : add_seg bid s e =
  if byte_ok (sg_addr e) then
    match get_board bid s with
    | Some b => if existsb (fun m => snd m =? val (sg_addr e)) (bd_sg b) || mem_str (sg_id e) (segs s) then None
                else Some (upd_board bid (fun b => bset_sg b (bd_sg b ++ [(sg_id e, val (sg_addr e))])) (set_segs s (segs s ++ [sg_id e])))
    | None => None
    end
  else None.
Proof.
  unfold add_seg, bind, guard, byte_ok, val, is_some. destruct (to_byte (sg_addr e)) as [a|]; [|reflexivity].
  destruct (get_board bid s) as [b|]; [|reflexivity]. destruct (existsb _ (bd_sg b)); cbn; [reflexivity|]. destruct (mem_str _ _); reflexivity.
Qed.

Lemma add_rev_closed bid s e : add_rev bid s e =
  match get_board bid s with
  | Some b => if existsb (fun m => str_eqb (snd m) (rv_cv e)) (bd_rv b) || mem_str (rv_id e) (revs s) then None
              else Some (upd_board bid (fun b => bset_rv b (bd_rv b ++ [(rv_id e, rv_cv e)])) (set_revs s (revs s ++ [rv_id e])))
  | None => None
  end.
Proof.
  unfold add_rev, bind, guard. destruct (get_board bid s) as [b|]; [|reflexivity].
  destruct (existsb _ (bd_rv b)); cbn; [reflexivity|]. destruct (mem_str _ _); reflexivity.
Qed.

Definition train_ok (t : train_src) : bool :=
  word_ok (t_addr t) && speed_steps_ok (t_steps t) && calibration_ok (t_cal t) &&
  functions_ok (match t_per t with Some l => l | None => [] end).

Lemma add_train_closed s t : add_train s t =
  if train_ok t then
    if dcc_in_use s (pairv (t_addr t)) || existsb (fun x => str_eqb (tr_id x) (t_id t)) (trains s) then None
    else let ps := map cv_tp (match t_per t with Some l => l | None => [] end) in
         Some {| boards := boards s; ptb := ptb s; ptd := ptd s; sgb := sgb s; sgd := sgd s; pes := pes s; segs := segs s;
                 revs := revs s; boosters := boosters s; touts := touts s;
                 trains := trains s ++ [{| tr_id := t_id t; tr_addr := pairv (t_addr t); tr_steps := val (t_steps t);
                                           tr_cal := match t_cal t with Some l => Some (map val l) | None => None end; tr_per := ps |}];
                 tstates := tstates s ++ [(t_id t, map fst ps)] |}
  else None.
Proof.
  unfold add_train, train_ok, bind, guard, word_ok, speed_steps_ok, val, pairv, is_some.
  destruct (to_pair (t_addr t)) as [a|]; [|reflexivity]. cbn [andb].
  destruct (to_byte (t_steps t)) as [v|]; [|reflexivity]. unfold steps_ok.
  destruct ((v =? 14) || (v =? 28) || (v =? 126)); [|reflexivity]. cbn [andb].
  destruct (t_cal t) as [c|].
  - rewrite cal_fold. destruct (calibration_ok (Some c)); [|reflexivity]. cbn [andb].
    rewrite functions_fold. destruct (functions_ok _); [|reflexivity].
    destruct (dcc_in_use s a); cbn; [reflexivity|]. destruct (existsb _ (trains s)); reflexivity.
  - cbn [calibration_ok andb]. rewrite functions_fold. destruct (functions_ok _); [|reflexivity].
    destruct (dcc_in_use s a); cbn; [reflexivity|]. destruct (existsb _ (trains s)); reflexivity.
Qed.

Definition board_entry_ok (b : board_src) : bool := uid_ok (b_uid b) && features_ok (b_feats b).

Lemma add_board_closed s b : add_board_entry s b =
  if board_entry_ok b then
    if existsb (fun x => str_eqb (bd_id x) (b_id b) || str_eqb (bd_uid x) (uid (b_uid b))) (boards s) then None
    else Some {| boards := boards s ++ [{| bd_id := b_id b; bd_uid := uid (b_uid b); bd_feats := map cv_feat (b_feats b); bd_pb := []; bd_pd := [];
                                           bd_sb := []; bd_sd := []; bd_pe := []; bd_sg := []; bd_rv := [] |}];
                 ptb := ptb s; ptd := ptd s; sgb := sgb s; sgd := sgd s; pes := pes s; segs := segs s; revs := revs s;
                 boosters := if N.testbit (uid_class (uid (b_uid b))) 1 then boosters s ++ [b_id b] else boosters s;
                 touts := if N.testbit (uid_class (uid (b_uid b))) 4 then touts s ++ [b_id b] else touts s;
                 trains := trains s; tstates := tstates s |}
  else None.
Proof.
  unfold add_board_entry, board_entry_ok, bind, guard, uid_ok, uid, is_some.
  destruct (to_uid (b_uid b)) as [u|]; [|reflexivity]. cbn [andb]. cbv zeta.
  rewrite features_fold. destruct (features_ok (b_feats b)); [|reflexivity].
  destruct (existsb _ (boards s)); reflexivity.
Qed.

(* ------------------------------------------------------------------ what the loader's state has registered, per namespace *)
Definition enc (p : N * N) : str := [fst p; snd p].
Definition bget (bid : str) (s : st) (g : board -> list str) : list str :=
  match get_board bid s with Some b => g b | None => [] end.
Definition dcc_of (b : board) : list str := map (fun m => enc (dm_addr m)) (bd_pd b) ++ map (fun m => enc (dm_addr m)) (bd_sd b).
Definition accnum_of (b : board) : list str := map (fun m => [bm_num m]) (bd_pb b ++ bd_sb b).
Definition penum_of (b : board) : list str := map (fun m => [pm_num m]) (bd_pe b).
Definition peport_of (b : board) : list str := map (fun m => enc (pm_port m)) (bd_pe b).
Definition sgaddr_of (b : board) : list str := map (fun m => [snd m]) (bd_sg b).
Definition cv_of (b : board) : list str := map snd (bd_rv b).

Definition regl (s : st) (ns : namespace) : list str :=
  match ns with
  | NsBoardId => map bd_id (boards s)
  | NsUniqueId => map bd_uid (boards s)
  | NsPointId => ptb s ++ ptd s
  | NsSignalId => sgb s ++ sgd s
  | NsPeripheralId => pes s
  | NsSegmentId => segs s
  | NsReverserId => revs s
  | NsTrainId => map tr_id (trains s)
  | NsDccAddress => flat_map dcc_of (boards s) ++ map (fun t => enc (tr_addr t)) (trains s)
  | NsAccessoryNumber bid => bget bid s accnum_of
  | NsPeripheralNumber bid => bget bid s penum_of
  | NsPeripheralPort bid => bget bid s peport_of
  | NsSegmentAddress bid => bget bid s sgaddr_of
  | NsCv bid => bget bid s cv_of
  end.

Definition fresh (s : st) (x : step) : Prop := forall c, In c (claims x) -> ~ In (snd c) (regl s (fst c)).
Definition ctx (s : st) (x : step) : Prop := forall bid, board_of x = Some bid -> In bid (regl s NsBoardId).
Definition exact_ok (x : step) : bool := entry_ok x.

(* ------------------------------------------------------------------ helpers *)
Lemma existsb_In_map {A} (p : A -> bool) (f : A -> str) (k : str) l :
  (forall m, p m = true <-> f m = k) -> (existsb p l = true <-> In k (map f l)).
Proof.
  intro H. rewrite existsb_exists, in_map_iff. split; intros (m & A1 & A2).
  - exists m. split; [apply H; exact A2 | exact A1].
  - exists m. split; [exact A2 | apply H; exact A1].
Qed.

Lemma existsb_false_iff {A} (p : A -> bool) l P : (existsb p l = true <-> P) -> (existsb p l = false <-> ~ P).
Proof. intro H. destruct (existsb p l); split; intro G; try congruence; try (intro Q; apply H in Q; discriminate); exfalso; apply G; apply H; reflexivity. Qed.

Lemma enc_inj a b : enc a = enc b <-> a = b.
Proof. destruct a, b. unfold enc. cbn. split; intro H; [injection H as -> ->; reflexivity | injection H as -> ->; reflexivity]. Qed.

Lemma get_board_some_iff bid s : (exists b, get_board bid s = Some b) <-> In bid (map bd_id (boards s)).
Proof.
  split.
  - intros (b & H). unfold get_board in H. apply find_some in H as (Hin & He). apply str_eqb_eq in He. subst. apply in_map. exact Hin.
  - intro H. destruct (get_board bid s) as [b|] eqn:E; [eauto|]. exfalso.
    apply in_map_iff in H as (b & Hb & Hin). unfold get_board in E.
    apply (find_none _ _ E) in Hin. rewrite Hb, str_eqb_refl in Hin. discriminate.
Qed.

Lemma word_enc s : word_ok s = true -> word s = enc (pairv s).
Proof. unfold word_ok, word, pairv, is_some. destruct (to_pair s) as [[h l]|]; [reflexivity | discriminate]. Qed.

Lemma upd_first_map {B} (g : board -> B) id f l : (forall b, g (f b) = g b) -> map g (upd_first id f l) = map g l.
Proof. intro Hf. induction l as [|a l IH]; cbn; [reflexivity|]. destruct (str_eqb (bd_id a) id); cbn; [rewrite Hf|rewrite IH]; reflexivity. Qed.

Lemma bget_upd bid bid' f g s1 b0 extra :
  (forall b, bd_id (f b) = bd_id b) -> get_board bid s1 = Some b0 ->
  (forall b k, In k (g (f b)) <-> In k (g b) \/ In k extra) ->
  forall k, In k (bget bid' (upd_board bid f s1) g) <-> In k (bget bid' s1 g) \/ (bid = bid' /\ In k extra).
Proof.
  intros Hf Hb Hg k. unfold bget. rewrite get_board_upd by exact Hf.
  destruct (str_eqb bid bid') eqn:E.
  - apply str_eqb_eq in E. subst bid'. rewrite Hb. cbn. rewrite Hg. tauto.
  - assert (bid <> bid') by (intro; subst; rewrite str_eqb_refl in E; discriminate). tauto.
Qed.

Lemma bget_upd_same bid bid' f g s1 :
  (forall b, bd_id (f b) = bd_id b) -> (forall b, g (f b) = g b) -> bget bid' (upd_board bid f s1) g = bget bid' s1 g.
Proof.
  intros Hf Hg. unfold bget. rewrite get_board_upd by exact Hf.
  destruct (str_eqb bid bid'); [|reflexivity]. destruct (get_board bid' s1); cbn; [apply Hg | reflexivity].
Qed.

Lemma flat_map_upd_first (G : board -> list str) bid f l b0 extra :
  find (pid bid) l = Some b0 -> (forall b k, In k (G (f b)) <-> In k (G b) \/ In k extra) ->
  forall k, In k (flat_map G (upd_first bid f l)) <-> In k (flat_map G l) \/ In k extra.
Proof.
  intros Hfind HG k. revert Hfind. induction l as [|a l IH]; cbn; [discriminate|]. unfold pid at 1.
  destruct (str_eqb (bd_id a) bid); intro Hf.
  - cbn. rewrite !in_app_iff, HG. tauto.
  - cbn. rewrite !in_app_iff, (IH Hf). tauto.
Qed.

Lemma flat_map_upd_first_same (G : board -> list str) bid f l : (forall b, G (f b) = G b) -> flat_map G (upd_first bid f l) = flat_map G l.
Proof. intro H. induction l as [|a l IH]; cbn; [reflexivity|]. destruct (str_eqb (bd_id a) bid); cbn; [rewrite H|rewrite IH]; reflexivity. Qed.

Lemma dcc_in_use_iff s a : dcc_in_use s a = true <-> In (enc a) (regl s NsDccAddress).
Proof.
  unfold dcc_in_use, regl. rewrite orb_true_iff, in_app_iff, in_flat_map.
  rewrite (existsb_In_map _ (fun t => enc (tr_addr t)) (enc a)) by (intro m; rewrite addr_eqb_eq, enc_inj; tauto).
  rewrite existsb_exists. split; intros [H|H]; [left | right; exact H | left | right; exact H].
  - destruct H as (b & Hb & H). exists b. split; [exact Hb|]. unfold dcc_of. rewrite in_app_iff. apply orb_true_iff in H as [H|H]; [left|right];
      apply (existsb_In_map _ (fun m => enc (dm_addr m)) (enc a)) in H; auto; intro m; rewrite addr_eqb_eq, enc_inj; tauto.
  - destruct H as (b & Hb & H). exists b. split; [exact Hb|]. unfold dcc_of in H. rewrite in_app_iff in H. apply orb_true_iff. destruct H as [H|H]; [left|right];
      apply (existsb_In_map _ (fun m => enc (dm_addr m)) (enc a)); auto; intro m; rewrite addr_eqb_eq, enc_inj; tauto.
Qed.

Definition nsp (pt : bool) : namespace := if pt then NsPointId else NsSignalId.

Lemma or_false_iff_and (a b : bool) : a || b = false <-> a = false /\ b = false.
Proof. destruct a, b; cbn; intuition congruence. Qed.

Lemma regl_nsp pt s : regl s (nsp pt) = if pt then ptb s ++ ptd s else sgb s ++ sgd s.
Proof. destruct pt; reflexivity. Qed.

(* ------------------------------------------------------------------ board accessory *)
Lemma bacc_step_iff pt bid s e :
  (exists s', add_bacc pt bid s e = Some s') <->
  bacc_ok e = true /\ In bid (regl s NsBoardId) /\ ~ In (ba_id e) (regl s (nsp pt)) /\ ~ In [val (ba_num e)] (regl s (NsAccessoryNumber bid)).
Proof.
  rewrite add_bacc_closed. cbn [regl]. rewrite <- get_board_some_iff, regl_nsp. unfold bget.
  destruct (bacc_ok e); [|split; [intros (? & ?); discriminate | intros (? & _); discriminate]].
  destruct (get_board bid s) as [b|]; [|split; [intros (? & ?); discriminate | intros (_ & (? & ?) & _); discriminate]].
  destruct (_ || _) eqn:E.
  - split; [intros (? & ?); discriminate|]. intros (_ & _ & H1 & H2). exfalso. apply orb_true_iff in E as [E|E].
    + apply H2. unfold accnum_of. apply (existsb_In_map _ (fun m => [bm_num m]) [val (ba_num e)] _) in E; [exact E|].
      intro m0. rewrite N.eqb_eq. split; intro G0; [rewrite G0; reflexivity | injection G0; auto].
    + apply H1. apply mem_str_In. exact E.
  - apply or_false_iff_and in E as [E1 E2]. split; [intros _ | eauto]. repeat split; eauto.
    + apply mem_str_false. exact E2.
    + unfold accnum_of. intro H. apply (existsb_In_map (fun m => bm_num m =? val (ba_num e)) (fun m => [bm_num m])) in H; [congruence|].
      intro m0. rewrite N.eqb_eq. split; intro G0; [rewrite G0; reflexivity | injection G0; auto].
Qed.

Ltac regsame := cbn [regl boards ptb ptd sgb sgd pes segs revs trains set_ptb set_ptd set_sgb set_sgd set_pes set_segs set_revs upd_board set_boards claims In];
  rewrite ?upd_first_map by reflexivity; rewrite ?flat_map_upd_first_same by reflexivity;
  rewrite ?bget_upd_same by reflexivity;
  rewrite ?in_app_iff; cbn [In]; intuition (try congruence; try discriminate).

Lemma bacc_step_reg pt bid s e s' : add_bacc pt bid s e = Some s' ->
  forall ns k, In k (regl s' ns) <-> In k (regl s ns) \/ In (ns, k) (claims (SBacc pt bid e)).
Proof.
  rewrite add_bacc_closed. destruct (bacc_ok e); [|discriminate]. destruct (get_board bid s) as [b0|] eqn:Hb; [|discriminate].
  destruct (_ || _); [discriminate|]. cbv zeta. intros [= <-] ns k.
  set (m := {| bm_id := ba_id e; bm_num := val (ba_num e); bm_aspects := map cv_asp (ba_aspects e) |}).
  destruct pt.
  - destruct ns; try solve [regsame].
    cbn [regl claims In].
    rewrite (bget_upd bid board (fun b => bset_pb b (bd_pb b ++ [m])) accnum_of _ b0 [[val (ba_num e)]]); [| reflexivity | exact Hb |].
    + cbn [In]. intuition (try congruence; try discriminate); try (subst; right; right; left; reflexivity).
    + intros b k0. unfold accnum_of. cbn. rewrite !map_app, !in_app_iff. cbn. tauto.
  - destruct ns; try solve [regsame].
    cbn [regl claims In].
    rewrite (bget_upd bid board (fun b => bset_sb b (bd_sb b ++ [m])) accnum_of _ b0 [[val (ba_num e)]]); [| reflexivity | exact Hb |].
    + cbn [In]. intuition (try congruence; try discriminate); try (subst; right; right; left; reflexivity).
    + intros b k0. unfold accnum_of. cbn. rewrite !map_app, !in_app_iff. cbn. tauto.
Qed.

(* ------------------------------------------------------------------ dcc accessory *)
Lemma dacc_step_iff pt bid s e :
  (exists s', add_dacc pt bid s e = Some s') <->
  dacc_exact_ok e = true /\ In bid (regl s NsBoardId) /\ ~ In (dc_id e) (regl s (nsp pt)) /\ ~ In (word (dc_addr e)) (regl s NsDccAddress).
Proof.
  rewrite add_dacc_closed. change (regl s NsBoardId) with (map bd_id (boards s)). rewrite <- get_board_some_iff, regl_nsp.
  destruct (dacc_exact_ok e) eqn:Ok; [|split; [intros (? & ?); discriminate | intros (? & _); discriminate]].
  assert (W : word (dc_addr e) = enc (pairv (dc_addr e))).
  { apply word_enc. unfold dacc_exact_ok in Ok. rewrite !andb_true_iff in Ok. tauto. }
  rewrite W.
  destruct (get_board bid s) as [b|]; [|split; [intros (? & ?); discriminate | intros (_ & (? & ?) & _); discriminate]].
  destruct (_ || _) eqn:E.
  - split; [intros (? & ?); discriminate|]. intros (_ & _ & H1 & H2). exfalso. apply orb_true_iff in E as [E|E].
    + apply H1. apply mem_str_In. exact E.
    + apply H2. apply dcc_in_use_iff. exact E.
  - apply or_false_iff_and in E as [E1 E2]. split; [intros _ | eauto]. repeat split; eauto.
    + apply mem_str_false. exact E1.
    + intro H. apply dcc_in_use_iff in H. congruence.
Qed.

Lemma dacc_step_reg pt bid s e s' : add_dacc pt bid s e = Some s' ->
  forall ns k, In k (regl s' ns) <-> In k (regl s ns) \/ In (ns, k) (claims (SDacc pt bid e)).
Proof.
  rewrite add_dacc_closed. destruct (dacc_exact_ok e) eqn:Ok; [|discriminate].
  assert (W : word (dc_addr e) = enc (pairv (dc_addr e))).
  { apply word_enc. unfold dacc_exact_ok in Ok. rewrite !andb_true_iff in Ok. tauto. }
  destruct (get_board bid s) as [b0|] eqn:Hb; [|discriminate].
  destruct (_ || _); [discriminate|]. cbv zeta. intros [= <-] ns k.
  set (m := {| dm_id := dc_id e; dm_addr := pairv (dc_addr e); dm_ext := val (dc_ext e); dm_aspects := map cv_dasp (dc_aspects e) |}).
  destruct pt.
  - destruct ns; try solve [regsame].
    cbn [regl claims In boards trains upd_board set_boards set_ptd]. rewrite !in_app_iff.
    rewrite (flat_map_upd_first dcc_of bid (fun b => bset_pd b (bd_pd b ++ [m])) (boards s) b0 [enc (pairv (dc_addr e))]); [| exact Hb |].
    + rewrite W. cbn [In]. intuition (try congruence; try discriminate).
    + intros b k0. unfold dcc_of. cbn. rewrite !map_app, !in_app_iff. cbn. tauto.
  - destruct ns; try solve [regsame].
    cbn [regl claims In boards trains upd_board set_boards set_sgd]. rewrite !in_app_iff.
    rewrite (flat_map_upd_first dcc_of bid (fun b => bset_sd b (bd_sd b ++ [m])) (boards s) b0 [enc (pairv (dc_addr e))]); [| exact Hb |].
    + rewrite W. cbn [In]. intuition (try congruence; try discriminate).
    + intros b k0. unfold dcc_of. cbn. rewrite !map_app, !in_app_iff. cbn. tauto.
Qed.

(* ------------------------------------------------------------------ peripheral *)
Lemma periph_step_iff bid s e :
  (exists s', add_periph bid s e = Some s') <->
  periph_ok e = true /\ In bid (regl s NsBoardId) /\ ~ In (p_id e) (regl s NsPeripheralId) /\
  ~ In [val (p_num e)] (regl s (NsPeripheralNumber bid)) /\ ~ In (word (p_port e)) (regl s (NsPeripheralPort bid)).
Proof.
  rewrite add_periph_closed. cbn [regl]. rewrite <- get_board_some_iff. unfold bget.
  destruct (periph_ok e) eqn:Ok; [|split; [intros (? & ?); discriminate | intros (? & _); discriminate]].
  assert (W : word (p_port e) = enc (pairv (p_port e))).
  { apply word_enc. unfold periph_ok in Ok. rewrite !andb_true_iff in Ok. tauto. }
  rewrite W.
  destruct (get_board bid s) as [b|]; [|split; [intros (? & ?); discriminate | intros (_ & (? & ?) & _); discriminate]].
  assert (X : existsb (fun m => addr_eqb (pm_port m) (pairv (p_port e)) || (pm_num m =? val (p_num e))) (bd_pe b) = true <->
              In (enc (pairv (p_port e))) (peport_of b) \/ In [val (p_num e)] (penum_of b)).
  { unfold peport_of, penum_of. rewrite existsb_exists, !in_map_iff. split.
    - intros (m0 & Hin & H). apply orb_true_iff in H as [H|H]; [left | right]; exists m0; split; auto.
      + apply addr_eqb_eq in H. rewrite H. reflexivity.
      + apply N.eqb_eq in H. rewrite H. reflexivity.
    - intros [(m0 & H & Hin) | (m0 & H & Hin)]; exists m0; split; auto; apply orb_true_iff; [left | right].
      + apply addr_eqb_eq. apply enc_inj. exact H.
      + apply N.eqb_eq. injection H; auto. }
  destruct (_ || _) eqn:E.
  - split; [intros (? & ?); discriminate|]. intros (_ & _ & H1 & H2 & H3). exfalso. apply orb_true_iff in E as [E|E].
    + apply X in E. tauto.
    + apply H1. apply mem_str_In. exact E.
  - apply or_false_iff_and in E as [E1 E2]. split; [intros _ | eauto].
    assert (~ (In (enc (pairv (p_port e))) (peport_of b) \/ In [val (p_num e)] (penum_of b))) by (intro Q; apply X in Q; congruence).
    repeat split; eauto; try tauto. apply mem_str_false. exact E2.
Qed.

Lemma periph_step_reg bid s e s' : add_periph bid s e = Some s' ->
  forall ns k, In k (regl s' ns) <-> In k (regl s ns) \/ In (ns, k) (claims (SPeriph bid e)).
Proof.
  rewrite add_periph_closed. destruct (periph_ok e) eqn:Ok; [|discriminate].
  assert (W : word (p_port e) = enc (pairv (p_port e))).
  { apply word_enc. unfold periph_ok in Ok. rewrite !andb_true_iff in Ok. tauto. }
  destruct (get_board bid s) as [b0|] eqn:Hb; [|discriminate].
  destruct (_ || _); [discriminate|]. cbv zeta. intros [= <-] ns k.
  set (m := {| pm_id := p_id e; pm_num := val (p_num e); pm_port := pairv (p_port e); pm_aspects := map cv_asp (p_aspects e) |}).
  destruct ns; try solve [regsame].
  - cbn [regl claims In].
    rewrite (bget_upd bid board (fun b => bset_pe b (bd_pe b ++ [m])) penum_of _ b0 [[val (p_num e)]]); [| reflexivity | exact Hb |].
    + cbn [In]. intuition (try congruence; try discriminate); try (subst; right; right; left; reflexivity).
    + intros b k0. unfold penum_of. cbn. rewrite !map_app, !in_app_iff. cbn. tauto.
  - cbn [regl claims In].
    rewrite (bget_upd bid board (fun b => bset_pe b (bd_pe b ++ [m])) peport_of _ b0 [enc (pairv (p_port e))]); [| reflexivity | exact Hb |].
    + rewrite W. cbn [In]. intuition (try congruence; try discriminate); try (subst; right; right; right; left; reflexivity); try (subst; right; right; left; reflexivity).
    + intros b k0. unfold peport_of. cbn. rewrite !map_app, !in_app_iff. cbn. tauto.
Qed.

(* ------------------------------------------------------------------ segment *)
Lemma seg_step_iff bid s e :
  (exists s', add_seg bid s e = Some s') <->
  byte_ok (sg_addr e) = true /\ In bid (regl s NsBoardId) /\ ~ In (sg_id e) (regl s NsSegmentId) /\
  ~ In [val (sg_addr e)] (regl s (NsSegmentAddress bid)).
Proof.
  rewrite add_seg_closed. cbn [regl]. rewrite <- get_board_some_iff. unfold bget.
  destruct (byte_ok (sg_addr e)); [|split; [intros (? & ?); discriminate | intros (? & _); discriminate]].
  destruct (get_board bid s) as [b|]; [|split; [intros (? & ?); discriminate | intros (_ & (? & ?) & _); discriminate]].
  assert (X : existsb (fun m => snd m =? val (sg_addr e)) (bd_sg b) = true <-> In [val (sg_addr e)] (sgaddr_of b)).
  { unfold sgaddr_of. apply existsb_In_map. intro m0. rewrite N.eqb_eq. split; intro G0; [rewrite G0; reflexivity | injection G0; auto]. }
  destruct (_ || _) eqn:E.
  - split; [intros (? & ?); discriminate|]. intros (_ & _ & H1 & H2). exfalso. apply orb_true_iff in E as [E|E].
    + apply X in E. tauto.
    + apply H1. apply mem_str_In. exact E.
  - apply or_false_iff_and in E as [E1 E2]. split; [intros _ | eauto]. repeat split; eauto.
    + apply mem_str_false. exact E2.
    + intro Q. apply X in Q. congruence.
Qed.

Lemma seg_step_reg bid s e s' : add_seg bid s e = Some s' ->
  forall ns k, In k (regl s' ns) <-> In k (regl s ns) \/ In (ns, k) (claims (SSeg bid e)).
Proof.
  rewrite add_seg_closed. destruct (byte_ok (sg_addr e)); [|discriminate].
  destruct (get_board bid s) as [b0|] eqn:Hb; [|discriminate].
  destruct (_ || _); [discriminate|]. intros [= <-] ns k.
  destruct ns; try solve [regsame].
  cbn [regl claims In].
  rewrite (bget_upd bid board (fun b => bset_sg b (bd_sg b ++ [(sg_id e, val (sg_addr e))])) sgaddr_of _ b0 [[val (sg_addr e)]]); [| reflexivity | exact Hb |].
  - cbn [In]. intuition (try congruence; try discriminate); try (subst; right; right; left; reflexivity).
  - intros b k0. unfold sgaddr_of. cbn. rewrite !map_app, !in_app_iff. cbn. tauto.
Qed.

(* ------------------------------------------------------------------ reverser *)
Lemma rev_step_iff bid s e :
  (exists s', add_rev bid s e = Some s') <->
  In bid (regl s NsBoardId) /\ ~ In (rv_id e) (regl s NsReverserId) /\ ~ In (rv_cv e) (regl s (NsCv bid)).
Proof.
  rewrite add_rev_closed. cbn [regl]. rewrite <- get_board_some_iff. unfold bget.
  destruct (get_board bid s) as [b|]; [|split; [intros (? & ?); discriminate | intros ((? & ?) & _); discriminate]].
  assert (X : existsb (fun m => str_eqb (snd m) (rv_cv e)) (bd_rv b) = true <-> In (rv_cv e) (cv_of b)).
  { unfold cv_of. apply existsb_In_map. intro m0. apply str_eqb_eq. }
  destruct (_ || _) eqn:E.
  - split; [intros (? & ?); discriminate|]. intros (_ & H1 & H2). exfalso. apply orb_true_iff in E as [E|E].
    + apply X in E. tauto.
    + apply H1. apply mem_str_In. exact E.
  - apply or_false_iff_and in E as [E1 E2]. split; [intros _ | eauto]. repeat split; eauto.
    + apply mem_str_false. exact E2.
    + intro Q. apply X in Q. congruence.
Qed.

Lemma rev_step_reg bid s e s' : add_rev bid s e = Some s' ->
  forall ns k, In k (regl s' ns) <-> In k (regl s ns) \/ In (ns, k) (claims (SRev bid e)).
Proof.
  rewrite add_rev_closed. destruct (get_board bid s) as [b0|] eqn:Hb; [|discriminate].
  destruct (_ || _); [discriminate|]. intros [= <-] ns k.
  destruct ns; try solve [regsame].
  cbn [regl claims In].
  rewrite (bget_upd bid board (fun b => bset_rv b (bd_rv b ++ [(rv_id e, rv_cv e)])) cv_of _ b0 [rv_cv e]); [| reflexivity | exact Hb |].
  - cbn [In]. intuition (try congruence; try discriminate); try (subst; right; right; left; reflexivity).
  - intros b k0. unfold cv_of. cbn. rewrite !map_app, !in_app_iff. cbn. tauto.
Qed.

(* ------------------------------------------------------------------ train *)
Lemma train_step_iff s t :
  (exists s', add_train s t = Some s') <->
  train_ok t = true /\ ~ In (t_id t) (regl s NsTrainId) /\ ~ In (word (t_addr t)) (regl s NsDccAddress).
Proof.
  rewrite add_train_closed.
  destruct (train_ok t) eqn:Ok; [|split; [intros (? & ?); discriminate | intros (? & _); discriminate]].
  assert (W : word (t_addr t) = enc (pairv (t_addr t))).
  { apply word_enc. unfold train_ok in Ok. rewrite !andb_true_iff in Ok. tauto. }
  rewrite W.
  assert (X : existsb (fun x => str_eqb (tr_id x) (t_id t)) (trains s) = true <-> In (t_id t) (regl s NsTrainId)).
  { cbn [regl]. apply existsb_In_map. intro m0. apply str_eqb_eq. }
  destruct (_ || _) eqn:E.
  - split; [intros (? & ?); discriminate|]. intros (_ & H1 & H2). exfalso. apply orb_true_iff in E as [E|E].
    + apply H2. apply dcc_in_use_iff. exact E.
    + apply X in E. tauto.
  - apply or_false_iff_and in E as [E1 E2]. split; [intros _ | eauto]. repeat split; eauto.
    + intro Q. apply X in Q. congruence.
    + intro Q. apply dcc_in_use_iff in Q. congruence.
Qed.

Lemma train_step_reg s t s' : add_train s t = Some s' ->
  forall ns k, In k (regl s' ns) <-> In k (regl s ns) \/ In (ns, k) (claims (STrain t)).
Proof.
  rewrite add_train_closed. destruct (train_ok t) eqn:Ok; [|discriminate].
  assert (W : word (t_addr t) = enc (pairv (t_addr t))).
  { apply word_enc. unfold train_ok in Ok. rewrite !andb_true_iff in Ok. tauto. }
  destruct (_ || _); [discriminate|]. cbv zeta. intros [= <-] ns k.
  destruct ns; cbn [regl boards ptb ptd sgb sgd pes segs revs trains claims In bget get_board];
    rewrite ?map_app, ?in_app_iff; cbn [map In tr_id tr_addr]; rewrite ?W; intuition (try congruence; try discriminate).
Qed.

(* ------------------------------------------------------------------ board *)
Lemma board_step_iff s b :
  (exists s', add_board_entry s b = Some s') <->
  board_entry_ok b = true /\ ~ In (b_id b) (regl s NsBoardId) /\ ~ In (uid (b_uid b)) (regl s NsUniqueId).
Proof.
  rewrite add_board_closed.
  destruct (board_entry_ok b); [|split; [intros (? & ?); discriminate | intros (? & _); discriminate]].
  assert (X : existsb (fun x => str_eqb (bd_id x) (b_id b) || str_eqb (bd_uid x) (uid (b_uid b))) (boards s) = true <->
              In (b_id b) (regl s NsBoardId) \/ In (uid (b_uid b)) (regl s NsUniqueId)).
  { cbn [regl]. rewrite existsb_exists, !in_map_iff. split.
    - intros (m0 & Hin & H). apply orb_true_iff in H as [H|H]; apply str_eqb_eq in H; [left | right]; exists m0; auto.
    - intros [(m0 & H & Hin) | (m0 & H & Hin)]; exists m0; split; auto; apply orb_true_iff; [left | right]; apply str_eqb_eq; exact H. }
  destruct (existsb _ (boards s)) eqn:E.
  - split; [intros (? & ?); discriminate|]. intros (_ & H1 & H2). exfalso. assert (Q : true = true) by reflexivity. apply X in Q. tauto.
  - split; [intros _ | eauto]. assert (~ (In (b_id b) (regl s NsBoardId) \/ In (uid (b_uid b)) (regl s NsUniqueId))) by (intro Q; apply X in Q; discriminate).
    tauto.
Qed.

Lemma bget_app_new bid' s s' nb g :
  boards s' = boards s ++ [nb] -> g nb = [] -> bget bid' s' g = bget bid' s g.
Proof.
  intros Hb Hg. unfold bget, get_board. rewrite Hb. destruct (find _ (boards s)) as [b|] eqn:E.
  - rewrite (find_app_some _ _ _ _ E). reflexivity.
  - rewrite (find_app_none _ _ _ E). cbn. destruct (str_eqb (bd_id nb) bid'); [exact Hg | reflexivity].
Qed.

Lemma board_step_reg s b s' : add_board_entry s b = Some s' ->
  forall ns k, In k (regl s' ns) <-> In k (regl s ns) \/ In (ns, k) (claims (SBoard b)).
Proof.
  rewrite add_board_closed. destruct (board_entry_ok b); [|discriminate].
  destruct (existsb _ (boards s)); [discriminate|]. intros [= <-] ns k.
  destruct ns; cbn [regl boards ptb ptd sgb sgd pes segs revs trains claims In];
    try (erewrite bget_app_new; [| cbn [boards]; reflexivity | reflexivity]);
    rewrite ?flat_map_app, ?map_app, ?in_app_iff; cbn [map In flat_map dcc_of bd_pd bd_sd app bd_id bd_uid];
    intuition (try congruence; try discriminate).
Qed.

(* ------------------------------------------------------------------ all entries *)
Theorem step_iff s x : (exists s', run_step s x = Ok s') <-> exact_ok x = true /\ ctx s x /\ fresh s x.
Proof.
  unfold ctx, fresh, exact_ok. destruct x; cbn [run_step board_of claims entry_ok].
  - (* board *)
    assert (L : (exists s', lift (add_board_entry s b) = Ok s') <-> (exists s', add_board_entry s b = Some s')).
    { destruct (add_board_entry s b); cbn; split; intros (x & H); try discriminate; eauto. }
    rewrite L, board_step_iff. unfold board_entry_ok. split.
    + intros (A & B & C). repeat split; auto; [discriminate|]. intros c [<-|[<-|[]]]; assumption.
    + intros (A & _ & C). repeat split; auto; [apply (C (NsBoardId, b_id b)) | apply (C (NsUniqueId, uid (b_uid b)))]; cbn; auto.
  - (* setup header *)
    change (regl s NsBoardId) with (map bd_id (boards s)). split.
    + intros (s' & H). destruct (get_board bid s) as [b|] eqn:E; [|discriminate].
      split; [reflexivity|]. split; [intros bid' [= <-]; apply get_board_some_iff; eauto | intros c []].
    + intros (_ & H & _). specialize (H bid eq_refl). apply get_board_some_iff in H as (b & ->). cbn. eauto.
  - assert (L : (exists s', lift (add_bacc pt bid s e) = Ok s') <-> (exists s', add_bacc pt bid s e = Some s')).
    { destruct (add_bacc pt bid s e); cbn; split; intros (x & H); try discriminate; eauto. }
    rewrite L, bacc_step_iff. unfold bacc_ok. split.
    + intros (A & B & C & D). repeat split; auto; [intros bid' [= <-]; exact B|]. intros c [<-|[<-|[]]]; [destruct pt|]; assumption.
    + intros (A & B & C). repeat split; auto; [apply (C (nsp pt, ba_id e)) | apply (C (NsAccessoryNumber bid, [val (ba_num e)]))]; cbn; destruct pt; auto.
  - assert (L : (exists s', lift (add_dacc pt bid s e) = Ok s') <-> (exists s', add_dacc pt bid s e = Some s')).
    { destruct (add_dacc pt bid s e); cbn; split; intros (x & H); try discriminate; eauto. }
    rewrite L, dacc_step_iff. unfold dacc_exact_ok. split.
    + intros (A & B & C & D). repeat split; auto; [intros bid' [= <-]; exact B|]. intros c [<-|[<-|[]]]; [destruct pt|]; assumption.
    + intros (A & B & C). repeat split; auto; [apply (C (nsp pt, dc_id e)) | apply (C (NsDccAddress, word (dc_addr e)))]; cbn; destruct pt; auto.
  - assert (L : (exists s', lift (add_periph bid s e) = Ok s') <-> (exists s', add_periph bid s e = Some s')).
    { destruct (add_periph bid s e); cbn; split; intros (x & H); try discriminate; eauto. }
    rewrite L, periph_step_iff. unfold periph_ok. split.
    + intros (A & B & C & D & E). repeat split; auto; [intros bid' [= <-]; exact B|]. intros c [<-|[<-|[<-|[]]]]; assumption.
    + intros (A & B & C). repeat split; auto;
        [apply (C (NsPeripheralId, p_id e)) | apply (C (NsPeripheralNumber bid, [val (p_num e)])) | apply (C (NsPeripheralPort bid, word (p_port e)))]; cbn; auto.
  - assert (L : (exists s', lift (add_seg bid s e) = Ok s') <-> (exists s', add_seg bid s e = Some s')).
    { destruct (add_seg bid s e); cbn; split; intros (x & H); try discriminate; eauto. }
    rewrite L, seg_step_iff. split.
    + intros (A & B & C & D). repeat split; auto; [intros bid' [= <-]; exact B|]. intros c [<-|[<-|[]]]; assumption.
    + intros (A & B & C). repeat split; auto; [apply (C (NsSegmentId, sg_id e)) | apply (C (NsSegmentAddress bid, [val (sg_addr e)]))]; cbn; auto.
  - assert (L : (exists s', lift (add_rev bid s e) = Ok s') <-> (exists s', add_rev bid s e = Some s')).
    { destruct (add_rev bid s e); cbn; split; intros (x & H); try discriminate; eauto. }
    rewrite L, rev_step_iff. split.
    + intros (B & C & D). repeat split; auto; [intros bid' [= <-]; exact B|]. intros c [<-|[<-|[]]]; assumption.
    + intros (_ & B & C). repeat split; auto; [apply (C (NsReverserId, rv_id e)) | apply (C (NsCv bid, rv_cv e))]; cbn; auto.
  - assert (L : (exists s', lift (add_train s t) = Ok s') <-> (exists s', add_train s t = Some s')).
    { destruct (add_train s t); cbn; split; intros (x & H); try discriminate; eauto. }
    rewrite L, train_step_iff. unfold train_ok. split.
    + intros (A & B & C). repeat split; auto; [discriminate|]. intros c [<-|[<-|[]]]; assumption.
    + intros (A & _ & C). repeat split; auto; [apply (C (NsTrainId, t_id t)) | apply (C (NsDccAddress, word (t_addr t)))]; cbn; auto.
Qed.

Theorem step_reg s x s' : run_step s x = Ok s' ->
  forall ns k, In k (regl s' ns) <-> In k (regl s ns) \/ In (ns, k) (claims x).
Proof.
  destruct x; cbn [run_step]; intro H; try apply lift_ok in H.
  - exact (board_step_reg s b s' H).
  - destruct (get_board bid s); cbn in H; [|discriminate]. injection H as <-. intros ns k. cbn. tauto.
  - exact (bacc_step_reg pt bid s e s' H).
  - exact (dacc_step_reg pt bid s e s' H).
  - exact (periph_step_reg bid s e s' H).
  - exact (seg_step_reg bid s e s' H).
  - exact (rev_step_reg bid s e s' H).
  - exact (train_step_reg s t s' H).
Qed.

(* ------------------------------------------------------------------ equality of claims *)
Lemma ns_eqb_eq a b : ns_eqb a b = true <-> a = b.
Proof.
  destruct a, b; cbn; try (split; [discriminate | intro H; discriminate H]); try (split; reflexivity);
    rewrite str_eqb_eq; split; intro H; [subst; reflexivity | injection H; auto | subst; reflexivity | injection H; auto
                                         | subst; reflexivity | injection H; auto | subst; reflexivity | injection H; auto | subst; reflexivity | injection H; auto].
Qed.

Lemma claim_eqb_eq a b : claim_eqb a b = true <-> a = b.
Proof.
  destruct a as [n1 k1], b as [n2 k2]. unfold claim_eqb. cbn. rewrite andb_true_iff, ns_eqb_eq, str_eqb_eq.
  split; [intros [-> ->]; reflexivity | intro H; injection H; auto].
Qed.

Definition memc (c : claim) (l : list claim) : bool := existsb (claim_eqb c) l.
Lemma memc_In c l : memc c l = true <-> In c l.
Proof.
  unfold memc. rewrite existsb_exists. split.
  - intros (x & Hin & H). apply claim_eqb_eq in H. subst. exact Hin.
  - intro H. exists c. split; [exact H | apply claim_eqb_eq; reflexivity].
Qed.
Lemma memc_false c l : memc c l = false <-> ~ In c l.
Proof. rewrite <- memc_In. destruct (memc c l); split; intro H; try congruence; try (exfalso; apply H; reflexivity). Qed.

Lemma NoDup_app_iff {A} (l1 l2 : list A) : NoDup (l1 ++ l2) <-> NoDup l1 /\ NoDup l2 /\ (forall x, In x l1 -> ~ In x l2).
Proof.
  induction l1 as [|a l1 IH]; cbn.
  - split; [intro H; repeat split; [constructor | exact H | tauto] | tauto].
  - split.
    + intro H. inversion H as [|? ? Hn Hd]; subst. apply IH in Hd as (H1 & H2 & H3). repeat split; auto.
      * constructor; [|exact H1]. intro Q. apply Hn. apply in_or_app. left. exact Q.
      * intros x [<-|Hx]; [intro Q; apply Hn; apply in_or_app; right; exact Q | apply H3; exact Hx].
    + intros (H1 & H2 & H3). inversion H1 as [|? ? Hn Hd]; subst. constructor.
      * intro Q. apply in_app_or in Q as [Q|Q]; [tauto | apply (H3 a); auto].
      * apply IH. repeat split; auto.
Qed.

Lemma nodupb_NoDup (l : list claim) : nodupb claim_eqb l = true <-> NoDup l.
Proof.
  unfold nodupb. induction l as [|a l IH]; cbn.
  - split; [constructor | reflexivity].
  - rewrite andb_true_iff, IH, forallb_forall. split.
    + intros [H1 H2]. constructor; [|exact H2]. intro Q. specialize (H1 a Q). apply negb_true_iff in H1.
      assert (claim_eqb a a = true) by (apply claim_eqb_eq; reflexivity). congruence.
    + intro H. inversion H as [|? ? Hn Hd]; subst. split; [|exact Hd]. intros x Hx. apply negb_true_iff.
      destruct (claim_eqb a x) eqn:E; [|reflexivity]. apply claim_eqb_eq in E. subst. contradiction.
Qed.

Lemma claims_nodup x : NoDup (claims x).
Proof.
  apply nodupb_NoDup. destruct x; try destruct pt; reflexivity.
Qed.

(* ------------------------------------------------------------------ the loader accepts an entry list  <->  a recursive condition on what was claimed before *)
Definition Reg (s : st) (c : claim) : Prop := In (snd c) (regl s (fst c)).

Fixpoint okP (reg : claim -> Prop) (es : list step) : Prop :=
  match es with
  | [] => True
  | x :: t => exact_ok x = true /\ (forall bid, board_of x = Some bid -> reg (NsBoardId, bid)) /\
              (forall c, In c (claims x) -> ~ reg c) /\ okP (fun c => reg c \/ In c (claims x)) t
  end.

Lemma okP_ext es : forall r1 r2, (forall c, r1 c <-> r2 c) -> okP r1 es <-> okP r2 es.
Proof.
  induction es as [|x t IH]; intros r1 r2 H; cbn; [tauto|].
  rewrite (IH (fun c => r1 c \/ In c (claims x)) (fun c => r2 c \/ In c (claims x))) by (intro c; rewrite H; tauto).
  split; intros (A & B & C & D); repeat split; auto; try (intros; apply H; auto); intros c Hc Q; apply (C c Hc); apply H; exact Q.
Qed.

Theorem fold_okP es : forall s, (exists s', fold_res run_step es s = Ok s') <-> okP (Reg s) es.
Proof.
  induction es as [|x t IH]; intro s; cbn [fold_res okP].
  - split; [tauto | eauto].
  - split.
    + intros (s' & H). destruct (run_step s x) as [s1| |k] eqn:E; try discriminate.
      assert (Q : exists s1, run_step s x = Ok s1) by eauto. apply step_iff in Q as (A & B & C).
      repeat split; auto.
      * apply (okP_ext t (Reg s1)); [|apply IH; eauto]. intros [ns k]. unfold Reg. cbn. apply (step_reg s x s1 E).
    + intros (A & B & C & D). assert (Q : exists s1, run_step s x = Ok s1) by (apply step_iff; repeat split; auto).
      destruct Q as (s1 & E). rewrite E. apply IH. apply (okP_ext t (fun c => Reg s c \/ In c (claims x))); [|exact D].
      intros [ns k]. unfold Reg. cbn. symmetry. apply (step_reg s x s1 E).
Qed.

(* ------------------------------------------------------------------ the recursive condition, started from nothing, as three facts about the whole list *)
Fixpoint ctxs (seen : list claim) (es : list step) : Prop :=
  match es with
  | [] => True
  | x :: t => (forall bid, board_of x = Some bid -> In (NsBoardId, bid) seen) /\ ctxs (seen ++ claims x) t
  end.

Lemma okP_list es : forall seen,
  okP (fun c => In c seen) es <->
  forallb exact_ok es = true /\ ctxs seen es /\ (forall c, In c (flat_map claims es) -> ~ In c seen) /\ NoDup (flat_map claims es).
Proof.
  induction es as [|x t IH]; intro seen; cbn [okP forallb ctxs flat_map].
  - split; [intros _; repeat split; [tauto | constructor] | tauto].
  - rewrite (okP_ext t (fun c => In c seen \/ In c (claims x)) (fun c => In c (seen ++ claims x))) by (intro c; rewrite in_app_iff; tauto).
    rewrite IH, andb_true_iff, NoDup_app_iff. split.
    + intros (A & B & C & D & E & F & G). repeat split; auto.
      * intros c Hc. apply in_app_or in Hc as [Hc|Hc]; [apply C; exact Hc|]. intro Q. apply (F c Hc). apply in_or_app. left. exact Q.
      * apply claims_nodup.
      * intros c Hc Q. apply (F c Q). apply in_or_app. right. exact Hc.
    + intros ((A & D) & (B & E) & F & (G1 & G2 & G3)). repeat split; auto.
      * intros c Hc. apply F. apply in_or_app. left. exact Hc.
      * intros c Hc Q. apply in_app_or in Q as [Q|Q]; [apply (F c); [apply in_or_app; right; exact Hc | exact Q] | apply (G3 c Q Hc)].
Qed.

(* boards are declared before they are used: for an entry list in which every board entry precedes every other entry,
   "declared somewhere" and "declared earlier" coincide *)
Definition is_board (x : step) : bool := match x with SBoard _ => true | _ => false end.
Fixpoint boards_first (es : list step) : bool :=
  match es with [] => true | x :: t => if is_board x then boards_first t else forallb (fun y => negb (is_board y)) t end.

Lemma declared_none es : forallb (fun y => negb (is_board y)) es = true -> declared_boards es = [].
Proof. induction es as [|x t IH]; cbn; [reflexivity|]. destruct x; cbn; try discriminate; exact IH. Qed.

Lemma in_board_claims bid es : In (NsBoardId, bid) (flat_map claims es) <-> In bid (declared_boards es).
Proof.
  induction es as [|x t IH]; cbn; [tauto|]. rewrite !in_app_iff, IH.
  destruct x; try destruct pt; cbn; intuition (try congruence; try discriminate).
Qed.

Lemma ctxs_declared es : forall seen, boards_first es = true ->
  (ctxs seen es <-> forall x, In x es -> forall bid, board_of x = Some bid -> In (NsBoardId, bid) seen \/ In bid (declared_boards es)).
Proof.
  induction es as [|x t IH]; intros seen Hb; cbn [ctxs].
  - split; [intros _ x [] | tauto].
  - cbn [boards_first] in Hb. destruct (is_board x) eqn:Ex.
    + (* a board entry: no board requirement of its own *)
      destruct x; try discriminate. rewrite (IH _ Hb). cbn [board_of declared_boards flat_map app]. split.
      * intros [_ H] y [<-|Hy] bid Hbid; [discriminate|]. destruct (H y Hy bid Hbid) as [Q|Q]; [|right; right; exact Q].
        apply in_app_or in Q as [Q|Q]; [left; exact Q|]. cbn in Q. destruct Q as [Q|[Q|[]]]; [|discriminate]. right. left. congruence.
      * intro H. split; [discriminate|]. intros y Hy bid Hbid. destruct (H y (or_intror Hy) bid Hbid) as [Q|[Q|Q]]; [left; apply in_or_app; left; exact Q | | right; exact Q].
        left. apply in_or_app. right. left. congruence.
    + (* no board entry from here on *)
      assert (D : declared_boards (x :: t) = []) by (apply declared_none; cbn; rewrite Ex; exact Hb).
      rewrite D. assert (Dt : declared_boards t = []) by (apply declared_none; exact Hb).
      assert (G : forall seen', (forall c, In c seen' -> In c seen \/ fst c <> NsBoardId) -> (forall c, In c seen -> In c seen') ->
                  (ctxs seen' t <-> forall y, In y t -> forall bid, board_of y = Some bid -> In (NsBoardId, bid) seen)).
      { clear IH D. induction t as [|y t IHt]; intros seen' H1 H2; cbn [ctxs]; [split; [intros _ y [] | tauto]|].
        cbn in Hb. apply andb_true_iff in Hb as [Hy Ht]. cbn in Dt. assert (Dt' : declared_boards t = []) by (destruct y; try discriminate; exact Dt).
        rewrite (IHt Ht Dt' (seen' ++ claims y)).
        - split.
          + intros [A B] z [<-|Hz] bid Hbid; [|apply (B z Hz bid Hbid)]. destruct (H1 _ (A bid Hbid)) as [Q|Q]; [exact Q | exfalso; apply Q; reflexivity].
          + intro H. split; [intros bid Hbid; apply H2; apply (H y (or_introl eq_refl) bid Hbid) | intros z Hz; apply H; right; exact Hz].
        - intros c Hc. apply in_app_or in Hc as [Hc|Hc]; [apply H1; exact Hc|]. right.
          destruct y; try discriminate; try destruct pt; cbn in Hc; intuition (subst; cbn; discriminate).
        - intros c Hc. apply in_or_app. left. apply H2. exact Hc. }
      rewrite (G (seen ++ claims x)).
      * split.
        -- intros [A B] y [<-|Hy] bid Hbid; [left; apply A; exact Hbid | left; apply (B y Hy bid Hbid)].
        -- intro H. split; [intros bid Hbid; destruct (H x (or_introl eq_refl) bid Hbid) as [Q|[]]; exact Q
                           | intros y Hy bid Hbid; destruct (H y (or_intror Hy) bid Hbid) as [Q|[]]; exact Q].
      * intros c Hc. apply in_app_or in Hc as [Hc|Hc]; [left; exact Hc|]. right.
        destruct x; try discriminate; try destruct pt; cbn in Hc; intuition (subst; cbn; discriminate).
      * intros c Hc. apply in_or_app. left. exact Hc.
Qed.

Lemma regl_st0 ns : regl st0 ns = [].
Proof. destruct ns; reflexivity. Qed.

Lemma board_declared_iff es : forallb (board_declared es) es = true <->
  forall x, In x es -> forall bid, board_of x = Some bid -> In (NsBoardId, bid) [] \/ In bid (declared_boards es).
Proof.
  rewrite forallb_forall. unfold board_declared. split.
  - intros H x Hx bid Hbid. right. specialize (H x Hx). rewrite Hbid in H. apply mem_str_In. exact H.
  - intros H x Hx. destruct (board_of x) as [bid|] eqn:E; [|reflexivity]. apply mem_str_In. destruct (H x Hx bid E) as [[]|Q]. exact Q.
Qed.

Theorem entries_iff es : boards_first es = true ->
  ((exists s', fold_res run_step es st0 = Ok s') <-> wf_entries es = true).
Proof.
  intro Hb. rewrite fold_okP.
  rewrite (okP_ext es (Reg st0) (fun c => In c [])) by (intros [ns k]; unfold Reg; cbn [fst snd]; rewrite regl_st0; tauto).
  rewrite okP_list, (ctxs_declared es [] Hb), <- board_declared_iff, <- nodupb_NoDup.
  unfold wf_entries. rewrite !andb_true_iff.
  assert (E : forallb exact_ok es = forallb entry_ok es) by reflexivity. rewrite E. split.
  - intros (A & C & _ & D). tauto.
  - intros ((A & C) & D). repeat split; auto.
Qed.

Lemma boards_first_steps d : boards_first (steps d) = true.
Proof.
  unfold steps. induction (d_boards d) as [|b l IH]; cbn; [|exact IH].
  assert (N : forallb (fun y => negb (is_board y)) (flat_map setup_steps (d_track d) ++ map STrain (d_trains d)) = true).
  { apply forallb_forall. intros x Hx. apply in_app_or in Hx as [Hx|Hx].
    - destruct x; try reflexivity. exfalso. exact (no_board_in_setups b _ Hx).
    - apply in_map_iff in Hx as (t & <- & _). reflexivity. }
  destruct (flat_map setup_steps (d_track d) ++ map STrain (d_trains d)) as [|x r]; [reflexivity|].
  cbn in N. apply andb_true_iff in N as [N1 N2]. cbn. destruct (is_board x); [discriminate | exact N2].
Qed.

(* the loader accepts exactly the well-formed and unambiguous documents *)
Theorem accept_iff d : (exists s, parse3 d = Ok s) <-> wf_doc3 d = true.
Proof. rewrite parse3_steps. apply entries_iff. apply boards_first_steps. Qed.

Theorem rejects_illformed d : wf_doc3 d = false -> parse3 d = Rej.
Proof.
  intro H. destruct (parse3 d) as [s| |k] eqn:E; [|reflexivity|exfalso; exact (no_fault d k E)].
  assert (Q : exists s, parse3 d = Ok s) by eauto. apply accept_iff in Q. congruence.
Qed.

Theorem accepts_wellformed d : wf_doc3 d = true -> exists s, parse3 d = Ok s.
Proof. intro H. apply accept_iff. exact H. Qed.

Theorem accept_bool_iff d : accept d = wf_doc3 d.
Proof.
  unfold accept. destruct (wf_doc3 d) eqn:W.
  - destruct (accepts_wellformed d W) as (s & ->). reflexivity.
  - rewrite (rejects_illformed d W). reflexivity.
Qed.
