(* Properties_C12.v — C12: no received byte stream causes out-of-bounds access, a crash or a stuck receiver.
   Framing layer (byte loop, packet buffer, CRC, packet split, field extraction): every memory access of the model
   carries its bound, faults are explicit values, shown unreachable for every byte stream.
   Dispatcher layer (after the fix commits of notes/C12-after-fix): the length guard, the per-type minimum, the fixed
   offsets, the locally guarded reads, the pointers handed on, the reads of the intern-queue readers and the string
   table indices are GENERATED from the source (AccessTab.v); behind the guard every such access is inside the
   message copy, for every type code and every message; a message failing the guard is dropped without any access.
   The variable-length handlers that receive a pointer are hand-written total functions with explicit faults
   (Handlers.v), shown fault-free for every content; they are tied to the code by the extent comparison of
   checks/C12.py. *)
From Coq Require Import List NArith ZArith Bool Arith.
From LB Require Import Tables Framing FramingProofs NodeFlow Rx RxProofs RxSafety AccessTab AccessModel AccessProofs Handlers HandlersProofs.
From Coq Require String.
Import String.StringSyntax.
Import ListNotations.
Local Open Scope N_scope.

(* ------------------------------------------------------------------ framing layer *)
(* for every byte stream and every starting state the packet buffer index stays within its 256 bytes *)
Theorem C12_packet_buffer_never_overrun : forall bytes s,
  nlen (r_buf s) <= rx_buf_size -> nlen (r_buf (fst (rx_run s bytes))) <= rx_buf_size.
Proof. exact rx_run_bound. Qed.
Print Assumptions C12_packet_buffer_never_overrun.

(* a message that passed the receiver's validation is parsed with every read inside its heap copy
   and the address written inside the 4-byte address buffer *)
Theorem C12_extraction_in_bounds : forall alloc m, valid_msg alloc m = true -> exists x, parse_msg alloc m = inr x.
Proof. exact valid_parse_ok. Qed.
Print Assumptions C12_extraction_in_bounds.

(* no byte stream whatsoever - noise, truncated or oversized packets, CRC-valid packets with
   inconsistent length fields, unterminated or over-deep address stacks - produces a fault in the
   framing layer *)
Theorem C12_framing_never_faults : forall bytes s, no_fault (snd (rx_run s bytes)).
Proof. exact rx_run_no_fault. Qed.
Print Assumptions C12_framing_never_faults.

(* not stuck: from any state, a delimiter followed by a well-formed packet delivers that packet *)
Theorem C12_live : forall s p, p <> [] -> nlen p < rx_buf_size ->
  exists pre, rx_run s (pkt_magic :: frame p) = (rx_fresh, pre ++ deliver_packet p).
Proof. exact rx_live. Qed.
Print Assumptions C12_live.

(* ------------------------------------------------------------------ dispatcher layer *)
(* for EVERY type code and EVERY message copy that passes the generated guard
   data_length >= bidib_min_data_length(type): every access of that type's case - fixed offsets
   message[data_index + k], reads under a local length test, pointers &message[data_index + k] handed on, constant
   indices, message[message[0]], the hex dump - and of the static helpers it calls lies inside the message *)
Theorem C12_guarded_dispatch_in_bounds : forall m ty acc,
  msg_ok m = true -> dispatch m ty = OHandled acc -> Forall (fun a => in_bounds m a = true) acc.
Proof. exact dispatch_in_bounds. Qed.
Print Assumptions C12_guarded_dispatch_in_bounds.

(* a message with fewer data bytes than its type's minimum is dropped: nothing of it is accessed *)
Theorem C12_short_message_dropped : forall m ty,
  (data_length m < Z.of_nat (min_data ty))%Z -> dispatch m ty = ODropped.
Proof. exact short_dropped. Qed.
Print Assumptions C12_short_message_dropped.

(* ... and reaches none of the variable-length handlers *)
Theorem C12_dropped_reaches_no_handler : forall e m ty, dispatch m ty = ODropped -> handle_var e m ty = Done [].
Proof. exact handle_var_dropped. Qed.
Print Assumptions C12_dropped_reaches_no_handler.

(* end to end: for every byte stream, every message the receiver hands to the dispatcher is accessed in bounds *)
Theorem C12_stream_dispatch_in_bounds : forall bytes s x acc,
  In (Delivered x) (snd (rx_run s bytes)) -> dispatch (m_raw x) (m_type x) = OHandled acc ->
  Forall (fun a => in_bounds (m_raw x) a = true) acc.
Proof. exact stream_dispatch_in_bounds. Qed.
Print Assumptions C12_stream_dispatch_in_bounds.

(* the guard drops nothing the protocol needs: a message built with at least the minimum of data bytes passes *)
Theorem C12_guard_keeps_complete_messages : forall a3 sq ty data m,
  encode_msg a3 sq ty data = Some m -> (min_data ty <= length data)%nat ->
  guard_ok m ty = true /\ (data <> [] -> data_length m = Z.of_nat (length data)).
Proof. exact guard_complete. Qed.
Print Assumptions C12_guard_keeps_complete_messages.

(* the library's own readers of the intern queue (node table, features) read inside the messages they find there:
   only messages that passed the guard are queued *)
Theorem C12_intern_queue_readers_in_bounds : forall m ty,
  msg_ok m = true -> guard_ok m ty = true -> Forall (fun a => in_bounds m a = true) (consumer_accesses m ty).
Proof. exact consumer_in_bounds. Qed.
Print Assumptions C12_intern_queue_readers_in_bounds.

(* every index into a string table on the receive path is below the table's number of entries *)
Theorem C12_string_tables_in_bounds : forall name size maxidx,
  In (name, size, maxidx) table_uses -> (maxidx < size)%nat.
Proof. exact string_tables_in_bounds. Qed.
Print Assumptions C12_string_tables_in_bounds.

(* the callees that receive a pointer into the message are exactly the modelled ones, at the modelled offsets *)
Theorem C12_pointer_handlers_modelled :
  ptr_tab = [(MSG_VENDOR, [(0%nat, "bidib_state_vendor"%string)]);
             (MSG_BM_MULTIPLE, [(2%nat, "bidib_state_bm_multiple"%string); (2%nat, "bidib_send_bm_mirror_multiple"%string)]);
             (MSG_BM_ADDRESS, [(1%nat, "bidib_state_bm_address"%string)]);
             (MSG_BOOST_DIAGNOSTIC, [(0%nat, "bidib_state_boost_diagnostic"%string)])].
Proof. exact ptr_tab_as_modelled. Qed.
Print Assumptions C12_pointer_handlers_modelled.

(* ------------------------------------------------------------------ variable-length handlers (every content) *)
Theorem C12_vendor_never_faults : forall len t, (len <= length t)%nat -> exists r, vendor_h len t = Done r.
Proof. exact vendor_safe. Qed.
Print Assumptions C12_vendor_never_faults.

Theorem C12_bm_multiple_never_faults : forall secack number size avail t,
  (avail <= length t)%nat -> exists r, multiple_h secack number size avail t = Done r.
Proof. exact multiple_safe. Qed.
Print Assumptions C12_bm_multiple_never_faults.

Theorem C12_bm_address_never_faults : forall known had count t,
  (2 * count <= length t)%nat -> exists r, address_h known had count t = Done r.
Proof. exact address_safe. Qed.
Print Assumptions C12_bm_address_never_faults.

Theorem C12_boost_diagnostic_never_faults : forall booster len t,
  (len <= length t)%nat -> exists r, diag_h booster len t = Done r.
Proof. exact diag_safe. Qed.
Print Assumptions C12_boost_diagnostic_never_faults.

(* with the lengths and counts the dispatcher computes: for every message copy, type code and environment, no
   variable-length handler reads outside the message *)
Theorem C12_variable_handlers_never_fault : forall e m ty,
  msg_ok m = true -> hd 0 m < 256 -> exists r, handle_var e m ty = Done r.
Proof. exact handle_var_safe. Qed.
Print Assumptions C12_variable_handlers_never_fault.

Example C12_nonvacuous :
  valid_msg 5 [4; 0; 1; 135; 9] = true /\ valid_msg 1 [0] = false /\ valid_msg 9 [8; 1; 2; 3; 4; 0; 1; 2; 3] = false /\
  snd (rx_run rx_init (254 :: repeat 65 300 ++ [254])) = [Dropped] /\
  min_data MSG_NODE_NEW = 9%nat /\ min_data MSG_BM_DYN_STATE = 5%nat /\ min_data MSG_SYS_PONG = 0%nat /\
  (* MSG_CS_DRIVE_ACK with two data bytes: dropped; with three: handled, reading indices 4, 5, 6 *)
  dispatch [5; 0; 7; 226; 1; 2] 226 = ODropped /\
  (exists acc, dispatch [6; 0; 7; 226; 1; 2; 3] 226 = OHandled acc /\ In (ARead 6) acc) /\
  (* a message without data bytes of a type that needs some: data_index = -1, dropped *)
  dispatch [3; 0; 7; 225] 225 = ODropped /\
  (* MSG_VENDOR whose value length points beyond the list: rejected after reading both length bytes, no fault *)
  vendor_h 4 [1; 65; 9; 66] = Done ([0; 2]%nat, false) /\
  vendor_h 5 [1; 65; 2; 66; 67] = Done ([0; 2; 1; 2; 3; 4]%nat, true) /\
  (* the same handler without the message behind it would fault: the fault value is reachable in the model *)
  vendor_h 5 [1; 65; 2; 66] = Fault 4 /\
  multiple_h false 0 16 1 [255] = Done ([], false) /\
  multiple_h false 0 16 2 [255] = Fault 1.
Proof.
  vm_compute. repeat match goal with |- _ /\ _ => split end; try reflexivity.
  eexists. split; [reflexivity|]. right. right. left. reflexivity.
Qed.
