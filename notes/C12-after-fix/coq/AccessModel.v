(* AccessModel.v — C12, dispatcher level: which bytes of a received message bidib_handle_received_message, the static
   log helpers it calls and the readers of the intern queue touch. The length guard, the per-type minimum
   (bidib_min_data_length), the fixed offsets, the locally guarded reads, the pointers handed to the variable-length
   handlers and the string-table indices are GENERATED from the source (AccessTab.v); this file only gives them
   their meaning as index arithmetic. Out-of-range accesses are explicit (in_bounds = false), never defaulted. *)
From Coq Require Import List NArith ZArith Bool Arith.
From Coq Require String.
Import String.StringSyntax.
Delimit Scope string_scope with string.
From LB Require Import Tables Framing Rx AccessTab.
Import ListNotations.
Local Open Scope Z_scope.

Definition lookup {A} (t : list (N * A)) (ty : N) : option A :=
  match find (fun e => N.eqb (fst e) ty) t with Some e => Some (snd e) | None => None end.
Definition lookup_list {A} (t : list (N * list A)) (ty : N) : list A :=
  match lookup t ty with Some l => l | None => [] end.

Definition min_data (ty : N) : nat := match lookup min_tab ty with Some n => n | None => 0%nat end.  (* bidib_min_data_length *)
Definition offsets_of (ty : N) : list nat := lookup_list access_tab ty.
Definition guarded_of (ty : N) : list (nat * nat) := lookup_list guarded_tab ty.
Definition ptrs_of (ty : N) : list (nat * String.string) := lookup_list ptr_tab ty.
Definition abs_of (ty : N) : list nat := lookup_list abs_tab ty.
Definition reads_last (ty : N) : bool := existsb (N.eqb ty) last_tab.
(* a type without a case label takes the default case *)
Definition dumps_whole (ty : N) : bool :=
  if existsb (N.eqb ty) case_labels then existsb (N.eqb ty) whole_tab else default_whole.

(* a message copy as bidib_split_packet hands it on: length byte consistent, validation passed *)
Definition msg_ok (m : list N) : bool := wf_msg m && valid_msg (nlen m) m.

(* int data_index = bidib_first_data_byte_index(message);  (-1: no data byte) *)
Definition data_index (m : list N) : Z :=
  match first_data_index m with Some d => Z.of_nat d | None => -1 end.
(* const int data_length = data_index < 0 ? 0 : message[0] + 1 - data_index; *)
Definition data_length (m : list N) : Z :=
  if data_index m <? 0 then 0 else Z.of_N (hd 0%N m) + 1 - data_index m.
(* if (data_length < bidib_min_data_length(type)) { log; free(message); return; } *)
Definition guard_ok (m : list N) (ty : N) : bool := negb (data_length m <? Z.of_nat (min_data ty)).

Inductive access :=
| ARead (i : Z)          (* message[i] is read *)
| APtr (i : Z).          (* &message[i] is formed and handed to a callee (which reads relative to it: Handlers.v) *)

Definition in_bounds (m : list N) (a : access) : bool :=
  match a with
  | ARead i => (0 <=? i) && (i <? Z.of_nat (length m))
  | APtr i => (0 <=? i) && (i <=? Z.of_nat (length m))      (* one past the end may be formed, not read *)
  end.

(* everything a case of the switch (including its static helpers) accesses in the message *)
Definition case_accesses (m : list N) (ty : N) : list access :=
  let di := data_index m in
  map (fun k => ARead (di + Z.of_nat k)) (offsets_of ty)
  ++ map (fun g => ARead (di + Z.of_nat (fst g)))
         (filter (fun g => Z.of_nat (snd g) <=? data_length m) (guarded_of ty))   (* read only if its local length test holds *)
  ++ map (fun p => APtr (di + Z.of_nat (fst p))) (ptrs_of ty)
  ++ map (fun c => ARead (Z.of_nat c)) (abs_of ty)
  ++ (if reads_last ty then [ARead (Z.of_N (hd 0%N m))] else [])
  ++ (if dumps_whole ty then map (fun i => ARead (Z.of_nat i)) (seq 0 (S (N.to_nat (hd 0%N m)))) else []).

Inductive outcome :=
| ODropped                          (* guard failed: logged, freed, nothing read *)
| OHandled (acc : list access).

(* normal mode (in debug mode the message is queued before data_index is computed: DispatchTab / C06) *)
Definition dispatch (m : list N) (ty : N) : outcome :=
  if guard_ok m ty then OHandled (case_accesses m ty) else ODropped.

(* ---- readers of the intern queue (bidib_state_query_nodetab, bidib_state_set_board_features,
        bidib_communication_works): message[first_data_byte + k] for a message of the tested type *)
Definition consumer_accesses (m : list N) (ty : N) : list access :=
  map (fun k => ARead (data_index m + Z.of_nat k)) (lookup_list consumer_tab ty)
  ++ map (fun c => ARead (Z.of_nat c)) consumer_abs.

(* ---- what has to hold of the generated tables (checked by computation in AccessProofs.v) ---- *)
Definition known_ptr_callees : list String.string :=
  ["bidib_state_vendor"; "bidib_state_bm_multiple"; "bidib_send_bm_mirror_multiple"; "bidib_state_bm_address";
   "bidib_state_boost_diagnostic"]%string.

Definition entry_ok (ty : N) : bool :=
  forallb (fun k => (k <? min_data ty)%nat) (offsets_of ty)
  && forallb (fun g => (fst g <? snd g)%nat && (1 <=? snd g)%nat) (guarded_of ty)
  && forallb (fun p => (fst p <=? min_data ty)%nat && (1 <=? min_data ty)%nat
                       && existsb (String.eqb (snd p)) known_ptr_callees) (ptrs_of ty)
  && forallb (fun c => (c <? 4)%nat) (abs_of ty)
  && forallb (fun k => (k <? min_data ty)%nat) (lookup_list consumer_tab ty).

Definition table_keys : list N :=
  map fst min_tab ++ map fst access_tab ++ map fst guarded_tab ++ map fst ptr_tab ++ map fst abs_tab ++ map fst consumer_tab.

Definition tables_ok : bool :=
  forallb entry_ok table_keys && forallb (fun c => (c <? 4)%nat) consumer_abs.

(* every index into a string table stays below the number of its entries *)
Definition table_uses_ok : bool :=
  forallb (fun u => match u with (_, size, maxidx) => (maxidx <? size)%nat end) table_uses.
