(* Handlers.v — C12: the variable-length handlers that receive a pointer into the message
   (AccessTab.ptr_tab): bidib_state_vendor, bidib_state_bm_multiple / bidib_send_bm_mirror_multiple (with the
   dispatcher's bitmap test), bidib_state_bm_address (+ bidib_state_bm_address_log_changes) and
   bidib_state_boost_diagnostic, as small total functions over the bytes from that pointer to the end of the
   message copy. EVERY read goes through [rd], which faults explicitly when the index is past those bytes; the result
   also lists the indices read, in order, for the extent comparison with the real handlers (checks/C12.py).
   Hand-written from src/state/bidib_state_setter.c, src/lowlevel/bidib_lowlevel_occupancy.c and the
   MSG_BM_MULTIPLE / MSG_BM_ADDRESS / MSG_BOOST_DIAGNOSTIC / MSG_VENDOR cases of the dispatcher. *)
From Coq Require Import List NArith ZArith Bool Arith.
From LB Require Import Tables Framing Rx AccessTab AccessModel.
Import ListNotations.
Local Open Scope nat_scope.

Inductive hres (A : Type) :=
| Fault (idx : nat)          (* a read at this index behind the pointer is outside the message copy *)
| Done (a : A).
Arguments Fault {A} idx.
Arguments Done {A} a.

Definition rd (t : list N) (j : nat) : hres nat :=
  match nth_error t j with Some v => Done (N.to_nat v) | None => Fault j end.

Notation "x <- e ;; f" := (match e with Fault i => Fault i | Done x => f end)
  (at level 61, e at next level, right associativity).

(* reads at the given indices, in order *)
Fixpoint rd_all (t : list N) (idxs : list nat) : hres (list nat) :=
  match idxs with
  | [] => Done []
  | j :: r => _ <- rd t j ;; rest <- rd_all t r ;; Done (j :: rest)
  end.

(* strndup(&p[start], n) as the sanitizer sees it: bytes up to and including the first NUL, at most n *)
Fixpoint strn (t : list N) (start n : nat) : hres (list nat) :=
  match n with
  | O => Done []
  | S n' => v <- rd t start ;;
            if v =? 0 then Done [start] else r <- strn t (S start) n' ;; Done (start :: r)
  end.

(* ---- bidib_state_vendor(node, length, value_list, action_id) ----
   if (length < 2 || value_list[0] + 2 > length || value_list[0] + 2 + value_list[value_list[0] + 1] > length) reject;
   name = strndup(&value_list[1], name_len); value_len = value_list[name_len + 1];
   value = strndup(&value_list[length - value_len], value_len);                        result: (indices read, accepted) *)
Definition vendor_h (len : nat) (t : list N) : hres (list nat * bool) :=
  if len <? 2 then Done ([], false) else
  n <- rd t 0 ;;
  if len <? n + 2 then Done ([0], false) else
  v <- rd t (n + 1) ;;
  if len <? n + 2 + v then Done ([0; n + 1], false) else
  r1 <- strn t 1 n ;;
  v2 <- rd t (n + 1) ;;
  r2 <- strn t (len - v2) v2 ;;
  Done (0 :: (n + 1) :: r1 ++ (n + 1) :: r2, true).

(* ---- case MSG_BM_MULTIPLE after its two fixed reads (number, size); t starts at &message[data_index + 2], avail =
   data_length - 2:  if ((size + 7) / 8 > avail) ignore;
   bidib_state_bm_multiple: for (i < size) if (number + i < 255) ... data[i / 8] ... (both branches read it);
   if (secack_on) bidib_send_bm_mirror_multiple: returns unless number % 8 == 0, 8 <= size <= 128, size % 8 == 0;
   then copies data[0 .. size / 8) *)
Definition multiple_idxs (number size : nat) : list nat :=
  map (fun i => i / 8) (filter (fun i => number + i <? 255) (seq 0 size)).
Definition mirror_copies (number size : nat) : bool :=
  (number mod 8 =? 0) && (8 <=? size) && (size <=? 128) && (size mod 8 =? 0).
Definition multiple_setter_h (number size : nat) (t : list N) : hres (list nat) :=      (* bidib_state_bm_multiple *)
  rd_all t (multiple_idxs number size).
Definition multiple_mirror_h (number size : nat) (t : list N) : hres (list nat) :=      (* bidib_send_bm_mirror_multiple *)
  if mirror_copies number size then rd_all t (seq 0 (size / 8)) else Done [].
Definition multiple_h (secack : bool) (number size avail : nat) (t : list N) : hres (list nat * bool) :=
  if avail <? (size + 7) / 8 then Done ([], false) else
  r1 <- multiple_setter_h number size t ;;
  r2 <- (if secack then multiple_mirror_h number size t else Done []) ;;
  Done (r1 ++ r2, true).

(* ---- bidib_state_bm_address(node, number, address_count, addresses); t starts at &message[data_index + 1].
   free form test: !(address_count == 1 && addresses[0] == 0 && addresses[1] == 0)   (short-circuit)
   segment known: unless free form, for (i < count) { addresses[2i+1]; if bit 6 clear: addresses[2i], addresses[2i+1] x2 };
                  bidib_state_bm_address_log_changes repeats both; its second loop reads addresses[2j], addresses[2j+1]
                  for j < count once per address the segment held before (here: all of them, if there was one)
   segment unknown: the free form test only *)
Definition free_form (count : nat) (t : list N) : hres (list nat * bool) :=
  if count =? 1 then
    a0 <- rd t 0 ;;
    if a0 =? 0 then a1 <- rd t 1 ;; Done ([0; 1], a1 =? 0) else Done ([0], false)
  else Done ([], false).
Fixpoint addr_loop (t : list N) (i cnt : nat) : hres (list nat) :=
  match cnt with
  | O => Done []
  | S c => h <- rd t (2 * i + 1) ;;
           r0 <- (if Nat.testbit h 6 then Done [2 * i + 1]
                  else _ <- rd t (2 * i) ;; _ <- rd t (2 * i + 1) ;; Done [2 * i + 1; 2 * i; 2 * i + 1]) ;;
           r <- addr_loop t (S i) c ;; Done (r0 ++ r)
  end.
Fixpoint pair_idxs (i cnt : nat) : list nat :=
  match cnt with O => [] | S c => (2 * i) :: (2 * i + 1) :: pair_idxs (S i) c end.
Definition address_h (known had_addresses : bool) (count : nat) (t : list N) : hres (list nat) :=
  ff <- free_form count t ;;
  if negb known then Done (fst ff) else
  r1 <- (if snd ff then Done [] else addr_loop t 0 count) ;;
  ff2 <- free_form count t ;;
  r2 <- (if snd ff2 then Done [] else addr_loop t 0 count) ;;
  r3 <- (if had_addresses then rd_all t (pair_idxs 0 count) else Done []) ;;
  Done (fst ff ++ r1 ++ fst ff2 ++ r2 ++ r3).

(* ---- bidib_state_boost_diagnostic(node, length, diag_list, action_id), booster configured:
   for (i = 0; i + 1 < length; i += 2) switch (diag_list[i]) { case 0: case 1: case 2: ... diag_list[i + 1] ... } *)
Fixpoint diag_loop (fuel : nat) (t : list N) (i len : nat) : hres (list nat) :=
  match fuel with
  | O => Done []
  | S f => if i + 1 <? len then
             k <- rd t i ;;
             r0 <- (if k <=? 2 then _ <- rd t (i + 1) ;; Done [i; i + 1] else Done [i]) ;;
             r <- diag_loop f t (i + 2) len ;; Done (r0 ++ r)
           else Done []
  end.
Definition diag_h (booster : bool) (len : nat) (t : list N) : hres (list nat) :=
  if booster then diag_loop len t 0 len else Done [].

(* ---- the dispatcher's arguments for these calls (normal mode, behind the guard) ----
   environment facts the model does not know are parameters *)
Record env := { e_secack : bool; e_segment_known : bool; e_had_addresses : bool; e_booster : bool }.

Definition u8 (z : Z) : nat := Z.to_nat (z mod 256).          (* (uint8_t) cast *)
Definition tail_at (m : list N) (i : Z) : list N := skipn (Z.to_nat i) m.     (* bytes from &message[i] on; i >= 0 by AccessProofs *)
Definition byte_at (m : list N) (i : Z) : hres nat :=
  if (i <? 0)%Z then Fault 0 else rd m (Z.to_nat i).

Definition run_var (e : env) (m : list N) (ty : N) : hres (list nat) :=
  let di := data_index m in
  let l0 := Z.of_N (hd 0%N m) in
  if (ty =? MSG_VENDOR)%N then
    r <- vendor_h (u8 (l0 - di + 1)) (tail_at m di) ;; Done (fst r)
  else if (ty =? MSG_BOOST_DIAGNOSTIC)%N then
    diag_h (e_booster e) (u8 (l0 - di + 1)) (tail_at m di)
  else if (ty =? MSG_BM_ADDRESS)%N then
    address_h (e_segment_known e) (e_had_addresses e) (u8 ((l0 - di) / 2)) (tail_at m (di + 1))
  else if (ty =? MSG_BM_MULTIPLE)%N then
    number <- byte_at m di ;;
    size <- byte_at m (di + 1) ;;
    r <- multiple_h (e_secack e) number size (Z.to_nat (data_length m - 2)) (tail_at m (di + 2)) ;; Done (fst r)
  else Done [].

(* normal mode: nothing is run for a message the guard drops *)
Definition handle_var (e : env) (m : list N) (ty : N) : hres (list nat) :=
  if guard_ok m ty then run_var e m ty else Done [].

(* the extent of a handler run: one more than the largest index read (0: nothing read) *)
Definition extent (reads : list nat) : nat := fold_right (fun j acc => Nat.max (S j) acc) 0 reads.
