(* AccessProofs.v — C12, dispatcher level: behind the generated length guard every access of every case (fixed
   offsets, locally guarded reads, pointers, constant indices, hex dump), of the static helpers and of the readers
   of the intern queue lies inside the message copy; every message the receiver delivers is such a copy. *)
From Coq Require Import List NArith ZArith Bool Arith Lia.
From Coq Require String.
Import String.StringSyntax.
From LB Require Import Tables Framing FramingProofs NodeFlow Rx RxProofs RxSafety AccessTab AccessModel.
Import ListNotations.

(* ---- the generated tables satisfy the side conditions (recomputed whenever the source changes) ---- *)
Lemma tables_ok_true : tables_ok = true.
Proof. vm_compute. reflexivity. Qed.

Lemma table_uses_ok_true : table_uses_ok = true.
Proof. vm_compute. reflexivity. Qed.

Lemma lookup_none {A} (t : list (N * A)) ty : ~ In ty (map fst t) -> lookup t ty = None.
Proof.
  unfold lookup. intros H. destruct (find _ t) as [e|] eqn:E; [|reflexivity].
  apply find_some in E as [Hin He]. apply N.eqb_eq in He. exfalso. apply H. rewrite <- He. apply in_map. exact Hin.
Qed.

Lemma entry_ok_all ty : entry_ok ty = true.
Proof.
  pose proof tables_ok_true as H. unfold tables_ok in H. apply andb_true_iff in H as [H _].
  destruct (in_dec N.eq_dec ty table_keys) as [Hin|Hn].
  - rewrite forallb_forall in H. apply H. exact Hin.
  - unfold table_keys in Hn. rewrite !in_app_iff in Hn.
    unfold entry_ok, offsets_of, guarded_of, ptrs_of, abs_of, lookup_list, min_data.
    rewrite (lookup_none min_tab), (lookup_none access_tab), (lookup_none guarded_tab), (lookup_none ptr_tab),
            (lookup_none abs_tab), (lookup_none consumer_tab) by tauto.
    reflexivity.
Qed.

Lemma consumer_abs_small : forall c, In c consumer_abs -> (c < 4)%nat.
Proof.
  pose proof tables_ok_true as H. unfold tables_ok in H. apply andb_true_iff in H as [_ H].
  rewrite forallb_forall in H. intros c Hc. apply Nat.ltb_lt. apply H. exact Hc.
Qed.

(* ---- shape of a message copy ---- *)
Lemma msg_ok_len m : msg_ok m = true -> length m = (N.to_nat (hd 0%N m) + 1)%nat /\ (4 <= length m)%nat.
Proof.
  unfold msg_ok. intros H. apply andb_true_iff in H as [Hw Hv]. split.
  - destruct m as [|l r]; [discriminate|]. cbn [wf_msg] in Hw. apply N.eqb_eq in Hw. cbn [hd length]. unfold nlen in Hw. lia.
  - unfold valid_msg in Hv. apply andb_true_iff in Hv as [Hv H3]. apply Nat.ltb_lt in H3.
    pose proof (addr_end_ge m (length m) 1). lia.
Qed.

Lemma fdbi_range m : forall cnt i d, fdbi_loop m i cnt = Some d -> (i + 3 <= d <= i + cnt + 2)%nat.
Proof.
  induction cnt as [|c IH]; intros i d H; [discriminate|]. cbn [fdbi_loop] in H.
  destruct (nth_error m i) as [v|]; [|discriminate]. destruct (v =? 0)%N.
  - injection H as <-. lia.
  - apply IH in H. lia.
Qed.

Lemma fdi_range m d : first_data_index m = Some d -> (4 <= d <= N.to_nat (hd 0%N m))%nat.
Proof.
  unfold first_data_index. destruct m as [|l r]; [discriminate|]. intros H. apply fdbi_range in H. cbn [hd]. lia.
Qed.

(* ---- behind the guard every access of the case is inside the message ---- *)
Lemma dispatch_in_bounds m ty acc : msg_ok m = true -> dispatch m ty = OHandled acc ->
  Forall (fun a => in_bounds m a = true) acc.
Proof.
  intros Hok Hd. destruct (msg_ok_len m Hok) as [HL H4].
  unfold dispatch in Hd. destruct (guard_ok m ty) eqn:G; [|discriminate]. injection Hd as <-.
  unfold guard_ok in G. apply negb_true_iff in G. apply Z.ltb_ge in G.
  pose proof (entry_ok_all ty) as E. unfold entry_ok in E.
  apply andb_true_iff in E as [E _]. apply andb_true_iff in E as [E Eabs].
  apply andb_true_iff in E as [E Eptr]. apply andb_true_iff in E as [Eoff Egd].
  rewrite forallb_forall in Eoff, Egd, Eptr, Eabs.
  assert (Hdi : (data_index m = -1 /\ data_length m = 0)%Z \/
                exists d, data_index m = Z.of_nat d /\ data_length m = (Z.of_nat (length m) - Z.of_nat d)%Z /\ (d < length m)%nat).
  { unfold data_length, data_index. destruct (first_data_index m) as [d|] eqn:F.
    - right. exists d. apply fdi_range in F. assert (Z.of_nat d <? 0 = false)%Z as -> by (apply Z.ltb_ge; lia).
      split; [reflexivity|]. split; lia.
    - left. split; reflexivity. }
  unfold case_accesses. rewrite !Forall_app. repeat split.
  - (* fixed offsets *)
    apply Forall_forall. intros a Ha. apply in_map_iff in Ha as (k & <- & Hk). apply Eoff in Hk. apply Nat.ltb_lt in Hk.
    cbn [in_bounds]. apply andb_true_iff. destruct Hdi as [[Hi Hl]|(d & Hi & Hl & Hd)]; rewrite Hi; split; try apply Z.leb_le; try apply Z.ltb_lt; lia.
  - (* locally guarded reads *)
    apply Forall_forall. intros a Ha. apply in_map_iff in Ha as (g & <- & Hg). apply filter_In in Hg as [Hg Hlb].
    apply Z.leb_le in Hlb. apply Egd in Hg. apply andb_true_iff in Hg as [Hg1 Hg2]. apply Nat.ltb_lt in Hg1. apply Nat.leb_le in Hg2.
    cbn [in_bounds]. apply andb_true_iff. destruct Hdi as [[Hi Hl]|(d & Hi & Hl & Hd)]; rewrite Hi; split; try apply Z.leb_le; try apply Z.ltb_lt; lia.
  - (* pointers into the message *)
    apply Forall_forall. intros a Ha. apply in_map_iff in Ha as (p & <- & Hp). apply Eptr in Hp.
    apply andb_true_iff in Hp as [Hp _]. apply andb_true_iff in Hp as [Hp1 Hp2]. apply Nat.leb_le in Hp1. apply Nat.leb_le in Hp2.
    cbn [in_bounds]. apply andb_true_iff. destruct Hdi as [[Hi Hl]|(d & Hi & Hl & Hd)]; rewrite Hi; split; apply Z.leb_le; lia.
  - (* constant indices *)
    apply Forall_forall. intros a Ha. apply in_map_iff in Ha as (c & <- & Hc). apply Eabs in Hc. apply Nat.ltb_lt in Hc.
    cbn [in_bounds]. apply andb_true_iff. split; [apply Z.leb_le|apply Z.ltb_lt]; lia.
  - (* message[message[0]] *)
    destruct (reads_last ty); [|constructor]. constructor; [|constructor].
    cbn [in_bounds]. apply andb_true_iff. split; [apply Z.leb_le|apply Z.ltb_lt]; lia.
  - (* the hex dump *)
    destruct (dumps_whole ty); [|constructor].
    apply Forall_forall. intros a Ha. apply in_map_iff in Ha as (i & <- & Hi). apply in_seq in Hi.
    cbn [in_bounds]. apply andb_true_iff. split; [apply Z.leb_le|apply Z.ltb_lt]; lia.
Qed.

(* a message shorter than its type's minimum is dropped: no access at all *)
Lemma short_dropped m ty : (data_length m < Z.of_nat (min_data ty))%Z -> dispatch m ty = ODropped.
Proof. intros H. unfold dispatch, guard_ok. apply Z.ltb_lt in H. rewrite H. reflexivity. Qed.

(* the message types the library itself reads back from the intern queue were handled (not dropped) by the
   dispatcher, so they carry the data bytes their readers access *)
Lemma consumer_in_bounds m ty : msg_ok m = true -> guard_ok m ty = true ->
  Forall (fun a => in_bounds m a = true) (consumer_accesses m ty).
Proof.
  intros Hok G. destruct (msg_ok_len m Hok) as [HL H4].
  unfold guard_ok in G. apply negb_true_iff in G. apply Z.ltb_ge in G.
  pose proof (entry_ok_all ty) as E. unfold entry_ok in E. apply andb_true_iff in E as [_ Ec]. rewrite forallb_forall in Ec.
  unfold consumer_accesses. rewrite Forall_app. split.
  - apply Forall_forall. intros a Ha. apply in_map_iff in Ha as (k & <- & Hk). apply Ec in Hk. apply Nat.ltb_lt in Hk.
    cbn [in_bounds]. unfold data_length, data_index in *. destruct (first_data_index m) as [d|] eqn:F.
    + apply fdi_range in F. assert (Z.of_nat d <? 0 = false)%Z as E0 by (apply Z.ltb_ge; lia). rewrite E0 in G.
      apply andb_true_iff. split; [apply Z.leb_le|apply Z.ltb_lt]; lia.
    + cbn in G. lia.
  - apply Forall_forall. intros a Ha. apply in_map_iff in Ha as (c & <- & Hc). apply consumer_abs_small in Hc.
    cbn [in_bounds]. apply andb_true_iff. split; [apply Z.leb_le|apply Z.ltb_lt]; lia.
Qed.

(* ---- the guard does not drop what the protocol layer builds: a message with at least min_data data bytes passes ---- *)
Section Built.
Local Open Scope N_scope.
Lemma fdbi_skip pre : Forall (fun b => b <> 0) pre -> forall cnt hd post i,
  (length pre < cnt)%nat -> i = length hd ->
  fdbi_loop (hd ++ pre ++ 0 :: post) i cnt = Some (i + length pre + 3)%nat.
Proof.
  induction pre as [|b pre IH]; intros Hnz cnt hd post i Hc Hi.
  - destruct cnt; [cbn in Hc; lia|]. cbn [fdbi_loop app]. subst i.
    rewrite nth_error_app2 by lia. rewrite Nat.sub_diag. cbn. f_equal. lia.
  - inversion Hnz as [|? ? Hb Hr]; subst. destruct cnt; [cbn in Hc; lia|]. cbn [fdbi_loop].
    rewrite nth_error_app2 by lia. rewrite Nat.sub_diag. cbn [nth_error app].
    apply N.eqb_neq in Hb. rewrite Hb.
    replace (hd ++ b :: pre ++ 0 :: post) with ((hd ++ [b]) ++ pre ++ 0 :: post) by (rewrite <- app_assoc; reflexivity).
    rewrite (IH Hr cnt (hd ++ [b]) post (S (length hd))); [f_equal; cbn; lia|cbn in Hc; lia|rewrite app_length; cbn; lia].
Qed.

(* for a message built with at least one data byte, data_index is the position of the first data byte *)
Lemma fdi_encode a3 sq ty data m : encode_msg a3 sq ty data = Some m -> data <> [] ->
  first_data_index m = Some (length (canon a3) + 4)%nat /\ length m = (length (canon a3) + 4 + length data)%nat.
Proof.
  unfold encode_msg. destruct (255 <? _) eqn:E; [discriminate|]. apply N.ltb_ge in E. intros H Hd. injection H as <-.
  destruct (addr_bytes_shape a3) as (pre & Hab & Hpre & Hnz & Hlen). rewrite Hab in *. rewrite <- Hpre.
  set (l0 := nlen data + nlen (pre ++ [0]) + 3 - 1).
  assert (Hl0 : N.to_nat l0 = (length data + length pre + 3)%nat).
  { unfold l0, nlen. rewrite app_length. cbn [length]. lia. }
  split.
  - unfold first_data_index. rewrite Hl0.
    change (l0 :: (pre ++ [0]) ++ [sq; ty] ++ data) with ([l0] ++ (pre ++ [0]) ++ [sq; ty] ++ data).
    rewrite <- (app_assoc pre [0]). cbn [app].
    change (l0 :: pre ++ 0 :: sq :: ty :: data) with ([l0] ++ pre ++ 0 :: sq :: ty :: data).
    rewrite (fdbi_skip pre Hnz _ [l0] (sq :: ty :: data) 1%nat); [f_equal; lia| |reflexivity].
    destruct data; [congruence|]. cbn [length]. lia.
  - cbn [length]. rewrite !app_length. cbn [length]. lia.
Qed.

End Built.

Lemma encoded_msg_ok a3 sq ty data m : encode_msg a3 sq ty data = Some m -> msg_ok m = true.
Proof.
  intros H. unfold msg_ok. rewrite (valid_encode a3 sq ty data m H). rewrite andb_true_r.
  apply built_wf. exists a3, sq, ty, data. exact H.
Qed.

Lemma guard_complete a3 sq ty data m : encode_msg a3 sq ty data = Some m -> (min_data ty <= length data)%nat ->
  guard_ok m ty = true /\ (data <> [] -> data_length m = Z.of_nat (length data)).
Proof.
  intros He Hmin. pose proof (encoded_msg_ok _ _ _ _ _ He) as Hok. destruct (msg_ok_len m Hok) as [HL H4].
  assert (Hd : data <> [] -> data_length m = Z.of_nat (length data)).
  { intros Hne. destruct (fdi_encode a3 sq ty data m He Hne) as [Hf Hl]. unfold data_length, data_index. rewrite Hf.
    assert (Z.of_nat (length (canon a3) + 4) <? 0 = false)%Z as -> by (apply Z.ltb_ge; lia). lia. }
  split; [|exact Hd]. unfold guard_ok. apply negb_true_iff. apply Z.ltb_ge.
  destruct data as [|x r].
  - cbn [length] in Hmin. assert (min_data ty = 0%nat) as -> by lia. unfold data_length, data_index.
    destruct (first_data_index m) as [d|] eqn:F; [|cbn; lia]. apply fdi_range in F.
    assert (Z.of_nat d <? 0 = false)%Z as -> by (apply Z.ltb_ge; lia). lia.
  - rewrite Hd by discriminate. lia.
Qed.

(* ---- every message the receiver delivers is such a copy ---- *)
Lemma split_packet_ok : forall fuel p a m, In (a, m) (split_packet fuel p) -> valid_msg a m = true -> msg_ok m = true.
Proof.
  induction fuel as [|f IH]; intros p a m Hin Hv; [contradiction|]. cbn [split_packet] in Hin.
  destruct p as [|l r]; [contradiction|]. destruct Hin as [Heq|Hin]; [|eapply IH; eassumption].
  injection Heq as <- <-. pose proof Hv as Hv0. unfold valid_msg in Hv. apply andb_true_iff in Hv as [Hv _]. apply andb_true_iff in Hv as [Hv _].
  apply N.eqb_eq in Hv. unfold msg_ok. rewrite Hv. rewrite Hv0. rewrite andb_true_r.
  cbn [firstn] in *. cbn [wf_msg]. apply N.eqb_eq. unfold nlen in *. cbn [length] in Hv. lia.
Qed.

Lemma parse_all_ok : forall ps x, In x (fst (parse_all ps)) ->
  exists a m, In (a, m) ps /\ valid_msg a m = true /\ m_raw x = m.
Proof.
  induction ps as [|[a m] r IH]; intros x Hx; [contradiction|]. cbn [parse_all] in Hx.
  destruct (valid_msg a m) eqn:Ev; [|contradiction].
  destruct (parse_msg a m) as [f|y] eqn:Ep; [contradiction|].
  destruct (parse_all r) as [xs f] eqn:Er. cbn [fst] in Hx. destruct Hx as [<-|Hx].
  - exists a, m. split; [left; reflexivity|]. split; [exact Ev|].
    unfold parse_msg in Ep. destruct (negb _); [discriminate|]. destruct (zero_from _ _ _ _); [discriminate|].
    destruct (rd _ _ _); [discriminate|]. destruct (4 <? _)%nat; [discriminate|]. destruct (rd _ _ _); [discriminate|].
    injection Ep as <-. reflexivity.
  - destruct (IH x Hx) as (a' & m' & Hin & Hv & Hr).
    exists a', m'. split; [right; exact Hin|]. split; assumption.
Qed.

Lemma deliver_ok p x : In (Delivered x) (deliver_packet p) -> msg_ok (m_raw x) = true.
Proof.
  unfold deliver_packet. destruct (parse_all (split_packet (length p) p)) as [ms f] eqn:E. intros H.
  apply in_app_or in H as [H|H].
  - apply in_map_iff in H as (y & Hy & Hin). injection Hy as ->.
    pose proof (parse_all_ok (split_packet (length p) p) x) as Hp. rewrite E in Hp. destruct (Hp Hin) as (a & m & Hs & Hv & Hr).
    rewrite Hr. eapply split_packet_ok; eassumption.
  - destruct f as [[g|]|]; cbn in H; try contradiction; destruct H as [H|H]; try discriminate; contradiction.
Qed.

Lemma rx_run_delivered_ok : forall bytes s x, In (Delivered x) (snd (rx_run s bytes)) -> msg_ok (m_raw x) = true.
Proof.
  induction bytes as [|b r IH]; intros s x H; [contradiction|]. cbn [rx_run] in H.
  destruct (rx_byte s b) as [s1 o]. specialize (IH s1 x). destruct (rx_run s1 r) as [s2 rest]. cbn [snd] in *.
  apply in_app_or in H as [H|H]; [|exact (IH H)].
  destruct o; cbn in H; try contradiction.
  - eapply deliver_ok; exact H.
  - destruct H as [H|H]; [discriminate|contradiction].
  - destruct H as [H|H]; [discriminate|contradiction].
  - destruct H as [H|H]; [discriminate|contradiction].
Qed.

(* for every byte stream and every message it makes the receiver hand to the dispatcher *)
Lemma stream_dispatch_in_bounds bytes s x acc : In (Delivered x) (snd (rx_run s bytes)) ->
  dispatch (m_raw x) (m_type x) = OHandled acc -> Forall (fun a => in_bounds (m_raw x) a = true) acc.
Proof. intros H. apply dispatch_in_bounds. eapply rx_run_delivered_ok; exact H. Qed.

(* the pointer-receiving callees are exactly the modelled ones (Handlers.v), at the modelled offsets *)
Lemma ptr_tab_as_modelled :
  ptr_tab = [(MSG_VENDOR, [(0%nat, "bidib_state_vendor"%string)]);
             (MSG_BM_MULTIPLE, [(2%nat, "bidib_state_bm_multiple"%string); (2%nat, "bidib_send_bm_mirror_multiple"%string)]);
             (MSG_BM_ADDRESS, [(1%nat, "bidib_state_bm_address"%string)]);
             (MSG_BOOST_DIAGNOSTIC, [(0%nat, "bidib_state_boost_diagnostic"%string)])].
Proof. reflexivity. Qed.

Lemma string_tables_in_bounds : forall name size maxidx, In (name, size, maxidx) table_uses -> (maxidx < size)%nat.
Proof.
  intros n sz mx H. pose proof table_uses_ok_true as T. unfold table_uses_ok in T. rewrite forallb_forall in T.
  specialize (T _ H). cbn in T. apply Nat.ltb_lt. exact T.
Qed.
