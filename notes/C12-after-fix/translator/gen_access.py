#!/usr/bin/env python3
"""gen_access: regenerate coq/AccessTab.v from the source (clang JSON AST), for C12 above the framing layer.

From src/transmission/bidib_transmission_receive.c
 * min_tab      : the minimum number of data bytes per type, read from the switch of bidib_min_data_length
 * the guard    : bidib_handle_received_message must compute
                      data_index  = bidib_first_data_byte_index(message)
                      data_length = data_index < 0 ? 0 : message[0] + 1 - data_index
                  and, before its switch and before any read relative to data_index, execute
                      if (data_length < bidib_min_data_length(type)) { ...; free(message); return; }
                  (no read of the message inside). Anything else is a TranslatorError.
 * access_tab   : per case label the fixed offsets k read unconditionally as message[data_index + k], in the case
                  itself and in the static helpers of the same file that are handed `message`
                  (bidib_log_sys_error, bidib_log_boost_stat_*, bidib_log_received_message)
 * guarded_tab  : per case label the reads (k, lb) that sit under a local test `data_length > c` / `>= c`
                  (lb = the number of data bytes that test guarantees)
 * ptr_tab      : per case label the offsets k at which &message[data_index + k] is handed to a callee, with its name
 * abs_tab / last_tab / whole_tab : reads at constant indices message[c], of message[message[0]], and of all of
                  message[0..message[0]] (the hex dump of bidib_build_message_hex_string)
 * table_uses   : every index into a string table (size from its declaration) with the upper bound its enclosing
                  tests `x <= c` / `x < c` establish (255 for an unguarded byte)
From the readers of the intern message queue (every function of src/**/*.c calling bidib_read_intern_message)
 * consumer_tab : per message type (from the tests on bidib_extract_msg_type(message)) the fixed offsets read as
                  message[first_data_byte + k] / message[bidib_first_data_byte_index(message) + k]
 * consumer_abs : constant indices read there
A shape that is not recognised raises TranslatorError (broken tie)."""
import os, sys, re, json, glob, subprocess
sys.path.insert(0, os.path.dirname(os.path.abspath(__file__)))
import gen_dispatch
from gen_dispatch import TranslatorError, case_value, pkgflags

RECEIVE = "src/transmission/bidib_transmission_receive.c"
DI_INIT = "bidib_first_data_byte_index(message)"
DL_INIT = "((data_index < 0) ? 0 : ((message[0] + 1) - data_index))"
GUARD_COND = "(data_length < bidib_min_data_length(type))"
# callees that receive the bare message pointer without reading data bytes through it
PASS_NO_READ = {"free", "bidib_first_data_byte_index", "bidib_uplink_queue_add", "bidib_uplink_error_queue_add",
                "bidib_uplink_intern_queue_add", "bidib_message_queue_add"}
PASS_WHOLE = {"bidib_build_message_hex_string"}           # for (i = 0; i <= message[0]; i++) ... message[i]
READERS = ("bidib_read_intern_message", "bidib_read_message", "bidib_read_error_message")

# ------------------------------------------------------------------ AST helpers
def load_defs(repo, file):
    """all function definitions of a translation unit: name -> FunctionDecl (JSON)"""
    r = subprocess.run(["clang", "-std=gnu11", "-w"] + pkgflags() + ["-fsyntax-only", "-Xclang", "-ast-dump=json",
                        "-Xclang", "-ast-dump-filter=bidib_", os.path.join(repo, file)], capture_output=True, text=True)
    if r.returncode != 0: raise TranslatorError("clang failed on %s: %s" % (file, r.stderr[:300]))
    dec = json.JSONDecoder(); txt = r.stdout; i = 0; out = {}
    while i < len(txt):
        while i < len(txt) and txt[i] in " \n\r\t": i += 1
        if i >= len(txt): break
        o, i = dec.raw_decode(txt, i)
        if o.get("kind") == "FunctionDecl" and any(c.get("kind") == "CompoundStmt" for c in o.get("inner", [])):
            out[o["name"]] = o
    return out

def strip(e):
    while isinstance(e, dict) and e.get("kind") in ("ImplicitCastExpr", "ParenExpr", "CStyleCastExpr", "ConstantExpr") and e.get("inner"):
        e = e["inner"][0]
    return e

def cstr(e):
    """canonical text of an expression (casts and parentheses removed)"""
    e = strip(e); k = e.get("kind")
    if k == "DeclRefExpr": return e["referencedDecl"].get("name", "?")
    if k == "IntegerLiteral": return str(int(e["value"]))
    if k == "CharacterLiteral": return str(int(e["value"]))
    if k == "ArraySubscriptExpr": return "%s[%s]" % (cstr(e["inner"][0]), cstr(e["inner"][1]))
    if k == "BinaryOperator": return "(%s %s %s)" % (cstr(e["inner"][0]), e.get("opcode"), cstr(e["inner"][1]))
    if k == "UnaryOperator": return "%s%s" % (e.get("opcode"), cstr(e["inner"][0]))
    if k == "ConditionalOperator": return "(%s ? %s : %s)" % tuple(cstr(x) for x in e["inner"][:3])
    if k == "CallExpr": return "%s(%s)" % (cstr(e["inner"][0]), ", ".join(cstr(x) for x in e["inner"][1:]))
    if k == "MemberExpr": return "%s%s%s" % (cstr(e["inner"][0]), "->" if e.get("isArrow") else ".", e.get("name", "?"))
    return "<%s>" % k

def fn_body(fn):
    return [c for c in fn["inner"] if c["kind"] == "CompoundStmt"][0]

def param_names(fn):
    return [c.get("name") for c in fn.get("inner", []) if c.get("kind") == "ParmVarDecl"]

def conjuncts(e):
    e = strip(e)
    if e.get("kind") == "BinaryOperator" and e.get("opcode") == "&&":
        return conjuncts(e["inner"][0]) + conjuncts(e["inner"][1])
    return [e]

def string_tables(repo):
    """name -> number of entries, from the declarations in bidib_transmission_intern.h, cross-checked with the definitions"""
    hdr = open(os.path.join(repo, "src/transmission/bidib_transmission_intern.h"), errors="replace").read()
    src = open(os.path.join(repo, "src/transmission/bidib_transmission_message_string_mapping.c"), errors="replace").read()
    tabs = {}
    for name, n in re.findall(r'extern\s+const\s+char\s*\*\s*const\s+(\w+)\s*\[\s*(0x[0-9a-fA-F]+|\d+)\s*\]\s*;', hdr):
        size = int(n, 0)
        m = re.search(r'const\s+char\s*\*\s*const\s+' + name + r'\s*\[\s*(0x[0-9a-fA-F]+|\d+)\s*\]\s*=\s*\{(.*?)\n\};', src, re.S)
        if not m or int(m.group(1), 0) != size: raise TranslatorError("string table %s: declaration and definition disagree" % name)
        body = re.sub(r'//[^\n]*', '', re.sub(r'"(?:[^"\\]|\\.)*"', 'S', m.group(2)))
        entries = [x for x in (t.strip() for t in body.split(",")) if x]
        if len(entries) != size: raise TranslatorError("string table %s declares %d entries but initialises %d (the rest would be NULL)" % (name, size, len(entries)))
        tabs[name] = size
    return tabs

# ------------------------------------------------------------------ scanning a function that is handed `message`
class Scan:
    def __init__(self):
        self.reads = []      # (k, lb): message[data_index + k]; lb = data bytes guaranteed by enclosing local tests (0: none)
        self.ptrs = []       # (k, callee)
        self.abs = set()     # message[c]
        self.last = False    # message[message[0]]
        self.whole = False   # all of message[0..message[0]]
        self.tabs = []       # (table, index text, upper bound or None)
    def merge(self, o):
        self.reads += o.reads; self.ptrs += o.ptrs; self.abs |= o.abs
        self.last |= o.last; self.whole |= o.whole; self.tabs += o.tabs

class Scanner:
    """reads of `message` in the statements of one function of receive.c (helpers inlined)"""
    def __init__(self, defs, tables):
        self.defs = defs; self.tables = tables; self.depth = 0

    def learn(self, cond, lb, ubs):
        """what a true condition establishes: a lower bound on data_length, upper bounds on byte-valued expressions"""
        ubs = dict(ubs)
        for c in conjuncts(cond):
            c = strip(c)
            if c.get("kind") != "BinaryOperator": continue
            op = c.get("opcode"); a, b = strip(c["inner"][0]), strip(c["inner"][1])
            if b.get("kind") == "IntegerLiteral":
                v = int(b["value"]); x = cstr(a)
                if x == "data_length" and op == ">": lb = max(lb, v + 1)
                elif x == "data_length" and op == ">=": lb = max(lb, v)
                elif op == "<=": ubs[x] = min(ubs.get(x, 1 << 30), v)
                elif op == "<": ubs[x] = min(ubs.get(x, 1 << 30), v - 1)
        return lb, ubs

    def scan_fn(self, name):
        """a static helper handed the message: its own data_index/data_length must be the canonical ones"""
        fn = self.defs[name]
        if "message" not in param_names(fn): raise TranslatorError("helper %s has no parameter named message" % name)
        if self.depth > 4: raise TranslatorError("helper nesting too deep at " + name)
        self.depth += 1
        sc = Scan(); self.walk(fn_body(fn), sc, 0, {}, None, helper=name); self.depth -= 1
        return sc

    def check_decl(self, v, where):
        n = v.get("name"); init = [c for c in v.get("inner", []) if isinstance(c, dict) and "kind" in c and c["kind"] != "FullComment"]
        if n == "data_index" and (not init or cstr(init[0]) != DI_INIT):
            raise TranslatorError("%s: data_index is not %s" % (where, DI_INIT))
        if n == "data_length" and (not init or cstr(init[0]) != DL_INIT):
            raise TranslatorError("%s: data_length is not %s" % (where, DL_INIT))

    def subscript(self, node, sc, lb, ubs, callee, addr):
        base = strip(node["inner"][0]); idx = strip(node["inner"][1])
        if base.get("kind") == "DeclRefExpr" and base["referencedDecl"].get("name") == "message":
            t = cstr(idx); k = None
            if t == "data_index": k = 0
            else:
                m = re.fullmatch(r'\(data_index \+ (\d+)\)', t)
                if m: k = int(m.group(1))
            if k is not None:
                if addr:
                    if callee is None: raise TranslatorError("&message[data_index + %d] is not an argument of a call" % k)
                    sc.ptrs.append((k, callee))
                else: sc.reads.append((k, lb))
                return
            if addr: raise TranslatorError("address of message[%s] taken" % t)
            if idx.get("kind") == "IntegerLiteral": sc.abs.add(int(idx["value"])); return
            if t == "message[0]": sc.abs.add(0); sc.last = True; return
            raise TranslatorError("unrecognised index into the message: message[%s]" % t)
        if base.get("kind") == "DeclRefExpr" and base["referencedDecl"].get("name") in self.tables:
            t = cstr(idx)
            sc.tabs.append((base["referencedDecl"]["name"], t, ubs.get(t)))
            self.walk(idx, sc, lb, ubs, callee); return
        for c in node.get("inner", []): self.walk(c, sc, lb, ubs, callee)

    def walk(self, node, sc, lb, ubs, callee, helper=None):
        if not isinstance(node, dict): return
        k = node.get("kind")
        if k == "VarDecl": self.check_decl(node, helper or "bidib_handle_received_message")
        if k == "UnaryOperator" and node.get("opcode") == "&":
            inner = strip(node["inner"][0])
            if inner.get("kind") == "ArraySubscriptExpr": self.subscript(inner, sc, lb, ubs, callee, True); return
        if k == "ArraySubscriptExpr": self.subscript(node, sc, lb, ubs, callee, False); return
        if k == "IfStmt":
            kids = [c for c in node.get("inner", []) if isinstance(c, dict)]
            cond = kids[0]; self.walk_cond(cond, sc, lb, ubs, callee)
            lb2, ubs2 = self.learn(cond, lb, ubs)
            if len(kids) > 1: self.walk(kids[1], sc, lb2, ubs2, callee)
            for e in kids[2:]: self.walk(e, sc, lb, ubs, callee)
            return
        if k == "BinaryOperator" and node.get("opcode") == "&&":
            self.walk_cond(node, sc, lb, ubs, callee); return
        if k == "CallExpr":
            f = strip(node["inner"][0]); name = f["referencedDecl"].get("name") if f.get("kind") == "DeclRefExpr" else None
            for a in node["inner"][1:]:
                s = strip(a)
                if s.get("kind") == "DeclRefExpr" and s["referencedDecl"].get("name") == "message":
                    if name in PASS_NO_READ: pass
                    elif name in PASS_WHOLE: sc.abs.add(0); sc.whole = True
                    elif name in self.defs and name != "bidib_handle_received_message":
                        sub = self.scan_fn(name)
                        # reads of the helper happen under the bounds that hold at the call
                        sub.reads = [(kk, max(l, lb)) for kk, l in sub.reads]
                        sc.merge(sub)
                    else: raise TranslatorError("message handed to %s, which is not analysed" % name)
                else: self.walk(a, sc, lb, ubs, name)
            return
        for c in node.get("inner", []) or []: self.walk(c, sc, lb, ubs, callee)

    def walk_cond(self, cond, sc, lb, ubs, callee):
        """conjuncts left to right, each under what the earlier ones establish (short-circuit)"""
        for c in conjuncts(cond):
            self.walk(c, sc, lb, ubs, callee)
            lb, ubs = self.learn(c, lb, ubs)

# ------------------------------------------------------------------ bidib_min_data_length
def min_table(defs):
    if "bidib_min_data_length" not in defs: raise TranslatorError("bidib_min_data_length not found in " + RECEIVE)
    body = fn_body(defs["bidib_min_data_length"])["inner"]
    if len(body) != 1 or body[0].get("kind") != "SwitchStmt": raise TranslatorError("bidib_min_data_length is not a single switch")
    if cstr(body[0]["inner"][0]) != "type": raise TranslatorError("bidib_min_data_length does not switch over its parameter")
    table = {}; default = None; pending = []
    def ret_value(st):
        if st.get("kind") != "ReturnStmt" or not st.get("inner"): return None
        e = strip(st["inner"][0])
        return int(e["value"]) if e.get("kind") == "IntegerLiteral" else None
    def label(node):
        pending.append(case_value(node) if node["kind"] == "CaseStmt" else None)
        sub = node["inner"][-1]
        if sub.get("kind") in ("CaseStmt", "DefaultStmt"): label(sub); return
        v = ret_value(sub)
        if v is None: raise TranslatorError("a case of bidib_min_data_length does not return a literal")
        for l in pending:
            if l is None: nonlocal_default[0] = v
            else: table[l] = v
        pending.clear()
    nonlocal_default = [None]
    for c in body[0]["inner"][-1]["inner"]:
        if c.get("kind") in ("CaseStmt", "DefaultStmt"): label(c)
        else: raise TranslatorError("statement outside a case in bidib_min_data_length")
    default = nonlocal_default[0]
    if default != 0: raise TranslatorError("bidib_min_data_length: default is not 0")
    for t, v in table.items():
        if not (0 <= t <= 255 and 0 <= v <= 255): raise TranslatorError("bidib_min_data_length: value out of range")
    return table

# ------------------------------------------------------------------ the dispatcher
def dispatcher(defs, tables):
    fn = defs.get("bidib_handle_received_message")
    if fn is None: raise TranslatorError("bidib_handle_received_message not found")
    body = fn_body(fn)["inner"]
    sn = Scanner(defs, tables)
    isw = [i for i, c in enumerate(body) if c.get("kind") == "SwitchStmt"]
    if len(isw) != 1: raise TranslatorError("expected exactly one switch in the dispatcher")
    isw = isw[0]
    if cstr(body[isw]["inner"][0]) != "type": raise TranslatorError("the dispatcher does not switch over the message type")
    # ---- preamble: debug block, data_index, data_length, guard; nothing relative to data_index is read before the guard
    ig = [i for i, c in enumerate(body[:isw]) if c.get("kind") == "IfStmt" and cstr(c["inner"][0]) == GUARD_COND]
    if len(ig) != 1: raise TranslatorError("guard `if %s` not found before the switch" % GUARD_COND)
    ig = ig[0]
    decls = {}
    for i, c in enumerate(body[:isw]):
        if c.get("kind") == "DeclStmt":
            for v in c.get("inner", []):
                if v.get("kind") == "VarDecl": decls[v["name"]] = i
    if not ("data_index" in decls and "data_length" in decls and decls["data_index"] < decls["data_length"] < ig):
        raise TranslatorError("data_index / data_length are not declared before the guard")
    pre = Scan()
    for c in body[:ig]: sn.walk(c, pre, 0, {}, None)
    if pre.reads or pre.ptrs or pre.last or pre.whole or pre.abs - {0}:
        raise TranslatorError("the message is read before the length guard")
    gkids = [c for c in body[ig]["inner"] if isinstance(c, dict)]
    if len(gkids) != 2: raise TranslatorError("the length guard has an else branch")
    gthen = gkids[1]["inner"] if gkids[1].get("kind") == "CompoundStmt" else [gkids[1]]
    gs = Scan()
    for c in gthen: sn.walk(c, gs, 0, {}, None)
    if gs.reads or gs.ptrs or gs.abs or gs.last or gs.whole: raise TranslatorError("the length guard reads the message it drops")
    names = [cstr(c) for c in gthen]
    if "free(message)" not in names or gthen[-1].get("kind") != "ReturnStmt" or names.index("free(message)") != len(names) - 2:
        raise TranslatorError("the length guard does not end with free(message); return;")
    mid = Scan()
    for c in body[ig + 1:isw]: sn.walk(c, mid, 0, {}, None)
    if mid.reads or mid.ptrs or mid.abs or mid.last or mid.whole: raise TranslatorError("the message is read between the guard and the switch")
    # ---- the cases (fall-through merges labels, as in gen_dispatch)
    segs = []; cur = None
    def add_label(node, labels):
        labels.append(case_value(node) if node["kind"] == "CaseStmt" else None)
        sub = node["inner"][-1]
        if sub.get("kind") in ("CaseStmt", "DefaultStmt"): return add_label(sub, labels)
        return sub
    for c in body[isw]["inner"][-1]["inner"]:
        if c.get("kind") in ("CaseStmt", "DefaultStmt"):
            labels = []; first = add_label(c, labels)
            if cur is not None and not cur[2]: labels = cur[0] + labels; stm = cur[1]; segs.pop()
            else: stm = []
            cur = [labels, stm + [first], first.get("kind") in ("BreakStmt", "ReturnStmt")]; segs.append(cur)
        else:
            if cur is None: raise TranslatorError("statement before the first case")
            cur[1].append(c)
            if c.get("kind") in ("BreakStmt", "ReturnStmt"): cur[2] = True
    per = {}; tabs = list(gs.tabs) + list(pre.tabs)
    for labels, stmts, _ in segs:
        sc = Scan()
        for s in stmts: sn.walk(s, sc, 0, {}, None)
        tabs += sc.tabs
        for l in labels:
            if l is None:
                if sc.reads or sc.ptrs or sc.last or sc.abs - {0}: raise TranslatorError("the default case reads data bytes")
                per["default"] = sc
            else: per[l] = sc
    return per, tabs

# ------------------------------------------------------------------ readers of the queues inside the library
def consumers(repo):
    tab = {}; absr = set(); fns = []
    for f in sorted(glob.glob(os.path.join(repo, "src/*/*.c"))):
        txt = open(f, errors="replace").read()
        if not any(re.search(r'\b%s\s*\(\s*\)' % r, txt) for r in READERS): continue
        rel = os.path.relpath(f, repo)
        for name, fn in load_defs(repo, rel).items():
            if any(r in json.dumps(fn_body(fn)) for r in READERS) and name not in READERS:
                fns.append("%s:%s" % (rel, name)); consumer_fn(fn, name, tab, absr)
    return tab, absr, fns

def consumer_fn(fn, name, tab, absr):
    def type_test(c):
        c = strip(c)
        if c.get("kind") == "BinaryOperator" and c.get("opcode") in ("==", "!=") and cstr(c["inner"][0]) == "bidib_extract_msg_type(message)":
            try: return c["opcode"], gen_dispatch.const_eval(c["inner"][1])
            except TranslatorError: return None
        return None
    def walk(node, ty):
        if not isinstance(node, dict): return
        k = node.get("kind")
        if k == "BinaryOperator" and node.get("opcode") == "=" and cstr(node["inner"][0]) == "first_data_byte" and cstr(node["inner"][1]) != DI_INIT:
            raise TranslatorError("%s: first_data_byte is not %s" % (name, DI_INIT))
        if k == "VarDecl" and node.get("name") == "first_data_byte":
            init = [c for c in node.get("inner", []) if isinstance(c, dict) and "kind" in c]
            if init and cstr(init[0]) != DI_INIT: raise TranslatorError("%s: first_data_byte is not %s" % (name, DI_INIT))
        if k == "UnaryOperator" and node.get("opcode") == "&" and strip(node["inner"][0]).get("kind") == "ArraySubscriptExpr" \
                and cstr(strip(node["inner"][0])["inner"][0]) == "message":
            raise TranslatorError("%s: address of a message byte taken" % name)
        if k == "ArraySubscriptExpr" and cstr(node["inner"][0]) == "message":
            idx = strip(node["inner"][1]); t = cstr(idx)
            if idx.get("kind") == "IntegerLiteral": absr.add(int(idx["value"])); return
            m = re.fullmatch(r'\((first_data_byte|bidib_first_data_byte_index\(message\)) \+ (\d+)\)', t)
            kk = 0 if t in ("first_data_byte", DI_INIT) else int(m.group(2)) if m else None
            if kk is None: raise TranslatorError("%s: unrecognised index message[%s]" % (name, t))
            if ty is None: raise TranslatorError("%s: message[%s] read without a test of the message type" % (name, t))
            tab.setdefault(ty, set()).add(kk); return
        if k == "IfStmt":
            kids = [c for c in node.get("inner", []) if isinstance(c, dict)]
            tt = [type_test(c) for c in conjuncts(kids[0])]
            t_then = ty; t_else = ty
            for x in tt:
                if x and x[0] == "==": t_then = x[1]
            if len(tt) == 1 and tt[0] and tt[0][0] == "!=": t_else = tt[0][1]
            # conjuncts left to right: a type test protects the conjuncts after it
            tcur = ty
            for c, x in zip(conjuncts(kids[0]), tt):
                walk(c, tcur)
                if x and x[0] == "==": tcur = x[1]
            if len(kids) > 1: walk(kids[1], t_then)
            for e in kids[2:]: walk(e, t_else)
            return
        for c in node.get("inner", []) or []: walk(c, ty)
    walk(fn_body(fn), None)

def stray_table_uses(repo, tables):
    """string tables may be indexed only in receive.c (analysed) - and the 256-entry message table by a uint8_t anywhere"""
    bad = []
    for f in sorted(glob.glob(os.path.join(repo, "src/*/*.c"))):
        rel = os.path.relpath(f, repo)
        if rel == RECEIVE or rel.endswith("bidib_transmission_message_string_mapping.c"): continue
        txt = open(f, errors="replace").read()
        for name, size in tables.items():
            if size >= 256: continue
            if re.search(r'\b%s\s*\[' % name, txt): bad.append("%s indexes %s" % (rel, name))
    if bad: raise TranslatorError("string table indexed outside the analysed file: " + "; ".join(bad))

# ------------------------------------------------------------------ output
def generate_files(repo):
    defs = load_defs(repo, RECEIVE)
    tables = string_tables(repo)
    stray_table_uses(repo, tables)
    mins = min_table(defs)
    per, tabs = dispatcher(defs, tables)
    ctab, cabs, cfns = consumers(repo)
    if "default" not in per: raise TranslatorError("dispatcher switch has no default case")
    keys = sorted(k for k in per if k != "default")
    nl = lambda xs: "[%s]" % "; ".join(xs)
    def row(fmt, sel):
        return nl("(%d%%N, %s)" % (k, fmt(sel(per[k]))) for k in keys if sel(per[k]))
    uncond = lambda sc: sorted({k for k, lb in sc.reads if lb == 0})
    guarded = lambda sc: sorted({(k, lb) for k, lb in sc.reads if lb > 0})
    uses = []
    for t, idx, ub in tabs:
        u = (t, tables[t], 255 if ub is None else ub)
        if u not in uses: uses.append(u)
    L = ["(* GENERATED by translator/gen_access.py from bidib_transmission_receive.c and the readers of the intern queue",
         "   (%s). Do not edit. *)" % ", ".join(cfns),
         "From Coq Require Import List NArith String.", "Import ListNotations.", "Local Open Scope string_scope.",
         "(* bidib_min_data_length: type code -> minimum number of data bytes (default 0) *)",
         "Definition min_tab : list (N * nat) := %s." % nl("(%d%%N, %d)" % (k, v) for k, v in sorted(mins.items())),
         "(* the case labels of the dispatcher's switch (every other type code takes the default case) *)",
         "Definition case_labels : list N := %s." % nl("%d%%N" % k for k in keys),
         "(* per type code: fixed offsets k read unconditionally as message[data_index + k] (case and static helpers) *)",
         "Definition access_tab : list (N * list nat) := %s." % row(lambda v: nl(map(str, v)), uncond),
         "(* per type code: reads (k, lb) of message[data_index + k] under a local test that guarantees lb data bytes *)",
         "Definition guarded_tab : list (N * list (nat * nat)) := %s." % row(lambda v: nl("(%d, %d)" % x for x in v), guarded),
         "(* per type code: &message[data_index + k] handed to a callee *)",
         "Definition ptr_tab : list (N * list (nat * string)) := %s." % row(lambda v: nl('(%d, "%s")' % x for x in v), lambda sc: sc.ptrs),
         "(* per type code: constant indices message[c], c > 0 (message[0], the length byte, is read for every message) *)",
         "Definition abs_tab : list (N * list nat) := %s." % row(lambda v: nl(map(str, v)), lambda sc: sorted(sc.abs - {0})),
         "(* type codes whose case reads message[message[0]] / dumps all of message[0..message[0]] *)",
         "Definition last_tab : list N := %s." % nl("%d%%N" % k for k in keys if per[k].last),
         "Definition whole_tab : list N := %s." % nl("%d%%N" % k for k in keys if per[k].whole),
         "Definition default_whole : bool := %s." % ("true" if per["default"].whole else "false"),
         "(* readers of the intern queue: per type code the fixed offsets read relative to the first data byte; constant indices *)",
         "Definition consumer_tab : list (N * list nat) := %s." % nl("(%d%%N, %s)" % (k, nl(map(str, sorted(v)))) for k, v in sorted(ctab.items())),
         "Definition consumer_abs : list nat := %s." % nl(map(str, sorted(cabs))),
         "(* string tables indexed on the receive path: (table, entries, largest index its enclosing tests allow) *)",
         "Definition table_uses : list (string * nat * nat) := %s." % nl('("%s", %d, %d)' % u for u in uses)]
    return {"AccessTab.v": "\n".join(L) + "\n"}

if __name__ == "__main__":
    print(generate_files(sys.argv[1] if len(sys.argv) > 1 else "/repo")["AccessTab.v"])
