(* StateProofs.v — lemmas about the tracked-state model (State.v): the train-presence invariant of C08
   for every history, and its consequences for what the getters return. *)
From Coq Require Import List NArith ZArith Bool Arith Lia.
From LB Require Import Tables StateTabs State.
Import ListNotations.
Local Open Scope N_scope.

(* ------------------------------------------------------------------ list helpers *)
Lemma upd_nth_length : forall A (f : A -> A) l n, length (upd_nth n f l) = length l.
Proof. induction l; destruct n; simpl; auto. Qed.

Lemma nth_error_upd_nth_eq : forall A (f : A -> A) l n x, nth_error l n = Some x -> nth_error (upd_nth n f l) n = Some (f x).
Proof. induction l; destruct n; simpl; intros; try discriminate; [inversion H; auto | auto]. Qed.

Lemma nth_error_upd_nth_neq : forall A (f : A -> A) l n m, n <> m -> nth_error (upd_nth n f l) m = nth_error l m.
Proof. induction l; destruct n, m; simpl; intros; auto; try congruence. Qed.

Lemma nth_error_upd_nth : forall A (f : A -> A) l n m x, nth_error (upd_nth n f l) m = Some x ->
  exists y, nth_error l m = Some y /\ (x = y \/ (n = m /\ x = f y)).
Proof.
  intros. destruct (Nat.eq_dec n m).
  - subst. destruct (nth_error l m) eqn:E.
    + rewrite (nth_error_upd_nth_eq _ f _ _ _ E) in H. inversion H. eauto.
    + assert (length l <= m)%nat by (apply nth_error_None; auto).
      assert (nth_error (upd_nth m f l) m = None) by (apply nth_error_None; rewrite upd_nth_length; auto). congruence.
  - rewrite nth_error_upd_nth_neq in H by auto. eauto.
Qed.

Lemma upd_nth_out : forall A (f : A -> A) l n, nth_error l n = None -> upd_nth n f l = l.
Proof. induction l; destruct n; simpl; intros; auto; try discriminate. f_equal; auto. Qed.

Lemma map_upd_nth : forall A B (g : A -> B) (f : A -> A) l n, (forall x, g (f x) = g x) -> map g (upd_nth n f l) = map g l.
Proof. induction l; destruct n; simpl; intros; auto; f_equal; auto. Qed.

(* ------------------------------------------------------------------ position depends on the address lists only *)
Lemma pos_from_ext : forall tc segs segs' k, map sg_addrs segs = map sg_addrs segs' -> pos_from tc segs k = pos_from tc segs' k.
Proof.
  induction segs; destruct segs'; simpl; intros; try discriminate; auto.
  inversion H. rewrite H1. f_equal. auto.
Qed.
Lemma position_ext : forall tc segs segs', map sg_addrs segs = map sg_addrs segs' -> position tc segs = position tc segs'.
Proof. intros; apply pos_from_ext; auto. Qed.

Lemma in_pos_from : forall tc segs k g t,
  In (g, t) (pos_from tc segs k) <->
  exists j sg d, g = (k + j)%nat /\ nth_error segs j = Some sg /\ In d (sg_addrs sg) /\ dcc_match tc d = true /\ d_t d = t.
Proof.
  induction segs; simpl; intros.
  - split; [tauto | intros (j & sg & d & _ & H & _); destruct j; discriminate].
  - rewrite in_app_iff, in_map_iff. split.
    + intros [(d & E & Hd) | H].
      * apply filter_In in Hd. destruct Hd. inversion E; subst. exists 0%nat, a, d. repeat split; auto; lia.
      * apply IHsegs in H. destruct H as (j & sg & d & -> & H1 & H2). exists (S j), sg, d. split; [lia | auto].
    + intros (j & sg & d & -> & H1 & H2 & H3 & H4). destruct j; simpl in H1.
      * inversion H1; subst. left. exists d. split; [f_equal; lia | apply filter_In; auto].
      * right. apply IHsegs. exists j, sg, d. repeat split; auto; lia.
Qed.

Definition lists_train (tc : train_cfg) (sg : segst) : Prop :=
  exists d, In d (sg_addrs sg) /\ d_l d = tc_l tc /\ d_h d = tc_h tc.

Lemma dcc_match_iff : forall tc d, dcc_match tc d = true <-> d_l d = tc_l tc /\ d_h d = tc_h tc.
Proof.
  unfold dcc_match; intros. rewrite andb_true_iff, !N.eqb_eq. split; intros [? ?]; split; congruence.
Qed.

Lemma position_nonempty_iff : forall tc segs,
  position tc segs <> [] <-> exists g sg, nth_error segs g = Some sg /\ lists_train tc sg.
Proof.
  unfold position; intros. split.
  - intros H. destruct (pos_from tc segs 0) as [|[g t] r] eqn:E; [congruence|].
    assert (In (g, t) (pos_from tc segs 0)) by (rewrite E; left; auto).
    apply in_pos_from in H0. destruct H0 as (j & sg & d & -> & H1 & H2 & H3 & _).
    exists j, sg. split; auto. exists d. split; auto. apply dcc_match_iff; auto.
  - intros (g & sg & H1 & d & H2 & H3 & H4) E.
    assert (In (g, d_t d) (pos_from tc segs 0)).
    { apply in_pos_from. exists g, sg, d. repeat split; auto. apply dcc_match_iff; auto. }
    rewrite E in H. destruct H.
Qed.

(* ------------------------------------------------------------------ the invariant *)
Definition avail_ok (segs : list segst) (tc : train_cfg) (ts : trainst) : Prop :=
  (tr_on ts = true <-> position tc segs <> []) /\
  (position tc segs <> [] -> tr_left ts = pos_left (position tc segs)).

Definition Inv (c : cfg) (s : st) : Prop :=
  forall i tc ts, nth_error (c_trains c) i = Some tc -> nth_error (s_trains s) i = Some ts -> avail_ok (s_segs s) tc ts.

Lemma avail1_ok : forall segs tc ts, avail_ok segs tc (avail1 segs tc ts).
Proof.
  unfold avail_ok, avail1; intros. destruct (position tc segs) eqn:E; simpl.
  - split; [split; [discriminate | congruence] | congruence].
  - split; [split; [discriminate | auto] | auto].
Qed.

Lemma avail1_id : forall segs tc ts, avail_ok segs tc ts -> avail1 segs tc ts = ts.
Proof.
  unfold avail_ok, avail1; intros segs tc ts [H1 H2]. destruct (position tc segs) eqn:E.
  - destruct ts as [on lf stp fw ak km pr dc]; simpl in *. f_equal. destruct on; auto. exfalso. apply H1; auto.
  - assert (p :: l <> []) by discriminate. destruct ts as [on lf stp fw ak km pr dc]; simpl in *. f_equal; [symmetry; apply H1; auto | symmetry; apply H2; auto].
Qed.

Lemma nth_avail_all : forall segs tcs tss i ts', nth_error (avail_all segs tcs tss) i = Some ts' ->
  forall tc, nth_error tcs i = Some tc -> exists ts, nth_error tss i = Some ts /\ ts' = avail1 segs tc ts.
Proof.
  induction tcs; destruct tss; simpl; intros; try (destruct i; discriminate).
  destruct i; simpl in *.
  - inversion H; inversion H0; subst. eauto.
  - eauto.
Qed.

Lemma avail_all_length : forall segs tcs tss, length (avail_all segs tcs tss) = length tss.
Proof. induction tcs; destruct tss; simpl; auto. Qed.

Lemma Inv_update_avail : forall c s, Inv c (update_avail c s).
Proof.
  unfold Inv, update_avail; simpl; intros.
  destruct (nth_avail_all _ _ _ _ _ H0 _ H) as (ts0 & _ & ->). apply avail1_ok.
Qed.

Lemma avail_all_id : forall segs tcs tss,
  (forall i tc ts, nth_error tcs i = Some tc -> nth_error tss i = Some ts -> avail_ok segs tc ts) ->
  avail_all segs tcs tss = tss.
Proof.
  induction tcs; destruct tss; simpl; intros; auto.
  f_equal.
  - apply avail1_id. apply (H 0%nat); auto.
  - apply IHtcs. intros. apply (H (S i)); auto.
Qed.

Lemma st_eta_trains : forall s, set_trains s (s_trains s) = s.
Proof. destruct s; reflexivity. Qed.

Lemma update_avail_id : forall c s, Inv c s -> update_avail c s = s.
Proof. unfold update_avail; intros. rewrite avail_all_id; auto. apply st_eta_trains. Qed.

(* what the invariant looks at *)
Definition presence (s : st) := (map sg_addrs (s_segs s), map (fun t => (tr_on t, tr_left t)) (s_trains s)).

Lemma Inv_presence : forall c s s', presence s = presence s' -> Inv c s -> Inv c s'.
Proof.
  unfold Inv, presence; intros c s s' E H i tc ts' H1 H2. inversion E.
  assert (exists ts, nth_error (s_trains s) i = Some ts /\ (tr_on ts, tr_left ts) = (tr_on ts', tr_left ts')).
  { assert (nth_error (map (fun t => (tr_on t, tr_left t)) (s_trains s')) i = Some (tr_on ts', tr_left ts')) by (apply (map_nth_error (fun t => (tr_on t, tr_left t))); auto).
    rewrite <- H4 in H0. rewrite nth_error_map in H0. destruct (nth_error (s_trains s) i); simpl in H0; inversion H0. eauto. }
  destruct H0 as (ts & Hts & Eq). inversion Eq.
  specialize (H i tc ts H1 Hts). unfold avail_ok in *. rewrite <- (position_ext tc _ _ H3). rewrite <- H5, <- H6. auto.
Qed.

Lemma presence_upd_train : forall s i f, (forall t, tr_on (f t) = tr_on t /\ tr_left (f t) = tr_left t) ->
  presence (set_trains s (upd_nth i f (s_trains s))) = presence s.
Proof.
  unfold presence; simpl; intros. f_equal. apply map_upd_nth. intros. destruct (H x). congruence.
Qed.

Lemma presence_upd_seg : forall s g f, (forall x, sg_addrs (f x) = sg_addrs x) ->
  presence (set_segs s (upd_nth g f (s_segs s))) = presence s.
Proof. unfold presence; simpl; intros. f_equal. apply map_upd_nth; auto. Qed.

(* ------------------------------------------------------------------ every setter preserves the invariant *)

Lemma Inv_node_new : forall c s a l u, Inv c s -> Inv c (node_new c s a l u).
Proof. unfold node_new; intros. destruct (board_by_uid c u); auto. Qed.

Lemma Inv_node_lost : forall c s a l u, Inv c s -> Inv c (node_lost c s a l u).
Proof. unfold node_lost; intros. destruct (uid_is_interface u); auto. Qed.

Lemma Inv_bm_occ : forall c s a n o, Inv c s -> Inv c (bm_occ c s a n o).
Proof. unfold bm_occ; intros. destruct (seg_ref c s a n) as [[g sg]|]; auto. apply Inv_update_avail. Qed.

Lemma Inv_bm_address : forall c s a n l, Inv c s -> Inv c (bm_address c s a n l).
Proof. unfold bm_address; intros. destruct (seg_ref c s a n) as [[g sg]|]; auto. apply Inv_update_avail. Qed.

Lemma Inv_bm_multiple : forall c s a n sz d, Inv c (bm_multiple c s a n sz d).
Proof. unfold bm_multiple; intros. apply Inv_update_avail. Qed.

Lemma fold_conf_addrs : forall v f n l segs,
  map sg_addrs (fold_left (fun segs (m : N * nat) => upd_nth (snd m) (seg_set_conf v f n) segs) l segs) = map sg_addrs segs.
Proof. induction l; simpl; intros; auto. rewrite IHl. apply map_upd_nth. reflexivity. Qed.

Lemma Inv_bm_confidence : forall c s a v f n, Inv c s -> Inv c (bm_confidence c s a v f n).
Proof.
  unfold bm_confidence; intros. destruct (board_by_addr c s a) as [[i bc]|]; auto.
  eapply Inv_presence; [|eauto]. unfold presence; simpl. f_equal. symmetry. apply fold_conf_addrs.
Qed.

Lemma Inv_bm_current : forall c s a n x, Inv c s -> Inv c (bm_current c s a n x).
Proof.
  unfold bm_current; intros. destruct (seg_ref c s a n) as [[g sg]|]; auto.
  eapply Inv_presence; [|eauto]. symmetry. apply presence_upd_seg. reflexivity.
Qed.

Lemma Inv_upd_train : forall c s i f, (forall t, tr_on (f t) = tr_on t /\ tr_left (f t) = tr_left t) ->
  Inv c s -> Inv c (set_trains s (upd_nth i f (s_trains s))).
Proof. intros. eapply Inv_presence; [|eauto]. symmetry. apply presence_upd_train; auto. Qed.

Lemma Inv_bm_speed : forall c s l h a b, Inv c s -> Inv c (bm_speed c s l h a b).
Proof. unfold bm_speed; intros. destruct (train_ref c s l h) as [[[i tc] ts]|]; auto. apply Inv_upd_train; auto. Qed.

Lemma Inv_bm_dyn_state : forall c s l h d v, Inv c s -> Inv c (bm_dyn_state c s l h d v).
Proof.
  unfold bm_dyn_state; intros. destruct (train_ref c s l h) as [[[i tc] ts]|]; auto.
  destruct (_ && _); auto. apply Inv_upd_train; auto.
Qed.

Lemma Inv_cs_drive_ack : forall c s l h k, Inv c s -> Inv c (cs_drive_ack c s l h k).
Proof. unfold cs_drive_ack; intros. destruct (train_ref c s l h) as [[[i tc] ts]|]; auto. apply Inv_upd_train; auto. Qed.

Lemma train_ref_nth : forall c s l h i tc ts, train_ref c s l h = Some (i, tc, ts) -> nth_error (s_trains s) i = Some ts.
Proof.
  unfold train_ref; intros. destruct (train_by_dcc c l h); try discriminate.
  destruct (nth_error (c_trains c) n); try discriminate. destruct (nth_error (s_trains s) n) eqn:E; try discriminate.
  inversion H; subst; auto.
Qed.

Lemma upd_nth_const_as_fun : forall A (l : list A) i x y, nth_error l i = Some x -> upd_nth i (fun _ => y) l = upd_nth i (fun z => if true then y else z) l.
Proof. reflexivity. Qed.

Lemma Inv_cs_drive : forall c s p, Inv c s -> Inv c (cs_drive c s p).
Proof.
  unfold cs_drive; intros. destruct (train_ref c s (dr_l p) (dr_h p)) as [[[i tc] ts]|] eqn:E; auto.
  destruct (dr_active p =? 0).
  - apply Inv_upd_train; auto.
  - (* the new value is built from ts, the entry at index i *)
    pose proof (train_ref_nth _ _ _ _ _ _ _ E) as Hn.
    eapply Inv_presence; [|eauto]. unfold presence; simpl. f_equal.
    clear - Hn. revert i Hn. induction (s_trains s); destruct i; simpl; intros; try discriminate.
    + inversion Hn; subst. f_equal. destruct (bit (dr_active p) 0); reflexivity.
    + f_equal. auto.
Qed.

Lemma Inv_same : forall c s s', s_segs s' = s_segs s -> s_trains s' = s_trains s -> Inv c s -> Inv c s'.
Proof. intros. eapply Inv_presence; [|eauto]. unfold presence. rewrite H, H0. reflexivity. Qed.

Lemma Inv_upd_dacc : forall c s pt i f, Inv c s -> Inv c (upd_dacc s pt i f).
Proof. unfold upd_dacc; intros. destruct pt; auto. Qed.

Lemma Inv_cs_state : forall c s a x, Inv c s -> Inv c (cs_state c s a x).
Proof. unfold cs_state; intros. destruct (board_by_addr c s a) as [[? ?]|]; auto. destruct (is_output _); auto. Qed.

Lemma Inv_vendor : forall c s a vl, Inv c s -> Inv c (vendor c s a vl).
Proof.
  unfold vendor; intros. destruct (negb (vendor_fits vl)); auto. destruct vl; auto. destruct (rev_ref _ _ _ _); auto.
Qed.

Lemma Inv_handle_body : forall c s a ty data s', Inv c s -> handle_body c s a ty data = Ok s' -> Inv c s'.
Proof.
  unfold handle_body; intros c s a ty data s' HI H.
  repeat match type of H with
  | (if ?b then _ else _) = _ => destruct b
  end;
  repeat match type of H with
  | match ?d with [] => _ | _ :: _ => _ end = _ => destruct d; try discriminate
  end;
  try (match type of H with (if ?b then _ else _) = _ => destruct b end);
  try (match type of H with Ok _ = Ok _ => inversion H; subst; clear H end);
  auto using Inv_node_new, Inv_node_lost, Inv_bm_occ, Inv_bm_address, Inv_bm_confidence, Inv_bm_current, Inv_bm_speed,
             Inv_bm_dyn_state, Inv_cs_drive_ack, Inv_cs_drive, Inv_cs_state, Inv_vendor, Inv_bm_multiple.
  all: try (unfold cs_accessory_ack, cs_accessory_manual; destruct (dacc_ref c s a _ _) as [[? ?]|]; auto using Inv_upd_dacc; fail).
  all: try (unfold lc_stat, lc_wait; destruct (per_ref c s a _ _); auto; fail).
  all: try (unfold boost_state, boost_diagnostic; destruct (board_by_addr c s a) as [[? ?]|]; auto; destruct (is_booster _); auto; fail).
  (* accessory_state *)
  all: unfold accessory_state in H; destruct (bacc_ref _ _ _ _) as [[pt m]|]; [|inversion H; subst; auto];
       destruct (nth_error _ _); [|inversion H; subst; auto]; destruct (am_aspects m); [discriminate|];
       inversion H; destruct pt; auto.
Qed.

Lemma Inv_handle : forall c s a ty data s', Inv c s -> handle c s a ty data = Ok s' -> Inv c s'.
Proof.
  unfold handle; intros. destruct (_ <? _)%nat; [inversion H0; subst; auto | eapply Inv_handle_body; eauto].
Qed.

Lemma Inv_cs_accessory : forall c s a l h d t, Inv c s -> Inv c (cs_accessory c s a l h d t).
Proof. unfold cs_accessory; intros. destruct (dacc_ref c s a l h) as [[? ?]|]; auto using Inv_upd_dacc. Qed.

Lemma Inv_apply : forall c s e s', Inv c s -> apply c s e = Ok s' -> Inv c s'.
Proof.
  destruct e; simpl; intros s' HI H.
  - inversion H; subst. apply Inv_node_new; auto.
  - eapply Inv_handle; eauto.
  - inversion H; subst. destruct (drive_accepted p); auto using Inv_cs_drive.
  - inversion H; subst. apply Inv_cs_accessory; auto.
Qed.

Lemma Inv_run_from : forall c h s s', Inv c s -> run_from c s h = Ok s' -> Inv c s'.
Proof.
  induction h; simpl; intros.
  - inversion H0; subst; auto.
  - destruct (apply c s a) eqn:E; [|discriminate]. eapply IHh; [|eauto]. eapply Inv_apply; eauto.
Qed.

Lemma pos_from_no_addrs : forall tc segs k, (forall sg, In sg segs -> sg_addrs sg = []) -> pos_from tc segs k = [].
Proof.
  induction segs; simpl; intros; auto. rewrite (H a) by auto. simpl. apply IHsegs. auto.
Qed.

Lemma Inv_init : forall c, Inv c (init c).
Proof.
  unfold Inv, init; simpl; intros.
  assert (position tc (repeat seg0 (c_nsegs c)) = []).
  { apply pos_from_no_addrs. intros sg Hin. apply repeat_spec in Hin. subst; reflexivity. }
  rewrite nth_error_map in H0. rewrite H in H0. simpl in H0. inversion H0; subst.
  unfold avail_ok. rewrite H1. simpl. split; [split; [discriminate | congruence] | congruence].
Qed.

Lemma Inv_run : forall c h s, run c h = Ok s -> Inv c s.
Proof. unfold run; intros. eapply Inv_run_from; [apply Inv_init | eauto]. Qed.

Lemma run_from_app : forall c h1 h2 s s', run_from c s (h1 ++ h2) = Ok s' ->
  exists s1, run_from c s h1 = Ok s1 /\ run_from c s1 h2 = Ok s'.
Proof.
  induction h1; simpl; intros; eauto.
  destruct (apply c s a); [|discriminate]. eauto.
Qed.

Lemma Inv_every_prefix : forall c h1 h2 s, run c (h1 ++ h2) = Ok s -> exists s1, run c h1 = Ok s1 /\ Inv c s1.
Proof.
  unfold run; intros. destruct (run_from_app _ _ _ _ _ H) as (s1 & H1 & _). exists s1. split; auto.
  eapply Inv_run_from; [apply Inv_init | eauto].
Qed.

(* ------------------------------------------------------------------ consequences for the getters *)
Lemma on_track_iff : forall c s i tc ts, Inv c s ->
  nth_error (c_trains c) i = Some tc -> nth_error (s_trains s) i = Some ts ->
  (tr_on ts = true <-> exists g sg, nth_error (s_segs s) g = Some sg /\ lists_train tc sg).
Proof.
  intros. destruct (H i tc ts H0 H1) as [Hon _]. rewrite Hon. apply position_nonempty_iff.
Qed.

Lemma position_segments : forall c s i tc ts, nth_error (c_trains c) i = Some tc -> nth_error (s_trains s) i = Some ts ->
  forall g, In g (fst (train_position c s i)) <-> exists sg, nth_error (s_segs s) g = Some sg /\ lists_train tc sg.
Proof.
  unfold train_position; intros. rewrite H, H0. simpl. rewrite in_map_iff. split.
  - intros ([g' t] & E & Hin). simpl in E; subst g'. apply in_pos_from in Hin.
    destruct Hin as (j & sg & d & -> & H1 & H2 & H3 & _). exists sg. split; auto. exists d. split; auto. apply dcc_match_iff; auto.
  - intros (sg & H1 & d & H2 & H3 & H4). exists (g, d_t d). split; auto.
    apply in_pos_from. exists g, sg, d. repeat split; auto. apply dcc_match_iff; auto.
Qed.

(* when no segment lists the train's address twice, the reported position is exactly the ordered
   list of the segments that list it *)
Definition lists_b (tc : train_cfg) (sg : segst) : bool := existsb (dcc_match tc) (sg_addrs sg).
Definition at_most_once (tc : train_cfg) (sg : segst) : Prop := (length (filter (dcc_match tc) (sg_addrs sg)) <= 1)%nat.

Lemma existsb_filter_nil : forall A (p : A -> bool) l, existsb p l = false <-> filter p l = [].
Proof.
  induction l; simpl; [tauto|]. destruct (p a); simpl; [split; discriminate | auto].
Qed.

Lemma filter_map_comm : forall A B (f : A -> B) (p : B -> bool) l, filter p (map f l) = map f (filter (fun x => p (f x)) l).
Proof. induction l; simpl; auto. destruct (p (f a)); simpl; f_equal; auto. Qed.

Lemma pos_from_exact : forall tc segs k, Forall (at_most_once tc) segs ->
  map fst (pos_from tc segs k) = map (fun j => (k + j)%nat) (filter (fun j => lists_b tc (nth j segs seg0)) (seq 0 (length segs))).
Proof.
  induction segs; intros; auto.
  inversion H; subst.
  change (length (a :: segs)) with (S (length segs)).
  rewrite <- cons_seq, <- seq_shift. cbn [filter nth pos_from]. rewrite filter_map_comm. cbn [nth].
  rewrite map_app, map_map. cbn [fst]. rewrite IHsegs by auto.
  unfold at_most_once in H2. unfold lists_b.
  destruct (filter (dcc_match tc) (sg_addrs a)) as [|d [|d' r]] eqn:E.
  - assert (X : existsb (dcc_match tc) (sg_addrs a) = false) by (apply existsb_filter_nil; auto). rewrite X. simpl.
    rewrite !map_map. apply map_ext. intros; lia.
  - assert (X : existsb (dcc_match tc) (sg_addrs a) = true).
    { destruct (existsb (dcc_match tc) (sg_addrs a)) eqn:X; auto. apply existsb_filter_nil in X. congruence. }
    rewrite X. simpl. f_equal; [lia|]. rewrite !map_map. apply map_ext. intros; lia.
  - simpl in H2. lia.
Qed.

Lemma position_exact : forall c s i tc ts, nth_error (c_trains c) i = Some tc -> nth_error (s_trains s) i = Some ts ->
  Forall (at_most_once tc) (s_segs s) ->
  fst (train_position c s i) = filter (fun g => lists_b tc (nth g (s_segs s) seg0)) (seq 0 (length (s_segs s))).
Proof.
  unfold train_position, position; intros. rewrite H, H0. simpl. rewrite pos_from_exact by auto.
  rewrite <- (map_id (filter _ _)) at 2. apply map_ext. auto.
Qed.

Lemma last_map_gen : forall A B (f : A -> B) l d, last (map f l) (f d) = f (last l d).
Proof. induction l; simpl; intros; auto. destruct l; simpl in *; auto. Qed.
Lemma last_in_gen : forall A (l : list A) d, l <> [] -> In (last l d) l.
Proof. induction l; simpl; intros; [congruence|]. destruct l; auto. right. apply IHl. discriminate. Qed.

Lemma pos_left_witness : forall p, p <> [] -> exists g t, In (g, t) p /\ pos_left p = (t =? 0).
Proof.
  intros. unfold pos_left. change 1 with (snd (0%nat, 1)). rewrite last_map_gen.
  pose proof (last_in_gen _ p (0%nat, 1) H). destruct (last p (0%nat, 1)) as [g t]. exists g, t. split; auto.
Qed.

Lemma orientation_reported : forall c s i tc ts, Inv c s ->
  nth_error (c_trains c) i = Some tc -> nth_error (s_trains s) i = Some ts -> tr_on ts = true ->
  (exists g sg d, nth_error (s_segs s) g = Some sg /\ In d (sg_addrs sg) /\ d_l d = tc_l tc /\ d_h d = tc_h tc /\
                  tr_left ts = (d_t d =? 0)) /\
  tr_left ts = snd (train_position c s i).
Proof.
  intros. destruct (H i tc ts H0 H1) as [Hon Hleft]. apply Hon in H2. specialize (Hleft H2). split.
  - destruct (pos_left_witness _ H2) as (g & t & Hin & E). apply in_pos_from in Hin.
    destruct Hin as (j & sg & d & -> & H3 & H4 & H5 & H6). apply dcc_match_iff in H5. destruct H5.
    exists j, sg, d. repeat split; auto. rewrite Hleft, E, H6. reflexivity.
  - unfold train_position. rewrite H0, H1. simpl. unfold pos_is_left. destruct (position tc (s_segs s)); [congruence | auto].
Qed.

(* ------------------------------------------------------------------ a free report empties the segment's address list *)
Lemma seg_ref_nth : forall c s a n g sg, seg_ref c s a n = Some (g, sg) -> nth_error (s_segs s) g = Some sg.
Proof.
  unfold seg_ref; intros. destruct (board_by_addr c s a) as [[i bc]|]; try discriminate.
  destruct (find _ _) as [[x g']|]; try discriminate. destruct (nth_error (s_segs s) g') eqn:E; try discriminate.
  inversion H; subst; auto.
Qed.

Lemma free_clears : forall c s a n g sg, seg_ref c s a n = Some (g, sg) ->
  exists sg', nth_error (s_segs (bm_occ c s a n false)) g = Some sg' /\ sg_addrs sg' = [] /\ sg_occ sg' = false.
Proof.
  intros. unfold bm_occ. rewrite H. simpl. apply seg_ref_nth in H.
  exists (seg_set_occ false sg). split; [apply nth_error_upd_nth_eq; auto | auto].
Qed.

Lemma seg_ref_ext : forall c s s' a n g sg, s_boards s' = s_boards s -> length (s_segs s') = length (s_segs s) ->
  seg_ref c s a n = Some (g, sg) -> exists sg', seg_ref c s' a n = Some (g, sg').
Proof.
  unfold seg_ref, board_by_addr; intros. rewrite H.
  destruct (find_idx _ (s_boards s) 0); try discriminate. destruct (nth_error (c_boards c) n0); try discriminate.
  destruct (find _ _) as [[x g']|]; try discriminate.
  destruct (nth_error (s_segs s) g') eqn:E; try discriminate. inversion H1; subst.
  destruct (nth_error (s_segs s') g) eqn:E'; eauto.
  apply nth_error_None in E'. assert (g < length (s_segs s))%nat by (apply nth_error_Some; congruence). lia.
Qed.

Lemma multiple_step_frame : forall c a num data s i,
  s_boards (multiple_step c a num data s i) = s_boards s /\ length (s_segs (multiple_step c a num data s i)) = length (s_segs s).
Proof.
  unfold multiple_step; intros. destruct (seg_ref c s a _) as [[g sg]|]; simpl; auto. rewrite upd_nth_length; auto.
Qed.

Lemma multiple_fold_frame : forall c a num data l s,
  s_boards (fold_left (multiple_step c a num data) l s) = s_boards s /\
  length (s_segs (fold_left (multiple_step c a num data) l s)) = length (s_segs s).
Proof.
  induction l; simpl; intros; auto. destruct (IHl (multiple_step c a num data s a0)). destruct (multiple_step_frame c a num data s a0).
  split; congruence.
Qed.

Definition cleared (s : st) (g : nat) : Prop := exists sg, nth_error (s_segs s) g = Some sg /\ sg_addrs sg = [].

Lemma multiple_step_keeps_cleared : forall c a num data s i g, cleared s g -> cleared (multiple_step c a num data s i) g.
Proof.
  unfold cleared, multiple_step; intros c a num data s i g (sg & H1 & H2).
  destruct (seg_ref c s a _) as [[g' sg']|]; simpl; eauto.
  destruct (Nat.eq_dec g' g).
  - subst. eexists. split; [apply nth_error_upd_nth_eq; eauto|]. simpl. rewrite H2. destruct (bit _ _); auto.
  - rewrite nth_error_upd_nth_neq by auto. eauto.
Qed.

Lemma multiple_fold_keeps_cleared : forall c a num data l s g, cleared s g -> cleared (fold_left (multiple_step c a num data) l s) g.
Proof. induction l; simpl; intros; auto. apply IHl. apply multiple_step_keeps_cleared; auto. Qed.

Lemma multiple_clears : forall c s a num size data s' i g sg,
  s' = bm_multiple c s a num size data -> (i < multiple_count num size)%nat ->
  bit (nth (i / 8) data 0) (N.of_nat (i mod 8)) = false ->
  seg_ref c s a (num + N.of_nat i) = Some (g, sg) ->
  cleared s' g.
Proof.
  unfold bm_multiple; intros. subst s'.
  set (n := multiple_count num size) in *.
  assert (E : seq 0 n = seq 0 i ++ i :: seq (S i) (n - S i)).
  { replace n with (i + S (n - S i))%nat at 1 by lia. rewrite seq_app. simpl. reflexivity. }
  rewrite E, fold_left_app. simpl.
  unfold cleared, update_avail. simpl. apply multiple_fold_keeps_cleared.
  set (s1 := fold_left (multiple_step c a num data) (seq 0 i) s).
  destruct (multiple_fold_frame c a num data (seq 0 i) s) as [Hb Hl]. fold s1 in Hb, Hl.
  destruct (seg_ref_ext c s s1 a _ g sg Hb Hl H2) as (sg1 & Hr).
  unfold cleared, multiple_step. rewrite Hr. cbn [s_segs set_segs]. apply seg_ref_nth in Hr.
  eexists. split; [apply nth_error_upd_nth_eq; eauto|]. cbn [sg_addrs seg_set_occ]. rewrite H1. reflexivity.
Qed.

(* ------------------------------------------------------------------ the dispatcher on the occupancy types *)
Lemma handle_free : forall c s a n rest, handle c s a MSG_BM_FREE (n :: rest) = Ok (bm_occ c s a n false).
Proof. reflexivity. Qed.
Lemma handle_occ : forall c s a n rest, handle c s a MSG_BM_OCC (n :: rest) = Ok (bm_occ c s a n true).
Proof. reflexivity. Qed.
Lemma handle_address : forall c s a n l, handle c s a MSG_BM_ADDRESS (n :: l) = Ok (bm_address c s a n l).
Proof. reflexivity. Qed.
Lemma handle_multiple : forall c s a n sz bits, handle c s a MSG_BM_MULTIPLE (n :: sz :: bits) =
  if bitmap_complete sz bits then Ok (bm_multiple c s a n sz bits) else Ok s.
Proof. reflexivity. Qed.

Lemma free_report_clears : forall c s a n rest g sg, Inv c s -> seg_ref c s a n = Some (g, sg) ->
  exists s', apply c s (EMsg a MSG_BM_FREE (n :: rest)) = Ok s' /\ cleared s' g /\ Inv c s'.
Proof.
  intros. simpl. rewrite handle_free. eexists. split; [reflexivity|]. split.
  - destruct (free_clears c s a n g sg H0) as (sg' & H1 & H2 & _). exists sg'. auto.
  - apply Inv_bm_occ; auto.
Qed.

Lemma multiple_report_clears : forall c s a n sz bits s' i g sg,
  bitmap_complete sz bits = true ->
  apply c s (EMsg a MSG_BM_MULTIPLE (n :: sz :: bits)) = Ok s' -> (i < multiple_count n sz)%nat ->
  bit (nth (i / 8) bits 0) (N.of_nat (i mod 8)) = false ->
  seg_ref c s a (n + N.of_nat i) = Some (g, sg) -> cleared s' g /\ Inv c s'.
Proof.
  intros c s a n sz bits s' i g sg HC H. intros. simpl in H. rewrite handle_multiple, HC in H. inversion H.
  split; [eapply multiple_clears; eauto | apply Inv_bm_multiple].
Qed.

(* a report whose bitmap is incomplete is ignored as a whole *)
Lemma multiple_report_incomplete : forall c s a n sz bits,
  bitmap_complete sz bits = false -> apply c s (EMsg a MSG_BM_MULTIPLE (n :: sz :: bits)) = Ok s.
Proof. intros. simpl. rewrite handle_multiple, H. reflexivity. Qed.

Lemma on_track_eq_position : forall c s i tc ts, Inv c s ->
  nth_error (c_trains c) i = Some tc -> nth_error (s_trains s) i = Some ts ->
  tr_on ts = negb (match fst (train_position c s i) with [] => true | _ => false end).
Proof.
  intros. destruct (H i tc ts H0 H1) as [Hon _]. unfold train_position. rewrite H0, H1. simpl.
  destruct (position tc (s_segs s)) eqn:E; simpl.
  - destruct (tr_on ts); auto. exfalso. apply Hon; auto.
  - apply Hon. discriminate.
Qed.

(* ------------------------------------------------------------------ lock structure facts generated from the source *)
Lemma single_hold_all : forallb (fun b => b) single_hold_facts = true /\ length single_hold_facts = 7%nat.
Proof. vm_compute. split; reflexivity. Qed.
