(* Properties_C07.v — C07: the tracked state equals the fold of all feedback messages over the initial
   state. `run c h` folds the model of the dispatcher + setters (State.v, tied to the C by the
   correspondence check) over the history; `spec_run c h` folds the independent specification of the
   message effects (StateSpec.v). Both start from `init c` (the values the config parsers store) and work
   on the same state record, whose user-visible part is what the getters return. *)
From Coq Require Import List NArith ZArith Bool Arith.
From LB Require Import Tables StateTabs State StateSpec StateProofs StateSpecProofs.
Import ListNotations.
Local Open Scope N_scope.

(* for every configuration and every history of node events, uplink messages of every type with arbitrary
   byte payloads (event_ok: the data bytes are bytes, the speed byte of a user drive command is a byte) and
   user commands, the model's fold and the specification's fold coincide. Since the C12 repairs no message content is
   a fault any more (C07_never_faults); `Fault` is left only for a configuration the parser rejects (the
   histories on which the C reads outside the message copy are the same for both) *)
Theorem C07_fold : forall c h, Forall event_ok h -> run c h = spec_run c h.
Proof. exact run_eq_spec. Qed.
Print Assumptions C07_fold.

(* step form, for any state (not only reachable ones) *)
Theorem C07_step : forall c s e, event_ok e -> apply c s e = spec_apply c s e.
Proof. exact apply_eq_spec. Qed.
Print Assumptions C07_step.

(* messages that refer to unknown nodes, ports, numbers or addresses change nothing: target_of names the
   entity a message refers to (board by address [with the needed function], board by unique id -- for a loss notice with an interface's unique
   id also the subtree beneath the announced address, so such a notice is NOT unknown even when the interface is not
   configured --, segment,
   train, board/DCC accessory, peripheral port), None = unknown *)
Theorem C07_unknown_noop : forall c h s a ty data s', run c h = Ok s ->
  target_of c s a ty data = None -> apply c s (EMsg a ty data) = Ok s' -> s' = s.
Proof. exact (fun c h s a ty data s' H => unknown_noop c s a ty data s' (Inv_run c h s H)). Qed.
Print Assumptions C07_unknown_noop.

(* MSG_NODE_LOST, complete effect (rule of /repo after the C15 repair): board j stays connected iff it was, it is not
   the board with the notice's unique id, and -- if that unique id is an interface's -- it does not lie beneath the
   announced address (announcer address extended by the local address); addresses and all other tables are untouched *)
Theorem C07_node_lost_effect : forall c s a local uid,
  let s' := node_lost c s a local uid in
  (forall j b, nth_error (s_boards s) j = Some b ->
     exists b', nth_error (s_boards s') j = Some b' /\ bd_addr b' = bd_addr b /\
                bd_conn b' = bd_conn b && lost_keeps c a local uid j b) /\
  length (s_boards s') = length (s_boards s) /\
  set_boards s' (s_boards s) = s.
Proof. exact node_lost_effect. Qed.
Print Assumptions C07_node_lost_effect.

(* a loss notice for an UNCONFIGURED interface is not a no-op: every board beneath the announced address is
   disconnected (the dispatcher hands announcer address, local address and unique id to the setter) *)
Theorem C07_lost_unknown_interface : forall c s a v local u1 u2 u3 u4 u5 u6 u7 rest j b,
  board_by_uid c [u1; u2; u3; u4; u5; u6; u7] = None -> bit u1 7 = true ->
  nth_error (s_boards s) j = Some b -> is_subnode (local_addr a local) (bd_addr b) = true ->
  exists s' b', apply c s (EMsg a MSG_NODE_LOST (v :: local :: u1 :: u2 :: u3 :: u4 :: u5 :: u6 :: u7 :: rest)) = Ok s' /\
                nth_error (s_boards s') j = Some b' /\ bd_conn b' = false /\ bd_addr b' = bd_addr b.
Proof. exact lost_unknown_interface_msg. Qed.
Print Assumptions C07_lost_unknown_interface.

(* which train a drive acknowledgement, speed report, decoder report or drive command refers to: "the train with that
   DCC address" -- the configured address itself first, else equality with the orientation bits disregarded *)
Theorem C07_train_lookup : forall c l h,
  match train_by_dcc c l h with
  | Some i => exists tc, nth_error (c_trains c) i = Some tc /\ tc_l tc = l /\ N.land (tc_h tc) 63 = N.land h 63 /\
                         ((exists tc', In tc' (c_trains c) /\ tc_l tc' = l /\ tc_h tc' = h) -> tc_h tc = h)
  | None => forall tc, In tc (c_trains c) -> ~ (tc_l tc = l /\ N.land (tc_h tc) 63 = N.land h 63)
  end.
Proof. exact train_by_dcc_spec. Qed.
Print Assumptions C07_train_lookup.

Theorem C07_unknown_reverser_noop : forall c s a vl, (forall cv, rev_ref c s a cv = None) -> vendor c s a vl = s.
Proof. exact vendor_unknown_noop. Qed.
Print Assumptions C07_unknown_reverser_noop.

(* since the C12 repairs of the dispatcher: for every configuration whose board accessory mappings all have at least
   one aspect (the config parser rejects any other), EVERY history -- any message types, any data, any length, node
   events, user commands -- is processed without a read outside the message copy: the fold always yields a state *)
Theorem C07_never_faults : forall c h, cfg_aspects_ok c -> exists s, run c h = Ok s.
Proof. exact run_never_faults. Qed.
Print Assumptions C07_never_faults.

(* a message with fewer data bytes than the fixed part of its type (bidib_min_data_length, generated into
   AccessTab.min_tab) is ignored, whatever its type and content; a vendor report whose embedded lengths do not fit into
   the message is ignored *)
Theorem C07_short_message_ignored : forall c s a ty data, (length data < min_data ty)%nat -> apply c s (EMsg a ty data) = Ok s.
Proof. exact short_message_ignored. Qed.
Print Assumptions C07_short_message_ignored.

Theorem C07_vendor_malformed_ignored : forall c s a vl, vendor_fits vl = false -> vendor c s a vl = s.
Proof. exact vendor_malformed_ignored. Qed.
Print Assumptions C07_vendor_malformed_ignored.

(* conversion tables, complete: every current code (segment and booster), every booster state byte
   (table generated from the C function on each run), every DCC speed byte (generated likewise) *)
Theorem C07_codes :
  (forall p x, power_of_code p x = spec_power p x) /\
  (forall x, x < 256 -> simple_of x = spec_simple x) /\
  (forall x, x < 256 -> speed_to_lib x = spec_speed x).
Proof. exact (conj power_of_code_spec (conj simple_of_spec speed_spec)). Qed.
Print Assumptions C07_codes.

(* list decoding: address lists of any length incl. the free form, a stray trailing byte and
   accessory-type entries; diagnostic lists of any length in any order, value bytes equal to key codes included
   (the byte loop stepped by one until /repo d1aa21d; see known_findings.txt `fixed:`) *)
Theorem C07_address_list : forall l, byte_list l ->
  (if is_free_form (pairs l) then [] else loco_entries (pairs l)) = spec_addr_list l.
Proof. exact addr_list_spec. Qed.
Print Assumptions C07_address_list.

Theorem C07_diag_list : forall l b, diag_loop l b = spec_diag b l.
Proof. exact diag_loop_spec. Qed.
Print Assumptions C07_diag_list.

(* the derived train data are what the characterisation says, for any segment table *)
Theorem C07_train_presence : forall segs tc ts, avail1 segs tc ts = spec_avail1 segs tc ts.
Proof. exact avail1_spec. Qed.
Print Assumptions C07_train_presence.

(* ---- non-vacuity: a history over a configuration with a booster/command-station board, a segment, a
   point, a peripheral and a train; it satisfies event_ok, runs without fault, and changes every table *)
Definition nv_cfg : cfg :=
  {| c_boards := [{| bc_uid := [18;0;13;1;2;3;4]; bc_secack := false; bc_segs := [(3, 0%nat)];
                     bc_points := [{| am_num := 2; am_idx := 0; am_aspects := [{| as_id := 0; as_val := 1 |}; {| as_id := 1; as_val := 0 |}] |}];
                     bc_signals := []; bc_dpoints := [{| dm_l := 34; dm_h := 17; dm_idx := 0 |}]; bc_dsignals := [];
                     bc_periph := [{| pm_p0 := 35; pm_p1 := 1; pm_idx := 0; pm_aspects := [{| as_id := 0; as_val := 7 |}] |}]; bc_revs := [] |}];
     c_trains := [{| tc_l := 35; tc_h := 1; tc_bits := [4; 0] |}];
     c_nsegs := 1; c_npoints := 1; c_nsignals := 0; c_ndpoints := 1; c_ndsignals := 0; c_nper := 1; c_nrev := 0 |}.
Definition nv_hist : list event :=
  [EMsg (0,0,0) MSG_NODE_NEW [1; 5; 18;0;13;1;2;3;4];
   EMsg (5,0,0) MSG_BM_ADDRESS [3; 35; 129; 7; 64];        (* train backward + an accessory-type entry *)
   EMsg (5,0,0) MSG_BM_CURRENT [3; 200];
   EMsg (5,0,0) MSG_BOOST_DIAGNOSTIC [2; 250; 0; 64; 1; 150; 9; 1; 7];   (* value 1 after an unknown key, stray byte *)
   EMsg (5,0,0) MSG_BOOST_STAT [130];
   EMsg (5,0,0) MSG_CS_STATE [3];
   EMsg (5,0,0) MSG_ACCESSORY_STATE [2; 0; 2; 1; 20];
   EMsg (5,0,0) MSG_LC_STAT [35; 1; 7];
   EMsg (5,0,0) MSG_CS_DRIVE_MANUAL [35; 1; 3; 3; 140; 16; 0; 0; 0];
   EUserAcc (5,0,0) 34 17 33 130;
   EMsg (9,0,0) MSG_BM_OCC [3]].                           (* unknown node *)
Example C07_nonvacuous :
  Forall event_ok nv_hist /\
  match run nv_cfg nv_hist with
  | Ok s => map sg_pw (s_segs s) = [{| pw_known := true; pw_over := false; pw_cur := 7424 |}] /\
            map (fun b => (bo_simple b, bo_v b, s8 (bo_t b))) (s_boost s) = [(E_BIDIB_BSTR_SIMPLE_ON, 150, (-6)%Z)] /\
            map (fun t => (tr_on t, tr_left t, tr_step t, tr_per t)) (s_trains s) = [(true, false, 11%Z, [1; 0])] /\
            map ba_sid (s_points s) = [Some 1%nat] /\ map pe_sid (s_per s) = [Some 0%nat] /\ s_cs s = [3] /\
            map (fun d => (da_val d, da_coil d, da_time d)) (s_dpoints s) = [(1, true, 2)]
  | Fault _ => False
  end.
Proof.
  split.
  - unfold nv_hist. repeat constructor; try (vm_compute; reflexivity).
  - vm_compute. repeat split.
Qed.
