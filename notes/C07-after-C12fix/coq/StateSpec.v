(* StateSpec.v — specification of the effect of the state-bearing messages, written from the BiDiB
   message descriptions (include/definitions/bidib_messages.h comments, bidib.org occupancy / booster /
   command-station pages) and the public header comments (include/definitions/bidib_definitions_custom.h),
   NOT from the setter code: decimal ranges and arithmetic (div/mod) instead of the C's if-chains and bit
   operations, (key, value) pairs instead of the byte loop, characterisations instead of procedures.
   Where a message simply stores a byte into a field the specification is that store and is shared with
   State.v. No proofs in this file. *)
From Coq Require Import List NArith ZArith Bool Arith.
From LB Require Import Tables StateTabs State.
Import ListNotations.
Local Open Scope N_scope.

(* ---- current code of MSG_BM_CURRENT and of the booster diagnostic value (BiDiB "Stromwert" table):
   0: no current; 1..15: 1 mA steps; 16..63: (x-12)*4 mA; 64..127: (x-51)*16 mA; 128..191: (x-108)*64 mA;
   192..250: (x-171)*256 mA; 251..253 reserved; 254: overcurrent; 255: no exact value known.
   Result: None = not known, Some None = overcurrent, Some (Some mA). *)
Definition spec_current (x : N) : option (option N) :=
  if x <=? 15 then Some (Some x)
  else if x <=? 63 then Some (Some ((x - 12) * 4))
  else if x <=? 127 then Some (Some ((x - 51) * 16))
  else if x <=? 191 then Some (Some ((x - 108) * 64))
  else if x <=? 250 then Some (Some ((x - 171) * 256))
  else if x =? 254 then Some None
  else None.
(* t_bidib_power_consumption: "current ... only meaningful if known == true and overcurrent == false";
   fields without meaning keep whatever they held *)
Definition spec_power (p : power) (x : N) : power :=
  match spec_current x with
  | Some (Some ma) => {| pw_known := true; pw_over := false; pw_cur := ma |}
  | Some None => {| pw_known := true; pw_over := true; pw_cur := pw_cur p |}
  | None => {| pw_known := false; pw_over := pw_over p; pw_cur := pw_cur p |}
  end.

(* ---- booster state -> simple state (bidib_messages.h BIDIB_BST_STATE_xxx): on states 0x80 on, 0x81 on/limit,
   0x82 on/hot, 0x84 on/here are "on"; off, no power, go request, off/here, no DCC are "off"; short, hot,
   stop request and everything undefined are errors *)
Definition spec_simple (x : N) : N :=
  if existsb (N.eqb x) [128; 129; 130; 132] then E_BIDIB_BSTR_SIMPLE_ON
  else if existsb (N.eqb x) [0; 3; 4; 5; 6] then E_BIDIB_BSTR_SIMPLE_OFF
  else E_BIDIB_BSTR_SIMPLE_ERROR.

(* ---- DCC speed byte (MSG_CS_DRIVE): bit 7 direction (1 = forward), bits 0..6 speed, 0 = stop,
   1 = emergency stop, 2.. = step 1..; library format: signed step, negative = backwards *)
Definition spec_speed (x : N) : Z :=
  let v := x mod 128 in
  if v <=? 1 then 0%Z else if 128 <=? x then Z.of_N (v - 1) else (- Z.of_N (v - 1))%Z.

(* ---- MSG_BOOST_DIAGNOSTIC: a list of (enum, value) pairs; 0 current, 1 voltage (unit 100 mV, 251..255 not
   known), 2 temperature (signed degrees); other enums are ignored *)
Fixpoint diag_pairs (l : list N) : list (N * N) :=
  match l with
  | k :: v :: r => (k, v) :: diag_pairs r
  | _ => []
  end.
Definition spec_diag1 (b : boost) (kv : N * N) : boost :=
  let '(k, v) := kv in
  match k with
  | 0 => {| bo_ps := bo_ps b; bo_simple := bo_simple b; bo_pw := spec_power (bo_pw b) v; bo_vk := bo_vk b; bo_v := bo_v b; bo_tk := bo_tk b; bo_t := bo_t b |}
  | 1 => if v <=? 250
         then {| bo_ps := bo_ps b; bo_simple := bo_simple b; bo_pw := bo_pw b; bo_vk := true; bo_v := v; bo_tk := bo_tk b; bo_t := bo_t b |}
         else {| bo_ps := bo_ps b; bo_simple := bo_simple b; bo_pw := bo_pw b; bo_vk := false; bo_v := bo_v b; bo_tk := bo_tk b; bo_t := bo_t b |}
  | 2 => {| bo_ps := bo_ps b; bo_simple := bo_simple b; bo_pw := bo_pw b; bo_vk := bo_vk b; bo_v := bo_v b; bo_tk := true; bo_t := v |}
  | _ => b
  end.
Definition spec_diag (b : boost) (l : list N) : boost := fold_left spec_diag1 (diag_pairs l) b.

(* ---- MSG_BM_ADDRESS: after the detector number, (addr_l, addr_h) pairs; the two top bits of addr_h are
   the kind: 0 locomotive (orientation forward), 2 locomotive (orientation backward), 1 and 3 accessory
   decoders (not trains); the single pair 0/0 means "no decoder" (free) *)
Fixpoint spec_entries (l : list N) : list dcc :=
  match l with
  | lo :: hi :: r =>
      let kind := hi / 64 in
      if (kind =? 0) || (kind =? 2) then {| d_l := lo; d_h := hi mod 64; d_t := kind |} :: spec_entries r
      else spec_entries r
  | _ => []
  end.
Definition spec_addr_list (l : list N) : list dcc :=
  match l with
  | [0; 0] | [0; 0; _] => []
  | _ => spec_entries l
  end.

(* ---- what a train's presence data must be, given the segment table (the C08 characterisation):
   on track iff some segment lists its address; orientation = the kind reported with the last listing
   (segment-table order); without a listing the orientation keeps its value *)
Definition listings (tc : train_cfg) (segs : list segst) : list dcc :=
  flat_map (fun sg => filter (dcc_match tc) (sg_addrs sg)) segs.
Definition spec_avail1 (segs : list segst) (tc : train_cfg) (ts : trainst) : trainst :=
  if existsb (fun sg => existsb (dcc_match tc) (sg_addrs sg)) segs
  then {| tr_on := true; tr_left := d_t (last (listings tc segs) {| d_l := 0; d_h := 0; d_t := 1 |}) =? 0;
          tr_step := tr_step ts; tr_fwd := tr_fwd ts; tr_ack := tr_ack ts; tr_kmh := tr_kmh ts; tr_per := tr_per ts; tr_dec := tr_dec ts |}
  else {| tr_on := false; tr_left := tr_left ts;
          tr_step := tr_step ts; tr_fwd := tr_fwd ts; tr_ack := tr_ack ts; tr_kmh := tr_kmh ts; tr_per := tr_per ts; tr_dec := tr_dec ts |}.
Fixpoint spec_avail_all (segs : list segst) (tcs : list train_cfg) (tss : list trainst) : list trainst :=
  match tss, tcs with
  | ts :: tss', tc :: tcs' => spec_avail1 segs tc ts :: spec_avail_all segs tcs' tss'
  | _, _ => tss
  end.
Definition spec_update_avail (c : cfg) (s : st) : st := set_trains s (spec_avail_all (s_segs s) (c_trains c) (s_trains s)).

(* ---- effects per message ---- *)
Definition spec_bm_occ (c : cfg) (s : st) (a : naddr) (num : N) (occ : bool) : st :=
  match seg_ref c s a num with
  | Some (g, _) => spec_update_avail c (set_segs s (upd_nth g (seg_set_occ occ) (s_segs s)))
  | None => s
  end.
Definition spec_bm_address (c : cfg) (s : st) (a : naddr) (num : N) (addrs : list N) : st :=
  match seg_ref c s a num with
  | Some (g, _) => spec_update_avail c (set_segs s (upd_nth g (seg_set_addrs (spec_addr_list addrs)) (s_segs s)))
  | None => s
  end.
Definition spec_bm_current (c : cfg) (s : st) (a : naddr) (num x : N) : st :=
  match seg_ref c s a num with
  | Some (g, sg) => set_segs s (upd_nth g (seg_set_pw (spec_power (sg_pw sg) x)) (s_segs s))
  | None => s
  end.
Definition spec_boost_state (c : cfg) (s : st) (a : naddr) (x : N) : st :=
  match board_by_addr c s a with
  | Some (i, bc) =>
      if is_booster bc
      then set_boost s (upd_nth i (fun b => {| bo_ps := x; bo_simple := spec_simple x; bo_pw := bo_pw b; bo_vk := bo_vk b; bo_v := bo_v b;
                                              bo_tk := bo_tk b; bo_t := bo_t b |}) (s_boost s))
      else s
  | None => s
  end.
Definition spec_boost_diagnostic (c : cfg) (s : st) (a : naddr) (l : list N) : st :=
  match board_by_addr c s a with
  | Some (i, bc) => if is_booster bc then set_boost s (upd_nth i (fun b => spec_diag b l) (s_boost s)) else s
  | None => s
  end.
Definition spec_cs_drive (c : cfg) (s : st) (p : drive) : st :=
  match train_ref c s (dr_l p) (dr_h p) with
  | Some (i, tc, ts) =>
      if dr_active p =? 0
      then set_trains s (upd_nth i (fun t => tr_set_per (map (fun _ => 0) (tr_per t)) (tr_set_drive 0%Z true t)) (s_trains s))
      else
        let t1 := if bit (dr_active p) 0 then tr_set_drive (spec_speed (dr_speed p)) (128 <=? dr_speed p) ts else ts in
        let t2 := tr_set_ack E_BIDIB_DCC_ACK_PENDING t1 in
        let per := drive_per p (tc_bits tc) (tr_per ts) ++ skipn (length (tc_bits tc)) (tr_per ts) in
        set_trains s (upd_nth i (fun _ => tr_set_per per t2) (s_trains s))
  | None => s
  end.

Definition spec_body (c : cfg) (s : st) (a : naddr) (ty : N) (data : list N) : res :=
  if ty =? MSG_BM_OCC then match data with n :: _ => Ok (spec_bm_occ c s a n true) | _ => Ok s end
  else if ty =? MSG_BM_FREE then match data with n :: _ => Ok (spec_bm_occ c s a n false) | _ => Ok s end
  else if ty =? MSG_BM_ADDRESS then match data with n :: addrs => Ok (spec_bm_address c s a n addrs) | _ => Ok s end
  else if ty =? MSG_BM_CURRENT then match data with n :: v :: _ => Ok (spec_bm_current c s a n v) | _ => Ok s end
  else if ty =? MSG_BOOST_STAT then match data with x :: _ => Ok (spec_boost_state c s a x) | _ => Ok s end
  else if ty =? MSG_BOOST_DIAGNOSTIC then Ok (spec_boost_diagnostic c s a data)
  else if ty =? MSG_CS_DRIVE_MANUAL then
    match data with
    | l :: h :: fm :: ac :: sp :: f1 :: f2 :: f3 :: f4 :: _ =>
        Ok (spec_cs_drive c s {| dr_l := l; dr_h := h; dr_fmt := fm; dr_active := ac; dr_speed := sp; dr_f1 := f1; dr_f2 := f2; dr_f3 := f3; dr_f4 := f4 |})
    | _ => Ok s
    end
  else handle_body c s a ty data.     (* plain stores: the message description is the store; a MULTIPLE report counts only
                                         if its bitmap is complete, a vendor report only if both strings fit *)
(* a message that is shorter than the fixed part of its type (min_data, generated from the source's table, every entry
   <= the length the protocol gives that message) is no report and has no effect *)
Definition spec_handle (c : cfg) (s : st) (a : naddr) (ty : N) (data : list N) : res :=
  if (length data <? min_data ty)%nat then Ok s else spec_body c s a ty data.

Definition spec_apply (c : cfg) (s : st) (e : event) : res :=
  match e with
  | ENodeNew a local uid => Ok (node_new c s a local uid)
  | EMsg a ty data => spec_handle c s a ty data
  | EUserDrive p => Ok (if drive_accepted p then spec_cs_drive c s p else s)
  | EUserAcc node l h data time => Ok (cs_accessory c s node l h data time)
  end.
Fixpoint spec_run_from (c : cfg) (s : st) (h : list event) : res :=
  match h with
  | [] => Ok s
  | e :: r => match spec_apply c s e with Ok s' => spec_run_from c s' r | Fault f => Fault f end
  end.
Definition spec_run (c : cfg) (h : list event) : res := spec_run_from c (init c) h.

(* ---- which entity an event refers to; None = unknown node / port / number / address ---- *)
Inductive target := T_board (i : nat) | T_seg (g : nat) | T_train (i : nat) | T_bacc (point : bool) (i : nat)
                  | T_dacc (point : bool) (i : nat) | T_per (i : nat) | T_rev (i : nat) | T_subtree (a : naddr) | T_none_needed.
Definition target_of (c : cfg) (s : st) (a : naddr) (ty : N) (data : list N) : option target :=
  let seg n := match seg_ref c s a n with Some (g, _) => Some (T_seg g) | None => None end in
  let train l h := match train_ref c s l h with Some (i, _, _) => Some (T_train i) | None => None end in
  let dacc l h := match dacc_ref c s a l h with Some (pt, m) => if dacc_exists s pt (dm_idx m) then Some (T_dacc pt (dm_idx m)) else None | None => None end in
  let per p0 p1 := match per_ref c s a p0 p1 with Some m => Some (T_per (pm_idx m)) | None => None end in
  let board (need : board_cfg -> bool) := match board_by_addr c s a with Some (i, bc) => if need bc then Some (T_board i) else None | None => None end in
  let uid u := match board_by_uid c u with Some i => Some (T_board i) | None => None end in
  if ty =? MSG_NODE_NEW then
    match data with _ :: _ :: u1 :: u2 :: u3 :: u4 :: u5 :: u6 :: u7 :: _ => uid [u1; u2; u3; u4; u5; u6; u7] | _ => None end
  else if ty =? MSG_NODE_LOST then
    (* a loss notice refers to the board with that unique id and, when the unique id is an interface's, to the
       subtree beneath the announced address even if the interface itself is not configured *)
    match data with
    | _ :: local :: u1 :: u2 :: u3 :: u4 :: u5 :: u6 :: u7 :: _ =>
        match uid [u1; u2; u3; u4; u5; u6; u7] with
        | Some t => Some t
        | None => if uid_is_interface [u1; u2; u3; u4; u5; u6; u7] then Some (T_subtree (local_addr a local)) else None
        end
    | _ => None
    end
  else if ty =? MSG_CS_STATE then board is_output
  else if ty =? MSG_CS_DRIVE_ACK then match data with l :: h :: _ => train l h | _ => None end
  else if ty =? MSG_CS_ACCESSORY_ACK then match data with l :: h :: _ => dacc l h | _ => None end
  else if ty =? MSG_CS_DRIVE_MANUAL then match data with l :: h :: _ => train l h | _ => None end
  else if ty =? MSG_CS_ACCESSORY_MANUAL then match data with l :: h :: _ => dacc l h | _ => None end
  else if ty =? MSG_LC_STAT then match data with p0 :: p1 :: _ => per p0 p1 | _ => None end
  else if ty =? MSG_LC_WAIT then match data with p0 :: p1 :: _ => per p0 p1 | _ => None end
  else if ty =? MSG_BM_OCC then match data with n :: _ => seg n | _ => None end
  else if ty =? MSG_BM_FREE then match data with n :: _ => seg n | _ => None end
  else if ty =? MSG_BM_MULTIPLE then board (fun _ => true)
  else if ty =? MSG_BM_CONFIDENCE then board (fun _ => true)
  else if ty =? MSG_BM_ADDRESS then match data with n :: _ => seg n | _ => None end
  else if ty =? MSG_BM_CURRENT then match data with n :: _ => seg n | _ => None end
  else if ty =? MSG_BM_SPEED then match data with l :: h :: _ => train l h | _ => None end
  else if ty =? MSG_BM_DYN_STATE then match data with _ :: l :: h :: _ => train l h | _ => None end
  else if ty =? MSG_BOOST_DIAGNOSTIC then board is_booster
  else if (ty =? MSG_ACCESSORY_STATE) || (ty =? MSG_ACCESSORY_NOTIFY) then
    match data with n :: _ => match bacc_ref c s a n with Some (pt, m) => Some (T_bacc pt (am_idx m)) | None => None end | _ => None end
  else if ty =? MSG_BOOST_STAT then board is_booster
  else Some T_none_needed.       (* MSG_VENDOR (reverser by CV name) and the queue-only types are not classified here *)
