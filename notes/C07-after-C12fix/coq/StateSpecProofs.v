(* StateSpecProofs.v — the model of the setters (State.v) against the specification of the message
   effects (StateSpec.v): conversions, list decoding, the derived train data, the step lemma, the fold,
   and "unknown node / port / number / address changes nothing". *)
From Coq Require Import List NArith ZArith Bool Arith Lia.
From LB Require Import Tables StateTabs State StateSpec StateProofs.
Import ListNotations.
Local Open Scope N_scope.

(* ------------------------------------------------------------------ byte enumeration *)
Definition all_bytes : list N := map N.of_nat (seq 0 256).
Lemma byte_in : forall b, b < 256 -> In b all_bytes.
Proof.
  intros. unfold all_bytes. apply in_map_iff. exists (N.to_nat b). split; [apply N2Nat.id|].
  apply in_seq. lia.
Qed.
Lemma byte_enum : forall P : N -> bool, forallb P all_bytes = true -> forall b, b < 256 -> P b = true.
Proof. intros. rewrite forallb_forall in H. apply H. apply byte_in; auto. Qed.

(* ------------------------------------------------------------------ conversions *)
Lemma power_of_code_spec : forall p x, power_of_code p x = spec_power p x.
Proof.
  intros. unfold power_of_code, spec_power, spec_current.
  repeat match goal with
  | |- context [?a =? ?b] => destruct (N.eqb_spec a b)
  | |- context [?a <? ?b] => destruct (N.ltb_spec a b)
  | |- context [?a <=? ?b] => destruct (N.leb_spec a b)
  end; try reflexivity; try lia; subst; try reflexivity.
Qed.

Lemma simple_of_spec : forall x, x < 256 -> simple_of x = spec_simple x.
Proof.
  intros. apply N.eqb_eq. revert x H. apply (byte_enum (fun x => simple_of x =? spec_simple x)). vm_compute. reflexivity.
Qed.

Lemma speed_spec : forall x, x < 256 -> speed_to_lib x = spec_speed x.
Proof.
  intros. apply Z.eqb_eq. revert x H. apply (byte_enum (fun x => Z.eqb (speed_to_lib x) (spec_speed x))). vm_compute. reflexivity.
Qed.

(* every byte's address-kind bits: bit operations of the C = arithmetic of the specification *)
Lemma kind_bits : forall h, h < 256 ->
  negb (bit h 6) = ((h / 64 =? 0) || (h / 64 =? 2)) /\ N.land h 63 = h mod 64 /\ N.land (N.shiftr h 6) 3 = h / 64.
Proof.
  intros.
  assert (X : (Bool.eqb (negb (bit h 6)) ((h / 64 =? 0) || (h / 64 =? 2)) && (N.land h 63 =? h mod 64) && (N.land (N.shiftr h 6) 3 =? h / 64)) = true).
  { revert h H. apply (byte_enum (fun h => Bool.eqb (negb (bit h 6)) ((h / 64 =? 0) || (h / 64 =? 2)) && (N.land h 63 =? h mod 64) && (N.land (N.shiftr h 6) 3 =? h / 64))).
    vm_compute. reflexivity. }
  apply andb_true_iff in X. destruct X as [X X3]. apply andb_true_iff in X. destruct X as [X1 X2].
  apply eqb_prop in X1. apply N.eqb_eq in X2. apply N.eqb_eq in X3. auto.
Qed.

Lemma entries_spec : forall l, Forall (fun b => b < 256) l -> loco_entries (pairs l) = spec_entries l.
Proof.
  fix IH 1. intros l H. destruct l as [|a [|b r]]; try reflexivity.
  inversion H; subst. inversion H3; subst.
  destruct (kind_bits b H4) as (K1 & K2 & K3).
  change (pairs (a :: b :: r)) with ((a, b) :: pairs r). unfold loco_entries. cbn [filter map snd fst spec_entries].
  rewrite K1. destruct ((b / 64 =? 0) || (b / 64 =? 2)).
  - cbn [map fst snd]. rewrite K2, K3. f_equal. apply (IH r H5).
  - apply (IH r H5).
Qed.

Lemma spec_addr_list_cases : forall l,
  (is_free_form (pairs l) = true -> spec_addr_list l = []) /\
  (is_free_form (pairs l) = false -> spec_addr_list l = spec_entries l).
Proof.
  intros. unfold spec_addr_list.
  destruct l as [|a [|b [|x [|y r]]]]; cbn [pairs is_free_form]; split; intros H; try discriminate; try reflexivity;
  destruct a; try discriminate; try reflexivity; destruct b; try discriminate; try reflexivity.
Qed.

Lemma addr_list_spec : forall l, Forall (fun b => b < 256) l ->
  (if is_free_form (pairs l) then [] else loco_entries (pairs l)) = spec_addr_list l.
Proof.
  intros. destruct (spec_addr_list_cases l) as [H1 H2]. destruct (is_free_form (pairs l)).
  - symmetry; auto.
  - rewrite H2 by auto. apply entries_spec; auto.
Qed.

(* ------------------------------------------------------------------ derived train data *)
Lemma pos_from_snd : forall tc segs k, map snd (pos_from tc segs k) = map d_t (listings tc segs).
Proof.
  unfold listings. induction segs; simpl; intros; auto.
  rewrite !map_app, map_map. simpl. f_equal. apply IHsegs.
Qed.

Lemma listings_nil_iff : forall tc segs, existsb (fun sg => existsb (dcc_match tc) (sg_addrs sg)) segs = false <-> listings tc segs = [].
Proof.
  unfold listings. induction segs; simpl; [tauto|].
  rewrite orb_false_iff, IHsegs, existsb_filter_nil. split.
  - intros [H1 H2]. rewrite H1, H2. reflexivity.
  - intros H. apply app_eq_nil in H. auto.
Qed.

Lemma avail1_spec : forall segs tc ts, avail1 segs tc ts = spec_avail1 segs tc ts.
Proof.
  intros. unfold avail1, spec_avail1.
  destruct (position tc segs) eqn:P; pose proof (pos_from_snd tc segs 0) as Hs; fold (position tc segs) in Hs; rewrite P in Hs;
  destruct (existsb _ segs) eqn:E.
  - simpl in Hs. symmetry in Hs. apply map_eq_nil in Hs. apply listings_nil_iff in Hs. congruence.
  - reflexivity.
  - f_equal. unfold pos_left. rewrite Hs.
    change 1 with (d_t {| d_l := 0; d_h := 0; d_t := 1 |}). rewrite last_map_gen.
    destruct (d_t (last (listings tc segs) _)); reflexivity.
  - apply listings_nil_iff in E. rewrite E in Hs. discriminate.
Qed.

Lemma avail_all_spec : forall segs tcs tss, avail_all segs tcs tss = spec_avail_all segs tcs tss.
Proof. induction tcs; destruct tss; simpl; auto. rewrite avail1_spec, IHtcs. reflexivity. Qed.

Lemma update_avail_spec : forall c s, update_avail c s = spec_update_avail c s.
Proof. unfold update_avail, spec_update_avail; intros. rewrite avail_all_spec. reflexivity. Qed.

(* ------------------------------------------------------------------ the diagnostic list *)
Lemma diag_apply_spec : forall b k v, diag_apply b k v = spec_diag1 b (k, v).
Proof.
  intros. unfold diag_apply, spec_diag1.
  destruct k as [|p]; [simpl; rewrite power_of_code_spec; reflexivity|].
  destruct p as [p|p|]; simpl.
  - destruct p; reflexivity.
  - destruct p; try reflexivity.
  - assert ((v <? 251) = (v <=? 250)). { destruct (N.ltb_spec v 251), (N.leb_spec v 250); auto; lia. }
    rewrite H. reflexivity.
Qed.

Lemma diag_loop_spec : forall l b, diag_loop l b = spec_diag b l.
Proof.
  fix IH 1. intros l b. destruct l as [|k [|v r]]; try reflexivity.
  unfold spec_diag. cbn [diag_pairs fold_left diag_loop]. rewrite diag_apply_spec. apply (IH r).
Qed.

(* ------------------------------------------------------------------ the step lemma: model = specification *)
Definition byte_list (l : list N) : Prop := Forall (fun b => b < 256) l.
Definition event_ok (e : event) : Prop :=
  match e with
  | EMsg _ ty data => byte_list data
  | EUserDrive p => dr_speed p < 256
  | _ => True
  end.

Lemma bm_occ_spec : forall c s a n o, bm_occ c s a n o = spec_bm_occ c s a n o.
Proof. unfold bm_occ, spec_bm_occ; intros. destruct (seg_ref c s a n) as [[g sg]|]; auto. apply update_avail_spec. Qed.

Lemma bm_address_spec : forall c s a n l, byte_list l -> bm_address c s a n l = spec_bm_address c s a n l.
Proof.
  unfold bm_address, spec_bm_address; intros. destruct (seg_ref c s a n) as [[g sg]|]; auto.
  rewrite addr_list_spec by auto. apply update_avail_spec.
Qed.

Lemma bm_current_spec : forall c s a n x, bm_current c s a n x = spec_bm_current c s a n x.
Proof. unfold bm_current, spec_bm_current; intros. destruct (seg_ref c s a n) as [[g sg]|]; auto. rewrite power_of_code_spec. reflexivity. Qed.

Lemma boost_state_spec : forall c s a x, x < 256 -> boost_state c s a x = spec_boost_state c s a x.
Proof. unfold boost_state, spec_boost_state; intros. rewrite simple_of_spec by auto. reflexivity. Qed.

Lemma upd_nth_const : forall A (l : list A) i x (f : A -> A), nth_error l i = Some x -> upd_nth i (fun _ => f x) l = upd_nth i f l.
Proof. induction l; destruct i; simpl; intros; try discriminate; auto. inversion H; subst; auto. f_equal; eauto. Qed.

Lemma st_eta_boost : forall s, set_boost s (s_boost s) = s.
Proof. destruct s; reflexivity. Qed.

Lemma boost_diagnostic_spec : forall c s a l, boost_diagnostic c s a l = spec_boost_diagnostic c s a l.
Proof.
  unfold boost_diagnostic, spec_boost_diagnostic; intros. destruct (board_by_addr c s a) as [[i bc]|]; auto.
  destruct (is_booster bc); auto. f_equal. clear. revert i. induction (s_boost s); destruct i; simpl; auto.
  - rewrite diag_loop_spec. reflexivity.
  - f_equal. auto.
Qed.

Lemma cs_drive_spec : forall c s p, dr_speed p < 256 -> cs_drive c s p = spec_cs_drive c s p.
Proof. unfold cs_drive, spec_cs_drive; intros. rewrite speed_spec by auto. reflexivity. Qed.

Lemma byte_list_inv : forall x l, byte_list (x :: l) -> x < 256 /\ byte_list l.
Proof. intros. inversion H; auto. Qed.

Lemma handle_body_eq_spec : forall c s a ty data, byte_list data -> handle_body c s a ty data = spec_body c s a ty data.
Proof.
  intros c s a ty data HB. unfold spec_body.
  destruct (ty =? MSG_BM_OCC) eqn:E1.
  { apply N.eqb_eq in E1; subst. destruct data; [reflexivity|]. change (Ok (bm_occ c s a n true) = Ok (spec_bm_occ c s a n true)). rewrite bm_occ_spec. reflexivity. }
  destruct (ty =? MSG_BM_FREE) eqn:E2.
  { apply N.eqb_eq in E2; subst. destruct data; [reflexivity|]. change (Ok (bm_occ c s a n false) = Ok (spec_bm_occ c s a n false)). rewrite bm_occ_spec. reflexivity. }
  destruct (ty =? MSG_BM_ADDRESS) eqn:E3.
  { apply N.eqb_eq in E3; subst. destruct data; [reflexivity|]. change (Ok (bm_address c s a n data) = Ok (spec_bm_address c s a n data)).
    apply byte_list_inv in HB. rewrite bm_address_spec by tauto. reflexivity. }
  destruct (ty =? MSG_BM_CURRENT) eqn:E4.
  { apply N.eqb_eq in E4; subst. destruct data as [|n [|v r]]; try reflexivity.
    change (Ok (bm_current c s a n v) = Ok (spec_bm_current c s a n v)). rewrite bm_current_spec. reflexivity. }
  destruct (ty =? MSG_BOOST_STAT) eqn:E5.
  { apply N.eqb_eq in E5; subst. destruct data as [|x r]; try reflexivity.
    change (Ok (boost_state c s a x) = Ok (spec_boost_state c s a x)). apply byte_list_inv in HB. rewrite boost_state_spec by tauto. reflexivity. }
  destruct (ty =? MSG_BOOST_DIAGNOSTIC) eqn:E6.
  { apply N.eqb_eq in E6; subst. change (Ok (boost_diagnostic c s a data) = Ok (spec_boost_diagnostic c s a data)).
    rewrite boost_diagnostic_spec. reflexivity. }
  destruct (ty =? MSG_CS_DRIVE_MANUAL) eqn:E7; [|reflexivity].
  apply N.eqb_eq in E7; subst. destruct data as [|l [|h [|fm [|ac [|sp [|f1 [|f2 [|f3 [|f4 r]]]]]]]]]; try reflexivity.
  match goal with |- _ = Ok (spec_cs_drive c s ?p) => change (Ok (cs_drive c s p) = Ok (spec_cs_drive c s p)) end.
  rewrite cs_drive_spec; [reflexivity|]. simpl.
  repeat (apply byte_list_inv in HB; destruct HB as [? HB]). auto.
Qed.

Lemma handle_eq_spec : forall c s a ty data, byte_list data -> handle c s a ty data = spec_handle c s a ty data.
Proof. intros. unfold handle, spec_handle. destruct (_ <? _)%nat; auto. apply handle_body_eq_spec; auto. Qed.

Lemma apply_eq_spec : forall c s e, event_ok e -> apply c s e = spec_apply c s e.
Proof.
  destruct e; simpl; intros; auto.
  - apply handle_eq_spec; auto.
  - rewrite cs_drive_spec; auto.
Qed.

Lemma run_from_eq_spec : forall c h s, Forall event_ok h -> run_from c s h = spec_run_from c s h.
Proof.
  induction h; simpl; intros; auto. inversion H; subst. rewrite apply_eq_spec by auto.
  destruct (spec_apply c s a); auto.
Qed.

Lemma run_eq_spec : forall c h, Forall event_ok h -> run c h = spec_run c h.
Proof. intros. apply run_from_eq_spec; auto. Qed.

(* ------------------------------------------------------------------ unknown node / port / number / address: no effect *)
Lemma seg_ref_no_board : forall c s a n, board_by_addr c s a = None -> seg_ref c s a n = None.
Proof. unfold seg_ref; intros. rewrite H. reflexivity. Qed.

Lemma multiple_fold_no_board : forall c a num data l s, board_by_addr c s a = None ->
  fold_left (multiple_step c a num data) l s = s.
Proof.
  induction l; simpl; intros; auto. unfold multiple_step at 2. rewrite seg_ref_no_board by auto. auto.
Qed.

Lemma st_eta_boards : forall s, set_boards s (s_boards s) = s. Proof. destruct s; reflexivity. Qed.
Lemma st_eta_dpoints : forall s, set_dpoints s (s_dpoints s) = s. Proof. destruct s; reflexivity. Qed.
Lemma st_eta_dsignals : forall s, set_dsignals s (s_dsignals s) = s. Proof. destruct s; reflexivity. Qed.

Lemma upd_dacc_missing : forall s pt i f, dacc_exists s pt i = false -> upd_dacc s pt i f = s.
Proof.
  unfold dacc_exists, upd_dacc; intros. destruct pt.
  - destruct (nth_error (s_dpoints s) i) eqn:E; [discriminate|]. rewrite upd_nth_out by auto. apply st_eta_dpoints.
  - destruct (nth_error (s_dsignals s) i) eqn:E; [discriminate|]. rewrite upd_nth_out by auto. apply st_eta_dsignals.
Qed.

Ltac ok_inv H := match type of H with Ok _ = Ok _ => inversion H; subst; clear H end.

Lemma unknown_noop : forall c s a ty data s', Inv c s ->
  target_of c s a ty data = None -> handle c s a ty data = Ok s' -> s' = s.
Proof.
  intros c s a ty data s' HI HT H. unfold target_of in HT. unfold handle in H.
  destruct (length data <? min_data ty)%nat; [inversion H; auto|]. unfold handle_body in H.
  (* NODE_NEW *)
  destruct (ty =? MSG_NODE_NEW).
  { destruct data as [|x0 [|x1 [|u1 [|u2 [|u3 [|u4 [|u5 [|u6 [|u7 r]]]]]]]]]; try discriminate; try (inversion H; reflexivity).
    ok_inv H. unfold node_new. destruct (board_by_uid c _); [discriminate | reflexivity]. }
  destruct (ty =? MSG_NODE_LOST).
  { destruct data as [|x0 [|x1 [|u1 [|u2 [|u3 [|u4 [|u5 [|u6 [|u7 r]]]]]]]]]; try discriminate; try (inversion H; reflexivity).
    ok_inv H. unfold node_lost. destruct (board_by_uid c _); [discriminate|].
    destruct (uid_is_interface _); [discriminate|]. apply st_eta_boards. }
  destruct (ty =? MSG_CS_STATE).
  { destruct data; [inversion H; reflexivity|]. ok_inv H. unfold cs_state. destruct (board_by_addr c s a) as [[i bc]|]; [|reflexivity].
    destruct (is_output bc); [discriminate | reflexivity]. }
  destruct (ty =? MSG_CS_DRIVE_ACK).
  { destruct data as [|l [|h [|k r]]]; try discriminate; try (inversion H; reflexivity). ok_inv H. unfold cs_drive_ack.
    destruct (train_ref c s l h) as [[[i tc] ts]|]; [discriminate | reflexivity]. }
  destruct (ty =? MSG_CS_ACCESSORY_ACK).
  { destruct data as [|l [|h [|k r]]]; try discriminate; try (inversion H; reflexivity). ok_inv H. unfold cs_accessory_ack.
    destruct (dacc_ref c s a l h) as [[pt m]|]; [|reflexivity].
    destruct (dacc_exists s pt (dm_idx m)) eqn:E; [discriminate|]. apply upd_dacc_missing; auto. }
  destruct (ty =? MSG_CS_DRIVE_MANUAL).
  { destruct data as [|l [|h [|fm [|ac [|sp [|f1 [|f2 [|f3 [|f4 r]]]]]]]]]; try discriminate; try (inversion H; reflexivity). ok_inv H. unfold cs_drive. simpl.
    destruct (train_ref c s l h) as [[[i tc] ts]|]; [discriminate | reflexivity]. }
  destruct (ty =? MSG_CS_ACCESSORY_MANUAL).
  { destruct data as [|l [|h [|k r]]]; try discriminate; try (inversion H; reflexivity). ok_inv H. unfold cs_accessory_manual.
    destruct (dacc_ref c s a l h) as [[pt m]|]; [|reflexivity].
    destruct (dacc_exists s pt (dm_idx m)) eqn:E; [discriminate|]. apply upd_dacc_missing; auto. }
  destruct (ty =? MSG_LC_STAT).
  { destruct data as [|p0 [|p1 [|v r]]]; try discriminate; try (inversion H; reflexivity). ok_inv H. unfold lc_stat. destruct (per_ref c s a p0 p1); [discriminate | reflexivity]. }
  destruct (ty =? MSG_LC_WAIT).
  { destruct data as [|p0 [|p1 [|v r]]]; try discriminate; try (inversion H; reflexivity). ok_inv H. unfold lc_wait. destruct (per_ref c s a p0 p1); [discriminate | reflexivity]. }
  destruct (ty =? MSG_BM_OCC).
  { destruct data as [|n r]; try discriminate; try (inversion H; reflexivity). ok_inv H. unfold bm_occ. destruct (seg_ref c s a n) as [[g sg]|]; [discriminate | reflexivity]. }
  destruct (ty =? MSG_BM_FREE).
  { destruct data as [|n r]; try discriminate; try (inversion H; reflexivity). ok_inv H. unfold bm_occ. destruct (seg_ref c s a n) as [[g sg]|]; [discriminate | reflexivity]. }
  destruct (ty =? MSG_BM_MULTIPLE).
  { destruct data as [|n [|sz bits]]; try discriminate; try (inversion H; reflexivity).
    destruct (board_by_addr c s a) as [[i bc]|] eqn:EB; [discriminate|].
    destruct (bitmap_complete sz bits); [|inversion H; reflexivity]. ok_inv H. unfold bm_multiple.
    rewrite multiple_fold_no_board by auto. apply update_avail_id; auto. }
  destruct (ty =? MSG_BM_CONFIDENCE).
  { destruct data as [|v [|f [|n r]]]; try discriminate; try (inversion H; reflexivity). ok_inv H. unfold bm_confidence.
    destruct (board_by_addr c s a) as [[i bc]|]; [discriminate | reflexivity]. }
  destruct (ty =? MSG_BM_ADDRESS).
  { destruct data as [|n r]; try discriminate; try (inversion H; reflexivity). ok_inv H. unfold bm_address. destruct (seg_ref c s a n) as [[g sg]|]; [discriminate | reflexivity]. }
  destruct (ty =? MSG_BM_CURRENT).
  { destruct data as [|n [|v r]]; try discriminate; try (inversion H; reflexivity). ok_inv H. unfold bm_current. destruct (seg_ref c s a n) as [[g sg]|]; [discriminate | reflexivity]. }
  destruct (ty =? MSG_BM_SPEED).
  { destruct data as [|l [|h [|sl [|sh r]]]]; try discriminate; try (inversion H; reflexivity). ok_inv H. unfold bm_speed.
    destruct (train_ref c s l h) as [[[i tc] ts]|]; [discriminate | reflexivity]. }
  destruct (ty =? MSG_BM_DYN_STATE).
  { destruct data as [|m [|l [|h [|d [|v r]]]]]; try discriminate; try (inversion H; reflexivity). ok_inv H. unfold bm_dyn_state.
    destruct (train_ref c s l h) as [[[i tc] ts]|]; [discriminate | reflexivity]. }
  destruct (ty =? MSG_BOOST_DIAGNOSTIC).
  { ok_inv H. unfold boost_diagnostic. destruct (board_by_addr c s a) as [[i bc]|]; [|reflexivity].
    destruct (is_booster bc); [discriminate | reflexivity]. }
  destruct ((ty =? MSG_ACCESSORY_STATE) || (ty =? MSG_ACCESSORY_NOTIFY)).
  { destruct data as [|n [|asp [|tot [|ex [|w r]]]]]; try discriminate; try (inversion H; reflexivity). unfold accessory_state in H.
    destruct (bacc_ref c s a n) as [[pt m]|]; [discriminate | ok_inv H; auto]. }
  destruct (ty =? MSG_BOOST_STAT).
  { destruct data as [|x r]; try discriminate; try (inversion H; reflexivity). ok_inv H. unfold boost_state. destruct (board_by_addr c s a) as [[i bc]|]; [|reflexivity].
    destruct (is_booster bc); [discriminate | reflexivity]. }
  discriminate.
Qed.

(* a reverser report whose CV name matches no reverser of the sending board changes nothing either *)
Lemma vendor_unknown_noop : forall c s a vl, (forall cv, rev_ref c s a cv = None) -> vendor c s a vl = s.
Proof.
  unfold vendor; intros. destruct (negb (vendor_fits vl)); auto. destruct vl; auto. rewrite H. reflexivity.
Qed.

(* a value byte that equals a key code is a value: list 0,1,2,40 = current code 1, temperature 40, voltage untouched *)
Lemma diag_value_is_not_key : diag_loop [0; 1; 2; 40] boost0 =
  {| bo_ps := bo_ps boost0; bo_simple := bo_simple boost0; bo_pw := {| pw_known := true; pw_over := false; pw_cur := 1 |};
     bo_vk := false; bo_v := 0; bo_tk := true; bo_t := 40 |}.
Proof. vm_compute. reflexivity. Qed.

(* ------------------------------------------------------------------ MSG_NODE_LOST: the complete effect *)
(* board j stays connected iff it was connected, it is not the board with the notice's unique id, and -- when the
   notice's unique id is an interface's -- its address is not beneath the announced address; addresses and every
   other table are untouched. In particular a notice for an UNCONFIGURED interface disconnects its subtree. *)
Definition lost_keeps (c : cfg) (a : naddr) (local : N) (uid : list N) (j : nat) (b : bdyn) : bool :=
  match board_by_uid c uid with Some i => negb (Nat.eqb i j) | None => true end &&
  negb (uid_is_interface uid && is_subnode (local_addr a local) (bd_addr b)).

Lemma nth_error_upd_disconnect : forall l i j b, nth_error l j = Some b ->
  nth_error (upd_nth i disconnect l) j = Some (if Nat.eqb i j then disconnect b else b).
Proof.
  intros. destruct (Nat.eqb_spec i j).
  - subst. apply nth_error_upd_nth_eq; auto.
  - rewrite nth_error_upd_nth_neq; auto.
Qed.

Lemma node_lost_effect : forall c s a local uid,
  let s' := node_lost c s a local uid in
  (forall j b, nth_error (s_boards s) j = Some b ->
     exists b', nth_error (s_boards s') j = Some b' /\ bd_addr b' = bd_addr b /\
                bd_conn b' = bd_conn b && lost_keeps c a local uid j b) /\
  length (s_boards s') = length (s_boards s) /\
  set_boards s' (s_boards s) = s.
Proof.
  intros. unfold s', node_lost, lost_keeps. split; [|split].
  - intros j b Hj.
    assert (H1 : exists b1, nth_error (match board_by_uid c uid with Some i => upd_nth i disconnect (s_boards s) | None => s_boards s end) j = Some b1 /\
                 bd_addr b1 = bd_addr b /\ bd_conn b1 = bd_conn b && match board_by_uid c uid with Some i => negb (Nat.eqb i j) | None => true end).
    { destruct (board_by_uid c uid) as [i|].
      - rewrite (nth_error_upd_disconnect _ i j b Hj). eexists. split; [reflexivity|].
        destruct (Nat.eqb i j); simpl; split; auto; [rewrite andb_false_r | rewrite andb_true_r]; auto.
      - exists b. rewrite andb_true_r. auto. }
    destruct H1 as (b1 & Hb1 & Ha & Hc).
    destruct (uid_is_interface uid); simpl.
    + rewrite nth_error_map, Hb1. simpl. eexists. split; [reflexivity|]. rewrite Ha.
      destruct (is_subnode (local_addr a local) (bd_addr b)); simpl.
      * split; auto. rewrite andb_false_r, andb_false_r. reflexivity.
      * split; auto. rewrite Hc, andb_true_r. reflexivity.
    + exists b1. split; auto. split; auto. rewrite Hc, andb_true_r. reflexivity.
  - destruct (uid_is_interface uid); simpl; [rewrite map_length|]; destruct (board_by_uid c uid); auto using upd_nth_length.
  - destruct (uid_is_interface uid); destruct s; reflexivity.
Qed.

Lemma handle_node_lost : forall c s a v local u1 u2 u3 u4 u5 u6 u7 rest,
  handle c s a MSG_NODE_LOST (v :: local :: u1 :: u2 :: u3 :: u4 :: u5 :: u6 :: u7 :: rest) =
  Ok (node_lost c s a local [u1; u2; u3; u4; u5; u6; u7]).
Proof. reflexivity. Qed.

(* the instance the old rule missed: unconfigured interface, a connected board beneath the announced address *)
Lemma lost_unknown_interface_subtree : forall c s a local uid j b,
  board_by_uid c uid = None -> uid_is_interface uid = true ->
  nth_error (s_boards s) j = Some b -> is_subnode (local_addr a local) (bd_addr b) = true ->
  exists b', nth_error (s_boards (node_lost c s a local uid)) j = Some b' /\ bd_conn b' = false /\ bd_addr b' = bd_addr b.
Proof.
  intros. destruct (node_lost_effect c s a local uid) as (H3 & _). destruct (H3 j b H1) as (b' & E1 & E2 & E3).
  exists b'. split; auto. split; auto. rewrite E3. unfold lost_keeps. rewrite H, H0, H2. simpl. apply andb_false_r.
Qed.

Lemma lost_unknown_interface_msg : forall c s a v local u1 u2 u3 u4 u5 u6 u7 rest j b,
  board_by_uid c [u1; u2; u3; u4; u5; u6; u7] = None -> bit u1 7 = true ->
  nth_error (s_boards s) j = Some b -> is_subnode (local_addr a local) (bd_addr b) = true ->
  exists s' b', apply c s (EMsg a MSG_NODE_LOST (v :: local :: u1 :: u2 :: u3 :: u4 :: u5 :: u6 :: u7 :: rest)) = Ok s' /\
                nth_error (s_boards s') j = Some b' /\ bd_conn b' = false /\ bd_addr b' = bd_addr b.
Proof.
  intros. destruct (lost_unknown_interface_subtree c s a local [u1; u2; u3; u4; u5; u6; u7] j b H H0 H1 H2) as (b' & P).
  eexists. exists b'. split; [simpl; apply handle_node_lost | exact P].
Qed.

(* ------------------------------------------------------------------ which train a DCC address refers to *)
Lemma find_idx_some : forall A (p : A -> bool) l k i, find_idx p l k = Some i ->
  exists x, nth_error l (i - k) = Some x /\ p x = true /\ (k <= i)%nat /\ forall j y, (j < i - k)%nat -> nth_error l j = Some y -> p y = false.
Proof.
  induction l; simpl; intros; [discriminate|]. destruct (p a) eqn:E.
  - inversion H; subst. rewrite Nat.sub_diag. exists a. repeat split; auto. intros; lia.
  - apply IHl in H. destruct H as (x & H1 & H2 & H3 & H4). exists x.
    replace (i - k)%nat with (S (i - S k)) by lia. simpl. repeat split; auto; [lia|].
    intros j y Hj Hy. destruct j; simpl in Hy; [inversion Hy; subst; auto|]. apply (H4 j y); auto. lia.
Qed.
Lemma find_idx_none : forall A (p : A -> bool) l k, find_idx p l k = None -> forall x, In x l -> p x = false.
Proof.
  induction l; simpl; intros; [tauto|]. destruct (p a) eqn:E; [discriminate|]. destruct H0; [subst; auto | eauto].
Qed.

(* "the train with that DCC address": a train whose configured address is the reported one wins (the first such);
   otherwise the first train whose address equals it with the two orientation bits of the high byte disregarded on
   both sides; no train is named exactly when no configured address equals it modulo the orientation bits *)
Lemma train_by_dcc_spec : forall c l h,
  match train_by_dcc c l h with
  | Some i => exists tc, nth_error (c_trains c) i = Some tc /\ tc_l tc = l /\ N.land (tc_h tc) 63 = N.land h 63 /\
                         ((exists tc', In tc' (c_trains c) /\ tc_l tc' = l /\ tc_h tc' = h) -> tc_h tc = h)
  | None => forall tc, In tc (c_trains c) -> ~ (tc_l tc = l /\ N.land (tc_h tc) 63 = N.land h 63)
  end.
Proof.
  intros. unfold train_by_dcc. destruct (find_idx (dcc_exact l h) (c_trains c) 0) as [i|] eqn:E1.
  - apply find_idx_some in E1. destruct E1 as (tc & H1 & H2 & _ & _). rewrite Nat.sub_0_r in H1.
    unfold dcc_exact in H2. apply andb_true_iff in H2. destruct H2 as [H2 H3]. apply N.eqb_eq in H2, H3.
    exists tc. repeat split; auto. congruence.
  - destruct (find_idx (dcc_masked l h) (c_trains c) 0) as [i|] eqn:E2.
    + apply find_idx_some in E2. destruct E2 as (tc & H1 & H2 & _ & _). rewrite Nat.sub_0_r in H1.
      unfold dcc_masked in H2. apply andb_true_iff in H2. destruct H2 as [H2 H3]. apply N.eqb_eq in H2, H3.
      exists tc. repeat split; auto. intros (tc' & Hin & Hl & Hh).
      pose proof (find_idx_none _ _ _ _ E1 tc' Hin) as X. unfold dcc_exact in X. rewrite Hl, Hh, !N.eqb_refl in X. discriminate.
    + intros tc Hin [Hl Hh]. pose proof (find_idx_none _ _ _ _ E2 tc Hin) as X. unfold dcc_masked in X.
      rewrite Hl, Hh, !N.eqb_refl in X. discriminate.
Qed.

(* ------------------------------------------------------------------ after the C12 repairs: nothing a message carries is a fault *)
Lemma short_message_ignored : forall c s a ty data, (length data < min_data ty)%nat -> handle c s a ty data = Ok s.
Proof. intros. unfold handle. apply Nat.ltb_lt in H. rewrite H. reflexivity. Qed.

Lemma vendor_malformed_ignored : forall c s a vl, vendor_fits vl = false -> vendor c s a vl = s.
Proof. unfold vendor; intros. rewrite H. reflexivity. Qed.

(* the only fault left is a property of the configuration: a board accessory mapping without aspects *)
Definition cfg_aspects_ok (c : cfg) : Prop :=
  forall bc m, In bc (c_boards c) -> In m (bc_points bc ++ bc_signals bc) -> am_aspects m <> [].

Lemma find_in : forall A (p : A -> bool) l x, find p l = Some x -> In x l.
Proof. induction l; simpl; intros; [discriminate|]. destruct (p a); [inversion H; auto | auto]. Qed.

Lemma board_by_addr_in : forall c s a i bc, board_by_addr c s a = Some (i, bc) -> In bc (c_boards c).
Proof.
  unfold board_by_addr; intros. destruct (find_idx _ _ _); [|discriminate].
  destruct (nth_error (c_boards c) n) eqn:E; [|discriminate]. inversion H; subst. eapply nth_error_In; eauto.
Qed.

Lemma bacc_ref_in : forall c s a n pt m, bacc_ref c s a n = Some (pt, m) ->
  exists bc, In bc (c_boards c) /\ In m (bc_points bc ++ bc_signals bc).
Proof.
  unfold bacc_ref; intros. destruct (board_by_addr c s a) as [[i bc]|] eqn:E; [|discriminate].
  exists bc. split; [eapply board_by_addr_in; eauto|]. apply in_or_app.
  destruct (find _ (bc_points bc)) eqn:F1.
  - inversion H; subst. left. eapply find_in; eauto.
  - destruct (find _ (bc_signals bc)) eqn:F2; [|discriminate]. inversion H; subst. right. eapply find_in; eauto.
Qed.

Lemma accessory_state_ok : forall c s a n asp ex w, cfg_aspects_ok c -> exists s', accessory_state c s a n asp ex w = Ok s'.
Proof.
  unfold accessory_state; intros. destruct (bacc_ref c s a n) as [[pt m]|] eqn:E; eauto.
  destruct (nth_error _ _); eauto. destruct (bacc_ref_in _ _ _ _ _ _ E) as (bc & H1 & H2).
  destruct (am_aspects m) eqn:A; eauto. exfalso. eapply H; eauto.
Qed.

Lemma handle_never_faults : forall c s a ty data, cfg_aspects_ok c -> exists s', handle c s a ty data = Ok s'.
Proof.
  intros. unfold handle. destruct (_ <? _)%nat; eauto. unfold handle_body.
  repeat match goal with
  | |- exists s', (if ?b then _ else _) = _ => destruct b
  end;
  repeat match goal with
  | |- exists s', match ?d with [] => _ | _ :: _ => _ end = _ => destruct d
  end;
  try match goal with |- exists s', (if ?b then _ else _) = _ => destruct b end;
  eauto using accessory_state_ok.
Qed.

Lemma apply_never_faults : forall c s e, cfg_aspects_ok c -> exists s', apply c s e = Ok s'.
Proof. destruct e; simpl; intros; eauto using handle_never_faults. Qed.

Lemma run_from_never_faults : forall c h s, cfg_aspects_ok c -> exists s', run_from c s h = Ok s'.
Proof.
  induction h; simpl; intros; eauto. destruct (apply_never_faults c s a H) as (s1 & E). rewrite E. auto.
Qed.

Lemma run_never_faults : forall c h, cfg_aspects_ok c -> exists s, run c h = Ok s.
Proof. intros. apply run_from_never_faults; auto. Qed.
