(* State.v — executable model of the tracked state of libbidib and of the functions that change it:
   src/state/bidib_state_setter.c (one setter per state-bearing uplink message), the lookups of
   src/state/bidib_state_getter.c they use, bidib_state_update_train_available (src/state/bidib_state.c),
   the field extraction of the dispatcher bidib_handle_received_message
   (src/transmission/bidib_transmission_receive.c), the optimistic effect of the user's own
   bidib_send_cs_drive / bidib_send_cs_accessory (src/lowlevel/bidib_lowlevel_track.c) and the
   position getter bidib_get_train_position_intern (src/highlevel/bidib_highlevel_getter.c).

   Conventions: entity ids are indices into the state tables (the C looks states up by id string; the
   parser makes ids unique per table, so "first entry with that id" is "the entry with that index").
   Tables of the C that are parallel by construction (boards / per-board booster and track-output
   state; trains / train states) are parallel lists here. Memory errors of the C (reads past the
   message copy, string tables indexed by a raw byte) are explicit faults. No proofs in this file. *)
From Coq Require Import List NArith ZArith Bool Arith.
From LB Require Import Tables StateTabs AccessTab.
Import ListNotations.
Local Open Scope N_scope.

(* ------------------------------------------------------------------ basic data *)
Definition naddr := (N * N * N)%type.                       (* top, sub, subsub *)
Definition addr_eqb (a b : naddr) : bool :=
  let '(a1, a2, a3) := a in let '(b1, b2, b3) := b in (a1 =? b1) && (a2 =? b2) && (a3 =? b3).

Record dcc := { d_l : N; d_h : N; d_t : N }.                (* addrl, addrh (6 bits), type (0 or 2) *)

Definition bit (v : N) (k : N) : bool := N.testbit v k.
Fixpoint list_eqb (a b : list N) : bool :=
  match a, b with
  | [], [] => true
  | x :: a', y :: b' => (x =? y) && list_eqb a' b'
  | _, _ => false
  end.

Fixpoint upd_nth {A} (n : nat) (f : A -> A) (l : list A) : list A :=
  match l with
  | [] => []
  | x :: r => match n with O => f x :: r | S m => x :: upd_nth m f r end
  end.

Fixpoint find_idx {A} (p : A -> bool) (l : list A) (i : nat) : option nat :=
  match l with
  | [] => None
  | x :: r => if p x then Some i else find_idx p r (S i)
  end.

(* ------------------------------------------------------------------ configuration *)
Record aspect := { as_id : nat; as_val : N }.
Record bacc_map := { am_num : N; am_idx : nat; am_aspects : list aspect }.
Record dacc_map := { dm_l : N; dm_h : N; dm_idx : nat }.
Record per_map := { pm_p0 : N; pm_p1 : N; pm_idx : nat; pm_aspects : list aspect }.
Record rev_map := { rm_cv : list N; rm_idx : nat }.
Record board_cfg := {
  bc_uid : list N;                       (* 7 bytes: class, class ext, vendor, product 1-4 *)
  bc_secack : bool;                      (* feature 3 configured with a value > 0: occupancy reports are mirrored *)
  bc_segs : list (N * nat);              (* segment address on the board -> index in the segment state table *)
  bc_points : list bacc_map;  bc_signals : list bacc_map;
  bc_dpoints : list dacc_map; bc_dsignals : list dacc_map;
  bc_periph : list per_map;   bc_revs : list rev_map }.
Record train_cfg := { tc_l : N; tc_h : N; tc_bits : list N }.   (* dcc address; function bit of each peripheral *)
Record cfg := { c_boards : list board_cfg; c_trains : list train_cfg;
                c_nsegs : nat; c_npoints : nat; c_nsignals : nat; c_ndpoints : nat; c_ndsignals : nat;
                c_nper : nat; c_nrev : nat }.

Definition class_bit (bc : board_cfg) (k : N) : bool := bit (hd 0 (bc_uid bc)) k.
Definition is_booster (bc : board_cfg) : bool := class_bit bc 1.       (* bidib_config_parser_board.c *)
Definition is_output (bc : board_cfg) : bool := class_bit bc 4.
Definition is_interface (bc : board_cfg) : bool := class_bit bc 7.

(* ------------------------------------------------------------------ tracked state *)
Record bdyn := { bd_conn : bool; bd_addr : naddr }.
Record power := { pw_known : bool; pw_over : bool; pw_cur : N }.
Record segst := { sg_occ : bool; sg_void : bool; sg_freeze : bool; sg_nosig : bool; sg_pw : power; sg_addrs : list dcc }.
Record trainst := { tr_on : bool; tr_left : bool; tr_step : Z; tr_fwd : bool; tr_ack : N; tr_kmh : N;
                    tr_per : list N; tr_dec : list (option N) }.       (* 5 decoder values: quality, temp, energy, c2, c3 *)
Record boost := { bo_ps : N; bo_simple : N; bo_pw : power; bo_vk : bool; bo_v : N; bo_tk : bool; bo_t : N }.
Record baccst := { ba_sid : option nat; ba_val : N; ba_exec : N; ba_wait : N }.
Record daccst := { da_sid : option nat; da_val : N; da_coil : bool; da_oct : bool; da_ack : N; da_unit : N; da_time : N }.
Record perst := { pe_sid : option nat; pe_val : N; pe_unit : N; pe_wait : N }.
Record revst := { rv_set : bool; rv_val : N }.                         (* state_id is the reverser's own id once set *)

Record st := {
  s_boards : list bdyn; s_segs : list segst; s_trains : list trainst;
  s_boost : list boost; s_cs : list N;                                  (* parallel to the boards *)
  s_points : list baccst; s_signals : list baccst; s_dpoints : list daccst; s_dsignals : list daccst;
  s_per : list perst; s_rev : list revst }.

Definition set_boards (s : st) v := {| s_boards := v; s_segs := s_segs s; s_trains := s_trains s; s_boost := s_boost s; s_cs := s_cs s;
  s_points := s_points s; s_signals := s_signals s; s_dpoints := s_dpoints s; s_dsignals := s_dsignals s; s_per := s_per s; s_rev := s_rev s |}.
Definition set_segs (s : st) v := {| s_boards := s_boards s; s_segs := v; s_trains := s_trains s; s_boost := s_boost s; s_cs := s_cs s;
  s_points := s_points s; s_signals := s_signals s; s_dpoints := s_dpoints s; s_dsignals := s_dsignals s; s_per := s_per s; s_rev := s_rev s |}.
Definition set_trains (s : st) v := {| s_boards := s_boards s; s_segs := s_segs s; s_trains := v; s_boost := s_boost s; s_cs := s_cs s;
  s_points := s_points s; s_signals := s_signals s; s_dpoints := s_dpoints s; s_dsignals := s_dsignals s; s_per := s_per s; s_rev := s_rev s |}.
Definition set_boost (s : st) v := {| s_boards := s_boards s; s_segs := s_segs s; s_trains := s_trains s; s_boost := v; s_cs := s_cs s;
  s_points := s_points s; s_signals := s_signals s; s_dpoints := s_dpoints s; s_dsignals := s_dsignals s; s_per := s_per s; s_rev := s_rev s |}.
Definition set_cs (s : st) v := {| s_boards := s_boards s; s_segs := s_segs s; s_trains := s_trains s; s_boost := s_boost s; s_cs := v;
  s_points := s_points s; s_signals := s_signals s; s_dpoints := s_dpoints s; s_dsignals := s_dsignals s; s_per := s_per s; s_rev := s_rev s |}.
Definition set_points (s : st) v := {| s_boards := s_boards s; s_segs := s_segs s; s_trains := s_trains s; s_boost := s_boost s; s_cs := s_cs s;
  s_points := v; s_signals := s_signals s; s_dpoints := s_dpoints s; s_dsignals := s_dsignals s; s_per := s_per s; s_rev := s_rev s |}.
Definition set_signals (s : st) v := {| s_boards := s_boards s; s_segs := s_segs s; s_trains := s_trains s; s_boost := s_boost s; s_cs := s_cs s;
  s_points := s_points s; s_signals := v; s_dpoints := s_dpoints s; s_dsignals := s_dsignals s; s_per := s_per s; s_rev := s_rev s |}.
Definition set_dpoints (s : st) v := {| s_boards := s_boards s; s_segs := s_segs s; s_trains := s_trains s; s_boost := s_boost s; s_cs := s_cs s;
  s_points := s_points s; s_signals := s_signals s; s_dpoints := v; s_dsignals := s_dsignals s; s_per := s_per s; s_rev := s_rev s |}.
Definition set_dsignals (s : st) v := {| s_boards := s_boards s; s_segs := s_segs s; s_trains := s_trains s; s_boost := s_boost s; s_cs := s_cs s;
  s_points := s_points s; s_signals := s_signals s; s_dpoints := s_dpoints s; s_dsignals := v; s_per := s_per s; s_rev := s_rev s |}.
Definition set_per (s : st) v := {| s_boards := s_boards s; s_segs := s_segs s; s_trains := s_trains s; s_boost := s_boost s; s_cs := s_cs s;
  s_points := s_points s; s_signals := s_signals s; s_dpoints := s_dpoints s; s_dsignals := s_dsignals s; s_per := v; s_rev := s_rev s |}.
Definition set_rev (s : st) v := {| s_boards := s_boards s; s_segs := s_segs s; s_trains := s_trains s; s_boost := s_boost s; s_cs := s_cs s;
  s_points := s_points s; s_signals := s_signals s; s_dpoints := s_dpoints s; s_dsignals := s_dsignals s; s_per := s_per s; s_rev := v |}.

(* ---- initial values: what the config parsers store (equal to bidib_state_reset where that resets) ---- *)
Definition power0 : power := {| pw_known := false; pw_over := false; pw_cur := 0 |}.
Definition seg0 : segst := {| sg_occ := false; sg_void := false; sg_freeze := false; sg_nosig := false; sg_pw := power0; sg_addrs := [] |}.
Definition train0 (tc : train_cfg) : trainst :=
  {| tr_on := false; tr_left := true; tr_step := 0%Z; tr_fwd := true; tr_ack := E_BIDIB_DCC_ACK_PENDING; tr_kmh := 0;
     tr_per := map (fun _ => 0) (tc_bits tc); tr_dec := [None; None; None; None; None] |}.
Definition boost0 : boost := {| bo_ps := E_BIDIB_BSTR_OFF; bo_simple := nth 0 booster_simple_table E_BIDIB_BSTR_SIMPLE_ERROR;
                                bo_pw := power0; bo_vk := false; bo_v := 0; bo_tk := false; bo_t := 0 |}.
Definition bacc0 : baccst := {| ba_sid := None; ba_val := 0; ba_exec := E_BIDIB_EXEC_STATE_REACHED; ba_wait := 0 |}.
Definition dacc0 : daccst := {| da_sid := None; da_val := 0; da_coil := true; da_oct := true; da_ack := E_BIDIB_DCC_ACK_PENDING;
                                da_unit := E_BIDIB_TIMEUNIT_MILLISECONDS; da_time := 0 |}.
Definition per0 : perst := {| pe_sid := None; pe_val := 0; pe_unit := E_BIDIB_TIMEUNIT_MILLISECONDS; pe_wait := 0 |}.
Definition rev0 : revst := {| rv_set := false; rv_val := E_BIDIB_REV_EXEC_STATE_UNKNOWN |}.

Definition init (c : cfg) : st :=
  {| s_boards := map (fun _ => {| bd_conn := false; bd_addr := (0, 0, 0) |}) (c_boards c);
     s_segs := repeat seg0 (c_nsegs c);
     s_trains := map train0 (c_trains c);
     s_boost := map (fun _ => boost0) (c_boards c);
     s_cs := map (fun _ => E_BIDIB_CS_OFF) (c_boards c);
     s_points := repeat bacc0 (c_npoints c); s_signals := repeat bacc0 (c_nsignals c);
     s_dpoints := repeat dacc0 (c_ndpoints c); s_dsignals := repeat dacc0 (c_ndsignals c);
     s_per := repeat per0 (c_nper c); s_rev := repeat rev0 (c_nrev c) |}.

(* ------------------------------------------------------------------ lookups (bidib_state_getter.c) *)
(* bidib_state_get_board_ref_by_nodeaddr: the first connected board with that address *)
Definition board_by_addr (c : cfg) (s : st) (a : naddr) : option (nat * board_cfg) :=
  match find_idx (fun b => bd_conn b && addr_eqb (bd_addr b) a) (s_boards s) 0 with
  | Some i => match nth_error (c_boards c) i with Some bc => Some (i, bc) | None => None end
  | None => None
  end.
Definition board_by_uid (c : cfg) (uid : list N) : option nat :=
  find_idx (fun bc => list_eqb uid (bc_uid bc)) (c_boards c) 0.

(* bidib_state_get_segment_state_ref_by_nodeaddr *)
Definition seg_ref (c : cfg) (s : st) (a : naddr) (num : N) : option (nat * segst) :=
  match board_by_addr c s a with
  | Some (_, bc) =>
      match find (fun m => fst m =? num) (bc_segs bc) with
      | Some (_, g) => match nth_error (s_segs s) g with Some sg => Some (g, sg) | None => None end
      | None => None
      end
  | None => None
  end.

(* bidib_state_get_train_state_ref_by_dccaddr: the address as configured wins (first pass, exact match of both
   bytes); otherwise the orientation bits (the two top bits of addrh) are ignored on both sides (second pass) *)
Definition dcc_exact (l h : N) (tc : train_cfg) : bool := (l =? tc_l tc) && (h =? tc_h tc).
Definition dcc_masked (l h : N) (tc : train_cfg) : bool := (l =? tc_l tc) && (N.land h 63 =? N.land (tc_h tc) 63).
Definition train_by_dcc (c : cfg) (l h : N) : option nat :=
  match find_idx (dcc_exact l h) (c_trains c) 0 with
  | Some i => Some i
  | None => find_idx (dcc_masked l h) (c_trains c) 0
  end.
Definition train_ref (c : cfg) (s : st) (l h : N) : option (nat * train_cfg * trainst) :=
  match train_by_dcc c l h with
  | Some i => match nth_error (c_trains c) i, nth_error (s_trains s) i with
              | Some tc, Some ts => Some (i, tc, ts)
              | _, _ => None
              end
  | None => None
  end.

(* bidib_state_get_board_accessory_mapping_ref_by_number: points first, then signals *)
Definition bacc_ref (c : cfg) (s : st) (a : naddr) (num : N) : option (bool * bacc_map) :=
  match board_by_addr c s a with
  | Some (_, bc) =>
      match find (fun m => am_num m =? num) (bc_points bc) with
      | Some m => Some (true, m)
      | None => match find (fun m => am_num m =? num) (bc_signals bc) with
                | Some m => Some (false, m)
                | None => None
                end
      end
  | None => None
  end.
(* bidib_state_get_dcc_accessory_mapping_ref_by_dccaddr: no masking of addrh *)
Definition dacc_ref (c : cfg) (s : st) (a : naddr) (l h : N) : option (bool * dacc_map) :=
  match board_by_addr c s a with
  | Some (_, bc) =>
      match find (fun m => (dm_h m =? h) && (dm_l m =? l)) (bc_dpoints bc) with
      | Some m => Some (true, m)
      | None => match find (fun m => (dm_h m =? h) && (dm_l m =? l)) (bc_dsignals bc) with
                | Some m => Some (false, m)
                | None => None
                end
      end
  | None => None
  end.
Definition per_ref (c : cfg) (s : st) (a : naddr) (p0 p1 : N) : option per_map :=
  match board_by_addr c s a with
  | Some (_, bc) => find (fun m => (pm_p0 m =? p0) && (pm_p1 m =? p1)) (bc_periph bc)
  | None => None
  end.
Definition rev_ref (c : cfg) (s : st) (a : naddr) (cv : list N) : option rev_map :=
  match board_by_addr c s a with
  | Some (_, bc) => find (fun m => list_eqb cv (rm_cv m)) (bc_revs bc)
  | None => None
  end.
Definition aspect_id (asp : list aspect) (v : N) : option nat :=
  match find (fun x => as_val x =? v) asp with Some x => Some (as_id x) | None => None end.

(* ------------------------------------------------------------------ train position (the getter) and availability *)
Definition dcc_match (tc : train_cfg) (d : dcc) : bool := (tc_h tc =? d_h d) && (tc_l tc =? d_l d).

(* every (segment index, address type) pair whose address is the train's, in segment-table order and,
   inside a segment, in list order: the entries bidib_get_train_position_intern copies *)
Fixpoint pos_from (tc : train_cfg) (segs : list segst) (g : nat) : list (nat * N) :=
  match segs with
  | [] => []
  | sg :: r => map (fun d => (g, d_t d)) (filter (dcc_match tc) (sg_addrs sg)) ++ pos_from tc r (S g)
  end.
Definition position (tc : train_cfg) (segs : list segst) : list (nat * N) := pos_from tc segs 0.
(* orientation_is_left of the query: initialised true, overwritten by every copied entry *)
Definition pos_left (p : list (nat * N)) : bool := match last (map snd p) 1 with 0 => true | _ => false end.
Definition pos_is_left (p : list (nat * N)) : bool := match p with [] => true | _ => pos_left p end.

(* bidib_state_update_train_available, for one train *)
Definition avail1 (segs : list segst) (tc : train_cfg) (ts : trainst) : trainst :=
  let p := position tc segs in
  match p with
  | [] => {| tr_on := false; tr_left := tr_left ts; tr_step := tr_step ts; tr_fwd := tr_fwd ts; tr_ack := tr_ack ts;
             tr_kmh := tr_kmh ts; tr_per := tr_per ts; tr_dec := tr_dec ts |}
  | _ => {| tr_on := true; tr_left := pos_left p; tr_step := tr_step ts; tr_fwd := tr_fwd ts; tr_ack := tr_ack ts;
            tr_kmh := tr_kmh ts; tr_per := tr_per ts; tr_dec := tr_dec ts |}
  end.
Fixpoint avail_all (segs : list segst) (tcs : list train_cfg) (tss : list trainst) : list trainst :=
  match tss, tcs with
  | ts :: tss', tc :: tcs' => avail1 segs tc ts :: avail_all segs tcs' tss'
  | _, _ => tss
  end.
Definition update_avail (c : cfg) (s : st) : st := set_trains s (avail_all (s_segs s) (c_trains c) (s_trains s)).

(* ------------------------------------------------------------------ conversions *)
(* the if-chain of bidib_state_bm_current / the key-0 case of bidib_state_boost_diagnostic *)
Definition power_of_code (p : power) (code : N) : power :=
  if code =? 0 then {| pw_known := true; pw_over := false; pw_cur := 0 |}
  else if code <? 16 then {| pw_known := true; pw_over := false; pw_cur := code |}
  else if code <? 64 then {| pw_known := true; pw_over := false; pw_cur := (code - 12) * 4 |}
  else if code <? 128 then {| pw_known := true; pw_over := false; pw_cur := (code - 51) * 16 |}
  else if code <? 192 then {| pw_known := true; pw_over := false; pw_cur := (code - 108) * 64 |}
  else if code <? 251 then {| pw_known := true; pw_over := false; pw_cur := (code - 171) * 256 |}
  else if code <? 254 then {| pw_known := false; pw_over := pw_over p; pw_cur := pw_cur p |}
  else if code <? 255 then {| pw_known := true; pw_over := true; pw_cur := pw_cur p |}
  else {| pw_known := false; pw_over := pw_over p; pw_cur := pw_cur p |}.

Definition speed_to_lib (speed : N) : Z := nth (N.to_nat speed) dcc_speed_table 0%Z.      (* generated from the C function *)
Definition simple_of (state : N) : N := nth (N.to_nat state) booster_simple_table E_BIDIB_BSTR_SIMPLE_ERROR.

(* ------------------------------------------------------------------ faults and results *)
(* Since the C12 repairs (/repo: bidib_min_data_length guard, vendor length check, MULTIPLE bitmap check, cs state name
   lookup) no message content makes the dispatcher or a setter read outside the message copy. One undefined behaviour
   is left, and it depends on the CONFIGURATION only: a board accessory mapping without aspects (rejected by the
   config parser) makes bidib_state_accessory_state use an uninitialised pointer. *)
Inductive sfault :=
| SF_no_aspect.                (* accessory_state: aspect_mapping used uninitialised (mapping without aspects) *)
Inductive res := Ok (s : st) | Fault (f : sfault).

(* ------------------------------------------------------------------ setters (bidib_state_setter.c) *)
Definition local_addr (a : naddr) (local : N) : naddr :=
  let '(t, sb, ss) := a in
  if t =? 0 then (local, sb, ss) else if sb =? 0 then (t, local, ss) else (t, sb, local).

Definition node_new (c : cfg) (s : st) (a : naddr) (local : N) (uid : list N) : st :=
  match board_by_uid c uid with
  | Some i => set_boards s (upd_nth i (fun _ => {| bd_conn := true; bd_addr := local_addr a local |}) (s_boards s))
  | None => s
  end.

Definition is_subnode (node sub : naddr) : bool :=
  let '(n1, n2, n3) := node in let '(s1, s2, s3) := sub in
  if negb (n1 =? s1) then n1 =? 0
  else if negb (n2 =? s2) then n2 =? 0
  else if negb (n3 =? s3) then n3 =? 0
  else false.

(* bidib_state_node_lost (node_address, local_addr, unique_id): the board with that unique id, if configured, is
   disconnected; if the NOTICE's unique id is an interface's (class bit 7), every board beneath the announced
   address (announcer address extended by the local address) is disconnected too, whether or not the interface
   itself is configured *)
Definition disconnect (x : bdyn) : bdyn := {| bd_conn := false; bd_addr := bd_addr x |}.
Definition uid_is_interface (uid : list N) : bool := bit (hd 0 uid) 7.
Definition node_lost (c : cfg) (s : st) (a : naddr) (local : N) (uid : list N) : st :=
  let lost := local_addr a local in
  let bs1 := match board_by_uid c uid with Some i => upd_nth i disconnect (s_boards s) | None => s_boards s end in
  if uid_is_interface uid
  then set_boards s (map (fun x => if is_subnode lost (bd_addr x) then disconnect x else x) bs1)
  else set_boards s bs1.

Definition seg_set_occ (occ : bool) (sg : segst) : segst :=
  {| sg_occ := occ; sg_void := sg_void sg; sg_freeze := sg_freeze sg; sg_nosig := sg_nosig sg; sg_pw := sg_pw sg;
     sg_addrs := if occ then sg_addrs sg else [] |}.
Definition seg_set_addrs (l : list dcc) (sg : segst) : segst :=
  {| sg_occ := sg_occ sg; sg_void := sg_void sg; sg_freeze := sg_freeze sg; sg_nosig := sg_nosig sg; sg_pw := sg_pw sg; sg_addrs := l |}.
Definition seg_set_conf (v f n : bool) (sg : segst) : segst :=
  {| sg_occ := sg_occ sg; sg_void := v; sg_freeze := f; sg_nosig := n; sg_pw := sg_pw sg; sg_addrs := sg_addrs sg |}.
Definition seg_set_pw (p : power) (sg : segst) : segst :=
  {| sg_occ := sg_occ sg; sg_void := sg_void sg; sg_freeze := sg_freeze sg; sg_nosig := sg_nosig sg; sg_pw := p; sg_addrs := sg_addrs sg |}.

(* bidib_state_bm_occ (MSG_BM_OCC / MSG_BM_FREE) *)
Definition bm_occ (c : cfg) (s : st) (a : naddr) (num : N) (occ : bool) : st :=
  match seg_ref c s a num with
  | Some (g, _) => update_avail c (set_segs s (upd_nth g (seg_set_occ occ) (s_segs s)))
  | None => s
  end.

(* bidib_state_bm_multiple: one loop step for bit i; the train update runs once at the end, always *)
Definition multiple_step (c : cfg) (a : naddr) (num : N) (data : list N) (s : st) (i : nat) : st :=
  match seg_ref c s a (num + N.of_nat i) with
  | Some (g, _) => set_segs s (upd_nth g (seg_set_occ (bit (nth (i / 8) data 0) (N.of_nat (i mod 8)))) (s_segs s))
  | None => s
  end.
Definition multiple_count (num size : N) : nat := N.to_nat (N.min size (255 - num)).    (* the i with number + i < 255 *)
Definition bm_multiple (c : cfg) (s : st) (a : naddr) (num size : N) (data : list N) : st :=
  update_avail c (fold_left (multiple_step c a num data) (seq 0 (multiple_count num size)) s).
(* the dispatcher's test in case MSG_BM_MULTIPLE: `(size + 7) / 8 > data_length - 2` => the report is ignored as a whole *)
Definition bitmap_complete (size : N) (bits : list N) : bool := (N.to_nat ((size + 7) / 8) <=? length bits)%nat.

Definition bm_confidence (c : cfg) (s : st) (a : naddr) (v f n : N) : st :=
  match board_by_addr c s a with
  | Some (_, bc) =>
      set_segs s (fold_left (fun segs m => upd_nth (snd m) (seg_set_conf (negb (v =? 0)) (negb (f =? 0)) (negb (n =? 0))) segs) (bc_segs bc) (s_segs s))
  | None => s
  end.

(* the address list of MSG_BM_ADDRESS after the segment number: (addrl, addrh) pairs *)
Fixpoint pairs (l : list N) : list (N * N) :=
  match l with
  | a :: b :: r => (a, b) :: pairs r
  | _ => []
  end.
Definition is_free_form (ps : list (N * N)) : bool :=
  match ps with [(0, 0)] => true | _ => false end.
Definition loco_entries (ps : list (N * N)) : list dcc :=
  map (fun p => {| d_l := fst p; d_h := N.land (snd p) 63; d_t := N.land (N.shiftr (snd p) 6) 3 |})
      (filter (fun p => negb (bit (snd p) 6)) ps).
Definition bm_address (c : cfg) (s : st) (a : naddr) (num : N) (addrs : list N) : st :=
  match seg_ref c s a num with
  | Some (g, _) =>
      let ps := pairs addrs in
      let l := if is_free_form ps then [] else loco_entries ps in
      update_avail c (set_segs s (upd_nth g (seg_set_addrs l) (s_segs s)))
  | None => s
  end.

Definition bm_current (c : cfg) (s : st) (a : naddr) (num code : N) : st :=
  match seg_ref c s a num with
  | Some (g, sg) => set_segs s (upd_nth g (seg_set_pw (power_of_code (sg_pw sg) code)) (s_segs s))
  | None => s
  end.

Definition tr_set_kmh (v : N) (t : trainst) : trainst :=
  {| tr_on := tr_on t; tr_left := tr_left t; tr_step := tr_step t; tr_fwd := tr_fwd t; tr_ack := tr_ack t; tr_kmh := v; tr_per := tr_per t; tr_dec := tr_dec t |}.
Definition tr_set_ack (v : N) (t : trainst) : trainst :=
  {| tr_on := tr_on t; tr_left := tr_left t; tr_step := tr_step t; tr_fwd := tr_fwd t; tr_ack := v; tr_kmh := tr_kmh t; tr_per := tr_per t; tr_dec := tr_dec t |}.
Definition tr_set_dec (k : nat) (v : N) (t : trainst) : trainst :=
  {| tr_on := tr_on t; tr_left := tr_left t; tr_step := tr_step t; tr_fwd := tr_fwd t; tr_ack := tr_ack t; tr_kmh := tr_kmh t; tr_per := tr_per t;
     tr_dec := upd_nth k (fun _ => Some v) (tr_dec t) |}.
Definition tr_set_drive (step : Z) (fwd : bool) (t : trainst) : trainst :=
  {| tr_on := tr_on t; tr_left := tr_left t; tr_step := step; tr_fwd := fwd; tr_ack := tr_ack t; tr_kmh := tr_kmh t; tr_per := tr_per t; tr_dec := tr_dec t |}.
Definition tr_set_per (p : list N) (t : trainst) : trainst :=
  {| tr_on := tr_on t; tr_left := tr_left t; tr_step := tr_step t; tr_fwd := tr_fwd t; tr_ack := tr_ack t; tr_kmh := tr_kmh t; tr_per := p; tr_dec := tr_dec t |}.

Definition bm_speed (c : cfg) (s : st) (l h sl sh : N) : st :=
  match train_ref c s l h with
  | Some (i, _, _) => set_trains s (upd_nth i (tr_set_kmh (N.lor (N.shiftl sh 8) sl)) (s_trains s))
  | None => s
  end.
Definition bm_dyn_state (c : cfg) (s : st) (l h dyn v : N) : st :=
  match train_ref c s l h with
  | Some (i, _, _) =>
      if (1 <=? dyn) && (dyn <=? 5) then set_trains s (upd_nth i (tr_set_dec (N.to_nat (dyn - 1)) v) (s_trains s)) else s
  | None => s
  end.
Definition cs_drive_ack (c : cfg) (s : st) (l h ack : N) : st :=
  match train_ref c s l h with
  | Some (i, _, _) => set_trains s (upd_nth i (tr_set_ack ack) (s_trains s))
  | None => s
  end.

(* bidib_state_cs_drive: the four function bytes; group k of `active` covers the bit range below *)
Record drive := { dr_l : N; dr_h : N; dr_fmt : N; dr_active : N; dr_speed : N; dr_f1 : N; dr_f2 : N; dr_f3 : N; dr_f4 : N }.
Definition fbit (p : drive) (i : N) : N :=
  let byte := match i / 8 with 0 => dr_f1 p | 1 => dr_f2 p | 2 => dr_f3 p | _ => dr_f4 p end in
  if bit byte (i mod 8) then 1 else 0.
Definition group_of_bit (i : N) : option N :=       (* which bit of `active` switches function bit i; None: never written *)
  if i <? 5 then Some 1 else if i <? 8 then None else if i <? 12 then Some 2 else if i <? 16 then Some 3
  else if i <? 24 then Some 4 else if i <? 32 then Some 5 else None.
Definition drive_per (p : drive) (bits : list N) (per : list N) : list N :=
  map (fun bp => match group_of_bit (fst bp) with
                 | Some g => if bit (dr_active p) g then fbit p (fst bp) else snd bp
                 | None => snd bp
                 end) (combine bits per).
Definition cs_drive (c : cfg) (s : st) (p : drive) : st :=
  match train_ref c s (dr_l p) (dr_h p) with
  | Some (i, tc, ts) =>
      if dr_active p =? 0
      then set_trains s (upd_nth i (fun t => tr_set_per (map (fun _ => 0) (tr_per t)) (tr_set_drive 0%Z true t)) (s_trains s))
      else
        let t1 := if bit (dr_active p) 0 then tr_set_drive (speed_to_lib (dr_speed p)) (128 <=? dr_speed p) ts else ts in
        let t2 := tr_set_ack E_BIDIB_DCC_ACK_PENDING t1 in
        (* peripheral states exist pairwise with the configured bits; a shorter state list keeps its tail *)
        let per := drive_per p (tc_bits tc) (tr_per ts) ++ skipn (length (tc_bits tc)) (tr_per ts) in
        set_trains s (upd_nth i (fun _ => tr_set_per per t2) (s_trains s))
  | None => s
  end.

Definition upd_dacc (s : st) (point : bool) (i : nat) (f : daccst -> daccst) : st :=
  if point then set_dpoints s (upd_nth i f (s_dpoints s)) else set_dsignals s (upd_nth i f (s_dsignals s)).
Definition dacc_exists (s : st) (point : bool) (i : nat) : bool :=
  match nth_error (if point then s_dpoints s else s_dsignals s) i with Some _ => true | None => false end.

Definition cs_accessory_ack (c : cfg) (s : st) (a : naddr) (l h ack : N) : st :=
  match dacc_ref c s a l h with
  | Some (pt, m) => upd_dacc s pt (dm_idx m) (fun d => {| da_sid := da_sid d; da_val := da_val d; da_coil := da_coil d; da_oct := da_oct d;
                                                         da_ack := ack; da_unit := da_unit d; da_time := da_time d |})
  | None => s
  end.
Definition cs_accessory_manual (c : cfg) (s : st) (a : naddr) (l h data : N) : st :=
  match dacc_ref c s a l h with
  | Some (pt, m) => upd_dacc s pt (dm_idx m) (fun d => {| da_sid := da_sid d; da_val := N.land data 31; da_coil := bit data 5; da_oct := da_oct d;
                                                         da_ack := da_ack d; da_unit := da_unit d; da_time := 0 |})
  | None => s
  end.
(* bidib_state_cs_accessory: the optimistic effect of the user's own DCC accessory command *)
Definition cs_accessory (c : cfg) (s : st) (a : naddr) (l h data time : N) : st :=
  match dacc_ref c s a l h with
  | Some (pt, m) => upd_dacc s pt (dm_idx m) (fun d => {| da_sid := None; da_val := N.land data 31; da_coil := bit data 5; da_oct := negb (bit data 6);
                                                         da_ack := da_ack d;
                                                         da_unit := if bit time 7 then E_BIDIB_TIMEUNIT_SECONDS else E_BIDIB_TIMEUNIT_MILLISECONDS;
                                                         da_time := N.land time 127 |})
  | None => s
  end.

Definition accessory_state (c : cfg) (s : st) (a : naddr) (num asp exec wait : N) : res :=
  match bacc_ref c s a num with
  | Some (pt, m) =>
      match nth_error (if pt then s_points s else s_signals s) (am_idx m) with
      | Some _ =>
          match am_aspects m with
          | [] => Fault SF_no_aspect
          | _ =>
              let f := fun _ : baccst => {| ba_sid := aspect_id (am_aspects m) asp; ba_val := asp; ba_exec := exec; ba_wait := wait |} in
              Ok (if pt then set_points s (upd_nth (am_idx m) f (s_points s)) else set_signals s (upd_nth (am_idx m) f (s_signals s)))
          end
      | None => Ok s
      end
  | None => Ok s
  end.

Definition lc_stat (c : cfg) (s : st) (a : naddr) (p0 p1 stat : N) : st :=
  match per_ref c s a p0 p1 with
  | Some m => set_per s (upd_nth (pm_idx m) (fun p => {| pe_sid := aspect_id (pm_aspects m) stat; pe_val := stat; pe_unit := pe_unit p; pe_wait := pe_wait p |}) (s_per s))
  | None => s
  end.
Definition lc_wait (c : cfg) (s : st) (a : naddr) (p0 p1 time : N) : st :=
  match per_ref c s a p0 p1 with
  | Some m => set_per s (upd_nth (pm_idx m) (fun p => {| pe_sid := pe_sid p; pe_val := pe_val p;
                                                         pe_unit := if bit time 7 then E_BIDIB_TIMEUNIT_SECONDS else E_BIDIB_TIMEUNIT_MILLISECONDS;
                                                         pe_wait := N.land time 127 |}) (s_per s))
  | None => s
  end.

Definition boost_state (c : cfg) (s : st) (a : naddr) (state : N) : st :=
  match board_by_addr c s a with
  | Some (i, bc) =>
      if is_booster bc
      then set_boost s (upd_nth i (fun b => {| bo_ps := state; bo_simple := simple_of state; bo_pw := bo_pw b; bo_vk := bo_vk b; bo_v := bo_v b;
                                              bo_tk := bo_tk b; bo_t := bo_t b |}) (s_boost s))
      else s
  | None => s
  end.

(* bidib_state_boost_diagnostic: `for (i = 0; i + 1 < length; i += 2) switch (diag_list[i])` reading diag_list[i + 1]:
   (key, value) pairs; an incomplete trailing pair is ignored *)
Definition diag_apply (b : boost) (key v : N) : boost :=
  if key =? 0 then {| bo_ps := bo_ps b; bo_simple := bo_simple b; bo_pw := power_of_code (bo_pw b) v; bo_vk := bo_vk b; bo_v := bo_v b; bo_tk := bo_tk b; bo_t := bo_t b |}
  else if key =? 1 then
    (if v <? 251 then {| bo_ps := bo_ps b; bo_simple := bo_simple b; bo_pw := bo_pw b; bo_vk := true; bo_v := v; bo_tk := bo_tk b; bo_t := bo_t b |}
     else {| bo_ps := bo_ps b; bo_simple := bo_simple b; bo_pw := bo_pw b; bo_vk := false; bo_v := bo_v b; bo_tk := bo_tk b; bo_t := bo_t b |})
  else if key =? 2 then {| bo_ps := bo_ps b; bo_simple := bo_simple b; bo_pw := bo_pw b; bo_vk := bo_vk b; bo_v := bo_v b; bo_tk := true; bo_t := v |}
  else b.
Fixpoint diag_loop (l : list N) (b : boost) : boost :=
  match l with
  | k :: v :: r => diag_loop r (diag_apply b k v)
  | _ => b
  end.
Definition boost_diagnostic (c : cfg) (s : st) (a : naddr) (l : list N) : st :=
  match board_by_addr c s a with
  | Some (i, bc) => if is_booster bc then set_boost s (upd_nth i (diag_loop l) (s_boost s)) else s
  | None => s
  end.

(* every state byte is stored (its name for the log comes from a switch, bidib_cs_state_string) *)
Definition cs_state (c : cfg) (s : st) (a : naddr) (state : N) : st :=
  match board_by_addr c s a with
  | Some (i, bc) => if is_output bc then set_cs s (upd_nth i (fun _ => state) (s_cs s)) else s
  | None => s
  end.

(* bidib_state_vendor: strndup stops at a NUL byte *)
Fixpoint until_nul (l : list N) : list N :=
  match l with
  | [] => []
  | x :: r => if x =? 0 then [] else x :: until_nul r
  end.
(* the acceptance test of bidib_state_vendor: both embedded lengths must fit into the list
   (length >= 2, name_len + 2 <= length, name_len + 2 + value_len <= length; the second length byte is read only
   when it is inside) *)
Definition vendor_fits (vl : list N) : bool :=
  match vl with
  | [] => false
  | nl :: _ =>
      let len := length vl in
      (2 <=? len)%nat && (N.to_nat nl + 2 <=? len)%nat &&
      (N.to_nat nl + 2 + N.to_nat (nth (N.to_nat nl + 1) vl 0%N) <=? len)%nat
  end.
Definition vendor (c : cfg) (s : st) (a : naddr) (vl : list N) : st :=
  if negb (vendor_fits vl) then s else
  match vl with
  | [] => s
  | nl :: rest =>
      let len := length vl in
      let name := until_nul (firstn (N.to_nat nl) rest) in
      let vlen := N.to_nat (nth (N.to_nat nl + 1) vl 0) in
      let value := until_nul (firstn vlen (skipn (len - vlen) vl)) in      (* the value is taken from the END of the list *)
      match rev_ref c s a name with
      | Some m =>
          let v := match value with
                   | 48 :: _ => E_BIDIB_REV_EXEC_STATE_OFF
                   | 51 :: _ => E_BIDIB_REV_EXEC_STATE_ON
                   | _ => E_BIDIB_REV_EXEC_STATE_UNKNOWN
                   end in
          set_rev s (upd_nth (rm_idx m) (fun _ => {| rv_set := true; rv_val := v |}) (s_rev s))
      | None => s
      end
  end.

(* ------------------------------------------------------------------ the dispatcher's field extraction *)
(* bidib_min_data_length (generated: AccessTab.min_tab): a message with fewer data bytes is ignored by the dispatcher
   before anything of it is read; a message without data bytes has data length 0 (data_index is -1) *)
Definition min_data (ty : N) : nat :=
  match find (fun p => fst p =? ty) min_tab with Some (_, n) => n | None => O end.

Definition addr3 (a : list N) : naddr := (nth 0 a 0, nth 1 a 0, nth 2 a 0).

(* the switch of bidib_handle_received_message; the `_ => Ok s` branches of the length matches are behind the guard *)
Definition handle_body (c : cfg) (s : st) (a : naddr) (ty : N) (data : list N) : res :=
  if ty =? MSG_NODE_NEW then
    match data with
    | _ :: local :: u1 :: u2 :: u3 :: u4 :: u5 :: u6 :: u7 :: _ => Ok (node_new c s a local [u1; u2; u3; u4; u5; u6; u7])
    | _ => Ok s
    end
  else if ty =? MSG_NODE_LOST then
    match data with
    | _ :: local :: u1 :: u2 :: u3 :: u4 :: u5 :: u6 :: u7 :: _ => Ok (node_lost c s a local [u1; u2; u3; u4; u5; u6; u7])
    | _ => Ok s
    end
  else if ty =? MSG_CS_STATE then
    match data with x :: _ => Ok (cs_state c s a x) | _ => Ok s end
  else if ty =? MSG_CS_DRIVE_ACK then
    match data with l :: h :: k :: _ => Ok (cs_drive_ack c s l h k) | _ => Ok s end
  else if ty =? MSG_CS_ACCESSORY_ACK then
    match data with l :: h :: k :: _ => Ok (cs_accessory_ack c s a l h k) | _ => Ok s end
  else if ty =? MSG_CS_DRIVE_MANUAL then
    match data with
    | l :: h :: fm :: ac :: sp :: f1 :: f2 :: f3 :: f4 :: _ =>
        Ok (cs_drive c s {| dr_l := l; dr_h := h; dr_fmt := fm; dr_active := ac; dr_speed := sp; dr_f1 := f1; dr_f2 := f2; dr_f3 := f3; dr_f4 := f4 |})
    | _ => Ok s
    end
  else if ty =? MSG_CS_ACCESSORY_MANUAL then
    match data with l :: h :: d :: _ => Ok (cs_accessory_manual c s a l h d) | _ => Ok s end
  else if ty =? MSG_LC_STAT then
    match data with p0 :: p1 :: v :: _ => Ok (lc_stat c s a p0 p1 v) | _ => Ok s end
  else if ty =? MSG_LC_WAIT then
    match data with p0 :: p1 :: v :: _ => Ok (lc_wait c s a p0 p1 v) | _ => Ok s end
  else if ty =? MSG_BM_OCC then
    match data with n :: _ => Ok (bm_occ c s a n true) | _ => Ok s end
  else if ty =? MSG_BM_FREE then
    match data with n :: _ => Ok (bm_occ c s a n false) | _ => Ok s end
  else if ty =? MSG_BM_MULTIPLE then
    match data with
    | n :: sz :: bits =>
        (* a report whose bitmap is incomplete is malformed and ignored as a whole (also covers the size/8 bytes the
           secure-ack mirror message copies) *)
        if bitmap_complete sz bits then Ok (bm_multiple c s a n sz bits) else Ok s
    | _ => Ok s
    end
  else if ty =? MSG_BM_CONFIDENCE then
    match data with v :: f :: n :: _ => Ok (bm_confidence c s a v f n) | _ => Ok s end
  else if ty =? MSG_BM_ADDRESS then
    match data with n :: addrs => Ok (bm_address c s a n addrs) | _ => Ok s end
  else if ty =? MSG_BM_CURRENT then
    match data with n :: v :: _ => Ok (bm_current c s a n v) | _ => Ok s end
  else if ty =? MSG_BM_SPEED then
    match data with l :: h :: sl :: sh :: _ => Ok (bm_speed c s l h sl sh) | _ => Ok s end
  else if ty =? MSG_BM_DYN_STATE then
    match data with _ :: l :: h :: d :: v :: _ => Ok (bm_dyn_state c s l h d v) | _ => Ok s end
  else if ty =? MSG_BOOST_DIAGNOSTIC then Ok (boost_diagnostic c s a data)
  else if (ty =? MSG_ACCESSORY_STATE) || (ty =? MSG_ACCESSORY_NOTIFY) then
    match data with n :: asp :: _ :: ex :: w :: _ => accessory_state c s a n asp ex w | _ => Ok s end
  else if ty =? MSG_BOOST_STAT then
    match data with x :: _ => Ok (boost_state c s a x) | _ => Ok s end
  else if ty =? MSG_VENDOR then Ok (vendor c s a data)
  else Ok s.                       (* every other type goes to a queue (C06) and leaves the tracked state alone *)

Definition handle (c : cfg) (s : st) (a : naddr) (ty : N) (data : list N) : res :=
  if (length data <? min_data ty)%nat then Ok s else handle_body c s a ty data.

(* ------------------------------------------------------------------ events and histories *)
Inductive event :=
| ENodeNew (sender : naddr) (local : N) (uid : list N)     (* bidib_state_node_new as called by the node-table walk *)
| EMsg (a : naddr) (ty : N) (data : list N)                (* an uplink message as delivered by the receiver *)
| EUserDrive (p : drive)                                   (* bidib_send_cs_drive: optimistic effect *)
| EUserAcc (node : naddr) (l h data time : N).             (* bidib_send_cs_accessory: optimistic effect *)

Definition drive_accepted (p : drive) : bool :=            (* range checks of bidib_send_cs_drive_intern *)
  negb ((dr_fmt p =? 1) || (3 <? dr_fmt p)) && negb (63 <? dr_active p) && negb (31 <? dr_f1 p).

Definition apply (c : cfg) (s : st) (e : event) : res :=
  match e with
  | ENodeNew a local uid => Ok (node_new c s a local uid)
  | EMsg a ty data => handle c s a ty data
  | EUserDrive p => Ok (if drive_accepted p then cs_drive c s p else s)
  | EUserAcc node l h data time => Ok (cs_accessory c s node l h data time)
  end.

Fixpoint run_from (c : cfg) (s : st) (h : list event) : res :=
  match h with
  | [] => Ok s
  | e :: r => match apply c s e with Ok s' => run_from c s' r | Fault f => Fault f end
  end.
Definition run (c : cfg) (h : list event) : res := run_from c (init c) h.

(* ------------------------------------------------------------------ what the getters show (used by the drivers) *)
Definition power_view (p : power) : option (option N) :=     (* None: unknown; Some None: overcurrent; Some (Some mA) *)
  if pw_known p then Some (if pw_over p then None else Some (pw_cur p)) else None.
Definition s8 (v : N) : Z := if v <? 128 then Z.of_N v else (Z.of_N v - 256)%Z.
Definition train_position (c : cfg) (s : st) (i : nat) : list nat * bool :=
  match nth_error (c_trains c) i, nth_error (s_trains s) i with
  | Some tc, Some _ => let p := position tc (s_segs s) in (map fst p, pos_is_left p)
  | _, _ => ([], true)
  end.
