"""C07 — tracked state equals the fold of all feedback messages over the initial state."""
import os, subprocess
import vlib, stategen
from vlib import Rng, hexs
from stategen import T


def spec_current(x):
    """BiDiB current code table (independent of model and code): -> 'u' unknown, 'o' overcurrent, or mA as str"""
    if x <= 15: return str(x)
    if x <= 63: return str((x - 12) * 4)
    if x <= 127: return str((x - 51) * 16)
    if x <= 191: return str((x - 108) * 64)
    if x <= 250: return str((x - 171) * 256)
    return "o" if x == 254 else "u"
def spec_simple(x):
    return 0 if x in (0x80, 0x81, 0x82, 0x84) else 1 if x in (0, 3, 4, 5, 6) else 2
def spec_speed(x):
    v = x & 0x7F
    return 0 if v <= 1 else (v - 1 if x & 0x80 else -(v - 1))

def enum_case(tmp):
    """one board (booster + command station + one segment) and one train; every byte value through every conversion"""
    c = stategen.Cfg()
    c.boards.append({"uid": [0x12, 0, 0x0D, 1, 2, 3, 4], "secack": False, "segs": [(0, 0)], "points": [], "signals": [], "dpoints": [], "dsignals": [], "periph": [], "revs": []})
    c.track_order = [0]; c.n["seg"] = 1; c.trains = [(3, 0, [])]
    d = os.path.join(tmp, "enum"); stategen.write_cfg(c, d)
    ev = [("nodenew", [0, 0, 0], 1, c.boards[0]["uid"])]; expect = []
    for x in range(256):
        ev.append(("msg", [1], T["BM_CURRENT"], [0, x])); expect.append(("seg g0", "pw=" + spec_current(x)))
    for x in range(256):               # value bytes 0,1,2 equal the key codes (the loop stepped by one byte until /repo d1aa21d)
        ev.append(("msg", [1], T["BOOST_DIAGNOSTIC"], [0, x])); expect.append(("bo b0", "pw=" + spec_current(x)))
        ev.append(("msg", [1], T["BOOST_DIAGNOSTIC"], [1, x])); expect.append(("bo b0", "volt=" + (str(x) if x <= 250 else "-")))
        ev.append(("msg", [1], T["BOOST_DIAGNOSTIC"], [2, x])); expect.append(("bo b0", "temp=%d" % (x if x < 128 else x - 256)))
    for x in range(256):
        ev.append(("msg", [1], T["BOOST_STAT"], [x])); expect.append(("bo b0", "ps=%d simple=%d" % (x, spec_simple(x))))
    for x in range(256):
        ev.append(("msg", [1], T["CS_DRIVE_MANUAL"], [3, 0, 3, 1, x, 0, 0, 0, 0])); expect.append(("tr t0", "step=%d fwd=%d" % (spec_speed(x), 1 if x >= 128 else 0)))
    for x in range(256):
        ev.append(("msg", [1], T["BM_SPEED"], [3, 0, x, 255 - x])); expect.append(("tr t0", "kmh=%d" % (((255 - x) << 8) | x)))
    # ordered pairs of current codes (one representative per arm of the conversion ladder and its neighbours): the reading after the
    # second message is the second code's alone, whatever the first left behind (flags such as overcurrent / known included)
    reps = [0, 1, 15, 16, 63, 64, 127, 128, 191, 192, 200, 250, 251, 253, 254, 255]
    for a in reps:
        for b in reps:
            for x in (a, b):
                ev.append(("msg", [1], T["BM_CURRENT"], [0, x])); expect.append(("seg g0", "pw=" + spec_current(x)))
    for a in reps:
        for b in reps:
            for x in (a, b):
                ev.append(("msg", [1], T["BOOST_DIAGNOSTIC"], [0, x])); expect.append(("bo b0", "pw=" + spec_current(x)))
    return {"cfg": c, "dir": d, "events": ev}, expect

MIN_DATA = {"NODE_LOST": 9, "NODE_NEW": 9, "VENDOR": 1, "BM_OCC": 1, "BM_FREE": 1, "BM_MULTIPLE": 2, "BM_ADDRESS": 1, "BM_SPEED": 4, "BM_CURRENT": 2,
            "BM_CONFIDENCE": 3, "BM_DYN_STATE": 5, "BOOST_STAT": 1, "BOOST_DIAGNOSTIC": 1, "ACCESSORY_STATE": 5, "ACCESSORY_NOTIFY": 5, "LC_STAT": 3,
            "LC_WAIT": 3, "CS_STATE": 1, "CS_DRIVE_ACK": 3, "CS_ACCESSORY_ACK": 3, "CS_DRIVE_MANUAL": 9, "CS_ACCESSORY_MANUAL": 3}

def guard_case(tmp):
    """the inputs that were memory errors before the C12 repairs (and the model's former fault predictions), now with a defined
    effect: a message with fewer data bytes than the fixed part of its type, a MULTIPLE report with an incomplete bitmap and a
    vendor report whose embedded lengths do not fit are ignored; every command-station state byte is stored. Expectations are
    stated here from the repaired rules, independent of the model."""
    c = stategen.Cfg()
    c.boards.append({"uid": [0x12, 0, 0x0D, 1, 2, 3, 5], "secack": True, "segs": [(0, 0), (7, 1)], "points": [(2, 0, [(1, 0), (0, 1)])], "signals": [],
                     "dpoints": [(0x22, 0x11, 0)], "dsignals": [], "periph": [(0x23, 1, 0, [(0, 0), (1, 1)])], "revs": [([0x33, 0x30], 0)]})
    c.track_order = [0]; c.n.update({"seg": 2, "p": 1, "dp": 1, "pe": 1, "r": 1}); c.trains = [(3, 0, [4])]
    d = os.path.join(tmp, "guard"); stategen.write_cfg(c, d)
    ev = [("nodenew", [0, 0, 0], 1, c.boards[0]["uid"]),
          ("msg", [1], T["BM_ADDRESS"], [0, 3, 0]), ("msg", [1], T["BM_CURRENT"], [7, 20]), ("msg", [1], T["BOOST_DIAGNOSTIC"], [0, 30, 1, 150, 2, 40]),
          ("msg", [1], T["CS_STATE"], [3]), ("msg", [1], T["LC_STAT"], [0x23, 1, 1]), ("msg", [1], T["ACCESSORY_STATE"], [2, 1, 2, 0, 0]),
          ("msg", [1], T["VENDOR"], [2, 0x33, 0x30, 1, 0x33])]
    expect = [None] * len(ev)
    fill = [0, 1, 2, 3, 0x30, 0x33, 7, 0x12, 0x0D]
    for name, mn in sorted(MIN_DATA.items()):
        for n in range(mn):
            ev.append(("msg", [1], T[name], fill[:n])); expect.append("unchanged")
            if n: ev.append(("msg", [1], T[name], [0xFF] * n)); expect.append("unchanged")
    for v in (9, 0x0D, 0xFF, 5, 0):
        ev.append(("msg", [1], T["CS_STATE"], [v])); expect.append(("to b0", "cs=%d" % v))
    for bits in ([0, 64, 0xFF], [0, 8], [0, 9, 0xFF], [248, 24, 0xFF, 0], [0, 255] + [0xFF] * 31):      # incomplete bitmaps
        ev.append(("msg", [1], T["BM_MULTIPLE"], bits)); expect.append("unchanged")
    ev.append(("msg", [1], T["BM_MULTIPLE"], [0, 9, 0xFF, 0xFF])); expect.append(("seg g1", "occ=1"))   # complete: 9 bits, 2 bytes
    for vl in ([0], [2, 0x33], [2, 0x33, 0x30], [2, 0x33, 0x30, 1], [2, 0x33, 0x30, 2, 0x30], [3, 0x33, 0x30, 1, 0x30], [255, 0x33, 0x30, 1, 0x30],
               [2, 0x33, 0x30, 255, 0x30], [1, 0x33, 4, 0x30, 0x30]):
        ev.append(("msg", [1], T["VENDOR"], vl)); expect.append("unchanged")
    ev.append(("msg", [1], T["VENDOR"], [2, 0x33, 0x30, 1, 0x30])); expect.append(("rv r0", "r0 0"))      # fits: reverser off
    ev.append(("msg", [1], T["VENDOR"], [2, 0x33, 0x30, 1, 0x33, 9, 9])); expect.append(("rv r0", "r0 2"))  # fits; value taken from the end: not '0'/'3'
    return {"cfg": c, "dir": d, "events": ev}, expect

def first_diff(di, ds):
    for k, (x, y) in enumerate(zip(di, ds)):
        if x != y:
            return k, [l for l in x if l not in y], [l for l in y if l not in x]
    return (min(len(di), len(ds)), [], []) if len(di) != len(ds) else None

def run(ck):
    vlib.CURRENT_EXTS = ("C07",)      # the driver commands of harness/ext_C07.inc (shared by C07 and C08)
    quick = ck.tier == "quick"
    cdir, ok = vlib.proof_phase(ck, "Properties_C07.v", translators=("tables", "statetabs", "access"))
    codes = stategen.tables_codes(cdir)
    badc = [k for k in T if codes.get(k) != T[k]]
    ck.oblige("message type codes used by the generator equal the source's", not badc, ",".join(badc))
    if badc: ck.broken.append({"kind": "translator", "name": "type-codes", "detail": badc})
    exe = vlib.build_harness(); md = vlib.build_model_driver(cdir, "_C07")
    tmp = vlib.mktmp("vc07")
    r = Rng(ck.seed).fork("C07")
    n = 3000 if quick else 80000
    ecase, expect = enum_case(tmp)
    gcase, gexpect = guard_case(tmp)
    gi = None
    dis = 0; evals = 0; nontrivial = 0; dist = {}; samples = []; orc = 0; diag_keyvals = 0; kinds = {}; nfaulty = 0; ei = None
    SH = 3000
    for s0 in range(0, n, SH):
        cnt = min(SH, n - s0); sdir = os.path.join(tmp, "s%d" % s0)
        cases = stategen.make_cases(r, cnt, sdir)
        last_shard = s0 + cnt >= n
        if last_shard: cases.append(ecase); cases.append(gcase)
        ids = list(range(s0, s0 + len(cases)))
        scripts = {i: stategen.script_of(i, cs["dir"], cs["cfg"], cs["events"]) for i, cs in zip(ids, cases)}
        text = "\n".join(l for i in ids for l in scripts[i]) + "\n"
        model = stategen.run_model(md, "model", text)
        spec = stategen.run_model(md, "spec", text)
        faulty = set(i for i in ids if any(l.startswith("model-fault") for l in model.get(str(i), [])))
        nfaulty += len(faulty)
        safe = [i for i in ids if i not in faulty]
        impl, crashed = stategen.run_impl(exe, scripts, safe)
        if last_shard: ei = impl.get(n); gi = impl.get(n + 1)
        for i in safe:
            cs = cases[i - s0]; il = impl.get(i); ml = model.get(str(i)); sl = spec.get(str(i))
            evj = [stategen.ev_json(e) for e in cs["events"]]
            if i in crashed or il is None:
                ck.violation("driver-crash", {"property": "C07", "cfg": stategen.cfg_json(cs["cfg"]), "events": evj[:200],
                                              "script": scripts[i][:400], "rc": crashed.get(i, ("?", ""))[0], "stderr": crashed.get(i, ("", ""))[1]})
                continue
            evals += 1
            di = stategen.real_dumps(il); dm = stategen.real_dumps(ml); ds = stategen.real_dumps(sl)
            # coverage: which message kinds hit a known entity (the dump changed)
            changed = 0
            for k in range(1, min(len(di), len(cs["events"]) + 1)):
                if di[k] != di[k - 1]:
                    changed += 1; e = cs["events"][k - 1]
                    name = e[0] if e[0] != "msg" else next((nm for nm, v in T.items() if v == e[2]), "?")
                    kinds[name] = kinds.get(name, 0) + 1
            if changed >= 3: nontrivial += 1
            if len(samples) < 2 and changed >= 6 and i < n:
                samples.append({"cfg": stategen.cfg_json(cs["cfg"]), "events": evj, "final_dump": di[-2] if len(di) > 1 else di})
            if len(di) not in (len(cs["events"]) + 1, len(cs["events"]) + 2):      # + the DCC accessory snapshot when there are DCC accessories
                ck.violation("dump-count", {"property": "C07", "reason": "expected %d dumps, got %d" % (len(cs["events"]) + 1, len(di)), "script": scripts[i][:400]}); continue
            # oracle: the specification's fold against what the getters of the implementation return
            if any(e[0] == "msg" and e[2] == T["BOOST_DIAGNOSTIC"] and any(v in (0, 1, 2) for v in e[3][1::2]) for e in cs["events"]): diag_keyvals += 1
            mi = [stategen.mask(cs["cfg"], d) for d in di]; ms = [stategen.mask(cs["cfg"], d) for d in ds]; mm = [stategen.mask(cs["cfg"], d) for d in dm]
            fd = first_diff(mi, ms)
            if fd is not None:
                k, only_impl, only_spec = fd
                e = cs["events"][k - 1] if 1 <= k <= len(cs["events"]) else None
                name = "?" if e is None else e[0] if e[0] != "msg" else next((nm for nm, v in T.items() if v == e[2]), "type-%02x" % e[2])
                orc += 1
                ck.violation("state-differs-from-spec." + name, {"property": "C07", "reason": "after event %d the getters of the implementation differ from the specification's fold" % k,
                                   "event": stategen.ev_json(e) if e else None, "implementation_only": only_impl, "specification_only": only_spec,
                                   "cfg": stategen.cfg_json(cs["cfg"]), "events": evj[:max(k, 1)] if i >= n else evj, "script": scripts[i][:400],
                                   "same_as_model": mi == mm})
            if mi != mm:
                dis += 1
                if dis <= 3:
                    fdm = first_diff(mi, mm)
                    ck.broken.append({"kind": "correspondence", "name": "corr_state", "cfg": stategen.cfg_json(cs["cfg"]), "events": evj[:200], "first_difference_dump": fdm[0],
                                      "impl_only": fdm[1], "model_only": fdm[2]})
        del model, spec, impl
        import shutil; shutil.rmtree(sdir, ignore_errors=True)
    # complete enumeration of the conversion tables against the independent tables above
    enum_bad = []
    if ei is not None:
        ed = stategen.real_dumps(ei)
        for k, (prefix, want) in enumerate(expect):
            d = ed[k + 2] if k + 2 < len(ed) else []   # ed[0] initial, ed[1] after nodenew, ed[k+2] after expectation k
            line = next((l for l in d if l.startswith(prefix + " ")), "")
            if (" " + want + " ") not in (line + " "): enum_bad.append((k, prefix, want, line))
        for k, prefix, want, line in enum_bad[:1]:
            ck.violation("conversion-table", {"property": "C07", "reason": "conversion differs from the BiDiB table", "expected": want, "getter_line": line,
                                              "event": stategen.ev_json(ecase["events"][k + 1])})
    ck.oblige("conversion tables by complete enumeration through the real library (256 current codes x2, voltage, temperature, booster state, speed byte, measured speed; 16x16 ordered pairs of current codes x2: %d values)" % len(expect),
              ei is not None and not enum_bad, "%d wrong" % len(enum_bad))
    # the former memory errors: now ignored / stored (positive counterpart of the old fault-witness obligation)
    guard_bad = []
    if gi is not None:
        gd = stategen.real_dumps(gi)
        for k, want in enumerate(gexpect):
            if want is None or k + 1 >= len(gd): continue
            if want == "unchanged":
                if gd[k + 1] != gd[k]: guard_bad.append((k, "state changed", [l for l in gd[k + 1] if l not in gd[k]]))
            else:
                line = next((l for l in gd[k + 1] if l.startswith(want[0] + " ")), "")
                if (" " + want[1] + " ") not in (line + " "): guard_bad.append((k, "expected %s %s" % want, [line]))
        if len(gd) < len(gexpect) + 1: guard_bad.append((len(gd), "only %d dumps for %d events" % (len(gd), len(gexpect)), []))
        for k, why, lines in guard_bad[:1]:
            ck.violation("malformed-message-not-ignored", {"property": "C07", "reason": "a message that is too short / has an incomplete bitmap / does not fit must leave the state unchanged; every command station state byte is stored: " + why,
                          "event": stategen.ev_json(gcase["events"][k]) if k < len(gcase["events"]) else None, "getter_lines": lines,
                          "cfg": stategen.cfg_json(gcase["cfg"]), "events": [stategen.ev_json(x) for x in gcase["events"][:k + 1]]})
    ck.oblige("too-short messages (every state-bearing type, every length below its minimum, incl. no data byte), incomplete MULTIPLE bitmaps and non-fitting vendor lengths are ignored, every command station state byte is stored (%d events through the real library, no sanitizer report)" % len(gexpect),
              gi is not None and not guard_bad, str(guard_bad[:2])[:300])
    ck.oblige("correspondence corr_state (all getters after every event, impl == model on %d histories)" % evals, dis == 0, "%d disagreements" % dis)
    ck.oblige("specification fold == implementation getters after every event (%d histories; %d with diagnostic value bytes equal to key codes)" % (evals, diag_keyvals), orc == 0, "%d mismatches" % orc)
    ck.coverage.update({"evaluations": evals, "distinct_nontrivial": nontrivial, "events_that_changed_the_state_by_kind": kinds,
                        "routed_to_C12_by_model_fault": nfaulty, "histories_with_diag_value_equal_key": diag_keyvals,
                        "rule": "seeded configurations (1-4 boards with every section empty/populated, trains with function bits) x histories of all 22 state-bearing message types + queue-only types + node new/lost + user drive / DCC accessory commands, for known, unknown and unconnected nodes / ports / numbers / addresses, arbitrary field values (boundary current codes, ack codes, address lists 0-16 incl. free form and accessory kinds, diagnostic lists in any order incl. value bytes 0/1/2 and incomplete trailing pairs); all getters dumped after every event; non-trivial = at least 3 events changed the state",
                        "samples": samples or [{"events": [stategen.ev_json(e) for e in ecase["events"][:20]]}], "disagreements_checked": dis})
    return vlib.finish_with_broken(ck, trusted=vlib.TRUSTED_COMMON + ["translator/gen_statetabs.py (enum values, table sizes, the two pure conversion functions evaluated by the compiled C)",
        "checks/stategen.py writes the YAML configuration for the library and the same configuration as cfg lines for the model driver (ids are index-named)"])

def replay(ck, path):
    def judge(c, events, di, dm, ds):
        mi = [stategen.mask(c, d) for d in di]; ms = [stategen.mask(c, d) for d in ds]
        fd = first_diff(mi, ms)
        return [] if fd is None else ["after event %d the getters differ from the specification's fold: implementation %s / specification %s" % fd]
    return stategen.replay_case(ck, path, judge)
