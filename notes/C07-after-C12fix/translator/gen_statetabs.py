#!/usr/bin/env python3
"""gen_statetabs: regenerate coq/StateTabs.v (enum values and table sizes used by the tracked-state
model State.v for C07/C08) from the repository's current source.

A C probe #includes the public header and the transmission-internal header, prints the values of
the enumeration constants that the setters store / the getters return and the lengths of the string
tables the setters index, and this script turns the output into Gallina. A renamed or removed
identifier makes the probe fail to compile -> TranslatorError (broken tie).
"""
import os, subprocess, tempfile, shutil

class TranslatorError(Exception):
    pass

ENUMS = [
    "BIDIB_DCC_ACK_PENDING", "BIDIB_TIMEUNIT_MILLISECONDS", "BIDIB_TIMEUNIT_SECONDS",
    "BIDIB_REV_EXEC_STATE_OFF", "BIDIB_REV_EXEC_STATE_ON", "BIDIB_REV_EXEC_STATE_UNKNOWN",
    "BIDIB_BSTR_SIMPLE_ON", "BIDIB_BSTR_SIMPLE_OFF", "BIDIB_BSTR_SIMPLE_ERROR",
    "BIDIB_BSTR_OFF", "BIDIB_CS_OFF", "BIDIB_EXEC_STATE_REACHED",
    "BIDIB_TRAIN_ORIENTATION_LEFT", "BIDIB_TRAIN_ORIENTATION_RIGHT",
]

# ---- single-hold facts (C08, concurrent readers): the occupancy setters and the position getter take
# {bidib_trains_rwlock, trackstate_segments_mutex, trackstate_trains_mutex} once, as top-level statements of the
# function body, release them once as top-level statements, and contain no return/goto in between; for the
# setters the call of bidib_state_update_train_available lies (syntactically) inside that region. Hence on every
# path the change of a segment's address list and the update of the derived train data happen within one
# continuous hold of the segment and train mutexes, and the getters read inside one hold.
import json
HOLD = {
    "bidib_state_bm_occ": ("src/state/bidib_state_setter.c", ["bidib_trains_rwlock", "trackstate_segments_mutex", "trackstate_trains_mutex"], True),
    "bidib_state_bm_multiple": ("src/state/bidib_state_setter.c", ["bidib_trains_rwlock", "trackstate_segments_mutex", "trackstate_trains_mutex"], True),
    "bidib_state_bm_address": ("src/state/bidib_state_setter.c", ["bidib_trains_rwlock", "trackstate_segments_mutex", "trackstate_trains_mutex"], True),
    "bidib_get_train_position": ("src/highlevel/bidib_highlevel_getter.c", ["bidib_trains_rwlock", "trackstate_segments_mutex", "trackstate_trains_mutex"], False),
    "bidib_get_train_state": ("src/highlevel/bidib_highlevel_getter.c", ["trackstate_trains_mutex"], False),
    "bidib_get_train_on_track": ("src/highlevel/bidib_highlevel_getter.c", ["trackstate_trains_mutex"], False),
    "bidib_get_segment_state": ("src/highlevel/bidib_highlevel_getter.c", ["trackstate_segments_mutex"], False),
}
def _ast_functions(repo, rel, name, flags):
    r = subprocess.run(["clang", "-std=gnu11", "-w"] + flags + ["-fsyntax-only", "-Xclang", "-ast-dump=json", "-Xclang", "-ast-dump-filter=" + name,
                        os.path.join(repo, rel)], capture_output=True, text=True)
    if r.returncode != 0: raise TranslatorError("clang AST dump failed for %s: %s" % (rel, r.stderr[:500]))
    dec = json.JSONDecoder(); txt = r.stdout; i = 0; out = []
    while i < len(txt):
        while i < len(txt) and txt[i].isspace(): i += 1
        if i >= len(txt): break
        o, i = dec.raw_decode(txt, i); out.append(o)
    return [o for o in out if o.get("kind") == "FunctionDecl" and o.get("name") == name and any(c.get("kind") == "CompoundStmt" for c in o.get("inner", []))]
def _callee(n):
    if n.get("kind") != "CallExpr" or not n.get("inner"): return None
    x = n["inner"][0]
    while x.get("kind") in ("ImplicitCastExpr", "ParenExpr") and x.get("inner"): x = x["inner"][0]
    return (x.get("referencedDecl") or {}).get("name")
def _lockarg(n):
    if len(n.get("inner", [])) < 2: return None
    x = n["inner"][1]
    while x.get("kind") in ("ImplicitCastExpr", "ParenExpr", "UnaryOperator") and x.get("inner"): x = x["inner"][0]
    return (x.get("referencedDecl") or {}).get("name")
def _walk(n):
    yield n
    for c in n.get("inner", []) or []:
        if isinstance(c, dict): yield from _walk(c)
ACQ = ("pthread_mutex_lock", "pthread_rwlock_rdlock", "pthread_rwlock_wrlock"); REL = ("pthread_mutex_unlock", "pthread_rwlock_unlock")
def single_hold(repo, flags):
    facts = []
    for name, (rel, locks, need_update) in HOLD.items():
        fs = _ast_functions(repo, rel, name, flags)
        if len(fs) != 1: raise TranslatorError("function %s not found exactly once in %s" % (name, rel))
        body = [c for c in fs[0]["inner"] if c.get("kind") == "CompoundStmt"][0]
        top = body.get("inner", [])
        ops = []      # (index of the top-level statement, 'A'/'R', lock) for the locks of interest, anywhere in the body
        for k, st in enumerate(top):
            for n in _walk(st):
                cal = _callee(n)
                if cal in ACQ + REL and _lockarg(n) in locks:
                    ops.append((k, "A" if cal in ACQ else "R", _lockarg(n), n is st))
        want = [("A", l) for l in locks] + [("R", l) for l in reversed(locks)]
        ok = [(o[1], o[2]) for o in ops] == want and all(o[3] for o in ops)
        if ok:
            first, last = ops[len(locks) - 1][0], ops[len(locks)][0]
            inner = [n for st in top[first + 1:last] for n in _walk(st)]
            if any(n.get("kind") in ("ReturnStmt", "GotoStmt") for n in inner): ok = False
            # no return between the first acquisition and the last release either
            span = [n for st in top[ops[0][0]:ops[-1][0] + 1] for n in _walk(st)]
            if any(n.get("kind") in ("ReturnStmt", "GotoStmt") for n in span): ok = False
            if need_update and not any(_callee(n) == "bidib_state_update_train_available" for n in inner): ok = False
        facts.append((name, ok))
    return facts

def generate_files(repo):
    tmp = tempfile.mkdtemp(prefix="vstab")
    try:
        src = '#include <stdio.h>\n#include "%s/include/bidib.h"\n#include "%s/src/transmission/bidib_transmission_intern.h"\n' % (repo, repo)
        src += '#include "%s/src/state/bidib_state_intern.h"\n' % repo
        src += "int main(void){\n"
        for e in ENUMS:
            src += ' printf("ENUM %s %%d\\n", (int)%s);\n' % (e, e)
        src += ' printf("SIZE boost_state_strings %d\\n", (int)(sizeof(bidib_boost_state_string_mapping)/sizeof(bidib_boost_state_string_mapping[0])));\n'
        # the booster state -> simple state switch, evaluated by the real function for all 256 bytes
        src += ' printf("SIMPLE"); for (int i = 0; i < 256; i++) printf(" %d", (int)bidib_booster_normal_to_simple((t_bidib_booster_power_state)i)); printf("\\n");\n'
        src += ' printf("SPEED"); for (int i = 0; i < 256; i++) printf(" %d", bidib_dcc_speed_to_lib_format((uint8_t)i)); printf("\\n");\n'
        src += " return 0; }\n"
        c = os.path.join(tmp, "probe.c"); exe = os.path.join(tmp, "probe")
        open(c, "w").write(src)
        flags = subprocess.check_output(["pkg-config", "--cflags", "glib-2.0"]).decode().split()
        need = [os.path.join(repo, "src/state/bidib_state.c")]
        import glob
        others = sorted(glob.glob(os.path.join(repo, "src/*/*.c")))
        r = subprocess.run(["clang", "-std=gnu11", "-w", "-O0"] + flags + [c] + others + ["-o", exe, "-lglib-2.0", "-lyaml", "-lpthread"],
                           capture_output=True, text=True)
        if r.returncode != 0:
            raise TranslatorError("state-table probe does not compile against the source:\n" + r.stderr[:2000])
        out = subprocess.run([exe], capture_output=True, text=True, timeout=20)
        if out.returncode != 0:
            raise TranslatorError("state-table probe crashed")
        L = ["(* GENERATED by translator/gen_statetabs.py from the repository source. Do not edit. *)",
             "From Coq Require Import List NArith ZArith.", "Import ListNotations.", "Local Open Scope N_scope."]
        for line in out.stdout.splitlines():
            f = line.split()
            if f[0] == "ENUM": L.append("Definition E_%s : N := %d." % (f[1], int(f[2])))
            elif f[0] == "SIZE": L.append("Definition %s : N := %d." % (f[1], int(f[2])))
            elif f[0] == "SIMPLE": L.append("(* bidib_booster_normal_to_simple evaluated on every byte *)\nDefinition booster_simple_table : list N := [%s]." % "; ".join(f[1:]))
        for line in out.stdout.splitlines():
            f = line.split()
            if f[0] == "SPEED":
                L.append("(* bidib_dcc_speed_to_lib_format evaluated on every byte *)\nDefinition dcc_speed_table : list Z := [%s]." % "; ".join("(%s)%%Z" % x for x in f[1:]))
        facts = single_hold(repo, flags)
        L.append("(* single-hold facts read off the clang AST (see translator/gen_statetabs.py): " + ", ".join(n for n, _ in facts) + " *)")
        L.append("Definition single_hold_facts : list bool := [%s]." % "; ".join("true" if ok else "false" for _, ok in facts))
        return {"StateTabs.v": "\n".join(L) + "\n"}
    finally:
        shutil.rmtree(tmp, ignore_errors=True)

if __name__ == "__main__":
    import sys
    print(generate_files(sys.argv[1] if len(sys.argv) > 1 else "/repo")["StateTabs.v"])
