(* Properties_C20.v — C20: start-up applies the configuration: features to the right boards, then initial values.
   Model: Startup.v. `after_enum c bs ss` is everything bidib_send_sys_reset sends after the enumeration for the board
   table bs (bidib_state_set_board_features, SYS_ENABLE, bidib_state_reset_train_params, track outputs GO,
   bidib_state_query_occupancy, bidib_state_set_initial_values); `sys_reset` = SYS_RESET + enumeration (every pass starts with all boards disconnected) + after_enum;
   `startup` = probe of bidib_communication_works + sys_reset on the freshly parsed board table.
   `to_conn bs m`: m is addressed to the current address of a board that is connected in bs. *)
From Coq Require Import List NArith Bool.
From LB Require Import Tables Startup StartupProofs.
Import ListNotations.
Local Open Scope N_scope.

(* a FEATURE_SET is sent iff it is a configured feature of a connected board, and then to that board's address *)
Theorem C20_features : forall bb m, In m (feature_msgs bb) <->
  exists b s k v, In (b, s) bb /\ s_conn s = true /\ In (k, v) (b_features b) /\ m = (s_addr s, MSG_FEATURE_SET, [k; v]).
Proof. exact feature_msgs_spec. Qed.
Print Assumptions C20_features.

(* order: capacity request, features, SYS_ENABLE, (train parameters reset), GO to the track outputs, occupancy queries,
   initial point / signal / peripheral aspects, initial train functions; the train parts are CS_DRIVE messages to
   connected boards *)
Theorem C20_order : forall c bs ss, exists rm tm,
  fst (after_enum c bs ss) =
    [(root_addr, MSG_GET_PKT_CAPACITY, [])] ++ feature_msgs (combine (c_boards c) bs) ++ [(root_addr, MSG_SYS_ENABLE, [])] ++
    rm ++ track_state_all bs BIDIB_CS_STATE_GO ++ occupancy_msgs (combine (c_boards c) bs) ++ init_accessory_msgs c bs ++ tm /\
  (forall m, In m rm -> to_conn bs m /\ type_of m = MSG_CS_DRIVE) /\
  (forall m, In m tm -> to_conn bs m /\ type_of m = MSG_CS_DRIVE).
Proof. exact after_enum_order. Qed.
Print Assumptions C20_order.

(* so every feature setting precedes SYS_ENABLE: nothing after it is a FEATURE_SET (or a second SYS_ENABLE) *)
Theorem C20_features_before_enable : forall c bs rm tm m,
  (forall x, In x rm -> to_conn bs x /\ type_of x = MSG_CS_DRIVE) ->
  (forall x, In x tm -> to_conn bs x /\ type_of x = MSG_CS_DRIVE) ->
  In m (rm ++ track_state_all bs BIDIB_CS_STATE_GO ++ occupancy_msgs (combine (c_boards c) bs) ++ init_accessory_msgs c bs ++ tm) ->
  to_conn bs m /\ type_of m <> MSG_FEATURE_SET /\ type_of m <> MSG_SYS_ENABLE.
Proof. exact after_enable_silent. Qed.
Print Assumptions C20_features_before_enable.

(* GO goes to exactly the connected track outputs *)
Theorem C20_go : forall bs st m, In m (track_state_all bs st) <->
  exists s, In s bs /\ is_dcc (s_uid s) = true /\ s_conn s = true /\ m = (s_addr s, MSG_CS_SET_STATE, [st]).
Proof. exact track_state_all_msgs. Qed.
Print Assumptions C20_go.

(* every initial point, signal and peripheral aspect contributes, once and in configuration order, exactly the messages
   of the corresponding high-level command (whose encodings are C09's and whose addressing is C15_addressing) — also when
   the command refuses (board not connected, accessory number or aspect value above 127, unknown aspect): it then returns 1
   and sends nothing, and so does the initial value (found_msgs of a refusal is [], C20_refusals) *)
Theorem C20_initial_values : forall c bs,
  init_accessory_msgs c bs =
  flat_map (fun ia => found_msgs (hl_point (combine (c_boards c) bs) (fst ia) (snd ia))) (c_init_points c) ++
  flat_map (fun ia => found_msgs (hl_signal (combine (c_boards c) bs) (fst ia) (snd ia))) (c_init_signals c) ++
  flat_map (fun ia => found_msgs (hl_periph (combine (c_boards c) bs) (fst ia) (snd ia))) (c_init_periphs c).
Proof. exact init_accessory_def. Qed.
Print Assumptions C20_initial_values.

(* the refusals of the high-level commands used by the initial values (C09 repairs 0001-0004): a board point / signal
   command that returns 0 has sent exactly one ACCESSORY_SET with number and aspect within 0..127, otherwise it returns 1
   and nothing is sent; the train function command returns 1 and sends nothing (train state unchanged) for a state above 1
   or a function bit 5..7; the track output command returns 0 iff exactly one CS_SET_STATE went to the connected output *)
Theorem C20_refusals :
  (forall id asp s l ms, find_acc id asp s l = Sent ms ->
     exists x v, In x l /\ a_id x = id /\ lookup asp (a_aspects x) = Some v /\ a_num x <= 127 /\ v <= 127 /\ s_conn s = true /\
                 ms = [(s_addr s, MSG_ACCESSORY_SET, [a_num x; v])]) /\
  (forall f, found_rc f = 1 -> found_msgs f = []) /\
  (forall t s b pid st, hl_train_periph_rc t b pid st = 1 -> hl_train_periph t s b pid st = ([], s)) /\
  (forall b st,
     (snd (hl_track_state b st) = 0 -> fst (hl_track_state b st) = [(s_addr b, MSG_CS_SET_STATE, [st])] /\ s_conn b = true /\ is_dcc (s_uid b) = true) /\
     (snd (hl_track_state b st) <> 0 -> fst (hl_track_state b st) = [])).
Proof. exact (conj find_acc_sent_one (conj found_msgs_refused (conj hl_train_periph_refused hl_track_state_rc))). Qed.
Print Assumptions C20_refusals.

(* nothing is commanded for a board that is not connected: every message after the enumeration goes to the interface
   itself (capacity request, SYS_ENABLE) or to the current address of a connected board *)
Theorem C20_disconnected_silent : forall c bs ss m, In m (fst (after_enum c bs ss)) ->
  m = (root_addr, MSG_GET_PKT_CAPACITY, []) \/ m = (root_addr, MSG_SYS_ENABLE, []) \/ to_conn bs m.
Proof. exact after_enum_to_conn. Qed.
Print Assumptions C20_disconnected_silent.

(* start-up is the probe followed by the very function a later bidib_send_sys_reset runs *)
Theorem C20_startup_is_reset : forall fuel c t pend,
  startup fuel c t pend =
  match sys_reset fuel c (init_bs c) t pend with
  | None => None
  | Some (m, bs, ss, tf) => Some (probe_msgs ++ m, bs, ss, tf)
  end.
Proof. exact startup_def. Qed.
Print Assumptions C20_startup_is_reset.

(* "after every system reset": (a) whatever the board table was before and whatever changed on the bus, the reset leaves
   exactly the boards of the final bus connected at their addresses (C15_reset_table, stated here again), so by the
   theorems above features, GO and initial values go to those boards only; (b) a further reset against the same bus
   repeats the identical transcript and state — start-up itself being such a reset (C20_startup_is_reset), every reset
   on an unchanged bus sends what start-up sent *)
Theorem C20_reset_table : forall fuel c bs t pend m bs1 ss tf,
  wf_from root_addr tf = true -> NoDup (map s_uid bs) ->
  sys_reset fuel c bs t pend = Some (m, bs1, ss, tf) ->
  forall s, In s bs1 ->
    (s_conn s = true <-> In (s_uid s) (map snd (nodes_from root_addr tf))) /\
    (s_conn s = true -> In (s_addr s, s_uid s) (nodes_from root_addr tf)).
Proof. exact sys_reset_table. Qed.
Print Assumptions C20_reset_table.

Theorem C20_every_reset : forall fuel c bs t m bs1 ss tf, NoDup (map s_uid bs) ->
  sys_reset fuel c bs t [] = Some (m, bs1, ss, tf) ->
  sys_reset fuel c bs1 tf [] = Some (m, bs1, ss, tf).
Proof. exact sys_reset_again. Qed.
Print Assumptions C20_every_reset.

Example C20_nonvacuous :
  match startup 20 nv_cfg (T wu0 [(1, T wu1 [])]) [] with
  | Some (ms, bs, _, _) =>
      ms = probe_msgs ++
           [(root_addr, MSG_SYS_RESET, []); (root_addr, MSG_NODETAB_GETALL, []); (root_addr, MSG_NODETAB_GETNEXT, []);
            (root_addr, MSG_NODETAB_GETNEXT, []);
            (root_addr, MSG_GET_PKT_CAPACITY, []);
            (root_addr, MSG_FEATURE_SET, [1; 0]); (root_addr, MSG_FEATURE_SET, [4; 1]); ((1, 0, 0), MSG_FEATURE_SET, [16; 7]);
            (root_addr, MSG_SYS_ENABLE, []);
            (root_addr, MSG_CS_DRIVE, [35; 1; 3; 0; 0; 0; 0; 0; 0]);
            (root_addr, MSG_CS_SET_STATE, [3]);
            (root_addr, MSG_BM_GET_RANGE, [0; 8]); (root_addr, MSG_BM_ADDR_GET_RANGE, [0; 1]);
            (root_addr, MSG_ACCESSORY_SET, [2; 1]); ((1, 0, 0), MSG_ACCESSORY_SET, [16; 2]); ((1, 0, 0), MSG_LC_OUTPUT, [35; 1; 1]);
            (root_addr, MSG_CS_DRIVE, [35; 1; 3; 2; 0; 16; 0; 0; 0]); (root_addr, MSG_CS_DRIVE, [35; 1; 3; 1; 128; 0; 0; 0; 0])]
      /\ map s_conn bs = [true; true; false]
  | None => False
  end.
Proof. exact nv_startup. Qed.
