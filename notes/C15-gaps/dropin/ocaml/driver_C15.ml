(* driver_C15.ml — runs the extracted Startup/Lifecycle models on the same scripts as harness/drv.c + ext_C15.inc
   and prints the same canonical observation lines. Thin glue only: parsing, int<->N conversion, printing.
   The configuration (which the C side reads from YAML files) arrives in "#cfg ..." comment lines. *)
open Model_c15

let rec pos_of_int (i : int) : positive =
  if i = 1 then XH else if i land 1 = 1 then XI (pos_of_int (i lsr 1)) else XO (pos_of_int (i lsr 1))
let n_of_int (i : int) : n = if i = 0 then N0 else Npos (pos_of_int i)
let rec int_of_pos (p : positive) : int = match p with XH -> 1 | XO q -> 2 * int_of_pos q | XI q -> 2 * int_of_pos q + 1
let int_of_n (x : n) : int = match x with N0 -> 0 | Npos p -> int_of_pos p
let rec nat_of_int (i : int) : nat = if i <= 0 then O else S (nat_of_int (i - 1))

let unhex (s : string) : n list =
  if s = "-" then [] else
    let k = String.length s / 2 in
    List.init k (fun i -> n_of_int (int_of_string ("0x" ^ String.sub s (2 * i) 2)))
let hex (l : n list) : string =
  if l = [] then "-" else String.concat "" (List.map (fun b -> Printf.sprintf "%02x" (int_of_n b)) l)
let split_ws (s : string) : string list = List.filter (fun x -> x <> "") (String.split_on_char ' ' s)
let num (s : string) : int = int_of_string s
(* "pt12" -> 12 : strip the alphabetic prefix of a generated identifier *)
let idnum (s : string) : int =
  let i = ref 0 in
  while !i < String.length s && not (s.[!i] >= '0' && s.[!i] <= '9') do incr i done;
  if !i >= String.length s then -1 else int_of_string (String.sub s !i (String.length s - !i))

let buf = Buffer.create 65536
let out s = Buffer.add_string buf s; Buffer.add_char buf '\n'
let flush_out () = print_string (Buffer.contents buf); Buffer.clear buf

let addr_of_hex (s : string) : addr3 =
  let l = List.map int_of_n (unhex s) in
  let g i = n_of_int (try List.nth l i with _ -> 0) in
  ((g 0, g 1), g 2)
let emit_msgs (ms : msg list) =
  List.iter (fun ((a, ty), d) -> out (Printf.sprintf "t %s %02x %s" (hex (canon3 a)) (int_of_n ty) (hex d))) ms

(* "1:0,2:1" -> [(1,0);(2,1)] *)
let pairs (s : string) : (n * n) list =
  if s = "-" then [] else
  List.map (fun kv -> match String.split_on_char ':' kv with
                      | [k; v] -> (n_of_int (num k), n_of_int (num v))
                      | _ -> failwith "pairs") (String.split_on_char ',' s)
(* "1=0:1+1:0,2=0:0" -> [(1,[(0,1);(1,0)]); (2,[(0,0)])] *)
let dpairs (s : string) : (n * (n * n) list) list =
  if s = "-" then [] else
  List.map (fun kv -> match String.split_on_char '=' kv with
                      | [k; v] -> (n_of_int (num k),
                                   if v = "" then [] else
                                   List.map (fun pv -> match String.split_on_char ':' pv with
                                                       | [p; x] -> (n_of_int (num p), n_of_int (num x))
                                                       | _ -> failwith "dpairs") (String.split_on_char '+' v))
                      | _ -> failwith "dpairs") (String.split_on_char ',' s)

(* ---- configuration under construction ---- *)
let empty_cfg = { c_boards = []; c_trains = []; c_init_points = []; c_init_signals = []; c_init_periphs = []; c_init_trains = [] }
let cfg = ref empty_cfg
let upd_last_board f = match List.rev !cfg.c_boards with
  | b :: r -> cfg := { !cfg with c_boards = List.rev (f b :: r) }
  | [] -> ()
let cfg_line (w : string list) =
  let ni s = n_of_int (num s) in
  match w with
  | ["begin"] -> cfg := empty_cfg
  | ["end"] -> ()
  | ["board"; u; ms] -> cfg := { !cfg with c_boards = !cfg.c_boards @ [{ b_uid = unhex u; b_features = []; b_points = []; b_points_dcc = [];
                                    b_signals = []; b_signals_dcc = []; b_periphs = []; b_maxseg = ni ms }] }
  | ["feat"; k; v] -> upd_last_board (fun b -> { b with b_features = b.b_features @ [(ni k, ni v)] })
  | ["point"; i; nm; asp] -> upd_last_board (fun b -> { b with b_points = b.b_points @ [{ a_id = ni i; a_num = ni nm; a_aspects = pairs asp }] })
  | ["signal"; i; nm; asp] -> upd_last_board (fun b -> { b with b_signals = b.b_signals @ [{ a_id = ni i; a_num = ni nm; a_aspects = pairs asp }] })
  | ["periph"; i; p0; p1; asp] -> upd_last_board (fun b -> { b with b_periphs = b.b_periphs @ [{ p_id = ni i; p_port0 = ni p0; p_port1 = ni p1; p_aspects = pairs asp }] })
  | ["dpoint"; i; l; h; e; asp] -> upd_last_board (fun b -> { b with b_points_dcc = b.b_points_dcc @ [{ d_id = ni i; d_addrl = ni l; d_addrh = ni h; d_ext = ni e; d_aspects = dpairs asp }] })
  | ["dsignal"; i; l; h; e; asp] -> upd_last_board (fun b -> { b with b_signals_dcc = b.b_signals_dcc @ [{ d_id = ni i; d_addrl = ni l; d_addrh = ni h; d_ext = ni e; d_aspects = dpairs asp }] })
  | ["train"; l; h; st; ps] -> cfg := { !cfg with c_trains = !cfg.c_trains @ [{ t_addrl = ni l; t_addrh = ni h; t_steps = ni st; t_periphs = pairs ps }] }
  | ["ipoint"; i; a] -> cfg := { !cfg with c_init_points = !cfg.c_init_points @ [(ni i, ni a)] }
  | ["isignal"; i; a] -> cfg := { !cfg with c_init_signals = !cfg.c_init_signals @ [(ni i, ni a)] }
  | ["iperiph"; i; a] -> cfg := { !cfg with c_init_periphs = !cfg.c_init_periphs @ [(ni i, ni a)] }
  | ["itrain"; t; p; v] -> cfg := { !cfg with c_init_trains = !cfg.c_init_trains @ [((nat_of_int (num t), ni p), ni v)] }
  | _ -> out ("bad-cfg " ^ String.concat " " w)

(* ---- simulated bus ---- *)
let cur_tree = ref 0        (* the simulator's current tree: sim_tree sets it, a start enumerates it (sim_reset: 0) *)
let sim_nodes : (int * int * int * int * n list) list ref = ref []     (* tree, id, parent, local, uid *)
let sim_changes : (string * int * int) list ref = ref []
let build_tree (tr : int) : tree option =
  let nodes = List.sort compare (List.filter (fun (t, _, _, _, _) -> t = tr) !sim_nodes) in
  let rec mk (id, u) =
    T (u, List.filter_map (fun (_, i, p, l, u') -> if p = id then Some (n_of_int l, mk (i, u')) else None) nodes) in
  match List.filter (fun (_, _, p, _, _) -> p < 0) nodes with
  | (_, id, _, _, u) :: _ -> Some (mk (id, u))
  | [] -> None

let fuel = nat_of_int 400

let () =
  let st = ref life0 and silent = ref false and cfg_ok = ref true and icap = ref 64 and thlog = ref false in
  let board_idx s = idnum s in
  let set_bs b = st := { !st with l_bs = b } and set_ts t = st := { !st with l_ts = t } in
  let dump () =
    List.iteri (fun i s ->
      if s.s_conn then (let ((t, sb), ss) = s.s_addr in out (Printf.sprintf "b b%d 1 %02x%02x%02x" i (int_of_n t) (int_of_n sb) (int_of_n ss)))
      else out (Printf.sprintf "b b%d 0 -" i)) !st.l_bs;
    let ids f = String.concat "" (List.mapi (fun i s -> if f s then Printf.sprintf " b%d" i else "") !st.l_bs) in
    out ("bc" ^ ids (fun s -> s.s_conn));
    out ("tc" ^ ids (fun s -> s.s_conn && is_dcc s.s_uid)) in
  let dumpu () =
    List.iteri (fun i s ->
      match get_nodeaddr_by_uid !st.l_bs s.s_uid with
      | Some ((t, sb), ss) -> out (Printf.sprintf "u b%d 1 %02x%02x%02x" i (int_of_n t) (int_of_n sb) (int_of_n ss))
      | None -> out (Printf.sprintf "u b%d 0 -" i)) !st.l_bs in
  let bb () = combine !st.l_cfg.c_boards !st.l_bs in
  let emit_levs evs =
    List.iter (fun e -> match e with
      | LCreate (k, _) -> if !thlog then out ("th create " ^ (match int_of_n k with 0 -> "recv" | 1 -> "heart" | _ -> "flush"))
      | LJoin (_, live) -> if !thlog then out (if live then "th join live" else "th join STALE")
      | LMsg m -> emit_msgs [m]
      | LRet rc -> out (Printf.sprintf "start %d" (int_of_n rc))) evs in
  (try while true do
    let line = input_line stdin in
    match split_ws line with
    | [] -> ()
    | "#cfg" :: "invalid" :: _ -> cfg_ok := false
    | "#cfg" :: "valid" :: _ -> cfg_ok := true
    | "#cfg" :: "begin" :: _ -> cfg_ok := true; cfg_line ["begin"]
    | "#cfg" :: w -> cfg_line w
    | c :: _ when String.length c > 0 && c.[0] = '#' -> ()
    | "case" :: id :: _ -> flush_out (); out ("case " ^ id)
    | "newprocess" :: _ -> st := life0; thlog := false
    | "sim_reset" :: _ -> sim_nodes := []; sim_changes := []; silent := false; icap := 64; cur_tree := 0
    | "sim_node" :: tr :: id :: p :: l :: u :: _ -> sim_nodes := (num tr, num id, num p, num l, unhex u) :: !sim_nodes
    | "sim_change" :: a :: r :: tr :: _ -> sim_changes := !sim_changes @ [(a, num r, num tr)]
    | "sim_tree" :: tr :: _ -> (match build_tree (num tr) with Some t -> cur_tree := num tr; st := { !st with l_tree = t } | None -> out "bad-tree")
    | "sim_opt" :: "silent" :: v :: _ -> silent := (v <> "0")
    | "sim_opt" :: "cap" :: v :: _ -> icap := num v
    | "sim_opt" :: "thlog" :: v :: _ -> thlog := (v <> "0")
    | "sim_opt" :: _ -> ()
    | "sim_inject" :: _ -> ()
    | "serialstart" :: _dev :: _dir :: fl :: _ ->
        let (s1, evs) = life_step fuel !st (LSerialFail (!cfg_ok, num fl > 0, !cfg)) in
        st := s1; emit_levs evs
    | "rxnowait" :: _ -> ()       (* bytes of an unfinished packet: no event for the model *)
    | "simstart" :: dbg :: _dir :: fl :: _ ->
        let pend = List.filter_map (fun (a, r, tr) -> match build_tree tr with
                                     | Some t -> Some ((addr_of_hex a, n_of_int r), t) | None -> None) !sim_changes in
        let t0 = (match build_tree !cur_tree with Some t -> t | None -> T ([], [])) in
        let (s1, evs) = life_step fuel !st (LStart (dbg <> "0", !cfg_ok, num fl > 0, not !silent, !cfg, t0, pend, n_of_int !icap)) in
        st := s1; emit_levs evs
    | "stop" :: _ -> let (s1, evs) = life_step fuel !st LStop in st := s1; emit_levs evs; out "stopped"
    | ("sim_dump" | "sim_dumpu" | "sim_dumpa" | "hl" | "sysreset") :: _ when not !st.l_running -> out "not-running"
    | "sysreset" :: _ ->
        (match sys_reset fuel !st.l_cfg !st.l_bs !st.l_tree [] with
         | Some (((ms, b), s), tf) -> emit_msgs ms; st := { !st with l_bs = b; l_ts = s; l_tree = tf }; out "reset-done"
         | None -> out "model-out-of-fuel")
    | "sim_up" :: a :: ty :: d :: _ ->
        let data = unhex d in
        let g i = try List.nth data i with _ -> N0 in
        let u = List.filteri (fun i _ -> i >= 2 && i < 9) data in
        let t = int_of_string ("0x" ^ ty) in
        if (t = 0x8d || t = 0x8c) && !st.l_running then begin
          let e = if t = 0x8d then NNew (addr_of_hex a, g 0, g 1, u) else NLost (addr_of_hex a, g 0, g 1, u) in
          let (b, ms) = notice_step !st.l_bs e in
          set_bs b; emit_msgs ms
        end
    | "sim_dump" :: _ -> dump ()
    | "sim_dumpu" :: _ -> dumpu ()
    | "sim_dumpa" :: addrs ->
        List.iter (fun a -> match get_uid_by_addr !st.l_bs (addr_of_hex a) with
                            | Some u -> out (Printf.sprintf "a %s %s" a (hex u))
                            | None -> out (Printf.sprintf "a %s -" a)) addrs
    | "hl" :: "point" :: id :: asp :: _ ->
        let f = hl_point (bb ()) (n_of_int (idnum id)) (n_of_int (idnum asp)) in
        emit_msgs (found_msgs f); out (Printf.sprintf "hl %d" (int_of_n (found_rc f)))
    | "hl" :: "signal" :: id :: asp :: _ ->
        let f = hl_signal (bb ()) (n_of_int (idnum id)) (n_of_int (idnum asp)) in
        emit_msgs (found_msgs f); out (Printf.sprintf "hl %d" (int_of_n (found_rc f)))
    | "hl" :: "periph" :: id :: asp :: _ ->
        let f = hl_periph (bb ()) (n_of_int (idnum id)) (n_of_int (idnum asp)) in
        emit_msgs (found_msgs f); out (Printf.sprintf "hl %d" (int_of_n (found_rc f)))
    | "hl" :: "tperiph" :: tr :: p :: v :: b :: _ ->
        let ti = idnum tr and bi = board_idx b in
        (match List.nth_opt !st.l_cfg.c_trains ti, List.nth_opt !st.l_ts ti, List.nth_opt !st.l_bs bi with
         | Some t, Some s, Some bd ->
             let (ms, s1) = hl_train_periph t s bd (n_of_int (idnum p)) (n_of_int (num v)) in
             set_ts (set_nth (nat_of_int ti) !st.l_ts s1); emit_msgs ms;
             out (Printf.sprintf "hl %d" (int_of_n (hl_train_periph_rc t bd (n_of_int (idnum p)) (n_of_int (num v)))))
         | _ -> out "hl 1")
    | "hl" :: "speed" :: tr :: _sp :: b :: _ ->
        let ti = idnum tr and bi = board_idx b in
        (match List.nth_opt !st.l_cfg.c_trains ti, List.nth_opt !st.l_ts ti, List.nth_opt !st.l_bs bi with
         | Some t, Some s, Some bd ->
             let (ms, s1) = hl_train_speed0 t s bd in
             set_ts (set_nth (nat_of_int ti) !st.l_ts s1); emit_msgs ms;
             out (Printf.sprintf "hl %d" (int_of_n (hl_train_speed_rc bd)))
         | _ -> out "hl 1")
    | "hl" :: "tstate" :: b :: v :: _ ->
        (match List.nth_opt !st.l_bs (board_idx b) with
         | Some bd -> let (ms, rc) = hl_track_state bd (n_of_int (num v)) in emit_msgs ms; out (Printf.sprintf "hl %d" (int_of_n rc))
         | None -> out "hl 1")
    | "globals" :: _ ->
        out (Printf.sprintf "globals running=%d seq=%d discard=%d" (if !st.l_running then 1 else 0) (if !st.l_seq then 1 else 0) (if !st.l_discard then 1 else 0))
    | "capprobe" :: _ ->
        if !st.l_running then begin
          emit_msgs (List.init 17 (fun _ -> ((root_addr, mSG_SYS_ENABLE), [])));
          out (Printf.sprintf "capprobe %d" (int_of_n (probe_writes !st.l_cap (nat_of_int 17) N0)))
        end else out "not-running"
    | "thstate" :: _ -> out (Printf.sprintf "th live %d" (List.length !st.l_live))
    | "leakcheck" :: _ -> out "leak 0"
    | "mark" :: r -> out ("mark " ^ String.concat " " r)
    | c :: _ -> out ("unknown-command " ^ c)
  done with End_of_file -> ());
  flush_out ()
