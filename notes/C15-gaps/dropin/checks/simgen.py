"""simgen — generators shared by C15 / C16 / C20: configurations (as YAML for the library and as '#cfg' lines for the
extracted model), node trees for the bus simulator (harness/ext_C15.inc), table changes, node-new/lost events, and an
independent Python reference of the bus (the 'truth' the oracles judge the implementation against)."""
import os, copy

RESP = {0x64: 7, 0x62: 5, 0x38: 9, 0x40: 7, 0x65: 7, 0x20: 21, 0x24: 0, 0x0a: 5, 0x03: 0, 0x13: 6}

def hx(bs): return "".join("%02x" % b for b in bs) if bs else "-"

# ------------------------------------------------------------------ configuration
class Ids:
    def __init__(self): self.n = 0
    def next(self): self.n += 1; return self.n

def gen_config(r, nboards=None, rich=False, want_dcc=True):
    """boards: dict(uid, features, points, dpoints, signals, dsignals, periphs, maxseg, segs); ids are small integers"""
    ids = Ids(); serial = [0x100]; dccctr = [0x10]
    def uid(cls):
        serial[0] += 1
        return [cls, r.below(4), 0x0D, 0x68, 0x00, serial[0] >> 8, serial[0] & 255]
    def dccaddr():
        dccctr[0] += r.range(1, 9); return (dccctr[0] & 255, (dccctr[0] >> 8) & 255)
    nb = nboards or r.range(2, 5)
    boards = []
    ndcc = 0
    for i in range(nb):
        cls = 0
        if r.chance(2, 5): cls |= 0x80
        if want_dcc and (r.chance(1, 3) or (i == nb - 1 and ndcc == 0 and r.chance(3, 4))): cls |= 0x10; ndcc += 1
        if r.chance(1, 3): cls |= 0x40
        if r.chance(1, 3): cls |= 0x04
        if r.chance(1, 4): cls |= 0x02
        if r.chance(1, 4): cls |= 0x01
        b = {"uid": uid(cls), "features": [], "points": [], "dpoints": [], "signals": [], "dsignals": [], "periphs": [], "maxseg": 0, "segs": []}
        nf = r.choice([0, 0, 1, 2, 3, 9]) if rich else r.choice([0, 0, 1, 2])
        nums = []
        while len(nums) < nf:
            k = r.choice([0, 1, 2, 4, 5, 6, 7, 8, 9, 10, 16, 17, 30, 31, 50, 51, 100, 101, 254, 255])   # 3 (secure ack) is C19's subject
            if k not in nums: nums.append(k)
        b["features"] = [(k, r.choice([0, 1, 2, 7, 64, 127, 128, 255])) for k in nums]
        def aspects():
            vals = []
            for _ in range(r.range(1, 3)):
                v = r.choice([0, 1, 2, 3, 5, 127, 128, 200]) if r.chance(1, 6) else r.below(8)
                if v not in vals: vals.append(v)
            return [(ids.next(), v) for v in vals]
        def dasp():
            # aspects of one DCC accessory must differ on a shared port (the parser rejects an aspect contained in another)
            ports = []
            for _ in range(r.range(1, 3)):
                pt = r.below(32)
                if pt not in ports: ports.append(pt)
            vals = [r.below(2) for _ in ports]
            out = [(ids.next(), list(zip(ports, vals)))]
            if r.chance(1, 2):
                v2 = [1 - vals[0]] + [r.below(2) for _ in ports[1:]]
                out.append((ids.next(), list(zip(ports, v2))))
            return out
        usednum = {"p": [], "s": []}
        def accnum(kind):
            while True:
                n = r.choice([0, 1, 2, 5, 16, 20, 127, 128, 130]) if r.chance(1, 5) else r.below(32)
                if n not in usednum["p"] and n not in usednum["s"]: usednum[kind].append(n); return n
        for _ in range(r.range(0, 2) if rich else r.range(0, 1)):
            b["points"].append({"id": ids.next(), "num": accnum("p"), "aspects": aspects()})
        if rich and r.chance(1, 3):
            l, h = dccaddr(); b["dpoints"].append({"id": ids.next(), "addrl": l, "addrh": h, "ext": r.below(2), "aspects": dasp()})
        for _ in range(r.range(0, 2) if rich else r.range(0, 1)):
            b["signals"].append({"id": ids.next(), "num": accnum("s"), "aspects": aspects()})
        if rich and r.chance(1, 3):
            l, h = dccaddr(); b["dsignals"].append({"id": ids.next(), "addrl": l, "addrh": h, "ext": r.below(2), "aspects": dasp()})
        for k in range(r.range(0, 2) if rich else r.range(0, 1)):
            while True:       # two peripherals of one board must not share a port (the parser rejects the configuration)
                p0, p1 = r.below(256), r.below(256)
                if (p0, p1) not in [(q["port0"], q["port1"]) for q in b["periphs"]]: break
            b["periphs"].append({"id": ids.next(), "num": k, "port0": p0, "port1": p1, "aspects": aspects()})
        if rich and r.chance(1, 3):
            addrs = []
            for _ in range(r.range(1, 3)):
                a = r.choice([0, 7, 8, 15, 16, 200, 247, 248, 254, 255]) if r.chance(1, 3) else r.below(24)
                if a not in addrs: addrs.append(a)
            b["segs"] = [(ids.next(), a) for a in addrs]; b["maxseg"] = max(addrs)
        boards.append(b)
    trains = []
    for i in range(r.range(0, 3) if rich else r.range(0, 2)):
        l, h = dccaddr()
        bits = []
        for _ in range(r.range(0, 3)):
            bt = r.choice([0, 1, 2, 3, 4, 5, 6, 7, 8, 11, 12, 15, 16, 23, 24, 31]) if r.chance(1, 2) else r.below(32)
            if bt not in bits: bits.append(bt)
        trains.append({"addrl": l, "addrh": h, "steps": r.choice([14, 28, 126]), "periphs": [(ids.next(), bt) for bt in bits]})
    cfg = {"boards": boards, "trains": trains, "ipoints": [], "isignals": [], "iperiphs": [], "itrains": [], "track_order": list(range(nb))}
    if rich:
        r2 = r
        order = list(range(nb))
        if r2.chance(1, 3): order.reverse()
        cfg["track_order"] = order
        for bi in order:
            b = boards[bi]
            for p in b["points"]:
                if r2.chance(1, 2): cfg["ipoints"].append((p["id"], r2.choice(p["aspects"])[0]))
            for p in b["dpoints"]:
                if r2.chance(1, 2): cfg["ipoints"].append((p["id"], r2.choice(p["aspects"])[0]))
            for p in b["signals"]:
                if r2.chance(1, 2): cfg["isignals"].append((p["id"], r2.choice(p["aspects"])[0]))
            for p in b["dsignals"]:
                if r2.chance(1, 2): cfg["isignals"].append((p["id"], r2.choice(p["aspects"])[0]))
            for p in b["periphs"]:
                if r2.chance(1, 2): cfg["iperiphs"].append((p["id"], r2.choice(p["aspects"])[0]))
        for ti, t in enumerate(trains):
            for (pid, bt) in t["periphs"]:
                if r2.chance(1, 2): cfg["itrains"].append((ti, pid, r2.below(2)))
        trim_budget(cfg)
    return cfg

def acc_owner(cfg, kind, aid):
    for bi, b in enumerate(cfg["boards"]):
        for p in b[kind]:
            if p["id"] == aid: return bi, p
    return None, None

def trim_budget(cfg):
    """keep the expected-response budget per node below the library's limit of 48 in every phase in which it does not
    wait for answers, so that no message is deferred and wire order equals program order (deferral is C03's subject)"""
    ndcc = [i for i, b in enumerate(cfg["boards"]) if b["uid"][0] & 0x10]
    while 5 + 7 * len(cfg["trains"]) + 5 > 44:
        cfg["trains"].pop(); cfg["itrains"] = [x for x in cfg["itrains"] if x[0] < len(cfg["trains"])]
    def load():
        per = [0] * len(cfg["boards"])
        for (aid, asp) in cfg["ipoints"]:
            bi, p = acc_owner(cfg, "points", aid)
            if bi is not None: per[bi] += 9
            else:
                bi, p = acc_owner(cfg, "dpoints", aid); per[bi] += 7 * len(dict(p["aspects"])[asp])
        for (aid, asp) in cfg["isignals"]:
            bi, p = acc_owner(cfg, "signals", aid)
            if bi is not None: per[bi] += 9
            else:
                bi, p = acc_owner(cfg, "dsignals", aid); per[bi] += 7 * len(dict(p["aspects"])[asp])
        for (aid, asp) in cfg["iperiphs"]:
            bi, p = acc_owner(cfg, "periphs", aid); per[bi] += 7
        for bi in ndcc: per[bi] += 14 * len(cfg["itrains"])
        return per
    for key in ("itrains", "ipoints", "isignals", "iperiphs"):
        while max(load() + [0]) > 44 and cfg[key]: cfg[key].pop()

def yaml_files(cfg):
    """the three YAML files as strings; names: b<i>, pt<id>, sg<id>, pe<id>, a<id>, tr<i>, tp<id>, sm<id>"""
    bc = ["boards:"]
    for i, b in enumerate(cfg["boards"]):
        bc += ["  - id: b%d" % i, "    unique-id: 0x%s" % "".join("%02X" % x for x in b["uid"])]
        if b["features"]:
            bc.append("    features:")
            for k, v in b["features"]: bc += ["      - number: 0x%02x" % k, "        value: 0x%02x" % v]
    tc = ["boards:"]
    inits = dict([("pt%d" % i, a) for i, a in cfg["ipoints"]] + [("sg%d" % i, a) for i, a in cfg["isignals"]] + [("pe%d" % i, a) for i, a in cfg["iperiphs"]])
    def acc(L, name, p):
        L += ["      - id: %s" % name, "        number: 0x%02x" % p["num"], "        aspects:"]
        for aid, v in p["aspects"]: L += ["          - id: a%d" % aid, "            value: 0x%02x" % v]
        if name in inits: L.append("        initial: a%d" % inits[name])
    def dac(L, name, p):
        L += ["      - id: %s" % name, "        dcc-address: 0x%02X%02X" % (p["addrh"], p["addrl"]), "        extended: %d" % p["ext"], "        aspects:"]
        for aid, pvs in p["aspects"]:
            L += ["          - id: a%d" % aid, "            ports:"]
            for port, val in pvs: L += ["              - port: 0x%02x" % port, "                value: 0x%02x" % val]
        if name in inits: L.append("        initial: a%d" % inits[name])
    anyb = False
    for i in cfg["track_order"]:
        b = cfg["boards"][i]
        if not (b["points"] or b["dpoints"] or b["signals"] or b["dsignals"] or b["periphs"] or b["segs"]): continue
        anyb = True
        tc.append("  - id: b%d" % i)
        if b["points"]:
            tc.append("    points-board:")
            for p in b["points"]: acc(tc, "pt%d" % p["id"], p)
        if b["dpoints"]:
            tc.append("    points-dcc:")
            for p in b["dpoints"]: dac(tc, "pt%d" % p["id"], p)
        if b["signals"]:
            tc.append("    signals-board:")
            for p in b["signals"]: acc(tc, "sg%d" % p["id"], p)
        if b["dsignals"]:
            tc.append("    signals-dcc:")
            for p in b["dsignals"]: dac(tc, "sg%d" % p["id"], p)
        if b["periphs"]:
            tc.append("    peripherals:")
            for p in b["periphs"]:
                name = "pe%d" % p["id"]
                tc += ["      - id: %s" % name, "        number: 0x%02x" % p["num"], "        port: 0x%02X%02X" % (p["port1"], p["port0"]), "        aspects:"]
                for aid, v in p["aspects"]: tc += ["          - id: a%d" % aid, "            value: 0x%02x" % v]
                if name in inits: tc.append("        initial: a%d" % inits[name])
        if b["segs"]:
            tc.append("    segments:")
            for sid, a in b["segs"]: tc += ["      - id: sm%d" % sid, "        address: 0x%02x" % a, "        length: 1.0cm"]
    if not anyb: tc = ["boards: []"]
    tr = ["trains:"] if cfg["trains"] else ["trains: []"]
    tinit = {(ti, pid): v for ti, pid, v in cfg["itrains"]}
    for i, t in enumerate(cfg["trains"]):
        tr += ["  - id: tr%d" % i, "    dcc-address: 0x%02X%02X" % (t["addrh"], t["addrl"]), "    dcc-speed-steps: %d" % t["steps"]]
        if t["periphs"]:
            tr.append("    peripherals:")
            for pid, bt in t["periphs"]:
                tr += ["      - id: tp%d" % pid, "        bit: %d" % bt]
                if (i, pid) in tinit: tr.append("        initial: %d" % tinit[(i, pid)])
    return {"bidib_board_config.yml": "\n".join(bc) + "\n", "bidib_track_config.yml": "\n".join(tc) + "\n", "bidib_train_config.yml": "\n".join(tr) + "\n"}

def write_yaml(cfg, d):
    os.makedirs(d, exist_ok=True)
    for fn, text in yaml_files(cfg).items():
        with open(os.path.join(d, fn), "w") as f: f.write(text)

def cfg_lines(cfg):
    L = ["#cfg begin"]
    prs = lambda asp: ",".join("%d:%d" % (a, v) for a, v in asp) or "-"
    dprs = lambda asp: ",".join("%d=%s" % (a, "+".join("%d:%d" % pv for pv in pvs)) for a, pvs in asp) or "-"
    for b in cfg["boards"]:
        L.append("#cfg board %s %d" % (hx(b["uid"]), b["maxseg"]))
        for k, v in b["features"]: L.append("#cfg feat %d %d" % (k, v))
        for p in b["points"]: L.append("#cfg point %d %d %s" % (p["id"], p["num"], prs(p["aspects"])))
        for p in b["dpoints"]: L.append("#cfg dpoint %d %d %d %d %s" % (p["id"], p["addrl"], p["addrh"], p["ext"], dprs(p["aspects"])))
        for p in b["signals"]: L.append("#cfg signal %d %d %s" % (p["id"], p["num"], prs(p["aspects"])))
        for p in b["dsignals"]: L.append("#cfg dsignal %d %d %d %d %s" % (p["id"], p["addrl"], p["addrh"], p["ext"], dprs(p["aspects"])))
        for p in b["periphs"]: L.append("#cfg periph %d %d %d %s" % (p["id"], p["port0"], p["port1"], prs(p["aspects"])))
    for t in cfg["trains"]: L.append("#cfg train %d %d %d %s" % (t["addrl"], t["addrh"], t["steps"], prs(t["periphs"])))
    for i, a in cfg["ipoints"]: L.append("#cfg ipoint %d %d" % (i, a))
    for i, a in cfg["isignals"]: L.append("#cfg isignal %d %d" % (i, a))
    for i, a in cfg["iperiphs"]: L.append("#cfg iperiph %d %d" % (i, a))
    for t, p, v in cfg["itrains"]: L.append("#cfg itrain %d %d %d" % (t, p, v))
    L.append("#cfg end")
    return L

# ------------------------------------------------------------------ trees
class Node:
    def __init__(self, uid, local=0): self.uid = uid; self.local = local; self.ch = []
    def iface(self): return bool(self.uid[0] & 0x80)

def unknown_uid(r, cls, ctr):
    ctr[0] += 1
    return [cls, 0xEE, 0x0D, 0x77, 0x00, 0x80 | (ctr[0] >> 8), ctr[0] & 255]

def gen_tree(r, cfg, ctr, present=None, deep_iface=False, maxfan=4, root_board=None):
    """a tree of depth <= 3 in which the boards of `present` (indices) occur; only interface-class nodes carry children;
    an interface on the third level occurs only with deep_iface (that input class is judged separately)"""
    nb = len(cfg["boards"])
    if present is None: present = [i for i in range(nb) if r.chance(2, 3)]
    todo = list(present)
    for i in range(len(todo) - 1, 0, -1):
        j = r.below(i + 1); todo[i], todo[j] = todo[j], todo[i]
    isif = lambda bi: bool(cfg["boards"][bi]["uid"][0] & 0x80)
    ifb = [i for i in todo if isif(i)]
    if root_board is not None:
        todo.remove(root_board); root = Node(cfg["boards"][root_board]["uid"])      # this configured board is the interface itself
    elif ifb and r.chance(1, 2):
        ri = ifb[0]; todo.remove(ri); root = Node(cfg["boards"][ri]["uid"])
    else:
        root = Node(unknown_uid(r, 0x80 | (0x10 if r.chance(1, 4) else 0), ctr))
    def free_local(n):
        while True:
            l = r.choice([1, 2, 3, 4, 5, 9, 127, 200, 255]) if r.chance(1, 3) else r.range(1, 12)
            if l not in [c.local for c in n.ch]: return l
    def place(n, depth):
        k = r.range(0, maxfan) if depth == 1 else r.range(0, 3)
        if depth == 1 and k == 0: k = 1
        for _ in range(k):
            cand = [bi for bi in todo if depth < 3 or deep_iface or not isif(bi)]
            if cand and r.chance(3, 4):
                bi = cand[-1]; todo.remove(bi); u = cfg["boards"][bi]["uid"]
            else:
                classes = [0x00, 0x04, 0x40, 0x05] + ([0x80, 0x90] if depth < 3 or deep_iface else [])
                u = unknown_uid(r, r.choice(classes), ctr)
            n.ch.append(Node(u, free_local(n)))
        for c in n.ch:
            if c.iface() and depth < 3 and (depth < 2 or r.chance(2, 3)): place(c, depth + 1)
    place(root, 1)
    for bi in list(todo):
        lim = 2 if (isif(bi) and not deep_iface) else 3
        ifaces = [(p, n) for p, n in tree_nodes(root) if n.iface() and len(p) < lim]
        p, n = r.choice(ifaces)
        n.ch.append(Node(cfg["boards"][bi]["uid"], free_local(n)))
    return root

def tree_nodes(root):
    """[(path tuple, node)] in BFS order of the library's enumeration is not needed here: plain preorder"""
    out = []
    def rec(n, path):
        out.append((path, n))
        for c in n.ch: rec(c, path + (c.local,))
    rec(root, ())
    return out

def node_lines(root, tr):
    """sim_node lines; ids in preorder so that children keep their order"""
    L = []; ctr = [0]
    def rec(n, parent):
        me = ctr[0]; ctr[0] += 1
        L.append("sim_node %d %d %d %d %s" % (tr, me, parent, n.local, hx(n.uid)))
        for c in n.ch: rec(c, me)
    rec(root, -1)
    return L

def addr3(path): return tuple(list(path) + [0] * (3 - len(path)))
def path_hex(path): return hx(list(path))

def find_path(root, path):
    n = root
    for l in path:
        nxt = [c for c in n.ch if c.local == l]
        if not nxt: return None
        n = nxt[0]
    return n

def mutate_tree(r, root, cfg, ctr, keep_path):
    """a changed bus: remove / add / move nodes anywhere except on the path to the interface that announces the change"""
    t = copy.deepcopy(root)
    for _ in range(r.range(1, 2)):
        nodes = [(p, n) for p, n in tree_nodes(t) if p and not (len(p) <= len(keep_path) and keep_path[:len(p)] == p)]
        k = r.below(3)
        if k == 0 and nodes:
            p, n = r.choice(nodes); par = find_path(t, p[:-1]); par.ch = [c for c in par.ch if c is not n]
        elif k == 1:
            ifs = [(p, n) for p, n in tree_nodes(t) if n.iface() and len(p) < 3]
            p, n = r.choice(ifs)
            present = [x.uid for _, x in tree_nodes(t)]
            absent = [b["uid"] for b in cfg["boards"] if b["uid"] not in present and not (b["uid"][0] & 0x80 and len(p) >= 2)]
            u = r.choice(absent) if absent and r.chance(2, 3) else unknown_uid(r, 0x04, ctr)
            ls = [c.local for c in n.ch]; l = 1
            while l in ls: l += 1
            n.ch.append(Node(u, l))
        elif nodes:
            p, n = r.choice(nodes)
            if not n.ch:
                par = find_path(t, p[:-1]); par.ch = [c for c in par.ch if c is not n]
                ifs = [(q, m) for q, m in tree_nodes(t) if m.iface() and len(q) < (2 if n.iface() else 3)]
                q, m = r.choice(ifs); ls = [c.local for c in m.ch]; l = 1
                while l in ls: l += 1
                n.local = l; m.ch.append(n)
    return t

def ref_enumerate(trees, changes):
    """Python reference of what the library asks and which change fires: returns (final tree index, list of queried
    addresses per pass). changes: [(path, row, tree index)]"""
    cur = 0; fired = [False] * len(changes); passes = 0
    while True:
        passes += 1
        if passes > len(changes) + 2: return cur, passes
        root = trees[cur]; queue = [()]; restart = False
        while queue and not restart:
            p = queue.pop(0); n = find_path(root, p)
            rows = [(0, n)] + [(c.local, c) for c in n.ch]
            for ri, (l, c) in enumerate(rows):
                hit = [k for k, ch in enumerate(changes) if not fired[k] and tuple(ch[0]) == tuple(p) and ch[1] == ri]
                if hit:
                    fired[hit[0]] = True; cur = changes[hit[0]][2]; restart = True; break
                if ri > 0 and c.iface(): queue.append(p + (l,))
        if not restart: return cur, passes

def truth_of(root, cfg):
    """expected board table for a bus: {board index: address tuple} for the boards present"""
    uids = {tuple(b["uid"]): i for i, b in enumerate(cfg["boards"])}
    out = {}
    for p, n in tree_nodes(root):
        if tuple(n.uid) in uids: out[uids[tuple(n.uid)]] = addr3(p)
    return out
