(* Properties_C16.v — C16: lifecycle: safe shutdown sequence, threads joined once, restartable.
   Model: Lifecycle.v (bidib_start_pointer, bidib_start_serial on a device that cannot be opened (LSerialFail) / bidib_stop with the three static thread handles, set to 0 once joined, and
   the process-lifetime globals bidib_seq_num_enabled, bidib_discard_rx, pkt_max_cap, restored by bidib_stop) on top of the
   Startup model's traffic. `LJoin i false` is a pthread_join on a handle whose thread was joined before.
   NOT modelled (observed only, by LeakSanitizer in the check): "releases all memory it allocated". *)
From Coq Require Import List NArith Bool.
From LB Require Import Tables Startup StartupProofs Lifecycle LifecycleProofs.
Import ListNotations.
Local Open Scope N_scope.

(* stop while stopped and start (pointer or serial) while running do nothing *)
Theorem C16_noop :
  (forall fuel s, l_running s = false -> life_step fuel s LStop = (s, [])) /\
  (forall fuel s d ok fl an c t pend icap, l_running s = true ->
     life_step fuel s (LStart d ok fl an c t pend icap) = (s, [LRet 0])) /\
  (forall fuel s ok fl c, l_running s = true -> life_step fuel s (LSerialFail ok fl c) = (s, [LRet 0])).
Proof. exact (conj stop_when_stopped (conj start_when_running serial_when_running)). Qed.
Print Assumptions C16_noop.

(* bidib_start_serial on a device that cannot be opened (valid or invalid configuration, any auto-flush interval), in any
   stopped reachable state (inv holds for every state reachable from life0, C16_join_once): it returns 1, creates no
   thread, joins none, sends nothing, and leaves the library stopped in the state of a freshly loaded one. As an operation
   of `lop` it is covered by C16_join_once and C16_restartable, which quantify over every history. *)
Theorem C16_serial_unopenable : forall fuel s ok fl c, inv s -> l_running s = false ->
  life_step fuel s (LSerialFail ok fl c) = (fresh (l_next s) (l_tree s), [LRet 1]).
Proof. exact serial_fail_spec. Qed.
Print Assumptions C16_serial_unopenable.

(* a stop of the running library first emits the shutdown messages and after them only joins *)
Theorem C16_traffic_before_joins : forall s, l_running s = true ->
  exists joins, snd (do_stop s) = map LMsg (stop_msgs (l_cfg s) (l_bs s) (l_ts s)) ++ joins /\ forallb is_join joins = true /\
                l_running (fst (do_stop s)) = false.
Proof. exact stop_shape. Qed.
Print Assumptions C16_traffic_before_joins.

(* the shutdown messages: soft-stop to exactly the connected track outputs (C20_go characterises track_state_all), then
   for every train and every connected track output a drive message with speed 0 and all function bytes 0 and nothing
   else, then track-off *)
Theorem C16_shutdown_traffic : forall c bs ss, length (c_trains c) = length ss ->
  exists drives,
    stop_msgs c bs ss = track_state_all bs BIDIB_CS_STATE_SOFTSTOP ++ drives ++ track_state_all bs BIDIB_CS_STATE_OFF /\
    (forall m, In m drives -> to_conn bs m /\ type_of m = MSG_CS_DRIVE /\
        exists t fmt, In t (c_trains c) /\ snd m = [t_addrl t; t_addrh t; fmt; 0; 0; 0; 0; 0; 0]) /\
    (forall t b, In t (c_trains c) -> In b bs -> s_conn b = true -> is_dcc (s_uid b) = true ->
        In (s_addr b, MSG_CS_DRIVE, [t_addrl t; t_addrh t; dcc_format (t_steps t); 0; 0; 0; 0; 0; 0]) drives).
Proof. exact stop_msgs_spec. Qed.
Print Assumptions C16_shutdown_traffic.

(* every thread is joined once: in EVERY history — any modes, configurations valid or not, interface answering or silent,
   any sequence of auto-flush settings — no handle whose thread was already joined is ever joined (bidib_stop forgets the
   handles, repair d177fa0), and a stopped library is in the state of a freshly loaded one: no thread, no handle, start
   values of the globals (repair 5fd7f7a); only the model's thread-id counter and the remembered bus differ *)
Theorem C16_join_once : forall fuel os,
  stale_joins (snd (life_run fuel life0 os)) = 0%nat /\
  (l_running (fst (life_run fuel life0 os)) = false -> exists n t, fst (life_run fuel life0 os) = fresh n t).
Proof. exact joins_once. Qed.
Print Assumptions C16_join_once.

(* ... and each stop of a reachable state (inv holds for all of them, joins_once is proved through it) joins exactly the
   threads of its own session, each once: receiver, auto-flush if the session has one, heartbeat *)
Theorem C16_stop_joins_own_threads : forall s, l_running s = true -> inv s ->
  exists n fl, l_live s = [n; n + 1] ++ (if fl : bool then [n + 2] else []) /\
    filter is_join (snd (do_stop s)) = [LJoin n true] ++ (if fl then [LJoin (n + 2) true] else []) ++ [LJoin (n + 1) true].
Proof. exact stop_joins_session. Qed.
Print Assumptions C16_stop_joins_own_threads.

(* restartable: after any earlier history that ends stopped, whatever is done next (any number of further sessions) is
   observed — return codes, thread creations, joins, every message — exactly as in the first session of a process;
   obs_of only erases the model's thread ids *)
Theorem C16_restartable : forall fuel os1 os2,
  l_running (fst (life_run fuel life0 os1)) = false ->
  (exists n t, fst (life_run fuel life0 os1) = fresh n t) /\
  map obs_of (snd (life_run fuel (fst (life_run fuel life0 os1)) os2)) = map obs_of (snd (life_run fuel life0 os2)).
Proof. exact restartable. Qed.
Print Assumptions C16_restartable.

Example C16_nonvacuous :
  let r := life_run 20 life0 [LStart false true true true nv_cfg w_bus [] 64; LStop] in
  l_running (fst r) = false /\ l_live (fst r) = [] /\
  snd r = [LCreate 0 1; LCreate 1 2; LCreate 2 3] ++
          map LMsg (match startup 20 nv_cfg w_bus [] with Some (ms, _, _, _) => ms | None => [] end) ++ [LRet 0] ++
          map LMsg [(root_addr, MSG_CS_SET_STATE, [2]); (root_addr, MSG_CS_DRIVE, [35; 1; 3; 0; 0; 0; 0; 0; 0]); (root_addr, MSG_CS_SET_STATE, [0])] ++
          [LJoin 1 true; LJoin 3 true; LJoin 2 true].
Proof. exact nv_life. Qed.

(* the histories of the repaired defects: auto-flush then none (five live joins, none stale); silent interface / announced
   capacity 200: the globals are back at their start values after the stop *)
Example C16_nonvacuous_joins :
  filter is_join (snd (life_run 20 life0 w_hist)) = [LJoin 1 true; LJoin 3 true; LJoin 2 true; LJoin 4 true; LJoin 5 true].
Proof. exact nv_joins. Qed.
Example C16_nonvacuous_globals :
  globals life0 = (true, true, 64) /\
  globals (fst (life_run 20 life0 [LStart false true false false nv_cfg w_bus [] 64; LStop])) = (true, true, 64) /\
  globals (fst (life_run 20 life0 [LStart false true false true nv_cfg w_bus [] 200])) = (true, false, 200) /\
  globals (fst (life_run 20 life0 [LStart false true false true nv_cfg w_bus [] 200; LStop])) = (true, true, 64) /\
  probe_writes 64 17 0 = 1 /\ probe_writes 200 17 0 = 0.
Proof. exact nv_globals. Qed.

Example C16_nonvacuous_serial :
  life_run 20 life0 [LSerialFail true true nv_cfg] = (fresh 1 (T [] []), [LRet 1]) /\
  (let r := life_run 20 life0 [LStart false true true true nv_cfg w_bus [] 200; LStop; LSerialFail false false nv_cfg; LStop;
                                LStart true true false true nv_cfg w_bus [] 64; LStop] in
   filter (fun e => match e with LMsg _ => false | _ => true end) (snd r) =
     [LCreate 0 1; LCreate 1 2; LCreate 2 3; LRet 0; LJoin 1 true; LJoin 3 true; LJoin 2 true;
      LRet 1;
      LCreate 0 4; LCreate 1 5; LRet 0; LJoin 4 true; LJoin 5 true] /\
   fst r = fresh 7 w_bus).
Proof. exact nv_serial. Qed.
