(* StartupProofs.v — lemmas about the node-table / start-up model (Startup.v). *)
From Coq Require Import List NArith Bool Arith Lia.
From LB Require Import Tables Startup.
Import ListNotations.
Local Open Scope N_scope.

(* ------------------------------------------------------------------ equality tests *)
Lemma uid_eqb_eq : forall a b, uid_eqb a b = true <-> a = b.
Proof.
  induction a as [|x a IH]; destruct b as [|y b]; simpl; split; intro H; try reflexivity; try discriminate.
  - apply andb_true_iff in H. destruct H as [H1 H2]. apply N.eqb_eq in H1. apply IH in H2. subst. reflexivity.
  - inversion H; subst. apply andb_true_iff. split. apply N.eqb_refl. apply IH. reflexivity.
Qed.
Lemma uid_eqb_refl : forall a, uid_eqb a a = true.
Proof. intro a. apply uid_eqb_eq. reflexivity. Qed.
Lemma uid_eqb_neq : forall a b, uid_eqb a b = false <-> a <> b.
Proof.
  intros a b. split; intro H.
  - intro E. apply uid_eqb_eq in E. congruence.
  - destruct (uid_eqb a b) eqn:E; [apply uid_eqb_eq in E; contradiction | reflexivity].
Qed.

Lemma addr3_eqb_eq : forall a b, addr3_eqb a b = true <-> a = b.
Proof.
  intros [[t s] ss] [[t' s'] ss']. unfold addr3_eqb. rewrite !andb_true_iff, !N.eqb_eq.
  split; [intros [[? ?] ?]; subst; reflexivity | intro H; inversion H; auto].
Qed.

(* ------------------------------------------------------------------ addresses *)
Lemma ext_addr_zero : forall a, snd a = 0 -> ext_addr a 0 = a.
Proof.
  intros [[t s] ss] H. simpl in H. subst. unfold ext_addr.
  destruct (t =? 0) eqn:E1; [apply N.eqb_eq in E1; subst; reflexivity|].
  destruct (s =? 0) eqn:E2; [apply N.eqb_eq in E2; subst; reflexivity|]. reflexivity.
Qed.

(* the address formed by a path of (non-zero) local addresses *)
Lemma ext_path1 : forall l1, ext_addr root_addr l1 = (l1, 0, 0).
Proof. reflexivity. Qed.
Lemma ext_path2 : forall l1 l2, l1 <> 0 -> ext_addr (ext_addr root_addr l1) l2 = (l1, l2, 0).
Proof. intros l1 l2 H. simpl. apply N.eqb_neq in H. rewrite H. reflexivity. Qed.
Lemma ext_path3 : forall l1 l2 l3, l1 <> 0 -> l2 <> 0 ->
  ext_addr (ext_addr (ext_addr root_addr l1) l2) l3 = (l1, l2, l3).
Proof. intros l1 l2 l3 H1 H2. simpl. apply N.eqb_neq in H1, H2. rewrite H1. simpl. rewrite H1, H2. reflexivity. Qed.

(* canonical addresses: a zero component ends the address *)
Definition wf_addr (a : addr3) : Prop :=
  let '(t, s, ss) := a in (t = 0 -> s = 0 /\ ss = 0) /\ (s = 0 -> ss = 0).

(* bidib_state_is_subnode decides "strictly beneath" on canonical addresses *)
Lemma is_subnode_prefix : forall n s, wf_addr n -> wf_addr s ->
  (is_subnode n s = true <-> exists k, k <> [] /\ canon3 s = canon3 n ++ k).
Proof.
  intros [[t u] v] [[t' u'] v'] [Hn1 Hn2] [Hs1 Hs2]. unfold is_subnode, canon3.
  destruct (N.eqb_spec t 0), (N.eqb_spec u 0), (N.eqb_spec v 0), (N.eqb_spec t' 0), (N.eqb_spec u' 0), (N.eqb_spec v' 0),
           (N.eqb_spec t t'), (N.eqb_spec u u'), (N.eqb_spec v v'); simpl;
    try solve [exfalso; intuition congruence]; subst;
    (split; [ intro H; try discriminate H; eexists; (split; [|reflexivity]); discriminate
            | intros [k [Hk E]]; try reflexivity; exfalso;
              destruct k as [|k1 [|k2 [|k3 k]]]; simpl in E; try discriminate E; try congruence;
              inversion E; congruence ]).
Qed.

(* ------------------------------------------------------------------ board table updates *)
Definition set_conn (s : bst) (c : bool) (a : addr3) : bst := {| s_uid := s_uid s; s_conn := c; s_addr := a |}.
Definition upd1 (u : uid) (a : addr3) (s : bst) : bst := if uid_eqb (s_uid s) u then set_conn s true a else s.

Lemma upd1_uid : forall u a s, s_uid (upd1 u a s) = s_uid s.
Proof. intros. unfold upd1. destruct (uid_eqb (s_uid s) u); reflexivity. Qed.

Lemma connect_uids : forall bs u a, map s_uid (connect bs u a) = map s_uid bs.
Proof.
  induction bs as [|s r IH]; intros; simpl; [reflexivity|].
  destruct (uid_eqb (s_uid s) u); simpl; [reflexivity|]. rewrite IH. reflexivity.
Qed.

Lemma map_upd1_absent : forall u a r, ~ In u (map s_uid r) -> map (upd1 u a) r = r.
Proof.
  induction r as [|s r IH]; intro H; simpl; [reflexivity|].
  simpl in H. unfold upd1 at 1. destruct (uid_eqb (s_uid s) u) eqn:E.
  - apply uid_eqb_eq in E. exfalso. apply H. left. exact E.
  - rewrite IH; [reflexivity|]. intro X. apply H. right. exact X.
Qed.

Lemma connect_map : forall bs u a, NoDup (map s_uid bs) -> connect bs u a = map (upd1 u a) bs.
Proof.
  induction bs as [|s r IH]; intros u a H; simpl; [reflexivity|].
  simpl in H. inversion H as [|x l Hn Hd]; subst.
  unfold upd1 at 1. destruct (uid_eqb (s_uid s) u) eqn:E.
  - apply uid_eqb_eq in E. subst u. rewrite map_upd1_absent by exact Hn. reflexivity.
  - rewrite IH by exact Hd. reflexivity.
Qed.

(* the rows (address, unique id) contained in an event list, and what a list of rows does to one board *)
Definition erows (evs : list ev) : list (addr3 * uid) :=
  flat_map (fun e => match e with ERow a u => [(a, u)] | EQuery _ _ => [] end) evs.

Lemma erows_app : forall x y, erows (x ++ y) = erows x ++ erows y.
Proof. intros. unfold erows. apply flat_map_app. Qed.

Definition connect_row (bs : list bst) (r : addr3 * uid) : list bst := connect bs (snd r) (fst r).

Lemma apply_evs_rows : forall evs bs, apply_evs bs evs = fold_left connect_row (erows evs) bs.
Proof.
  induction evs as [|e evs IH]; intro bs; [reflexivity|].
  unfold apply_evs in *. simpl. destruct e as [a n|a u]; simpl; apply IH.
Qed.

Fixpoint last_addr (rows : list (addr3 * uid)) (u : uid) : option addr3 :=
  match rows with
  | [] => None
  | (a, u') :: r => match last_addr r u with
                    | Some x => Some x
                    | None => if uid_eqb u u' then Some a else None
                    end
  end.
Definition upd_rows (rows : list (addr3 * uid)) (s : bst) : bst :=
  match last_addr rows (s_uid s) with Some a => set_conn s true a | None => s end.

Lemma last_addr_in : forall rows u a, last_addr rows u = Some a -> In (a, u) rows.
Proof.
  induction rows as [|[a' u'] r IH]; intros u a H; simpl in H; [discriminate|].
  destruct (last_addr r u) eqn:E.
  - inversion H; subst. right. apply IH. exact E.
  - destruct (uid_eqb u u') eqn:E2; [|discriminate]. apply uid_eqb_eq in E2. inversion H; subst. left. reflexivity.
Qed.
Lemma last_addr_none : forall rows u, last_addr rows u = None <-> ~ In u (map snd rows).
Proof.
  induction rows as [|[a' u'] r IH]; intro u; simpl; [tauto|].
  destruct (last_addr r u) eqn:E.
  - split; [discriminate|]. intro H. exfalso. apply H. right.
    assert (X : last_addr r u <> None) by congruence. rewrite IH in X.
    destruct (in_dec (list_eq_dec N.eq_dec) u (map snd r)); [assumption|contradiction].
  - destruct (uid_eqb u u') eqn:E2.
    + apply uid_eqb_eq in E2. subst. split; [discriminate|]. intro H. exfalso. apply H. left. reflexivity.
    + apply uid_eqb_neq in E2. split; [|reflexivity]. intros _ [H|H]; [congruence|]. apply IH in E. contradiction.
Qed.

Lemma upd_rows_uid : forall rows s, s_uid (upd_rows rows s) = s_uid s.
Proof. intros. unfold upd_rows. destruct (last_addr rows (s_uid s)); reflexivity. Qed.

Lemma apply_rows_map : forall rows bs, NoDup (map s_uid bs) ->
  fold_left connect_row rows bs = map (upd_rows rows) bs.
Proof.
  induction rows as [|[a u] r IH]; intros bs H; simpl.
  - unfold upd_rows. simpl. symmetry. apply map_id.
  - unfold connect_row at 2. simpl. rewrite connect_map by exact H.
    rewrite IH.
    + rewrite map_map. apply map_ext. intro s. unfold upd_rows. rewrite upd1_uid. simpl.
      destruct (last_addr r (s_uid s)) eqn:E.
      * unfold upd1. destruct (uid_eqb (s_uid s) u); reflexivity.
      * unfold upd1. destruct (uid_eqb (s_uid s) u); reflexivity.
    + rewrite map_map. erewrite map_ext; [exact H|]. intro s. apply upd1_uid.
Qed.

(* what the enumeration events do to a configured board: last row with its unique id wins; no row, no change *)
Lemma apply_evs_elem : forall evs bs, NoDup (map s_uid bs) ->
  apply_evs bs evs = map (upd_rows (erows evs)) bs.
Proof. intros. rewrite apply_evs_rows. apply apply_rows_map. assumption. Qed.

(* ------------------------------------------------------------------ one pass of the enumeration *)
(* the rows seen when the interface at address a (subtree t) and every interface beneath it are asked *)
(* is the sub-node of row lc queried itself: an interface that still has a free address level beneath it *)
Definition queried (a : addr3) (lc : N * tree) : bool :=
  is_iface (tuid (snd lc)) && (snd (ext_addr a (fst lc)) =? 0).

Fixpoint sub_rows (a : addr3) (t : tree) : list (addr3 * uid) :=
  match t with
  | T u ch => (ext_addr a 0, u) ::
              flat_map (fun lc => (ext_addr a (fst lc), tuid (snd lc)) ::
                                  (if queried a lc then sub_rows (ext_addr a (fst lc)) (snd lc) else [])) ch
  end.

Definition row_of (a : addr3) (lc : N * tree) : addr3 * uid := (ext_addr a (fst lc), tuid (snd lc)).
Definition enq_of (a : addr3) (lc : N * tree) : list (addr3 * tree) :=
  if queried a lc then [(ext_addr a (fst lc), snd lc)] else [].

Lemma row_loop_pos : forall a rows r pend evs enq, 0 < r ->
  row_loop a rows r pend = (evs, enq, None) ->
  erows evs = map (row_of a) rows /\ enq = flat_map (enq_of a) rows.
Proof.
  induction rows as [|[l c] rest IH]; intros r pend evs enq Hr H; simpl in H.
  - inversion H; subst. split; reflexivity.
  - destruct (take_change a r pend) as [tp|]; [discriminate|].
    destruct (row_loop a rest (r + 1) pend) as [[evs1 enq1] rs1] eqn:E.
    inversion H; subst. clear H.
    assert (Hr1 : 0 < r + 1) by lia.
    destruct (IH (r + 1) pend evs1 enq1 Hr1 E) as [H1 H2].
    split.
    + simpl. rewrite H1. reflexivity.
    + simpl. unfold enq_of at 1. simpl.
      assert (X : (0 <? r) = true) by (apply N.ltb_lt; exact Hr). rewrite X. simpl. rewrite H2. reflexivity.
Qed.

Lemma row_loop_table : forall a u ch pend evs enq,
  row_loop a (table (T u ch)) 0 pend = (evs, enq, None) ->
  erows evs = (ext_addr a 0, u) :: map (row_of a) ch /\ enq = flat_map (enq_of a) ch.
Proof.
  intros a u ch pend evs enq H. unfold table in H. simpl in H.
  destruct (take_change a 0 pend) as [tp|]; [discriminate|].
  destruct (row_loop a ch 1 pend) as [[evs1 enq1] rs1] eqn:E.
  inversion H; subst. clear H.
  assert (Hr1 : 0 < 1) by lia.
  destruct (row_loop_pos a ch 1 pend evs1 enq Hr1 E) as [H1 H2].
  split; [simpl; rewrite H1; reflexivity | exact H2].
Qed.

Lemma sub_rows_unfold : forall a u ch x,
  In x (sub_rows a (T u ch)) <->
  In x ((ext_addr a 0, u) :: map (row_of a) ch) \/ exists q, In q (flat_map (enq_of a) ch) /\ In x (sub_rows (fst q) (snd q)).
Proof.
  intros a u ch x. simpl. rewrite in_flat_map. split.
  - intros [H|[lc [Hl Hx]]]; [left; left; exact H|].
    simpl in Hx. destruct Hx as [Hx|Hx].
    + left. right. apply in_map_iff. exists lc. split; [exact Hx|exact Hl].
    + right. destruct (queried a lc) eqn:E; [|contradiction].
      exists (ext_addr a (fst lc), snd lc). split; [|exact Hx].
      apply in_flat_map. exists lc. split; [exact Hl|]. unfold enq_of. rewrite E. left. reflexivity.
  - intros [[H|H]|[q [Hq Hx]]].
    + left. exact H.
    + right. apply in_map_iff in H. destruct H as [lc [E Hl]]. exists lc. split; [exact Hl|]. left. exact E.
    + right. apply in_flat_map in Hq. destruct Hq as [lc [Hl Hq]]. exists lc. split; [exact Hl|].
      unfold enq_of in Hq. destruct (queried a lc) eqn:E; [|contradiction].
      destruct Hq as [Hq|[]]. subst q. simpl in Hx. right. exact Hx.
Qed.

Lemma erows_query : forall a n l, erows (EQuery a n :: l) = erows l.
Proof. reflexivity. Qed.

Lemma bfs_S : forall f queue pend, bfs (S f) queue pend =
  match queue with
  | [] => Some ([], None)
  | (a, t) :: q =>
      let '(evs, enq, rs) := row_loop a (table t) 0 pend in
      let qe := EQuery a (N.of_nat (length (table t))) in
      match rs with
      | Some tp => Some (qe :: evs, Some tp)
      | None => match bfs f (q ++ enq) pend with
                | Some (evs2, r2) => Some (qe :: evs ++ evs2, r2)
                | None => None
                end
      end
  end.
Proof. reflexivity. Qed.

(* a pass in which no table change fires sees exactly the rows beneath the queued interfaces *)
Lemma bfs_rows : forall fuel queue pend evs, bfs fuel queue pend = Some (evs, None) ->
  forall x, In x (erows evs) <-> exists q, In q queue /\ In x (sub_rows (fst q) (snd q)).
Proof.
  induction fuel as [|f IH]; intros queue pend evs H x; [discriminate|]. rewrite bfs_S in H.
  destruct queue as [|[a t] q].
  - inversion H; subst. simpl. split; [contradiction|]. intros [q [[] _]].
  - destruct (row_loop a (table t) 0 pend) as [[evs1 enq] rs] eqn:E.
    destruct rs as [tp|]; [discriminate|].
    destruct (bfs f (q ++ enq) pend) as [[evs2 r2]|] eqn:E2; [|discriminate].
    inversion H; subst. clear H.
    destruct t as [u ch].
    destruct (row_loop_table a u ch pend evs1 enq E) as [H1 H2].
    rewrite erows_query.
    rewrite erows_app, in_app_iff. rewrite (IH _ _ _ E2 x). rewrite H1.
    split.
    + intros [Hx|[q' [Hq Hx]]].
      * exists (a, T u ch). split; [left; reflexivity|]. simpl fst. simpl snd. apply sub_rows_unfold. left. exact Hx.
      * apply in_app_iff in Hq. destruct Hq as [Hq|Hq].
        { exists q'. split; [right; exact Hq|exact Hx]. }
        { exists (a, T u ch). split; [left; reflexivity|]. simpl fst. simpl snd. apply sub_rows_unfold. right.
          exists q'. split; [rewrite <- H2; exact Hq|exact Hx]. }
    + intros [q' [[Hq|Hq] Hx]].
      * subst q'. simpl fst in Hx. simpl snd in Hx. apply sub_rows_unfold in Hx. destruct Hx as [Hx|[q'' [Hq Hx]]].
        { left. exact Hx. }
        { right. exists q''. split; [apply in_app_iff; right; rewrite H2; exact Hq|exact Hx]. }
      * right. exists q'. split; [apply in_app_iff; left; exact Hq|exact Hx].
Qed.

(* ------------------------------------------------------------------ trees *)
Section TreeInd.
  Variable P : tree -> Prop.
  Hypothesis H : forall u ch, Forall (fun lc => P (snd lc)) ch -> P (T u ch).
  Fixpoint tree_ind2 (t : tree) : P t :=
    match t with
    | T u ch => H u ch ((fix go (l : list (N * tree)) : Forall (fun lc => P (snd lc)) l :=
                           match l with
                           | [] => Forall_nil _
                           | x :: r => Forall_cons x (tree_ind2 (snd x)) (go r)
                           end) ch)
    end.
End TreeInd.

Lemma nodes_from_head : forall a t, In (a, tuid t) (nodes_from a t).
Proof. intros a [u ch]. simpl. left. reflexivity. Qed.

Lemma wf_from_unqueried : forall a t, wf_from a t = true -> is_iface (tuid t) && (snd a =? 0) = false -> children t = [].
Proof.
  intros a [u ch] H Hq. simpl in H, Hq. destruct ch as [|x r]; [reflexivity|]. rewrite Hq in H. discriminate.
Qed.
Lemma wf_from_child : forall a u ch lc, wf_from a (T u ch) = true -> In lc ch ->
  fst lc <> 0 /\ wf_from (ext_addr a (fst lc)) (snd lc) = true.
Proof.
  intros a u ch lc H Hl. simpl in H. apply andb_true_iff in H. destruct H as [_ H].
  rewrite forallb_forall in H. specialize (H lc Hl). apply andb_true_iff in H. destruct H as [H1 H2].
  split; [|exact H2]. apply negb_true_iff in H1. apply N.eqb_neq. exact H1.
Qed.

(* on a well-formed bus the rows seen by the enumeration are exactly the nodes with their path addresses *)
Lemma sub_rows_nodes : forall t a, snd a = 0 -> wf_from a t = true ->
  forall x, In x (sub_rows a t) <-> In x (nodes_from a t).
Proof.
  induction t as [u ch IH] using tree_ind2. intros a Ha Hwf x.
  simpl. rewrite (ext_addr_zero a Ha). rewrite !in_flat_map.
  assert (K : forall lc, In lc ch ->
            (In x ((ext_addr a (fst lc), tuid (snd lc)) ::
                   (if queried a lc then sub_rows (ext_addr a (fst lc)) (snd lc) else []))
             <-> In x (nodes_from (ext_addr a (fst lc)) (snd lc)))).
  { intros lc Hl. destruct (wf_from_child a u ch lc Hwf Hl) as [Hnz Hw].
    rewrite Forall_forall in IH. specialize (IH lc Hl).
    destruct (queried a lc) eqn:E; unfold queried in E.
    - apply andb_true_iff in E. destruct E as [_ Hz]. apply N.eqb_eq in Hz.
      specialize (IH (ext_addr a (fst lc)) Hz Hw x). simpl. rewrite IH.
      split; [intros [X|X]; [subst x; apply nodes_from_head|exact X] | intro X; right; exact X].
    - pose proof (wf_from_unqueried _ _ Hw E) as Hc. destruct (snd lc) as [u' ch'] eqn:El. simpl in Hc. subst ch'.
      simpl. tauto. }
  split.
  - intros [X|[lc [Hl X]]]; [left; exact X|]. right. exists lc. split; [exact Hl|]. apply K; assumption.
  - intros [X|[lc [Hl X]]]; [left; exact X|]. right. exists lc. split; [exact Hl|]. apply K; assumption.
Qed.

(* ------------------------------------------------------------------ passes without / with table changes *)
Lemma row_loop_nil : forall a rows r evs enq rs, row_loop a rows r [] = (evs, enq, rs) -> rs = None.
Proof.
  induction rows as [|[l c] rest IH]; intros r evs enq rs H; simpl in H.
  - inversion H. reflexivity.
  - destruct (row_loop a rest (r + 1) []) as [[evs1 enq1] rs1] eqn:E. inversion H; subst. eapply IH. exact E.
Qed.
Lemma bfs_nil : forall fuel queue evs r, bfs fuel queue [] = Some (evs, r) -> r = None.
Proof.
  induction fuel as [|f IH]; intros queue evs r H; [discriminate|]. rewrite bfs_S in H.
  destruct queue as [|[a t] q]; [inversion H; reflexivity|].
  destruct (row_loop a (table t) 0 []) as [[evs1 enq] rs] eqn:E.
  apply row_loop_nil in E. subst rs.
  destruct (bfs f (q ++ enq) []) as [[evs2 r2]|] eqn:E2; [|discriminate].
  inversion H; subst. eapply IH. exact E2.
Qed.

(* the passes of an enumeration end with a complete pass over the final bus *)
Lemma enum_last_pass : forall p fuel t pend passes tf, enum p fuel t pend = Some (passes, tf) ->
  exists pre last pend', passes = pre ++ [last] /\ bfs fuel [(root_addr, tf)] pend' = Some (last, None).
Proof.
  induction p as [|p IH]; intros fuel t pend passes tf H; simpl in H; [discriminate|].
  destruct (bfs fuel [(root_addr, t)] pend) as [[evs1 r]|] eqn:E; [|discriminate].
  destruct r as [[t' pend']|].
  - destruct (enum p fuel t' pend') as [[e2 tf2]|] eqn:E2; [|discriminate].
    inversion H; subst. destruct (IH _ _ _ _ _ E2) as [pre [last [pd [Hev Hb]]]].
    exists (evs1 :: pre), last, pd. split; [rewrite Hev; reflexivity|exact Hb].
  - inversion H; subst. exists [], evs1, pend. split; [reflexivity|exact E].
Qed.

Lemma init_bs_uids : forall c, map s_uid (init_bs c) = map b_uid (c_boards c).
Proof. intro c. unfold init_bs. rewrite map_map. reflexivity. Qed.

Lemma apply_evs_uids : forall evs bs, map s_uid (apply_evs bs evs) = map s_uid bs.
Proof.
  induction evs as [|e evs IH]; intro bs; [reflexivity|].
  unfold apply_evs in *. simpl. rewrite IH. destruct e; simpl; [reflexivity|apply connect_uids].
Qed.

Lemma apply_evs_app : forall bs x y, apply_evs bs (x ++ y) = apply_evs (apply_evs bs x) y.
Proof. intros. unfold apply_evs. apply fold_left_app. Qed.

Lemma disconnect_all_uids : forall bs, map s_uid (disconnect_all bs) = map s_uid bs.
Proof. intro bs. unfold disconnect_all. rewrite map_map. reflexivity. Qed.
Lemma disconnect_all_conn : forall bs s, In s (disconnect_all bs) -> s_conn s = false.
Proof. intros bs s H. unfold disconnect_all in H. apply in_map_iff in H. destruct H as [x [E _]]. subst s. reflexivity. Qed.
Lemma apply_passes_app : forall bs x y, apply_passes bs (x ++ y) = apply_passes (apply_passes bs x) y.
Proof. intros. unfold apply_passes. apply fold_left_app. Qed.
Lemma apply_passes_uids : forall ps bs, map s_uid (apply_passes bs ps) = map s_uid bs.
Proof.
  induction ps as [|p r IH]; intro bs; [reflexivity|]. unfold apply_passes in *. simpl. rewrite IH.
  rewrite apply_evs_uids. apply disconnect_all_uids.
Qed.

(* a complete pass over a well-formed bus: every board whose unique id is on the bus ends up connected at the address of
   a node with that unique id; every other board is left as it was *)
Lemma pass_correct : forall fuel tf pend last bs,
  wf_from root_addr tf = true -> NoDup (map s_uid bs) ->
  bfs fuel [(root_addr, tf)] pend = Some (last, None) ->
  Forall2 (fun s0 s => s_uid s = s_uid s0 /\
             (In (s_uid s0) (map snd (nodes_from root_addr tf)) ->
                s_conn s = true /\ In (s_addr s, s_uid s) (nodes_from root_addr tf)) /\
             (~ In (s_uid s0) (map snd (nodes_from root_addr tf)) -> s = s0))
          bs (apply_evs bs last).
Proof.
  intros fuel tf pend last bs Hwf Hnd Hb.
  rewrite apply_evs_elem by exact Hnd.
  assert (R : forall x, In x (erows last) <-> In x (nodes_from root_addr tf)).
  { intro x. rewrite (bfs_rows _ _ _ _ Hb x). split.
    - intros [q [[Hq|[]] Hx]]. subst q. simpl in Hx. apply sub_rows_nodes in Hx; [exact Hx|reflexivity|exact Hwf].
    - intro Hx. exists (root_addr, tf). split; [left; reflexivity|]. simpl. apply sub_rows_nodes; [reflexivity|exact Hwf|exact Hx]. }
  clear Hnd. induction bs as [|s0 r IH]; simpl; constructor; [|exact IH].
  split; [apply upd_rows_uid|]. unfold upd_rows. split.
  - intro Hin. destruct (last_addr (erows last) (s_uid s0)) eqn:E.
    + simpl. split; [reflexivity|]. apply R. apply last_addr_in. exact E.
    + exfalso. apply last_addr_none in E. apply E. apply in_map_iff in Hin. destruct Hin as [[a u] [Eu Hx]].
      apply in_map_iff. exists (a, u). split; [exact Eu|]. apply R. exact Hx.
  - intro Hnin. destruct (last_addr (erows last) (s_uid s0)) eqn:E; [|reflexivity].
    exfalso. apply Hnin. apply last_addr_in in E. apply R in E. apply in_map_iff. exists (a, s_uid s0). split; [reflexivity|exact E].
Qed.

Lemma Forall2_in_r : forall {A B} (R : A -> B -> Prop) l l', Forall2 R l l' -> forall y, In y l' -> exists x, In x l /\ R x y.
Proof.
  intros A B R l l' H. induction H as [|x y l l' Hxy H IH]; intros z Hz; [contradiction|].
  destruct Hz as [Hz|Hz]; [subst; exists x; split; [left; reflexivity|exact Hxy]|].
  destruct (IH z Hz) as [x' [Hx' Hr]]. exists x'. split; [right; exact Hx'|exact Hr].
Qed.

Lemma init_bs_disconnected : forall c s, In s (init_bs c) -> s_conn s = false.
Proof. intros c s H. unfold init_bs in H. apply in_map_iff in H. destruct H as [b [E _]]. subst s. reflexivity. Qed.

Lemma snd_unique : forall {A B} (l : list (A * B)) a a' u, NoDup (map snd l) -> In (a, u) l -> In (a', u) l -> a = a'.
Proof.
  induction l as [|[x y] r IH]; intros a a' u Hnd H1 H2; [contradiction|].
  simpl in Hnd. inversion Hnd as [|z zs Hn Hd]; subst.
  destruct H1 as [H1|H1]; destruct H2 as [H2|H2].
  - congruence.
  - inversion H1; subst. exfalso. apply Hn. apply in_map_iff. exists (a', u). split; [reflexivity|exact H2].
  - inversion H2; subst. exfalso. apply Hn. apply in_map_iff. exists (a, u). split; [reflexivity|exact H1].
  - eapply IH; eassumption.
Qed.

(* C15_enumerate / C15_restart / the table after a system reset: whatever the board table was before and whatever happened
   in aborted passes, after the enumeration a board is connected iff its unique id is on the final bus, and then at the
   address of the node that carries it *)
Theorem enum_correct : forall p fuel t pend passes tf bs0,
  wf_from root_addr tf = true -> NoDup (map s_uid bs0) ->
  enum p fuel t pend = Some (passes, tf) ->
  forall s, In s (apply_passes bs0 passes) ->
    (s_conn s = true <-> In (s_uid s) (map snd (nodes_from root_addr tf))) /\
    (s_conn s = true -> In (s_addr s, s_uid s) (nodes_from root_addr tf)).
Proof.
  intros p fuel t pend passes tf bs0 Hwf Hnd H s Hs.
  destruct (enum_last_pass _ _ _ _ _ _ H) as [pre [last [pd [Hev Hb]]]]. subst passes.
  rewrite apply_passes_app in Hs. unfold apply_passes at 1 in Hs. simpl in Hs.
  set (X := apply_passes bs0 pre) in *.
  assert (Hnd' : NoDup (map s_uid (disconnect_all X))).
  { rewrite disconnect_all_uids. unfold X. rewrite apply_passes_uids. exact Hnd. }
  pose proof (pass_correct _ _ _ _ _ Hwf Hnd' Hb) as F.
  destruct (Forall2_in_r _ _ _ F s Hs) as [s0 [Hs0 [Hu [Hin Hnin]]]].
  pose proof (disconnect_all_conn _ _ Hs0) as Hd.
  destruct (in_dec (list_eq_dec N.eq_dec) (s_uid s0) (map snd (nodes_from root_addr tf))) as [Y|Nn].
  - destruct (Hin Y) as [Hc Ha]. split; [split; [intros _; rewrite Hu; exact Y|intros _; exact Hc]|intros _; exact Ha].
  - rewrite (Hnin Nn). split; [split; [rewrite Hd; discriminate|intro Z; contradiction]|rewrite Hd; discriminate].
Qed.

(* static bus: one pass, the bus is unchanged *)
Lemma enum_static_tree : forall fuel t passes tf, enum 1 fuel t [] = Some (passes, tf) -> tf = t /\ exists evs, passes = [evs].
Proof.
  intros fuel t passes tf H. simpl in H.
  destruct (bfs fuel [(root_addr, t)] []) as [[evs1 r]|] eqn:E; [|discriminate].
  pose proof (bfs_nil _ _ _ _ E). subst r. inversion H; subst. split; [reflexivity|]. exists evs1. reflexivity.
Qed.

(* ------------------------------------------------------------------ node new / node lost *)
Theorem node_new_spec : forall bs a l u, NoDup (map s_uid bs) ->
  node_new bs a l u = map (fun s => if uid_eqb (s_uid s) u then set_conn s true (ext_addr a l) else s) bs.
Proof. intros. unfold node_new. apply connect_map. assumption. Qed.

Theorem node_new_unknown : forall bs a l u, ~ In u (map s_uid bs) -> node_new bs a l u = bs.
Proof.
  intros bs a l u H. unfold node_new. induction bs as [|s r IH]; [reflexivity|]. simpl in *.
  destruct (uid_eqb (s_uid s) u) eqn:E; [apply uid_eqb_eq in E; exfalso; apply H; left; exact E|].
  rewrite IH; [reflexivity|]. intro X. apply H. right. exact X.
Qed.

Definition lost1 (u : uid) (s : bst) : bst := if uid_eqb (s_uid s) u then set_conn s false (s_addr s) else s.
Lemma disconnect1_map : forall bs u, NoDup (map s_uid bs) -> disconnect1 bs u = map (lost1 u) bs.
Proof.
  induction bs as [|s r IH]; intros u H; simpl; [reflexivity|].
  simpl in H. inversion H as [|x l Hn Hd]; subst.
  unfold lost1 at 1. destruct (uid_eqb (s_uid s) u) eqn:E.
  - apply uid_eqb_eq in E. subst u. f_equal. symmetry.
    clear IH H Hd. induction r as [|s' r IH]; [reflexivity|]. simpl in Hn. simpl.
    unfold lost1 at 1. destruct (uid_eqb (s_uid s') (s_uid s)) eqn:E2.
    + apply uid_eqb_eq in E2. exfalso. apply Hn. left. exact E2.
    + rewrite IH; [reflexivity|]. intro X. apply Hn. right. exact X.
  - rewrite IH by exact Hd. reflexivity.
Qed.

Lemma find_bst_some : forall bs u b, find_bst bs u = Some b -> In b bs /\ s_uid b = u.
Proof.
  induction bs as [|s r IH]; intros u b H; simpl in H; [discriminate|].
  destruct (uid_eqb (s_uid s) u) eqn:E.
  - inversion H; subst. apply uid_eqb_eq in E. split; [left; reflexivity|exact E].
  - destruct (IH _ _ H) as [H1 H2]. split; [right; exact H1|exact H2].
Qed.
Lemma find_bst_none : forall bs u, find_bst bs u = None <-> ~ In u (map s_uid bs).
Proof.
  induction bs as [|s r IH]; intro u; simpl; [tauto|].
  destruct (uid_eqb (s_uid s) u) eqn:E.
  - apply uid_eqb_eq in E. split; [discriminate|]. intro H. exfalso. apply H. left. exact E.
  - apply uid_eqb_neq in E. rewrite IH. tauto.
Qed.

(* C15_lost: whatever unique id the notice carries (configured or not): the board with this unique id is disconnected and,
   if the unique id is an interface's, so is every board whose address lies beneath the announced address
   (announcer's address extended by the local address); every other board is untouched *)
Theorem node_lost_spec : forall bs a l u, NoDup (map s_uid bs) ->
  node_lost bs a l u = map (fun s => if uid_eqb (s_uid s) u || (is_iface u && is_subnode (ext_addr a l) (s_addr s))
                                     then set_conn s false (s_addr s) else s) bs.
Proof.
  intros bs a l u Hnd. unfold node_lost.
  rewrite disconnect1_map by exact Hnd.
  destruct (is_iface u); simpl.
  - rewrite map_map. apply map_ext. intro s. unfold lost1.
    destruct (uid_eqb (s_uid s) u); simpl.
    + destruct (is_subnode (ext_addr a l) (s_addr s)); reflexivity.
    + destruct (is_subnode (ext_addr a l) (s_addr s)); reflexivity.
  - apply map_ext. intro s. unfold lost1. rewrite orb_false_r. reflexivity.
Qed.

(* a lost node that is neither configured nor an interface changes nothing *)
Theorem node_lost_unknown : forall bs a l u, ~ In u (map s_uid bs) -> is_iface u = false -> node_lost bs a l u = bs.
Proof.
  intros bs a l u H Hi. unfold node_lost. rewrite Hi.
  induction bs as [|s r IH]; [reflexivity|]. simpl in *.
  destruct (uid_eqb (s_uid s) u) eqn:E; [apply uid_eqb_eq in E; exfalso; apply H; left; exact E|].
  rewrite IH; [reflexivity|]. intro X. apply H. right. exact X.
Qed.

(* connectivity as reported by the two node-address getters agrees *)
Lemma getters_agree : forall bs s, NoDup (map s_uid bs) -> In s bs -> get_nodeaddr_by_uid bs (s_uid s) = get_nodeaddr s.
Proof.
  induction bs as [|x r IH]; intros s Hnd Hin; [contradiction|].
  simpl in Hnd. inversion Hnd as [|y l Hn Hd]; subst. unfold get_nodeaddr_by_uid. simpl.
  destruct Hin as [Hin|Hin].
  - subst x. rewrite uid_eqb_refl. reflexivity.
  - destruct (uid_eqb (s_uid x) (s_uid s)) eqn:E.
    + apply uid_eqb_eq in E. exfalso. apply Hn. rewrite E. apply in_map. exact Hin.
    + apply (IH s Hd Hin).
Qed.
Lemma getter_by_uid_unknown : forall bs u, ~ In u (map s_uid bs) -> get_nodeaddr_by_uid bs u = None.
Proof. intros bs u H. unfold get_nodeaddr_by_uid. apply find_bst_none in H. rewrite H. reflexivity. Qed.
Lemma getter_connected : forall s a, get_nodeaddr s = Some a <-> s_conn s = true /\ s_addr s = a.
Proof.
  intros s a. unfold get_nodeaddr. destruct (s_conn s); split.
  - intro H. inversion H. auto.
  - intros [_ H]. subst. reflexivity.
  - discriminate.
  - intros [H _]. discriminate.
Qed.

(* C15_ack *)
Theorem notice_ack : forall bs e,
  snd (notice_step bs e) =
  match e with NNew a v _ _ => [(a, MSG_NODE_CHANGED_ACK, [v])] | NLost a v _ _ => [(a, MSG_NODE_CHANGED_ACK, [v])] end.
Proof. intros bs [a v l u|a v l u]; reflexivity. Qed.

Lemma notice_run_acks : forall es bs,
  snd (notice_run bs es) =
  map (fun e => match e with NNew a v _ _ => (a, MSG_NODE_CHANGED_ACK, [v]) | NLost a v _ _ => (a, MSG_NODE_CHANGED_ACK, [v]) end) es.
Proof.
  induction es as [|e r IH]; intro bs; [reflexivity|]. simpl.
  destruct (notice_step bs e) as [bs1 m1] eqn:E1. destruct (notice_run bs1 r) as [bs2 m2] eqn:E2.
  simpl. specialize (IH bs1). rewrite E2 in IH. simpl in IH. rewrite IH.
  pose proof (notice_ack bs e) as A. rewrite E1 in A. simpl in A. rewrite A. destruct e; reflexivity.
Qed.

(* ------------------------------------------------------------------ addressing of commands *)
Definition addr_of (m : msg) : addr3 := fst (fst m).
Definition type_of (m : msg) : N := snd (fst m).
(* the message goes to the current address of a connected board *)
Definition to_conn (bs : list bst) (m : msg) : Prop := exists s, In s bs /\ s_conn s = true /\ addr_of m = s_addr s.

Lemma find_acc_sent : forall id asp s l ms, find_acc id asp s l = Sent ms ->
  s_conn s = true /\ forall m, In m ms -> addr_of m = s_addr s /\ type_of m = MSG_ACCESSORY_SET.
Proof.
  induction l as [|x r IH]; intros ms H; simpl in H; [discriminate|].
  destruct (a_id x =? id); [|apply IH; exact H].
  destruct (s_conn s) eqn:Ec; [|discriminate].
  destruct (127 <? a_num x); [discriminate|].
  destruct (lookup asp (a_aspects x)) as [v|]; [|discriminate].
  destruct (127 <? v); [discriminate|].
  inversion H; subst. split; [reflexivity|]. intros m Hm. unfold accessory_set in Hm.
  destruct ((127 <? a_num x) || (127 <? v)); [contradiction|]. destruct Hm as [Hm|[]]. subst m. split; reflexivity.
Qed.
Lemma find_dacc_sent : forall id asp s l ms, find_dacc id asp s l = Sent ms ->
  s_conn s = true /\ forall m, In m ms -> addr_of m = s_addr s /\ type_of m = MSG_CS_ACCESSORY.
Proof.
  induction l as [|x r IH]; intros ms H; simpl in H; [discriminate|].
  destruct (d_id x =? id); [|apply IH; exact H].
  destruct (s_conn s) eqn:Ec; [|discriminate].
  destruct (lookup asp (d_aspects x)) as [pvs|]; [|discriminate].
  inversion H; subst. split; [reflexivity|]. intros m Hm. apply in_map_iff in Hm. destruct Hm as [pv [E _]]. subst m. split; reflexivity.
Qed.
Lemma find_per_sent : forall id asp s l ms, find_per id asp s l = Sent ms ->
  s_conn s = true /\ forall m, In m ms -> addr_of m = s_addr s /\ type_of m = MSG_LC_OUTPUT.
Proof.
  induction l as [|x r IH]; intros ms H; simpl in H; [discriminate|].
  destruct (p_id x =? id); [|apply IH; exact H].
  destruct (s_conn s) eqn:Ec; [|discriminate].
  destruct (lookup asp (p_aspects x)) as [v|]; [|discriminate].
  inversion H; subst. split; [reflexivity|]. intros m [Hm|[]]. subst m. split; reflexivity.
Qed.

Lemma hl_accessory_sent : forall sel seld bb id asp ms, hl_accessory sel seld bb id asp = Sent ms ->
  exists b s, In (b, s) bb /\ s_conn s = true /\
    forall m, In m ms -> addr_of m = s_addr s /\ (type_of m = MSG_ACCESSORY_SET \/ type_of m = MSG_CS_ACCESSORY).
Proof.
  induction bb as [|[b s] r IH]; intros id asp ms H; simpl in H; [discriminate|].
  destruct (find_acc id asp s (sel b)) as [| |ms1] eqn:E1.
  - destruct (find_dacc id asp s (seld b)) as [| |ms2] eqn:E2.
    + destruct (IH _ _ _ H) as [b' [s' [Hin R]]]. exists b', s'. split; [right; exact Hin|exact R].
    + discriminate.
    + inversion H; subst. destruct (find_dacc_sent _ _ _ _ _ E2) as [Hc Hm]. exists b, s. split; [left; reflexivity|].
      split; [exact Hc|]. intros m X. destruct (Hm m X). split; [assumption|right; assumption].
  - discriminate.
  - inversion H; subst. destruct (find_acc_sent _ _ _ _ _ E1) as [Hc Hm]. exists b, s. split; [left; reflexivity|].
    split; [exact Hc|]. intros m X. destruct (Hm m X). split; [assumption|left; assumption].
Qed.

Lemma hl_periph_sent : forall bb id asp ms, hl_periph bb id asp = Sent ms ->
  exists b s, In (b, s) bb /\ s_conn s = true /\ forall m, In m ms -> addr_of m = s_addr s /\ type_of m = MSG_LC_OUTPUT.
Proof.
  induction bb as [|[b s] r IH]; intros id asp ms H; simpl in H; [discriminate|].
  destruct (find_per id asp s (b_periphs b)) as [| |ms1] eqn:E1.
  - destruct (IH _ _ _ H) as [b' [s' [Hin R]]]. exists b', s'. split; [right; exact Hin|exact R].
  - discriminate.
  - inversion H; subst. destruct (find_per_sent _ _ _ _ _ E1) as [Hc Hm]. exists b, s. split; [left; reflexivity|]. split; assumption.
Qed.

Lemma cs_drive_msgs : forall a t s fmt act sp fb ms s', cs_drive a t s fmt act sp fb = (ms, s') ->
  forall m, In m ms -> addr_of m = a /\ type_of m = MSG_CS_DRIVE /\
                       exists f1 f2 f3 f4, snd m = [t_addrl t; t_addrh t; fmt; act; sp; f1; f2; f3; f4].
Proof.
  intros a t s fmt act sp fb ms s' H m Hm. unfold cs_drive in H.
  destruct ((fmt =? 1) || (3 <? fmt) || (63 <? act) || (31 <? nth 0 fb 0)); inversion H; subst; [contradiction|].
  destruct Hm as [Hm|[]]. subst m. split; [reflexivity|]. split; [reflexivity|]. simpl. eauto.
Qed.

Lemma hl_train_periph_msgs : forall t s b pid st ms s', hl_train_periph t s b pid st = (ms, s') ->
  forall m, In m ms -> s_conn b = true /\ is_dcc (s_uid b) = true /\ addr_of m = s_addr b /\ type_of m = MSG_CS_DRIVE.
Proof.
  intros t s b pid st ms s' H m Hm. unfold hl_train_periph in H.
  destruct (1 <? st); [inversion H; subst; contradiction|].
  destruct (s_conn b && is_dcc (s_uid b)) eqn:E; simpl in H; [|inversion H; subst; contradiction].
  apply andb_true_iff in E. destruct E as [E1 E2].
  destruct (lookup pid (t_periphs t)) as [bit|]; [|inversion H; subst; contradiction].
  destruct ((5 <=? bit) && (bit <=? 7)); [inversion H; subst; contradiction|].
  destruct (if bit <? 5 then (2, 0%nat, 0, 4) else if bit <? 12 then (4, 1%nat, 8, 11) else if bit <? 16 then (8, 1%nat, 12, 15)
            else if bit <? 24 then (16, 2%nat, 16, 23) else (32, 3%nat, 24, 31)) as [[[act idx] lo] hi].
  destruct (cs_drive_msgs _ _ _ _ _ _ _ _ _ H m Hm) as [A [B _]]. auto.
Qed.

Lemma hl_train_speed0_msgs : forall t s b ms s', hl_train_speed0 t s b = (ms, s') ->
  forall m, In m ms -> s_conn b = true /\ is_dcc (s_uid b) = true /\ addr_of m = s_addr b /\ type_of m = MSG_CS_DRIVE.
Proof.
  intros t s b ms s' H m Hm. unfold hl_train_speed0 in H.
  destruct (s_conn b) eqn:E1; simpl in H; [|inversion H; subst; contradiction].
  destruct (is_dcc (s_uid b)) eqn:E2; simpl in H; [|inversion H; subst; contradiction].
  destruct (cs_drive_msgs _ _ _ _ _ _ _ _ _ H m Hm) as [A [B _]]. auto.
Qed.

Lemma track_state_all_msgs : forall bs st m, In m (track_state_all bs st) <->
  exists s, In s bs /\ is_dcc (s_uid s) = true /\ s_conn s = true /\ m = (s_addr s, MSG_CS_SET_STATE, [st]).
Proof.
  intros bs st m. unfold track_state_all. rewrite in_flat_map. split.
  - intros [s [Hs Hm]]. destruct (is_dcc (s_uid s) && s_conn s) eqn:E; [|contradiction].
    apply andb_true_iff in E. destruct E. destruct Hm as [Hm|[]]. exists s. auto.
  - intros [s [Hs [E1 [E2 Hm]]]]. exists s. split; [exact Hs|]. rewrite E1, E2. simpl. left. symmetry. exact Hm.
Qed.

(* ------------------------------------------------------------------ start-up transcript *)
Lemma feature_msgs_spec : forall bb m, In m (feature_msgs bb) <->
  exists b s k v, In (b, s) bb /\ s_conn s = true /\ In (k, v) (b_features b) /\ m = (s_addr s, MSG_FEATURE_SET, [k; v]).
Proof.
  intros bb m. unfold feature_msgs. rewrite in_flat_map. split.
  - intros [[b s] [Hin Hm]]. destruct (s_conn s) eqn:E; [|contradiction].
    apply in_map_iff in Hm. destruct Hm as [[k v] [Em Hf]]. exists b, s, k, v. simpl in Em. auto.
  - intros [b [s [k [v [Hin [Hc [Hf Hm]]]]]]]. exists (b, s). split; [exact Hin|]. rewrite Hc.
    apply in_map_iff. exists (k, v). split; [symmetry; exact Hm|exact Hf].
Qed.

Lemma occupancy_msgs_to_conn : forall bb m, In m (occupancy_msgs bb) ->
  exists b s, In (b, s) bb /\ s_conn s = true /\ is_dcc (s_uid s) = true /\ addr_of m = s_addr s /\
              (type_of m = MSG_BM_GET_RANGE \/ type_of m = MSG_BM_ADDR_GET_RANGE).
Proof.
  intros bb m H. unfold occupancy_msgs in H. apply in_flat_map in H. destruct H as [[b s] [Hin Hm]].
  destruct (s_conn s && is_dcc (s_uid s)) eqn:E; [|contradiction]. apply andb_true_iff in E. destruct E as [E1 E2].
  exists b, s. split; [exact Hin|]. split; [exact E1|]. split; [exact E2|].
  destruct Hm as [Hm|[Hm|[]]]; subst m; (split; [reflexivity|]); [left|right]; reflexivity.
Qed.

Lemma reset_one_train_msgs : forall bs t s ms s', reset_one_train bs t s = (ms, s') ->
  forall m, In m ms -> to_conn bs m /\ type_of m = MSG_CS_DRIVE /\
                       exists fmt, snd m = [t_addrl t; t_addrh t; fmt; 0; 0; 0; 0; 0; 0].
Proof.
  intros bs t s ms s'. unfold reset_one_train.
  assert (G : forall l acc, (forall x, In x l -> In x bs) ->
            (forall m, In m (fst acc) -> to_conn bs m /\ type_of m = MSG_CS_DRIVE /\ exists fmt, snd m = [t_addrl t; t_addrh t; fmt; 0; 0; 0; 0; 0; 0]) ->
            forall m, In m (fst (fold_left (fun acc b => if s_conn b && is_dcc (s_uid b)
                          then let '(m, s1) := cs_drive (s_addr b) t (snd acc) (dcc_format (t_steps t)) 0 0 [0;0;0;0] in (fst acc ++ m, s1)
                          else acc) l acc)) ->
              to_conn bs m /\ type_of m = MSG_CS_DRIVE /\ exists fmt, snd m = [t_addrl t; t_addrh t; fmt; 0; 0; 0; 0; 0; 0]).
  { induction l as [|b r IH]; intros acc Hsub Hacc m Hm; [apply Hacc; exact Hm|].
    simpl in Hm. eapply IH; [intros x Hx; apply Hsub; right; exact Hx| |exact Hm].
    destruct (s_conn b && is_dcc (s_uid b)) eqn:E; [|exact Hacc].
    apply andb_true_iff in E. destruct E as [E1 _].
    destruct (cs_drive (s_addr b) t (snd acc) (dcc_format (t_steps t)) 0 0 [0;0;0;0]) as [m1 s1] eqn:Ed.
    simpl. intros m' Hm'. apply in_app_iff in Hm'. destruct Hm' as [Hm'|Hm']; [apply Hacc; exact Hm'|].
    destruct (cs_drive_msgs _ _ _ _ _ _ _ _ _ Ed m' Hm') as [A [B [f1 [f2 [f3 [f4 C]]]]]].
    split; [exists b; split; [apply Hsub; left; reflexivity|split; [exact E1|exact A]]|]. split; [exact B|].
    unfold cs_drive in Ed. destruct ((dcc_format (t_steps t) =? 1) || (3 <? dcc_format (t_steps t)) || (63 <? 0) || (31 <? nth 0 [0;0;0;0] 0));
      inversion Ed; subst; [contradiction|]. destruct Hm' as [Hm'|[]]. subst m'. simpl. eauto. }
  intros H m Hm. specialize (G bs ([], s) (fun x Hx => Hx)). rewrite H in G. simpl in G. apply G; [intros m' []|exact Hm].
Qed.

Lemma reset_train_params_msgs : forall bs ts ss ms ss', reset_train_params bs ts ss = (ms, ss') ->
  forall m, In m ms -> to_conn bs m /\ type_of m = MSG_CS_DRIVE /\
                       exists t fmt, In t ts /\ snd m = [t_addrl t; t_addrh t; fmt; 0; 0; 0; 0; 0; 0].
Proof.
  induction ts as [|t tr IH]; intros ss ms ss' H m Hm; simpl in H.
  - inversion H; subst. contradiction.
  - destruct ss as [|s sr]; [inversion H; subst; contradiction|].
    destruct (reset_one_train bs t s) as [m1 s1] eqn:E1. destruct (reset_train_params bs tr sr) as [m2 sr2] eqn:E2.
    inversion H; subst. apply in_app_iff in Hm. destruct Hm as [Hm|Hm].
    + destruct (reset_one_train_msgs _ _ _ _ _ E1 m Hm) as [A [B [fmt C]]]. split; [exact A|]. split; [exact B|]. exists t, fmt. split; [left; reflexivity|exact C].
    + destruct (IH _ _ _ E2 m Hm) as [A [B [t' [fmt [Ht C]]]]]. split; [exact A|]. split; [exact B|]. exists t', fmt. split; [right; exact Ht|exact C].
Qed.

Lemma init_train_one_msgs : forall bs t pid v s ms s', init_train_one bs t pid v s = (ms, s') ->
  forall m, In m ms -> to_conn bs m /\ type_of m = MSG_CS_DRIVE.
Proof.
  intros bs t pid v s ms s'. unfold init_train_one.
  assert (G : forall l acc, (forall x, In x l -> In x bs) ->
            (forall m, In m (fst acc) -> to_conn bs m /\ type_of m = MSG_CS_DRIVE) ->
            forall m, In m (fst (fold_left (fun acc b => if is_dcc (s_uid b)
                          then let '(m1, s1) := hl_train_periph t (snd acc) b pid v in
                               let '(m2, s2) := hl_train_speed0 t s1 b in (fst acc ++ m1 ++ m2, s2)
                          else acc) l acc)) -> to_conn bs m /\ type_of m = MSG_CS_DRIVE).
  { induction l as [|b r IH]; intros acc Hsub Hacc m Hm; [apply Hacc; exact Hm|].
    simpl in Hm. eapply IH; [intros x Hx; apply Hsub; right; exact Hx| |exact Hm].
    destruct (is_dcc (s_uid b)); [|exact Hacc].
    destruct (hl_train_periph t (snd acc) b pid v) as [m1 s1] eqn:E1. destruct (hl_train_speed0 t s1 b) as [m2 s2] eqn:E2.
    simpl. intros m' Hm'. apply in_app_iff in Hm'. destruct Hm' as [Hm'|Hm']; [apply Hacc; exact Hm'|].
    apply in_app_iff in Hm'. destruct Hm' as [Hm'|Hm'].
    - destruct (hl_train_periph_msgs _ _ _ _ _ _ _ E1 m' Hm') as [A [_ [C D]]].
      split; [exists b; split; [apply Hsub; left; reflexivity|split; assumption]|exact D].
    - destruct (hl_train_speed0_msgs _ _ _ _ _ E2 m' Hm') as [A [_ [C D]]].
      split; [exists b; split; [apply Hsub; left; reflexivity|split; assumption]|exact D]. }
  intros H m Hm. specialize (G bs ([], s) (fun x Hx => Hx)). rewrite H in G. simpl in G. apply G; [intros m' []|exact Hm].
Qed.

Lemma init_trains_msgs : forall bs ts iv ss ms ss', init_trains bs ts ss iv = (ms, ss') ->
  forall m, In m ms -> to_conn bs m /\ type_of m = MSG_CS_DRIVE.
Proof.
  induction iv as [|[[ti pid] v] r IH]; intros ss ms ss' H m Hm; simpl in H.
  - inversion H; subst. contradiction.
  - destruct (nth_error ts ti) as [t|]; [|eapply IH; eassumption].
    destruct (nth_error ss ti) as [s|]; [|eapply IH; eassumption].
    destruct (init_train_one bs t pid v s) as [m1 s1] eqn:E1.
    destruct (init_trains bs ts (set_nth ti ss s1) r) as [m2 ss2] eqn:E2.
    inversion H; subst. apply in_app_iff in Hm. destruct Hm as [Hm|Hm].
    + eapply init_train_one_msgs; eassumption.
    + eapply IH; eassumption.
Qed.

Lemma in_combine_conn : forall (bds : list board) (bs : list bst) (b : board) (s : bst), In (b, s) (combine bds bs) -> In s bs.
Proof. intros. eapply in_combine_r. eassumption. Qed.

Lemma init_accessory_msgs_to_conn : forall c bs m, In m (init_accessory_msgs c bs) ->
  to_conn bs m /\ (type_of m = MSG_ACCESSORY_SET \/ type_of m = MSG_CS_ACCESSORY \/ type_of m = MSG_LC_OUTPUT).
Proof.
  intros c bs m H. unfold init_accessory_msgs in H.
  apply in_app_iff in H. destruct H as [H|H]; [|apply in_app_iff in H; destruct H as [H|H]];
    apply in_flat_map in H; destruct H as [[id asp] [_ Hm]]; simpl in Hm.
  - unfold hl_point in Hm. destruct (hl_accessory b_points b_points_dcc (combine (c_boards c) bs) id asp) as [| |ms] eqn:E; try contradiction.
    destruct (hl_accessory_sent _ _ _ _ _ _ E) as [b [s [Hin [Hc Hms]]]]. destruct (Hms m Hm) as [A B].
    split; [exists s; split; [eapply in_combine_conn; exact Hin|split; assumption]|tauto].
  - unfold hl_signal in Hm. destruct (hl_accessory b_signals b_signals_dcc (combine (c_boards c) bs) id asp) as [| |ms] eqn:E; try contradiction.
    destruct (hl_accessory_sent _ _ _ _ _ _ E) as [b [s [Hin [Hc Hms]]]]. destruct (Hms m Hm) as [A B].
    split; [exists s; split; [eapply in_combine_conn; exact Hin|split; assumption]|tauto].
  - destruct (hl_periph (combine (c_boards c) bs) id asp) as [| |ms] eqn:E; try contradiction.
    destruct (hl_periph_sent _ _ _ _ E) as [b [s [Hin [Hc Hms]]]]. destruct (Hms m Hm) as [A B].
    split; [exists s; split; [eapply in_combine_conn; exact Hin|split; assumption]|tauto].
Qed.

Ltac type_neq H := let X := fresh in intro X; rewrite H in X; vm_compute in X; discriminate X.

(* C20: shape of everything bidib_send_sys_reset sends after the enumeration *)
Theorem after_enum_order : forall c bs ss, exists rm tm,
  fst (after_enum c bs ss) =
    [(root_addr, MSG_GET_PKT_CAPACITY, [])] ++ feature_msgs (combine (c_boards c) bs) ++ [(root_addr, MSG_SYS_ENABLE, [])] ++
    rm ++ track_state_all bs BIDIB_CS_STATE_GO ++ occupancy_msgs (combine (c_boards c) bs) ++ init_accessory_msgs c bs ++ tm /\
  (forall m, In m rm -> to_conn bs m /\ type_of m = MSG_CS_DRIVE) /\
  (forall m, In m tm -> to_conn bs m /\ type_of m = MSG_CS_DRIVE).
Proof.
  intros c bs ss. unfold after_enum.
  destruct (reset_train_params bs (c_trains c) ss) as [rm ss1] eqn:E1.
  destruct (init_trains bs (c_trains c) ss1 (c_init_trains c)) as [tm ss2] eqn:E2.
  exists rm, tm. split; [reflexivity|]. split.
  - intros m Hm. destruct (reset_train_params_msgs _ _ _ _ _ E1 m Hm) as [A [B _]]. split; assumption.
  - intros m Hm. eapply init_trains_msgs; eassumption.
Qed.

(* nothing after SYS_ENABLE is a feature setting, and everything after it goes to a connected board *)
Theorem after_enable_silent : forall c bs rm tm m,
  (forall x, In x rm -> to_conn bs x /\ type_of x = MSG_CS_DRIVE) ->
  (forall x, In x tm -> to_conn bs x /\ type_of x = MSG_CS_DRIVE) ->
  In m (rm ++ track_state_all bs BIDIB_CS_STATE_GO ++ occupancy_msgs (combine (c_boards c) bs) ++ init_accessory_msgs c bs ++ tm) ->
  to_conn bs m /\ type_of m <> MSG_FEATURE_SET /\ type_of m <> MSG_SYS_ENABLE.
Proof.
  intros c bs rm tm m Hrm Htm H.
  apply in_app_iff in H. destruct H as [H|H].
  { destruct (Hrm m H) as [A B]. split; [exact A|]. split; type_neq B. }
  apply in_app_iff in H. destruct H as [H|H].
  { apply track_state_all_msgs in H. destruct H as [s [Hs [_ [Hc Hm]]]]. subst m.
    split; [exists s; split; [exact Hs|split; [exact Hc|reflexivity]]|]. split; vm_compute; discriminate. }
  apply in_app_iff in H. destruct H as [H|H].
  { destruct (occupancy_msgs_to_conn _ _ H) as [b [s [Hin [Hc [_ [Ha Ht]]]]]].
    split; [exists s; split; [eapply in_combine_conn; exact Hin|split; assumption]|].
    destruct Ht as [Ht|Ht]; split; type_neq Ht. }
  apply in_app_iff in H. destruct H as [H|H].
  { destruct (init_accessory_msgs_to_conn _ _ _ H) as [A [B|[B|B]]]; (split; [exact A|]); split; type_neq B. }
  { destruct (Htm m H) as [A B]. split; [exact A|]. split; type_neq B. }
Qed.

(* ------------------------------------------------------------------ example values *)
Definition wu0 : uid := [144; 0; 13; 0; 0; 0; 1].   (* interface + track output *)
Definition wu1 : uid := [4; 0; 13; 0; 0; 0; 2].
Definition wu2 : uid := [132; 0; 13; 0; 0; 0; 3].   (* interface class *)
Definition wux : uid := [64; 0; 13; 0; 0; 0; 9].    (* not configured *)
Definition wuh : uid := [128; 0; 13; 0; 0; 0; 10].  (* interface, not configured *)
Definition wboard (u : uid) (f : list (N * N)) : board :=
  {| b_uid := u; b_features := f; b_points := []; b_points_dcc := []; b_signals := []; b_signals_dcc := []; b_periphs := []; b_maxseg := 0 |}.
Definition wcfg : cfg :=
  {| c_boards := [wboard wu0 []; wboard wu1 [(1, 7)]; wboard wu2 []]; c_trains := [];
     c_init_points := []; c_init_signals := []; c_init_periphs := []; c_init_trains := [] |}.

(* an interface-class board on the third level (formerly reported at its parent's address (1,2,0)): the bus is well-formed,
   the interface is not queried itself, the board is at its path address *)
Definition w_deep : tree := T wu0 [(1, T wuh [(2, T wuh [(3, T wu2 [])])])].
Lemma nv_level3 :
  exists ps, enum 1 10 w_deep [] = Some (ps, w_deep) /\ wf_from root_addr w_deep = true /\
    In ((1, 2, 3), wu2) (nodes_from root_addr w_deep) /\
    apply_passes (init_bs wcfg) ps =
      [{| s_uid := wu0; s_conn := true; s_addr := root_addr |}; {| s_uid := wu1; s_conn := false; s_addr := root_addr |};
       {| s_uid := wu2; s_conn := true; s_addr := (1, 2, 3) |}] /\
    concat (map (flat_map ev_msgs) ps) =
      [(root_addr, MSG_NODETAB_GETALL, []); (root_addr, MSG_NODETAB_GETNEXT, []); (root_addr, MSG_NODETAB_GETNEXT, []);
       ((1, 0, 0), MSG_NODETAB_GETALL, []); ((1, 0, 0), MSG_NODETAB_GETNEXT, []); ((1, 0, 0), MSG_NODETAB_GETNEXT, []);
       ((1, 2, 0), MSG_NODETAB_GETALL, []); ((1, 2, 0), MSG_NODETAB_GETNEXT, []); ((1, 2, 0), MSG_NODETAB_GETNEXT, [])].
Proof. eexists. split; [vm_compute; reflexivity|]. split; [reflexivity|]. split; [vm_compute; tauto|]. split; reflexivity. Qed.

(* the loss of an interface that is not configured (formerly ignored): the configured board beneath it is disconnected, a
   board elsewhere is untouched *)
Lemma nv_lost_unknown_iface :
  let bs := [{| s_uid := wu1; s_conn := true; s_addr := (1, 2, 0) |}; {| s_uid := wu2; s_conn := true; s_addr := (3, 0, 0) |}] in
  notice_step bs (NLost root_addr 5 1 wuh) =
    ([{| s_uid := wu1; s_conn := false; s_addr := (1, 2, 0) |}; {| s_uid := wu2; s_conn := true; s_addr := (3, 0, 0) |}],
     [(root_addr, MSG_NODE_CHANGED_ACK, [5])]) /\ ~ In wuh (map s_uid bs).
Proof. split; [reflexivity|]. vm_compute. intros [H|[H|[]]]; discriminate H. Qed.

(* a table change while the root interface transfers row 2 (board 1 was seen in the aborted pass and is gone afterwards),
   and a later system reset against a bus from which board 1 has disappeared: both end with board 1 disconnected *)
Definition w_tree0 : tree := T wu0 [(1, T wu1 []); (2, T wux [])].
Definition w_tree1 : tree := T wu0 [(2, T wux [])].
Lemma nv_restart :
  exists ps, enum 2 10 w_tree0 [(root_addr, 2, w_tree1)] = Some (ps, w_tree1) /\ length ps = 2%nat /\
    wf_from root_addr w_tree1 = true /\
    map s_conn (apply_passes (init_bs wcfg) ps) = [true; false; false] /\
    map s_conn (apply_passes (init_bs wcfg) (firstn 1 ps)) = [true; true; false].
Proof. eexists. split; [vm_compute; reflexivity|]. repeat split; reflexivity. Qed.

(* ------------------------------------------------------------------ non-vacuity *)
Definition nv_tree : tree :=
  T wuh [(3, T wu1 []); (5, T wu2 [(1, T wux []); (7, T wu0 [(9, T wux [])])])].
Lemma nv_enum : exists ps, enum 1 20 nv_tree [] = Some (ps, nv_tree) /\ wf_from root_addr nv_tree = true /\
  NoDup (map b_uid (c_boards wcfg)) /\
  apply_passes (init_bs wcfg) ps =
    [{| s_uid := wu0; s_conn := true; s_addr := (5, 7, 0) |}; {| s_uid := wu1; s_conn := true; s_addr := (3, 0, 0) |};
     {| s_uid := wu2; s_conn := true; s_addr := (5, 0, 0) |}].
Proof.
  eexists. split; [vm_compute; reflexivity|]. split; [reflexivity|]. split; [|reflexivity].
  repeat constructor; vm_compute; intuition discriminate.
Qed.

(* ------------------------------------------------------------------ further C20 lemmas *)
Theorem after_enum_to_conn : forall c bs ss m, In m (fst (after_enum c bs ss)) ->
  m = (root_addr, MSG_GET_PKT_CAPACITY, []) \/ m = (root_addr, MSG_SYS_ENABLE, []) \/ to_conn bs m.
Proof.
  intros c bs ss m H. destruct (after_enum_order c bs ss) as [rm [tm [E [Hrm Htm]]]]. rewrite E in H.
  apply in_app_iff in H. destruct H as [[H|[]]|H]; [left; symmetry; exact H|].
  apply in_app_iff in H. destruct H as [H|H].
  { right. right. apply feature_msgs_spec in H. destruct H as [b [s [k [v [Hin [Hc [_ Hm]]]]]]]. subst m.
    exists s. split; [eapply in_combine_conn; exact Hin|split; [exact Hc|reflexivity]]. }
  apply in_app_iff in H. destruct H as [[H|[]]|H]; [right; left; symmetry; exact H|].
  right. right. exact (proj1 (after_enable_silent c bs rm tm m Hrm Htm H)).
Qed.

Lemma init_accessory_def : forall c bs,
  init_accessory_msgs c bs =
  flat_map (fun ia => found_msgs (hl_point (combine (c_boards c) bs) (fst ia) (snd ia))) (c_init_points c) ++
  flat_map (fun ia => found_msgs (hl_signal (combine (c_boards c) bs) (fst ia) (snd ia))) (c_init_signals c) ++
  flat_map (fun ia => found_msgs (hl_periph (combine (c_boards c) bs) (fst ia) (snd ia))) (c_init_periphs c).
Proof. reflexivity. Qed.

Lemma startup_def : forall fuel c t pend,
  startup fuel c t pend =
  match sys_reset fuel c (init_bs c) t pend with
  | None => None
  | Some (m, bs, ss, tf) => Some (probe_msgs ++ m, bs, ss, tf)
  end.
Proof. reflexivity. Qed.

Lemma upd_rows_idem : forall rows s, upd_rows rows (upd_rows rows s) = upd_rows rows s.
Proof.
  intros rows s. unfold upd_rows at 1. rewrite upd_rows_uid. unfold upd_rows.
  destruct (last_addr rows (s_uid s)); reflexivity.
Qed.

Definition clr (s : bst) : bst := set_conn s false (s_addr s).
Lemma disconnect_all_map : forall bs, disconnect_all bs = map clr bs.
Proof. reflexivity. Qed.

(* one complete pass applied twice is the same as applied once *)
Lemma upd_clr_idem : forall rows s, upd_rows rows (clr (upd_rows rows (clr s))) = upd_rows rows (clr s).
Proof.
  intros rows s.
  assert (U : s_uid (clr (upd_rows rows (clr s))) = s_uid s) by (unfold clr at 1; simpl; rewrite upd_rows_uid; reflexivity).
  unfold upd_rows at 1. rewrite U.
  assert (V : upd_rows rows (clr s) = match last_addr rows (s_uid s) with Some a => set_conn (clr s) true a | None => clr s end) by reflexivity.
  destruct (last_addr rows (s_uid s)) eqn:E.
  - rewrite V. unfold set_conn, clr. simpl. reflexivity.
  - rewrite V. unfold set_conn, clr. simpl. reflexivity.
Qed.
Lemma pass_idem : forall evs bs, NoDup (map s_uid bs) ->
  apply_evs (disconnect_all (apply_evs (disconnect_all bs) evs)) evs = apply_evs (disconnect_all bs) evs.
Proof.
  intros evs bs H.
  assert (H1 : NoDup (map s_uid (disconnect_all bs))) by (rewrite disconnect_all_uids; exact H).
  rewrite (apply_evs_elem evs (disconnect_all bs) H1).
  assert (H2 : NoDup (map s_uid (disconnect_all (map (upd_rows (erows evs)) (disconnect_all bs))))).
  { rewrite disconnect_all_uids, map_map. erewrite map_ext; [exact H1|]. intro s. apply upd_rows_uid. }
  rewrite (apply_evs_elem evs _ H2).
  rewrite !disconnect_all_map. rewrite !map_map. apply map_ext_in. intros s Hs.
  try (apply in_map_iff in Hs; destruct Hs as [s' [Es _]]; subst s). apply upd_clr_idem.
Qed.

(* C20_every_reset: a further system reset against the same bus repeats the transcript and leaves the same state *)
Theorem sys_reset_again : forall fuel c bs t m bs1 ss tf, NoDup (map s_uid bs) ->
  sys_reset fuel c bs t [] = Some (m, bs1, ss, tf) ->
  sys_reset fuel c bs1 tf [] = Some (m, bs1, ss, tf).
Proof.
  intros fuel c bs t m bs1 ss tf Hnd H. unfold sys_reset in *. simpl length in *.
  destruct (enum 1 fuel t []) as [[ps tf']|] eqn:E; [|discriminate].
  destruct (enum_static_tree _ _ _ _ E) as [Et [evs Ep]]. subst tf' ps.
  assert (X : apply_passes (apply_passes bs [evs]) [evs] = apply_passes bs [evs]).
  { unfold apply_passes. simpl. apply pass_idem. exact Hnd. }
  remember (apply_passes bs [evs]) as B eqn:HB.
  destruct (after_enum c B (init_ts c)) as [m1 ss1] eqn:Ea.
  injection H as H1 H2 H3 H4. subst m bs1 ss tf. rewrite E. rewrite X, Ea. reflexivity.
Qed.

(* a complete start-up against a small bus, for non-vacuity *)
Definition nv_cfg : cfg :=
  {| c_boards := [ {| b_uid := wu0; b_features := [(1, 0); (4, 1)];
                      b_points := [ {| a_id := 1; a_num := 2; a_aspects := [(10, 1); (11, 0)] |} ]; b_points_dcc := [];
                      b_signals := []; b_signals_dcc := []; b_periphs := []; b_maxseg := 0 |};
                   {| b_uid := wu1; b_features := [(16, 7)]; b_points := []; b_points_dcc := [];
                      b_signals := [ {| a_id := 2; a_num := 16; a_aspects := [(12, 2)] |} ]; b_signals_dcc := [];
                      b_periphs := [ {| p_id := 3; p_port0 := 35; p_port1 := 1; p_aspects := [(13, 1)] |} ]; b_maxseg := 0 |};
                   wboard wu2 [(9, 9)] ];
     c_trains := [ {| t_addrl := 35; t_addrh := 1; t_steps := 126; t_periphs := [(20, 4); (21, 0)] |} ];
     c_init_points := [(1, 10)]; c_init_signals := [(2, 12)]; c_init_periphs := [(3, 13)]; c_init_trains := [(0%nat, 20, 1)] |}.
Lemma nv_startup :
  match startup 20 nv_cfg (T wu0 [(1, T wu1 [])]) [] with
  | Some (ms, bs, _, _) =>
      ms = probe_msgs ++
           [(root_addr, MSG_SYS_RESET, []); (root_addr, MSG_NODETAB_GETALL, []); (root_addr, MSG_NODETAB_GETNEXT, []);
            (root_addr, MSG_NODETAB_GETNEXT, []);
            (root_addr, MSG_GET_PKT_CAPACITY, []);
            (root_addr, MSG_FEATURE_SET, [1; 0]); (root_addr, MSG_FEATURE_SET, [4; 1]); ((1, 0, 0), MSG_FEATURE_SET, [16; 7]);
            (root_addr, MSG_SYS_ENABLE, []);
            (root_addr, MSG_CS_DRIVE, [35; 1; 3; 0; 0; 0; 0; 0; 0]);
            (root_addr, MSG_CS_SET_STATE, [3]);
            (root_addr, MSG_BM_GET_RANGE, [0; 8]); (root_addr, MSG_BM_ADDR_GET_RANGE, [0; 1]);
            (root_addr, MSG_ACCESSORY_SET, [2; 1]); ((1, 0, 0), MSG_ACCESSORY_SET, [16; 2]); ((1, 0, 0), MSG_LC_OUTPUT, [35; 1; 1]);
            (root_addr, MSG_CS_DRIVE, [35; 1; 3; 2; 0; 16; 0; 0; 0]); (root_addr, MSG_CS_DRIVE, [35; 1; 3; 1; 128; 0; 0; 0; 0])]
      /\ map s_conn bs = [true; true; false]
  | None => False
  end.
Proof. vm_compute. split; reflexivity. Qed.

(* ------------------------------------------------------------------ corollaries for the repaired enumeration *)
Theorem enum_static : forall fuel c t ps tf,
  wf_from root_addr t = true -> NoDup (map b_uid (c_boards c)) ->
  enum 1 fuel t [] = Some (ps, tf) ->
  tf = t /\
  forall s, In s (apply_passes (init_bs c) ps) ->
    (s_conn s = true <-> In (s_uid s) (map snd (nodes_from root_addr t))) /\
    (s_conn s = true -> In (s_addr s, s_uid s) (nodes_from root_addr t)).
Proof.
  intros fuel c t ps tf Hwf Hnd H. destruct (enum_static_tree _ _ _ _ H) as [Et _]. subst tf. split; [reflexivity|].
  apply (enum_correct 1 fuel t [] ps t (init_bs c) Hwf); [rewrite init_bs_uids; exact Hnd|exact H].
Qed.

(* the board table after bidib_send_sys_reset, from any earlier table and with any table changes on the way *)
Theorem sys_reset_table : forall fuel c bs t pend m bs1 ss tf,
  wf_from root_addr tf = true -> NoDup (map s_uid bs) ->
  sys_reset fuel c bs t pend = Some (m, bs1, ss, tf) ->
  forall s, In s bs1 ->
    (s_conn s = true <-> In (s_uid s) (map snd (nodes_from root_addr tf))) /\
    (s_conn s = true -> In (s_addr s, s_uid s) (nodes_from root_addr tf)).
Proof.
  intros fuel c bs t pend m bs1 ss tf Hwf Hnd H. unfold sys_reset in H.
  destruct (enum (S (length pend)) fuel t pend) as [[ps tf']|] eqn:E; [|discriminate].
  remember (apply_passes bs ps) as B eqn:HB.
  destruct (after_enum c B (init_ts c)) as [m1 ss1]. injection H as H1 H2 H3 H4. subst m bs1 ss tf'.
  rewrite HB. exact (enum_correct _ _ _ _ _ _ bs Hwf Hnd E).
Qed.

(* ------------------------------------------------------------------ with the C09 repairs (0001-0004) *)
(* a board point / signal command that returns 0 has sent exactly one ACCESSORY_SET with number and aspect within 0..127 (so
   the range check of bidib_send_accessory_set never drops it); in every other case it returns 1 and nothing is sent *)
Lemma find_acc_sent_one : forall id asp s l ms, find_acc id asp s l = Sent ms ->
  exists x v, In x l /\ a_id x = id /\ lookup asp (a_aspects x) = Some v /\ a_num x <= 127 /\ v <= 127 /\ s_conn s = true /\
              ms = [(s_addr s, MSG_ACCESSORY_SET, [a_num x; v])].
Proof.
  induction l as [|x r IH]; intros ms H; simpl in H; [discriminate|].
  destruct (a_id x =? id) eqn:Ei.
  - destruct (s_conn s) eqn:Ec; [|discriminate].
    destruct (127 <? a_num x) eqn:En; [discriminate|].
    destruct (lookup asp (a_aspects x)) as [v|] eqn:El; [|discriminate].
    destruct (127 <? v) eqn:Ev; [discriminate|].
    apply N.ltb_ge in En, Ev. apply N.eqb_eq in Ei.
    exists x, v. repeat split; auto; [left; reflexivity|].
    inversion H; subst. unfold accessory_set.
    assert (X : (127 <? a_num x) || (127 <? v) = false).
    { apply orb_false_iff. split; apply N.ltb_ge; assumption. }
    rewrite X. reflexivity.
  - destruct (IH ms H) as [x' [v [A B]]]. exists x', v. split; [right; exact A|exact B].
Qed.

Lemma found_msgs_refused : forall f, found_rc f = 1 -> found_msgs f = [].
Proof. intros [| |ms] H; [reflexivity|reflexivity|discriminate H]. Qed.

(* the train function command: a state above 1 or a function bit 5..7 returns 1 and sends nothing *)
Lemma hl_train_periph_refused : forall t s b pid st, hl_train_periph_rc t b pid st = 1 -> hl_train_periph t s b pid st = ([], s).
Proof.
  intros t s b pid st H. unfold hl_train_periph_rc in H. unfold hl_train_periph.
  destruct (1 <? st); [reflexivity|].
  destruct (s_conn b && is_dcc (s_uid b)); simpl; [|reflexivity].
  destruct (lookup pid (t_periphs t)) as [bit|]; [|reflexivity].
  destruct ((5 <=? bit) && (bit <=? 7)); [reflexivity|discriminate H].
Qed.

(* bidib_set_track_output_state: return code 0 iff exactly one CS_SET_STATE went to the (connected) track output *)
Lemma hl_track_state_rc : forall b st, 
  (snd (hl_track_state b st) = 0 -> fst (hl_track_state b st) = [(s_addr b, MSG_CS_SET_STATE, [st])] /\ s_conn b = true /\ is_dcc (s_uid b) = true) /\
  (snd (hl_track_state b st) <> 0 -> fst (hl_track_state b st) = []).
Proof.
  intros b st. unfold hl_track_state.
  destruct ((4 <? st) && negb (st =? 8) && negb (st =? 9) && negb (st =? 13) && negb (st =? 255)); simpl.
  - split; [discriminate|reflexivity].
  - destruct (s_conn b && is_dcc (s_uid b)) eqn:E; simpl.
    + apply andb_true_iff in E. destruct E. split; [auto|intro X; contradiction].
    + split; [discriminate|reflexivity].
Qed.

(* ------------------------------------------------------------------ the look-up by address *)
Lemma uid_by_addr_some : forall bs a u, get_uid_by_addr bs a = Some u ->
  exists s, In s bs /\ s_conn s = true /\ s_addr s = a /\ s_uid s = u.
Proof.
  induction bs as [|s r IH]; intros a u H; simpl in H; [discriminate|].
  destruct (s_conn s && addr3_eqb (s_addr s) a) eqn:E.
  - apply andb_true_iff in E. destruct E as [E1 E2]. apply addr3_eqb_eq in E2. inversion H; subst.
    exists s. repeat split; auto. left. reflexivity.
  - destruct (IH a u H) as [s' [A B]]. exists s'. split; [right; exact A|exact B].
Qed.
Lemma uid_by_addr_none : forall bs a, get_uid_by_addr bs a = None <-> (forall s, In s bs -> s_conn s = true -> s_addr s <> a).
Proof.
  induction bs as [|s r IH]; intro a; simpl.
  - split; [intros _ s []|reflexivity].
  - destruct (s_conn s && addr3_eqb (s_addr s) a) eqn:E.
    + apply andb_true_iff in E. destruct E as [E1 E2]. apply addr3_eqb_eq in E2. split; [discriminate|].
      intro H. exfalso. apply (H s); auto.
    + rewrite IH. split.
      * intros H s' [X|X] Hc; [subst s'|apply H; assumption].
        intro Ea. rewrite Hc in E. simpl in E. assert (Y : addr3_eqb (s_addr s) a = true) by (apply addr3_eqb_eq; exact Ea). congruence.
      * intros H s' X. apply H. right. exact X.
Qed.
(* where the connected boards have pairwise distinct addresses (after an enumeration of a bus: C15_restart puts every
   connected board at its node's address) the look-up by a connected board's address returns that board *)
Lemma uid_by_addr_of_board : forall bs s,
  (forall x y, In x bs -> In y bs -> s_conn x = true -> s_conn y = true -> s_addr x = s_addr y -> x = y) ->
  In s bs -> s_conn s = true -> get_uid_by_addr bs (s_addr s) = Some (s_uid s).
Proof.
  intros bs s Hd Hin Hc. destruct (get_uid_by_addr bs (s_addr s)) as [u|] eqn:E.
  - destruct (uid_by_addr_some _ _ _ E) as [s' [A [B [C D]]]]. rewrite (Hd s' s A Hin B Hc C) in D. rewrite D. reflexivity.
  - exfalso. rewrite uid_by_addr_none in E. exact (E s Hin Hc eq_refl).
Qed.

Lemma fst_unique : forall {A B} (l : list (A * B)) a u u', NoDup (map fst l) -> In (a, u) l -> In (a, u') l -> u = u'.
Proof.
  induction l as [|[x y] r IH]; intros a u u' Hnd H1 H2; [contradiction|].
  simpl in Hnd. inversion Hnd as [|z zs Hn Hd]; subst.
  destruct H1 as [H1|H1]; destruct H2 as [H2|H2].
  - congruence.
  - inversion H1; subst. exfalso. apply Hn. apply in_map_iff. exists (a, u'). split; [reflexivity|exact H2].
  - inversion H2; subst. exfalso. apply Hn. apply in_map_iff. exists (a, u). split; [reflexivity|exact H1].
  - eapply IH; eassumption.
Qed.

(* after an enumeration (start-up, restart, system reset) of a bus whose nodes have distinct addresses and distinct unique
   ids: the look-up by address knows an address iff a configured board's node sits there, and reports that node's unique id *)
Theorem uid_by_addr_bus : forall p fuel t pend passes tf bs0,
  wf_from root_addr tf = true -> NoDup (map s_uid bs0) ->
  NoDup (map fst (nodes_from root_addr tf)) -> NoDup (map snd (nodes_from root_addr tf)) ->
  enum p fuel t pend = Some (passes, tf) ->
  forall a u, get_uid_by_addr (apply_passes bs0 passes) a = Some u <->
              In (a, u) (nodes_from root_addr tf) /\ In u (map s_uid bs0).
Proof.
  intros p fuel t pend passes tf bs0 Hwf Hnd Hf Hs He a u.
  pose proof (enum_correct p fuel t pend passes tf bs0 Hwf Hnd He) as C.
  set (bs := apply_passes bs0 passes) in *.
  assert (U : map s_uid bs = map s_uid bs0) by apply apply_passes_uids.
  split.
  - intro H. destruct (uid_by_addr_some _ _ _ H) as [s [Hin [Hc [Ha Hu]]]].
    destruct (C s Hin) as [_ Hadr]. specialize (Hadr Hc). rewrite Ha, Hu in Hadr. split; [exact Hadr|].
    rewrite <- U, <- Hu. apply in_map. exact Hin.
  - intros [Hn Hcfg]. rewrite <- U in Hcfg. apply in_map_iff in Hcfg. destruct Hcfg as [s [Hu Hin]].
    destruct (C s Hin) as [Hiff Hadr].
    assert (Hc : s_conn s = true).
    { apply Hiff. rewrite Hu. apply in_map_iff. exists (a, u). split; [reflexivity|exact Hn]. }
    specialize (Hadr Hc). rewrite Hu in Hadr.
    assert (Ea : s_addr s = a) by (eapply snd_unique; eassumption).
    destruct (get_uid_by_addr bs a) as [u'|] eqn:E.
    + destruct (uid_by_addr_some _ _ _ E) as [s' [Hin' [Hc' [Ha' Hu']]]].
      destruct (C s' Hin') as [_ Hadr']. specialize (Hadr' Hc'). rewrite Ha', Hu' in Hadr'.
      rewrite (fst_unique _ _ _ _ Hf Hadr' Hn). reflexivity.
    + exfalso. rewrite uid_by_addr_none in E. exact (E s Hin Hc Ea).
Qed.

(* the seeded situation: a board that was lost keeps its address; another configured board logs in there; the look-up finds
   the connected one whichever of the two is configured first — and 0.0.0 finds the interface although an absent board
   (address 0.0.0, not connected) is configured before it *)
Lemma nv_by_address :
  let lost := {| s_uid := wu1; s_conn := false; s_addr := (1, 0, 0) |} in
  let here := {| s_uid := wu2; s_conn := true; s_addr := (1, 0, 0) |} in
  get_uid_by_addr [lost; here] (1, 0, 0) = Some wu2 /\ get_uid_by_addr [here; lost] (1, 0, 0) = Some wu2 /\
  get_uid_by_addr [lost] (1, 0, 0) = None /\
  get_uid_by_addr [{| s_uid := wu1; s_conn := false; s_addr := root_addr |}; {| s_uid := wu0; s_conn := true; s_addr := root_addr |}] root_addr = Some wu0.
Proof. vm_compute. repeat split; reflexivity. Qed.
