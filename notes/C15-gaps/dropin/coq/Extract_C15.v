(* Extract_C15.v — extraction of the node-table / start-up / lifecycle models for the correspondence drivers of
   C15, C16 and C20. ExtrOcamlBasic only; no Extract Constant. Compiled by the checks in a scratch directory. *)
From Coq Require Import Extraction ExtrOcamlBasic List NArith.
From LB Require Import Tables Startup Lifecycle.
Extraction "model_c15.ml"
  init_bs init_ts probe_msgs startup sys_reset notice_step hl_point hl_signal hl_periph hl_train_periph hl_train_speed0
  hl_train_periph_rc hl_train_speed_rc hl_track_state found_msgs found_rc stop_msgs canon3 set_nth nodes_from wf_from get_nodeaddr_by_uid get_uid_by_addr
  life0 life_step life_run probe_writes globals root_addr.
