(* Properties_C15.v — C15: node table at start-up and on node new/lost.
   Model: Startup.v (bidib_state_query_nodetab / bidib_state_init_allocation_table as a queue of interfaces over an
   explicit bus `tree`, with table changes that fire while an interface transfers a given row; bidib_state_node_new /
   node_lost / is_subnode; the NODE_CHANGED_ACK of the dispatcher; the high-level setters' addressing).
   The specification side is `nodes_from root_addr t`: every node of the bus with the address obtained by extending the
   parent's address by the local address (C15_path_address: for a path l1/l2/l3 of non-zero local addresses that is
   (l1,l2,l3)). `wf_from` is the input domain: only interfaces with a free address level beneath them have children (so
   depth <= 3; an interface on the third level is allowed, it is not queried and has no sub-nodes the library could
   address), local addresses are non-zero. Theorems are conditional on the enumeration returning within its fuel (the C
   loop has none). *)
From Coq Require Import List NArith Bool.
From LB Require Import Tables Startup StartupProofs.
Import ListNotations.
Local Open Scope N_scope.

(* static bus: a configured board is connected iff its unique id is on the bus, and then at the address of the node that
   carries it; boards that are absent stay disconnected; nodes that are not configured have no effect (the board table
   only holds configured boards) *)
Theorem C15_enumerate : forall fuel c t ps tf,
  wf_from root_addr t = true -> NoDup (map b_uid (c_boards c)) ->
  enum 1 fuel t [] = Some (ps, tf) ->
  tf = t /\
  forall s, In s (apply_passes (init_bs c) ps) ->
    (s_conn s = true <-> In (s_uid s) (map snd (nodes_from root_addr t))) /\
    (s_conn s = true -> In (s_addr s, s_uid s) (nodes_from root_addr t)).
Proof. exact enum_static. Qed.
Print Assumptions C15_enumerate.

(* with distinct unique ids on the bus that address is unique *)
Theorem C15_address_unique : forall t a a' u, NoDup (map snd (nodes_from root_addr t)) ->
  In (a, u) (nodes_from root_addr t) -> In (a', u) (nodes_from root_addr t) -> a = a'.
Proof. exact (fun t => snd_unique (nodes_from root_addr t)). Qed.
Print Assumptions C15_address_unique.

Theorem C15_path_address : forall l1 l2 l3, l1 <> 0 -> l2 <> 0 ->
  ext_addr root_addr l1 = (l1, 0, 0) /\ ext_addr (ext_addr root_addr l1) l2 = (l1, l2, 0) /\
  ext_addr (ext_addr (ext_addr root_addr l1) l2) l3 = (l1, l2, l3).
Proof. exact (fun l1 l2 l3 H1 H2 => conj (ext_path1 l1) (conj (ext_path2 l1 l2 H1) (ext_path3 l1 l2 l3 H1 H2))). Qed.
Print Assumptions C15_path_address.

(* table changes during the enumeration (any number, anywhere), and any earlier board table (start-up: init_bs; a later
   system reset: whatever was connected before): every pass is restarted from the root with all boards disconnected
   (repair 8c05783), and at the end a board is connected iff it is on the FINAL bus, at its final address. The classes
   enum.restart-stale and reset.stale-connected of the previous round are gone. *)
Theorem C15_restart : forall p fuel t pend passes tf bs0,
  wf_from root_addr tf = true -> NoDup (map s_uid bs0) ->
  enum p fuel t pend = Some (passes, tf) ->
  forall s, In s (apply_passes bs0 passes) ->
    (s_conn s = true <-> In (s_uid s) (map snd (nodes_from root_addr tf))) /\
    (s_conn s = true -> In (s_addr s, s_uid s) (nodes_from root_addr tf)).
Proof. exact enum_correct. Qed.
Print Assumptions C15_restart.

(* the same for the table bidib_send_sys_reset leaves behind *)
Theorem C15_reset_table : forall fuel c bs t pend m bs1 ss tf,
  wf_from root_addr tf = true -> NoDup (map s_uid bs) ->
  sys_reset fuel c bs t pend = Some (m, bs1, ss, tf) ->
  forall s, In s bs1 ->
    (s_conn s = true <-> In (s_uid s) (map snd (nodes_from root_addr tf))) /\
    (s_conn s = true -> In (s_addr s, s_uid s) (nodes_from root_addr tf)).
Proof. exact sys_reset_table. Qed.
Print Assumptions C15_reset_table.

Example C15_restart_nonvacuous :
  exists ps, enum 2 10 w_tree0 [(root_addr, 2, w_tree1)] = Some (ps, w_tree1) /\ length ps = 2%nat /\
    wf_from root_addr w_tree1 = true /\
    map s_conn (apply_passes (init_bs wcfg) ps) = [true; false; false] /\
    map s_conn (apply_passes (init_bs wcfg) (firstn 1 ps)) = [true; true; false].
Proof. exact nv_restart. Qed.

(* the former class enum.level3-interface is inside wf_from now: an interface-class board on the third level is reported
   at its path address; the interface is not queried itself (transcript) *)
Example C15_level3_nonvacuous :
  exists ps, enum 1 10 w_deep [] = Some (ps, w_deep) /\ wf_from root_addr w_deep = true /\
    In ((1, 2, 3), wu2) (nodes_from root_addr w_deep) /\
    apply_passes (init_bs wcfg) ps =
      [{| s_uid := wu0; s_conn := true; s_addr := root_addr |}; {| s_uid := wu1; s_conn := false; s_addr := root_addr |};
       {| s_uid := wu2; s_conn := true; s_addr := (1, 2, 3) |}] /\
    concat (map (flat_map ev_msgs) ps) =
      [(root_addr, MSG_NODETAB_GETALL, []); (root_addr, MSG_NODETAB_GETNEXT, []); (root_addr, MSG_NODETAB_GETNEXT, []);
       ((1, 0, 0), MSG_NODETAB_GETALL, []); ((1, 0, 0), MSG_NODETAB_GETNEXT, []); ((1, 0, 0), MSG_NODETAB_GETNEXT, []);
       ((1, 2, 0), MSG_NODETAB_GETALL, []); ((1, 2, 0), MSG_NODETAB_GETNEXT, []); ((1, 2, 0), MSG_NODETAB_GETNEXT, [])].
Proof. exact nv_level3. Qed.

(* node new: the board with that unique id is connected at the announcer's address extended by the local address, every
   other board is untouched; a unique id that is not configured changes nothing *)
Theorem C15_new : forall bs a l u, NoDup (map s_uid bs) ->
  node_new bs a l u = map (fun s => if uid_eqb (s_uid s) u then set_conn s true (ext_addr a l) else s) bs.
Proof. exact node_new_spec. Qed.
Print Assumptions C15_new.
Theorem C15_new_unknown : forall bs a l u, ~ In u (map s_uid bs) -> node_new bs a l u = bs.
Proof. exact node_new_unknown. Qed.
Print Assumptions C15_new_unknown.

(* node lost, for EVERY unique id in the notice (configured or not): the board with this unique id is disconnected and,
   if the unique id is an interface's, so is every board whose address lies beneath the announced address (announcer's
   address extended by the local address); every other board is untouched *)
Theorem C15_lost : forall bs a l u, NoDup (map s_uid bs) ->
  node_lost bs a l u = map (fun s => if uid_eqb (s_uid s) u || (is_iface u && is_subnode (ext_addr a l) (s_addr s))
                                     then set_conn s false (s_addr s) else s) bs.
Proof. exact node_lost_spec. Qed.
Print Assumptions C15_lost.
(* a lost node that is neither configured nor an interface changes nothing *)
Theorem C15_lost_unknown : forall bs a l u, ~ In u (map s_uid bs) -> is_iface u = false -> node_lost bs a l u = bs.
Proof. exact node_lost_unknown. Qed.
Print Assumptions C15_lost_unknown.

(* "beneath" is exactly: the canonical address of the interface is a strict prefix *)
Theorem C15_beneath : forall n s, wf_addr n -> wf_addr s ->
  (is_subnode n s = true <-> exists k, k <> [] /\ canon3 s = canon3 n ++ k).
Proof. exact is_subnode_prefix. Qed.
Print Assumptions C15_beneath.

(* the former class lost.unknown-interface: the loss of an interface that is not configured disconnects the configured
   board beneath it and nothing else *)
Example C15_lost_unknown_interface_nonvacuous :
  let bs := [{| s_uid := wu1; s_conn := true; s_addr := (1, 2, 0) |}; {| s_uid := wu2; s_conn := true; s_addr := (3, 0, 0) |}] in
  notice_step bs (NLost root_addr 5 1 wuh) =
    ([{| s_uid := wu1; s_conn := false; s_addr := (1, 2, 0) |}; {| s_uid := wu2; s_conn := true; s_addr := (3, 0, 0) |}],
     [(root_addr, MSG_NODE_CHANGED_ACK, [5])]) /\ ~ In wuh (map s_uid bs).
Proof. exact nv_lost_unknown_iface. Qed.

(* connectivity as the public getters report it: bidib_get_nodeaddr_by_uniqueid agrees with bidib_get_nodeaddr for every
   configured board, reports nothing for an unknown unique id, and an address is reported only for a connected board *)
Theorem C15_getters :
  (forall bs s, NoDup (map s_uid bs) -> In s bs -> get_nodeaddr_by_uid bs (s_uid s) = get_nodeaddr s) /\
  (forall bs u, ~ In u (map s_uid bs) -> get_nodeaddr_by_uid bs u = None) /\
  (forall s a, get_nodeaddr s = Some a <-> s_conn s = true /\ s_addr s = a).
Proof. exact (conj getters_agree (conj getter_by_uid_unknown getter_connected)). Qed.
Print Assumptions C15_getters.

(* the look-up by address (bidib_get_uniqueid_by_nodeaddr): an address is known iff some CONNECTED board stores it, and then
   a connected board's unique id is reported (a disconnected board that still stores the address never shadows it); where
   the connected boards have distinct addresses it is the unique id of the board at that address *)
Theorem C15_by_address :
  (forall bs a u, get_uid_by_addr bs a = Some u -> exists s, In s bs /\ s_conn s = true /\ s_addr s = a /\ s_uid s = u) /\
  (forall bs a, get_uid_by_addr bs a = None <-> (forall s, In s bs -> s_conn s = true -> s_addr s <> a)) /\
  (forall bs s, (forall x y, In x bs -> In y bs -> s_conn x = true -> s_conn y = true -> s_addr x = s_addr y -> x = y) ->
     In s bs -> s_conn s = true -> get_uid_by_addr bs (s_addr s) = Some (s_uid s)).
Proof. exact (conj uid_by_addr_some (conj uid_by_addr_none uid_by_addr_of_board)). Qed.
Print Assumptions C15_by_address.

(* after any enumeration (start-up, restart, system reset) of a well-formed bus with distinct node addresses and distinct
   unique ids: the look-up reports u for a iff the node with unique id u sits at a and u is configured (with
   C15_address_unique: it is that node's) *)
Theorem C15_by_address_bus : forall p fuel t pend passes tf bs0,
  wf_from root_addr tf = true -> NoDup (map s_uid bs0) ->
  NoDup (map fst (nodes_from root_addr tf)) -> NoDup (map snd (nodes_from root_addr tf)) ->
  enum p fuel t pend = Some (passes, tf) ->
  forall a u, get_uid_by_addr (apply_passes bs0 passes) a = Some u <->
              In (a, u) (nodes_from root_addr tf) /\ In u (map s_uid bs0).
Proof. exact uid_by_addr_bus. Qed.
Print Assumptions C15_by_address_bus.

Example C15_by_address_nonvacuous :
  let lost := {| s_uid := wu1; s_conn := false; s_addr := (1, 0, 0) |} in
  let here := {| s_uid := wu2; s_conn := true; s_addr := (1, 0, 0) |} in
  get_uid_by_addr [lost; here] (1, 0, 0) = Some wu2 /\ get_uid_by_addr [here; lost] (1, 0, 0) = Some wu2 /\
  get_uid_by_addr [lost] (1, 0, 0) = None /\
  get_uid_by_addr [{| s_uid := wu1; s_conn := false; s_addr := root_addr |}; {| s_uid := wu0; s_conn := true; s_addr := root_addr |}] root_addr = Some wu0.
Proof. exact nv_by_address. Qed.

(* every notice, in any sequence, is acknowledged exactly once, to its sender, with the announced table version *)
Theorem C15_ack : forall es bs,
  snd (notice_run bs es) =
  map (fun e => match e with NNew a v _ _ => (a, MSG_NODE_CHANGED_ACK, [v]) | NLost a v _ _ => (a, MSG_NODE_CHANGED_ACK, [v]) end) es.
Proof. exact notice_run_acks. Qed.
Print Assumptions C15_ack.

(* commands are only addressed to the current address of a connected board *)
Theorem C15_addressing :
  (forall sel seld bb id asp ms, hl_accessory sel seld bb id asp = Sent ms ->
     exists b s, In (b, s) bb /\ s_conn s = true /\
       forall m, In m ms -> addr_of m = s_addr s /\ (type_of m = MSG_ACCESSORY_SET \/ type_of m = MSG_CS_ACCESSORY)) /\
  (forall bb id asp ms, hl_periph bb id asp = Sent ms ->
     exists b s, In (b, s) bb /\ s_conn s = true /\ forall m, In m ms -> addr_of m = s_addr s /\ type_of m = MSG_LC_OUTPUT) /\
  (forall t s b pid st ms s', hl_train_periph t s b pid st = (ms, s') ->
     forall m, In m ms -> s_conn b = true /\ is_dcc (s_uid b) = true /\ addr_of m = s_addr b /\ type_of m = MSG_CS_DRIVE) /\
  (forall t s b ms s', hl_train_speed0 t s b = (ms, s') ->
     forall m, In m ms -> s_conn b = true /\ is_dcc (s_uid b) = true /\ addr_of m = s_addr b /\ type_of m = MSG_CS_DRIVE).
Proof. exact (conj hl_accessory_sent (conj hl_periph_sent (conj hl_train_periph_msgs hl_train_speed0_msgs))). Qed.
Print Assumptions C15_addressing.

Example C15_nonvacuous : exists ps, enum 1 20 nv_tree [] = Some (ps, nv_tree) /\ wf_from root_addr nv_tree = true /\
  NoDup (map b_uid (c_boards wcfg)) /\
  apply_passes (init_bs wcfg) ps =
    [{| s_uid := wu0; s_conn := true; s_addr := (5, 7, 0) |}; {| s_uid := wu1; s_conn := true; s_addr := (3, 0, 0) |};
     {| s_uid := wu2; s_conn := true; s_addr := (5, 0, 0) |}].
Proof. exact nv_enum. Qed.
