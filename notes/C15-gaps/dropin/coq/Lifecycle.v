(* Lifecycle.v — executable model of bidib_start_pointer / bidib_stop (src/highlevel/bidib_highlevel_util.c) with the
   thread handles and the process-lifetime globals as explicit state:
     static pthread_t bidib_receiver_thread / bidib_autoflush_thread / bidib_heartbeat_thread (set to 0 once joined, d177fa0),
     bidib_running, bidib_discard_rx, bidib_seq_num_enabled (bidib_communication_works), pkt_max_cap (MSG_PKT_CAPACITY);
     bidib_stop restores the start values of the last three (5fd7f7a).
   The traffic of a session is the Startup model's. Faithful to the code, including what violates C16. No proofs here. *)
From Coq Require Import List NArith Bool Arith.
From LB Require Import Tables Startup.
Import ListNotations.
Local Open Scope N_scope.

Inductive handle := HZero | HId (id : N).

Record life := {
  l_running : bool;
  l_recv : handle; l_flush : handle; l_heart : handle;
  l_live : list N;                (* threads created and not yet joined *)
  l_next : N;                     (* next thread id *)
  l_seq : bool;                   (* bidib_seq_num_enabled *)
  l_discard : bool;               (* bidib_discard_rx *)
  l_cap : N;                      (* pkt_max_cap *)
  l_cfg : cfg; l_bs : list bst; l_ts : list tst; l_tree : tree
}.

Definition empty_cfg : cfg :=
  {| c_boards := []; c_trains := []; c_init_points := []; c_init_signals := []; c_init_periphs := []; c_init_trains := [] |}.

(* the state of a freshly loaded process *)
Definition life0 : life :=
  {| l_running := false; l_recv := HZero; l_flush := HZero; l_heart := HZero; l_live := []; l_next := 1;
     l_seq := true; l_discard := true; l_cap := 64; l_cfg := empty_cfg; l_bs := []; l_ts := []; l_tree := T [] [] |}.

Inductive lev :=
| LCreate (kind id : N)            (* kind 0 receiver, 1 heartbeat, 2 auto-flush *)
| LJoin (id : N) (was_live : bool) (* pthread_join on a handle; was_live = false: the thread was joined before (stale) *)
| LMsg (m : msg)
| LRet (rc : N).

Inductive lop :=
| LStart (debug cfg_ok flush answering : bool) (c : cfg) (t : tree) (pend : list change) (icap : N)
| LStop
| LSerialFail (cfg_ok flush : bool) (c : cfg).   (* bidib_start_serial on a device that cannot be opened *)

Definition join1 (h : handle) (live : list N) : list lev * list N :=
  match h with
  | HZero => ([], live)
  | HId i => if existsb (N.eqb i) live then ([LJoin i true], filter (fun x => negb (x =? i)) live)
             else ([LJoin i false], live)
  end.

(* bidib_stop *)
Definition do_stop (s : life) : life * list lev :=
  if negb (l_running s) then (s, [])
  else
    let msgs := map LMsg (stop_msgs (l_cfg s) (l_bs s) (l_ts s)) in
    let '(j1, live1) := join1 (l_recv s) (l_live s) in
    let '(j2, live2) := join1 (l_flush s) live1 in
    let '(j3, live3) := join1 (l_heart s) live2 in
    ({| l_running := false; l_recv := HZero; l_flush := HZero; l_heart := HZero; l_live := live3; l_next := l_next s;
        l_seq := true; l_discard := true; l_cap := 64; l_cfg := empty_cfg; l_bs := []; l_ts := []; l_tree := l_tree s |},
     msgs ++ j1 ++ j2 ++ j3).

Definition do_start (fuel : nat) (s : life) (debug cfg_ok flush answering : bool) (c0 : cfg) (t : tree) (pend : list change) (icap : N) : life * list lev :=
  if l_running s then (s, [LRet 0])
  else
    let c := if cfg_ok then c0 else empty_cfg in           (* class of invalid configurations: the first board record is broken *)
    let n := l_next s in
    let creates := [LCreate 0 n; LCreate 1 (n + 1)] ++ (if flush then [LCreate 2 (n + 2)] else []) in
    let live := l_live s ++ [n; n + 1] ++ (if flush then [n + 2] else []) in
    let s1 := {| l_running := true; l_recv := HId n; l_flush := if flush then HId (n + 2) else l_flush s; l_heart := HId (n + 1);
                 l_live := live; l_next := n + 3; l_seq := l_seq s; l_discard := if debug then false else l_discard s;
                 l_cap := l_cap s; l_cfg := c; l_bs := init_bs c; l_ts := init_ts c; l_tree := t |} in
    if debug then
      (* no dialogue; an invalid configuration still fails the start *)
      if cfg_ok then (s1, creates ++ [LRet 0])
      else let '(s2, e2) := do_stop s1 in (s2, creates ++ e2 ++ [LRet 1])
    else if negb answering then
      (* bidib_communication_works fails: sequence numbers stay off, discard_rx is set again *)
      let s2 := {| l_running := true; l_recv := l_recv s1; l_flush := l_flush s1; l_heart := l_heart s1; l_live := live; l_next := l_next s1;
                   l_seq := false; l_discard := true; l_cap := l_cap s1; l_cfg := c; l_bs := l_bs s1; l_ts := l_ts s1; l_tree := t |} in
      let '(s3, e3) := do_stop s2 in
      (s3, creates ++ map LMsg probe_msgs ++ e3 ++ [LRet 1])
    else
      match sys_reset fuel c (init_bs c) t pend with
      | None => (s1, creates ++ [LRet 99])
      | Some (ms, bs, ts, tf) =>
          let s2 := {| l_running := true; l_recv := l_recv s1; l_flush := l_flush s1; l_heart := l_heart s1; l_live := live; l_next := l_next s1;
                       l_seq := true; l_discard := false; l_cap := if icap <=? 64 then 64 else icap;
                       l_cfg := c; l_bs := bs; l_ts := ts; l_tree := tf |} in
          if cfg_ok then (s2, creates ++ map LMsg (probe_msgs ++ ms) ++ [LRet 0])
          else let '(s3, e3) := do_stop s2 in (s3, creates ++ map LMsg (probe_msgs ++ ms) ++ e3 ++ [LRet 1])
      end.

(* bidib_start_serial when bidib_serial_port_init fails (or the configuration is invalid, which is found first): no read /
   write function is set, no thread is created; the start stops the library again and returns 1. The auto-flush interval
   is never looked at. *)
Definition do_serial_fail (s : life) (cfg_ok flush : bool) (c0 : cfg) : life * list lev :=
  if l_running s then (s, [LRet 0])
  else
    let c := if cfg_ok then c0 else empty_cfg in
    let s1 := {| l_running := true; l_recv := l_recv s; l_flush := l_flush s; l_heart := l_heart s; l_live := l_live s;
                 l_next := l_next s; l_seq := l_seq s; l_discard := l_discard s; l_cap := l_cap s;
                 l_cfg := c; l_bs := init_bs c; l_ts := init_ts c; l_tree := l_tree s |} in
    let '(s2, e2) := do_stop s1 in (s2, e2 ++ [LRet 1]).

Definition life_step (fuel : nat) (s : life) (o : lop) : life * list lev :=
  match o with
  | LStart d ok fl an c t pend icap => do_start fuel s d ok fl an c t pend icap
  | LStop => do_stop s
  | LSerialFail ok fl c => do_serial_fail s ok fl c
  end.

Fixpoint life_run (fuel : nat) (s : life) (os : list lop) : life * list lev :=
  match os with
  | [] => (s, [])
  | o :: r => let '(s1, e1) := life_step fuel s o in let '(s2, e2) := life_run fuel s1 r in (s2, e1 ++ e2)
  end.

(* what a later session can observe of the process-lifetime globals *)
Definition globals (s : life) : bool * bool * N := (l_seq s, l_discard s, l_cap s).

Definition stale_joins (evs : list lev) : nat :=
  length (filter (fun e => match e with LJoin _ false => true | _ => false end) evs).
Definition joins_of (i : N) (evs : list lev) : nat :=
  length (filter (fun e => match e with LJoin j _ => j =? i | _ => false end) evs).
Definition created (evs : list lev) : list N :=
  flat_map (fun e => match e with LCreate _ i => [i] | _ => [] end) evs.

(* bidib_add_to_buffer seen from outside: how many packets leave by themselves while k messages of 4 bytes are
   buffered into an empty buffer (observes pkt_max_cap) *)
Fixpoint probe_writes (cap : N) (k : nat) (buf : N) : N :=
  match k with
  | O => 0
  | S k' =>
      let '(w1, b1) := if cap <? 4 + buf then ((if 0 <? buf then 1 else 0), 0) else (0, buf) in
      let b2 := b1 + 4 in
      let '(w2, b3) := if cap - 4 <? b2 then (1, 0) else (0, b2) in
      w1 + w2 + probe_writes cap k' b3
  end.
