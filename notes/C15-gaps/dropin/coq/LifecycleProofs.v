(* LifecycleProofs.v — lemmas about the lifecycle model (Lifecycle.v). *)
From Coq Require Import List NArith Bool Arith Lia.
From LB Require Import Tables Startup StartupProofs Lifecycle.
Import ListNotations.
Local Open Scope N_scope.

(* ------------------------------------------------------------------ no-ops *)
Lemma stop_when_stopped : forall fuel s, l_running s = false -> life_step fuel s LStop = (s, []).
Proof. intros fuel s H. simpl. unfold do_stop. rewrite H. reflexivity. Qed.

Lemma start_when_running : forall fuel s d ok fl an c t pend icap, l_running s = true ->
  life_step fuel s (LStart d ok fl an c t pend icap) = (s, [LRet 0]).
Proof. intros. simpl. unfold do_start. rewrite H. reflexivity. Qed.

(* ------------------------------------------------------------------ shutdown traffic *)
Definition is_join (e : lev) : bool := match e with LJoin _ _ => true | _ => false end.

Lemma join1_only_joins : forall h live, forallb is_join (fst (join1 h live)) = true.
Proof. intros [|i] live; simpl; [reflexivity|]. destruct (existsb (N.eqb i) live); reflexivity. Qed.

(* bidib_stop on a running library: the shutdown messages come first, then only joins *)
Lemma stop_shape : forall s, l_running s = true ->
  exists joins, snd (do_stop s) = map LMsg (stop_msgs (l_cfg s) (l_bs s) (l_ts s)) ++ joins /\ forallb is_join joins = true /\
                l_running (fst (do_stop s)) = false.
Proof.
  intros s H. unfold do_stop. rewrite H. simpl.
  destruct (join1 (l_recv s) (l_live s)) as [j1 live1] eqn:E1.
  destruct (join1 (l_flush s) live1) as [j2 live2] eqn:E2.
  destruct (join1 (l_heart s) live2) as [j3 live3] eqn:E3.
  exists (j1 ++ j2 ++ j3). simpl. split; [reflexivity|]. split; [|reflexivity].
  rewrite !forallb_app.
  pose proof (join1_only_joins (l_recv s) (l_live s)) as A1. rewrite E1 in A1.
  pose proof (join1_only_joins (l_flush s) live1) as A2. rewrite E2 in A2.
  pose proof (join1_only_joins (l_heart s) live2) as A3. rewrite E3 in A3.
  simpl in A1, A2, A3. rewrite A1, A2, A3. reflexivity.
Qed.

Lemma cs_drive_reset_ok : forall a t s,
  cs_drive a t s (dcc_format (t_steps t)) 0 0 [0;0;0;0] =
  ([(a, MSG_CS_DRIVE, [t_addrl t; t_addrh t; dcc_format (t_steps t); 0; 0; 0; 0; 0; 0])], cs_drive_state s 0 0 [0;0;0;0]).
Proof.
  intros a t s. unfold cs_drive, dcc_format.
  destruct (t_steps t =? 28); [reflexivity|]. destruct (t_steps t =? 126); reflexivity.
Qed.

(* every connected track output gets the zero-speed / all-functions-off drive message of the train *)
Lemma reset_one_train_complete : forall bs t s b, In b bs -> s_conn b = true -> is_dcc (s_uid b) = true ->
  In (s_addr b, MSG_CS_DRIVE, [t_addrl t; t_addrh t; dcc_format (t_steps t); 0; 0; 0; 0; 0; 0]) (fst (reset_one_train bs t s)).
Proof.
  intros bs t s b Hin Hc Hd. unfold reset_one_train.
  set (f := fun (acc : list msg * tst) (b0 : bst) =>
              if s_conn b0 && is_dcc (s_uid b0)
              then let '(m, s1) := cs_drive (s_addr b0) t (snd acc) (dcc_format (t_steps t)) 0 0 [0;0;0;0] in (fst acc ++ m, s1)
              else acc).
  assert (Mono : forall l acc x, In x (fst acc) -> In x (fst (fold_left f l acc))).
  { induction l as [|b0 r IH]; intros acc x Hx; [exact Hx|]. simpl. apply IH. unfold f.
    destruct (s_conn b0 && is_dcc (s_uid b0)); [|exact Hx]. rewrite cs_drive_reset_ok. simpl. apply in_app_iff. left. exact Hx. }
  assert (G : forall l acc, In b l ->
            In (s_addr b, MSG_CS_DRIVE, [t_addrl t; t_addrh t; dcc_format (t_steps t); 0; 0; 0; 0; 0; 0]) (fst (fold_left f l acc))).
  { induction l as [|b0 r IH]; intros acc Hl; [contradiction|]. simpl. destruct Hl as [Hl|Hl].
    - subst b0. apply Mono. unfold f. rewrite Hc, Hd. simpl. rewrite cs_drive_reset_ok. simpl. apply in_app_iff. right. left. reflexivity.
    - apply IH. exact Hl. }
  apply G. exact Hin.
Qed.

Lemma reset_train_params_complete : forall bs ts ss t b, length ts = length ss -> In t ts ->
  In b bs -> s_conn b = true -> is_dcc (s_uid b) = true ->
  In (s_addr b, MSG_CS_DRIVE, [t_addrl t; t_addrh t; dcc_format (t_steps t); 0; 0; 0; 0; 0; 0]) (fst (reset_train_params bs ts ss)).
Proof.
  induction ts as [|t0 tr IH]; intros ss t b Hlen Ht Hb Hc Hd; [contradiction|].
  destruct ss as [|s sr]; [discriminate|]. simpl in Hlen. injection Hlen as Hlen. simpl.
  destruct (reset_one_train bs t0 s) as [m1 s1] eqn:E1. destruct (reset_train_params bs tr sr) as [m2 sr2] eqn:E2. simpl.
  apply in_app_iff. destruct Ht as [Ht|Ht].
  - subst t0. left. pose proof (reset_one_train_complete bs t s b Hb Hc Hd) as X. rewrite E1 in X. exact X.
  - right. pose proof (IH sr t b Hlen Ht Hb Hc Hd) as X. rewrite E2 in X. exact X.
Qed.

(* C16_shutdown_traffic: soft-stop to exactly the connected track outputs, then for every train and every connected track
   output the drive message with speed 0 and all functions off (and nothing else), then track-off *)
Theorem stop_msgs_spec : forall c bs ss, length (c_trains c) = length ss ->
  exists drives,
    stop_msgs c bs ss = track_state_all bs BIDIB_CS_STATE_SOFTSTOP ++ drives ++ track_state_all bs BIDIB_CS_STATE_OFF /\
    (forall m, In m drives -> to_conn bs m /\ type_of m = MSG_CS_DRIVE /\
        exists t fmt, In t (c_trains c) /\ snd m = [t_addrl t; t_addrh t; fmt; 0; 0; 0; 0; 0; 0]) /\
    (forall t b, In t (c_trains c) -> In b bs -> s_conn b = true -> is_dcc (s_uid b) = true ->
        In (s_addr b, MSG_CS_DRIVE, [t_addrl t; t_addrh t; dcc_format (t_steps t); 0; 0; 0; 0; 0; 0]) drives).
Proof.
  intros c bs ss Hlen. exists (fst (reset_train_params bs (c_trains c) ss)). split; [reflexivity|]. split.
  - intros m Hm. destruct (reset_train_params bs (c_trains c) ss) as [ms ss'] eqn:E. simpl in Hm.
    exact (reset_train_params_msgs _ _ _ _ _ E m Hm).
  - intros t b Ht Hb Hc Hd. apply reset_train_params_complete; assumption.
Qed.

(* ------------------------------------------------------------------ joins *)
Definition fresh (n : N) (t : tree) : life :=
  {| l_running := false; l_recv := HZero; l_flush := HZero; l_heart := HZero; l_live := []; l_next := n;
     l_seq := true; l_discard := true; l_cap := 64; l_cfg := empty_cfg; l_bs := []; l_ts := []; l_tree := t |}.

Lemma life0_fresh : life0 = fresh 1 (T [] []).
Proof. reflexivity. Qed.

(* invariant of every reachable state: a running library holds the live handles of exactly its own threads, a stopped one
   holds no handle and has no thread *)
Definition inv (s : life) : Prop :=
  if l_running s
  then exists n, l_recv s = HId n /\ l_heart s = HId (n + 1) /\
         ((l_flush s = HId (n + 2) /\ l_live s = [n; n + 1; n + 2]) \/ (l_flush s = HZero /\ l_live s = [n; n + 1]))
  else s = fresh (l_next s) (l_tree s).

Lemma neq_succ1 : forall n, (n + 1 =? n) = false. Proof. intro n. apply N.eqb_neq. lia. Qed.
Lemma neq_succ2 : forall n, (n + 2 =? n) = false. Proof. intro n. apply N.eqb_neq. lia. Qed.
Lemma neq_succ21 : forall n, (n + 2 =? n + 1) = false. Proof. intro n. apply N.eqb_neq. lia. Qed.
Lemma neq_succ12 : forall n, (n + 1 =? n + 2) = false. Proof. intro n. apply N.eqb_neq. lia. Qed.

(* what a stop of a running library does: messages, then one live join per thread of the session; afterwards the state
   is that of a freshly loaded library (only the thread-id counter and the last bus differ) *)
Lemma stop_events : forall s, l_running s = true -> inv s ->
  exists n fl, l_recv s = HId n /\
    snd (do_stop s) = map LMsg (stop_msgs (l_cfg s) (l_bs s) (l_ts s)) ++
                      [LJoin n true] ++ (if fl : bool then [LJoin (n + 2) true] else []) ++ [LJoin (n + 1) true] /\
    fst (do_stop s) = fresh (l_next s) (l_tree s).
Proof.
  intros s Hr Hi. unfold inv in Hi. rewrite Hr in Hi. destruct Hi as [n [H1 [H2 [[H3 H4]|[H3 H4]]]]].
  - exists n, true. split; [exact H1|]. unfold do_stop. rewrite Hr. simpl. rewrite H1, H2, H3, H4. simpl.
    repeat (rewrite ?N.eqb_refl, ?neq_succ1, ?neq_succ2, ?neq_succ21, ?neq_succ12; simpl). split; reflexivity.
  - exists n, false. split; [exact H1|]. unfold do_stop. rewrite Hr. simpl. rewrite H1, H2, H3, H4. simpl.
    repeat (rewrite ?N.eqb_refl, ?neq_succ1, ?neq_succ2, ?neq_succ21, ?neq_succ12; simpl). split; reflexivity.
Qed.

Lemma stale_joins_app : forall a b, stale_joins (a ++ b) = (stale_joins a + stale_joins b)%nat.
Proof. intros. unfold stale_joins. rewrite filter_app, app_length. reflexivity. Qed.
Lemma stale_joins_msgs : forall ms, stale_joins (map LMsg ms) = 0%nat.
Proof. induction ms; [reflexivity|simpl; exact IHms]. Qed.
Lemma stale_joins_cons_create : forall k i l, stale_joins (LCreate k i :: l) = stale_joins l.
Proof. reflexivity. Qed.
Lemma stale_joins_cons_msg : forall m l, stale_joins (LMsg m :: l) = stale_joins l.
Proof. reflexivity. Qed.
Ltac stale0 := cbn [snd fst]; repeat (rewrite ?stale_joins_cons_create, ?stale_joins_cons_msg, ?stale_joins_app, ?stale_joins_msgs).

Lemma inv_fresh : forall n t, inv (fresh n t).
Proof. intros. unfold inv. simpl. reflexivity. Qed.

Lemma stop_ok : forall s, l_running s = true -> inv s ->
  stale_joins (snd (do_stop s)) = 0%nat /\ inv (fst (do_stop s)).
Proof.
  intros s Hr Hi. destruct (stop_events s Hr Hi) as [n [fl [_ [E1 E2]]]]. rewrite E1, E2. split; [|apply inv_fresh].
  stale0. destruct fl; reflexivity.
Qed.

(* nothing is sent by a stop while no board is connected *)
Lemma track_state_all_disc : forall bs st, Forall (fun b => s_conn b = false) bs -> track_state_all bs st = [].
Proof.
  induction bs as [|b r IH]; intros st H; [reflexivity|]. inversion H; subst. unfold track_state_all in *. simpl.
  rewrite H2, andb_false_r. simpl. apply IH. assumption.
Qed.
Lemma reset_one_train_disc : forall bs t s, Forall (fun b => s_conn b = false) bs -> reset_one_train bs t s = ([], s).
Proof.
  intros bs t s H. unfold reset_one_train. generalize ((@nil msg), s) as acc.
  induction bs as [|b r IH]; intro acc; [destruct acc; reflexivity|]. inversion H; subst. simpl. rewrite H2. simpl. apply IH. assumption.
Qed.
Lemma reset_train_params_disc : forall bs ts ss, Forall (fun b => s_conn b = false) bs -> fst (reset_train_params bs ts ss) = [].
Proof.
  induction ts as [|t tr IH]; intros ss H; [reflexivity|]. destruct ss as [|s sr]; [reflexivity|]. simpl.
  rewrite (reset_one_train_disc bs t s H). specialize (IH sr H). destruct (reset_train_params bs tr sr) as [m2 sr2]. simpl in *. exact IH.
Qed.
Lemma init_bs_all_disc : forall c, Forall (fun b => s_conn b = false) (init_bs c).
Proof. intro c. apply Forall_forall. intros b Hb. eapply init_bs_disconnected. exact Hb. Qed.
Lemma stop_msgs_init : forall c ss, stop_msgs c (init_bs c) ss = [].
Proof.
  intros c ss. unfold stop_msgs. rewrite !track_state_all_disc by apply init_bs_all_disc.
  rewrite reset_train_params_disc by apply init_bs_all_disc. reflexivity.
Qed.

(* bidib_start_serial on a device that cannot be opened, from any stopped reachable state: returns 1; no thread is created,
   none is joined, nothing is sent; the library is stopped, in the state of a freshly loaded one *)
Lemma serial_fail_fresh : forall n t ok fl c, do_serial_fail (fresh n t) ok fl c = (fresh n t, [LRet 1]).
Proof.
  intros n t ok fl c. unfold do_serial_fail. cbn [l_running fresh]. cbv iota. unfold do_stop. cbn [l_running negb].
  cbv iota. cbn [l_recv l_flush l_heart l_live l_cfg l_bs l_ts l_next l_tree join1]. rewrite stop_msgs_init. reflexivity.
Qed.

(* one operation keeps the invariant and joins no stale handle *)
Lemma step_ok : forall fuel s o, inv s ->
  stale_joins (snd (life_step fuel s o)) = 0%nat /\ inv (fst (life_step fuel s o)).
Proof.
  intros fuel s o Hi. destruct o as [d ok fl an c t pend icap| |ok fl c]; simpl in *.
  3: { destruct (l_running s) eqn:Hr.
       - unfold do_serial_fail. rewrite Hr. simpl. split; [reflexivity|exact Hi].
       - pose proof Hi as E. unfold inv in E. rewrite Hr in E. rewrite E. rewrite serial_fail_fresh. simpl. split; [reflexivity|apply inv_fresh]. }
  - unfold do_start. destruct (l_running s) eqn:Hr; [simpl; split; [reflexivity|exact Hi]|].
    unfold inv in Hi. rewrite Hr in Hi.
    set (n := l_next s) in *.
    assert (Inv1 : forall s', l_running s' = true -> l_recv s' = HId n -> l_heart s' = HId (n + 1) ->
                     l_flush s' = (if fl then HId (n + 2) else HZero) ->
                     l_live s' = [n; n + 1] ++ (if fl then [n + 2] else []) -> inv s').
    { intros s' A B C D E. unfold inv. rewrite A. exists n. split; [exact B|]. split; [exact C|].
      destruct fl; [left|right]; split; assumption. }
    rewrite Hi. cbn [l_flush l_live fresh app].
    assert (F : (if fl then HId (n + 2) else HZero) = (if fl then HId (n + 2) else HZero)) by reflexivity.
    destruct d.
    + destruct ok.
      * cbn [snd fst]. split; [destruct fl; reflexivity|]. apply Inv1; reflexivity.
      * match goal with |- context [do_stop ?X] => destruct (stop_ok X eq_refl (Inv1 X eq_refl eq_refl eq_refl eq_refl eq_refl)) as [A B];
                                                    destruct (do_stop X) as [s2 e2] end.
        cbn [snd fst] in *. split; [stale0; rewrite A; destruct fl; reflexivity|exact B].
    + destruct an; simpl negb; cbv iota.
      * destruct (sys_reset fuel (if ok then c else empty_cfg) (init_bs (if ok then c else empty_cfg)) t pend) as [[[[ms bs] ts] tf]|].
        { destruct ok.
          - cbn [snd fst]. split; [stale0; destruct fl; reflexivity|]. apply Inv1; reflexivity.
          - match goal with |- context [do_stop ?X] => destruct (stop_ok X eq_refl (Inv1 X eq_refl eq_refl eq_refl eq_refl eq_refl)) as [A B];
                                                        destruct (do_stop X) as [s2 e2] end.
            cbn [snd fst] in *. split; [stale0; rewrite A; destruct fl; reflexivity|exact B]. }
        { cbn [snd fst]. split; [destruct fl; reflexivity|]. apply Inv1; reflexivity. }
      * match goal with |- context [do_stop ?X] => destruct (stop_ok X eq_refl (Inv1 X eq_refl eq_refl eq_refl eq_refl eq_refl)) as [A B];
                                                    destruct (do_stop X) as [s2 e2] end.
        cbn [snd fst] in *. split; [stale0; rewrite A; destruct fl; reflexivity|exact B].
  - destruct (l_running s) eqn:Hr.
    + apply stop_ok; assumption.
    + unfold do_stop. rewrite Hr. simpl. split; [reflexivity|exact Hi].
Qed.

Lemma run_ok : forall fuel os s, inv s ->
  stale_joins (snd (life_run fuel s os)) = 0%nat /\ inv (fst (life_run fuel s os)).
Proof.
  intros fuel. induction os as [|o r IH]; intros s Hi; simpl; [split; [reflexivity|exact Hi]|].
  destruct (step_ok fuel s o Hi) as [A B]. destruct (life_step fuel s o) as [s1 e1]. simpl in A, B.
  destruct (IH s1 B) as [A2 B2]. destruct (life_run fuel s1 r) as [s2 e2]. simpl in *.
  split; [rewrite stale_joins_app, A, A2; reflexivity|exact B2].
Qed.

(* C16_join_once: in every history — any modes, configurations valid or not, interface answering or silent, any sequence
   of auto-flush settings — no handle whose thread was already joined is ever joined, and a stopped library has no thread
   and the state of a freshly loaded one *)
Theorem joins_once : forall fuel os,
  stale_joins (snd (life_run fuel life0 os)) = 0%nat /\
  (l_running (fst (life_run fuel life0 os)) = false ->
     exists n t, fst (life_run fuel life0 os) = fresh n t).
Proof.
  intros fuel os. destruct (run_ok fuel os life0 (inv_fresh 1 (T [] []))) as [A B]. split; [exact A|].
  intro Hr. unfold inv in B. rewrite Hr in B. eauto.
Qed.

Lemma filter_join_msgs : forall ms, filter is_join (map LMsg ms) = [].
Proof. induction ms as [|m r IH]; [reflexivity|simpl; exact IH]. Qed.

(* every stop joins exactly the threads its session created, each once *)
Theorem stop_joins_session : forall s, l_running s = true -> inv s ->
  exists n fl, l_live s = [n; n + 1] ++ (if fl : bool then [n + 2] else []) /\
    filter is_join (snd (do_stop s)) = [LJoin n true] ++ (if fl then [LJoin (n + 2) true] else []) ++ [LJoin (n + 1) true].
Proof.
  intros s Hr Hi. destruct (stop_events s Hr Hi) as [n [fl [H1 [E1 _]]]].
  assert (L : l_live s = [n; n + 1] ++ (if fl then [n + 2] else [])).
  { unfold inv in Hi. rewrite Hr in Hi. destruct Hi as [n' [G1 [G2 G3]]]. rewrite H1 in G1. injection G1 as G1. subst n'.
    unfold do_stop in E1. rewrite Hr in E1. simpl in E1. rewrite H1, G2 in E1.
    destruct G3 as [[G3 G4]|[G3 G4]]; rewrite G3, G4 in E1; simpl in E1;
      repeat (rewrite ?N.eqb_refl, ?neq_succ1, ?neq_succ2, ?neq_succ21, ?neq_succ12 in E1; simpl in E1);
      apply app_inv_head in E1; destruct fl; try discriminate E1; rewrite G4; reflexivity. }
  exists n, fl. split; [exact L|]. rewrite E1. rewrite filter_app.
  rewrite filter_join_msgs. destruct fl; reflexivity.
Qed.

(* ------------------------------------------------------------------ restartable *)
(* observations with the thread ids erased *)
Inductive obs := OCreate (kind : N) | OJoin (was_live : bool) | OMsg (m : msg) | ORet (rc : N).
Definition obs_of (e : lev) : obs :=
  match e with LCreate k _ => OCreate k | LJoin _ b => OJoin b | LMsg m => OMsg m | LRet rc => ORet rc end.

Lemma obs_stop : forall s, l_running s = true -> inv s ->
  exists fl, l_flush s = (if fl : bool then l_flush s else HZero) /\
  map obs_of (snd (do_stop s)) = map OMsg (stop_msgs (l_cfg s) (l_bs s) (l_ts s)) ++
                                 [OJoin true] ++ (if fl then [OJoin true] else []) ++ [OJoin true] /\
  (fl = true <-> l_flush s <> HZero).
Proof.
  intros s Hr Hi. pose proof Hi as Hi'. unfold inv in Hi'. rewrite Hr in Hi'. destruct Hi' as [n [H1 [H2 [[H3 H4]|[H3 H4]]]]].
  - exists true. split; [reflexivity|]. unfold do_stop. rewrite Hr. simpl. rewrite H1, H2, H3, H4. simpl.
    repeat (rewrite ?N.eqb_refl, ?neq_succ1, ?neq_succ2, ?neq_succ21, ?neq_succ12; simpl).
    split; [rewrite map_app, map_map; reflexivity|]. split; [discriminate|reflexivity].
  - exists false. split; [exact H3|]. unfold do_stop. rewrite Hr. simpl. rewrite H1, H2, H3, H4. simpl.
    repeat (rewrite ?N.eqb_refl, ?neq_succ1, ?neq_succ2, ?neq_succ21, ?neq_succ12; simpl).
    split; [rewrite map_app, map_map; reflexivity|]. split; [discriminate|intro X; contradiction].
Qed.

(* two states that differ only in thread ids (and in the bus remembered from the last session) *)
Definition sim (s s' : life) : Prop :=
  l_running s = l_running s' /\ l_seq s = l_seq s' /\ l_discard s = l_discard s' /\ l_cap s = l_cap s' /\
  l_cfg s = l_cfg s' /\ l_bs s = l_bs s' /\ l_ts s = l_ts s' /\ (l_running s = true -> l_tree s = l_tree s') /\
  (l_flush s = HZero <-> l_flush s' = HZero).

Lemma sim_fresh : forall n t n' t', sim (fresh n t) (fresh n' t').
Proof. intros. unfold sim. simpl. repeat split; auto; discriminate. Qed.

Lemma stop_sim : forall s s', l_running s = true -> inv s -> inv s' -> sim s s' ->
  map obs_of (snd (do_stop s)) = map obs_of (snd (do_stop s')) /\ sim (fst (do_stop s)) (fst (do_stop s')).
Proof.
  intros s s' Hr Hi Hi' Hs. destruct Hs as [R [_ [_ [_ [C [B [Ts [_ Fz]]]]]]]].
  assert (Hr' : l_running s' = true) by congruence.
  destruct (obs_stop s Hr Hi) as [fl [_ [O1 F1]]]. destruct (obs_stop s' Hr' Hi') as [fl' [_ [O2 F2]]].
  destruct (stop_events s Hr Hi) as [n [x [_ [_ E1]]]]. destruct (stop_events s' Hr' Hi') as [n' [x' [_ [_ E2]]]].
  rewrite O1, O2, E1, E2, C, B, Ts. split; [|apply sim_fresh].
  assert (fl = fl').
  { destruct fl, fl'; try reflexivity.
    - exfalso. assert (A : l_flush s <> HZero) by (apply F1; reflexivity). destruct (l_flush s') eqn:Z; [apply A; apply Fz; reflexivity|].
      assert (X : false = true) by (apply F2; discriminate). discriminate X.
    - exfalso. assert (A : l_flush s' <> HZero) by (apply F2; reflexivity). destruct (l_flush s) eqn:Z; [apply A; apply Fz; reflexivity|].
      assert (X : false = true) by (apply F1; discriminate). discriminate X. }
  subst fl'. reflexivity.
Qed.

Lemma obs_creates : forall (fl : bool) n n',
  map obs_of ([LCreate 0 n; LCreate 1 (n + 1)] ++ (if fl then [LCreate 2 (n + 2)] else [])) =
  map obs_of ([LCreate 0 n'; LCreate 1 (n' + 1)] ++ (if fl then [LCreate 2 (n' + 2)] else [])).
Proof. intros [|] n n'; reflexivity. Qed.

(* a start on a stopped library: same observations and similar states whatever the thread-id counter is *)
Lemma start_sim : forall fuel n t0 n' t0' d ok fl an c t pend icap,
  let r := do_start fuel (fresh n t0) d ok fl an c t pend icap in
  let r' := do_start fuel (fresh n' t0') d ok fl an c t pend icap in
  map obs_of (snd r) = map obs_of (snd r') /\ sim (fst r) (fst r') /\ inv (fst r) /\ inv (fst r').
Proof.
  intros fuel n t0 n' t0' d ok fl an c t pend icap. unfold do_start. cbn [l_running fresh l_next l_live l_flush l_seq l_discard l_cap].
  assert (Inv1 : forall m s', l_running s' = true -> l_recv s' = HId m -> l_heart s' = HId (m + 1) ->
                   l_flush s' = (if fl then HId (m + 2) else HZero) ->
                   l_live s' = [m; m + 1] ++ (if fl then [m + 2] else []) -> inv s').
  { intros m s' A B C D E. unfold inv. rewrite A. exists m. split; [exact B|]. split; [exact C|].
    destruct fl; [left|right]; split; assumption. }
  assert (Fz : forall m m', (if fl then HId (m + 2) else HZero) = HZero <-> (if fl then HId (m' + 2) else HZero) = HZero).
  { intros. destruct fl; split; auto; discriminate. }
  assert (SIM : forall a b, l_running a = true -> l_running b = true -> l_seq a = l_seq b -> l_discard a = l_discard b -> l_cap a = l_cap b ->
            l_cfg a = l_cfg b -> l_bs a = l_bs b -> l_ts a = l_ts b -> l_tree a = l_tree b ->
            l_flush a = (if fl then HId (n + 2) else HZero) -> l_flush b = (if fl then HId (n' + 2) else HZero) -> sim a b).
  { intros a b A1 A2 A3 A4 A5 A6 A7 A8 A9 A10 A11. unfold sim. rewrite A1, A2, A10, A11. repeat split; auto; apply Fz. }
  destruct d.
  - destruct ok.
    + cbn [snd fst]. rewrite !map_app. split; [f_equal; apply obs_creates|].
      split; [apply SIM; reflexivity|]. split; eapply Inv1; reflexivity.
    + match goal with |- context [do_stop ?X] => match X with context [HId n'] => fail 1 | _ =>
        match goal with |- context [do_stop ?Y] => match Y with context [HId n'] =>
          pose proof (Inv1 n X eq_refl eq_refl eq_refl eq_refl eq_refl) as IX;
          pose proof (Inv1 n' Y eq_refl eq_refl eq_refl eq_refl eq_refl) as IY;
          destruct (stop_sim X Y eq_refl IX IY) as [O S]; [apply SIM; reflexivity|];
          destruct (stop_ok X eq_refl IX) as [_ JX]; destruct (stop_ok Y eq_refl IY) as [_ JY];
          destruct (do_stop X) as [sx ex]; destruct (do_stop Y) as [sy ey] end end end end.
      cbn [snd fst] in *. rewrite !map_app, O. split; [f_equal; apply obs_creates|]. auto.
  - destruct an; simpl negb; cbv iota.
    + destruct (sys_reset fuel (if ok then c else empty_cfg) (init_bs (if ok then c else empty_cfg)) t pend) as [[[[ms bs] ts] tf]|].
      * destruct ok.
        { cbn [snd fst]. rewrite !map_app. split; [f_equal; apply obs_creates|].
          split; [apply SIM; reflexivity|]. split; eapply Inv1; reflexivity. }
        { match goal with |- context [do_stop ?X] => match X with context [HId n'] => fail 1 | _ =>
        match goal with |- context [do_stop ?Y] => match Y with context [HId n'] =>
              pose proof (Inv1 n X eq_refl eq_refl eq_refl eq_refl eq_refl) as IX;
              pose proof (Inv1 n' Y eq_refl eq_refl eq_refl eq_refl eq_refl) as IY;
              destruct (stop_sim X Y eq_refl IX IY) as [O S]; [apply SIM; reflexivity|];
              destruct (stop_ok X eq_refl IX) as [_ JX]; destruct (stop_ok Y eq_refl IY) as [_ JY];
              destruct (do_stop X) as [sx ex]; destruct (do_stop Y) as [sy ey] end end end end.
          cbn [snd fst] in *. rewrite !map_app, O. split; [f_equal; apply obs_creates|]. auto. }
      * cbn [snd fst]. rewrite !map_app. split; [f_equal; apply obs_creates|].
        split; [apply SIM; reflexivity|]. split; eapply Inv1; reflexivity.
    + match goal with |- context [do_stop ?X] => match X with context [HId n'] => fail 1 | _ =>
        match goal with |- context [do_stop ?Y] => match Y with context [HId n'] =>
          pose proof (Inv1 n X eq_refl eq_refl eq_refl eq_refl eq_refl) as IX;
          pose proof (Inv1 n' Y eq_refl eq_refl eq_refl eq_refl eq_refl) as IY;
          destruct (stop_sim X Y eq_refl IX IY) as [O S]; [apply SIM; reflexivity|];
          destruct (stop_ok X eq_refl IX) as [_ JX]; destruct (stop_ok Y eq_refl IY) as [_ JY];
          destruct (do_stop X) as [sx ex]; destruct (do_stop Y) as [sy ey] end end end end.
      cbn [snd fst] in *. rewrite !map_app, O. split; [f_equal; apply obs_creates|]. auto.
Qed.

Lemma step_sim : forall fuel s s' o, inv s -> inv s' -> sim s s' ->
  map obs_of (snd (life_step fuel s o)) = map obs_of (snd (life_step fuel s' o)) /\
  sim (fst (life_step fuel s o)) (fst (life_step fuel s' o)) /\
  inv (fst (life_step fuel s o)) /\ inv (fst (life_step fuel s' o)).
Proof.
  intros fuel s s' o Hi Hi' Hs. pose proof Hs as [R _].
  destruct o as [d ok fl an c t pend icap| |ok fl c]; simpl.
  3: { destruct (l_running s) eqn:Hr.
       - assert (Hr' : l_running s' = true) by congruence. unfold do_serial_fail. rewrite Hr, Hr'. simpl. auto.
       - assert (Hr' : l_running s' = false) by congruence.
         pose proof Hi as E. unfold inv in E. rewrite Hr in E. pose proof Hi' as E'. unfold inv in E'. rewrite Hr' in E'.
         rewrite E, E'. rewrite !serial_fail_fresh. simpl. split; [reflexivity|]. split; [apply sim_fresh|]. split; apply inv_fresh. }
  - destruct (l_running s) eqn:Hr.
    + assert (Hr' : l_running s' = true) by congruence. unfold do_start. rewrite Hr, Hr'. simpl. auto.
    + assert (Hr' : l_running s' = false) by congruence.
      pose proof Hi as E. unfold inv in E. rewrite Hr in E. pose proof Hi' as E'. unfold inv in E'. rewrite Hr' in E'.
      rewrite E, E'. apply start_sim.
  - destruct (l_running s) eqn:Hr.
    + assert (Hr' : l_running s' = true) by congruence.
      destruct (stop_sim s s' Hr Hi Hi' Hs) as [A B]. destruct (stop_ok s Hr Hi) as [_ C]. destruct (stop_ok s' Hr' Hi') as [_ D]. auto.
    + assert (Hr' : l_running s' = false) by congruence. unfold do_stop. rewrite Hr, Hr'. simpl. auto.
Qed.

Lemma run_sim : forall fuel os s s', inv s -> inv s' -> sim s s' ->
  map obs_of (snd (life_run fuel s os)) = map obs_of (snd (life_run fuel s' os)).
Proof.
  intros fuel. induction os as [|o r IH]; intros s s' Hi Hi' Hs; simpl; [reflexivity|].
  destruct (step_sim fuel s s' o Hi Hi' Hs) as [A [B [C D]]].
  destruct (life_step fuel s o) as [s1 e1]. destruct (life_step fuel s' o) as [s1' e1']. simpl in *.
  specialize (IH s1 s1' C D B).
  destruct (life_run fuel s1 r) as [s2 e2]. destruct (life_run fuel s1' r) as [s2' e2']. simpl in *.
  rewrite !map_app, A, IH. reflexivity.
Qed.

(* C16_restartable: once stopped, after ANY earlier history, the library is in the state of a freshly loaded one (up to the
   thread-id counter), and whatever is done next is observed exactly as it would be in the first session of a process *)
Theorem restartable : forall fuel os1 os2,
  l_running (fst (life_run fuel life0 os1)) = false ->
  (exists n t, fst (life_run fuel life0 os1) = fresh n t) /\
  map obs_of (snd (life_run fuel (fst (life_run fuel life0 os1)) os2)) = map obs_of (snd (life_run fuel life0 os2)).
Proof.
  intros fuel os1 os2 Hr. destruct (joins_once fuel os1) as [_ F]. destruct (F Hr) as [n [t E]].
  split; [eauto|]. rewrite E. apply run_sim; [apply inv_fresh|apply (inv_fresh 1 (T [] []))|apply (sim_fresh n t 1 (T [] []))].
Qed.

(* ------------------------------------------------------------------ examples *)
Definition w_bus : tree := T wu0 [(1, T wu1 [])].
Definition w_hist : list lop :=
  [LStart true true true true nv_cfg w_bus [] 64; LStop; LStart true true false true nv_cfg w_bus [] 64; LStop].
(* the history that used to join the stale auto-flush handle *)
Lemma nv_joins :
  filter is_join (snd (life_run 20 life0 w_hist)) = [LJoin 1 true; LJoin 3 true; LJoin 2 true; LJoin 4 true; LJoin 5 true].
Proof. vm_compute. reflexivity. Qed.

(* the sessions that used to leave sequence numbers off / a foreign packet capacity behind *)
Lemma nv_globals :
  globals life0 = (true, true, 64) /\
  globals (fst (life_run 20 life0 [LStart false true false false nv_cfg w_bus [] 64; LStop])) = (true, true, 64) /\
  globals (fst (life_run 20 life0 [LStart false true false true nv_cfg w_bus [] 200])) = (true, false, 200) /\
  globals (fst (life_run 20 life0 [LStart false true false true nv_cfg w_bus [] 200; LStop])) = (true, true, 64) /\
  probe_writes 64 17 0 = 1 /\ probe_writes 200 17 0 = 0.
Proof. vm_compute. repeat split; reflexivity. Qed.

Lemma nv_life :
  let r := life_run 20 life0 [LStart false true true true nv_cfg w_bus [] 64; LStop] in
  l_running (fst r) = false /\ l_live (fst r) = [] /\
  snd r = [LCreate 0 1; LCreate 1 2; LCreate 2 3] ++
          map LMsg (match startup 20 nv_cfg w_bus [] with Some (ms, _, _, _) => ms | None => [] end) ++ [LRet 0] ++
          map LMsg [(root_addr, MSG_CS_SET_STATE, [2]); (root_addr, MSG_CS_DRIVE, [35; 1; 3; 0; 0; 0; 0; 0; 0]); (root_addr, MSG_CS_SET_STATE, [0])] ++
          [LJoin 1 true; LJoin 3 true; LJoin 2 true].
Proof. vm_compute. repeat split; reflexivity. Qed.

(* ------------------------------------------------------------------ bidib_start_serial on a device that cannot be opened *)
Lemma serial_when_running : forall fuel s ok fl c, l_running s = true -> life_step fuel s (LSerialFail ok fl c) = (s, [LRet 0]).
Proof. intros. simpl. unfold do_serial_fail. rewrite H. reflexivity. Qed.

Theorem serial_fail_spec : forall fuel s ok fl c, inv s -> l_running s = false ->
  life_step fuel s (LSerialFail ok fl c) = (fresh (l_next s) (l_tree s), [LRet 1]).
Proof.
  intros fuel s ok fl c Hi Hr. simpl. pose proof Hi as E. unfold inv in E. rewrite Hr in E.
  rewrite E at 1. rewrite serial_fail_fresh. reflexivity.
Qed.

(* a failing serial start in a fresh process, after a complete bus session, and followed by a session: nothing but return
   codes from the serial starts, and the following session is the one a fresh process would have *)
Lemma nv_serial :
  life_run 20 life0 [LSerialFail true true nv_cfg] = (fresh 1 (T [] []), [LRet 1]) /\
  (let r := life_run 20 life0 [LStart false true true true nv_cfg w_bus [] 200; LStop; LSerialFail false false nv_cfg; LStop;
                                LStart true true false true nv_cfg w_bus [] 64; LStop] in
   filter (fun e => match e with LMsg _ => false | _ => true end) (snd r) =
     [LCreate 0 1; LCreate 1 2; LCreate 2 3; LRet 0; LJoin 1 true; LJoin 3 true; LJoin 2 true;
      LRet 1;
      LCreate 0 4; LCreate 1 5; LRet 0; LJoin 4 true; LJoin 5 true] /\
   fst r = fresh 7 w_bus).
Proof. vm_compute. repeat split; reflexivity. Qed.
