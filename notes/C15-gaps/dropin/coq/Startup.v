(* Startup.v — executable model of the node table and of the start-up / shut-down dialogue:
     bidib_state_query_nodetab / bidib_state_init_allocation_table      (src/state/bidib_state.c)
     bidib_state_node_new / bidib_state_node_lost / bidib_state_is_subnode (src/state/bidib_state_setter.c)
     MSG_NODE_NEW / MSG_NODE_LOST dispatch + NODE_CHANGED_ACK             (src/transmission/bidib_transmission_receive.c)
     bidib_communication_works                                            (src/transmission/bidib_transmission_util.c)
     bidib_send_sys_reset, bidib_state_set_board_features, bidib_state_reset_train_params,
     bidib_set_track_output_state_all, bidib_state_query_occupancy, bidib_state_set_initial_values
     bidib_switch_point / bidib_set_signal / bidib_set_peripheral / bidib_set_train_peripheral / bidib_set_train_speed
     bidib_send_cs_drive_intern + bidib_state_cs_drive, and the traffic part of bidib_stop.
   The bus is explicit: a tree of nodes with unique ids (what harness/ext_C15.inc simulates), plus a list of
   pending table changes that fire while a given interface is asked for a given row.
   Faithful to the code, including behaviour that violates a property. No proofs here. *)
From Coq Require Import List NArith Bool Arith.
From LB Require Import Tables.
Import ListNotations.
Local Open Scope N_scope.

Definition addr3 := (N * N * N)%type.
Definition uid := list N.                     (* 7 bytes: class, class-ext, vendor, product 1..4 *)
Definition msg := (addr3 * N * list N)%type.  (* destination, type, data — sequence numbers are C05's subject *)

Definition root_addr : addr3 := (0, 0, 0).

Definition addr3_eqb (a b : addr3) : bool :=
  let '(t, s, ss) := a in let '(t', s', ss') := b in (t =? t') && (s =? s') && (ss =? ss').

Fixpoint uid_eqb (a b : uid) : bool :=
  match a, b with
  | [], [] => true
  | x :: a', y :: b' => (x =? y) && uid_eqb a' b'
  | _, _ => false
  end.

Definition class_of (u : uid) : N := hd 0 u.
Definition is_iface (u : uid) : bool := N.testbit (class_of u) 7.   (* class_id & (1 << 7) *)
Definition is_dcc (u : uid) : bool := N.testbit (class_of u) 4.     (* class_id & (1 << 4): track output *)

(* node_address_i = node_address; first zero component := local (query_nodetab and node_new alike) *)
Definition ext_addr (a : addr3) (l : N) : addr3 :=
  let '(t, s, ss) := a in
  if t =? 0 then (l, s, ss) else if s =? 0 then (t, l, ss) else (t, s, l).

(* bidib_state_is_subnode *)
Definition is_subnode (n sub : addr3) : bool :=
  let '(t, s, ss) := n in let '(t', s', ss') := sub in
  if negb (t =? t') then (t =? 0)
  else if negb (s =? s') then (s =? 0)
  else if negb (ss =? ss') then (ss =? 0)
  else false.

(* ------------------------------------------------------------------ configuration *)
Record acc := { a_id : N; a_num : N; a_aspects : list (N * N) }.                 (* aspect id, value *)
Record per := { p_id : N; p_port0 : N; p_port1 : N; p_aspects : list (N * N) }.
Record dacc := { d_id : N; d_addrl : N; d_addrh : N; d_ext : N;
                 d_aspects : list (N * list (N * N)) }.                         (* aspect id, (port, value) list *)
Record board := { b_uid : uid; b_features : list (N * N);
                  b_points : list acc; b_points_dcc : list dacc;
                  b_signals : list acc; b_signals_dcc : list dacc;
                  b_periphs : list per; b_maxseg : N }.
Record train := { t_addrl : N; t_addrh : N; t_steps : N; t_periphs : list (N * N) }.   (* peripheral id, bit *)
Record cfg := { c_boards : list board; c_trains : list train;
                c_init_points : list (N * N); c_init_signals : list (N * N); c_init_periphs : list (N * N);
                c_init_trains : list (nat * N * N) }.                           (* train index, peripheral id, value *)

(* ------------------------------------------------------------------ run-time state *)
Record bst := { s_uid : uid; s_conn : bool; s_addr : addr3 }.
Definition init_bs (c : cfg) : list bst :=
  map (fun b => {| s_uid := b_uid b; s_conn := false; s_addr := root_addr |}) (c_boards c).

(* train state: set_is_forwards, and per peripheral (id, bit, state) in configuration order *)
Record tst := { ts_fwd : bool; ts_per : list (N * N * N) }.
Definition init_ts (c : cfg) : list tst :=
  map (fun t => {| ts_fwd := true; ts_per := map (fun ib => (fst ib, snd ib, 0)) (t_periphs t) |}) (c_trains c).

(* board->connected = true; board->node_addr = a   for the first board with this unique id *)
Fixpoint connect (bs : list bst) (u : uid) (a : addr3) : list bst :=
  match bs with
  | [] => []
  | s :: r => if uid_eqb (s_uid s) u then {| s_uid := s_uid s; s_conn := true; s_addr := a |} :: r
              else s :: connect r u a
  end.

Fixpoint find_bst (bs : list bst) (u : uid) : option bst :=
  match bs with
  | [] => None
  | s :: r => if uid_eqb (s_uid s) u then Some s else find_bst r u
  end.

Fixpoint disconnect1 (bs : list bst) (u : uid) : list bst :=
  match bs with
  | [] => []
  | s :: r => if uid_eqb (s_uid s) u then {| s_uid := s_uid s; s_conn := false; s_addr := s_addr s |} :: r
              else s :: disconnect1 r u
  end.

(* bidib_state_node_lost: the lost node sits at the announcer's address extended by the local address; the board with
   this unique id (if configured) is disconnected and, if the unique id is an interface's, so is every board beneath
   that address — whether or not the interface itself is configured *)
Definition node_lost (bs : list bst) (a : addr3) (l : N) (u : uid) : list bst :=
  let bs1 := disconnect1 bs u in
  if is_iface u
  then map (fun s => if is_subnode (ext_addr a l) (s_addr s)
                     then {| s_uid := s_uid s; s_conn := false; s_addr := s_addr s |} else s) bs1
  else bs1.

(* bidib_state_node_new *)
Definition node_new (bs : list bst) (a : addr3) (l : N) (u : uid) : list bst := connect bs u (ext_addr a l).

(* uplink notices handled by the receiver thread: state update, then NODE_CHANGED_ACK to the sender + flush *)
Inductive notice := NNew (a : addr3) (version local : N) (u : uid) | NLost (a : addr3) (version local : N) (u : uid).
Definition notice_step (bs : list bst) (e : notice) : list bst * list msg :=
  match e with
  | NNew a v l u => (node_new bs a l u, [(a, MSG_NODE_CHANGED_ACK, [v])])
  | NLost a v l u => (node_lost bs a l u, [(a, MSG_NODE_CHANGED_ACK, [v])])
  end.
Fixpoint notice_run (bs : list bst) (es : list notice) : list bst * list msg :=
  match es with
  | [] => (bs, [])
  | e :: r => let '(bs1, m1) := notice_step bs e in let '(bs2, m2) := notice_run bs1 r in (bs2, m1 ++ m2)
  end.

(* ------------------------------------------------------------------ the bus *)
Inductive tree := T (u : uid) (children : list (N * tree)).
Definition tuid (t : tree) : uid := match t with T u _ => u end.
Definition children (t : tree) : list (N * tree) := match t with T _ ch => ch end.
(* node table of an interface: row 0 is the interface itself with local address 0 *)
Definition table (t : tree) : list (N * tree) := (0, t) :: children t.

(* a table change: fires when the interface at this address is asked for this row; the bus becomes the new tree and
   the interface answers MSG_NODETAB_COUNT instead of the row *)
Definition change := (addr3 * N * tree)%type.
Fixpoint take_change (a : addr3) (r : N) (pend : list change) : option (tree * list change) :=
  match pend with
  | [] => None
  | (a', r', t') :: rest =>
      if addr3_eqb a a' && (r =? r') then Some (t', rest)
      else match take_change a r rest with
           | Some (t, rest') => Some (t, (a', r', t') :: rest')
           | None => None
           end
  end.

Inductive ev :=
| EQuery (a : addr3) (count : N)            (* NODETAB_GETALL + count x NODETAB_GETNEXT to a *)
| ERow (a : addr3) (u : uid).               (* a MSG_NODETAB row processed: board with uid u, if configured, is at a *)

(* the row loop of bidib_state_query_nodetab *)
Fixpoint row_loop (a : addr3) (rows : list (N * tree)) (r : N) (pend : list change)
  : list ev * list (addr3 * tree) * option (tree * list change) :=
  match rows with
  | [] => ([], [], None)
  | (l, c) :: rest =>
      match take_change a r pend with
      | Some tp => ([], [], Some tp)
      | None =>
          let a' := ext_addr a l in
          let '(evs, enq, rs) := row_loop a rest (r + 1) pend in
          (ERow a' (tuid c) :: evs,
           (if (0 <? r) && is_iface (tuid c) && (snd a' =? 0) then [(a', c)] else []) ++ enq, rs)
      end
  end.

(* one pass of bidib_state_init_allocation_table: the queue holds the interfaces still to be asked *)
Fixpoint bfs (fuel : nat) (queue : list (addr3 * tree)) (pend : list change)
  : option (list ev * option (tree * list change)) :=
  match fuel with
  | O => None
  | S f =>
      match queue with
      | [] => Some ([], None)
      | (a, t) :: q =>
          let '(evs, enq, rs) := row_loop a (table t) 0 pend in
          let qe := EQuery a (N.of_nat (length (table t))) in
          match rs with
          | Some tp => Some (qe :: evs, Some tp)
          | None => match bfs f (q ++ enq) pend with
                    | Some (evs2, r2) => Some (qe :: evs ++ evs2, r2)
                    | None => None
                    end
          end
      end
  end.

(* restart on a table change: everything is asked again from the root. The result is the list of passes (all but the last
   one aborted); every pass starts with all boards disconnected (repair 8c05783) *)
Fixpoint enum (passes fuel : nat) (t : tree) (pend : list change) : option (list (list ev) * tree) :=
  match passes with
  | O => None
  | S p =>
      match bfs fuel [(root_addr, t)] pend with
      | None => None
      | Some (evs, None) => Some ([evs], t)
      | Some (evs, Some (t', pend')) =>
          match enum p fuel t' pend' with
          | Some (e2, tf) => Some (evs :: e2, tf)
          | None => None
          end
      end
  end.

Definition apply_ev (bs : list bst) (e : ev) : list bst :=
  match e with ERow a u => connect bs u a | EQuery _ _ => bs end.
Definition apply_evs (bs : list bst) (evs : list ev) : list bst := fold_left apply_ev evs bs.
(* board_i.connected = false for every board at the start of a pass; the stored address is left as it is *)
Definition disconnect_all (bs : list bst) : list bst :=
  map (fun s => {| s_uid := s_uid s; s_conn := false; s_addr := s_addr s |}) bs.
Definition apply_passes (bs : list bst) (passes : list (list ev)) : list bst :=
  fold_left (fun b p => apply_evs (disconnect_all b) p) passes bs.

Definition ev_msgs (e : ev) : list msg :=
  match e with
  | EQuery a n => (a, MSG_NODETAB_GETALL, []) :: repeat (a, MSG_NODETAB_GETNEXT, []) (N.to_nat n)
  | ERow _ _ => []
  end.

(* ------------------------------------------------------------------ high-level commands (C09 encodings) *)
Definition byte (x : N) : N := x mod 256.

Fixpoint lookup {A} (k : N) (l : list (N * A)) : option A :=
  match l with [] => None | (k', v) :: r => if k =? k' then Some v else lookup k r end.

(* bidib_send_accessory_set *)
Definition accessory_set (a : addr3) (num aspect : N) : list msg :=
  if (127 <? num) || (127 <? aspect) then [] else [(a, MSG_ACCESSORY_SET, [num; aspect])].

(* bidib_send_cs_accessory_intern, once per port value *)
Definition cs_accessory (a : addr3) (d : dacc) (pv : N * N) : msg :=
  (a, MSG_CS_ACCESSORY,
   [d_addrl d; d_addrh d;
    byte (N.lor (N.lor (N.land (fst pv) 31) (byte (N.shiftl (snd pv) 5))) (byte (N.shiftl (d_ext d) 7))); 0]).

Inductive found := NotHere | Refused | Sent (ms : list msg).

Fixpoint find_acc (id aspect : N) (s : bst) (l : list acc) : found :=
  match l with
  | [] => NotHere
  | x :: r =>
      if a_id x =? id then
        (* not connected; accessory number above 127; aspect unknown; aspect value above 127: return 1, nothing sent *)
        if s_conn s then
          if 127 <? a_num x then Refused
          else match lookup aspect (a_aspects x) with
               | Some v => if 127 <? v then Refused else Sent (accessory_set (s_addr s) (a_num x) v)
               | None => Refused end
        else Refused
      else find_acc id aspect s r
  end.

Fixpoint find_dacc (id aspect : N) (s : bst) (l : list dacc) : found :=
  match l with
  | [] => NotHere
  | x :: r =>
      if d_id x =? id then
        if s_conn s then match lookup aspect (d_aspects x) with
                         | Some pvs => Sent (map (cs_accessory (s_addr s) x) pvs)
                         | None => Refused end
        else Refused
      else find_dacc id aspect s r
  end.

Fixpoint find_per (id aspect : N) (s : bst) (l : list per) : found :=
  match l with
  | [] => NotHere
  | x :: r =>
      if p_id x =? id then
        if s_conn s then match lookup aspect (p_aspects x) with
                         | Some v => Sent [(s_addr s, MSG_LC_OUTPUT, [p_port0 x; p_port1 x; v])]
                         | None => Refused end
        else Refused
      else find_per id aspect s r
  end.

Definition found_msgs (f : found) : list msg := match f with Sent ms => ms | _ => [] end.

(* bidib_switch_point / bidib_set_signal: boards in order; per board first the board accessories, then the DCC ones *)
Fixpoint hl_accessory (sel : board -> list acc) (seld : board -> list dacc) (bb : list (board * bst)) (id aspect : N) : found :=
  match bb with
  | [] => NotHere
  | (b, s) :: r =>
      match find_acc id aspect s (sel b) with
      | NotHere => match find_dacc id aspect s (seld b) with
                   | NotHere => hl_accessory sel seld r id aspect
                   | f => f end
      | f => f
      end
  end.
Definition hl_point := hl_accessory b_points b_points_dcc.
Definition hl_signal := hl_accessory b_signals b_signals_dcc.

Fixpoint hl_periph (bb : list (board * bst)) (id aspect : N) : found :=
  match bb with
  | [] => NotHere
  | (b, s) :: r => match find_per id aspect s (b_periphs b) with NotHere => hl_periph r id aspect | f => f end
  end.

Definition dcc_format (steps : N) : N := if steps =? 28 then 2 else if steps =? 126 then 3 else 0.

(* bidib_state_get_train_peripheral_state_by_bit: first mapping with this bit *)
Fixpoint per_state (ps : list (N * N * N)) (bit : N) : option N :=
  match ps with
  | [] => None
  | (_, b, st) :: r => if b =? bit then Some st else per_state r bit
  end.
Fixpoint per_set (ps : list (N * N * N)) (bit st : N) : list (N * N * N) :=
  match ps with
  | [] => []
  | (i, b, s0) :: r => if b =? bit then (i, b, st) :: r else (i, b, s0) :: per_set r bit st
  end.

(* bidib_get_current_train_peripheral_bits: OR of state << (bit % 8) over the mappings with lo <= bit <= hi *)
Definition current_bits (t : train) (s : tst) (lo hi : N) : N :=
  fold_left (fun acc ib => let bit := snd ib in
               if (lo <=? bit) && (bit <=? hi)
               then match per_state (ts_per s) bit with
                    | Some st => byte (N.lor acc (N.shiftl st (bit mod 8)))
                    | None => acc end
               else acc) (t_periphs t) 0.

(* bidib_state_cs_drive: update of the train state from the function bytes *)
Definition upd_range (ps : list (N * N * N)) (bits : list N) (fb : list N) : list (N * N * N) :=
  fold_left (fun p i => match per_state p i with
                        | Some _ => per_set p i (N.land (N.shiftr (nth (N.to_nat (i / 8)) fb 0) (i mod 8)) 1)
                        | None => p end) bits ps.
Definition cs_drive_state (s : tst) (active speed : N) (fb : list N) : tst :=
  if active =? 0 then {| ts_fwd := true; ts_per := map (fun x => (fst (fst x), snd (fst x), 0)) (ts_per s) |}
  else
    let fwd := if N.testbit active 0 then (128 <=? speed) else ts_fwd s in
    let p1 := if N.testbit active 1 then upd_range (ts_per s) [0;1;2;3;4] fb else ts_per s in
    let p2 := if N.testbit active 2 then upd_range p1 [8;9;10;11] fb else p1 in
    let p3 := if N.testbit active 3 then upd_range p2 [12;13;14;15] fb else p2 in
    let p4 := if N.testbit active 4 then upd_range p3 [16;17;18;19;20;21;22;23] fb else p3 in
    let p5 := if N.testbit active 5 then upd_range p4 [24;25;26;27;28;29;30;31] fb else p4 in
    {| ts_fwd := fwd; ts_per := p5 |}.

(* bidib_send_cs_drive_intern: parameter checks, message, state update *)
Definition cs_drive (a : addr3) (t : train) (s : tst) (fmt active speed : N) (fb : list N) : list msg * tst :=
  if (fmt =? 1) || (3 <? fmt) || (63 <? active) || (31 <? nth 0 fb 0) then ([], s)
  else ([(a, MSG_CS_DRIVE, [t_addrl t; t_addrh t; fmt; active; speed; nth 0 fb 0; nth 1 fb 0; nth 2 fb 0; nth 3 fb 0])],
        cs_drive_state s active speed fb).

Fixpoint set_nth {A} (n : nat) (l : list A) (v : A) : list A :=
  match n, l with
  | _, [] => []
  | O, _ :: r => v :: r
  | S k, x :: r => x :: set_nth k r v
  end.

(* bidib_set_train_peripheral for train t with state s via the board (b, bs) *)
Definition hl_train_periph (t : train) (s : tst) (bs : bst) (pid st : N) : list msg * tst :=
  if 1 <? st then ([], s)                                   (* state must be 0 or 1 *)
  else if negb (s_conn bs && is_dcc (s_uid bs)) then ([], s)
  else match lookup pid (t_periphs t) with
       | None => ([], s)
       | Some bit =>
           if (5 <=? bit) && (bit <=? 7) then ([], s)       (* MSG_CS_DRIVE has no function at bits 5..7: return 1 *)
           else
           let '(active, idx, lo, hi) :=
             if bit <? 5 then (2, 0%nat, 0, 4)
             else if bit <? 12 then (4, 1%nat, 8, 11)
             else if bit <? 16 then (8, 1%nat, 12, 15)
             else if bit <? 24 then (16, 2%nat, 16, 23)
             else (32, 3%nat, 24, 31) in
           let fb0 := set_nth idx [0;0;0;0] (current_bits t s lo hi) in
           let k := N.to_nat (bit / 8) in
           let cleared := N.land (nth k fb0 0) (255 - N.shiftl 1 (bit mod 8)) in
           let fb := set_nth k fb0 (byte (N.lor cleared (byte (N.shiftl st (bit mod 8))))) in
           cs_drive (s_addr bs) t s (dcc_format (t_steps t)) active 0 fb
       end.

(* bidib_set_train_speed(train, 0, track_output): speed 0 keeps the headlight orientation *)
Definition hl_train_speed0 (t : train) (s : tst) (bs : bst) : list msg * tst :=
  if negb (s_conn bs) then ([], s)
  else if negb (is_dcc (s_uid bs)) then ([], s)
  else cs_drive (s_addr bs) t s (dcc_format (t_steps t)) 1 (if ts_fwd s then 128 else 0) [0;0;0;0].

(* bidib_set_track_output_state_all *)
Definition track_state_all (bs : list bst) (st : N) : list msg :=
  flat_map (fun s => if is_dcc (s_uid s) && s_conn s then [(s_addr s, MSG_CS_SET_STATE, [st])] else []) bs.

(* bidib_state_reset_train_params: every train x every connected track output, active = 0 *)
Definition reset_one_train (bs : list bst) (t : train) (s : tst) : list msg * tst :=
  fold_left (fun acc b => if s_conn b && is_dcc (s_uid b)
                          then let '(m, s1) := cs_drive (s_addr b) t (snd acc) (dcc_format (t_steps t)) 0 0 [0;0;0;0] in
                               (fst acc ++ m, s1)
                          else acc) bs ([], s).
Fixpoint reset_train_params (bs : list bst) (ts : list train) (ss : list tst) : list msg * list tst :=
  match ts, ss with
  | t :: tr, s :: sr => let '(m, s1) := reset_one_train bs t s in
                        let '(m2, sr2) := reset_train_params bs tr sr in (m ++ m2, s1 :: sr2)
  | _, _ => ([], ss)
  end.

(* ------------------------------------------------------------------ start-up transcript *)
Definition feature_msgs (bb : list (board * bst)) : list msg :=
  flat_map (fun x => let '(b, s) := x in
              if s_conn s then map (fun f => (s_addr s, MSG_FEATURE_SET, [fst f; snd f])) (b_features b) else []) bb.

(* bidib_state_query_occupancy *)
Definition occupancy_msgs (bb : list (board * bst)) : list msg :=
  flat_map (fun x => let '(b, s) := x in
              if s_conn s && is_dcc (s_uid s)
              then [(s_addr s, MSG_BM_GET_RANGE, [0; byte ((b_maxseg b / 8 + 1) * 8)]);
                    (s_addr s, MSG_BM_ADDR_GET_RANGE, [0; byte (b_maxseg b + 1)])]
              else []) bb.

(* the train part of bidib_state_set_initial_values: per initial value, every configured track output in
   configuration order: function command, then speed 0 *)
Definition init_train_one (bs : list bst) (t : train) (pid v : N) (s : tst) : list msg * tst :=
  fold_left (fun acc b => if is_dcc (s_uid b)
                          then let '(m1, s1) := hl_train_periph t (snd acc) b pid v in
                               let '(m2, s2) := hl_train_speed0 t s1 b in
                               (fst acc ++ m1 ++ m2, s2)
                          else acc) bs ([], s).
Fixpoint init_trains (bs : list bst) (ts : list train) (ss : list tst) (iv : list (nat * N * N)) : list msg * list tst :=
  match iv with
  | [] => ([], ss)
  | (ti, pid, v) :: r =>
      match nth_error ts ti, nth_error ss ti with
      | Some t, Some s =>
          let '(m, s1) := init_train_one bs t pid v s in
          let '(m2, ss2) := init_trains bs ts (set_nth ti ss s1) r in (m ++ m2, ss2)
      | _, _ => init_trains bs ts ss r
      end
  end.

Definition init_accessory_msgs (c : cfg) (bs : list bst) : list msg :=
  let bb := combine (c_boards c) bs in
  flat_map (fun ia => found_msgs (hl_point bb (fst ia) (snd ia))) (c_init_points c) ++
  flat_map (fun ia => found_msgs (hl_signal bb (fst ia) (snd ia))) (c_init_signals c) ++
  flat_map (fun ia => found_msgs (hl_periph bb (fst ia) (snd ia))) (c_init_periphs c).

(* what follows the enumeration in bidib_send_sys_reset *)
Definition after_enum (c : cfg) (bs : list bst) (ss : list tst) : list msg * list tst :=
  let bb := combine (c_boards c) bs in
  let '(rm, ss1) := reset_train_params bs (c_trains c) ss in
  let '(tm, ss2) := init_trains bs (c_trains c) ss1 (c_init_trains c) in
  ([(root_addr, MSG_GET_PKT_CAPACITY, [])] ++ feature_msgs bb ++ [(root_addr, MSG_SYS_ENABLE, [])] ++
   rm ++ track_state_all bs BIDIB_CS_STATE_GO ++ occupancy_msgs bb ++ init_accessory_msgs c bs ++ tm, ss2).

(* bidib_send_sys_reset on the current board table (bidib_state_reset leaves it alone; the enumeration clears the
   connected flags at the start of every pass) *)
Definition sys_reset (fuel : nat) (c : cfg) (bs : list bst) (t : tree) (pend : list change)
  : option (list msg * list bst * list tst * tree) :=
  match enum (S (length pend)) fuel t pend with
  | None => None
  | Some (passes, tf) =>
      let bs1 := apply_passes bs passes in
      let '(m, ss) := after_enum c bs1 (init_ts c) in
      Some ((root_addr, MSG_SYS_RESET, []) :: flat_map ev_msgs (concat passes) ++ m, bs1, ss, tf)
  end.

Definition probe_msgs : list msg :=
  [(root_addr, MSG_SYS_DISABLE, []); (root_addr, MSG_SYS_GET_MAGIC, []); (root_addr, MSG_SYS_GET_MAGIC, [])].

(* bidib_start_pointer, not in debug mode, valid configuration, interface answering *)
Definition startup (fuel : nat) (c : cfg) (t : tree) (pend : list change)
  : option (list msg * list bst * list tst * tree) :=
  match sys_reset fuel c (init_bs c) t pend with
  | None => None
  | Some (m, bs, ss, tf) => Some (probe_msgs ++ m, bs, ss, tf)
  end.

(* the traffic of bidib_stop *)
Definition stop_msgs (c : cfg) (bs : list bst) (ss : list tst) : list msg :=
  track_state_all bs BIDIB_CS_STATE_SOFTSTOP ++ fst (reset_train_params bs (c_trains c) ss) ++
  track_state_all bs BIDIB_CS_STATE_OFF.

(* ------------------------------------------------------------------ specification side (used by the theorems) *)
(* all nodes of a tree with the address formed by extending the parent's address by the local address *)
Fixpoint nodes_from (a : addr3) (t : tree) : list (addr3 * uid) :=
  match t with
  | T u ch => (a, u) :: flat_map (fun lc => nodes_from (ext_addr a (fst lc)) (snd lc)) ch
  end.

(* well-formed bus: only interfaces with a free address level beneath them have children (at most three levels; an
   interface on the third level is allowed but has no sub-nodes the library could address), local addresses are non-zero *)
Fixpoint wf_from (a : addr3) (t : tree) : bool :=
  match t with
  | T u ch =>
      (match ch with [] => true | _ => is_iface u && (snd a =? 0) end) &&
      forallb (fun lc => negb (fst lc =? 0) && wf_from (ext_addr a (fst lc)) (snd lc)) ch
  end.

Definition canon3 (a : addr3) : list N :=
  let '(t, s, ss) := a in if t =? 0 then [] else if s =? 0 then [t] else if ss =? 0 then [t; s] else [t; s; ss].

(* ------------------------------------------------------------------ connectivity as the public getters report it *)
(* bidib_get_nodeaddr(board) and bidib_get_nodeaddr_by_uniqueid(uid): known_and_connected + address *)
Definition get_nodeaddr (s : bst) : option addr3 := if s_conn s then Some (s_addr s) else None.
Definition get_nodeaddr_by_uid (bs : list bst) (u : uid) : option addr3 :=
  match find_bst bs u with Some s => get_nodeaddr s | None => None end.

(* bidib_get_uniqueid_by_nodeaddr through bidib_state_get_board_ref_by_nodeaddr: the first CONNECTED board that stores
   this address *)
Fixpoint get_uid_by_addr (bs : list bst) (a : addr3) : option uid :=
  match bs with
  | [] => None
  | s :: r => if s_conn s && addr3_eqb (s_addr s) a then Some (s_uid s) else get_uid_by_addr r a
  end.

(* ------------------------------------------------------------------ return codes of the high-level commands *)
Definition found_rc (f : found) : N := match f with Sent _ => 0 | _ => 1 end.
Definition hl_train_periph_rc (t : train) (bs : bst) (pid st : N) : N :=
  if 1 <? st then 1
  else if s_conn bs && is_dcc (s_uid bs)
  then match lookup pid (t_periphs t) with Some bit => if (5 <=? bit) && (bit <=? 7) then 1 else 0 | None => 1 end
  else 1.
Definition hl_train_speed_rc (bs : bst) : N := if s_conn bs && is_dcc (s_uid bs) then 0 else 1.
(* bidib_set_track_output_state + bidib_send_cs_set_state *)
Definition hl_track_state (bs : bst) (st : N) : list msg * N :=
  if (4 <? st) && negb (st =? 8) && negb (st =? 9) && negb (st =? 13) && negb (st =? 255) then ([], 1)   (* no member of t_bidib_cs_state *)
  else if s_conn bs && is_dcc (s_uid bs) then ([(s_addr bs, MSG_CS_SET_STATE, [st])], 0)
  else ([], 1).
