(* Properties_C18.v — C18: each low-level send function validates its parameters and encodes one message.

   gen_call f sc bufs is the Gallina translation (coq/SendFns.v, regenerated from src/lowlevel/*.c by
   translator/gen_sendfns.py on every check) of the public function f applied to the flattened uint8_t
   arguments sc and the caller buffers bufs; its result is what the function hands to
   bidib_buffer_message_with(out)_data: Ok Rejected (early return, nothing), Ok (Sent addr type data), Ok (SentIndet ..)
   (a message some of whose data bytes were never written), or Err fault (an access outside a caller buffer or a
   local array). spec_call is the hand-written specification (coq/SendSpec.v). wf_args states the caller's side:
   arity, every scalar a byte, every pointer argument pointing to exactly the announced number of bytes.
   The quantifier `forall f : fn` ranges over all 73 public bidib_send_* functions (fn is generated). *)
From Coq Require Import List ZArith NArith Bool.
From LB Require Import Tables Framing FramingProofs SendLib SendFns SendSpec SendProofs.
Import ListNotations.
Local Open Scope Z_scope.

(* validation and encoding: every well-formed call rejects exactly the documented out-of-range arguments and
   otherwise submits the one message whose type code, destination and data bytes are specified *)
Theorem C18_eq_spec : forall f sc bufs, wf_args f sc bufs -> gen_call f sc bufs = Ok (spec_call f sc bufs).
Proof. exact eq_spec. Qed.
Print Assumptions C18_eq_spec.

(* read off the generated code for arbitrary arguments (no well-formedness, no reference to SendSpec): whatever is
   submitted has the function's constant type code, which is a downlink code (< 0x80), and goes to node_address
   (to the interface for the three functions without that parameter) *)
Theorem C18_type_lt_0x80_and_destination : forall f sc bufs v, gen_call f sc bufs = Ok v ->
  v = Rejected \/
  (exists ty, vtype v = Some ty /\ 0 <= ty < 128) /\ vaddr v = Some (if has_node_address f then A sc else (0, 0, 0)).
Proof. exact type_and_destination. Qed.
Print Assumptions C18_type_lt_0x80_and_destination.

(* "exactly one message": a verdict carries at most one message by construction; the only function that goes on to
   call other senders after handing over its message is bidib_send_sys_reset (its restart sequence is C20's subject) *)
Theorem C18_one_message_compound_only_sys_reset : forall f, compound f = true <-> f = F_sys_reset.
Proof. exact compound_only_sys_reset. Qed.
Print Assumptions C18_one_message_compound_only_sys_reset.

(* length: at every address depth the message of an accepted call has length byte = data + depth + 3 <= 127, the
   uint8_t sum in bidib_buffer_message_with_data does not wrap, and the message is the Framing layout (C01/C02 input) *)
Theorem C18_len_le_127 : forall f sc bufs a ty d seq, wf_args f sc bufs ->
  gen_call f sc bufs = Ok (Sent a ty d) ->
  msg_of a seq ty d = Some (Z.to_N (zlen d + depth a + 3) :: addr_bytes (addrN a) ++ [seq; Z.to_N ty] ++ map Z.to_N d)
  /\ length_byte a d <= 127 /\ length_byte a d = zlen d + depth a + 3.
Proof. exact sent_msg. Qed.
Print Assumptions C18_len_le_127.

(* composition with C01: the bytes one accepted call + bidib_flush() put on the wire (sent_wire: the Framing model of
   bidib_add_to_buffer / bidib_flush_impl, which is also what the correspondence compares with the real write callback)
   are read back by the independent reference decoder as exactly that one message *)
Theorem C18_wire_one_message : forall f sc bufs a ty d, wf_args f sc bufs ->
  gen_call f sc bufs = Ok (Sent a ty d) ->
  exists m, msg_of a 0%N ty d = Some m /\ ref_decode (concat (sent_wire a ty d)) = Some [m].
Proof. exact wire_one_message. Qed.
Print Assumptions C18_wire_one_message.

(* no index leaves a caller buffer or a local array *)
Theorem C18_no_overrun : forall f sc bufs, wf_args f sc bufs -> exists v, gen_call f sc bufs = Ok v.
Proof. exact no_fault. Qed.
Print Assumptions C18_no_overrun.

(* every data byte of a submitted message was written by the function *)
Theorem C18_data_written : forall f sc bufs a ty d, wf_args f sc bufs ->
  gen_call f sc bufs <> Ok (SentIndet a ty d).
Proof. exact no_indet. Qed.
Print Assumptions C18_data_written.

(* the submitted address and data bytes are bytes (so the Framing encoding is lossless) *)
Theorem C18_bytes : forall f sc bufs a ty d, wf_args f sc bufs ->
  gen_call f sc bufs = Ok (Sent a ty d) -> addr_bytes_ok a /\ Forall byte d.
Proof. exact sent_bytes. Qed.
Print Assumptions C18_bytes.

Example C18_nonvacuous :
  gen_call F_vendor_set [1; 2; 0; 2; 1] [[65; 66]; [67]] = Ok (Sent (1, 2, 0) 22 [2; 65; 66; 1; 67]) /\
  spec_call F_vendor_set [1; 2; 0; 2; 1] [[65; 66]; [67]] = Sent (1, 2, 0) 22 [2; 65; 66; 1; 67] /\
  msg_of (1, 2, 0) 7%N 22 [2; 65; 66; 1; 67] = Some [10; 1; 2; 0; 7; 22; 2; 65; 66; 1; 67]%N /\
  gen_call F_sys_clock [0; 0; 0; 59; 151; 70; 223] [] = Ok (Sent (0, 0, 0) 24 [59; 151; 70; 223]) /\
  gen_call F_sys_clock [0; 0; 0; 60; 151; 70; 223] [] = Ok Rejected.
Proof. exact nonvacuous_call. Qed.
